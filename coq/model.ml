
(** val negb : bool -> bool **)

let negb = function
| true -> false
| false -> true

type nat =
| O
| S of nat

(** val option_map : ('a1 -> 'a2) -> 'a1 option -> 'a2 option **)

let option_map f = function
| Some a -> Some (f a)
| None -> None

(** val fst : ('a1 * 'a2) -> 'a1 **)

let fst = function
| (x, _) -> x

(** val snd : ('a1 * 'a2) -> 'a2 **)

let snd = function
| (_, y) -> y

(** val length : 'a1 list -> nat **)

let rec length = function
| [] -> O
| _ :: l' -> S (length l')

(** val app : 'a1 list -> 'a1 list -> 'a1 list **)

let rec app l m =
  match l with
  | [] -> m
  | a :: l1 -> a :: (app l1 m)

type comparison =
| Eq
| Lt
| Gt

(** val compOpp : comparison -> comparison **)

let compOpp = function
| Eq -> Eq
| Lt -> Gt
| Gt -> Lt

module Coq__1 = struct
 (** val add : nat -> nat -> nat **)
 let rec add n m =
   match n with
   | O -> m
   | S p -> S (add p m)
end
include Coq__1

(** val sub : nat -> nat -> nat **)

let rec sub n m =
  match n with
  | O -> n
  | S k -> (match m with
            | O -> n
            | S l -> sub k l)

module Nat =
 struct
  (** val eqb : nat -> nat -> bool **)

  let rec eqb n m =
    match n with
    | O -> (match m with
            | O -> true
            | S _ -> false)
    | S n' -> (match m with
               | O -> false
               | S m' -> eqb n' m')

  (** val leb : nat -> nat -> bool **)

  let rec leb n m =
    match n with
    | O -> true
    | S n' -> (match m with
               | O -> false
               | S m' -> leb n' m')

  (** val ltb : nat -> nat -> bool **)

  let ltb n m =
    leb (S n) m
 end

(** val nth : nat -> 'a1 list -> 'a1 -> 'a1 **)

let rec nth n l default =
  match n with
  | O -> (match l with
          | [] -> default
          | x :: _ -> x)
  | S m -> (match l with
            | [] -> default
            | _ :: t -> nth m t default)

(** val nth_error : 'a1 list -> nat -> 'a1 option **)

let rec nth_error l = function
| O -> (match l with
        | [] -> None
        | x :: _ -> Some x)
| S n0 -> (match l with
           | [] -> None
           | _ :: l0 -> nth_error l0 n0)

(** val rev : 'a1 list -> 'a1 list **)

let rec rev = function
| [] -> []
| x :: l' -> app (rev l') (x :: [])

(** val map : ('a1 -> 'a2) -> 'a1 list -> 'a2 list **)

let rec map f = function
| [] -> []
| a :: t -> (f a) :: (map f t)

(** val flat_map : ('a1 -> 'a2 list) -> 'a1 list -> 'a2 list **)

let rec flat_map f = function
| [] -> []
| x :: t -> app (f x) (flat_map f t)

(** val fold_left : ('a1 -> 'a2 -> 'a1) -> 'a2 list -> 'a1 -> 'a1 **)

let rec fold_left f l a0 =
  match l with
  | [] -> a0
  | b :: t -> fold_left f t (f a0 b)

(** val fold_right : ('a2 -> 'a1 -> 'a1) -> 'a1 -> 'a2 list -> 'a1 **)

let rec fold_right f a0 = function
| [] -> a0
| b :: t -> f b (fold_right f a0 t)

(** val existsb : ('a1 -> bool) -> 'a1 list -> bool **)

let rec existsb f = function
| [] -> false
| a :: l0 -> (||) (f a) (existsb f l0)

(** val forallb : ('a1 -> bool) -> 'a1 list -> bool **)

let rec forallb f = function
| [] -> true
| a :: l0 -> (&&) (f a) (forallb f l0)

(** val filter : ('a1 -> bool) -> 'a1 list -> 'a1 list **)

let rec filter f = function
| [] -> []
| x :: l0 -> if f x then x :: (filter f l0) else filter f l0

(** val combine : 'a1 list -> 'a2 list -> ('a1 * 'a2) list **)

let rec combine l l' =
  match l with
  | [] -> []
  | x :: tl ->
    (match l' with
     | [] -> []
     | y :: tl' -> (x, y) :: (combine tl tl'))

(** val firstn : nat -> 'a1 list -> 'a1 list **)

let rec firstn n l =
  match n with
  | O -> []
  | S n0 -> (match l with
             | [] -> []
             | a :: l0 -> a :: (firstn n0 l0))

(** val skipn : nat -> 'a1 list -> 'a1 list **)

let rec skipn n l =
  match n with
  | O -> l
  | S n0 -> (match l with
             | [] -> []
             | _ :: l0 -> skipn n0 l0)

(** val seq : nat -> nat -> nat list **)

let rec seq start = function
| O -> []
| S len1 -> start :: (seq (S start) len1)

(** val repeat : 'a1 -> nat -> 'a1 list **)

let rec repeat x = function
| O -> []
| S k -> x :: (repeat x k)

type positive =
| XI of positive
| XO of positive
| XH

type z =
| Z0
| Zpos of positive
| Zneg of positive

module Pos =
 struct
  type mask =
  | IsNul
  | IsPos of positive
  | IsNeg
 end

module Coq_Pos =
 struct
  (** val succ : positive -> positive **)

  let rec succ = function
  | XI p -> XO (succ p)
  | XO p -> XI p
  | XH -> XO XH

  (** val add : positive -> positive -> positive **)

  let rec add x y =
    match x with
    | XI p ->
      (match y with
       | XI q0 -> XO (add_carry p q0)
       | XO q0 -> XI (add p q0)
       | XH -> XO (succ p))
    | XO p ->
      (match y with
       | XI q0 -> XI (add p q0)
       | XO q0 -> XO (add p q0)
       | XH -> XI p)
    | XH -> (match y with
             | XI q0 -> XO (succ q0)
             | XO q0 -> XI q0
             | XH -> XO XH)

  (** val add_carry : positive -> positive -> positive **)

  and add_carry x y =
    match x with
    | XI p ->
      (match y with
       | XI q0 -> XI (add_carry p q0)
       | XO q0 -> XO (add_carry p q0)
       | XH -> XI (succ p))
    | XO p ->
      (match y with
       | XI q0 -> XO (add_carry p q0)
       | XO q0 -> XI (add p q0)
       | XH -> XO (succ p))
    | XH ->
      (match y with
       | XI q0 -> XI (succ q0)
       | XO q0 -> XO (succ q0)
       | XH -> XI XH)

  (** val pred_double : positive -> positive **)

  let rec pred_double = function
  | XI p -> XI (XO p)
  | XO p -> XI (pred_double p)
  | XH -> XH

  type mask = Pos.mask =
  | IsNul
  | IsPos of positive
  | IsNeg

  (** val succ_double_mask : mask -> mask **)

  let succ_double_mask = function
  | IsNul -> IsPos XH
  | IsPos p -> IsPos (XI p)
  | IsNeg -> IsNeg

  (** val double_mask : mask -> mask **)

  let double_mask = function
  | IsPos p -> IsPos (XO p)
  | x0 -> x0

  (** val double_pred_mask : positive -> mask **)

  let double_pred_mask = function
  | XI p -> IsPos (XO (XO p))
  | XO p -> IsPos (XO (pred_double p))
  | XH -> IsNul

  (** val sub_mask : positive -> positive -> mask **)

  let rec sub_mask x y =
    match x with
    | XI p ->
      (match y with
       | XI q0 -> double_mask (sub_mask p q0)
       | XO q0 -> succ_double_mask (sub_mask p q0)
       | XH -> IsPos (XO p))
    | XO p ->
      (match y with
       | XI q0 -> succ_double_mask (sub_mask_carry p q0)
       | XO q0 -> double_mask (sub_mask p q0)
       | XH -> IsPos (pred_double p))
    | XH -> (match y with
             | XH -> IsNul
             | _ -> IsNeg)

  (** val sub_mask_carry : positive -> positive -> mask **)

  and sub_mask_carry x y =
    match x with
    | XI p ->
      (match y with
       | XI q0 -> succ_double_mask (sub_mask_carry p q0)
       | XO q0 -> double_mask (sub_mask p q0)
       | XH -> IsPos (pred_double p))
    | XO p ->
      (match y with
       | XI q0 -> double_mask (sub_mask_carry p q0)
       | XO q0 -> succ_double_mask (sub_mask_carry p q0)
       | XH -> double_pred_mask p)
    | XH -> IsNeg

  (** val sub : positive -> positive -> positive **)

  let sub x y =
    match sub_mask x y with
    | IsPos z0 -> z0
    | _ -> XH

  (** val mul : positive -> positive -> positive **)

  let rec mul x y =
    match x with
    | XI p -> add y (XO (mul p y))
    | XO p -> XO (mul p y)
    | XH -> y

  (** val size_nat : positive -> nat **)

  let rec size_nat = function
  | XI p0 -> S (size_nat p0)
  | XO p0 -> S (size_nat p0)
  | XH -> S O

  (** val compare_cont : comparison -> positive -> positive -> comparison **)

  let rec compare_cont r x y =
    match x with
    | XI p ->
      (match y with
       | XI q0 -> compare_cont r p q0
       | XO q0 -> compare_cont Gt p q0
       | XH -> Gt)
    | XO p ->
      (match y with
       | XI q0 -> compare_cont Lt p q0
       | XO q0 -> compare_cont r p q0
       | XH -> Gt)
    | XH -> (match y with
             | XH -> r
             | _ -> Lt)

  (** val compare : positive -> positive -> comparison **)

  let compare =
    compare_cont Eq

  (** val ggcdn :
      nat -> positive -> positive -> positive * (positive * positive) **)

  let rec ggcdn n a b =
    match n with
    | O -> (XH, (a, b))
    | S n0 ->
      (match a with
       | XI a' ->
         (match b with
          | XI b' ->
            (match compare a' b' with
             | Eq -> (a, (XH, XH))
             | Lt ->
               let (g, p) = ggcdn n0 (sub b' a') a in
               let (ba, aa) = p in (g, (aa, (add aa (XO ba))))
             | Gt ->
               let (g, p) = ggcdn n0 (sub a' b') b in
               let (ab, bb) = p in (g, ((add bb (XO ab)), bb)))
          | XO b0 ->
            let (g, p) = ggcdn n0 a b0 in
            let (aa, bb) = p in (g, (aa, (XO bb)))
          | XH -> (XH, (a, XH)))
       | XO a0 ->
         (match b with
          | XI _ ->
            let (g, p) = ggcdn n0 a0 b in
            let (aa, bb) = p in (g, ((XO aa), bb))
          | XO b0 -> let (g, p) = ggcdn n0 a0 b0 in ((XO g), p)
          | XH -> (XH, (a, XH)))
       | XH -> (XH, (XH, b)))

  (** val ggcd : positive -> positive -> positive * (positive * positive) **)

  let ggcd a b =
    ggcdn (Coq__1.add (size_nat a) (size_nat b)) a b

  (** val iter_op : ('a1 -> 'a1 -> 'a1) -> positive -> 'a1 -> 'a1 **)

  let rec iter_op op p a =
    match p with
    | XI p0 -> op a (iter_op op p0 (op a a))
    | XO p0 -> iter_op op p0 (op a a)
    | XH -> a

  (** val to_nat : positive -> nat **)

  let to_nat x =
    iter_op Coq__1.add x (S O)

  (** val of_succ_nat : nat -> positive **)

  let rec of_succ_nat = function
  | O -> XH
  | S x -> succ (of_succ_nat x)
 end

module Z =
 struct
  (** val double : z -> z **)

  let double = function
  | Z0 -> Z0
  | Zpos p -> Zpos (XO p)
  | Zneg p -> Zneg (XO p)

  (** val succ_double : z -> z **)

  let succ_double = function
  | Z0 -> Zpos XH
  | Zpos p -> Zpos (XI p)
  | Zneg p -> Zneg (Coq_Pos.pred_double p)

  (** val pred_double : z -> z **)

  let pred_double = function
  | Z0 -> Zneg XH
  | Zpos p -> Zpos (Coq_Pos.pred_double p)
  | Zneg p -> Zneg (XI p)

  (** val pos_sub : positive -> positive -> z **)

  let rec pos_sub x y =
    match x with
    | XI p ->
      (match y with
       | XI q0 -> double (pos_sub p q0)
       | XO q0 -> succ_double (pos_sub p q0)
       | XH -> Zpos (XO p))
    | XO p ->
      (match y with
       | XI q0 -> pred_double (pos_sub p q0)
       | XO q0 -> double (pos_sub p q0)
       | XH -> Zpos (Coq_Pos.pred_double p))
    | XH ->
      (match y with
       | XI q0 -> Zneg (XO q0)
       | XO q0 -> Zneg (Coq_Pos.pred_double q0)
       | XH -> Z0)

  (** val add : z -> z -> z **)

  let add x y =
    match x with
    | Z0 -> y
    | Zpos x' ->
      (match y with
       | Z0 -> x
       | Zpos y' -> Zpos (Coq_Pos.add x' y')
       | Zneg y' -> pos_sub x' y')
    | Zneg x' ->
      (match y with
       | Z0 -> x
       | Zpos y' -> pos_sub y' x'
       | Zneg y' -> Zneg (Coq_Pos.add x' y'))

  (** val opp : z -> z **)

  let opp = function
  | Z0 -> Z0
  | Zpos x0 -> Zneg x0
  | Zneg x0 -> Zpos x0

  (** val mul : z -> z -> z **)

  let mul x y =
    match x with
    | Z0 -> Z0
    | Zpos x' ->
      (match y with
       | Z0 -> Z0
       | Zpos y' -> Zpos (Coq_Pos.mul x' y')
       | Zneg y' -> Zneg (Coq_Pos.mul x' y'))
    | Zneg x' ->
      (match y with
       | Z0 -> Z0
       | Zpos y' -> Zneg (Coq_Pos.mul x' y')
       | Zneg y' -> Zpos (Coq_Pos.mul x' y'))

  (** val compare : z -> z -> comparison **)

  let compare x y =
    match x with
    | Z0 -> (match y with
             | Z0 -> Eq
             | Zpos _ -> Lt
             | Zneg _ -> Gt)
    | Zpos x' -> (match y with
                  | Zpos y' -> Coq_Pos.compare x' y'
                  | _ -> Gt)
    | Zneg x' ->
      (match y with
       | Zneg y' -> compOpp (Coq_Pos.compare x' y')
       | _ -> Lt)

  (** val sgn : z -> z **)

  let sgn = function
  | Z0 -> Z0
  | Zpos _ -> Zpos XH
  | Zneg _ -> Zneg XH

  (** val leb : z -> z -> bool **)

  let leb x y =
    match compare x y with
    | Gt -> false
    | _ -> true

  (** val ltb : z -> z -> bool **)

  let ltb x y =
    match compare x y with
    | Lt -> true
    | _ -> false

  (** val abs : z -> z **)

  let abs = function
  | Zneg p -> Zpos p
  | x -> x

  (** val to_nat : z -> nat **)

  let to_nat = function
  | Zpos p -> Coq_Pos.to_nat p
  | _ -> O

  (** val of_nat : nat -> z **)

  let of_nat = function
  | O -> Z0
  | S n0 -> Zpos (Coq_Pos.of_succ_nat n0)

  (** val to_pos : z -> positive **)

  let to_pos = function
  | Zpos p -> p
  | _ -> XH

  (** val ggcd : z -> z -> z * (z * z) **)

  let ggcd a b =
    match a with
    | Z0 -> ((abs b), (Z0, (sgn b)))
    | Zpos a0 ->
      (match b with
       | Z0 -> ((abs a), ((sgn a), Z0))
       | Zpos b0 ->
         let (g, p) = Coq_Pos.ggcd a0 b0 in
         let (aa, bb) = p in ((Zpos g), ((Zpos aa), (Zpos bb)))
       | Zneg b0 ->
         let (g, p) = Coq_Pos.ggcd a0 b0 in
         let (aa, bb) = p in ((Zpos g), ((Zpos aa), (Zneg bb))))
    | Zneg a0 ->
      (match b with
       | Z0 -> ((abs a), ((sgn a), Z0))
       | Zpos b0 ->
         let (g, p) = Coq_Pos.ggcd a0 b0 in
         let (aa, bb) = p in ((Zpos g), ((Zneg aa), (Zpos bb)))
       | Zneg b0 ->
         let (g, p) = Coq_Pos.ggcd a0 b0 in
         let (aa, bb) = p in ((Zpos g), ((Zneg aa), (Zneg bb))))
 end

(** val zeq_bool : z -> z -> bool **)

let zeq_bool x y =
  match Z.compare x y with
  | Eq -> true
  | _ -> false

type q = { qnum : z; qden : positive }

(** val inject_Z : z -> q **)

let inject_Z x =
  { qnum = x; qden = XH }

(** val qeq_bool : q -> q -> bool **)

let qeq_bool x y =
  zeq_bool (Z.mul x.qnum (Zpos y.qden)) (Z.mul y.qnum (Zpos x.qden))

(** val qle_bool : q -> q -> bool **)

let qle_bool x y =
  Z.leb (Z.mul x.qnum (Zpos y.qden)) (Z.mul y.qnum (Zpos x.qden))

(** val qplus : q -> q -> q **)

let qplus x y =
  { qnum = (Z.add (Z.mul x.qnum (Zpos y.qden)) (Z.mul y.qnum (Zpos x.qden)));
    qden = (Coq_Pos.mul x.qden y.qden) }

(** val qmult : q -> q -> q **)

let qmult x y =
  { qnum = (Z.mul x.qnum y.qnum); qden = (Coq_Pos.mul x.qden y.qden) }

(** val qopp : q -> q **)

let qopp x =
  { qnum = (Z.opp x.qnum); qden = x.qden }

(** val qminus : q -> q -> q **)

let qminus x y =
  qplus x (qopp y)

(** val qinv : q -> q **)

let qinv x =
  match x.qnum with
  | Z0 -> { qnum = Z0; qden = XH }
  | Zpos p -> { qnum = (Zpos x.qden); qden = p }
  | Zneg p -> { qnum = (Zneg x.qden); qden = p }

(** val qdiv : q -> q -> q **)

let qdiv x y =
  qmult x (qinv y)

(** val qred : q -> q **)

let qred q0 =
  let { qnum = q1; qden = q2 } = q0 in
  let (r1, r2) = snd (Z.ggcd q1 (Zpos q2)) in
  { qnum = r1; qden = (Z.to_pos r2) }

type sx =
| SZ of z
| SL of sx list

(** val sx_fail : sx **)

let sx_fail =
  SL ((SZ (Zneg (XI (XI (XI (XO (XO (XI (XI (XI (XI XH))))))))))) :: [])

(** val dz : sx -> z option **)

let dz = function
| SZ z0 -> Some z0
| SL _ -> None

(** val dnat : sx -> nat option **)

let dnat = function
| SZ z0 -> if Z.ltb z0 Z0 then None else Some (Z.to_nat z0)
| SL _ -> None

(** val dbool : sx -> bool option **)

let dbool = function
| SZ z0 ->
  (match z0 with
   | Z0 -> Some false
   | Zpos p -> (match p with
                | XH -> Some true
                | _ -> None)
   | Zneg _ -> None)
| SL _ -> None

(** val opt_all : 'a1 option list -> 'a1 list option **)

let rec opt_all = function
| [] -> Some []
| o :: t ->
  (match o with
   | Some x -> (match opt_all t with
                | Some r -> Some (x :: r)
                | None -> None)
   | None -> None)

(** val dlist : (sx -> 'a1 option) -> sx -> 'a1 list option **)

let dlist f = function
| SZ _ -> None
| SL l -> opt_all (map f l)

(** val dq : sx -> q option **)

let dq = function
| SZ _ -> None
| SL l ->
  (match l with
   | [] -> None
   | s0 :: l0 ->
     (match s0 with
      | SZ n ->
        (match l0 with
         | [] -> None
         | s1 :: l1 ->
           (match s1 with
            | SZ d ->
              (match l1 with
               | [] ->
                 if Z.ltb Z0 d
                 then Some { qnum = n; qden = (Z.to_pos d) }
                 else None
               | _ :: _ -> None)
            | SL _ -> None))
      | SL _ -> None))

(** val dopt : (sx -> 'a1 option) -> sx -> 'a1 option option **)

let dopt f = function
| SZ _ -> None
| SL l ->
  (match l with
   | [] -> Some None
   | x :: l0 ->
     (match l0 with
      | [] -> (match f x with
               | Some v -> Some (Some v)
               | None -> None)
      | _ :: _ -> None))

(** val ez : z -> sx **)

let ez z0 =
  SZ z0

(** val enat : nat -> sx **)

let enat n =
  SZ (Z.of_nat n)

(** val ebool : bool -> sx **)

let ebool b =
  SZ (if b then Zpos XH else Z0)

(** val elist : ('a1 -> sx) -> 'a1 list -> sx **)

let elist f l =
  SL (map f l)

(** val eq_ : q -> sx **)

let eq_ q0 =
  let r = qred q0 in SL ((SZ r.qnum) :: ((SZ (Zpos r.qden)) :: []))

(** val eopt : ('a1 -> sx) -> 'a1 option -> sx **)

let eopt f = function
| Some x -> SL ((f x) :: [])
| None -> SL []

(** val upd : 'a1 list -> nat -> 'a1 -> 'a1 list **)

let rec upd l i x =
  match l with
  | [] -> []
  | h :: t -> (match i with
               | O -> x :: t
               | S j -> h :: (upd t j x))

(** val insert_uniq : nat -> nat list -> nat list **)

let rec insert_uniq i l = match l with
| [] -> i :: []
| j :: t ->
  if Nat.ltb i j
  then i :: l
  else if Nat.eqb i j then l else j :: (insert_uniq i t)

(** val sort_uniq : nat list -> nat list **)

let sort_uniq l =
  fold_right insert_uniq [] l

(** val qltb : q -> q -> bool **)

let qltb x y =
  negb (qle_bool y x)

(** val qsum : q list -> q **)

let rec qsum = function
| [] -> { qnum = Z0; qden = XH }
| x :: t -> qplus x (qsum t)

(** val gt_ext : q -> q option -> bool **)

let gt_ext o = function
| Some t0 -> qltb t0 o
| None -> true

type err =
| ValueError
| IndexError
| RuntimeError
| KeyError
| TypeError
| StopIteration
| OtherError

type 'a result =
| Ok of 'a
| Err of err

type 'r store = { cap : nat; occ : bool list; olist : nat list;
                  rows : 'r option list; nadd : nat; nclear : nat }

(** val init : nat -> 'a1 store **)

let init c =
  { cap = c; occ = (repeat false c); olist = []; rows = (repeat None c);
    nadd = O; nclear = O }

(** val get_occ : 'a1 store -> nat -> bool **)

let get_occ s i =
  nth i s.occ false

(** val get_row : 'a1 store -> nat -> 'a1 option **)

let get_row s i =
  nth i s.rows None

(** val len : 'a1 store -> nat **)

let len s =
  length s.olist

(** val in_range : 'a1 store -> nat list -> bool **)

let in_range s idxs =
  forallb (fun i -> Nat.ltb i s.cap) idxs

(** val retrieve :
    'a1 store -> nat list -> (bool * 'a1 option) list result **)

let retrieve s idxs =
  if in_range s idxs
  then Ok (map (fun i -> ((get_occ s i), (get_row s i))) idxs)
  else Err IndexError

(** val data : 'a1 store -> (nat * 'a1 option) list **)

let data s =
  map (fun i -> (i, (get_row s i))) s.olist

(** val new_indices : 'a1 store -> nat list -> nat list **)

let new_indices s idxs =
  filter (fun i -> negb (get_occ s i)) (sort_uniq idxs)

(** val write_rows :
    'a1 option list -> nat list -> 'a1 list -> 'a1 option list **)

let write_rows rs idxs xs =
  fold_left (fun r ix -> upd r (fst ix) (Some (snd ix))) (combine idxs xs) rs

(** val mark : bool list -> nat list -> bool list **)

let mark o new0 =
  fold_left (fun o0 i -> upd o0 i true) new0 o

(** val bump_add : 'a1 store -> 'a1 store **)

let bump_add s =
  { cap = s.cap; occ = s.occ; olist = s.olist; rows = s.rows; nadd = (S
    s.nadd); nclear = s.nclear }

(** val add_raw :
    'a1 store -> nat list -> 'a1 list -> bool -> 'a1 store * unit result **)

let add_raw s idxs xs keys_ok =
  if Nat.eqb (length idxs) O
  then (s, (Ok ()))
  else if negb (Nat.eqb (length idxs) (length xs))
       then (s, (Err ValueError))
       else if negb keys_ok
            then (s, (Err ValueError))
            else if negb (in_range s idxs)
                 then (s, (Err IndexError))
                 else let new0 = new_indices s idxs in
                      ({ cap = s.cap; occ = (mark s.occ new0); olist =
                      (app s.olist new0); rows = (write_rows s.rows idxs xs);
                      nadd = s.nadd; nclear = s.nclear }, (Ok ()))

type 'r transform =
  nat list -> 'r list -> (bool * 'r option) list -> nat list * 'r list

(** val run_transforms :
    'a1 store -> 'a1 transform list -> nat list -> 'a1 list -> (nat
    list * 'a1 list) result **)

let rec run_transforms s ts idxs xs =
  match ts with
  | [] -> Ok (idxs, xs)
  | t :: ts' ->
    (match retrieve s idxs with
     | Ok view -> let (i', x') = t idxs xs view in run_transforms s ts' i' x'
     | Err e -> Err e)

(** val add0 :
    'a1 store -> nat list -> 'a1 list -> 'a1 transform list -> bool -> 'a1
    store * unit result **)

let add0 s idxs xs ts keys_ok =
  let s1 = bump_add s in
  (match run_transforms s1 ts idxs xs with
   | Ok a -> let (i', x') = a in add_raw s1 i' x' keys_ok
   | Err e -> (s1, (Err e)))

(** val clear : 'a1 store -> 'a1 store **)

let clear s =
  { cap = s.cap; occ = (repeat false s.cap); olist = []; rows = s.rows;
    nadd = s.nadd; nclear = (S s.nclear) }

(** val resize : 'a1 store -> nat -> 'a1 store * unit result **)

let resize s c =
  if Nat.leb c s.cap
  then (s, (Err ValueError))
  else ({ cap = c; occ = (app s.occ (repeat false (sub c s.cap))); olist =
         s.olist; rows = (app s.rows (repeat None (sub c s.cap))); nadd =
         s.nadd; nclear = s.nclear }, (Ok ()))

type 'r raw = { r_cap : nat; r_occ : bool list; r_nocc : nat;
                r_olist : nat list; r_rows : 'r option list; r_nadd : 
                nat; r_nclear : nat }

(** val as_raw : 'a1 store -> 'a1 raw **)

let as_raw s =
  { r_cap = s.cap; r_occ = s.occ; r_nocc = (length s.olist); r_olist =
    s.olist; r_rows = s.rows; r_nadd = s.nadd; r_nclear = s.nclear }

(** val from_raw : 'a1 raw -> 'a1 store **)

let from_raw r =
  { cap = r.r_cap; occ = r.r_occ; olist = (firstn r.r_nocc r.r_olist); rows =
    r.r_rows; nadd = r.r_nadd; nclear = r.r_nclear }

type iter = { it_pos : nat; it_add : nat; it_clear : nat }

(** val iter_new : 'a1 store -> iter **)

let iter_new s =
  { it_pos = O; it_add = s.nadd; it_clear = s.nclear }

type 'r iter_out =
| Yield of nat * 'r option
| Stop
| Modified

(** val iter_next : 'a1 store -> iter -> iter * 'a1 iter_out **)

let iter_next s it =
  if negb ((&&) (Nat.eqb it.it_add s.nadd) (Nat.eqb it.it_clear s.nclear))
  then (it, Modified)
  else if Nat.leb (len s) it.it_pos
       then (it, Stop)
       else let i = nth it.it_pos s.olist O in
            ({ it_pos = (S it.it_pos); it_add = it.it_add; it_clear =
            it.it_clear }, (Yield (i, (get_row s i))))

(** val better : ('a1 -> q) -> 'a1 -> 'a1 -> 'a1 **)

let better key i x =
  if qltb (key i) (key x) then x else i

(** val fam : ('a1 -> q) -> 'a1 option -> 'a1 list -> 'a1 option **)

let rec fam key inc = function
| [] -> inc
| x :: t ->
  fam key (Some (match inc with
                 | Some i -> better key i x
                 | None -> x)) t

(** val first_argmax : ('a1 -> q) -> 'a1 list -> 'a1 option **)

let first_argmax key l =
  fam key None l

type 'p cand = { c_cell : nat; c_obj : q; c_pay : 'p }

type 'p row = { r_obj : q; r_thr : q; r_pay : 'p }

type cfg = { cells : nat; tmin : q option; lr : q; offset : q }

(** val look : 'a1 row store -> nat -> bool * 'a1 row option **)

let look s i =
  ((get_occ s i), (get_row s i))

(** val thr_ext : cfg -> (bool * 'a1 row option) -> q option **)

let thr_ext c v =
  if fst v
  then (match snd v with
        | Some r -> Some r.r_thr
        | None -> Some { qnum = Z0; qden = XH })
  else c.tmin

(** val thr_base : cfg -> (bool * 'a1 row option) -> q **)

let thr_base c v =
  if fst v
  then (match snd v with
        | Some r -> r.r_thr
        | None -> { qnum = Z0; qden = XH })
  else (match c.tmin with
        | Some t -> t
        | None -> { qnum = Z0; qden = XH })

(** val can_insert : cfg -> 'a1 row store -> 'a1 cand -> bool **)

let can_insert c s x =
  gt_ext x.c_obj (thr_ext c (look s x.c_cell))

(** val status_of : cfg -> 'a1 row store -> 'a1 cand -> z **)

let status_of c s x =
  if can_insert c s x
  then if get_occ s x.c_cell then Zpos XH else Zpos (XO XH)
  else Z0

(** val value_of : cfg -> 'a1 row store -> 'a1 cand -> q **)

let value_of c s x =
  qminus x.c_obj (thr_base c (look s x.c_cell))

(** val qpow : q -> nat -> q **)

let rec qpow q0 = function
| O -> { qnum = (Zpos XH); qden = XH }
| S k -> qmult q0 (qpow q0 k)

(** val qnat : nat -> q **)

let qnat n =
  inject_Z (Z.of_nat n)

(** val batch_thr : cfg -> q -> 'a1 cand list -> q **)

let batch_thr c t grp =
  let k = length grp in
  let ratio = qpow (qminus { qnum = (Zpos XH); qden = XH } c.lr) k in
  qred
    (qplus (qmult ratio t)
      (qmult (qdiv (qsum (map (fun c0 -> c0.c_obj) grp)) (qnat k))
        (qminus { qnum = (Zpos XH); qden = XH } ratio)))

(** val new_thr : cfg -> 'a1 row store -> 'a1 cand -> 'a1 cand list -> q **)

let new_thr c s w grp =
  match c.tmin with
  | Some _ -> batch_thr c (thr_base c (look s w.c_cell)) grp
  | None -> qred w.c_obj

(** val group : nat -> 'a1 cand list -> 'a1 cand list **)

let group i l =
  filter (fun x -> Nat.eqb x.c_cell i) l

(** val collect :
    (nat -> 'a1 row option) -> nat list -> (nat * 'a1 row) list **)

let collect f l =
  flat_map (fun i -> match f i with
                     | Some r -> (i, r) :: []
                     | None -> []) l

(** val winner_row :
    cfg -> 'a1 row store -> 'a1 cand list -> nat -> 'a1 row option **)

let winner_row c s filt i =
  let grp = group i filt in
  (match first_argmax (fun c0 -> c0.c_obj) grp with
   | Some w ->
     Some { r_obj = w.c_obj; r_thr = (new_thr c s w grp); r_pay = w.c_pay }
   | None -> None)

(** val batch_winners :
    cfg -> 'a1 row store -> 'a1 cand list -> (nat * 'a1 row) list **)

let batch_winners c s cs =
  let filt = filter (can_insert c s) cs in
  collect (winner_row c s filt) (sort_uniq (map (fun c0 -> c0.c_cell) filt))

(** val single_ok : cfg -> 'a1 row store -> 'a1 cand -> bool **)

let single_ok c s x =
  let v = look s x.c_cell in
  if fst v then qltb (thr_base c v) x.c_obj else gt_ext x.c_obj c.tmin

(** val single_thr : cfg -> 'a1 row store -> 'a1 cand -> q **)

let single_thr c s x =
  qred
    (qplus
      (qmult (thr_base c (look s x.c_cell))
        (qminus { qnum = (Zpos XH); qden = XH } c.lr)) (qmult x.c_obj c.lr))

(** val single_winners :
    cfg -> 'a1 row store -> 'a1 cand -> (nat * 'a1 row) list **)

let single_winners c s x =
  if single_ok c s x
  then (x.c_cell, { r_obj = x.c_obj; r_thr = (single_thr c s x); r_pay =
         x.c_pay }) :: []
  else []

(** val single_status : cfg -> 'a1 row store -> 'a1 cand -> z **)

let single_status c s x =
  if single_ok c s x
  then if get_occ s x.c_cell then Zpos XH else Zpos (XO XH)
  else Z0

(** val old_obj : 'a1 row store -> nat -> q **)

let old_obj s i =
  if get_occ s i
  then (match get_row s i with
        | Some r -> r.r_obj
        | None -> { qnum = Z0; qden = XH })
  else { qnum = Z0; qden = XH }

(** val sum_delta : 'a1 row store -> (nat * 'a1 row) list -> q **)

let sum_delta s w =
  qsum (map (fun p -> qminus (snd p).r_obj (old_obj s (fst p))) w)

(** val best_index : (nat * 'a1 row) list -> nat option **)

let best_index w =
  option_map fst (first_argmax (fun p -> (snd p).r_obj) w)

type stats = { st_num : nat; st_cov : q; st_qd : q; st_norm : q;
               st_max : q option; st_mean : q option }

type 'p archive = { a_store : 'p row store; a_sum : q; a_stats : stats;
                    a_best : (nat * 'p row) option }

(** val stats0 : stats **)

let stats0 =
  { st_num = O; st_cov = { qnum = Z0; qden = XH }; st_qd = { qnum = Z0;
    qden = XH }; st_norm = { qnum = Z0; qden = XH }; st_max = None; st_mean =
    None }

(** val arch_init : cfg -> 'a1 archive **)

let arch_init c =
  { a_store = (init c.cells); a_sum = { qnum = Z0; qden = XH }; a_stats =
    stats0; a_best = None }

(** val stats_update :
    cfg -> 'a1 archive -> 'a1 row store -> q -> nat -> 'a1 archive **)

let stats_update c a s' sum' bi =
  let n = len s' in
  let qd = qminus sum' (qmult (qnat n) c.offset) in
  (match get_row s' bi with
   | Some r ->
     (match a.a_stats.st_max with
      | Some m ->
        if qltb m r.r_obj
        then let omax = Some r.r_obj in
             let best = Some (bi, r) in
             { a_store = s'; a_sum = sum'; a_stats = { st_num = n; st_cov =
             (qdiv (qnat n) (qnat c.cells)); st_qd = qd; st_norm =
             (qdiv qd (qnat c.cells)); st_max = omax; st_mean = (Some
             (qdiv sum' (qnat n))) }; a_best = best }
        else let omax = Some m in
             let best = a.a_best in
             { a_store = s'; a_sum = sum'; a_stats = { st_num = n; st_cov =
             (qdiv (qnat n) (qnat c.cells)); st_qd = qd; st_norm =
             (qdiv qd (qnat c.cells)); st_max = omax; st_mean = (Some
             (qdiv sum' (qnat n))) }; a_best = best }
      | None ->
        let omax = Some r.r_obj in
        let best = Some (bi, r) in
        { a_store = s'; a_sum = sum'; a_stats = { st_num = n; st_cov =
        (qdiv (qnat n) (qnat c.cells)); st_qd = qd; st_norm =
        (qdiv qd (qnat c.cells)); st_max = omax; st_mean = (Some
        (qdiv sum' (qnat n))) }; a_best = best })
   | None ->
     let omax = a.a_stats.st_max in
     let best = a.a_best in
     { a_store = s'; a_sum = sum'; a_stats = { st_num = n; st_cov =
     (qdiv (qnat n) (qnat c.cells)); st_qd = qd; st_norm =
     (qdiv qd (qnat c.cells)); st_max = omax; st_mean = (Some
     (qdiv sum' (qnat n))) }; a_best = best })

(** val commit :
    cfg -> 'a1 archive -> 'a1 row store -> (nat * 'a1 row) list -> 'a1 archive **)

let commit c a s1 w =
  let s' = fst (add_raw s1 (map fst w) (map snd w) true) in
  (match best_index w with
   | Some bi -> stats_update c a s' (qplus a.a_sum (sum_delta s1 w)) bi
   | None ->
     { a_store = s'; a_sum = a.a_sum; a_stats = a.a_stats; a_best = a.a_best })

(** val add1 :
    cfg -> 'a1 archive -> 'a1 cand list -> 'a1 archive * (z list * q list) **)

let add1 c a cs =
  let s1 = bump_add a.a_store in
  ((commit c a s1 (batch_winners c s1 cs)), ((map (status_of c s1) cs),
  (map (value_of c s1) cs)))

(** val add_single :
    cfg -> 'a1 archive -> 'a1 cand -> 'a1 archive * (z * q) **)

let add_single c a x =
  let s1 = bump_add a.a_store in
  ((commit c a s1 (single_winners c s1 x)), ((single_status c s1 x),
  (value_of c s1 x)))

(** val clear0 : cfg -> 'a1 archive -> 'a1 archive **)

let clear0 _ a =
  { a_store = (clear a.a_store); a_sum = { qnum = Z0; qden = XH }; a_stats =
    stats0; a_best = None }

(** val content : 'a1 archive -> nat -> 'a1 row option **)

let content a i =
  if get_occ a.a_store i then get_row a.a_store i else None

(** val retrieve_cells :
    'a1 archive -> nat list -> (bool * (nat * 'a1 row) option) list **)

let retrieve_cells a q0 =
  map (fun i ->
    match content a i with
    | Some r -> (true, (Some (i, r)))
    | None -> (false, None)) q0

(** val sample :
    'a1 archive -> nat list -> (nat * 'a1 row option) list result **)

let sample a ints =
  if Nat.eqb (len a.a_store) O
  then Err IndexError
  else Ok
         (map (fun k ->
           let i = nth k a.a_store.olist O in (i, (get_row a.a_store i)))
           ints)

(** val elites : 'a1 archive -> (nat * 'a1 row option) list **)

let elites a =
  data a.a_store

(** val err_code : err -> z **)

let err_code = function
| ValueError -> Zpos XH
| IndexError -> Zpos (XO XH)
| RuntimeError -> Zpos (XI XH)
| KeyError -> Zpos (XO (XO XH))
| TypeError -> Zpos (XI (XO XH))
| StopIteration -> Zpos (XO (XI XH))
| OtherError -> Zpos (XI (XI XH))

(** val eres : ('a1 -> sx) -> 'a1 result -> sx **)

let eres f = function
| Ok a -> SL ((SZ Z0) :: ((f a) :: []))
| Err e -> SL ((SZ (err_code e)) :: [])

(** val erow : z option -> sx **)

let erow r =
  eopt ez r

type st = { s_store : z store; s_iters : iter list }

(** val const_transform : nat list -> z list -> z transform **)

let const_transform i' x' _ _ _ =
  (i', x')

(** val dtransform : sx -> z transform option **)

let dtransform = function
| SZ _ -> None
| SL l ->
  (match l with
   | [] -> None
   | a :: l0 ->
     (match l0 with
      | [] -> None
      | b :: l1 ->
        (match l1 with
         | [] ->
           (match dlist dnat a with
            | Some i' ->
              (match dlist dz b with
               | Some x' -> Some (const_transform i' x')
               | None -> None)
            | None -> None)
         | _ :: _ -> None)))

(** val run_op : st -> sx -> st * sx **)

let run_op s o =
  let keep = fun out -> (s, out) in
  (match o with
   | SZ _ -> keep sx_fail
   | SL l ->
     (match l with
      | [] -> keep sx_fail
      | s0 :: l0 ->
        (match s0 with
         | SZ z0 ->
           (match z0 with
            | Z0 ->
              (match l0 with
               | [] -> keep sx_fail
               | a :: l1 ->
                 (match l1 with
                  | [] -> keep sx_fail
                  | b :: l2 ->
                    (match l2 with
                     | [] -> keep sx_fail
                     | k :: l3 ->
                       (match l3 with
                        | [] -> keep sx_fail
                        | ts :: l4 ->
                          (match l4 with
                           | [] ->
                             (match dlist dnat a with
                              | Some idxs ->
                                (match dlist dz b with
                                 | Some xs ->
                                   (match dbool k with
                                    | Some kk ->
                                      (match dlist dtransform ts with
                                       | Some tl ->
                                         let (s', r) =
                                           add0 s.s_store idxs xs tl kk
                                         in
                                         ({ s_store = s'; s_iters =
                                         s.s_iters },
                                         (eres (fun _ -> SL []) r))
                                       | None -> keep sx_fail)
                                    | None -> keep sx_fail)
                                 | None -> keep sx_fail)
                              | None -> keep sx_fail)
                           | _ :: _ -> keep sx_fail)))))
            | Zpos p ->
              (match p with
               | XI p0 ->
                 (match p0 with
                  | XI p1 ->
                    (match p1 with
                     | XH ->
                       (match l0 with
                        | [] ->
                          ({ s_store = (from_raw (as_raw s.s_store));
                            s_iters = s.s_iters }, (SL ((SZ Z0) :: [])))
                        | _ :: _ -> keep sx_fail)
                     | _ -> keep sx_fail)
                  | XO p1 ->
                    (match p1 with
                     | XH ->
                       (match l0 with
                        | [] ->
                          ({ s_store = s.s_store; s_iters =
                            (app s.s_iters ((iter_new s.s_store) :: [])) },
                            (enat (length s.s_iters)))
                        | _ :: _ -> keep sx_fail)
                     | _ -> keep sx_fail)
                  | XH ->
                    (match l0 with
                     | [] -> keep sx_fail
                     | a :: l1 ->
                       (match l1 with
                        | [] ->
                          (match dlist dnat a with
                           | Some idxs ->
                             keep
                               (eres
                                 (elist (fun p1 -> SL
                                   ((ebool (fst p1)) :: ((erow (snd p1)) :: []))))
                                 (retrieve s.s_store idxs))
                           | None -> keep sx_fail)
                        | _ :: _ -> keep sx_fail)))
               | XO p0 ->
                 (match p0 with
                  | XI p1 ->
                    (match p1 with
                     | XH ->
                       (match l0 with
                        | [] -> keep sx_fail
                        | k :: l1 ->
                          (match l1 with
                           | [] ->
                             (match dnat k with
                              | Some kk ->
                                (match nth_error s.s_iters kk with
                                 | Some it ->
                                   let (it', out) = iter_next s.s_store it in
                                   ({ s_store = s.s_store; s_iters =
                                   (upd s.s_iters kk it') },
                                   (match out with
                                    | Yield (i, r) ->
                                      SL ((SZ
                                        Z0) :: ((enat i) :: ((erow r) :: [])))
                                    | Stop ->
                                      SL ((SZ (Zpos (XO (XI XH)))) :: [])
                                    | Modified ->
                                      SL ((SZ (Zpos (XI XH))) :: [])))
                                 | None -> keep sx_fail)
                              | None -> keep sx_fail)
                           | _ :: _ -> keep sx_fail))
                     | _ -> keep sx_fail)
                  | XO p1 ->
                    (match p1 with
                     | XI _ -> keep sx_fail
                     | XO p2 ->
                       (match p2 with
                        | XH ->
                          (match l0 with
                           | [] ->
                             let t = s.s_store in
                             keep (SL
                               ((enat t.cap) :: ((enat (len t)) :: ((elist
                                                                    enat
                                                                    t.olist) :: (
                               (elist ebool t.occ) :: ((enat t.nadd) :: (
                               (enat t.nclear) :: [])))))))
                           | _ :: _ -> keep sx_fail)
                        | _ -> keep sx_fail)
                     | XH ->
                       (match l0 with
                        | [] ->
                          keep
                            (elist (fun p2 -> SL
                              ((enat (fst p2)) :: ((erow (snd p2)) :: [])))
                              (data s.s_store))
                        | _ :: _ -> keep sx_fail))
                  | XH ->
                    (match l0 with
                     | [] -> keep sx_fail
                     | c :: l1 ->
                       (match l1 with
                        | [] ->
                          (match dnat c with
                           | Some cc ->
                             let (s', r) = resize s.s_store cc in
                             ({ s_store = s'; s_iters = s.s_iters },
                             (eres (fun _ -> SL []) r))
                           | None -> keep sx_fail)
                        | _ :: _ -> keep sx_fail)))
               | XH ->
                 (match l0 with
                  | [] ->
                    ({ s_store = (clear s.s_store); s_iters = s.s_iters },
                      (SL ((SZ Z0) :: [])))
                  | _ :: _ -> keep sx_fail))
            | Zneg _ -> keep sx_fail)
         | SL _ -> keep sx_fail)))

(** val run_ops : st -> sx list -> sx list **)

let rec run_ops s = function
| [] -> []
| o :: t -> let (s', out) = run_op s o in out :: (run_ops s' t)

(** val run_C13 : sx -> sx **)

let run_C13 = function
| SZ _ -> sx_fail
| SL l ->
  (match l with
   | [] -> sx_fail
   | c :: l0 ->
     (match l0 with
      | [] -> sx_fail
      | s :: l1 ->
        (match s with
         | SZ _ -> sx_fail
         | SL ops ->
           (match l1 with
            | [] ->
              (match dnat c with
               | Some cc ->
                 SL (run_ops { s_store = (init cc); s_iters = [] } ops)
               | None -> sx_fail)
            | _ :: _ -> sx_fail))))

(** val dcand : sx -> z cand option **)

let dcand = function
| SZ _ -> None
| SL l ->
  (match l with
   | [] -> None
   | c :: l0 ->
     (match l0 with
      | [] -> None
      | o :: l1 ->
        (match l1 with
         | [] -> None
         | p :: l2 ->
           (match l2 with
            | [] ->
              (match dnat c with
               | Some cc ->
                 (match dq o with
                  | Some oo ->
                    (match dz p with
                     | Some pp -> Some { c_cell = cc; c_obj = oo; c_pay = pp }
                     | None -> None)
                  | None -> None)
               | None -> None)
            | _ :: _ -> None))))

(** val dcfg : sx -> cfg option **)

let dcfg = function
| SZ _ -> None
| SL l0 ->
  (match l0 with
   | [] -> None
   | n :: l1 ->
     (match l1 with
      | [] -> None
      | t :: l2 ->
        (match l2 with
         | [] -> None
         | l :: l3 ->
           (match l3 with
            | [] -> None
            | o :: l4 ->
              (match l4 with
               | [] ->
                 (match dnat n with
                  | Some nn ->
                    (match dopt dq t with
                     | Some tm ->
                       (match dq l with
                        | Some ll ->
                          (match dq o with
                           | Some oo ->
                             Some { cells = nn; tmin = tm; lr = ll; offset =
                               oo }
                           | None -> None)
                        | None -> None)
                     | None -> None)
                  | None -> None)
               | _ :: _ -> None)))))

(** val erow_ : z row -> sx **)

let erow_ r =
  SL ((eq_ r.r_obj) :: ((eq_ r.r_thr) :: ((ez r.r_pay) :: [])))

(** val eirow : (nat * z row) -> sx **)

let eirow p =
  SL ((enat (fst p)) :: ((erow_ (snd p)) :: []))

(** val eiorow : (nat * z row option) -> sx **)

let eiorow p =
  SL ((enat (fst p)) :: ((eopt erow_ (snd p)) :: []))

(** val estats : z archive -> sx **)

let estats a =
  let s = a.a_stats in
  SL
  ((enat s.st_num) :: ((eq_ s.st_cov) :: ((eq_ s.st_qd) :: ((eq_ s.st_norm) :: (
  (eopt eq_ s.st_max) :: ((eopt eq_ s.st_mean) :: ((eopt eirow a.a_best) :: (
  (eq_ a.a_sum) :: ((enat (len a.a_store)) :: [])))))))))

(** val drow : sx -> (nat * z row) option **)

let drow = function
| SZ _ -> None
| SL l ->
  (match l with
   | [] -> None
   | i :: l0 ->
     (match l0 with
      | [] -> None
      | o :: l1 ->
        (match l1 with
         | [] -> None
         | t :: l2 ->
           (match l2 with
            | [] -> None
            | p :: l3 ->
              (match l3 with
               | [] ->
                 (match dnat i with
                  | Some ii ->
                    (match dq o with
                     | Some oo ->
                       (match dq t with
                        | Some th ->
                          (match dz p with
                           | Some pp ->
                             Some (ii, { r_obj = oo; r_thr = th; r_pay = pp })
                           | None -> None)
                        | None -> None)
                     | None -> None)
                  | None -> None)
               | _ :: _ -> None)))))

(** val load_state :
    cfg -> (nat * z row) list -> q -> q option -> (nat * z row) option -> z
    archive **)

let load_state c rows0 sum omax best =
  let s = fst (add_raw (init c.cells) (map fst rows0) (map snd rows0) true) in
  let n = len s in
  { a_store = s; a_sum = sum; a_stats = { st_num = n; st_cov =
  (qdiv (qnat n) (qnat c.cells)); st_qd =
  (qminus sum (qmult (qnat n) c.offset)); st_norm =
  (qdiv (qminus sum (qmult (qnat n) c.offset)) (qnat c.cells)); st_max =
  omax; st_mean = (if Nat.eqb n O then None else Some (qdiv sum (qnat n))) };
  a_best = best }

(** val arch_op : cfg -> z archive -> sx -> z archive * sx **)

let arch_op c a = function
| SZ _ -> (a, sx_fail)
| SL l0 ->
  (match l0 with
   | [] -> (a, sx_fail)
   | s :: l1 ->
     (match s with
      | SZ z0 ->
        (match z0 with
         | Z0 ->
           (match l1 with
            | [] -> (a, sx_fail)
            | l :: l2 ->
              (match l2 with
               | [] ->
                 (match dlist dcand l with
                  | Some cs ->
                    let (a', p) = add1 c a cs in
                    let (st0, vl) = p in
                    (a', (SL ((elist ez st0) :: ((elist eq_ vl) :: []))))
                  | None -> (a, sx_fail))
               | _ :: _ -> (a, sx_fail)))
         | Zpos p ->
           (match p with
            | XI p0 ->
              (match p0 with
               | XI p1 ->
                 (match p1 with
                  | XH ->
                    (match l1 with
                     | [] -> (a, sx_fail)
                     | rows0 :: l ->
                       (match l with
                        | [] -> (a, sx_fail)
                        | sm :: l2 ->
                          (match l2 with
                           | [] -> (a, sx_fail)
                           | om :: l3 ->
                             (match l3 with
                              | [] -> (a, sx_fail)
                              | b :: l4 ->
                                (match l4 with
                                 | [] ->
                                   (match dlist drow rows0 with
                                    | Some rr ->
                                      (match dq sm with
                                       | Some ss ->
                                         (match dopt dq om with
                                          | Some oo ->
                                            (match dopt drow b with
                                             | Some bb ->
                                               ((load_state c rr ss oo bb),
                                                 (SL []))
                                             | None -> (a, sx_fail))
                                          | None -> (a, sx_fail))
                                       | None -> (a, sx_fail))
                                    | None -> (a, sx_fail))
                                 | _ :: _ -> (a, sx_fail))))))
                  | _ -> (a, sx_fail))
               | XO p1 ->
                 (match p1 with
                  | XH ->
                    (match l1 with
                     | [] -> (a, (estats a))
                     | _ :: _ -> (a, sx_fail))
                  | _ -> (a, sx_fail))
               | XH ->
                 (match l1 with
                  | [] -> (a, sx_fail)
                  | q0 :: l ->
                    (match l with
                     | [] ->
                       (match dlist dnat q0 with
                        | Some qq ->
                          (a,
                            (elist (fun p1 -> SL
                              ((ebool (fst p1)) :: ((eopt eirow (snd p1)) :: [])))
                              (retrieve_cells a qq)))
                        | None -> (a, sx_fail))
                     | _ :: _ -> (a, sx_fail))))
            | XO p0 ->
              (match p0 with
               | XI p1 ->
                 (match p1 with
                  | XH ->
                    (match l1 with
                     | [] -> (a, sx_fail)
                     | k :: l ->
                       (match l with
                        | [] ->
                          (match dlist dnat k with
                           | Some kk ->
                             (a, (eres (elist eiorow) (sample a kk)))
                           | None -> (a, sx_fail))
                        | _ :: _ -> (a, sx_fail)))
                  | _ -> (a, sx_fail))
               | XO p1 ->
                 (match p1 with
                  | XH ->
                    (match l1 with
                     | [] -> (a, (elist eiorow (elites a)))
                     | _ :: _ -> (a, sx_fail))
                  | _ -> (a, sx_fail))
               | XH ->
                 (match l1 with
                  | [] -> ((clear0 c a), (SL []))
                  | _ :: _ -> (a, sx_fail)))
            | XH ->
              (match l1 with
               | [] -> (a, sx_fail)
               | x :: l ->
                 (match l with
                  | [] ->
                    (match dcand x with
                     | Some xx ->
                       let (a', p0) = add_single c a xx in
                       let (st0, vl) = p0 in
                       (a', (SL ((ez st0) :: ((eq_ vl) :: []))))
                     | None -> (a, sx_fail))
                  | _ :: _ -> (a, sx_fail))))
         | Zneg _ -> (a, sx_fail))
      | SL _ -> (a, sx_fail)))

(** val arch_ops : cfg -> z archive -> sx list -> sx list **)

let rec arch_ops c a = function
| [] -> []
| o :: t -> let (a', out) = arch_op c a o in out :: (arch_ops c a' t)

(** val run_ARCH : sx -> sx **)

let run_ARCH = function
| SZ _ -> sx_fail
| SL l ->
  (match l with
   | [] -> sx_fail
   | c :: l0 ->
     (match l0 with
      | [] -> sx_fail
      | s :: l1 ->
        (match s with
         | SZ _ -> sx_fail
         | SL ops ->
           (match l1 with
            | [] ->
              (match dcfg c with
               | Some cc -> SL (arch_ops cc (arch_init cc) ops)
               | None -> sx_fail)
            | _ :: _ -> sx_fail))))

(** val insert_by :
    ('a1 -> 'a1 -> bool) -> (nat -> 'a1) -> nat -> nat list -> nat list **)

let rec insert_by le key i l = match l with
| [] -> i :: []
| j :: t -> if le (key i) (key j) then i :: l else j :: (insert_by le key i t)

(** val stable_sort_by :
    ('a1 -> 'a1 -> bool) -> (nat -> 'a1) -> nat list -> nat list **)

let stable_sort_by le key l =
  fold_right (insert_by le key) [] l

(** val getq : q list -> nat -> q **)

let getq a i =
  nth i a { qnum = Z0; qden = XH }

(** val argsort : q list -> nat list **)

let argsort a =
  stable_sort_by qle_bool (getq a) (seq O (length a))

(** val lexsort : q list list -> nat -> nat list **)

let lexsort keys n =
  fold_left (fun perm k -> stable_sort_by qle_bool (getq k) perm) keys
    (seq O n)

(** val flip : 'a1 list -> 'a1 list **)

let flip =
  rev

(** val zipwith : ('a1 -> 'a2 -> 'a3) -> 'a1 list -> 'a2 list -> 'a3 list **)

let rec zipwith f a b =
  match a with
  | [] -> []
  | x :: a' ->
    (match b with
     | [] -> []
     | y :: b' -> (f x y) :: (zipwith f a' b'))

(** val dot : q list -> q list -> q **)

let dot m d =
  fold_right qplus { qnum = Z0; qden = XH } (zipwith qmult m d)

type archive0 = { a_lower : q list; a_upper : q list;
                  a_density : (q list list -> q list) option }

type data0 = { d_objective : q list; d_measures : q list list }

type add_info = { i_status : z list; i_value : q list; i_novelty : q list }

type values =
| V1 of q list
| V2 of (q * q) list

type kind =
| Imp
| TwoImp
| RD
| TwoRD
| Obj
| TwoObj
| Nov
| Density

type ranker = { r_kind : kind; r_dir : q list option; r_rng : q list }

(** val new_ranker : kind -> q list -> ranker **)

let new_ranker k stream =
  { r_kind = k; r_dir = None; r_rng = stream }

(** val is_rd : kind -> bool **)

let is_rd = function
| RD -> true
| TwoRD -> true
| _ -> false

(** val single_stage : q list -> nat list * values **)

let single_stage key =
  ((flip (argsort key)), (V1 key))

(** val two_stage : z list -> q list -> (nat list * values) result **)

let two_stage status key =
  if Nat.eqb (length status) (length key)
  then let rv = combine (map inject_Z status) key in
       Ok
       ((flip (lexsort ((map snd rv) :: ((map fst rv) :: [])) (length rv))),
       (V2 rv))
  else Err ValueError

(** val projections : q list list -> q list -> q list result **)

let projections measures d =
  if forallb (fun m -> Nat.eqb (length m) (length d)) measures
  then Ok (map (fun m -> dot m d) measures)
  else Err ValueError

(** val rank :
    ranker -> archive0 -> data0 -> add_info -> (nat list * values) result **)

let rank r a d i =
  match r.r_kind with
  | Imp -> Ok (single_stage i.i_value)
  | TwoImp -> two_stage i.i_status i.i_value
  | RD ->
    (match r.r_dir with
     | Some dir ->
       (match projections d.d_measures dir with
        | Ok p -> Ok (single_stage p)
        | Err e -> Err e)
     | None -> Err RuntimeError)
  | TwoRD ->
    (match r.r_dir with
     | Some dir ->
       (match projections d.d_measures dir with
        | Ok p -> two_stage i.i_status p
        | Err e -> Err e)
     | None -> Err RuntimeError)
  | Obj -> Ok (single_stage d.d_objective)
  | TwoObj -> two_stage i.i_status d.d_objective
  | Nov -> Ok (single_stage i.i_novelty)
  | Density ->
    (match a.a_density with
     | Some f -> let dens = f d.d_measures in Ok ((argsort dens), (V1 dens))
     | None -> Err OtherError)

(** val reset : ranker -> archive0 -> ranker result **)

let reset r a =
  if is_rd r.r_kind
  then let ranges = zipwith qminus a.a_upper a.a_lower in
       let measure_dim = length ranges in
       if Nat.ltb (length r.r_rng) measure_dim
       then Err OtherError
       else Ok { r_kind = r.r_kind; r_dir = (Some
              (zipwith qmult (firstn measure_dim r.r_rng) ranges)); r_rng =
              (skipn measure_dim r.r_rng) }
  else Ok r

(** val set_dir : ranker -> q list -> ranker **)

let set_dir r d =
  { r_kind = r.r_kind; r_dir = (Some d); r_rng = r.r_rng }

(** val batch_size : values -> nat **)

let batch_size = function
| V1 l -> length l
| V2 l -> length l

(** val key_at : values -> nat -> q * q **)

let key_at v i =
  match v with
  | V1 l -> ({ qnum = Z0; qden = XH }, (nth i l { qnum = Z0; qden = XH }))
  | V2 l -> nth i l ({ qnum = Z0; qden = XH }, { qnum = Z0; qden = XH })

(** val at_least_as_good_b : kind -> (q * q) -> (q * q) -> bool **)

let at_least_as_good_b k x y =
  match k with
  | Density -> qle_bool (snd x) (snd y)
  | _ ->
    (||) (negb (qle_bool (fst x) (fst y)))
      ((&&) (qeq_bool (fst x) (fst y)) (qle_bool (snd y) (snd x)))

(** val is_perm_b : nat list -> nat -> bool **)

let is_perm_b idx n =
  (&&) (Nat.eqb (length idx) n)
    (forallb (fun i -> existsb (Nat.eqb i) idx) (seq O n))

(** val adjacent_b : ('a1 -> 'a1 -> bool) -> 'a1 list -> bool **)

let rec adjacent_b r = function
| [] -> true
| x :: t ->
  (match t with
   | [] -> true
   | y :: _ -> (&&) (r x y) (adjacent_b r t))

(** val sorted_b : kind -> values -> nat list -> bool **)

let sorted_b k v idx =
  adjacent_b (at_least_as_good_b k) (map (key_at v) idx)

(** val c17_err_code : err -> z **)

let c17_err_code = function
| ValueError -> Zpos XH
| IndexError -> Zpos (XO XH)
| RuntimeError -> Zpos (XI XH)
| KeyError -> Zpos (XO (XO XH))
| TypeError -> Zpos (XI (XO XH))
| StopIteration -> Zpos (XO (XI XH))
| OtherError -> Zpos (XI (XI XH))

(** val c17_dkind : sx -> kind option **)

let c17_dkind = function
| SZ z0 ->
  (match z0 with
   | Z0 -> Some Imp
   | Zpos p ->
     (match p with
      | XI p0 ->
        (match p0 with
         | XI p1 -> (match p1 with
                     | XH -> Some Density
                     | _ -> None)
         | XO p1 -> (match p1 with
                     | XH -> Some TwoObj
                     | _ -> None)
         | XH -> Some TwoRD)
      | XO p0 ->
        (match p0 with
         | XI p1 -> (match p1 with
                     | XH -> Some Nov
                     | _ -> None)
         | XO p1 -> (match p1 with
                     | XH -> Some Obj
                     | _ -> None)
         | XH -> Some RD)
      | XH -> Some TwoImp)
   | Zneg _ -> None)
| SL _ -> None

(** val c17_dpair : sx -> (q * q) option **)

let c17_dpair = function
| SZ _ -> None
| SL l ->
  (match l with
   | [] -> None
   | a :: l0 ->
     (match l0 with
      | [] -> None
      | b :: l1 ->
        (match l1 with
         | [] ->
           (match dq a with
            | Some x -> (match dq b with
                         | Some y -> Some (x, y)
                         | None -> None)
            | None -> None)
         | _ :: _ -> None)))

(** val c17_dvalues : sx -> values option **)

let c17_dvalues = function
| SZ _ -> None
| SL l0 ->
  (match l0 with
   | [] -> None
   | s0 :: l1 ->
     (match s0 with
      | SZ z0 ->
        (match z0 with
         | Zpos p ->
           (match p with
            | XI _ -> None
            | XO p0 ->
              (match p0 with
               | XH ->
                 (match l1 with
                  | [] -> None
                  | l :: l2 ->
                    (match l2 with
                     | [] ->
                       (match dlist c17_dpair l with
                        | Some v -> Some (V2 v)
                        | None -> None)
                     | _ :: _ -> None))
               | _ -> None)
            | XH ->
              (match l1 with
               | [] -> None
               | l :: l2 ->
                 (match l2 with
                  | [] ->
                    (match dlist dq l with
                     | Some v -> Some (V1 v)
                     | None -> None)
                  | _ :: _ -> None)))
         | _ -> None)
      | SL _ -> None))

(** val c17_evalues : values -> sx **)

let c17_evalues = function
| V1 l -> SL ((SZ (Zpos XH)) :: ((elist eq_ l) :: []))
| V2 l ->
  SL ((SZ (Zpos (XO
    XH))) :: ((elist (fun p -> SL ((eq_ (fst p)) :: ((eq_ (snd p)) :: []))) l) :: []))

(** val c17_edir : ranker -> sx **)

let c17_edir r =
  eopt (elist eq_) r.r_dir

(** val c17_darchive : sx -> sx -> sx -> archive0 option **)

let c17_darchive lo up dens =
  match dlist dq lo with
  | Some l ->
    (match dlist dq up with
     | Some u ->
       (match dopt (dlist dq) dens with
        | Some t ->
          Some { a_lower = l; a_upper = u; a_density =
            (match t with
             | Some tab -> Some (fun _ -> tab)
             | None -> None) }
        | None -> None)
     | None -> None)
  | None -> None

(** val c17_op : ranker -> sx -> ranker * sx **)

let c17_op r = function
| SZ _ -> (r, sx_fail)
| SL l ->
  (match l with
   | [] -> (r, sx_fail)
   | s :: l0 ->
     (match s with
      | SZ z0 ->
        (match z0 with
         | Z0 ->
           (match l0 with
            | [] -> (r, sx_fail)
            | lo :: l1 ->
              (match l1 with
               | [] -> (r, sx_fail)
               | up :: l2 ->
                 (match l2 with
                  | [] ->
                    (match c17_darchive lo up (SL []) with
                     | Some a ->
                       (match reset r a with
                        | Ok r' ->
                          (r', (SL ((SZ Z0) :: ((c17_edir r') :: []))))
                        | Err e -> (r, (SL ((SZ (c17_err_code e)) :: []))))
                     | None -> (r, sx_fail))
                  | _ :: _ -> (r, sx_fail))))
         | Zpos p ->
           (match p with
            | XI p0 ->
              (match p0 with
               | XH ->
                 (match l0 with
                  | [] -> (r, sx_fail)
                  | v :: l1 ->
                    (match l1 with
                     | [] -> (r, sx_fail)
                     | idx :: l2 ->
                       (match l2 with
                        | [] ->
                          (match c17_dvalues v with
                           | Some vv ->
                             (match dlist dnat idx with
                              | Some ii ->
                                (r, (SL
                                  ((ebool (is_perm_b ii (batch_size vv))) :: (
                                  (ebool (sorted_b r.r_kind vv ii)) :: []))))
                              | None -> (r, sx_fail))
                           | None -> (r, sx_fail))
                        | _ :: _ -> (r, sx_fail))))
               | _ -> (r, sx_fail))
            | XO p0 ->
              (match p0 with
               | XI _ -> (r, sx_fail)
               | XO p1 ->
                 (match p1 with
                  | XH ->
                    (match l0 with
                     | [] ->
                       (r, (SL
                         ((c17_edir r) :: ((enat (length r.r_rng)) :: []))))
                     | _ :: _ -> (r, sx_fail))
                  | _ -> (r, sx_fail))
               | XH ->
                 (match l0 with
                  | [] -> (r, sx_fail)
                  | lo :: l1 ->
                    (match l1 with
                     | [] -> (r, sx_fail)
                     | up :: l2 ->
                       (match l2 with
                        | [] -> (r, sx_fail)
                        | dens :: l3 ->
                          (match l3 with
                           | [] -> (r, sx_fail)
                           | obj :: l4 ->
                             (match l4 with
                              | [] -> (r, sx_fail)
                              | meas :: l5 ->
                                (match l5 with
                                 | [] -> (r, sx_fail)
                                 | st0 :: l6 ->
                                   (match l6 with
                                    | [] -> (r, sx_fail)
                                    | val0 :: l7 ->
                                      (match l7 with
                                       | [] -> (r, sx_fail)
                                       | nov :: l8 ->
                                         (match l8 with
                                          | [] ->
                                            (match c17_darchive lo up dens with
                                             | Some a ->
                                               (match dlist dq obj with
                                                | Some ob ->
                                                  (match dlist (dlist dq) meas with
                                                   | Some ms ->
                                                     (match dlist dz st0 with
                                                      | Some ss ->
                                                        (match dlist dq val0 with
                                                         | Some vs ->
                                                           (match dlist dq nov with
                                                            | Some ns ->
                                                              (r,
                                                                (match 
                                                                 rank r a
                                                                   { d_objective =
                                                                   ob;
                                                                   d_measures =
                                                                   ms }
                                                                   { i_status =
                                                                   ss;
                                                                   i_value =
                                                                   vs;
                                                                   i_novelty =
                                                                   ns } with
                                                                 | Ok a0 ->
                                                                   let (
                                                                    idx, v) =
                                                                    a0
                                                                   in
                                                                   SL ((SZ
                                                                   Z0) :: (
                                                                   (elist
                                                                    enat idx) :: (
                                                                   (c17_evalues
                                                                    v) :: [])))
                                                                 | Err e ->
                                                                   SL ((SZ
                                                                    (c17_err_code
                                                                    e)) :: [])))
                                                            | None ->
                                                              (r, sx_fail))
                                                         | None ->
                                                           (r, sx_fail))
                                                      | None -> (r, sx_fail))
                                                   | None -> (r, sx_fail))
                                                | None -> (r, sx_fail))
                                             | None -> (r, sx_fail))
                                          | _ :: _ -> (r, sx_fail)))))))))))
            | XH ->
              (match l0 with
               | [] -> (r, sx_fail)
               | d :: l1 ->
                 (match l1 with
                  | [] ->
                    (match dlist dq d with
                     | Some dir -> ((set_dir r dir), (SL ((SZ Z0) :: [])))
                     | None -> (r, sx_fail))
                  | _ :: _ -> (r, sx_fail))))
         | Zneg _ -> (r, sx_fail))
      | SL _ -> (r, sx_fail)))

(** val c17_ops : ranker -> sx list -> sx list **)

let rec c17_ops r = function
| [] -> []
| o :: t -> let (r', out) = c17_op r o in out :: (c17_ops r' t)

(** val run_C17 : sx -> sx **)

let run_C17 = function
| SZ _ -> sx_fail
| SL l ->
  (match l with
   | [] -> sx_fail
   | k :: l0 ->
     (match l0 with
      | [] -> sx_fail
      | st0 :: l1 ->
        (match l1 with
         | [] -> sx_fail
         | s :: l2 ->
           (match s with
            | SZ _ -> sx_fail
            | SL ops ->
              (match l2 with
               | [] ->
                 (match c17_dkind k with
                  | Some kk ->
                    (match dlist dq st0 with
                     | Some stream -> SL (c17_ops (new_ranker kk stream) ops)
                     | None -> sx_fail)
                  | None -> sx_fail)
               | _ :: _ -> sx_fail)))))
