
val negb : bool -> bool

type nat =
| O
| S of nat

val fst : ('a1 * 'a2) -> 'a1

val snd : ('a1 * 'a2) -> 'a2

val length : 'a1 list -> nat

val app : 'a1 list -> 'a1 list -> 'a1 list

type comparison =
| Eq
| Lt
| Gt

val compOpp : comparison -> comparison

val add : nat -> nat -> nat

val sub : nat -> nat -> nat

val gmax : ('a1 -> 'a1 -> comparison) -> 'a1 -> 'a1 -> 'a1

val gmin : ('a1 -> 'a1 -> comparison) -> 'a1 -> 'a1 -> 'a1

module Nat :
 sig
  val sub : nat -> nat -> nat

  val eqb : nat -> nat -> bool

  val leb : nat -> nat -> bool

  val ltb : nat -> nat -> bool

  val max : nat -> nat -> nat

  val divmod : nat -> nat -> nat -> nat -> nat * nat

  val div : nat -> nat -> nat

  val modulo : nat -> nat -> nat
 end

val nth : nat -> 'a1 list -> 'a1 -> 'a1

val nth_error : 'a1 list -> nat -> 'a1 option

val concat : 'a1 list list -> 'a1 list

val map : ('a1 -> 'a2) -> 'a1 list -> 'a2 list

val fold_left : ('a1 -> 'a2 -> 'a1) -> 'a2 list -> 'a1 -> 'a1

val fold_right : ('a2 -> 'a1 -> 'a1) -> 'a1 -> 'a2 list -> 'a1

val forallb : ('a1 -> bool) -> 'a1 list -> bool

val filter : ('a1 -> bool) -> 'a1 list -> 'a1 list

val combine : 'a1 list -> 'a2 list -> ('a1 * 'a2) list

val firstn : nat -> 'a1 list -> 'a1 list

val skipn : nat -> 'a1 list -> 'a1 list

val repeat : 'a1 -> nat -> 'a1 list

type positive =
| XI of positive
| XO of positive
| XH

type z =
| Z0
| Zpos of positive
| Zneg of positive

module Pos :
 sig
  type mask =
  | IsNul
  | IsPos of positive
  | IsNeg
 end

module Coq_Pos :
 sig
  val succ : positive -> positive

  val add : positive -> positive -> positive

  val add_carry : positive -> positive -> positive

  val pred_double : positive -> positive

  type mask = Pos.mask =
  | IsNul
  | IsPos of positive
  | IsNeg

  val succ_double_mask : mask -> mask

  val double_mask : mask -> mask

  val double_pred_mask : positive -> mask

  val sub_mask : positive -> positive -> mask

  val sub_mask_carry : positive -> positive -> mask

  val sub : positive -> positive -> positive

  val mul : positive -> positive -> positive

  val size_nat : positive -> nat

  val compare_cont : comparison -> positive -> positive -> comparison

  val compare : positive -> positive -> comparison

  val ggcdn : nat -> positive -> positive -> positive * (positive * positive)

  val ggcd : positive -> positive -> positive * (positive * positive)

  val iter_op : ('a1 -> 'a1 -> 'a1) -> positive -> 'a1 -> 'a1

  val to_nat : positive -> nat

  val of_succ_nat : nat -> positive
 end

module Z :
 sig
  val double : z -> z

  val succ_double : z -> z

  val pred_double : z -> z

  val pos_sub : positive -> positive -> z

  val add : z -> z -> z

  val opp : z -> z

  val sub : z -> z -> z

  val mul : z -> z -> z

  val compare : z -> z -> comparison

  val sgn : z -> z

  val leb : z -> z -> bool

  val ltb : z -> z -> bool

  val max : z -> z -> z

  val min : z -> z -> z

  val abs : z -> z

  val to_nat : z -> nat

  val of_nat : nat -> z

  val to_pos : z -> positive

  val pos_div_eucl : positive -> z -> z * z

  val div_eucl : z -> z -> z * z

  val div : z -> z -> z

  val modulo : z -> z -> z

  val ggcd : z -> z -> z * (z * z)
 end

type q = { qnum : z; qden : positive }

val inject_Z : z -> q

val qcompare : q -> q -> comparison

val qle_bool : q -> q -> bool

val qplus : q -> q -> q

val qmult : q -> q -> q

val qopp : q -> q

val qminus : q -> q -> q

val qinv : q -> q

val qdiv : q -> q -> q

val qred : q -> q

type sx =
| SZ of z
| SL of sx list

val sx_fail : sx

val dz : sx -> z option

val dnat : sx -> nat option

val dbool : sx -> bool option

val opt_all : 'a1 option list -> 'a1 list option

val dlist : (sx -> 'a1 option) -> sx -> 'a1 list option

val dq : sx -> q option

val dopt : (sx -> 'a1 option) -> sx -> 'a1 option option

val ez : z -> sx

val enat : nat -> sx

val ebool : bool -> sx

val elist : ('a1 -> sx) -> 'a1 list -> sx

val eq_ : q -> sx

val eopt : ('a1 -> sx) -> 'a1 option -> sx

val prodZ : z list -> z

val ravelZ : z list -> z list -> z

val unravelZ : z list -> z -> z list

val qfloor : q -> z

val qceiling : q -> z

val qmax : q -> q -> q

val qmin : q -> q -> q

val qtrunc : q -> z

val clipZ : z -> z -> z -> z

val clipQ : q -> q -> q -> q

val grid_raw : z -> q -> q -> q -> q -> q

val grid_idx1 : z -> q -> q -> q -> q -> z

val int32_min : z

val int32_max : z

val cast_int32 : q -> z

val grid_idx1_int32_first : z -> q -> q -> q -> q -> z

type gdim = { gd : z; glo : q; ghi : q }

val grid_cells :
  (z -> q -> q -> q -> q -> z) -> q -> gdim list -> q list -> z list

val grid_dims : gdim list -> z list

val grid_to_int_index : gdim list -> z list -> z

val grid_index_of_one : q -> gdim list -> q list -> z

val grid_index_of : q -> gdim list -> q list list -> z list

val grid_index_of_single : q -> gdim list -> q list -> z

val grid_index_of_one_int32_first : q -> gdim list -> q list -> z

val dist2 : q list -> q list -> q

val argmin_pair : q list -> (nat * q) option

val argmin_first : q list -> nat

val cvt_index_one : q list list -> q list -> nat

val cvt_index_of : q list list -> q list list -> nat list

val split_sizes : 'a1 list -> nat list -> 'a1 list list

val array_split : 'a1 list -> nat -> 'a1 list list

val ceil_div : nat -> nat -> nat

val cvt_index_of_chunked :
  q list list -> nat option -> q list list -> nat list

val searchsorted_left : q list -> q -> nat

val sb_idx1_x : nat -> q list -> q -> q -> q -> nat

type sdim = { sd : nat; sbnd : q list; slo : q; shi_e : q }

val sb_cells : sdim list -> q list -> nat list

val sb_dims : sdim list -> z list

val sb_index_of_one : sdim list -> q list -> z

val dgdim : sx -> gdim option

val dsdim : sx -> sdim option

val run_C03 : sx -> sx

val upd : 'a1 list -> nat -> 'a1 -> 'a1 list

val insert_uniq : nat -> nat list -> nat list

val sort_uniq : nat list -> nat list

type err =
| ValueError
| IndexError
| RuntimeError
| KeyError
| TypeError
| StopIteration
| OtherError

type 'a result =
| Ok of 'a
| Err of err

type 'r store = { cap : nat; occ : bool list; olist : nat list;
                  rows : 'r option list; nadd : nat; nclear : nat }

val init : nat -> 'a1 store

val get_occ : 'a1 store -> nat -> bool

val get_row : 'a1 store -> nat -> 'a1 option

val len : 'a1 store -> nat

val in_range : 'a1 store -> nat list -> bool

val retrieve : 'a1 store -> nat list -> (bool * 'a1 option) list result

val data : 'a1 store -> (nat * 'a1 option) list

val new_indices : 'a1 store -> nat list -> nat list

val write_rows : 'a1 option list -> nat list -> 'a1 list -> 'a1 option list

val mark : bool list -> nat list -> bool list

val bump_add : 'a1 store -> 'a1 store

val add_raw :
  'a1 store -> nat list -> 'a1 list -> bool -> 'a1 store * unit result

type 'r transform =
  nat list -> 'r list -> (bool * 'r option) list -> nat list * 'r list

val run_transforms :
  'a1 store -> 'a1 transform list -> nat list -> 'a1 list -> (nat list * 'a1
  list) result

val add0 :
  'a1 store -> nat list -> 'a1 list -> 'a1 transform list -> bool -> 'a1
  store * unit result

val clear : 'a1 store -> 'a1 store

val resize : 'a1 store -> nat -> 'a1 store * unit result

type 'r raw = { r_cap : nat; r_occ : bool list; r_nocc : nat;
                r_olist : nat list; r_rows : 'r option list; r_nadd : 
                nat; r_nclear : nat }

val as_raw : 'a1 store -> 'a1 raw

val from_raw : 'a1 raw -> 'a1 store

type iter = { it_pos : nat; it_add : nat; it_clear : nat }

val iter_new : 'a1 store -> iter

type 'r iter_out =
| Yield of nat * 'r option
| Stop
| Modified

val iter_next : 'a1 store -> iter -> iter * 'a1 iter_out

val err_code : err -> z

val eres : ('a1 -> sx) -> 'a1 result -> sx

val erow : z option -> sx

type st = { s_store : z store; s_iters : iter list }

val const_transform : nat list -> z list -> z transform

val dtransform : sx -> z transform option

val run_op : st -> sx -> st * sx

val run_ops : st -> sx list -> sx list

val run_C13 : sx -> sx
