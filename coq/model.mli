
val negb : bool -> bool

type nat =
| O
| S of nat

val fst : ('a1 * 'a2) -> 'a1

val snd : ('a1 * 'a2) -> 'a2

val length : 'a1 list -> nat

val app : 'a1 list -> 'a1 list -> 'a1 list

type comparison =
| Eq
| Lt
| Gt

val compOpp : comparison -> comparison

val add : nat -> nat -> nat

val sub : nat -> nat -> nat

module Nat :
 sig
  val sub : nat -> nat -> nat

  val eqb : nat -> nat -> bool

  val leb : nat -> nat -> bool

  val ltb : nat -> nat -> bool

  val divmod : nat -> nat -> nat -> nat -> nat * nat

  val div : nat -> nat -> nat

  val modulo : nat -> nat -> nat
 end

val hd : 'a1 -> 'a1 list -> 'a1

val nth : nat -> 'a1 list -> 'a1 -> 'a1

val nth_error : 'a1 list -> nat -> 'a1 option

val last : 'a1 list -> 'a1 -> 'a1

val map : ('a1 -> 'a2) -> 'a1 list -> 'a2 list

val flat_map : ('a1 -> 'a2 list) -> 'a1 list -> 'a2 list

val fold_left : ('a1 -> 'a2 -> 'a1) -> 'a2 list -> 'a1 -> 'a1

val fold_right : ('a2 -> 'a1 -> 'a1) -> 'a1 -> 'a2 list -> 'a1

val existsb : ('a1 -> bool) -> 'a1 list -> bool

val forallb : ('a1 -> bool) -> 'a1 list -> bool

val filter : ('a1 -> bool) -> 'a1 list -> 'a1 list

val combine : 'a1 list -> 'a2 list -> ('a1 * 'a2) list

val firstn : nat -> 'a1 list -> 'a1 list

val seq : nat -> nat -> nat list

val repeat : 'a1 -> nat -> 'a1 list

type positive =
| XI of positive
| XO of positive
| XH

type z =
| Z0
| Zpos of positive
| Zneg of positive

module Pos :
 sig
  val succ : positive -> positive

  val add : positive -> positive -> positive

  val add_carry : positive -> positive -> positive

  val pred_double : positive -> positive

  val mul : positive -> positive -> positive

  val compare_cont : comparison -> positive -> positive -> comparison

  val compare : positive -> positive -> comparison

  val eqb : positive -> positive -> bool

  val iter_op : ('a1 -> 'a1 -> 'a1) -> positive -> 'a1 -> 'a1

  val to_nat : positive -> nat

  val of_succ_nat : nat -> positive
 end

module Z :
 sig
  val double : z -> z

  val succ_double : z -> z

  val pred_double : z -> z

  val pos_sub : positive -> positive -> z

  val add : z -> z -> z

  val opp : z -> z

  val sub : z -> z -> z

  val mul : z -> z -> z

  val compare : z -> z -> comparison

  val leb : z -> z -> bool

  val ltb : z -> z -> bool

  val eqb : z -> z -> bool

  val to_nat : z -> nat

  val of_nat : nat -> z

  val pos_div_eucl : positive -> z -> z * z

  val div_eucl : z -> z -> z * z

  val div : z -> z -> z

  val modulo : z -> z -> z
 end

type sx =
| SZ of z
| SL of sx list

val sx_fail : sx

val dz : sx -> z option

val dnat : sx -> nat option

val dbool : sx -> bool option

val opt_all : 'a1 option list -> 'a1 list option

val dlist : (sx -> 'a1 option) -> sx -> 'a1 list option

val ez : z -> sx

val enat : nat -> sx

val ebool : bool -> sx

val elist : ('a1 -> sx) -> 'a1 list -> sx

val eopt : ('a1 -> sx) -> 'a1 option -> sx

val upd : 'a1 list -> nat -> 'a1 -> 'a1 list

val memb : nat -> nat list -> bool

val insert_uniq : nat -> nat list -> nat list

val sort_uniq : nat list -> nat list

type err =
| ValueError
| IndexError
| RuntimeError
| KeyError
| TypeError
| StopIteration
| OtherError

type 'a result =
| Ok of 'a
| Err of err

type 'r store = { cap : nat; occ : bool list; olist : nat list;
                  rows : 'r option list; nadd : nat; nclear : nat }

val init : nat -> 'a1 store

val get_occ : 'a1 store -> nat -> bool

val get_row : 'a1 store -> nat -> 'a1 option

val len : 'a1 store -> nat

val in_range : 'a1 store -> nat list -> bool

val retrieve : 'a1 store -> nat list -> (bool * 'a1 option) list result

val data : 'a1 store -> (nat * 'a1 option) list

val new_indices : 'a1 store -> nat list -> nat list

val write_rows : 'a1 option list -> nat list -> 'a1 list -> 'a1 option list

val mark : bool list -> nat list -> bool list

val bump_add : 'a1 store -> 'a1 store

val add_raw :
  'a1 store -> nat list -> 'a1 list -> bool -> 'a1 store * unit result

type 'r transform =
  nat list -> 'r list -> (bool * 'r option) list -> nat list * 'r list

val run_transforms :
  'a1 store -> 'a1 transform list -> nat list -> 'a1 list -> (nat list * 'a1
  list) result

val add0 :
  'a1 store -> nat list -> 'a1 list -> 'a1 transform list -> bool -> 'a1
  store * unit result

val clear : 'a1 store -> 'a1 store

val resize : 'a1 store -> nat -> 'a1 store * unit result

type 'r raw = { r_cap : nat; r_occ : bool list; r_nocc : nat;
                r_olist : nat list; r_rows : 'r option list; r_nadd : 
                nat; r_nclear : nat }

val as_raw : 'a1 store -> 'a1 raw

val from_raw : 'a1 raw -> 'a1 store

type iter = { it_pos : nat; it_add : nat; it_clear : nat }

val iter_new : 'a1 store -> iter

type 'r iter_out =
| Yield of nat * 'r option
| Stop
| Modified

val iter_next : 'a1 store -> iter -> iter * 'a1 iter_out

type layout =
| ExactNdarray
| ViewOf
| NonContiguous
| OtherDtype
| PyList

type aval = { vbuf : nat; vw : bool; vcontig : bool; vnd : bool; vtgt : bool }

val value_of_layout : nat -> layout -> aval

val fresh_val : nat -> aval

type var = nat

type instr =
| IAsarray of var * var * bool
| IMove of var * var
| IView of var * var * bool
| IReshape of var * var
| ICopy of var * var
| IOp of var * var list * nat
| IInplace of var * var list * nat
| IReadonly of var * var
| ISetSelf of nat * var
| IGetSelf of var * nat
| IReturn of var
| IExpose of var

type env = (nat * aval) list

val lookup : env -> nat -> aval option

val bind : env -> nat -> aval -> env

val set_field : env -> nat -> aval -> env

val lookups : env -> nat list -> aval list option

type astate = { a_next : nat; a_env : env; a_self : env; a_mut : nat list;
                a_ret : aval list; a_exp : aval list; a_halt : bool }

val a_halted : astate -> astate

val a_bind : astate -> var -> aval -> astate

val a_alloc : astate -> var -> astate

val view_of : aval -> bool -> aval

val readonly_of : aval -> aval

val asarray_aliases : aval -> bool -> bool

val astep : instr -> astate -> astate

val arun : instr list -> astate -> astate

val n_store : nat

val n_internal : nat

val is_store_buf : nat -> bool

val caller_buf : nat -> nat

val f_solution : nat

val f_objective : nat

val f_measures : nat

val f_threshold : nat

val f_extra : nat

val f_occupied : nat

val f_olist : nat

val f_i0 : nat

val f_i1 : nat

val f_i2 : nat

val f_i3 : nat

val f_i4 : nat

val f_i5 : nat

val f_i6 : nat

val f_i7 : nat

val f_new0 : nat

val f_new1 : nat

val f_new2 : nat

val f_new3 : nat

val f_new4 : nat

val f_new5 : nat

val init_self : env

val init_args : nat -> layout list -> env

val a_init : layout list -> astate

type ep =
| StoreAdd
| StoreRetrieve
| StoreData
| StoreIter
| StoreRaw
| StoreOccupied
| StoreFromRaw
| ArchiveAdd
| ArchiveAddSingle
| SlidingAdd
| SlidingAddSingle
| ProximityAdd
| ProximityAddSingle
| ArchiveRetrieve
| ArchiveRetrieveSingle
| SampleElites
| ArchiveData
| BestElite
| ArchiveIter
| IndexOf
| IndexOfSingle
| CVTCtorCentroids
| CVTCtorSamples
| GridCtor
| CqdScore
| ComputeNovelty
| GaussianCtor
| IsoLineCtor
| ESCtor
| GAECtor
| GOECtor
| GACtor
| BaseTell
| ESTell
| GAETell
| GAETellDqd
| GOETellDqd
| SchedTell
| SchedTellDqd
| BanditTell
| AdamCtor
| AdamReset
| AdamStep
| GAscCtor
| GAscReset
| GAscStep
| ParallelAxes
| HeatmapDf

val ep_of_nat : nat -> ep option

val arities : ep -> nat list

val n_variants : ep -> nat

val t : nat -> var

val validate_batch : var list -> instr list

val validate_single : var -> var -> var -> instr list

val store_fields : bool -> nat list

val store_retrieve : var -> nat -> bool -> instr list

val store_write : var -> (nat * var) list -> instr list

val stats_update : var -> bool -> instr list

val archive_transforms : var -> var -> var -> var option -> bool -> instr list

val has_extra_arg : ep -> nat -> bool

val sliding_buffer_entry :
  bool -> var -> var -> var -> var option -> instr list

val archive_add_single_core :
  var -> var -> var -> var option -> bool -> instr list

val archive_add_core :
  var -> var -> var -> var option -> nat -> bool -> instr list

val opt_ev : ep -> nat -> nat -> var option

val ranker_and_opt : bool -> var list -> instr list

val emitter_tell : nat -> bool -> var list -> instr list

val tell_dqd : bool -> bool -> var list -> var -> instr list

val emitter_start : bool -> bool -> var -> instr list

val emitter_bounds : var -> instr list

val sched_archive_add :
  bool -> nat -> bool -> var -> var -> var option -> instr list

val sched_emitter_slices : var -> var -> var option -> instr list

val prog_gen : bool -> ep -> nat -> nat -> instr list

val bufs : env -> nat list

val arg_mutated : astate -> nat -> bool

val arg_retained : astate -> nat -> bool

val arg_returned : astate -> nat -> bool

val arg_exposed : astate -> nat -> bool

val rw_store : astate -> bool

val ro_store : astate -> bool

val rw_self : astate -> bool

val exp_store : astate -> bool

val row_at : 'a1 -> 'a1 store -> nat -> 'a1

val column :
  (nat -> 'a1 -> 'a2 list) -> 'a1 -> 'a1 store -> nat -> 'a2 list list

val read_dict :
  nat list -> (nat -> 'a1 -> 'a2 list) -> 'a1 -> 'a1 store -> (nat * 'a2 list
  list) list * nat list

val read_tuple :
  nat list -> (nat -> 'a1 -> 'a2 list) -> 'a1 -> 'a1 store -> 'a2 list list
  list * nat list

val read_single :
  (nat -> 'a1 -> 'a2 list) -> 'a1 -> 'a1 store -> nat -> 'a2 list list

type 'v elite = nat * (nat * 'v list) list

val transpose_rows : nat list -> (nat * 'a1 list list) list -> 'a1 elite list

val elites_of_dict : ((nat * 'a1 list list) list * nat list) -> 'a1 elite list

val elites_of_tuple :
  nat list -> ('a1 list list list * nat list) -> 'a1 elite list

val iter_collect :
  nat list -> (nat -> 'a1 -> 'a2 list) -> 'a1 -> 'a1 store -> iter -> nat ->
  'a2 elite list

val read_iter :
  nat list -> (nat -> 'a1 -> 'a2 list) -> 'a1 -> 'a1 store -> 'a2 elite list

val pandas_columns :
  'a2 -> nat list -> (nat -> nat) -> (nat -> 'a1 -> 'a2 list) -> 'a1 -> 'a1
  store -> ((nat * nat) * 'a2 list) list

val read_pandas :
  'a2 -> nat list -> (nat -> nat) -> (nat -> 'a1 -> 'a2 list) -> 'a1 -> 'a1
  store -> ((nat * nat) * 'a2 list) list * nat list

val df_get_field :
  'a1 -> (((nat * nat) * 'a1 list) list * nat list) -> nat -> 'a1 list list

val df_iterelites :
  'a1 -> nat list -> (((nat * nat) * 'a1 list) list * nat list) -> 'a1 elite
  list

val dlayout : sx -> layout option

val effects : astate -> nat -> sx

val run_alias : bool -> sx -> sx -> sx -> sx

val rp_fields : nat list

val rp_dim : nat -> nat

val rp_proj : nat -> z -> z list

val dec_field : nat -> z list -> z

val dec_elite : z elite -> sx

val rp_run : z store -> sx list -> z store option

val run_readpaths : sx -> sx -> sx

val run_C12 : sx -> sx

val err_code : err -> z

val eres : ('a1 -> sx) -> 'a1 result -> sx

val erow : z option -> sx

type st = { s_store : z store; s_iters : iter list }

val const_transform : nat list -> z list -> z transform

val dtransform : sx -> z transform option

val run_op : st -> sx -> st * sx

val run_ops : st -> sx list -> sx list

val run_C13 : sx -> sx
