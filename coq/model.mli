
val negb : bool -> bool

type nat =
| O
| S of nat

val option_map : ('a1 -> 'a2) -> 'a1 option -> 'a2 option

val fst : ('a1 * 'a2) -> 'a1

val snd : ('a1 * 'a2) -> 'a2

val length : 'a1 list -> nat

val app : 'a1 list -> 'a1 list -> 'a1 list

type comparison =
| Eq
| Lt
| Gt

val compOpp : comparison -> comparison

val add : nat -> nat -> nat

val sub : nat -> nat -> nat

module Nat :
 sig
  val eqb : nat -> nat -> bool

  val leb : nat -> nat -> bool

  val ltb : nat -> nat -> bool
 end

val nth : nat -> 'a1 list -> 'a1 -> 'a1

val nth_error : 'a1 list -> nat -> 'a1 option

val rev : 'a1 list -> 'a1 list

val map : ('a1 -> 'a2) -> 'a1 list -> 'a2 list

val flat_map : ('a1 -> 'a2 list) -> 'a1 list -> 'a2 list

val fold_left : ('a1 -> 'a2 -> 'a1) -> 'a2 list -> 'a1 -> 'a1

val fold_right : ('a2 -> 'a1 -> 'a1) -> 'a1 -> 'a2 list -> 'a1

val existsb : ('a1 -> bool) -> 'a1 list -> bool

val forallb : ('a1 -> bool) -> 'a1 list -> bool

val filter : ('a1 -> bool) -> 'a1 list -> 'a1 list

val combine : 'a1 list -> 'a2 list -> ('a1 * 'a2) list

val firstn : nat -> 'a1 list -> 'a1 list

val skipn : nat -> 'a1 list -> 'a1 list

val seq : nat -> nat -> nat list

val repeat : 'a1 -> nat -> 'a1 list

type positive =
| XI of positive
| XO of positive
| XH

type z =
| Z0
| Zpos of positive
| Zneg of positive

module Pos :
 sig
  type mask =
  | IsNul
  | IsPos of positive
  | IsNeg
 end

module Coq_Pos :
 sig
  val succ : positive -> positive

  val add : positive -> positive -> positive

  val add_carry : positive -> positive -> positive

  val pred_double : positive -> positive

  type mask = Pos.mask =
  | IsNul
  | IsPos of positive
  | IsNeg

  val succ_double_mask : mask -> mask

  val double_mask : mask -> mask

  val double_pred_mask : positive -> mask

  val sub_mask : positive -> positive -> mask

  val sub_mask_carry : positive -> positive -> mask

  val sub : positive -> positive -> positive

  val mul : positive -> positive -> positive

  val size_nat : positive -> nat

  val compare_cont : comparison -> positive -> positive -> comparison

  val compare : positive -> positive -> comparison

  val ggcdn : nat -> positive -> positive -> positive * (positive * positive)

  val ggcd : positive -> positive -> positive * (positive * positive)

  val iter_op : ('a1 -> 'a1 -> 'a1) -> positive -> 'a1 -> 'a1

  val to_nat : positive -> nat

  val of_succ_nat : nat -> positive
 end

module Z :
 sig
  val double : z -> z

  val succ_double : z -> z

  val pred_double : z -> z

  val pos_sub : positive -> positive -> z

  val add : z -> z -> z

  val opp : z -> z

  val mul : z -> z -> z

  val compare : z -> z -> comparison

  val sgn : z -> z

  val leb : z -> z -> bool

  val ltb : z -> z -> bool

  val abs : z -> z

  val to_nat : z -> nat

  val of_nat : nat -> z

  val to_pos : z -> positive

  val ggcd : z -> z -> z * (z * z)
 end

val zeq_bool : z -> z -> bool

type q = { qnum : z; qden : positive }

val inject_Z : z -> q

val qeq_bool : q -> q -> bool

val qle_bool : q -> q -> bool

val qplus : q -> q -> q

val qmult : q -> q -> q

val qopp : q -> q

val qminus : q -> q -> q

val qinv : q -> q

val qdiv : q -> q -> q

val qred : q -> q

type sx =
| SZ of z
| SL of sx list

val sx_fail : sx

val dz : sx -> z option

val dnat : sx -> nat option

val dbool : sx -> bool option

val opt_all : 'a1 option list -> 'a1 list option

val dlist : (sx -> 'a1 option) -> sx -> 'a1 list option

val dq : sx -> q option

val dopt : (sx -> 'a1 option) -> sx -> 'a1 option option

val ez : z -> sx

val enat : nat -> sx

val ebool : bool -> sx

val elist : ('a1 -> sx) -> 'a1 list -> sx

val eq_ : q -> sx

val eopt : ('a1 -> sx) -> 'a1 option -> sx

val upd : 'a1 list -> nat -> 'a1 -> 'a1 list

val insert_uniq : nat -> nat list -> nat list

val sort_uniq : nat list -> nat list

val qltb : q -> q -> bool

val qsum : q list -> q

val gt_ext : q -> q option -> bool

type err =
| ValueError
| IndexError
| RuntimeError
| KeyError
| TypeError
| StopIteration
| OtherError

type 'a result =
| Ok of 'a
| Err of err

type 'r store = { cap : nat; occ : bool list; olist : nat list;
                  rows : 'r option list; nadd : nat; nclear : nat }

val init : nat -> 'a1 store

val get_occ : 'a1 store -> nat -> bool

val get_row : 'a1 store -> nat -> 'a1 option

val len : 'a1 store -> nat

val in_range : 'a1 store -> nat list -> bool

val retrieve : 'a1 store -> nat list -> (bool * 'a1 option) list result

val data : 'a1 store -> (nat * 'a1 option) list

val new_indices : 'a1 store -> nat list -> nat list

val write_rows : 'a1 option list -> nat list -> 'a1 list -> 'a1 option list

val mark : bool list -> nat list -> bool list

val bump_add : 'a1 store -> 'a1 store

val add_raw :
  'a1 store -> nat list -> 'a1 list -> bool -> 'a1 store * unit result

type 'r transform =
  nat list -> 'r list -> (bool * 'r option) list -> nat list * 'r list

val run_transforms :
  'a1 store -> 'a1 transform list -> nat list -> 'a1 list -> (nat list * 'a1
  list) result

val add0 :
  'a1 store -> nat list -> 'a1 list -> 'a1 transform list -> bool -> 'a1
  store * unit result

val clear : 'a1 store -> 'a1 store

val resize : 'a1 store -> nat -> 'a1 store * unit result

type 'r raw = { r_cap : nat; r_occ : bool list; r_nocc : nat;
                r_olist : nat list; r_rows : 'r option list; r_nadd : 
                nat; r_nclear : nat }

val as_raw : 'a1 store -> 'a1 raw

val from_raw : 'a1 raw -> 'a1 store

type iter = { it_pos : nat; it_add : nat; it_clear : nat }

val iter_new : 'a1 store -> iter

type 'r iter_out =
| Yield of nat * 'r option
| Stop
| Modified

val iter_next : 'a1 store -> iter -> iter * 'a1 iter_out

val better : ('a1 -> q) -> 'a1 -> 'a1 -> 'a1

val fam : ('a1 -> q) -> 'a1 option -> 'a1 list -> 'a1 option

val first_argmax : ('a1 -> q) -> 'a1 list -> 'a1 option

type 'p cand = { c_cell : nat; c_obj : q; c_pay : 'p }

type 'p row = { r_obj : q; r_thr : q; r_pay : 'p }

type cfg = { cells : nat; tmin : q option; lr : q; offset : q }

val look : 'a1 row store -> nat -> bool * 'a1 row option

val thr_ext : cfg -> (bool * 'a1 row option) -> q option

val thr_base : cfg -> (bool * 'a1 row option) -> q

val can_insert : cfg -> 'a1 row store -> 'a1 cand -> bool

val status_of : cfg -> 'a1 row store -> 'a1 cand -> z

val value_of : cfg -> 'a1 row store -> 'a1 cand -> q

val qpow : q -> nat -> q

val qnat : nat -> q

val batch_thr : cfg -> q -> 'a1 cand list -> q

val new_thr : cfg -> 'a1 row store -> 'a1 cand -> 'a1 cand list -> q

val group : nat -> 'a1 cand list -> 'a1 cand list

val collect : (nat -> 'a1 row option) -> nat list -> (nat * 'a1 row) list

val winner_row :
  cfg -> 'a1 row store -> 'a1 cand list -> nat -> 'a1 row option

val batch_winners :
  cfg -> 'a1 row store -> 'a1 cand list -> (nat * 'a1 row) list

val single_ok : cfg -> 'a1 row store -> 'a1 cand -> bool

val single_thr : cfg -> 'a1 row store -> 'a1 cand -> q

val single_winners : cfg -> 'a1 row store -> 'a1 cand -> (nat * 'a1 row) list

val single_status : cfg -> 'a1 row store -> 'a1 cand -> z

val old_obj : 'a1 row store -> nat -> q

val sum_delta : 'a1 row store -> (nat * 'a1 row) list -> q

val best_index : (nat * 'a1 row) list -> nat option

type stats = { st_num : nat; st_cov : q; st_qd : q; st_norm : q;
               st_max : q option; st_mean : q option }

type 'p archive = { a_store : 'p row store; a_sum : q; a_stats : stats;
                    a_best : (nat * 'p row) option }

val stats0 : stats

val arch_init : cfg -> 'a1 archive

val stats_update :
  cfg -> 'a1 archive -> 'a1 row store -> q -> nat -> 'a1 archive

val commit :
  cfg -> 'a1 archive -> 'a1 row store -> (nat * 'a1 row) list -> 'a1 archive

val add1 :
  cfg -> 'a1 archive -> 'a1 cand list -> 'a1 archive * (z list * q list)

val add_single : cfg -> 'a1 archive -> 'a1 cand -> 'a1 archive * (z * q)

val clear0 : cfg -> 'a1 archive -> 'a1 archive

val content : 'a1 archive -> nat -> 'a1 row option

val retrieve_cells :
  'a1 archive -> nat list -> (bool * (nat * 'a1 row) option) list

val sample : 'a1 archive -> nat list -> (nat * 'a1 row option) list result

val elites : 'a1 archive -> (nat * 'a1 row option) list

val err_code : err -> z

val eres : ('a1 -> sx) -> 'a1 result -> sx

val erow : z option -> sx

type st = { s_store : z store; s_iters : iter list }

val const_transform : nat list -> z list -> z transform

val dtransform : sx -> z transform option

val run_op : st -> sx -> st * sx

val run_ops : st -> sx list -> sx list

val run_C13 : sx -> sx

val dcand : sx -> z cand option

val dcfg : sx -> cfg option

val erow_ : z row -> sx

val eirow : (nat * z row) -> sx

val eiorow : (nat * z row option) -> sx

val estats : z archive -> sx

val drow : sx -> (nat * z row) option

val load_state :
  cfg -> (nat * z row) list -> q -> q option -> (nat * z row) option -> z
  archive

val arch_op : cfg -> z archive -> sx -> z archive * sx

val arch_ops : cfg -> z archive -> sx list -> sx list

val run_ARCH : sx -> sx

val insert_by :
  ('a1 -> 'a1 -> bool) -> (nat -> 'a1) -> nat -> nat list -> nat list

val stable_sort_by :
  ('a1 -> 'a1 -> bool) -> (nat -> 'a1) -> nat list -> nat list

val getq : q list -> nat -> q

val argsort : q list -> nat list

val lexsort : q list list -> nat -> nat list

val flip : 'a1 list -> 'a1 list

val zipwith : ('a1 -> 'a2 -> 'a3) -> 'a1 list -> 'a2 list -> 'a3 list

val dot : q list -> q list -> q

type archive0 = { a_lower : q list; a_upper : q list;
                  a_density : (q list list -> q list) option }

type data0 = { d_objective : q list; d_measures : q list list }

type add_info = { i_status : z list; i_value : q list; i_novelty : q list }

type values =
| V1 of q list
| V2 of (q * q) list

type kind =
| Imp
| TwoImp
| RD
| TwoRD
| Obj
| TwoObj
| Nov
| Density

type ranker = { r_kind : kind; r_dir : q list option; r_rng : q list }

val new_ranker : kind -> q list -> ranker

val is_rd : kind -> bool

val single_stage : q list -> nat list * values

val two_stage : z list -> q list -> (nat list * values) result

val projections : q list list -> q list -> q list result

val rank :
  ranker -> archive0 -> data0 -> add_info -> (nat list * values) result

val reset : ranker -> archive0 -> ranker result

val set_dir : ranker -> q list -> ranker

val batch_size : values -> nat

val key_at : values -> nat -> q * q

val at_least_as_good_b : kind -> (q * q) -> (q * q) -> bool

val is_perm_b : nat list -> nat -> bool

val adjacent_b : ('a1 -> 'a1 -> bool) -> 'a1 list -> bool

val sorted_b : kind -> values -> nat list -> bool

val c17_err_code : err -> z

val c17_dkind : sx -> kind option

val c17_dpair : sx -> (q * q) option

val c17_dvalues : sx -> values option

val c17_evalues : values -> sx

val c17_edir : ranker -> sx

val c17_darchive : sx -> sx -> sx -> archive0 option

val c17_op : ranker -> sx -> ranker * sx

val c17_ops : ranker -> sx list -> sx list

val run_C17 : sx -> sx
