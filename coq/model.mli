
val negb : bool -> bool

type nat =
| O
| S of nat

val fst : ('a1 * 'a2) -> 'a1

val snd : ('a1 * 'a2) -> 'a2

val length : 'a1 list -> nat

val app : 'a1 list -> 'a1 list -> 'a1 list

type comparison =
| Eq
| Lt
| Gt

val compOpp : comparison -> comparison

val add : nat -> nat -> nat

val sub : nat -> nat -> nat

module Nat :
 sig
  val eqb : nat -> nat -> bool

  val leb : nat -> nat -> bool

  val ltb : nat -> nat -> bool
 end

val nth : nat -> 'a1 list -> 'a1 -> 'a1

val nth_error : 'a1 list -> nat -> 'a1 option

val map : ('a1 -> 'a2) -> 'a1 list -> 'a2 list

val fold_left : ('a1 -> 'a2 -> 'a1) -> 'a2 list -> 'a1 -> 'a1

val fold_right : ('a2 -> 'a1 -> 'a1) -> 'a1 -> 'a2 list -> 'a1

val forallb : ('a1 -> bool) -> 'a1 list -> bool

val filter : ('a1 -> bool) -> 'a1 list -> 'a1 list

val combine : 'a1 list -> 'a2 list -> ('a1 * 'a2) list

val firstn : nat -> 'a1 list -> 'a1 list

val repeat : 'a1 -> nat -> 'a1 list

type positive =
| XI of positive
| XO of positive
| XH

type z =
| Z0
| Zpos of positive
| Zneg of positive

module Pos :
 sig
  val succ : positive -> positive

  val add : positive -> positive -> positive

  val add_carry : positive -> positive -> positive

  val pred_double : positive -> positive

  val mul : positive -> positive -> positive

  val compare_cont : comparison -> positive -> positive -> comparison

  val compare : positive -> positive -> comparison

  val iter_op : ('a1 -> 'a1 -> 'a1) -> positive -> 'a1 -> 'a1

  val to_nat : positive -> nat

  val of_succ_nat : nat -> positive
 end

module Z :
 sig
  val double : z -> z

  val succ_double : z -> z

  val pred_double : z -> z

  val pos_sub : positive -> positive -> z

  val add : z -> z -> z

  val opp : z -> z

  val mul : z -> z -> z

  val compare : z -> z -> comparison

  val ltb : z -> z -> bool

  val to_nat : z -> nat

  val of_nat : nat -> z
 end

type sx =
| SZ of z
| SL of sx list

val sx_fail : sx

val dz : sx -> z option

val dnat : sx -> nat option

val dbool : sx -> bool option

val opt_all : 'a1 option list -> 'a1 list option

val dlist : (sx -> 'a1 option) -> sx -> 'a1 list option

val ez : z -> sx

val enat : nat -> sx

val ebool : bool -> sx

val elist : ('a1 -> sx) -> 'a1 list -> sx

val eopt : ('a1 -> sx) -> 'a1 option -> sx

val upd : 'a1 list -> nat -> 'a1 -> 'a1 list

val insert_uniq : nat -> nat list -> nat list

val sort_uniq : nat list -> nat list

type err =
| ValueError
| IndexError
| RuntimeError
| KeyError
| TypeError
| StopIteration
| OtherError

type 'a result =
| Ok of 'a
| Err of err

type 'r store = { cap : nat; occ : bool list; olist : nat list;
                  rows : 'r option list; nadd : nat; nclear : nat }

val init : nat -> 'a1 store

val get_occ : 'a1 store -> nat -> bool

val get_row : 'a1 store -> nat -> 'a1 option

val len : 'a1 store -> nat

val in_range : 'a1 store -> nat list -> bool

val retrieve : 'a1 store -> nat list -> (bool * 'a1 option) list result

val data : 'a1 store -> (nat * 'a1 option) list

val new_indices : 'a1 store -> nat list -> nat list

val write_rows : 'a1 option list -> nat list -> 'a1 list -> 'a1 option list

val mark : bool list -> nat list -> bool list

val bump_add : 'a1 store -> 'a1 store

val add_raw :
  'a1 store -> nat list -> 'a1 list -> bool -> 'a1 store * unit result

type 'r transform =
  nat list -> 'r list -> (bool * 'r option) list -> nat list * 'r list

val run_transforms :
  'a1 store -> 'a1 transform list -> nat list -> 'a1 list -> (nat list * 'a1
  list) result

val add0 :
  'a1 store -> nat list -> 'a1 list -> 'a1 transform list -> bool -> 'a1
  store * unit result

val clear : 'a1 store -> 'a1 store

val resize : 'a1 store -> nat -> 'a1 store * unit result

type 'r raw = { r_cap : nat; r_occ : bool list; r_nocc : nat;
                r_olist : nat list; r_rows : 'r option list; r_nadd : 
                nat; r_nclear : nat }

val as_raw : 'a1 store -> 'a1 raw

val from_raw : 'a1 raw -> 'a1 store

type iter = { it_pos : nat; it_add : nat; it_clear : nat }

val iter_new : 'a1 store -> iter

type 'r iter_out =
| Yield of nat * 'r option
| Stop
| Modified

val iter_next : 'a1 store -> iter -> iter * 'a1 iter_out

val err_code : err -> z

val eres : ('a1 -> sx) -> 'a1 result -> sx

val erow : z option -> sx

type st = { s_store : z store; s_iters : iter list }

val const_transform : nat list -> z list -> z transform

val dtransform : sx -> z transform option

val run_op : st -> sx -> st * sx

val run_ops : st -> sx list -> sx list

val run_C13 : sx -> sx
