
val negb : bool -> bool

type nat =
| O
| S of nat

val option_map : ('a1 -> 'a2) -> 'a1 option -> 'a2 option

val fst : ('a1 * 'a2) -> 'a1

val snd : ('a1 * 'a2) -> 'a2

val length : 'a1 list -> nat

val app : 'a1 list -> 'a1 list -> 'a1 list

type comparison =
| Eq
| Lt
| Gt

val compOpp : comparison -> comparison

val add : nat -> nat -> nat

val mul : nat -> nat -> nat

val sub : nat -> nat -> nat

module Nat :
 sig
  val sub : nat -> nat -> nat

  val eqb : nat -> nat -> bool

  val leb : nat -> nat -> bool

  val ltb : nat -> nat -> bool

  val divmod : nat -> nat -> nat -> nat -> nat * nat

  val div : nat -> nat -> nat

  val modulo : nat -> nat -> nat
 end

val tl : 'a1 list -> 'a1 list

val nth : nat -> 'a1 list -> 'a1 -> 'a1

val nth_error : 'a1 list -> nat -> 'a1 option

val removelast : 'a1 list -> 'a1 list

val rev : 'a1 list -> 'a1 list

val map : ('a1 -> 'a2) -> 'a1 list -> 'a2 list

val flat_map : ('a1 -> 'a2 list) -> 'a1 list -> 'a2 list

val fold_left : ('a1 -> 'a2 -> 'a1) -> 'a2 list -> 'a1 -> 'a1

val fold_right : ('a2 -> 'a1 -> 'a1) -> 'a1 -> 'a2 list -> 'a1

val forallb : ('a1 -> bool) -> 'a1 list -> bool

val filter : ('a1 -> bool) -> 'a1 list -> 'a1 list

val combine : 'a1 list -> 'a2 list -> ('a1 * 'a2) list

val firstn : nat -> 'a1 list -> 'a1 list

val seq : nat -> nat -> nat list

val repeat : 'a1 -> nat -> 'a1 list

type positive =
| XI of positive
| XO of positive
| XH

type z =
| Z0
| Zpos of positive
| Zneg of positive

module Pos :
 sig
  type mask =
  | IsNul
  | IsPos of positive
  | IsNeg
 end

module Coq_Pos :
 sig
  val succ : positive -> positive

  val add : positive -> positive -> positive

  val add_carry : positive -> positive -> positive

  val pred_double : positive -> positive

  type mask = Pos.mask =
  | IsNul
  | IsPos of positive
  | IsNeg

  val succ_double_mask : mask -> mask

  val double_mask : mask -> mask

  val double_pred_mask : positive -> mask

  val sub_mask : positive -> positive -> mask

  val sub_mask_carry : positive -> positive -> mask

  val sub : positive -> positive -> positive

  val mul : positive -> positive -> positive

  val size_nat : positive -> nat

  val compare_cont : comparison -> positive -> positive -> comparison

  val compare : positive -> positive -> comparison

  val ggcdn : nat -> positive -> positive -> positive * (positive * positive)

  val ggcd : positive -> positive -> positive * (positive * positive)

  val iter_op : ('a1 -> 'a1 -> 'a1) -> positive -> 'a1 -> 'a1

  val to_nat : positive -> nat

  val of_succ_nat : nat -> positive
 end

module Z :
 sig
  val double : z -> z

  val succ_double : z -> z

  val pred_double : z -> z

  val pos_sub : positive -> positive -> z

  val add : z -> z -> z

  val opp : z -> z

  val mul : z -> z -> z

  val compare : z -> z -> comparison

  val sgn : z -> z

  val leb : z -> z -> bool

  val ltb : z -> z -> bool

  val abs : z -> z

  val to_nat : z -> nat

  val of_nat : nat -> z

  val to_pos : z -> positive

  val ggcd : z -> z -> z * (z * z)
 end

val zeq_bool : z -> z -> bool

type q = { qnum : z; qden : positive }

val qeq_bool : q -> q -> bool

val qle_bool : q -> q -> bool

val qplus : q -> q -> q

val qmult : q -> q -> q

val qopp : q -> q

val qminus : q -> q -> q

val qinv : q -> q

val qdiv : q -> q -> q

val qred : q -> q

type sx =
| SZ of z
| SL of sx list

val sx_fail : sx

val dz : sx -> z option

val dnat : sx -> nat option

val dbool : sx -> bool option

val opt_all : 'a1 option list -> 'a1 list option

val dlist : (sx -> 'a1 option) -> sx -> 'a1 list option

val dq : sx -> q option

val dopt : (sx -> 'a1 option) -> sx -> 'a1 option option

val ez : z -> sx

val enat : nat -> sx

val ebool : bool -> sx

val elist : ('a1 -> sx) -> 'a1 list -> sx

val eq_ : q -> sx

val eopt : ('a1 -> sx) -> 'a1 option -> sx

val upd : 'a1 list -> nat -> 'a1 -> 'a1 list

val insert_uniq : nat -> nat list -> nat list

val sort_uniq : nat list -> nat list

type err =
| ValueError
| IndexError
| RuntimeError
| KeyError
| TypeError
| StopIteration
| OtherError

type 'a result =
| Ok of 'a
| Err of err

type 'r store = { cap : nat; occ : bool list; olist : nat list;
                  rows : 'r option list; nadd : nat; nclear : nat }

val init : nat -> 'a1 store

val get_occ : 'a1 store -> nat -> bool

val get_row : 'a1 store -> nat -> 'a1 option

val len : 'a1 store -> nat

val in_range : 'a1 store -> nat list -> bool

val retrieve : 'a1 store -> nat list -> (bool * 'a1 option) list result

val data : 'a1 store -> (nat * 'a1 option) list

val new_indices : 'a1 store -> nat list -> nat list

val write_rows : 'a1 option list -> nat list -> 'a1 list -> 'a1 option list

val mark : bool list -> nat list -> bool list

val bump_add : 'a1 store -> 'a1 store

val add_raw :
  'a1 store -> nat list -> 'a1 list -> bool -> 'a1 store * unit result

type 'r transform =
  nat list -> 'r list -> (bool * 'r option) list -> nat list * 'r list

val run_transforms :
  'a1 store -> 'a1 transform list -> nat list -> 'a1 list -> (nat list * 'a1
  list) result

val add0 :
  'a1 store -> nat list -> 'a1 list -> 'a1 transform list -> bool -> 'a1
  store * unit result

val clear : 'a1 store -> 'a1 store

val resize : 'a1 store -> nat -> 'a1 store * unit result

type 'r raw = { r_cap : nat; r_occ : bool list; r_nocc : nat;
                r_olist : nat list; r_rows : 'r option list; r_nadd : 
                nat; r_nclear : nat }

val as_raw : 'a1 store -> 'a1 raw

val from_raw : 'a1 raw -> 'a1 store

type iter = { it_pos : nat; it_add : nat; it_clear : nat }

val iter_new : 'a1 store -> iter

type 'r iter_out =
| Yield of nat * 'r option
| Stop
| Modified

val iter_next : 'a1 store -> iter -> iter * 'a1 iter_out

val err_code : err -> z

val eres : ('a1 -> sx) -> 'a1 result -> sx

val erow : z option -> sx

type st = { s_store : z store; s_iters : iter list }

val const_transform : nat list -> z list -> z transform

val dtransform : sx -> z transform option

val run_op : st -> sx -> st * sx

val run_ops : st -> sx list -> sx list

val run_C13 : sx -> sx

val prod0 : nat list -> nat

val unravel : nat list -> nat -> nat list

type elite = { e_index : nat; e_obj : q; e_meas : q list }

type listing = elite list

type geometry = { g_dims : nat list; g_boundaries : q list list;
                  g_lower : q list; g_upper : q list;
                  g_centroids : q list list }

type world = { w_geom : geometry; w_elites : listing; w_frame : listing option }

type opts = { o_df : bool; o_transpose : bool; o_vmin : q option;
              o_vmax : q option; o_sort : bool; o_order : nat list option;
              o_lines : bool; o_bounds : (q list * q list) option }

val qnth : q list -> nat -> q

val pair2 : q list -> q * q

val flip2 : ('a1 * 'a1) -> 'a1 * 'a1

val qmin : q -> q -> q

val qmax : q -> q -> q

val min_list : q list -> q option

val max_list : q list -> q option

val pick : q option -> q option -> q option

val limits_strict : q option -> q option -> q list -> (q * q) result

val c001 : q

val somes : 'a1 option list -> 'a1 list

val all_below : nat -> nat list -> bool

val scatter : 'a1 list -> nat list -> 'a1 list -> 'a1 list

val set2 : 'a1 list list -> nat -> nat -> 'a1 -> 'a1 list list

val scatter2 : 'a1 list list -> (nat * nat) list -> 'a1 list -> 'a1 list list

val transpose : 'a1 -> nat -> 'a1 list list -> 'a1 list list

type heatmap = { hm_xb : q list; hm_yb : q list;
                 hm_colors : q option list list; hm_xlim : (q * q);
                 hm_ylim : (q * q) option; hm_clim : (q option * q option);
                 hm_markers : (q * q) list }

type scatterplot = { sc_offsets : (q * q) list; sc_array : q list;
                     sc_vlines : (q * (q * q)) list;
                     sc_hlines : (q * (q * q)) list; sc_xlim : (q * q);
                     sc_ylim : (q * q); sc_clim : (q * q) }

type voronoi = { vo_sites : (q * q) list; vo_obj : q option list;
                 vo_t : q option list; vo_xlim : (q * q); vo_ylim : (q * q);
                 vo_clim : (q * q) option; vo_markers : (q * q) list }

type parallel = { pa_lines : q list list; pa_objs : q list; pa_t : q list;
                  pa_ylims : (q * q) list; pa_clim : (q option * q option) }

type picture =
| PHeat of heatmap
| PScatter of scatterplot
| PVor of voronoi
| PPar of parallel

val heatmap_1d :
  geometry -> q list -> q option list -> opts -> (q * q) list -> heatmap

val grid2d_colors : nat -> nat -> nat list -> q list -> q option list list

val grid1d_cells : nat -> nat list -> q list -> q option list

val grid_heatmap : geometry -> listing -> opts -> picture result

val insert_idx : q list -> nat -> nat list -> nat list

val argsort : q list -> nat list

val inverse_perm : nat list -> nat list

val midpoints : q list -> q list

val cvt1d_cells : q list -> nat list -> q list -> q option list

val qclip01 : q -> q

val cvt_heatmap : geometry -> listing -> opts -> picture result

val sliding_heatmap : geometry -> listing -> opts -> picture result

val proximity_plot : geometry -> listing -> opts -> picture result

val select : 'a1 -> nat list -> 'a1 list -> 'a1 list

val insert_obj : elite -> listing -> listing

val sort_by_obj : listing -> listing

val normalize : q -> q -> q -> q

val to_axis0 : q -> q -> q -> q -> q -> q

val map3 :
  ('a1 -> 'a2 -> 'a3 -> 'a4) -> 'a1 list -> 'a2 list -> 'a3 list -> 'a4 list

val normalize_row : q list -> q list -> q list -> q list

val parallel_axes : geometry -> listing -> opts -> picture result

type kind =
| KGrid
| KCvt
| KSliding
| KProximity
| KParallel

val source : world -> opts -> listing

val draw : kind -> geometry -> listing -> opts -> picture result

val plot : world -> (kind * opts) -> world * picture result

val err_code0 : err -> z

val dql : sx -> q list option

val delite : sx -> elite option

val dgeom : sx -> geometry option

val dbounds : sx -> (q list * q list) option

val dopts : sx -> opts option

val dkind : sx -> kind option

val eqq : (q * q) -> sx

val eql : q list -> sx

val eoq : q option -> sx

val eline : (q * (q * q)) -> sx

val epicture : picture -> sx list

val eelite : elite -> sx

val eworld : world -> sx

val run_C20 : sx -> sx
