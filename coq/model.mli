
val implb : bool -> bool -> bool

val negb : bool -> bool

type nat =
| O
| S of nat

val option_map : ('a1 -> 'a2) -> 'a1 option -> 'a2 option

val fst : ('a1 * 'a2) -> 'a1

val snd : ('a1 * 'a2) -> 'a2

val length : 'a1 list -> nat

val app : 'a1 list -> 'a1 list -> 'a1 list

type comparison =
| Eq
| Lt
| Gt

val compOpp : comparison -> comparison

val add : nat -> nat -> nat

val sub : nat -> nat -> nat

val eqb : bool -> bool -> bool

module Nat :
 sig
  val eqb : nat -> nat -> bool

  val leb : nat -> nat -> bool

  val ltb : nat -> nat -> bool
 end

val nth : nat -> 'a1 list -> 'a1 -> 'a1

val nth_error : 'a1 list -> nat -> 'a1 option

val concat : 'a1 list list -> 'a1 list

val map : ('a1 -> 'a2) -> 'a1 list -> 'a2 list

val fold_left : ('a1 -> 'a2 -> 'a1) -> 'a2 list -> 'a1 -> 'a1

val fold_right : ('a2 -> 'a1 -> 'a1) -> 'a1 -> 'a2 list -> 'a1

val existsb : ('a1 -> bool) -> 'a1 list -> bool

val forallb : ('a1 -> bool) -> 'a1 list -> bool

val filter : ('a1 -> bool) -> 'a1 list -> 'a1 list

val combine : 'a1 list -> 'a2 list -> ('a1 * 'a2) list

val firstn : nat -> 'a1 list -> 'a1 list

val skipn : nat -> 'a1 list -> 'a1 list

val seq : nat -> nat -> nat list

val repeat : 'a1 -> nat -> 'a1 list

type positive =
| XI of positive
| XO of positive
| XH

type z =
| Z0
| Zpos of positive
| Zneg of positive

module Pos :
 sig
  val succ : positive -> positive

  val add : positive -> positive -> positive

  val add_carry : positive -> positive -> positive

  val pred_double : positive -> positive

  val mul : positive -> positive -> positive

  val compare_cont : comparison -> positive -> positive -> comparison

  val compare : positive -> positive -> comparison

  val eqb : positive -> positive -> bool

  val iter_op : ('a1 -> 'a1 -> 'a1) -> positive -> 'a1 -> 'a1

  val to_nat : positive -> nat

  val of_succ_nat : nat -> positive
 end

module Z :
 sig
  val double : z -> z

  val succ_double : z -> z

  val pred_double : z -> z

  val pos_sub : positive -> positive -> z

  val add : z -> z -> z

  val opp : z -> z

  val mul : z -> z -> z

  val compare : z -> z -> comparison

  val leb : z -> z -> bool

  val ltb : z -> z -> bool

  val eqb : z -> z -> bool

  val to_nat : z -> nat

  val of_nat : nat -> z

  val to_pos : z -> positive
 end

type q = { qnum : z; qden : positive }

val qle_bool : q -> q -> bool

type sx =
| SZ of z
| SL of sx list

val sx_fail : sx

val dz : sx -> z option

val dnat : sx -> nat option

val dbool : sx -> bool option

val opt_all : 'a1 option list -> 'a1 list option

val dlist : (sx -> 'a1 option) -> sx -> 'a1 list option

val dq : sx -> q option

val dopt : (sx -> 'a1 option) -> sx -> 'a1 option option

val ez : z -> sx

val enat : nat -> sx

val ebool : bool -> sx

val elist : ('a1 -> sx) -> 'a1 list -> sx

val eopt : ('a1 -> sx) -> 'a1 option -> sx

val upd : 'a1 list -> nat -> 'a1 -> 'a1 list

val insert_uniq : nat -> nat list -> nat list

val sort_uniq : nat list -> nat list

val slice : 'a1 list -> nat -> nat -> 'a1 list

val where_from : nat -> bool list -> nat list

val where_true : bool list -> nat list

val ntrue : bool list -> nat

type err =
| ValueError
| IndexError
| RuntimeError
| KeyError
| TypeError
| StopIteration
| OtherError

type 'a result =
| Ok of 'a
| Err of err

type 'r store = { cap : nat; occ : bool list; olist : nat list;
                  rows : 'r option list; nadd : nat; nclear : nat }

val init : nat -> 'a1 store

val get_occ : 'a1 store -> nat -> bool

val get_row : 'a1 store -> nat -> 'a1 option

val len : 'a1 store -> nat

val in_range : 'a1 store -> nat list -> bool

val retrieve : 'a1 store -> nat list -> (bool * 'a1 option) list result

val data : 'a1 store -> (nat * 'a1 option) list

val new_indices : 'a1 store -> nat list -> nat list

val write_rows : 'a1 option list -> nat list -> 'a1 list -> 'a1 option list

val mark : bool list -> nat list -> bool list

val bump_add : 'a1 store -> 'a1 store

val add_raw :
  'a1 store -> nat list -> 'a1 list -> bool -> 'a1 store * unit result

type 'r transform =
  nat list -> 'r list -> (bool * 'r option) list -> nat list * 'r list

val run_transforms :
  'a1 store -> 'a1 transform list -> nat list -> 'a1 list -> (nat list * 'a1
  list) result

val add0 :
  'a1 store -> nat list -> 'a1 list -> 'a1 transform list -> bool -> 'a1
  store * unit result

val clear : 'a1 store -> 'a1 store

val resize : 'a1 store -> nat -> 'a1 store * unit result

type 'r raw = { r_cap : nat; r_occ : bool list; r_nocc : nat;
                r_olist : nat list; r_rows : 'r option list; r_nadd : 
                nat; r_nclear : nat }

val as_raw : 'a1 store -> 'a1 raw

val from_raw : 'a1 raw -> 'a1 store

type iter = { it_pos : nat; it_add : nat; it_clear : nat }

val iter_new : 'a1 store -> iter

type 'r iter_out =
| Yield of nat * 'r option
| Stop
| Modified

val iter_next : 'a1 store -> iter -> iter * 'a1 iter_out

val err_code : err -> z

val eres : ('a1 -> sx) -> 'a1 result -> sx

val erow : z option -> sx

type st = { s_store : z store; s_iters : iter list }

val const_transform : nat list -> z list -> z transform

val dtransform : sx -> z transform option

val run_op : st -> sx -> st * sx

val run_ops : st -> sx list -> sx list

val run_C13 : sx -> sx

type call =
| CAsk
| CAskDqd
| CTell
| CTellDqd

type add_mode =
| Batch
| Single

val call_eqb : call -> call -> bool

val last_is : call option -> call -> bool

type 'v column = 'v list option

val slice_col : nat -> nat -> 'a1 column -> 'a1 column

val row_at : nat -> 'a1 column list -> 'a1 option list

type 'v aevent =
| AddBatch of 'v column list
| AddSingle of 'v option list

type ('v, 'f) told = { t_data : 'v column list; t_jac : 'v list option;
                       t_info : 'f list }

type ('v, 'f) eevent =
| Asked of bool * 'v list
| Told of bool * ('v, 'f) told

type ('v, 'f) sched = { last_called : call option; cur : 'v list;
                        num_emitted : nat list; arch : 'v aevent list;
                        rarch : 'v aevent list option; mode : add_mode;
                        elog : ('v, 'f) eevent list list }

val sched_init : nat -> add_mode -> bool -> ('a1, 'a2) sched

val n_emitters : ('a1, 'a2) sched -> nat

val push :
  ('a1, 'a2) eevent list list -> nat -> ('a1, 'a2) eevent -> ('a1, 'a2)
  eevent list list

val push_all :
  ('a1, 'a2) eevent list list -> (nat * ('a1, 'a2) eevent) list -> ('a1, 'a2)
  eevent list list

val set_all : nat list -> (nat * nat) list -> nat list

val ask_route :
  bool -> nat list -> (nat -> 'a1 list) -> nat list -> ('a1, 'a2) eevent list
  list -> ('a1 list * nat list) * ('a1, 'a2) eevent list list

val mk_told :
  nat -> nat -> 'a1 column list -> 'a1 list option -> 'a2 list -> ('a1, 'a2)
  told

val deliveries :
  nat list -> nat list -> nat -> 'a1 column list -> 'a1 list option -> 'a2
  list -> (nat * ('a1, 'a2) told) list

val lens_ok : nat -> 'a1 column list -> bool

val app_event :
  'a1 aevent list -> 'a1 aevent list option -> 'a1 aevent -> 'a1 aevent
  list * 'a1 aevent list option

val single_loop :
  'a1 column list -> (nat -> 'a2) -> nat option -> nat list -> 'a1 aevent
  list -> 'a1 aevent list option -> 'a2 list -> ('a1 aevent list * 'a1 aevent
  list option) * 'a2 list result

val add_to_archives :
  add_mode -> nat -> 'a1 column list -> (nat -> 'a2) -> nat option -> 'a1
  aevent list -> 'a1 aevent list option -> ('a1 aevent list * 'a1 aevent list
  option) * 'a2 list result

type ('v, 'f) tell_args = { ta_data : 'v column list; ta_jac : 'v list;
                            ta_fb : (nat -> 'f); ta_fail : nat option }

type 'v out =
| ORows of 'v list
| ONone

val ask_call : bool -> call

val tell_call : bool -> call

val ask_gen :
  bool -> ('a1, 'a2) sched -> (nat -> 'a1 list) -> ('a1, 'a2) sched * 'a1 out
  result

val tell_gen :
  bool -> ('a1, 'a2) sched -> ('a1, 'a2) tell_args -> ('a1, 'a2) sched * 'a1
  out result

type ('v, 'f) sop =
| OpAsk of (nat -> 'v list)
| OpAskDqd of (nat -> 'v list)
| OpTell of ('v, 'f) tell_args
| OpTellDqd of ('v, 'f) tell_args

val sched_step :
  ('a1, 'a2) sched -> ('a1, 'a2) sop -> ('a1, 'a2) sched * 'a1 out result

val dany : sx -> sx option

val eany : sx -> sx

val dcol : sx -> sx column option

val ecol : sx column -> sx

val dresp : sx -> (nat -> sx list) option

val dtell : sx -> sx -> sx -> sx -> (sx, sx) tell_args option

val dsop : sx -> (sx, sx) sop option

val eout : sx out result -> sx

val etold : (sx, sx) told -> sx

val eeevent : (sx, sx) eevent -> sx

val eaevent : sx aevent -> sx

val ecall : call option -> sx

val esizes : (sx, sx) sched -> sx

val estate : (sx, sx) sched -> sx

val run_sops : (sx, sx) sched -> sx list -> sx list * sx

val run_C04 : sx -> sx

type reselect_mode =
| Terminated
| AllActive

type key =
| KInf
| KFin of q
| KUndef

val key_geb : key -> key -> bool

val better : key -> key -> bool

val map2 : ('a1 -> 'a2 -> 'a3) -> 'a1 list -> 'a2 list -> 'a3 list

val ucb_keys : nat list -> (nat -> q option) -> key list

val valid_selection : nat -> bool list -> key list -> bool list -> bool

val insert_desc : key list -> nat -> nat list -> nat list

val argsort_desc : key list -> nat list

val activate_loop : nat list -> bool list -> nat -> nat -> bool list

val select : nat -> bool list -> key list -> bool list

val fill : nat -> bool list -> bool list -> bool list * bool list

val deactivate : bool list -> bool list -> bool list

type ('v, 'f) bandit = { core : ('v, 'f) sched; active : bool list;
                         success : nat list; selection : nat list;
                         restarts : z list; num_active : nat;
                         reselect : reselect_mode }

val pool : ('a1, 'a2) bandit -> nat

val bandit_init :
  nat -> nat -> reselect_mode -> add_mode -> bool -> ('a1, 'a2) bandit

val ask_pre :
  ('a1, 'a2) bandit -> (nat -> z) -> (bool list * bool list) * z list

val bandit_ask :
  ('a1, 'a2) bandit -> (nat -> z) -> (nat -> q option) -> bool list -> (nat
  -> 'a1 list) -> ('a1, 'a2) bandit * 'a1 out result

val count_nz : ('a1 -> bool) -> 'a1 list -> nat

val credit :
  ('a2 -> bool) -> (nat * ('a1, 'a2) told) list -> nat list -> nat list ->
  nat list -> nat list * nat list

val bandit_tell :
  ('a2 -> bool) -> ('a1, 'a2) bandit -> ('a1, 'a2) tell_args -> ('a1, 'a2)
  bandit * 'a1 out result

type ('v, 'f) bop =
| BAsk of (nat -> z) * (nat -> q option) * bool list * (nat -> 'v list)
| BTell of ('v, 'f) tell_args
| BAskDqd
| BTellDqd

val bandit_step :
  ('a2 -> bool) -> ('a1, 'a2) bandit -> ('a1, 'a2) bop -> ('a1, 'a2)
  bandit * 'a1 out result

val status_nz_sx : sx -> bool

type bstate = (sx, sx) bandit

val dbop : sx -> (sx, sx) bop option

val ebstate : bstate -> sx

val ask_diag : bstate -> (sx, sx) bop -> bstate -> sx * bool

val run_bops : bstate -> sx list -> sx list * sx

val run_C16 : sx -> sx
