
val negb : bool -> bool

type nat =
| O
| S of nat

val fst : ('a1 * 'a2) -> 'a1

val snd : ('a1 * 'a2) -> 'a2

val length : 'a1 list -> nat

val app : 'a1 list -> 'a1 list -> 'a1 list

type comparison =
| Eq
| Lt
| Gt

val compOpp : comparison -> comparison

val add : nat -> nat -> nat

val sub : nat -> nat -> nat

module Nat :
 sig
  val eqb : nat -> nat -> bool

  val leb : nat -> nat -> bool

  val ltb : nat -> nat -> bool

  val divmod : nat -> nat -> nat -> nat -> nat * nat

  val div : nat -> nat -> nat
 end

val nth : nat -> 'a1 list -> 'a1 -> 'a1

val nth_error : 'a1 list -> nat -> 'a1 option

val map : ('a1 -> 'a2) -> 'a1 list -> 'a2 list

val flat_map : ('a1 -> 'a2 list) -> 'a1 list -> 'a2 list

val fold_left : ('a1 -> 'a2 -> 'a1) -> 'a2 list -> 'a1 -> 'a1

val fold_right : ('a2 -> 'a1 -> 'a1) -> 'a1 -> 'a2 list -> 'a1

val forallb : ('a1 -> bool) -> 'a1 list -> bool

val filter : ('a1 -> bool) -> 'a1 list -> 'a1 list

val combine : 'a1 list -> 'a2 list -> ('a1 * 'a2) list

val firstn : nat -> 'a1 list -> 'a1 list

val repeat : 'a1 -> nat -> 'a1 list

type positive =
| XI of positive
| XO of positive
| XH

type z =
| Z0
| Zpos of positive
| Zneg of positive

module Pos :
 sig
  type mask =
  | IsNul
  | IsPos of positive
  | IsNeg
 end

module Coq_Pos :
 sig
  val succ : positive -> positive

  val add : positive -> positive -> positive

  val add_carry : positive -> positive -> positive

  val pred_double : positive -> positive

  type mask = Pos.mask =
  | IsNul
  | IsPos of positive
  | IsNeg

  val succ_double_mask : mask -> mask

  val double_mask : mask -> mask

  val double_pred_mask : positive -> mask

  val sub_mask : positive -> positive -> mask

  val sub_mask_carry : positive -> positive -> mask

  val sub : positive -> positive -> positive

  val mul : positive -> positive -> positive

  val size_nat : positive -> nat

  val compare_cont : comparison -> positive -> positive -> comparison

  val compare : positive -> positive -> comparison

  val eqb : positive -> positive -> bool

  val ggcdn : nat -> positive -> positive -> positive * (positive * positive)

  val ggcd : positive -> positive -> positive * (positive * positive)

  val iter_op : ('a1 -> 'a1 -> 'a1) -> positive -> 'a1 -> 'a1

  val to_nat : positive -> nat

  val of_succ_nat : nat -> positive
 end

module Z :
 sig
  val double : z -> z

  val succ_double : z -> z

  val pred_double : z -> z

  val pos_sub : positive -> positive -> z

  val add : z -> z -> z

  val opp : z -> z

  val sub : z -> z -> z

  val mul : z -> z -> z

  val compare : z -> z -> comparison

  val sgn : z -> z

  val leb : z -> z -> bool

  val ltb : z -> z -> bool

  val eqb : z -> z -> bool

  val abs : z -> z

  val to_nat : z -> nat

  val of_nat : nat -> z

  val to_pos : z -> positive

  val pos_div_eucl : positive -> z -> z * z

  val div_eucl : z -> z -> z * z

  val modulo : z -> z -> z

  val ggcd : z -> z -> z * (z * z)
 end

type q = { qnum : z; qden : positive }

val qred : q -> q

type sx =
| SZ of z
| SL of sx list

val sx_fail : sx

val dz : sx -> z option

val dnat : sx -> nat option

val dbool : sx -> bool option

val opt_all : 'a1 option list -> 'a1 list option

val dlist : (sx -> 'a1 option) -> sx -> 'a1 list option

val dq : sx -> q option

val ez : z -> sx

val enat : nat -> sx

val ebool : bool -> sx

val elist : ('a1 -> sx) -> 'a1 list -> sx

val eq_ : q -> sx

val eopt : ('a1 -> sx) -> 'a1 option -> sx

val upd : 'a1 list -> nat -> 'a1 -> 'a1 list

val insert_uniq : nat -> nat list -> nat list

val sort_uniq : nat list -> nat list

type err =
| ValueError
| IndexError
| RuntimeError
| KeyError
| TypeError
| StopIteration
| OtherError

type 'a result =
| Ok of 'a
| Err of err

type 'r store = { cap : nat; occ : bool list; olist : nat list;
                  rows : 'r option list; nadd : nat; nclear : nat }

val init : nat -> 'a1 store

val get_occ : 'a1 store -> nat -> bool

val get_row : 'a1 store -> nat -> 'a1 option

val len : 'a1 store -> nat

val in_range : 'a1 store -> nat list -> bool

val retrieve : 'a1 store -> nat list -> (bool * 'a1 option) list result

val data : 'a1 store -> (nat * 'a1 option) list

val new_indices : 'a1 store -> nat list -> nat list

val write_rows : 'a1 option list -> nat list -> 'a1 list -> 'a1 option list

val mark : bool list -> nat list -> bool list

val bump_add : 'a1 store -> 'a1 store

val add_raw :
  'a1 store -> nat list -> 'a1 list -> bool -> 'a1 store * unit result

type 'r transform =
  nat list -> 'r list -> (bool * 'r option) list -> nat list * 'r list

val run_transforms :
  'a1 store -> 'a1 transform list -> nat list -> 'a1 list -> (nat list * 'a1
  list) result

val add0 :
  'a1 store -> nat list -> 'a1 list -> 'a1 transform list -> bool -> 'a1
  store * unit result

val clear : 'a1 store -> 'a1 store

val resize : 'a1 store -> nat -> 'a1 store * unit result

type 'r raw = { r_cap : nat; r_occ : bool list; r_nocc : nat;
                r_olist : nat list; r_rows : 'r option list; r_nadd : 
                nat; r_nclear : nat }

val as_raw : 'a1 store -> 'a1 raw

val from_raw : 'a1 raw -> 'a1 store

type iter = { it_pos : nat; it_add : nat; it_clear : nat }

val iter_new : 'a1 store -> iter

type 'r iter_out =
| Yield of nat * 'r option
| Stop
| Modified

val iter_next : 'a1 store -> iter -> iter * 'a1 iter_out

type selection =
| Mu
| Filter

type restart_rule =
| Basic
| NoImprovement
| EveryN of z

type emitter_kind =
| ESE
| GAE

type cfg = { c_kind : emitter_kind; c_sel : selection; c_rule : restart_rule;
             c_batch : nat }

val count_new : z list -> nat

val num_parents : cfg -> nat -> nat

val check_restart : restart_rule -> nat -> nat -> bool

type ('p, 'v) action =
| ARank of 'p list * z list
| AOptTell of nat list * 'v list * nat
| ACheckStop of 'v list
| ASample of nat
| AGradReset of 'p
| AOptReset of 'p option
| ARankerReset

type ('p, 'v) env = { e_ask : 'p list; e_status : z list;
                      e_rank : ('p list -> z list -> nat list * 'v list);
                      e_stop : ('v list -> bool); e_archive : 'p list;
                      e_pick : nat }

type 'p state = { itrs : nat; restarts : nat; center : 'p option;
                  ranker_epoch : nat }

val init_state : 'a1 state

val construct : cfg -> 'a1 -> ('a1, 'a2) action list result

val ask : ('a1, 'a2) env -> 'a1 list

val take_rows : 'a1 list -> nat list -> 'a1 list

val sample_elite : ('a1, 'a2) env -> 'a1 option

val restart_actions : cfg -> 'a1 -> ('a1, 'a2) action list

val tell :
  cfg -> ('a1, 'a2) env -> 'a1 state -> 'a1 list -> z list -> (('a1, 'a2)
  action list * 'a1 state) * unit result

val c10_err_code : err -> z

val dcfg : sx -> cfg option

val evals : q list list -> sx

val eaction : (z, q list) action -> sx

val run_op10 : cfg -> z state -> sx -> z state * sx

val run_ops10 : cfg -> z state -> sx list -> sx list

val run_C10 : sx -> sx

val err_code : err -> z

val eres : ('a1 -> sx) -> 'a1 result -> sx

val erow : z option -> sx

type st = { s_store : z store; s_iters : iter list }

val const_transform : nat list -> z list -> z transform

val dtransform : sx -> z transform option

val run_op : st -> sx -> st * sx

val run_ops : st -> sx list -> sx list

val run_C13 : sx -> sx
