
val negb : bool -> bool

type nat =
| O
| S of nat

val fst : ('a1 * 'a2) -> 'a1

val snd : ('a1 * 'a2) -> 'a2

val length : 'a1 list -> nat

val app : 'a1 list -> 'a1 list -> 'a1 list

type comparison =
| Eq
| Lt
| Gt

val compOpp : comparison -> comparison

val add : nat -> nat -> nat

val mul : nat -> nat -> nat

val sub : nat -> nat -> nat

module Nat :
 sig
  val eqb : nat -> nat -> bool

  val leb : nat -> nat -> bool

  val ltb : nat -> nat -> bool
 end

val hd : 'a1 -> 'a1 list -> 'a1

val nth : nat -> 'a1 list -> 'a1 -> 'a1

val nth_error : 'a1 list -> nat -> 'a1 option

val map : ('a1 -> 'a2) -> 'a1 list -> 'a2 list

val fold_left : ('a1 -> 'a2 -> 'a1) -> 'a2 list -> 'a1 -> 'a1

val fold_right : ('a2 -> 'a1 -> 'a1) -> 'a1 -> 'a2 list -> 'a1

val forallb : ('a1 -> bool) -> 'a1 list -> bool

val filter : ('a1 -> bool) -> 'a1 list -> 'a1 list

val combine : 'a1 list -> 'a2 list -> ('a1 * 'a2) list

val firstn : nat -> 'a1 list -> 'a1 list

val skipn : nat -> 'a1 list -> 'a1 list

val seq : nat -> nat -> nat list

val repeat : 'a1 -> nat -> 'a1 list

type positive =
| XI of positive
| XO of positive
| XH

type z =
| Z0
| Zpos of positive
| Zneg of positive

module Pos :
 sig
  type mask =
  | IsNul
  | IsPos of positive
  | IsNeg
 end

module Coq_Pos :
 sig
  val succ : positive -> positive

  val add : positive -> positive -> positive

  val add_carry : positive -> positive -> positive

  val pred_double : positive -> positive

  type mask = Pos.mask =
  | IsNul
  | IsPos of positive
  | IsNeg

  val succ_double_mask : mask -> mask

  val double_mask : mask -> mask

  val double_pred_mask : positive -> mask

  val sub_mask : positive -> positive -> mask

  val sub_mask_carry : positive -> positive -> mask

  val sub : positive -> positive -> positive

  val mul : positive -> positive -> positive

  val size_nat : positive -> nat

  val compare_cont : comparison -> positive -> positive -> comparison

  val compare : positive -> positive -> comparison

  val ggcdn : nat -> positive -> positive -> positive * (positive * positive)

  val ggcd : positive -> positive -> positive * (positive * positive)

  val iter_op : ('a1 -> 'a1 -> 'a1) -> positive -> 'a1 -> 'a1

  val to_nat : positive -> nat

  val of_succ_nat : nat -> positive
 end

module Z :
 sig
  val double : z -> z

  val succ_double : z -> z

  val pred_double : z -> z

  val pos_sub : positive -> positive -> z

  val add : z -> z -> z

  val opp : z -> z

  val mul : z -> z -> z

  val compare : z -> z -> comparison

  val sgn : z -> z

  val leb : z -> z -> bool

  val ltb : z -> z -> bool

  val abs : z -> z

  val to_nat : z -> nat

  val of_nat : nat -> z

  val to_pos : z -> positive

  val ggcd : z -> z -> z * (z * z)
 end

type q = { qnum : z; qden : positive }

val qle_bool : q -> q -> bool

val qplus : q -> q -> q

val qmult : q -> q -> q

val qopp : q -> q

val qminus : q -> q -> q

val qred : q -> q

type sx =
| SZ of z
| SL of sx list

val sx_fail : sx

val dz : sx -> z option

val dnat : sx -> nat option

val dbool : sx -> bool option

val opt_all : 'a1 option list -> 'a1 list option

val dlist : (sx -> 'a1 option) -> sx -> 'a1 list option

val dq : sx -> q option

val dopt : (sx -> 'a1 option) -> sx -> 'a1 option option

val ez : z -> sx

val enat : nat -> sx

val ebool : bool -> sx

val elist : ('a1 -> sx) -> 'a1 list -> sx

val eq_ : q -> sx

val eopt : ('a1 -> sx) -> 'a1 option -> sx

val upd : 'a1 list -> nat -> 'a1 -> 'a1 list

val insert_uniq : nat -> nat list -> nat list

val sort_uniq : nat list -> nat list

type err =
| ValueError
| IndexError
| RuntimeError
| KeyError
| TypeError
| StopIteration
| OtherError

type 'a result =
| Ok of 'a
| Err of err

type 'r store = { cap : nat; occ : bool list; olist : nat list;
                  rows : 'r option list; nadd : nat; nclear : nat }

val init : nat -> 'a1 store

val get_occ : 'a1 store -> nat -> bool

val get_row : 'a1 store -> nat -> 'a1 option

val len : 'a1 store -> nat

val in_range : 'a1 store -> nat list -> bool

val retrieve : 'a1 store -> nat list -> (bool * 'a1 option) list result

val data : 'a1 store -> (nat * 'a1 option) list

val new_indices : 'a1 store -> nat list -> nat list

val write_rows : 'a1 option list -> nat list -> 'a1 list -> 'a1 option list

val mark : bool list -> nat list -> bool list

val bump_add : 'a1 store -> 'a1 store

val add_raw :
  'a1 store -> nat list -> 'a1 list -> bool -> 'a1 store * unit result

type 'r transform =
  nat list -> 'r list -> (bool * 'r option) list -> nat list * 'r list

val run_transforms :
  'a1 store -> 'a1 transform list -> nat list -> 'a1 list -> (nat list * 'a1
  list) result

val add0 :
  'a1 store -> nat list -> 'a1 list -> 'a1 transform list -> bool -> 'a1
  store * unit result

val clear : 'a1 store -> 'a1 store

val resize : 'a1 store -> nat -> 'a1 store * unit result

type 'r raw = { r_cap : nat; r_occ : bool list; r_nocc : nat;
                r_olist : nat list; r_rows : 'r option list; r_nadd : 
                nat; r_nclear : nat }

val as_raw : 'a1 store -> 'a1 raw

val from_raw : 'a1 raw -> 'a1 store

type iter = { it_pos : nat; it_add : nat; it_clear : nat }

val iter_new : 'a1 store -> iter

type 'r iter_out =
| Yield of nat * 'r option
| Stop
| Modified

val iter_next : 'a1 store -> iter -> iter * 'a1 iter_out

val qabs : q -> q

type ebound = q option

type row = q list

type matrix = row list

val map2 : ('a1 -> 'a2 -> 'a3) -> 'a1 list -> 'a2 list -> 'a3 list

val tabulate : nat -> (nat -> 'a1) -> 'a1 list

val vadd : row -> row -> row

val vsub : row -> row -> row

val vscale : q -> row -> row

type bentry = q option list option

val process_entry : bentry -> (ebound * ebound) result

val process_entries : bentry list -> (ebound list * ebound list) result

val process_bounds :
  bentry list option -> nat -> (ebound list * ebound list) result

val qmax : q -> q -> q

val qmin : q -> q -> q

val clip_lo : q -> ebound -> q

val clip_hi : q -> ebound -> q

val clip : q -> ebound -> ebound -> q

val clip_row : row -> ebound list -> ebound list -> row

val clip_matrix : matrix -> ebound list -> ebound list -> matrix

val oob : q -> ebound -> ebound -> bool

val row_oob : row -> ebound list -> ebound list -> bool

type ecfg = { e_batch : nat; e_dim : nat; e_x0 : row; e_init : matrix option;
              e_lo : ebound list; e_hi : ebound list }

val sample_elites : matrix -> nat -> (nat -> nat) -> matrix result

val parents_of : ecfg -> matrix -> nat -> (nat -> nat) -> matrix

val draw_matrix : nat -> nat -> (nat -> nat -> q) -> matrix

val gaussian_op : ebound list -> ebound list -> matrix -> matrix -> matrix

val isoline_row : row -> row -> row -> q -> row

val isoline_rows : matrix -> matrix -> matrix -> q list -> matrix

val isoline_op :
  ebound list -> ebound list -> matrix -> matrix -> matrix -> q list -> matrix

val gaussian_ask :
  ecfg -> matrix -> (nat -> nat) -> (nat -> nat -> q) -> matrix

val isoline_ask :
  ecfg -> matrix -> (nat -> nat) -> (nat -> nat -> q) -> (nat -> q) -> matrix

type operator =
| OpGaussian
| OpIsoLine

val parent_type : operator -> nat

val ga_ask :
  ecfg -> operator -> matrix -> (nat -> nat) -> (nat -> nat -> q) -> (nat ->
  q) -> matrix

val dqd_line_rows : matrix -> matrix -> matrix -> q list -> matrix

val go_ask_dqd :
  ecfg -> bool -> matrix -> (nat -> nat) -> (nat -> nat -> q) -> (nat -> q)
  -> matrix

val lincomb : row -> q list -> matrix -> row

val zero_row : nat -> row

val go_coeffs : nat -> nat -> (nat -> nat -> q) -> matrix

val go_ask :
  ecfg -> bool -> matrix -> matrix -> matrix list option -> q -> nat -> (nat
  -> nat -> q) -> matrix result

val gae_ask : row -> matrix -> matrix -> matrix

type rs_result =
| RsDone of matrix * nat list * nat
| RsNeed of nat
| RsFuel

val write_slots :
  (row * nat) list -> nat list -> (row * nat) list -> (row * nat) list

val still_oob : ebound list -> ebound list -> nat list -> matrix -> nat list

val resample :
  nat -> ebound list -> ebound list -> matrix -> nat -> (row * nat) list ->
  nat list -> rs_result

val es_ask : nat -> ebound list -> ebound list -> nat -> matrix -> rs_result

type dt =
| F32
| F64

val promote : dt -> dt -> dt

val astype : dt -> dt -> dt

type es_kind =
| CmaEs
| SepCmaEs
| LmMaEs
| OpenAiEs
| PyCmaEs

type akind =
| KGaussian of bool
| KIsoLine of bool
| KGA of operator * bool
| KES of es_kind
| KGoDqd of bool * bool
| KGoAsk of bool * bool
| KGaeDqd
| KGaeAsk of es_kind

val bounds_dt : bool -> dt -> dt -> dt

val cast_out : bool -> dt -> dt -> dt

val es_out_dtype : es_kind -> dt -> dt

val out_dtype : bool -> akind -> dt -> dt -> dt -> dt

type ask_call =
| AGaussian of ecfg * matrix * (nat -> nat) * (nat -> nat -> q)
| AIsoLine of ecfg * matrix * (nat -> nat) * (nat -> nat -> q) * (nat -> q)
| AGA of ecfg * operator * matrix * (nat -> nat) * (nat -> nat -> q)
   * (nat -> q)
| AGoDqd of ecfg * bool * matrix * (nat -> nat) * (nat -> nat -> q)
   * (nat -> q)
| AGoAsk of ecfg * bool * matrix * matrix * matrix list option * q * 
   nat * (nat -> nat -> q)

val run_ask : ask_call -> matrix result

val err_code8 : err -> z

val drow : sx -> row option

val dmatrix : sx -> matrix option

val dbound : sx -> ebound option

val dbentry : sx -> bentry option

val erow : row -> sx

val ematrix : matrix -> sx

val ebounds : ebound list -> sx

val fn1 : q list -> nat -> q

val fn2 : matrix -> nat -> nat -> q

val fnn : nat list -> nat -> nat

val dcfg : sx -> ecfg option

val des : sx -> es_kind option

val dop : sx -> operator option

val ddt : sx -> dt option

val edt : dt -> sx

val dakind : sx -> akind option

val dcall : sx -> ask_call option

val run_C08 : sx -> sx

val err_code : err -> z

val eres : ('a1 -> sx) -> 'a1 result -> sx

val erow0 : z option -> sx

type st = { s_store : z store; s_iters : iter list }

val const_transform : nat list -> z list -> z transform

val dtransform : sx -> z transform option

val run_op : st -> sx -> st * sx

val run_ops : st -> sx list -> sx list

val run_C13 : sx -> sx
