
val negb : bool -> bool

type nat =
| O
| S of nat

val fst : ('a1 * 'a2) -> 'a1

val snd : ('a1 * 'a2) -> 'a2

val length : 'a1 list -> nat

val app : 'a1 list -> 'a1 list -> 'a1 list

type comparison =
| Eq
| Lt
| Gt

val compOpp : comparison -> comparison

val add : nat -> nat -> nat

val sub : nat -> nat -> nat

module Nat :
 sig
  val eqb : nat -> nat -> bool

  val leb : nat -> nat -> bool

  val ltb : nat -> nat -> bool

  val divmod : nat -> nat -> nat -> nat -> nat * nat

  val div : nat -> nat -> nat
 end

val nth : nat -> 'a1 list -> 'a1 -> 'a1

val nth_error : 'a1 list -> nat -> 'a1 option

val rev : 'a1 list -> 'a1 list

val map : ('a1 -> 'a2) -> 'a1 list -> 'a2 list

val fold_left : ('a1 -> 'a2 -> 'a1) -> 'a2 list -> 'a1 -> 'a1

val fold_right : ('a2 -> 'a1 -> 'a1) -> 'a1 -> 'a2 list -> 'a1

val forallb : ('a1 -> bool) -> 'a1 list -> bool

val filter : ('a1 -> bool) -> 'a1 list -> 'a1 list

val combine : 'a1 list -> 'a2 list -> ('a1 * 'a2) list

val firstn : nat -> 'a1 list -> 'a1 list

val skipn : nat -> 'a1 list -> 'a1 list

val seq : nat -> nat -> nat list

val repeat : 'a1 -> nat -> 'a1 list

type positive =
| XI of positive
| XO of positive
| XH

type z =
| Z0
| Zpos of positive
| Zneg of positive

module Pos :
 sig
  type mask =
  | IsNul
  | IsPos of positive
  | IsNeg
 end

module Coq_Pos :
 sig
  val succ : positive -> positive

  val add : positive -> positive -> positive

  val add_carry : positive -> positive -> positive

  val pred_double : positive -> positive

  type mask = Pos.mask =
  | IsNul
  | IsPos of positive
  | IsNeg

  val succ_double_mask : mask -> mask

  val double_mask : mask -> mask

  val double_pred_mask : positive -> mask

  val sub_mask : positive -> positive -> mask

  val sub_mask_carry : positive -> positive -> mask

  val sub : positive -> positive -> positive

  val mul : positive -> positive -> positive

  val size_nat : positive -> nat

  val compare_cont : comparison -> positive -> positive -> comparison

  val compare : positive -> positive -> comparison

  val ggcdn : nat -> positive -> positive -> positive * (positive * positive)

  val ggcd : positive -> positive -> positive * (positive * positive)

  val iter_op : ('a1 -> 'a1 -> 'a1) -> positive -> 'a1 -> 'a1

  val to_nat : positive -> nat

  val of_succ_nat : nat -> positive
 end

module Z :
 sig
  val double : z -> z

  val succ_double : z -> z

  val pred_double : z -> z

  val pos_sub : positive -> positive -> z

  val add : z -> z -> z

  val opp : z -> z

  val mul : z -> z -> z

  val compare : z -> z -> comparison

  val sgn : z -> z

  val ltb : z -> z -> bool

  val abs : z -> z

  val to_nat : z -> nat

  val of_nat : nat -> z

  val to_pos : z -> positive

  val ggcd : z -> z -> z * (z * z)
 end

type q = { qnum : z; qden : positive }

val inject_Z : z -> q

val qplus : q -> q -> q

val qmult : q -> q -> q

val qopp : q -> q

val qminus : q -> q -> q

val qinv : q -> q

val qdiv : q -> q -> q

val qred : q -> q

type sx =
| SZ of z
| SL of sx list

val sx_fail : sx

val dz : sx -> z option

val dnat : sx -> nat option

val dbool : sx -> bool option

val opt_all : 'a1 option list -> 'a1 list option

val dlist : (sx -> 'a1 option) -> sx -> 'a1 list option

val dq : sx -> q option

val ez : z -> sx

val enat : nat -> sx

val ebool : bool -> sx

val elist : ('a1 -> sx) -> 'a1 list -> sx

val eq_ : q -> sx

val eopt : ('a1 -> sx) -> 'a1 option -> sx

val upd : 'a1 list -> nat -> 'a1 -> 'a1 list

val insert_uniq : nat -> nat list -> nat list

val sort_uniq : nat list -> nat list

type err =
| ValueError
| IndexError
| RuntimeError
| KeyError
| TypeError
| StopIteration
| OtherError

type 'a result =
| Ok of 'a
| Err of err

type 'r store = { cap : nat; occ : bool list; olist : nat list;
                  rows : 'r option list; nadd : nat; nclear : nat }

val init : nat -> 'a1 store

val get_occ : 'a1 store -> nat -> bool

val get_row : 'a1 store -> nat -> 'a1 option

val len : 'a1 store -> nat

val in_range : 'a1 store -> nat list -> bool

val retrieve : 'a1 store -> nat list -> (bool * 'a1 option) list result

val data : 'a1 store -> (nat * 'a1 option) list

val new_indices : 'a1 store -> nat list -> nat list

val write_rows : 'a1 option list -> nat list -> 'a1 list -> 'a1 option list

val mark : bool list -> nat list -> bool list

val bump_add : 'a1 store -> 'a1 store

val add_raw :
  'a1 store -> nat list -> 'a1 list -> bool -> 'a1 store * unit result

type 'r transform =
  nat list -> 'r list -> (bool * 'r option) list -> nat list * 'r list

val run_transforms :
  'a1 store -> 'a1 transform list -> nat list -> 'a1 list -> (nat list * 'a1
  list) result

val add0 :
  'a1 store -> nat list -> 'a1 list -> 'a1 transform list -> bool -> 'a1
  store * unit result

val clear : 'a1 store -> 'a1 store

val resize : 'a1 store -> nat -> 'a1 store * unit result

type 'r raw = { r_cap : nat; r_occ : bool list; r_nocc : nat;
                r_olist : nat list; r_rows : 'r option list; r_nadd : 
                nat; r_nclear : nat }

val as_raw : 'a1 store -> 'a1 raw

val from_raw : 'a1 raw -> 'a1 store

type iter = { it_pos : nat; it_add : nat; it_clear : nat }

val iter_new : 'a1 store -> iter

type 'r iter_out =
| Yield of nat * 'r option
| Stop
| Modified

val iter_next : 'a1 store -> iter -> iter * 'a1 iter_out

val err_code : err -> z

val eres : ('a1 -> sx) -> 'a1 result -> sx

val erow : z option -> sx

type st = { s_store : z store; s_iters : iter list }

val const_transform : nat list -> z list -> z transform

val dtransform : sx -> z transform option

val run_op : st -> sx -> st * sx

val run_ops : st -> sx list -> sx list

val run_C13 : sx -> sx

val scatter : 'a1 option list -> nat list -> 'a1 list -> 'a1 option list

val select : nat list -> bool list -> nat list

type ('d, 'sol) ask_result =
| Done of 'sol option list * 'd option list * nat * nat
| NeedMore of nat
| OutOfFuel

val ask_loop :
  ('a1 -> 'a2) -> ('a2 -> bool) -> nat -> nat list -> 'a1 list -> 'a2 option
  list -> 'a1 option list -> nat -> nat -> ('a1, 'a2) ask_result

val ask :
  ('a1 -> 'a2) -> ('a2 -> bool) -> nat -> 'a1 list -> ('a1, 'a2) ask_result

val ask_mirror :
  ('a1 -> 'a2) -> ('a1 -> 'a1) -> nat -> 'a1 list -> ('a1, 'a2) ask_result

val vadd : q list -> q list -> q list

val vscale : q -> q list -> q list

val gather : 'a1 -> 'a1 list -> nat list -> 'a1 list

val select_parents : 'a1 -> 'a1 list -> nat list -> nat -> 'a1 list

val wmean : nat -> q list -> q list list -> q list

type counter_kind =
| Evals
| Gens

type dstate = { d_mean : q list; d_count : nat }

val tell_mean :
  counter_kind -> (nat -> q list) -> dstate -> q list list -> nat list -> nat
  -> dstate

val openai_ranks : nat -> nat list -> nat option list

val qnat : nat -> q

val centred : nat -> nat option -> q

val vsum : nat -> q list list -> q list

val openai_gradient :
  bool -> nat -> nat -> q -> q list list -> nat list -> q list

val eresult : ('a2 -> sx) -> ('a1 -> sx) -> ('a1, 'a2) ask_result -> sx

val run_C18 : sx -> sx
