(** C15 — SlidingBoundariesArchive remaps consistently and loses nothing it should keep.
    Model: Model/Sliding.v (SolutionBuffer, add / add_single / _remap / index_of / clear over the ArchiveBase
    model of Model/Archive.v).  Proofs: Proofs/SlidingProofs.v.  All statements are about the behaviour
    [stale = false] (bounds refreshed before the re-insertion, i.e. the code after fix F8); the last
    theorem shows that the pre-fix order of updates ([stale = true]) violates the property. *)
From Coq Require Import List Arith Bool ZArith QArith Qreduction Lia.
From PV Require Import Base.ListUtil Base.QUtil Base.FirstArgmax Base.MixedRadix Model.Store Model.Archive
     Proofs.ArchiveProofs Proofs.C01Proofs Proofs.C02Proofs Proofs.C07Proofs Model.Sliding Proofs.SlidingProofs
     Model.SlidingIndex Proofs.SlidingBridge.
Import ListNotations.
Local Open Scope nat_scope.

Section C15.
Variable P : Type.   (* everything of a solution except measures and objective: solution + extra fields *)
Notation PP := (list Q * P)%type.

(** Between remaps the archive behaves as an elitist grid over its current boundaries: an insertion that
    is not the remap_frequency-th one is exactly ArchiveBase.add_single of the candidate routed by the
    current geometry (so C01 / C02 apply with that geometry), the geometry does not change, and the
    solution enters the buffer. *)
Theorem C15_between_remaps : forall stale (c : scfg) (st : sstate P) (e : entry P),
  Nat.eqb (S (ss_total st) mod s_freq c) 0 = false ->
  let r := add_single (acfg c) (ss_arch st) (cand_of_entry c (ss_geom st) e) in
  sadd_single stale c st e = (mkSS (fst r) (buf_add c (ss_buf st) e) (S (ss_total st)) (ss_geom st), snd r).
Proof. exact (@no_remap_step P). Qed.

(** ... and every remap_frequency-th insertion remaps, with the newest solution already buffered *)
Theorem C15_remap_when : forall stale (c : scfg) (st : sstate P) (e : entry P),
  Nat.eqb (S (ss_total st) mod s_freq c) 0 = true ->
  sadd_single stale c st e = remap stale c (mkSS (ss_arch st) (buf_add c (ss_buf st) e) (S (ss_total st)) (ss_geom st)).
Proof. exact (@remap_step P). Qed.

(** The buffer is the most recent min(buffer_capacity, total) insertions of the whole history (clear does
    not touch it), whatever the relation between capacity and frequency. *)
Theorem C15_buffer : forall stale (c : scfg) (h : list (sop P)),
  1 <= s_cap c ->
  ss_buf (srun stale c h) = lastn (s_cap c) (inserted h) /\ ss_total (srun stale c h) = length (inserted h).
Proof. exact (@buffer_spec P). Qed.

(** The boundaries of dimension i after a remap: entry j < d is the order statistic sorted[j*n/d] of the
    buffered i-th coordinates, entry d is their maximum; lower/upper bounds are the first/last boundary. *)
Theorem C15_boundaries : forall (c : scfg) (buf : list (entry P)) (i : nat),
  i < length (s_dims c) ->
  let d := nth i (s_dims c) 0 in
  let srt := qsort (map (coord i) buf) in
  let b := nth i (g_bnd (new_geom c (sorted_measures c buf))) [] in
  b = new_bnd1 d srt /\
  nth i (g_lo (new_geom c (sorted_measures c buf))) 0%Q = hd 0%Q b /\
  nth i (g_hi (new_geom c (sorted_measures c buf))) 0%Q = last b 0%Q.
Proof. exact (@new_geom_boundaries P). Qed.

Theorem C15_order_statistics : forall d srt j, j < d -> nth j (new_bnd1 d srt) 0%Q = nth (j * length srt / d) srt 0%Q.
Proof. exact new_bnd1_nth. Qed.

Theorem C15_sorted_multiset : forall l, Permutation.Permutation (qsort l) l /\ qsorted (qsort l).
Proof. intros l. split; [apply qsort_perm|apply qsort_sorted]. Qed.

(** boundaries stay sorted; the first is a minimum and the last a maximum of the buffered coordinates *)
Theorem C15_boundaries_sorted : forall d l, l <> [] ->
  forall j k, j <= k -> k <= d -> (nth j (new_bnd1 d (qsort l)) 0 <= nth k (new_bnd1 d (qsort l)) 0)%Q.
Proof.
  intros d l Hne. apply new_bnd1_sorted; [|apply qsort_sorted].
  rewrite qsort_length. destruct l; [congruence|simpl; lia].
Qed.

Theorem C15_bounds_min_max : forall d l x, 0 < d -> In x l ->
  (nth 0 (new_bnd1 d (qsort l)) 0 <= x)%Q /\ (x <= nth d (new_bnd1 d (qsort l)) 0)%Q.
Proof.
  intros d l x Hd Hx. rewrite new_bnd1_first by auto. rewrite new_bnd1_last.
  split; [apply sorted_first_min|apply sorted_last_max]; auto.
Qed.

(** The contents after a remap: the geometry is the new one, and every cell holds the first arg-max
    (highest objective, earliest on ties; previous elites in data() order first, then the buffer oldest
    first) of everything re-inserted that the NEW geometry routes there -- objective, threshold and the
    whole payload of that one solution: exactly the result of inserting them into an empty archive that
    uses the new boundaries and bounds. *)
Theorem C15_contents : forall (c : scfg) (st : sstate P),
  cwf c -> SInv c st -> ss_buf st <> [] ->
  let g' := new_geom c (sorted_measures c (ss_buf st)) in
  let st' := fst (remap false c st) in
  ss_geom st' = g' /\
  forall i, content (ss_arch st') i =
            option_map (@elite_of PP) (first_argmax c_obj (group i (reinserted c g' st))).
Proof.
  intros c st Hc HS Hne. destruct (remap_contents Hc HS Hne) as [Hg [_ HJ]]. split; [exact Hg|exact HJ].
Qed.

(** For every history (any number of remaps, clears, batches): every stored elite lies in the cell its own
    measures map to under the CURRENT boundaries and bounds. *)
Theorem C15_in_own_cell : forall (c : scfg) (h : list (sop P)) i r,
  cwf c -> (forall o, In o h -> sop_ok c o) ->
  content (ss_arch (srun false c h)) i = Some r ->
  sindex (s_eps c) (s_dims c) (ss_geom (srun false c h)) (fst (r_pay r)) = i.
Proof. intros c h i r Hc Hok Hr. exact (si_own (sinv_run h Hc Hok) i Hr). Qed.

(** nothing re-inserted is lost except to a solution at least as good stored in the same new cell *)
Theorem C15_nothing_lost : forall (c : scfg) (st : sstate P) (x : cand PP),
  cwf c -> SInv c st -> ss_buf st <> [] ->
  let g' := new_geom c (sorted_measures c (ss_buf st)) in
  In x (reinserted c g' st) ->
  exists r, content (ss_arch (fst (remap false c st))) (c_cell x) = Some r /\ (c_obj x <= r_obj r)%Q.
Proof. exact (@remap_nothing_lost P). Qed.

(** the invariant used above holds in every reachable state *)
Theorem C15_invariant : forall (c : scfg) (h : list (sop P)),
  cwf c -> (forall o, In o h -> sop_ok c o) -> SInv c (srun false c h).
Proof. exact (@sinv_run P). Qed.

(** index_of always returns a cell of the grid *)
Theorem C15_index_in_range : forall eps dims g m,
  positive_dims dims -> gwf dims g -> length m = length dims -> sindex eps dims g m < prod dims.
Proof. exact sindex_lt. Qed.
End C15.

(** Whole histories (any number of remaps, clears, batches): at every point, every cell holds the first arg-max of the ghost
    list [snd (grun c h)] = (what the last remap re-inserted: previous elites, then the buffer) ++ (every insertion since), emptied
    by clear -- and every member of that list is routed by the CURRENT boundaries and bounds.  This is "an elitist grid over its
    current boundaries" as one statement about all reachable states. *)
Theorem C15_history_contents : forall (P : Type) (c : scfg) (h : list (sop P)),
  cwf c -> (forall o, In o h -> sop_ok c o) ->
  forall i, content (ss_arch (srun false c h)) i =
            option_map (@elite_of (list Q * P)) (first_argmax c_obj (group i (snd (grun c h)))) /\
            (forall x, In x (snd (grun c h)) ->
               c_cell x = sindex (s_eps c) (s_dims c) (ss_geom (srun false c h)) (fst (c_pay x))).
Proof. exact history_contents. Qed.

(** C02 on a remapping insertion: the feedback (status, value) of the newest solution is [judge] against the REBUILT archive --
    previous elites, then the buffer without the newest solution, re-inserted under the new boundaries and bounds -- i.e. against
    the archive as it is just before the newest solution is inserted. *)
Theorem C15_remap_feedback : forall (P : Type) (c : scfg) (st : sstate P) lst r,
  cwf c -> SInv c st -> rev (ss_buf st) = lst :: r ->
  let g' := new_geom c (sorted_measures c (ss_buf st)) in
  let x := cand_of_entry c g' lst in
  snd (remap false c st) =
  (Proofs.C02Proofs.judge_status (acfg c) (rebuilt c st) x, Proofs.C02Proofs.judge_value (acfg c) (rebuilt c st) x).
Proof. exact remap_feedback. Qed.

(** the index map of this model IS the one C03 verifies (Model/SlidingIndex.v): per dimension and flattened *)
Theorem C15_index_is_C03_index_1 : forall eps d b lo hi m, sidx1 eps d b lo hi m = sb_idx1 d b lo hi eps m.
Proof. exact sidx1_eq. Qed.

Theorem C15_index_is_C03_index : forall eps dims (g : geom) m,
  length (g_bnd g) = length dims -> length (g_lo g) = length dims -> length (g_hi g) = length dims ->
  Z.of_nat (sindex eps dims g m) =
  sb_index_of_one (sdims eps dims (g_bnd g) (g_lo g) (g_hi g)) (map (fun x => (x + eps)%Q) m).
Proof. exact sindex_eq. Qed.

(** non-vacuity and the pre-fix defect (F8): dims = [4], ranges = [(0,1)], remap_frequency = 4, four insertions
    with measures 5, 6, 7, 8 and objectives 1, 1, 2, 1.  With the bounds refreshed before the re-insertion 5, 6, 7 get cells 0, 1, 2 and 8
    (clipped to 8 - eps, below the last boundary) shares cell 2 with the better 7; with the stale bounds (pre-fix code) every re-inserted solution is clipped to
    the old upper bound 1 < 5 and lands in cell 0: only the solution with measure 7 survives,
    in cell 0, although its measures map to cell 2. *)
Definition ex_c : scfg := mkScfg [4] (1#1000000) 4 10 0 [0%Q] [1%Q].
Definition ex_h : list (sop Z) :=
  [SAddSingle (mkEntry [5%Q] 1 10%Z); SAddSingle (mkEntry [6%Q] 1 11%Z);
   SAdd [mkEntry [7%Q] 2 12%Z; mkEntry [8%Q] 1 13%Z]].

Example C15_nonvacuous :
  cwf ex_c /\ (forall o, In o ex_h -> sop_ok ex_c o) /\
  len (a_store (ss_arch (srun false ex_c ex_h))) = 3 /\
  g_bnd (ss_geom (srun false ex_c ex_h)) = [[5%Q; 6%Q; 7%Q; 8%Q; 8%Q]] /\
  map (fun i => option_map (fun r : row (list Q * Z) => snd (r_pay r)) (content (ss_arch (srun false ex_c ex_h)) i)) [0; 1; 2; 3]
  = [Some 10%Z; Some 11%Z; Some 12%Z; None].
Proof.
  split; [constructor; simpl; auto; repeat constructor|].
  split.
  - intros o Ho. simpl in Ho. repeat (destruct Ho as [<-|Ho]; [simpl; repeat constructor|]). destruct Ho.
  - vm_compute. auto.
Qed.

Theorem C15_stale_refuted :
  exists (c : scfg) (h : list (sop Z)) i r,
    cwf c /\ (forall o, In o h -> sop_ok c o) /\
    content (ss_arch (srun true c h)) i = Some r /\
    sindex (s_eps c) (s_dims c) (ss_geom (srun true c h)) (fst (r_pay r)) <> i /\
    len (a_store (ss_arch (srun true c h))) = 1.
Proof.
  exists ex_c, ex_h, 0, (mkRow 2 (Qred 2) ([7%Q], 12%Z)).
  split; [constructor; simpl; auto; repeat constructor|].
  split.
  - intros o Ho. simpl in Ho. repeat (destruct Ho as [<-|Ho]; [simpl; repeat constructor|]). destruct Ho.
  - vm_compute. split; [reflexivity|]. split; [discriminate|reflexivity].
Qed.

Print Assumptions C15_between_remaps.
Print Assumptions C15_remap_when.
Print Assumptions C15_buffer.
Print Assumptions C15_boundaries.
Print Assumptions C15_order_statistics.
Print Assumptions C15_sorted_multiset.
Print Assumptions C15_boundaries_sorted.
Print Assumptions C15_bounds_min_max.
Print Assumptions C15_contents.
Print Assumptions C15_in_own_cell.
Print Assumptions C15_nothing_lost.
Print Assumptions C15_invariant.
Print Assumptions C15_index_in_range.
Print Assumptions C15_stale_refuted.
Print Assumptions C15_history_contents.
Print Assumptions C15_remap_feedback.
Print Assumptions C15_index_is_C03_index_1.
Print Assumptions C15_index_is_C03_index.
