(** C06 — Archive statistics and best_elite always agree with the stored contents.
    Model: Model/Archive.v (compute_objective_sum, compute_best_index, _stats_update, clear).
    Proofs: Proofs/C06Proofs.v. Exact arithmetic; default AND CMA-MAE settings. *)
From Coq Require Import List Arith Bool ZArith QArith Qreduction.
From PV Require Import Base.ListUtil Base.QUtil Base.FirstArgmax Model.Store Model.Archive
     Proofs.ArchiveProofs Proofs.C01Proofs Proofs.C02Proofs Proofs.C06Proofs Model.Cqd Proofs.CqdProofs.
Import ListNotations.
Local Open Scope nat_scope.

Section C06.
Variable P : Type.

(** After ANY history: the incrementally maintained objective sum equals the sum recomputed over the
    contents, num_elites = len, coverage = len/cells, qd_score = sum - len*offset,
    norm_qd_score = qd_score/cells, obj_mean = sum/len (None iff empty). *)
Theorem C06_stats_invariant : forall (c : cfg) (h : list (aop P)), wf_hist c h -> StatsOK c (arun c h).
Proof. exact (@stats_invariant P). Qed.

(** qd_score = sum over the current elites (occupied list) of (objective - qd_score_offset) *)
Theorem C06_qd_score : forall (c : cfg) (h : list (aop P)),
  wf_hist c h ->
  let a := arun c h in
  (st_qd (a_stats a) == Qsum (map (fun i => cobj a i - offset c) (olist (a_store a))))%Q.
Proof. exact (@qd_score_spec P). Qed.

(** len = number of occupied cells (through the ArrayStore invariant) *)
Theorem C06_num_elites : forall (c : cfg) (h : list (aop P)),
  wf_hist c h ->
  st_num (a_stats (arun c h)) = StoreProofs.count_true (occ (a_store (arun c h))).
Proof.
  intros c h Hwf. rewrite (so_num (stats_invariant Hwf)).
  apply StoreProofs.len_count. apply (ainv_store (arun_ainv c h)).
Qed.

(** obj_max = highest objective WRITTEN since the last clear (ghost list [inserted]), and best_elite
    is a complete written row (index, objective, post-insertion threshold, payload) with that
    objective; both None exactly when nothing was written since the last clear. *)
Theorem C06_best_invariant : forall (c : cfg) (h : list (aop P)),
  wf_hist c h -> BestOK (arun c h) (inserted c h).
Proof. exact (@best_invariant P). Qed.

(** the ghost list is meaningful: every written row was the content of its cell right after its call *)
Theorem C06_written_is_content : forall (c : cfg) (a : archive P) o k r,
  AInv c a -> wf_op c o -> In (k, r) (writes c a o) -> content (astep c a o) k = Some r.
Proof. exact (@written_is_content P). Qed.

(** elitist archives: obj_max is the CURRENT maximum objective and best_elite is a CURRENT elite *)
Theorem C06_elitist_max : forall (c : cfg) (h : list (aop P)),
  elitist c -> wf_hist c h -> EBest (arun c h).
Proof. exact (@elitist_best_is_current P). Qed.

(** a call that stores nothing changes no statistic *)
Theorem C06_noop_calls : forall (c : cfg) (a : archive P) o,
  writes c a o = [] -> o <> Clear ->
  a_stats (astep c a o) = a_stats a /\ a_best (astep c a o) = a_best a /\ a_sum (astep c a o) = a_sum a.
Proof. exact (@noop_call_keeps_stats P). Qed.

(** clear resets everything *)
Theorem C06_clear_resets : forall (c : cfg) (a : archive P),
  a_stats (clear c a) = stats0 /\ a_best (clear c a) = None /\ a_sum (clear c a) = 0%Q /\
  forall i, content (clear c a) i = None.
Proof. intros c a. repeat split. apply clear_content. Qed.
End C06.

(** non-vacuity: CMA-MAE archive in which a replacement LOWERS a cell's objective *)
Definition ex_cfg : cfg := mkCfg 4 (Some 0%Q) (1#2)%Q (-1)%Q.
Definition ex_hist : list (aop Z) :=
  [Add [mkCand 1 8 1%Z; mkCand 2 3 2%Z]; AddSingle (mkCand 1 5 3%Z); Add [mkCand 3 (-1) 4%Z]].
Example C06_nonvacuous :
  wf_hist ex_cfg ex_hist /\
  let a := arun ex_cfg ex_hist in
  option_map (@r_pay Z) (content a 1) = Some 3%Z /\ st_max (a_stats a) = Some 8%Q /\
  option_map (fun p => r_pay (snd p)) (a_best a) = Some 1%Z /\ Qred (st_qd (a_stats a)) = 10%Q /\ st_num (a_stats a) = 2.
Proof.
  split.
  - intros o Ho. simpl in Ho.
    repeat (destruct Ho as [<-|Ho]; [simpl; try (vm_compute; auto);
             try (intros x Hx; simpl in Hx; repeat (destruct Hx as [<-|Hx]; [vm_compute; auto|]); destruct Hx)|]).
    destruct Ho.
  - vm_compute. repeat split; reflexivity.
Qed.

(** cqd_score (Model/Cqd.v = its defining formula over what data() lists: objective and measures of the current elites).
    The score depends only on the multiset of current elites -- not on the order data() lists them in, hence not on the insertion
    history, and never on unoccupied or stale slots (data() does not list them) ... *)
Theorem C06_cqd_only_current_elites : forall (M T : Type) (dist : M -> T -> Q) (c : cqd_cfg) (e1 e2 : list (Q * M)) pens iters,
  Permutation.Permutation e1 e2 -> oeq (cqd_mean dist c e1 pens iters) (cqd_mean dist c e2 pens iters).
Proof. exact cqd_mean_perm. Qed.

(** ... every per-target term is attained by a current elite and dominates all of them ... *)
Theorem C06_cqd_target_max : forall (M T : Type) (dist : M -> T -> Q) (c : cqd_cfg) (e : list (Q * M)) pen t m,
  qmax_list (map (cqd_value dist c pen t) e) = Some m ->
  (exists x, In x e /\ (cqd_value dist c pen t x == m)%Q) /\ forall x, In x e -> (cqd_value dist c pen t x <= m)%Q.
Proof. exact cqd_target_max. Qed.

(** ... and it is defined exactly for non-empty archives (np.max over an empty axis raises) *)
Theorem C06_cqd_defined : forall (M T : Type) (dist : M -> T -> Q) (c : cqd_cfg) (e : list (Q * M)) pens targets,
  e <> [] -> exists s, cqd_iter dist c e pens targets = Some s.
Proof. exact cqd_iter_defined. Qed.

Theorem C06_cqd_empty : forall (M T : Type) (dist : M -> T -> Q) (c : cqd_cfg) pen pens t targets,
  cqd_iter dist c [] (pen :: pens) (t :: targets) = None.
Proof. exact cqd_iter_empty. Qed.

Print Assumptions C06_stats_invariant.
Print Assumptions C06_qd_score.
Print Assumptions C06_num_elites.
Print Assumptions C06_best_invariant.
Print Assumptions C06_written_is_content.
Print Assumptions C06_elitist_max.
Print Assumptions C06_noop_calls.
Print Assumptions C06_clear_resets.
Print Assumptions C06_cqd_only_current_elites.
Print Assumptions C06_cqd_target_max.
Print Assumptions C06_cqd_defined.
Print Assumptions C06_cqd_empty.
