(** C03 — index_of maps measures to the documented cell, for every archive type.
    Only statements closed by [exact]; models in Model/{Grid,CVT,SlidingIndex}.v and Base/MixedRadix.v,
    proofs in Proofs/{GridProofs,CVTProofs,SlidingIndexProofs}.v.

    Reading guide (one dimension of a grid: [d] cells on [lo, hi), epsilon [eps], boundaries
    b_j = lo + j*(hi-lo)/d = [grid_boundary d lo hi j]; [grid_idx1] = clip (trunc ((d*(m-lo)+eps)/(hi-lo)))
    with an integer cast that does not wrap — the behaviour the property requires and, by [C03_grid_clip_first_eq], what the repaired code
    (clip in floating point, then cast; fixes/F1.patch) computes; the pre-fix code cast to int32 first, see
    [C03_grid_edge_high_refuted_for_int32_first]). *)
From Coq Require Import List ZArith QArith Qround Qminmax Bool Lia.
From PV Require Import Base.MixedRadix Model.Grid Model.CVT Model.SlidingIndex
  Proofs.GridProofs Proofs.CVTProofs Proofs.SlidingIndexProofs.
Import ListNotations.
Open Scope Q_scope.

(** * GridArchive, one dimension *)
Section GridOneDim.
Variables (d : Z) (lo hi eps : Q).
Hypothesis Hd : (1 <= d)%Z.
Hypothesis Hw : lo < hi.
Hypothesis Heps : 0 <= eps.

Theorem C03_grid_range : forall m, (0 <= grid_idx1 d lo hi eps m < d)%Z.
Proof. exact (grid_idx1_range d lo hi eps Hd). Qed.

Theorem C03_grid_monotone : forall m1 m2, m1 <= m2 -> (grid_idx1 d lo hi eps m1 <= grid_idx1 d lo hi eps m2)%Z.
Proof. exact (grid_idx1_mono d lo hi eps Hd Hw). Qed.

(** above the range, EVERY magnitude: the last cell *)
Theorem C03_grid_edge_high : forall m, hi <= m -> grid_idx1 d lo hi eps m = (d - 1)%Z.
Proof. exact (grid_idx1_edge_high d lo hi eps Hd Hw Heps). Qed.

(** below the range, every magnitude: the first cell *)
Theorem C03_grid_edge_low : forall m, m <= lo -> eps < hi - lo -> grid_idx1 d lo hi eps m = 0%Z.
Proof. exact (grid_idx1_edge_low d lo hi eps Hd Hw). Qed.

(** shift characterisation: index_of is the exact [lower, upper) interval map of the coordinate
    shifted up by eps/d *)
Theorem C03_grid_shift : forall m,
  grid_idx1 d lo hi eps m = clipZ 0 (d - 1) (Qfloor (inject_Z d * ((m + eps / inject_Z d) - lo) / (hi - lo))).
Proof. exact (grid_idx1_shift d lo hi eps Hd Hw). Qed.

(** a coordinate in cell j and more than eps/d below its upper boundary maps to cell j *)
Theorem C03_grid_in_cell : forall m j, (0 <= j < d)%Z ->
  grid_boundary d lo hi j <= m -> m + eps / inject_Z d < grid_boundary d lo hi (j + 1) ->
  grid_idx1 d lo hi eps m = j.
Proof. exact (grid_idx1_in_cell d lo hi eps Hd Hw Heps). Qed.

(** closer than eps/d to the upper boundary: that cell or the adjacent one *)
Theorem C03_grid_in_cell_or_next : forall m j, (0 <= j < d)%Z -> eps <= hi - lo ->
  grid_boundary d lo hi j <= m -> m < grid_boundary d lo hi (j + 1) ->
  grid_idx1 d lo hi eps m = j \/ grid_idx1 d lo hi eps m = Z.min (j + 1) (d - 1).
Proof. exact (grid_idx1_in_cell_or_next d lo hi eps Hd Hw Heps). Qed.

(** a coordinate equal to a boundary belongs to the cell above it *)
Theorem C03_grid_boundary_above : forall j, (0 <= j < d)%Z ->
  (j <= grid_idx1 d lo hi eps (grid_boundary d lo hi j))%Z /\
  (eps < hi - lo -> grid_idx1 d lo hi eps (grid_boundary d lo hi j) = j).
Proof.
  intros j Hj. split; [exact (grid_idx1_boundary_ge d lo hi eps Hd Hw Heps j Hj)
                      |exact (grid_idx1_boundary_eq d lo hi eps Hd Hw Heps j Hj)].
Qed.

(** the repaired code (clip in floating point, then cast; fixes/F1.patch) computes the intended cell *)
Theorem C03_grid_clip_first_eq : forall m, grid_idx1_clip_first d lo hi eps m = grid_idx1 d lo hi eps m.
Proof. exact (grid_idx1_clip_first_eq d lo hi eps Hd). Qed.

(** ... hence the clauses that failed before the fix hold for it, for every finite magnitude *)
Theorem C03_grid_fixed_code_range : forall m, (0 <= grid_idx1_clip_first d lo hi eps m < d)%Z.
Proof. exact (grid_idx1_clip_first_range d lo hi eps Hd). Qed.

Theorem C03_grid_fixed_code_monotone : forall m1 m2, m1 <= m2 ->
  (grid_idx1_clip_first d lo hi eps m1 <= grid_idx1_clip_first d lo hi eps m2)%Z.
Proof. exact (grid_idx1_clip_first_mono d lo hi eps Hd Hw). Qed.

Theorem C03_grid_fixed_code_edge_high : forall m, hi <= m -> grid_idx1_clip_first d lo hi eps m = (d - 1)%Z.
Proof. exact (grid_idx1_clip_first_edge_high d lo hi eps Hd Hw Heps). Qed.

Theorem C03_grid_fixed_code_edge_low : forall m, m <= lo -> eps < hi - lo -> grid_idx1_clip_first d lo hi eps m = 0%Z.
Proof. exact (grid_idx1_clip_first_edge_low d lo hi eps Hd Hw). Qed.

(** the PRE-FIX code (cast to int32, then clip) is right exactly while the truncated raw value fits into int32 ... *)
Theorem C03_grid_int32_first_agrees : forall m,
  (int32_min <= Qtrunc (grid_raw d lo hi eps m) <= int32_max)%Z ->
  grid_idx1_int32_first d lo hi eps m = grid_idx1 d lo hi eps m.
Proof. exact (grid_idx1_int32_first_agrees d lo hi eps). Qed.

(** ... and sends every coordinate whose raw value reaches 2^31 to cell 0 *)
Theorem C03_grid_int32_first_wraps : forall m,
  inject_Z (int32_max + 1) <= grid_raw d lo hi eps m -> grid_idx1_int32_first d lo hi eps m = 0%Z.
Proof. exact (grid_idx1_int32_first_wraps d lo hi eps Hd). Qed.
End GridOneDim.

(** F1: for the pre-fix cast-then-clip order, edge-high (hence monotonicity) is FALSE (this theorem is about
    [grid_idx1_int32_first], the code before fixes/F1.patch, not about the repaired code) *)
Theorem C03_grid_edge_high_refuted_for_int32_first :
  exists d lo hi eps m, (1 <= d)%Z /\ lo < hi /\ 0 <= eps /\ hi <= m /\
    grid_idx1_int32_first d lo hi eps m <> (d - 1)%Z /\
    exists m', m' <= m /\ ~ (grid_idx1_int32_first d lo hi eps m' <= grid_idx1_int32_first d lo hi eps m)%Z.
Proof.
  exists 10%Z, 0, 1, (1 # 1000000), 1000000000.
  destruct int32_first_edge_high_witness as [A [_ B]].
  split; [lia|]. split; [reflexivity|]. split; [discriminate|]. split; [discriminate|].
  split; [rewrite A; discriminate|].
  exists (1 # 2). split; [discriminate|]. rewrite A, B. lia.
Qed.

(** * GridArchive, all dimensions; integer <-> grid indices *)
Theorem C03_grid_index_range : forall eps cfg m, valid_cfg cfg -> length m = length cfg ->
  (0 <= grid_index_of_one eps cfg m < prodZ (grid_dims cfg))%Z.
Proof. exact grid_index_range. Qed.

(** the repaired per-dimension code gives the same grid cells in every dimension *)
Theorem C03_grid_fixed_code_cells : forall eps cfg, valid_cfg cfg -> forall m,
  grid_cells grid_idx1_clip_first eps cfg m = grid_cells grid_idx1 eps cfg m.
Proof. exact grid_cells_clip_first_eq. Qed.

Theorem C03_grid_index_cells : forall eps cfg m, valid_cfg cfg -> length m = length cfg ->
  int_to_grid_index cfg (grid_index_of_one eps cfg m) = grid_cells grid_idx1 eps cfg m.
Proof. exact grid_int_to_grid_of_index. Qed.

(** raising any coordinates lowers neither a grid index nor the integer index *)
Theorem C03_grid_index_monotone : forall eps cfg m1 m2, valid_cfg cfg -> Forall2 Qle m1 m2 ->
  Forall2 Z.le (grid_cells grid_idx1 eps cfg m1) (grid_cells grid_idx1 eps cfg m2) /\
  (grid_index_of_one eps cfg m1 <= grid_index_of_one eps cfg m2)%Z.
Proof.
  intros eps cfg m1 m2 Hv H. split; [exact (grid_cells_mono eps cfg Hv m1 m2 H)|exact (grid_index_mono eps cfg m1 m2 Hv H)].
Qed.

Theorem C03_grid_int_grid_inverse : forall cfg, valid_cfg cfg ->
  (forall g, in_gridZ (grid_dims cfg) g ->
     int_to_grid_index cfg (grid_to_int_index cfg g) = g /\
     (0 <= grid_to_int_index cfg g < prodZ (grid_dims cfg))%Z) /\
  (forall i, (0 <= i < prodZ (grid_dims cfg))%Z ->
     grid_to_int_index cfg (int_to_grid_index cfg i) = i /\ in_gridZ (grid_dims cfg) (int_to_grid_index cfg i)).
Proof.
  intros cfg Hv. split.
  - intros g Hg. split; [exact (grid_to_int_to_grid cfg g Hg)|exact (ravelZ_range _ _ Hg)].
  - intros i Hi. exact (int_to_grid_to_int cfg i Hv Hi).
Qed.

(** the bijection for every dims list (any number of dimensions), nat version *)
Theorem C03_unravel_ravel : forall dims g, in_grid dims g -> unravel dims (ravel dims g) = g /\ (ravel dims g < prod dims)%nat.
Proof. intros dims g H. split; [exact (unravel_ravel dims g H)|exact (ravel_lt dims g H)]. Qed.

Theorem C03_ravel_unravel : forall dims, positive_dims dims -> forall i, (i < prod dims)%nat ->
  ravel dims (unravel dims i) = i /\ in_grid dims (unravel dims i).
Proof. intros dims H i Hi. split; [exact (ravel_unravel dims H i Hi)|exact (unravel_in_grid dims H i Hi)]. Qed.

Theorem C03_ravelZ_is_ravel : forall dims g,
  ravelZ (map Z.of_nat dims) (map Z.of_nat g) = Z.of_nat (ravel dims g) /\
  forall i, unravelZ (map Z.of_nat dims) (Z.of_nat i) = map Z.of_nat (unravel dims i).
Proof. intros dims g. split; [exact (ravelZ_of_nat dims g)|exact (unravelZ_of_nat dims)]. Qed.

(** index_of_single agrees with index_of, at every position of every batch *)
Theorem C03_grid_single_is_batch : forall eps cfg ms k, (k < length ms)%nat ->
  nth k (grid_index_of eps cfg ms) 0%Z = grid_index_of_single eps cfg (nth k ms []).
Proof. exact grid_single_is_batch. Qed.

(** * CVTArchive (and ProximityArchive: "centroids" = the stored measures) *)
Theorem C03_cvt_is_minimiser : forall cs ms k, cs <> [] -> (k < length ms)%nat ->
  is_nearest cs (nth k ms []) (nth k (cvt_index_of cs ms) O).
Proof. exact cvt_index_of_all_nearest. Qed.

(** chunked search = unchunked search, for every chunk size and every batch *)
Theorem C03_cvt_chunked_eq : forall cs chunk ms, (forall k, chunk = Some k -> (0 < k)%nat) ->
  cvt_index_of_chunked cs chunk ms = cvt_index_of cs ms.
Proof. exact cvt_chunked_eq. Qed.

Theorem C03_cvt_chunking_invariant : forall cs chunks,
  concat (map (cvt_index_of cs) chunks) = cvt_index_of cs (concat chunks).
Proof. exact cvt_index_of_concat. Qed.

(** two correct answers (e.g. k-D tree vs brute force) can differ only by an exact distance tie *)
Theorem C03_cvt_tie_any : forall cs m i j, is_nearest cs m i -> is_nearest cs m j ->
  dist2 m (nth i cs []) == dist2 m (nth j cs []).
Proof. exact nearest_equidistant. Qed.

(** brute force resolves ties to the first nearest centroid (np.argmin) *)
Theorem C03_cvt_first_wins : forall cs m j, cs <> [] -> (j < cvt_index_one cs m)%nat ->
  dist2 m (nth (cvt_index_one cs m) cs []) < dist2 m (nth j cs []).
Proof. exact cvt_index_one_first. Qed.

(** * SlidingBoundariesArchive *)
Theorem C03_sb_idx_spec : forall d b lo hi_e x, (1 <= d)%nat -> (d <= length b)%nat -> sortedQ (firstn d b) ->
  let xc := clipQ lo hi_e x in
  let j := sb_idx1_x d b lo hi_e x in
  (j = O \/ nth j b 0 < xc) /\ (j = (d - 1)%nat \/ xc <= nth (j + 1) b 0).
Proof. exact sb_idx1_spec. Qed.

(** with the bounds the archive maintains the clipped coordinate lies inside the returned cell *)
Theorem C03_sb_idx_cell : forall d b lo hi_e x, (1 <= d)%nat -> (d < length b)%nat -> sortedQ (firstn d b) ->
  lo == nth 0 b 0 -> lo <= hi_e -> hi_e <= nth d b 0 ->
  let xc := clipQ lo hi_e x in
  let j := sb_idx1_x d b lo hi_e x in
  nth j b 0 <= xc /\ (j = O \/ nth j b 0 < xc) /\ xc <= nth (j + 1) b 0.
Proof. exact sb_idx1_cell. Qed.

Theorem C03_sb_range : forall d b lo hi_e x, (1 <= d)%nat -> (sb_idx1_x d b lo hi_e x < d)%nat.
Proof. intros d b lo hi_e x Hd. exact (sb_idx1_range d b lo hi_e x Hd). Qed.

Theorem C03_sb_monotone : forall d b lo hi_e x1 x2, x1 <= x2 -> (sb_idx1_x d b lo hi_e x1 <= sb_idx1_x d b lo hi_e x2)%nat.
Proof. exact sb_idx1_mono. Qed.

Theorem C03_sb_index_range : forall cfg x, valid_scfg cfg -> length x = length cfg ->
  (0 <= sb_index_of_one cfg x < prodZ (sb_dims cfg))%Z /\
  unravelZ (sb_dims cfg) (sb_index_of_one cfg x) = map Z.of_nat (sb_cells cfg x).
Proof. intros cfg x Hv Hl. split; [exact (sb_index_range cfg x Hv Hl)|exact (sb_unravel_index cfg x Hv Hl)]. Qed.

(** * non-vacuity: concrete non-trivial instances meeting the hypotheses *)
(* 10 cells on [0,1), eps 1e-6: 0.35 is in cell 3 = [0.3, 0.4) and more than eps/d below 0.4; b_3 itself maps to 3 *)
Example C03_nonvacuous_grid :
  let d := 10%Z in let lo := 0 in let hi := 1 in let eps := 1 # 1000000 in
  (1 <= d)%Z /\ lo < hi /\ 0 <= eps /\ eps < hi - lo /\
  grid_boundary d lo hi 3 <= (35 # 100) /\ (35 # 100) + eps / inject_Z d < grid_boundary d lo hi (3 + 1) /\
  grid_idx1 d lo hi eps (35 # 100) = 3%Z /\
  grid_idx1 d lo hi eps (grid_boundary d lo hi 3) = 3%Z /\
  grid_idx1 d lo hi eps (3999999 # 10000000) = 4%Z /\   (* within eps/d of b_4: the adjacent cell *)
  grid_idx1 d lo hi eps 1000000000 = 9%Z /\ grid_idx1 d lo hi eps (-1000000000) = 0%Z /\
  grid_idx1_clip_first d lo hi eps 1000000000 = 9%Z /\ grid_idx1_clip_first d lo hi eps (1 # 2) = 5%Z /\
  grid_idx1_int32_first d lo hi eps 1000000000 = 0%Z.   (* the pre-fix code: F1 *)
Proof. vm_compute. repeat split; congruence. Qed.

Example C03_nonvacuous_grid_nd :
  let cfg := [mkGdim 3 0 1; mkGdim 4 (-1) 1; mkGdim 2 0 10] in
  let eps := 1 # 1000000 in
  grid_cells grid_idx1 eps cfg [1 # 2; 0; 7] = [1; 2; 1]%Z /\
  grid_index_of_one eps cfg [1 # 2; 0; 7] = 13%Z /\ prodZ (grid_dims cfg) = 24%Z /\
  int_to_grid_index cfg 13 = [1; 2; 1]%Z /\
  grid_index_of_single eps cfg [1 # 2; 0; 7] = 13%Z /\
  grid_index_of eps cfg [[0; 0; 0]; [1 # 2; 0; 7]] = [4; 13]%Z /\
  unravel [3; 4; 2]%nat 13 = [1; 2; 1]%nat /\ ravel [3; 4; 2]%nat [1; 2; 1]%nat = 13%nat.
Proof. vm_compute. repeat split; congruence. Qed.

(* an exact tie (centroids 0 and 2 equidistant from 1): first wins; chunking by 2 of 3 queries *)
Example C03_nonvacuous_cvt :
  let cs := [[0; 0]; [2; 0]; [5; 5]] in
  let ms := [[1; 0]; [4; 4]; [3 # 2; 1]] in
  cvt_index_of cs ms = [0; 2; 1]%nat /\
  cvt_index_of_chunked cs (Some 2%nat) ms = [0; 2; 1]%nat /\
  array_split ms 2 = [[[1; 0]; [4; 4]]; [[3 # 2; 1]]] /\
  dist2 [1; 0] [0; 0] == dist2 [1; 0] [2; 0].
Proof. vm_compute. repeat split; congruence. Qed.

(* boundaries with a duplicate, as a remap produces them *)
Example C03_nonvacuous_sliding :
  let b := [0; 1 # 4; 1 # 4; 3 # 4; 1] in
  let d := 4%nat in
  sortedQ (firstn d b) /\ (d < length b)%nat /\
  sb_idx1 d b 0 1 (1 # 1000) (1 # 2) = 2%nat /\
  sb_idx1 d b 0 1 (1 # 1000) (1 # 4) = 2%nat /\
  sb_idx1 d b 0 1 (1 # 1000) (1 # 5) = 0%nat /\
  sb_idx1 d b 0 1 (1 # 1000) 100 = 3%nat /\
  sb_idx1 d b 0 1 (1 # 1000) (-100) = 0%nat.
Proof.
  split; [vm_compute; repeat split; congruence|]. split; [simpl; lia|].
  vm_compute. repeat split; congruence.
Qed.

Print Assumptions C03_grid_range.
Print Assumptions C03_grid_monotone.
Print Assumptions C03_grid_edge_high.
Print Assumptions C03_grid_edge_low.
Print Assumptions C03_grid_shift.
Print Assumptions C03_grid_in_cell.
Print Assumptions C03_grid_in_cell_or_next.
Print Assumptions C03_grid_boundary_above.
Print Assumptions C03_grid_clip_first_eq.
Print Assumptions C03_grid_fixed_code_range.
Print Assumptions C03_grid_fixed_code_monotone.
Print Assumptions C03_grid_fixed_code_edge_high.
Print Assumptions C03_grid_fixed_code_edge_low.
Print Assumptions C03_grid_fixed_code_cells.
Print Assumptions C03_grid_int32_first_agrees.
Print Assumptions C03_grid_int32_first_wraps.
Print Assumptions C03_grid_edge_high_refuted_for_int32_first.
Print Assumptions C03_grid_index_range.
Print Assumptions C03_grid_index_cells.
Print Assumptions C03_grid_index_monotone.
Print Assumptions C03_grid_int_grid_inverse.
Print Assumptions C03_unravel_ravel.
Print Assumptions C03_ravel_unravel.
Print Assumptions C03_ravelZ_is_ravel.
Print Assumptions C03_grid_single_is_batch.
Print Assumptions C03_cvt_is_minimiser.
Print Assumptions C03_cvt_chunked_eq.
Print Assumptions C03_cvt_chunking_invariant.
Print Assumptions C03_cvt_tie_any.
Print Assumptions C03_cvt_first_wins.
Print Assumptions C03_sb_idx_spec.
Print Assumptions C03_sb_idx_cell.
Print Assumptions C03_sb_range.
Print Assumptions C03_sb_monotone.
Print Assumptions C03_sb_index_range.
