(** C07 — Every stored elite is retrievable through its own measures.
    Models: Model/Archive.v (ArchiveBase.retrieve / retrieve_single / sample_elites over the ArrayStore model),
    Model/Sliding.v (remaps).  Proofs: Proofs/C07Proofs.v, Proofs/SlidingProofs.v, Proofs/C07NearestProofs.v.
    The blank values of the real code (NaN for floats, -1 for index, 0 for integers, None for objects) are the
    model's [None]; their concrete encodings are checked by the harness per dtype and field layout. *)
From Coq Require Import List Arith Bool ZArith QArith Qreduction Lia.
From PV Require Import Base.ListUtil Base.QUtil Base.FirstArgmax Base.MixedRadix Model.Store Model.Archive
     Proofs.ArchiveProofs Proofs.C01Proofs Proofs.C07Proofs Proofs.C07NearestProofs Model.Sliding Proofs.SlidingProofs.
Import ListNotations.
Local Open Scope nat_scope.

Section C07.
Variable P : Type.

(** retrieve = store.retrieve on the cells of the queries, then blanking of unoccupied rows: for every
    reachable archive state and every query batch (repeated cells allowed), the implementation-shaped
    definition equals the specification "occupied=true + the complete elite of that cell, or occupied=false +
    blank". *)
Theorem C07_retrieve_spec : forall (c : cfg) (a : archive P) (q : list nat),
  AInv c a -> (forall i, In i q -> i < cells c) ->
  retrieve_impl a q = Ok (retrieve_cells a q).
Proof. exact (@retrieve_impl_spec P). Qed.

Theorem C07_retrieve_pointwise : forall (a : archive P) (q : list nat) k,
  k < length q ->
  nth k (retrieve_cells a q) (false, None) =
  match content a (nth k q 0) with
  | Some r => (true, Some (nth k q 0, r))
  | None => (false, None)
  end.
Proof. exact (@retrieve_cells_nth P). Qed.

Theorem C07_single_eq : forall (a : archive P) (i : nat),
  hd (false, None) (retrieve_cells a [i]) =
  match content a i with Some r => (true, Some (i, r)) | None => (false, None) end.
Proof. exact (@retrieve_single_eq P). Qed.

(** fixed geometry (GridArchive, CVTArchive): for every history of add / add_single / clear in which each
    candidate is routed by index_of of its own measures, every stored elite sits in the cell its own measures
    map to, default and CMA-MAE settings alike ... *)
Theorem C07_own_cell : forall (cell_of : P -> nat) (c : cfg) (h : list (aop P)),
  wf_hist c h -> (forall o, In o h -> consistent_op cell_of o) -> InOwnCell cell_of (arun c h).
Proof. exact (@own_cell_invariant P). Qed.

(** ... hence querying its own measures returns exactly it *)
Theorem C07_stored_elite_retrievable : forall (cell_of : P -> nat) (c : cfg) (h : list (aop P)) i r,
  wf_hist c h -> (forall o, In o h -> consistent_op cell_of o) ->
  content (arun c h) i = Some r ->
  retrieve_cells (arun c h) [cell_of (r_pay r)] = [(true, Some (i, r))].
Proof. exact (@stored_elite_retrievable P). Qed.

(** SlidingBoundariesArchive: the same at every point of any history, remaps included, with the CURRENT geometry *)
Theorem C07_sliding_retrievable : forall (c : scfg) (h : list (sop P)) i r,
  cwf c -> (forall o, In o h -> sop_ok c o) ->
  content (ss_arch (srun false c h)) i = Some r ->
  retrieve_cells (ss_arch (srun false c h))
                 [sindex (s_eps c) (s_dims c) (ss_geom (srun false c h)) (fst (r_pay r))] = [(true, Some (i, r))].
Proof.
  intros c h i r Hc Hok Hr.
  pose proof (si_own (sinv_run h Hc Hok) i Hr) as Ho. unfold cell_of in Ho. rewrite Ho.
  unfold retrieve_cells; simpl. rewrite Hr. reflexivity.
Qed.

(** sample_elites: IndexError on an empty archive; otherwise, for any integers below len (what the generator
    returns), only complete current elites; and every current elite is reachable by some integer *)
Theorem C07_sample_empty : forall (a : archive P) ints, len (a_store a) = 0 -> sample a ints = Err IndexError.
Proof. exact (@sample_empty P). Qed.

Theorem C07_sample_current : forall (c : cfg) (a : archive P) ints,
  AInv c a -> len (a_store a) <> 0 -> (forall k, In k ints -> k < len (a_store a)) ->
  exists l, sample a ints = Ok l /\ length l = length ints /\
            forall i r, In (i, r) l -> exists e, r = Some e /\ content a i = Some e.
Proof. exact (@sample_current P). Qed.

Theorem C07_sample_reaches : forall (c : cfg) (a : archive P) i e,
  AInv c a -> content a i = Some e ->
  exists k, k < len (a_store a) /\ sample a [k] = Ok [(i, Some e)].
Proof. exact (@sample_reaches P). Qed.
End C07.

(** ProximityArchive: index_of returns a stored entry at minimum distance (C03 / C14); for ANY such
    minimiser j of the distances from stored entry i's own measures, the entry found is at distance 0 from it
    (that entry, or one with identical measures when d is a metric) -- before and after replacements. *)
Theorem C07_proximity_nearest : forall (M : Type) (d : M -> M -> Q),
  (forall x, d x x == 0)%Q -> (forall x y, 0 <= d x y)%Q ->
  forall (entries : list M) (dflt : M) (i j : nat),
  i < length entries ->
  is_min (map (d (nth i entries dflt)) entries) j ->
  (d (nth i entries dflt) (nth j entries dflt) == 0)%Q.
Proof. exact nearest_of_stored_is_equivalent. Qed.

(** non-vacuity: a CMA-MAE archive after replacements, queried with hits, a miss and a repeat *)
Definition ex_cfg : cfg := mkCfg 4 (Some (-1)%Q) (1#2) 0.
Definition ex_hist : list (aop Z) :=
  [Add [mkCand 1 3 1%Z; mkCand 2 1 2%Z]; AddSingle (mkCand 1 (5#2) 1%Z); Add [mkCand 2 4 2%Z; mkCand 0 0 0%Z]].
Example C07_nonvacuous :
  wf_hist ex_cfg ex_hist /\ (forall o, In o ex_hist -> consistent_op Z.to_nat o) /\
  map (fun p => (fst p, option_map (fun ir : nat * row Z => (fst ir, r_pay (snd ir))) (snd p)))
      (retrieve_cells (arun ex_cfg ex_hist) [1; 3; 1; 2]) =
  [(true, Some (1, 1%Z)); (false, None); (true, Some (1, 1%Z)); (true, Some (2, 2%Z))].
Proof.
  split.
  - intros o Ho. simpl in Ho.
    repeat (destruct Ho as [<-|Ho]; [simpl; try exact I; try (vm_compute; auto);
             try (intros x Hx; simpl in Hx; repeat (destruct Hx as [<-|Hx]; [vm_compute; auto|]); destruct Hx)|]).
    destruct Ho.
  - split; [|vm_compute; reflexivity].
    intros o Ho. simpl in Ho.
    repeat (destruct Ho as [<-|Ho]; [simpl; repeat constructor|]). destruct Ho.
Qed.

Print Assumptions C07_retrieve_spec.
Print Assumptions C07_retrieve_pointwise.
Print Assumptions C07_single_eq.
Print Assumptions C07_own_cell.
Print Assumptions C07_stored_elite_retrievable.
Print Assumptions C07_sliding_retrievable.
Print Assumptions C07_sample_empty.
Print Assumptions C07_sample_current.
Print Assumptions C07_sample_reaches.
Print Assumptions C07_proximity_nearest.
