(** C10 — evolution-strategy emitters select parents and restart exactly as configured.
    Model: Model/ESControl.v (EvolutionStrategyEmitter.tell and the duplicated control block of
    GradientArborescenceEmitter.tell); spec vocabulary: Spec/ESControlSpec.v; proofs: Proofs/ESControlProofs.v.
    The evolution strategy, ranker and archive are arbitrary ([env]): every theorem holds for every
    ranker, every stop signal, every archive content and every feedback sequence. *)
From Coq Require Import List ZArith Bool Arith Lia.
From PV Require Import Base.ListUtil Model.Store Model.ESControl Spec.ESControlSpec Proofs.ESControlProofs.
Import ListNotations.

Section C10.
Variables P V : Type.
Implicit Types (c : cfg) (e : env P V) (s : state P) (h : list (env P V)).

(** number of parents handed to the optimiser: inserted solutions ('filter') or half the batch ('mu') *)
Theorem C10_parents : forall c e s rows sts idx vals np,
  In (AOptTell idx vals np) (fst (fst (tell c e s rows sts))) ->
  np = match c_sel c with Filter => inserted sts | Mu => c_batch c / 2 end.
Proof. exact (@tell_parents P V). Qed.

(** one iteration per tell; over a history: as many iterations as tells *)
Theorem C10_itrs : forall c e s rows sts, itrs (snd (fst (tell c e s rows sts))) = S (itrs s).
Proof. exact (@tell_itrs P V). Qed.

Theorem C10_itrs_history : forall c h s, itrs (snd (run c s h)) = itrs s + length h.
Proof. exact (@run_itrs P V). Qed.

(** ranking pass-through: apart from restart actions a tell makes exactly three calls — the ranker
    ranks exactly the rows passed to tell, the optimiser is told exactly the index vector and values
    that call returned, and check_stop sees those values in rank order.  In a scheduler round the rows
    are the ones the optimiser emitted in the preceding ask. *)
Theorem C10_ranking_passthrough : forall c e s rows sts,
  filter (fun a => negb (is_reset a)) (fst (fst (tell c e s rows sts))) =
  [ARank rows sts;
   AOptTell (fst (e_rank e rows sts)) (snd (e_rank e rows sts)) (parents_spec c sts);
   ACheckStop (take_rows (snd (e_rank e rows sts)) (fst (e_rank e rows sts)))].
Proof. exact (@tell_passthrough P V). Qed.

Theorem C10_round_ranks_emitted_rows : forall c e s,
  exists rest, fst (fst (round c e s)) = ARank (e_ask e) (e_status e) :: rest.
Proof.
  intros c e s. destruct (@tell_log_prefix P V c e s (ask e) (e_status e)) as [tail [H _]].
  unfold round. rewrite H. eexists. reflexivity.
Qed.

(** restart  <->  the optimiser reported convergence, or the configured rule fired *)
Theorem C10_restart_iff : forall c e s rows sts,
  restarted (fst (fst (tell c e s rows sts))) = true <->
  (stop_answer e rows sts = true \/ rule_fires (c_rule c) (S (itrs s)) sts).
Proof. exact (@tell_restarted_iff P V). Qed.

Theorem C10_restart_counter_iff : forall c e s rows sts,
  sample_elite e <> None ->
  let s' := snd (fst (tell c e s rows sts)) in
  (restarts s' = S (restarts s) <-> (stop_answer e rows sts = true \/ rule_fires (c_rule c) (S (itrs s)) sts)) /\
  (restarts s' = restarts s <-> ~ (stop_answer e rows sts = true \/ rule_fires (c_rule c) (S (itrs s)) sts)).
Proof. exact (@tell_restarts_iff P V). Qed.

(** effect of a restart: after the three regular calls the archive is sampled once, the optimiser is
    re-centred on that elite (ESE: opt.reset(elite); GAE: grad_opt.reset(elite), opt.reset(0)), the
    ranker is reset, restarts += 1; the elite is one currently in the archive. *)
Theorem C10_restart_effect : forall c e s rows sts x,
  (stop_answer e rows sts = true \/ rule_fires (c_rule c) (S (itrs s)) sts) ->
  sample_elite e = Some x ->
  tell c e s rows sts =
    (base_log c e rows sts ++ ASample 1 ::
       match c_kind c with
       | ESE => [AOptReset (Some x); ARankerReset]
       | GAE => [AGradReset x; AOptReset None; ARankerReset]
       end,
     mkState (S (itrs s)) (S (restarts s)) (Some x) (S (ranker_epoch s)), Ok tt)
  /\ In x (e_archive e).
Proof.
  intros c e s rows sts x Hf Hx. split; [exact (@tell_restart P V c e s rows sts x Hf Hx) | exact (@sample_elite_In P V e x Hx)].
Qed.

(** ... and otherwise none of the three happens *)
Theorem C10_no_restart_effect : forall c e s rows sts,
  ~ (stop_answer e rows sts = true \/ rule_fires (c_rule c) (S (itrs s)) sts) ->
  tell c e s rows sts =
    (base_log c e rows sts, mkState (S (itrs s)) (restarts s) (center s) (ranker_epoch s), Ok tt).
Proof. exact (@tell_no_restart P V). Qed.

(** histories, optimiser never converged: with an integer rule N (any non-zero integer) the restarts
    happen exactly at tells N, 2N, 3N, ... *)
Theorem C10_everyN : forall c N h t e log,
  c_rule c = EveryN N -> (N <> 0)%Z -> Forall never_stops h ->
  nth_error h t = Some e -> nth_error (fst (run c init_state h)) t = Some log ->
  (restarted log = true <-> (N | Z.of_nat (S t))%Z).
Proof. exact (@everyN_positions P V). Qed.

Theorem C10_everyN_count : forall c N h,
  c_rule c = EveryN N -> (N <> 0)%Z -> Forall never_stops h ->
  Forall (fun e => sample_elite e <> None) h ->
  restarts (snd (run c init_state h)) = Z.to_nat (Z.of_nat (length h) / Z.abs N).
Proof. exact (@everyN_restart_count P V). Qed.

(** 'no_improvement': exactly at the tells in which nothing was inserted *)
Theorem C10_no_improvement : forall c h s t e log,
  c_rule c = NoImprovement -> Forall never_stops h ->
  nth_error h t = Some e -> nth_error (fst (run c s h)) t = Some log ->
  (restarted log = true <-> Forall (fun z => z = 0%Z) (e_status e)).
Proof. exact (@no_improvement_positions P V). Qed.

(** 'basic': never (nothing is reset, whatever the feedback) *)
Theorem C10_basic_never : forall c h s,
  c_rule c = Basic -> Forall never_stops h ->
  let r := run c s h in
  restarts (snd r) = restarts s /\ center (snd r) = center s /\ ranker_epoch (snd r) = ranker_epoch s /\
  Forall (fun log => forall a, In a log -> is_reset a = false) (fst r).
Proof. exact (@run_basic_never P V). Qed.

(** whatever the rule and the stop signals: restarts counts the restarting tells *)
Theorem C10_restarts_counts : forall c h s,
  Forall (fun e => sample_elite e <> None) h ->
  restarts (snd (run c s h)) = restarts s + count_true (map (@restarted P V) (fst (run c s h))).
Proof. exact (@run_restart_count P V). Qed.

End C10.

(** non-vacuity: concrete configurations / histories meeting the hypotheses *)
Definition ex_env (sts : list Z) (stop : bool) : env Z Z :=
  mkEnv [11; 12; 13; 14]%Z sts (fun _ _ => ([2; 0; 3; 1], [5; 6; 7; 8]%Z)) (fun _ => stop) [70; 80]%Z 1.

Example C10_nonvacuous_everyN :
  let c := mkCfg ESE Filter (EveryN 3) 4 in
  let h := repeat (ex_env [0; 1; 2; 0]%Z false) 7 in
  Forall never_stops h /\ Forall (fun e => sample_elite e <> None) h /\
  map (@restarted Z Z) (fst (run c init_state h)) = [false; false; true; false; false; true; false] /\
  snd (run c init_state h) = mkState 7 2 (Some 80%Z) 2 /\
  nth_error (fst (run c init_state h)) 2 =
    Some [ARank [11; 12; 13; 14]%Z [0; 1; 2; 0]%Z; AOptTell [2; 0; 3; 1] [5; 6; 7; 8]%Z 2;
          ACheckStop [7; 5; 8; 6]%Z; ASample 1; AOptReset (Some 80%Z); ARankerReset].
Proof.
  vm_compute. repeat split; try (repeat constructor; intros; reflexivity);
    repeat constructor; discriminate.
Qed.

Example C10_nonvacuous_stop_and_rules :
  (* stop signal restarts under 'basic'; 'no_improvement' fires on an all-zero batch; mu selection *)
  restarted (fst (fst (tell (mkCfg GAE Mu Basic 5) (ex_env [1; 1; 0; 0]%Z true) init_state [1; 2]%Z [1; 1; 0; 0]%Z))) = true /\
  fst (fst (tell (mkCfg GAE Mu NoImprovement 5) (ex_env [] false) init_state [1; 2]%Z [0; 0]%Z)) =
    [ARank [1; 2]%Z [0; 0]%Z; AOptTell [2; 0; 3; 1] [5; 6; 7; 8]%Z 2; ACheckStop [7; 5; 8; 6]%Z;
     ASample 1; AGradReset 80%Z; AOptReset None; ARankerReset] /\
  restarted (fst (fst (tell (mkCfg ESE Filter NoImprovement 5) (ex_env [] false) init_state [1; 2]%Z [0; 2]%Z))) = false /\
  restarts (snd (run (mkCfg ESE Filter Basic 4) init_state (repeat (ex_env [0; 0; 0; 0]%Z false) 5))) = 0.
Proof. vm_compute. repeat split. Qed.

Print Assumptions C10_parents.
Print Assumptions C10_itrs.
Print Assumptions C10_itrs_history.
Print Assumptions C10_ranking_passthrough.
Print Assumptions C10_round_ranks_emitted_rows.
Print Assumptions C10_restart_iff.
Print Assumptions C10_restart_counter_iff.
Print Assumptions C10_restart_effect.
Print Assumptions C10_no_restart_effect.
Print Assumptions C10_everyN.
Print Assumptions C10_everyN_count.
Print Assumptions C10_no_improvement.
Print Assumptions C10_basic_never.
Print Assumptions C10_restarts_counts.
