(** C16 — BanditScheduler keeps num_active emitters and selects them by UCB1.
    Only statements closed by [exact]; model in Model/Bandit.v (+ Model/Scheduler.v for the routing),
    proofs in Proofs/BanditProofs.v.
    Model and statements describe the behaviour of ribs/schedulers/_bandit_scheduler.py AFTER fixes/F9.patch
    (logarithm's argument clipped to 1): never-selected emitters rank ahead of every previously selected one
    also while total success is 0, where the documented score is undefined (key [KUndef]).  The unfixed code
    violated exactly that clause; see the Example C16_F9_prefix_unfixed_choice_rejected at the end.

    Vocabulary:
      valid_selection k kept keys chosen   (Model/Bandit.v) the decidable specification of a reselection:
                        [chosen] has the pool's length, exactly [k] actives, contains [kept], and no emitter
                        left inactive is [better] than a newly activated one.  [better]: never selected
                        (key +inf) before previously selected; among defined scores the strictly larger
                        one; equal or undefined (NaN) scores impose no order.
      select            the code's way of choosing: descending argsort of the keys, then the activation loop
      ask_pre           reselect mask / first-iteration fill / deactivation -> (mask, kept actives, _restarts)
      new_active        the active set after an accepted ask: the implementation's choice when it satisfies
                        [valid_selection], the model's [select] otherwise
      Shape / Inv       array lengths = pool size, num_active <= pool; Inv adds the counter equations
      told_rows / told_succ   number of solutions / of non-zero statuses in one recorded emitter.tell call *)
From Coq Require Import List Arith Bool Lia ZArith QArith.
From PV Require Import Base.ListUtil Base.SliceUtil Model.Store Model.Scheduler Model.Bandit
     Proofs.SchedulerProofs Proofs.BanditProofs.
Import ListNotations.
Open Scope nat_scope.

Section C16.
Variable V : Type.
Variable F : Type.
Variable status_nz : F -> bool.    (* add_info["status"][k] != 0 *)
Notation bandit := (bandit V F).

(** every state reachable from a fresh BanditScheduler (any pool size n >= num_active k, both
    reselect modes, both add modes, any program with any oracle inputs) satisfies the invariant,
    and its configuration never changes *)
Theorem C16_reachable_Inv : forall n k rm m wr (ops : list (bop V F)),
  k <= n ->
  let s := fst (bandit_run status_nz (bandit_init n k rm m wr) ops) in
  Inv status_nz s /\ num_active s = k /\ reselect s = rm /\ pool s = n.
Proof.
  intros n k rm m wr ops Hk. pose proof (@init_Inv V F status_nz n k rm m wr Hk) as HI. split.
  - exact (run_Inv ops HI).
  - pose proof (run_config ops HI) as H. simpl in H. unfold pool in H at 2. simpl in H.
    rewrite repeat_length in H. exact H.
Qed.

(** exactly num_active emitters are active after every ask: once any call was accepted, in every
    reachable state *)
Theorem C16_num_active : forall n k rm m wr (ops : list (bop V F)),
  k <= n ->
  let s := fst (bandit_run status_nz (bandit_init n k rm m wr) ops) in
  last_called (core s) <> None -> ntrue (active s) = k /\ length (active s) = n.
Proof.
  intros n k rm m wr ops Hk s Hl.
  destruct (@C16_reachable_Inv n k rm m wr ops Hk) as [[_ [Hn _]] [Hk' [_ Hp]]].
  fold s in Hn, Hk', Hp. split; [rewrite <- Hk'; now apply Hn|exact Hp].
Qed.

(** one accepted ask, any valid or invalid choice offered: the new active set has exactly
    num_active members and contains every kept emitter; when a reselection took place it satisfies
    [valid_selection], otherwise it is the kept set *)
Theorem C16_ask_selects : forall (s : bandit) rin scores chosen,
  Shape s ->
  let kept := snd (fst (ask_pre s rin)) in
  let act' := new_active s rin scores chosen in
  length act' = pool s /\ ntrue act' = num_active s /\
  (forall i, nth i kept false = true -> nth i act' false = true) /\
  (existsb (fun b => b) (fst (fst (ask_pre s rin))) = true ->
     valid_selection (num_active s) kept (ucb_keys (selection s) scores) act' = true) /\
  (existsb (fun b => b) (fst (fst (ask_pre s rin))) = false -> act' = kept).
Proof. exact (@new_active_spec V F). Qed.

(** the specification is satisfiable in every such state, by the code's own argsort + loop *)
Theorem C16_select_valid : forall k kept keys,
  length keys = length kept -> ntrue kept <= k -> k <= length kept ->
  valid_selection k kept keys (select k kept keys) = true.
Proof. exact select_valid. Qed.

(** only active emitters are asked (exactly once each), their counts recorded *)
Theorem C16_only_active_asked : forall (s : bandit) rin scores chosen resp,
  Shape s -> last_is (last_called (core s)) CAsk = false ->
  let c := core s in
  let act' := new_active s rin scores chosen in
  let sols := concat (map resp (where_true act')) in
  exists nums el,
    bandit_ask s rin scores chosen resp =
      (mkBandit (mkSched (Some CAsk) sols nums (arch c) (rarch c) (mode c) el)
                act' (success s) (selection s) (snd (ask_pre s rin)) (num_active s) (reselect s),
       Ok (ORows sols)) /\
    length nums = pool s /\ length el = pool s /\
    (forall i, nth i act' false = true ->
       nth i nums 0 = length (resp i) /\ nth i el [] = nth i (elog c) [] ++ [Asked false (resp i)]) /\
    (forall i, nth i act' false = false ->
       nth i nums 0 = nth i (num_emitted c) 0 /\ nth i el [] = nth i (elog c) []).
Proof. exact (@bandit_ask_spec V F). Qed.

(** only active emitters are told (exactly once each, with their pos:end slice of every field and of
    the add feedback); selection_i grows by the rows emitted, success_i by the non-zero statuses of
    that slice; every row is inserted once, in order, into archive and result archive *)
Theorem C16_only_active_told : forall (s : bandit) a,
  Shape s -> last_is (last_called (core s)) CAsk = true ->
  lens_ok (length (cur (core s))) (ta_data a) = true -> ta_fail a = None ->
  let c := core s in
  let n := length (cur c) in
  let data := ta_data a ++ [Some (cur c)] in
  let info := map (ta_fb a) (seq 0 n) in
  let idxs := where_true (active s) in
  let lens := map (fun j => nth j (num_emitted c) 0) idxs in
  exists sel suc el,
    bandit_tell status_nz s a =
      (mkBandit (set_tell c (arch c ++ ins_events (mode c) n data)
                          (option_map (fun l => l ++ ins_events (mode c) n data) (rarch c)) el)
                (active s) suc sel (restarts s) (num_active s) (reselect s),
       Ok ONone) /\
    length sel = pool s /\ length suc = pool s /\ length el = pool s /\
    (forall p i, nth_error idxs p = Some i ->
       let start := sum_nat (firstn p lens) in
       let t := expected_told start (nth i (num_emitted c) 0) data None info in
       nth i el [] = nth i (elog c) [] ++ [Told false t] /\
       nth i sel 0 = nth i (selection s) 0 + nth i (num_emitted c) 0 /\
       nth i suc 0 = nth i (success s) 0 + count_nz status_nz (t_info t)) /\
    (forall i, nth i (active s) false = false ->
       nth i el [] = nth i (elog c) [] /\ nth i sel 0 = nth i (selection s) 0 /\
       nth i suc 0 = nth i (success s) 0).
Proof. exact (@bandit_tell_spec V F status_nz). Qed.

(** routing as in Scheduler: ask then tell hands each active emitter exactly the rows it generated,
    in every field and in the add feedback; inactive emitters see nothing *)
Theorem C16_routes_like_scheduler : forall (s : bandit) rin scores chosen resp a,
  Shape s -> last_is (last_called (core s)) CAsk = false ->
  let act' := new_active s rin scores chosen in
  let idxs := where_true act' in
  let total := length (concat (map resp idxs)) in
  lens_ok total (ta_data a) = true -> ta_fail a = None ->
  let s1 := fst (bandit_ask s rin scores chosen resp) in
  let s2 := fst (bandit_tell status_nz s1 a) in
  snd (bandit_tell status_nz s1 a) = Ok ONone /\
  active s2 = act' /\
  (forall p i, nth_error idxs p = Some i ->
     let off := sum_nat (map (fun j => length (resp j)) (firstn p idxs)) in
     let m := length (resp i) in
     exists t,
       nth i (elog (core s2)) [] = nth i (elog (core s)) [] ++ [Asked false (resp i); Told false t] /\
       last (t_data t) None = Some (resp i) /\
       (forall c col, nth_error (ta_data a) c = Some (Some col) ->
                      nth_error (t_data t) c = Some (Some (firstn m (skipn off col)))) /\
       (forall c, nth_error (ta_data a) c = Some None -> nth_error (t_data t) c = Some None) /\
       t_info t = map (ta_fb a) (seq off m)) /\
  (forall i, nth i act' false = false -> nth i (elog (core s2)) [] = nth i (elog (core s)) []).
Proof. exact (@bandit_roundtrip V F status_nz). Qed.

(** the counters equal what actually happened, in every reachable state: selection_i = total number
    of solutions handed back to emitter i over all its tell calls (= what it emitted in the matching
    asks, by C16_routes_like_scheduler), success_i = total number of non-zero statuses in the
    feedback slices it was handed *)
Theorem C16_counts : forall n k rm m wr (ops : list (bop V F)) i,
  k <= n -> i < n ->
  let s := fst (bandit_run status_nz (bandit_init n k rm m wr) ops) in
  nth i (selection s) 0 = sum_nat (map (@told_rows V F) (nth i (elog (core s)) [])) /\
  nth i (success s) 0 = sum_nat (map (told_succ status_nz) (nth i (elog (core s)) [])).
Proof.
  intros n k rm m wr ops i Hk Hi s.
  destruct (@C16_reachable_Inv n k rm m wr ops Hk) as [[_ [_ [_ Hc]]] [_ [_ Hp]]].
  apply Hc. rewrite Hp. exact Hi.
Qed.

(** never-selected emitters are activated ahead of any previously selected one, and previously
    selected ones in non-increasing order of their (defined) UCB1 scores: whenever i is newly
    activated while j is left inactive *)
Theorem C16_never_selected_first_and_order : forall (s : bandit) rin scores chosen,
  Shape s -> existsb (fun b => b) (fst (fst (ask_pre s rin))) = true ->
  let kept := snd (fst (ask_pre s rin)) in
  let act' := new_active s rin scores chosen in
  forall i j, i < pool s -> j < pool s ->
    nth i act' false = true -> nth i kept false = false ->
    nth j act' false = false ->
    (never_selected s j -> never_selected s i) /\
    (forall qi qj, ~ never_selected s i -> ~ never_selected s j ->
       scores i = Some qi -> scores j = Some qj -> (qj <= qi)%Q).
Proof. exact (@selection_order V F). Qed.

(** reselect = "terminated": an active emitter that has a restarts counter which did not increase
    stays active *)
Theorem C16_terminated_keeps : forall (s : bandit) rin scores chosen i,
  Shape s -> reselect s = Terminated -> i < pool s ->
  nth i (active s) false = true ->
  (0 <= rin i)%Z -> (rin i <= nth i (restarts s) 0%Z)%Z ->
  nth i (new_active s rin scores chosen) false = true.
Proof. exact (@terminated_keeps V F). Qed.

(** reselect = "all": once num_active emitters are active nothing is kept, every slot is decided
    afresh by rank alone *)
Theorem C16_all_fresh : forall (s : bandit) rin scores chosen,
  Shape s -> reselect s = AllActive -> ntrue (active s) = num_active s -> 1 <= num_active s ->
  let kept := snd (fst (ask_pre s rin)) in
  let act' := new_active s rin scores chosen in
  let keys := ucb_keys (selection s) scores in
  (forall i, nth i kept false = false) /\
  (forall i j, i < pool s -> j < pool s -> nth i act' false = true -> nth j act' false = false ->
     better (nth j keys KUndef) (nth i keys KUndef) = false).
Proof. exact (@all_fresh V F). Qed.

(** protocol: ask right after ask, tell without a pending ask -> RuntimeError; ask_dqd / tell_dqd ->
    NotImplementedError; in all these cases the whole state is unchanged; calls in order never
    raise either *)
Theorem C16_protocol_step : forall (s : bandit) (o : bop V F),
  let illegal := match o with
                 | BAsk _ _ _ _ => last_is (last_called (core s)) CAsk
                 | BTell _ => negb (last_is (last_called (core s)) CAsk)
                 | BAskDqd | BTellDqd => true
                 end in
  (illegal = true ->
     bandit_step status_nz s o =
     (s, Err (match o with BAskDqd | BTellDqd => OtherError | _ => RuntimeError end))) /\
  (illegal = false -> snd (bandit_step status_nz s o) <> Err RuntimeError /\
                      snd (bandit_step status_nz s o) <> Err OtherError).
Proof. exact (@bandit_protocol_step V F status_nz). Qed.

End C16.

(** non-vacuity *)
Definition ex_nz (f : nat) : bool := negb (Nat.eqb f 0).
Definition ex_scores (i : nat) : option Q :=
  match i with 0 => Some (1#2) | 1 => Some (1#4) | 2 => Some (1#2) | _ => None end.
Definition ex_resp16 (i : nat) : list nat := repeat (100 + i) (S i).
Definition ex_tell (fb : nat -> nat) : tell_args nat nat := mkTellArgs [None] [] fb None.

(** pool 5, num_active 2, reselect all: first ask fills [0,1]; after one tell the never-selected
    2,3 go first (4 would do as well: the choice [F;F;T;F;T] is accepted too); after they were
    told, scores decide: 0 and 2 tie at 1/2 above 1 at 1/4, 3 and 4 are undefined/never selected *)
Example C16_nonvacuous_history :
  let s0 := bandit_init (V := nat) (F := nat) 5 2 AllActive Batch false in
  let ops := [BAsk (fun _ => (-1)%Z) ex_scores [] ex_resp16;
              BTell (ex_tell (fun k => k));
              BAsk (fun _ => (-1)%Z) ex_scores [false; false; true; false; true] ex_resp16;
              BTell (ex_tell (fun k => 1))] in
  let s := fst (bandit_run ex_nz s0 ops) in
  active s = [false; false; true; false; true] /\ selection s = [1; 2; 3; 0; 5] /\
  success s = [0; 2; 3; 0; 5] /\ last_called (core s) = Some CTell /\
  Shape s /\ reselect s = AllActive /\ ntrue (active s) = num_active s /\
  existsb (fun b => b) (fst (fst (ask_pre s (fun _ => (-1)%Z)))) = true /\
  new_active s (fun _ => (-1)%Z) ex_scores [false; false; false; true; false] = [true; false; false; true; false] /\
  new_active s (fun _ => (-1)%Z) ex_scores [false; false; true; true; false] = [false; false; true; true; false] /\
  valid_selection 2 (repeat false 5) (ucb_keys (selection s) ex_scores) [false; true; false; true; false] = false.
Proof. vm_compute. repeat split; auto; lia. Qed.

(** reselect terminated: emitter 0 has a counter that did not move (stays), emitter 1 restarted
    (reselected), emitters 2.. have no counter *)
Example C16_nonvacuous_terminated :
  let s0 := bandit_init (V := nat) (F := nat) 4 2 Terminated Single true in
  let rin1 := fun i => match i with 0 => 0%Z | 1 => 0%Z | _ => (-1)%Z end in
  let rin2 := fun i => match i with 0 => 0%Z | 1 => 1%Z | _ => (-1)%Z end in
  let s := fst (bandit_run ex_nz s0 [BAsk rin1 ex_scores [] ex_resp16; BTell (ex_tell (fun k => 1))]) in
  active s = [true; true; false; false] /\ reselect s = Terminated /\ Shape s /\
  nth 0 (active s) false = true /\ (0 <= rin2 0%nat <= nth 0%nat (restarts s) 0)%Z /\
  new_active s rin2 ex_scores [true; false; false; true] = [true; false; false; true] /\
  new_active s rin2 ex_scores [false; false; true; true] = [true; false; true; false].
Proof. vm_compute. repeat split; auto; try lia; discriminate. Qed.

(** F9 (DESIGN.md section 6) -- the behaviour of the code BEFORE fixes/F9.patch, which this specification
    rejects: pool 6, num_active 2, reselect all, nothing is ever inserted, so every score is undefined
    (ln 0).  The unfixed code activated 0,1, then 4,5, then 4,5 again for ever.  The specification accepts
    the second choice (4,5 had never been selected) and REJECTS the third (the never-selected 2,3 stay
    inactive while the previously selected 4,5 are activated); the model's own [select] -- and the code
    after the patch -- picks the never-selected 2,3. *)
Example C16_F9_prefix_unfixed_choice_rejected :
  let s0 := bandit_init (V := nat) (F := nat) 6 2 AllActive Batch false in
  let none := fun _ : nat => @None Q in
  let norestart := fun _ : nat => (-1)%Z in
  let one := fun i : nat => [100 + i] in
  let ops := [BAsk norestart none [] one; BTell (ex_tell (fun _ => 0));
              BAsk norestart none [false; false; false; false; true; true] one; BTell (ex_tell (fun _ => 0))] in
  let s := fst (bandit_run ex_nz s0 ops) in
  active s = [false; false; false; false; true; true] /\ selection s = [1; 1; 0; 0; 1; 1] /\
  success s = [0; 0; 0; 0; 0; 0] /\
  valid_selection 2 (repeat false 6) (ucb_keys (selection s) none) [false; false; false; false; true; true] = false /\
  new_active s norestart none [false; false; false; false; true; true] = [false; false; true; true; false; false].
Proof. vm_compute. repeat split; reflexivity. Qed.

Print Assumptions C16_reachable_Inv.
Print Assumptions C16_num_active.
Print Assumptions C16_ask_selects.
Print Assumptions C16_select_valid.
Print Assumptions C16_only_active_asked.
Print Assumptions C16_only_active_told.
Print Assumptions C16_routes_like_scheduler.
Print Assumptions C16_counts.
Print Assumptions C16_never_selected_first_and_order.
Print Assumptions C16_terminated_keeps.
Print Assumptions C16_all_fresh.
Print Assumptions C16_protocol_step.
