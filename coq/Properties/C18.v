(** C18 -- optimizers keep a valid search distribution and apply their update rules.
    Only statements closed by [exact] (or a few lines of glue).  Models: Model/OptReal.v (real-number update rules of
    CMA-ES / sep-CMA-ES / LM-MA-ES, tied to the code by harness/c18_util.py), Model/Opt.v (executable: resampling
    loop over draw streams, rational recombination; extracted and run against pyribs), Generated/OptGen.v (AdamOpt.step
    and GradientAscentOpt.step translated from the current source).  Proofs: Proofs/OptRealProofs.v, Proofs/OptProofs.v,
    Refine/OptRefine.v.

    Level: PARTIAL.  Proved below for ALL inputs / histories of the models.  NOT proved (observed by the harness
    only, see CONFIG level_note in harness/c18.py):
      - finiteness of sigma / mean / covariance under floating point;
      - "samples are distributed around the mean with the current scale and shape" (sample moments);
      - convergence on a convex quadratic;
      - everything about the pycma wrapper.
    Theorems over R depend on the stdlib real-number axioms only (printed at the end). *)
From Coq Require Import Reals List Arith Lra Lia.
From PV Require Import Base.RSum Model.Opt Model.OptReal Proofs.OptRealProofs Proofs.OptProofs
                       Generated.OptGen Refine.OptRefine.
Import ListNotations.
Open Scope R_scope.

(** * recombination weights and the new mean *)

(** w_i = (ln(mu + 1/2) - ln i) / total, i = 1..mu: positive total, every weight positive, strictly decreasing in
    the rank, sum 1 *)
Theorem C18_weights : forall mu, (1 <= mu)%nat ->
  length (weights mu) = mu /\
  (forall i, (i < mu)%nat ->
     nth i (weights mu) 0 = (ln (INR mu + 1 / 2) - ln (INR (S i))) / rsum (raw_weights mu)) /\
  0 < rsum (raw_weights mu) /\
  (forall i, (i < mu)%nat -> 0 < nth i (weights mu) 0) /\
  (forall i, (S i < mu)%nat -> nth (S i) (weights mu) 0 < nth i (weights mu) 0) /\
  rsum (weights mu) = 1.
Proof. exact weights_spec. Qed.

(** the mean after a tell with 1 <= num_parents <= len(ranking) lies, coordinate by coordinate, between the
    smallest and the largest coordinate of the selected parents (CMA-ES, sep-CMA-ES, LM-MA-ES) *)
Theorem C18_mean_in_hull : forall dim batch t k,
  (1 <= t_mu t <= length (t_ranking t))%nat ->
  let parents := select_parents (t_sols t) (t_ranking t) (t_mu t) in
  let lo := lmin (map (fun p : vec => p k) parents) in
  let hi := lmax (map (fun p : vec => p k) parents) in
  (forall s, lo <= c_mean (cma_tell dim batch s t) k <= hi) /\
  (forall s, lo <= s_mean (sep_tell dim batch s t) k <= hi) /\
  (forall s, lo <= l_mean (lm_tell dim batch s t) k <= hi).
Proof. exact tell_mean_in_hull. Qed.

(** ... and is the weighted sum of the samples at the FIRST num_parents ranking positions, rank i getting w_i *)
Theorem C18_mean_formula : forall dim batch s t k,
  (1 <= t_mu t <= length (t_ranking t))%nat ->
  c_mean (cma_tell dim batch s t) k =
    rsum (map (fun wp : R * vec => fst wp * snd wp k)
              (combine (weights (t_mu t)) (map (t_sols t) (firstn (t_mu t) (t_ranking t))))).
Proof. exact tell_mean_formula. Qed.

(** * zero parents: what the code does -- CMA-ES / sep-CMA-ES add len(ranking) to current_eval, LM-MA-ES adds one
    generation, nothing else changes *)
Theorem C18_zero_parents : forall dim batch t, t_mu t = 0%nat ->
  (forall s, let s' := cma_tell dim batch s t in
     c_mean s' = c_mean s /\ c_sigma s' = c_sigma s /\ c_ps s' = c_ps s /\ c_pc s' = c_pc s /\ c_cov s' = c_cov s /\
     c_evals s' = (c_evals s + length (t_ranking t))%nat) /\
  (forall s, let s' := sep_tell dim batch s t in
     s_mean s' = s_mean s /\ s_sigma s' = s_sigma s /\ s_ps s' = s_ps s /\ s_pc s' = s_pc s /\ s_cov s' = s_cov s /\
     s_evals s' = (s_evals s + length (t_ranking t))%nat) /\
  (forall s, let s' := lm_tell dim batch s t in
     l_mean s' = l_mean s /\ l_sigma s' = l_sigma s /\ l_ps s' = l_ps s /\ l_m s' = l_m s /\
     l_gens s' = (l_gens s + 1)%nat).
Proof. exact zero_parents_unchanged. Qed.

(** the same for the extracted rational model that runs against pyribs *)
Theorem C18_zero_parents_rational : forall kind weights s sols ranking,
  d_mean (tell_mean kind weights s sols ranking 0) = d_mean s /\
  d_count (tell_mean kind weights s sols ranking 0) =
    match kind with Evals => (d_count s + length ranking)%nat | Gens => (d_count s + 1)%nat end.
Proof. exact tell_mean_zero_parents. Qed.

(** * sigma' = sigma * exp(.) > 0 over every history of ask / tell / reset *)
Theorem C18_sigma_pos : forall dim batch sigma0 x0, (1 <= dim)%nat -> 0 < sigma0 ->
  (forall h, 0 < c_sigma (cma_run dim batch sigma0 x0 h)) /\
  (forall h, 0 < s_sigma (sep_run dim batch sigma0 x0 h)) /\
  (forall h, 0 < l_sigma (lm_run dim batch sigma0 x0 h)).
Proof. exact sigma_pos_all_histories. Qed.

Theorem C18_sigma_update_shape : forall dim batch t,
  (forall s, exists e, c_sigma (cma_tell dim batch s t) = c_sigma s * exp e \/ c_sigma (cma_tell dim batch s t) = c_sigma s) /\
  (forall s, exists e, s_sigma (sep_tell dim batch s t) = s_sigma s * exp e \/ s_sigma (sep_tell dim batch s t) = s_sigma s) /\
  (forall s, exists e, l_sigma (lm_tell dim batch s t) = l_sigma s * exp e \/ l_sigma (lm_tell dim batch s t) = l_sigma s).
Proof. exact sigma_update_shape. Qed.

(** * covariance: symmetric positive semi-definite over every history (CMA-ES: x^T C x >= 0 for every x on the
    indices 0..dim-1; sep-CMA-ES: every diagonal entry >= 0), whatever C^(-1/2) the tells were given *)
Theorem C18_cov_psd_sym : forall dim batch sigma0 x0, (1 <= dim)%nat -> 0 < sigma0 ->
  (forall h, let C := c_cov (cma_run dim batch sigma0 x0 h) in
             symmetric C /\ forall x : vec, 0 <= quad dim C x) /\
  (forall h k, 0 <= s_cov (sep_run dim batch sigma0 x0 h) k).
Proof. exact cov_psd_sym_all_histories. Qed.

(** the coefficient conditions are DERIVED from the code's formulas for the strategy parameters, for every dimension >= 1,
    parent count >= 1 and both values of hsig: 0 <= c1a <= c1, 0 <= cmu <= 1 - c1, alpha = 1 - c1a - cmu*sum(w) >= 0 *)
Theorem C18_cov_coefficients_cma : forall dim mu h,
  (1 <= dim)%nat -> (1 <= mu)%nat -> (h = 0 \/ h = 1) ->
  let n := INR dim in let me := mueff mu in
  let c1 := cma_c1 n me in let cmu := cma_cmu n me in let c1a := c1a_of c1 (cma_cc n me) h in
  0 <= c1a <= c1 /\ 0 <= cmu <= 1 - c1 /\ 0 <= 1 - c1a - cmu * rsum (weights mu) /\ 0 <= c1 * c1.
Proof. exact cma_coefficients. Qed.

Theorem C18_cov_coefficients_sep : forall dim mu h,
  (1 <= dim)%nat -> (1 <= mu)%nat -> (h = 0 \/ h = 1) ->
  let n := INR dim in let me := mueff mu in
  let c1 := sep_c1 n me in let cmu := sep_cmu n me in let c1a := c1a_of c1 (sep_cc n me) h in
  0 <= c1a <= c1 /\ 0 <= cmu <= 1 - c1 /\ 0 <= 1 - c1a - cmu * rsum (weights mu) /\ 0 <= c1 * c1.
Proof. exact sep_coefficients. Qed.

(** C' = alpha*C + beta*pc pc^T + gamma*sum_i w_i y_i y_i^T with alpha, beta, gamma >= 0 *)
Theorem C18_cov_update_shape : forall dim batch s t, Nat.eqb (t_mu t) 0 = false ->
  exists alpha beta gamma pc ys,
    (forall i j, c_cov (cma_tell dim batch s t) i j =
       alpha * c_cov s i j + beta * (pc i * pc j) + gamma * rank_mu (weights (t_mu t)) ys i j) /\
    pc = c_pc (cma_tell dim batch s t) /\
    ys = map (fun (p : vec) k => p k - c_mean s k) (select_parents (t_sols t) (t_ranking t) (t_mu t)) /\
    ((1 <= dim)%nat -> 0 < c_sigma s -> 0 <= alpha /\ 0 <= beta /\ 0 <= gamma).
Proof. exact cov_update_shape. Qed.

(** sep-CMA-ES: the full statement "the diagonal stays strictly positive over every history" is NOT proved: alpha = 0 is
    reachable (solution_dim 1 with many parents makes cmu_sep = 1 - c1_sep), and then a coordinate on which all parents
    and pc agree with the old mean gets variance 0.  Proved part: a tell whose alpha is positive keeps the diagonal
    strictly positive.
      full statement (unproved):  forall h k, 0 < s_cov (sep_run dim batch sigma0 x0 h) k                              *)
Theorem C18_sep_diag_pos_partial : forall dim batch s t,
  (1 <= dim)%nat -> (1 <= t_mu t)%nat -> 0 < s_sigma s -> (forall k, 0 < s_cov s k) ->
  (let n := INR dim in let me := mueff (t_mu t) in
   forall h, h = 0 \/ h = 1 -> 0 < 1 - c1a_of (sep_c1 n me) (sep_cc n me) h - sep_cmu n me * rsum (weights (t_mu t))) ->
  forall k, 0 < s_cov (sep_tell dim batch s t) k.
Proof. exact sep_tell_cov_pos. Qed.

(** * tell is a function of the ranking order and the stored samples, never of the ranking values *)
Theorem C18_order_only : forall dim batch t v,
  (forall s, cma_tell dim batch s (with_values t v) = cma_tell dim batch s t) /\
  (forall s, sep_tell dim batch s (with_values t v) = sep_tell dim batch s t) /\
  (forall s, lm_tell dim batch s (with_values t v) = lm_tell dim batch s t).
Proof. exact tell_order_only. Qed.

Theorem C18_order_only_histories : forall dim batch sigma0 x0 f,
  (forall h, cma_run dim batch sigma0 x0 (map (cma_op_with_values f) h) = cma_run dim batch sigma0 x0 h) /\
  (forall h, sep_run dim batch sigma0 x0 (map (es_op_with_values f) h) = sep_run dim batch sigma0 x0 h) /\
  (forall h, lm_run dim batch sigma0 x0 (map (es_op_with_values f) h) = lm_run dim batch sigma0 x0 h).
Proof. exact history_order_only. Qed.

(** the rational model: the new state depends on the first num_parents ranking positions (and the batch length) only *)
Theorem C18_order_only_rational : forall kind weights s sols ranking ranking' mu,
  firstn mu ranking = firstn mu ranking' -> length ranking = length ranking' ->
  tell_mean kind weights s sols ranking mu = tell_mean kind weights s sols ranking' mu.
Proof. exact tell_mean_parents_only. Qed.

(** * reset x1 after ANY history = the initial distribution at x1 *)
Theorem C18_reset : forall dim batch sigma0 x0 x1,
  (forall h, cma_run dim batch sigma0 x0 (h ++ [CReset x1]) = cma_init sigma0 x1) /\
  (forall h, sep_run dim batch sigma0 x0 (h ++ [EReset x1]) = sep_init sigma0 x1) /\
  (forall h, lm_run dim batch sigma0 x0 (h ++ [EReset x1]) = lm_init sigma0 x1).
Proof. exact reset_initial. Qed.

Theorem C18_reset_then_like_fresh : forall dim batch sigma0 x0 x1,
  (forall h h', cma_run dim batch sigma0 x0 (h ++ CReset x1 :: h') = cma_run dim batch sigma0 x1 h') /\
  (forall h h', sep_run dim batch sigma0 x0 (h ++ EReset x1 :: h') = sep_run dim batch sigma0 x1 h') /\
  (forall h h', lm_run dim batch sigma0 x0 (h ++ EReset x1 :: h') = lm_run dim batch sigma0 x1 h').
Proof. exact reset_then_like_fresh. Qed.

Theorem C18_initial_distribution : forall sigma0 x0,
  (c_mean (cma_init sigma0 x0) = x0 /\ c_sigma (cma_init sigma0 x0) = sigma0 /\
   (forall k, c_ps (cma_init sigma0 x0) k = 0) /\ (forall k, c_pc (cma_init sigma0 x0) k = 0) /\
   (forall i j, c_cov (cma_init sigma0 x0) i j = if Nat.eqb i j then 1 else 0) /\ c_evals (cma_init sigma0 x0) = 0%nat) /\
  (s_mean (sep_init sigma0 x0) = x0 /\ s_sigma (sep_init sigma0 x0) = sigma0 /\
   (forall k, s_ps (sep_init sigma0 x0) k = 0) /\ (forall k, s_pc (sep_init sigma0 x0) k = 0) /\
   (forall k, s_cov (sep_init sigma0 x0) k = 1) /\ s_evals (sep_init sigma0 x0) = 0%nat) /\
  (l_mean (lm_init sigma0 x0) = x0 /\ l_sigma (lm_init sigma0 x0) = sigma0 /\
   (forall k, l_ps (lm_init sigma0 x0) k = 0) /\ (forall j k, l_m (lm_init sigma0 x0) j k = 0) /\
   l_gens (lm_init sigma0 x0) = 0%nat).
Proof. exact init_distribution. Qed.

(** * draw streams: what is recorded about a sample is the draw that produced the returned sample *)

(** the resampling loop of LM-MA-ES ([_solution_z]), the fixed OpenAI-ES ([noise]) and CMA-ES / sep-CMA-ES, for EVERY draw
    type, transform [f], bounds test [oob], stream and fuel: when ask returns, every row i < batch has a recorded draw d
    = stream[pos i] with returned solution f d, in bounds, consumed before the end, and no stream position serves two rows *)
Theorem C18_bookkeeping : forall (D Sol : Type) (f : D -> Sol) (oob : Sol -> bool) fuel batch (stream : list D) sols noise r c,
  ask_loop f oob fuel (seq 0 batch) stream (repeat None batch) (repeat None batch) 0 0 = Done sols noise r c ->
  length sols = batch /\ length noise = batch /\ (c <= length stream)%nat /\
  exists pos : nat -> nat,
    (forall i, (i < batch)%nat ->
       (pos i < c)%nat /\
       exists d, nth_error stream (pos i) = Some d /\ nth i noise None = Some d /\
                 nth i sols None = Some (f d) /\ oob (f d) = false) /\
    (forall i j, (i < batch)%nat -> (j < batch)%nat -> pos i = pos j -> i = j).
Proof. exact ask_loop_bookkeeping. Qed.

(** [ask] (the fuel the model supplies): only in-bounds rows, each the transform of exactly one draw *)
Theorem resample_all_in_bounds : forall (D Sol : Type) (f : D -> Sol) (oob : Sol -> bool) batch (stream : list D) sols noise r c,
  ask f oob batch stream = Done sols noise r c ->
  length sols = batch /\ length noise = batch /\ (c <= length stream)%nat /\
  exists pos : nat -> nat,
    (forall i, (i < batch)%nat ->
       (pos i < c)%nat /\
       exists d, nth_error stream (pos i) = Some d /\ nth i noise None = Some d /\
                 nth i sols None = Some (f d) /\ oob (f d) = false) /\
    (forall i j, (i < batch)%nat -> (j < batch)%nat -> pos i = pos j -> i = j).
Proof. exact ask_bookkeeping. Qed.

(** [ask] never runs out of the fuel it supplies: it returns rows or asks for more draws *)
Theorem C18_ask_fuel : forall (D Sol : Type) (f : D -> Sol) (oob : Sol -> bool) batch (stream : list D),
  ask f oob batch stream <> OutOfFuel D Sol.
Proof. exact ask_never_out_of_fuel. Qed.

(** OpenAI-ES with mirror sampling *)
Theorem C18_bookkeeping_mirror : forall (D Sol : Type) (f : D -> Sol) (neg : D -> D) batch (stream : list D) sols noise r c,
  ask_mirror f neg batch stream = Done sols noise r c ->
  let h := Nat.div batch 2 in
  r = 1%nat /\ c = h /\ length sols = (2 * h)%nat /\ length noise = (2 * h)%nat /\
  (forall i, (i < 2 * h)%nat -> exists d, nth i noise None = Some d /\ nth i sols None = Some (f d)) /\
  (forall i, (i < h)%nat -> exists d, nth_error stream i = Some d /\
                                 nth i noise None = Some d /\ nth (h + i) noise None = Some (neg d)).
Proof. exact ask_mirror_bookkeeping. Qed.

(** the unchanged OpenAI-ES without mirror sampling (every round REPLACES self.noise): refuted, finding F10 *)
Theorem C18_bookkeeping_openai_unpatched_refuted :
  exists (batch : nat) (stream : list nat) sols noise,
    ask_openai_unpatched (fun d : nat => d) (fun s => Nat.eqb s 0) (S (length stream)) (seq 0 batch) stream
                         (repeat None batch) [] = Some (sols, noise) /\
    length sols = batch /\ length noise <> batch /\
    nth 1 sols None = Some 5%nat /\ nth 1 noise 0%nat <> 5%nat.
Proof. exact openai_unpatched_refuted. Qed.

(** * gradient optimizers: the functions translated from the CURRENT source equal the published ascent rules *)
Theorem C18_adam_rule : forall (usqrt : R -> R) (upow : R -> R -> R) lr b1 b2 eps l2 theta m v t g,
  1 - upow b1 (t + 1) <> 0 ->
  usqrt (b2 * v + (1 - b2) * ((l2 * theta - g) * (l2 * theta - g))) + eps <> 0 ->
  adam_step usqrt upow b1 b2 eps l2 lr m t theta v g = adam_spec usqrt upow lr b1 b2 eps l2 theta m v t g.
Proof. exact adam_step_refines. Qed.

Theorem C18_gradient_ascent_rule : forall lr theta g, ga_step lr theta g = ga_spec lr theta g.
Proof. exact ga_step_refines. Qed.

(** * non-vacuity: concrete instances meeting the hypotheses *)
Example C18_ex_weights : nth 1 (weights 3) 0 < nth 0 (weights 3) 0 /\ 0 < nth 2 (weights 3) 0.
Proof.
  destruct (C18_weights 3 ltac:(lia)) as [_ [_ [_ [P [Dc _]]]]].
  split; [apply Dc; lia | apply P; lia].
Qed.

Definition ex_tell (mu : nat) : tell_in :=
  {| t_sols := fun i k => INR i + INR k; t_zs := fun i k => INR i; t_isq := identity;
     t_ranking := [2; 0; 1; 3]%nat; t_values := [4; 3; 2; 1]; t_mu := mu |}.

Example C18_ex_hull : forall s, 0 <= c_mean (cma_tell 2 4 s (ex_tell 2)) 0%nat <= 2.
Proof.
  intros s. destruct (C18_mean_in_hull 2 4 (ex_tell 2) 0%nat ltac:(simpl; lia)) as [H _].
  specialize (H s). simpl in H. simpl. unfold Rmin, Rmax in H.
  repeat match type of H with context [Rle_dec ?a ?b] => destruct (Rle_dec a b) end; lra.
Qed.

Example C18_ex_zero_parents : forall s, c_cov (cma_tell 2 4 s (ex_tell 0)) = c_cov s
                                     /\ c_evals (cma_tell 2 4 s (ex_tell 0)) = (c_evals s + 4)%nat.
Proof. intros s. destruct (C18_zero_parents 2 4 (ex_tell 0) eq_refl) as [H _]. split; apply (H s). Qed.

Example C18_ex_history :
  let h := [CTell (ex_tell 2); CAsk true; CTell (ex_tell 0); CReset (fun _ => 1); CTell (ex_tell 3)] in
  0 < c_sigma (cma_run 2 4 (1 / 2) (fun _ => 0) h) /\
  symmetric (c_cov (cma_run 2 4 (1 / 2) (fun _ => 0) h)) /\
  0 <= quad 2 (c_cov (cma_run 2 4 (1 / 2) (fun _ => 0) h)) (fun k => INR k - 1).
Proof.
  intros h.
  destruct (C18_sigma_pos 2 4 (1 / 2) (fun _ => 0) ltac:(lia) ltac:(lra)) as [S _].
  destruct (C18_cov_psd_sym 2 4 (1 / 2) (fun _ => 0) ltac:(lia) ltac:(lra)) as [P _].
  split; [apply S | split; [apply (P h) | apply (P h)]].
Qed.

Example C18_ex_shape : exists alpha, 0 <= alpha /\
  exists beta gamma pc ys, forall i j,
    c_cov (cma_tell 2 4 (cma_init 1 (fun _ => 0)) (ex_tell 2)) i j =
      alpha * identity i j + beta * (pc i * pc j) + gamma * rank_mu (weights 2) ys i j.
Proof.
  destruct (C18_cov_update_shape 2 4 (cma_init 1 (fun _ => 0)) (ex_tell 2) eq_refl)
    as [alpha [beta [gamma [pc [ys [E [_ [_ N]]]]]]]].
  exists alpha. split; [apply N; [lia | simpl; lra]|]. exists beta, gamma, pc, ys. exact E.
Qed.

(** a stream on which the second row is rejected twice: three resampling rounds, rows keep their own draws *)
Example C18_ex_bookkeeping :
  ask (fun d : nat => d) (fun s => Nat.ltb 9 s) 3 [1; 20; 3; 30; 4]%nat
  = Done [Some 1; Some 4; Some 3]%nat [Some 1; Some 4; Some 3]%nat 3 5.
Proof. vm_compute. reflexivity. Qed.

Example C18_ex_mirror :
  ask_mirror (fun d : Z => (10 + d)%Z) Z.opp 4 [1; 2; 3]%Z
  = Done [Some 11; Some 12; Some 9; Some 8]%Z [Some 1; Some 2; Some (-1); Some (-2)]%Z 1 2.
Proof. vm_compute. reflexivity. Qed.

(** Adam's side conditions hold for the real sqrt / power at step t = 0 with beta1 = 1/2, epsilon = 1 *)
Example C18_ex_adam : forall lr b2 l2 theta m v g,
  adam_step sqrt Rpower (1 / 2) b2 1 l2 lr m 0 theta v g = adam_spec sqrt Rpower lr (1 / 2) b2 1 l2 theta m v 0 g.
Proof.
  intros. apply C18_adam_rule.
  - rewrite Rplus_0_l, Rpower_1 by lra. lra.
  - pose proof (sqrt_pos (b2 * v + (1 - b2) * ((l2 * theta - g) * (l2 * theta - g)))). lra.
Qed.

Print Assumptions C18_weights.
Print Assumptions C18_mean_in_hull.
Print Assumptions C18_mean_formula.
Print Assumptions C18_zero_parents.
Print Assumptions C18_zero_parents_rational.
Print Assumptions C18_sigma_pos.
Print Assumptions C18_sigma_update_shape.
Print Assumptions C18_cov_psd_sym.
Print Assumptions C18_cov_coefficients_cma.
Print Assumptions C18_cov_coefficients_sep.
Print Assumptions C18_cov_update_shape.
Print Assumptions C18_sep_diag_pos_partial.
Print Assumptions C18_order_only.
Print Assumptions C18_order_only_histories.
Print Assumptions C18_order_only_rational.
Print Assumptions C18_reset.
Print Assumptions C18_reset_then_like_fresh.
Print Assumptions C18_initial_distribution.
Print Assumptions C18_bookkeeping.
Print Assumptions resample_all_in_bounds.
Print Assumptions C18_ask_fuel.
Print Assumptions C18_bookkeeping_mirror.
Print Assumptions C18_bookkeeping_openai_unpatched_refuted.
Print Assumptions C18_adam_rule.
Print Assumptions C18_gradient_ascent_rule.
