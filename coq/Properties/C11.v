(** C11 — Rejected calls leave archives untouched (failure atomicity).
    Models: Model/Validate.v (ArchiveBase entry points with a rejected call described by where the code rejects
    it: before the store is touched, or inside ArrayStore.add after the update counter was incremented and --
    since fix F2 -- before the first write), Model/Store.v, Model/Scheduler.v.
    Proofs: Proofs/C11Proofs.v, Proofs/StoreProofs.v, Proofs/C11SchedProofs.v.
    [obs] = everything a user can observe: occupancy, occupied list, every stored row (solution, objective,
    measures, threshold, extra fields), objective sum, statistics, best elite -- all but the store's update
    counters (which only invalidate iterators). *)
From Coq Require Import List Arith Bool ZArith QArith.
From PV Require Import Base.ListUtil Base.QUtil Base.FirstArgmax Model.Store Proofs.StoreProofs Model.Archive
     Proofs.ArchiveProofs Model.Validate Proofs.C11Proofs Model.Scheduler Proofs.C11SchedProofs.
Import ListNotations.
Local Open Scope nat_scope.

Section C11.
Variable P : Type.

(** every rejected add / add_single / retrieve / index_of, in every archive state, for every configuration
    (default and CMA-MAE), whatever the malformation and wherever in the batch it sits *)
Theorem C11_atomic : forall (c : cfg) (a : archive P) (o : vop P) a' e,
  vstep c a o = (a', OErr e) -> obs a' = obs a.
Proof. exact (@rejected_unchanged P). Qed.

(** for EVERY continuation: the final observables and the outputs (feedback, retrieved rows, errors) of every
    later call are those of the history in which the rejected call never happened *)
Theorem C11_as_if_never : forall (c : cfg) (a : archive P) (bad : vop P) (h' : list (vop P)) a' e,
  vstep c a bad = (a', OErr e) ->
  obs (fst (vrun c a' h')) = obs (fst (vrun c a h')) /\ snd (vrun c a' h') = snd (vrun c a h').
Proof. exact (@as_if_never P). Qed.

(** "rejected" is exactly "malformed": a well-formed call never reports an error *)
Theorem C11_valid_never_rejected : forall (c : cfg) (a : archive P) (o : vop P),
  match o with VAdd None _ | VAddSingle None _ | VRetrieve false _ | VClear => True | _ => False end ->
  is_err (snd (vstep c a o)) = false.
Proof. exact (@valid_never_rejected P). Qed.

(** ArrayStore.add: whichever check fails (transform reads an out-of-range index, field lengths, field names),
    the store is unchanged except for its update counter, for every transform chain *)
Theorem C11_store_atomic : forall (R : Type) (s : store R) idxs xs ts k e,
  snd (Store.add s idxs xs ts k) = Err e -> fst (Store.add s idxs xs ts k) = bump_add s.
Proof. exact add_err_unchanged. Qed.
End C11.

(** Scheduler.tell / tell_dqd in batch mode that ends in an error (wrong lengths, or the archive's validation
    rejects the batch): neither archive received an insertion and no emitter was told *)
Theorem C11_scheduler_batch : forall (V F : Type) dqd (s : sched V F) (a : tell_args V F) s' e,
  mode s = Batch -> tell_gen dqd s a = (s', Err e) ->
  arch s' = arch s /\ rarch s' = rarch s /\ elog s' = elog s /\ cur s' = cur s /\ num_emitted s' = num_emitted s.
Proof. exact tell_err_batch. Qed.

(** non-vacuity: a CMA-MAE archive with contents; a batch rejected inside the store; a continuation *)
Definition ex_cfg : cfg := mkCfg 4 (Some (-1)%Q) (1#2) 0.
Definition ex_a : archive Z := fst (add ex_cfg (arch_init Z ex_cfg) [mkCand 1 3 1%Z; mkCand 2 1 2%Z]).
Definition ex_bad : vop Z := VAdd (Some DStore) [mkCand 1 9 7%Z; mkCand 3 9 8%Z].
Definition ex_cont : list (vop Z) := [VAddSingle None (mkCand 1 (5#2) 3%Z); VRetrieve false [1; 3]; VAdd (Some DPre) []; VClear].
Example C11_nonvacuous :
  exists a' e, vstep ex_cfg ex_a ex_bad = (a', OErr e) /\ a' <> ex_a /\ obs a' = obs ex_a /\
  len (a_store ex_a) = 2 /\ snd (vrun ex_cfg a' ex_cont) = snd (vrun ex_cfg ex_a ex_cont) /\
  length (snd (vrun ex_cfg ex_a ex_cont)) = 4.
Proof.
  eexists. eexists. split; [reflexivity|]. split; [|vm_compute; auto].
  intros H. apply (f_equal (fun a => nadd (a_store a))) in H. vm_compute in H. discriminate.
Qed.

Print Assumptions C11_atomic.
Print Assumptions C11_as_if_never.
Print Assumptions C11_valid_never_rejected.
Print Assumptions C11_store_atomic.
Print Assumptions C11_scheduler_batch.
