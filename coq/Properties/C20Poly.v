(** C20 (2-D CVT heat map): "every drawn cell ... encodes the objective of the elite stored in exactly that cell, empty cells stay
    blank" for the POLYGONS of the Voronoi picture: whatever the diagram, whichever regions are skipped, however the clip polygon
    splits regions into several pieces, PolyCollection receives exactly one colour per polygon, the colour of the region the polygon
    is a piece of (blank for a region without elite), and every drawn region contributes exactly its pieces.  The geometry of the
    pieces (scipy / Qhull / shapely) is outside the model; see Model/VizPoly.v.  Statements only; proofs in Proofs/VizPolyProofs.v. *)
From Coq Require Import List Arith QArith.
From PV Require Import Model.VizPoly Proofs.VizPolyProofs.
Import ListNotations.
Local Open Scope nat_scope.

Theorem C20_cvt2d_polygons_coloured : forall clip (regions : list region),
  exists vs fs, picture clip model_body regions = Some (vs, fs) /\ length fs = length vs /\
    forall j rid, nth_error vs j = Some rid ->
      exists r, nth_error regions rid = Some r /\ r_skip r = false /\ nth_error fs j = Some (colour_of (r_obj r)).
Proof. exact picture_colours. Qed.

Theorem C20_cvt2d_piece_count : forall clip (regions : list region),
  exists vs fs, picture clip model_body regions = Some (vs, fs) /\
    forall rid r, nth_error regions rid = Some r ->
      count_occ Nat.eq_dec vs rid = if r_skip r then 0 else pieces clip r.
Proof. exact picture_piece_count. Qed.

(** non-vacuity: a diagram with a skipped region, a region split in three, an empty cell and a plain one *)
Example C20_cvt2d_nonvacuous :
  picture true model_body [mkRegion true false 0 None; mkRegion false true 3 (Some (5#2)); mkRegion false false 0 None; mkRegion false false 0 (Some (7#1))]
  = Some ([1; 1; 1; 2; 3], [FMap (Some (5#2)); FMap (Some (5#2)); FMap (Some (5#2)); FBlank; FMap (Some (7#1))]).
Proof. reflexivity. Qed.

(** the statement is not true of every plausible loop body: one colour per REGION (instead of one per piece) leaves the later
    polygons with the wrong colour -- matplotlib cycles through the shorter list without complaint *)
Theorem C20_cvt2d_refuted_when_colour_not_repeated :
  exists regions vs fs, picture true once_body regions = Some (vs, fs) /\ length fs <> length vs.
Proof.
  exists [mkRegion false true 2 (Some (1#1)); mkRegion false false 0 None], [0; 0; 1], [FMap (Some (1#1)); FBlank].
  split; [reflexivity|discriminate].
Qed.

Print Assumptions C20_cvt2d_polygons_coloured.
Print Assumptions C20_cvt2d_piece_count.
Print Assumptions C20_cvt2d_refuted_when_colour_not_repeated.
