(** C05, floating point -- the add_single threshold update  t * (1 - a) + f * a  as the code computes it, in ROUNDED arithmetic
    (Model/ThrRound.v), for every floating-point format and rounding direction (Flocq's generic [round]):
    which of the property's "hence" clauses survive rounding, and one that does not.
    Only statements closed by [exact], the witness Example, Print Assumptions.  Proofs: Proofs/ThrRoundProofs.v. *)
From Coq Require Import Reals ZArith PrimFloat.
From Flocq Require Import Core.
From PV Require Import Model.ThrRound Proofs.GridRoundProofs Proofs.ThrRoundProofs Model.GridFloat Model.ThrFloat.
Open Scope R_scope.

Section AnyFormat.
Variable beta : radix.
Variable fexp : Z -> Z.
Context {ve : Valid_exp fexp}.
Variable rnd : R -> Z.
Context {vr : Valid_rnd rnd}.
Notation thrF := (single_r (round beta fexp rnd) (round beta fexp rnd) (round beta fexp rnd)).

(** with a = 0 thresholds never move -- exactly, in every format *)
Theorem C05_float_a0_frozen : forall t f, generic_format beta fexp 1 -> generic_format beta fexp t -> thrF t 0 f = t.
Proof. exact (float_single_a0 beta fexp rnd). Qed.

(** with a = 1 the new threshold is exactly the accepted objective *)
Theorem C05_float_a1_objective : forall t f, generic_format beta fexp f -> thrF t 1 f = f.
Proof. exact (float_single_a1 beta fexp rnd). Qed.

(** monotone: a higher previous threshold or a higher accepted objective never gives a lower new threshold *)
Theorem C05_float_monotone : forall t1 t2 a f1 f2, 0 <= a <= 1 -> t1 <= t2 -> f1 <= f2 -> thrF t1 a f1 <= thrF t2 a f2.
Proof. exact (float_single_mono beta fexp rnd). Qed.
End AnyFormat.

(** "thresholds never decrease" does NOT survive rounding: binary32, a = float32(1/3), f one unit in the last place above t --
    the computed new threshold is below t (by two units).  Evaluated with the bit-exact model (Model/ThrFloat.v, SpecFloat
    operations with prec 24 / emax 128); the harness replays the same numbers on the real GridArchive on every run and finds the
    same bits.  This is why the correspondence and the oracle of C05 compare thresholds up to a few units in the last place
    where the property's text has an exact inequality. *)
Example C05_float_never_decrease_refuted :
  let t := mkf 14286183 (-24) in let f := mkf 14286184 (-24) in let a := mkf 11184811 (-25) in
  PrimFloat.ltb t f = true /\ PrimFloat.ltb (single_thr true t a f) t = true /\
  fbits (single_thr true t a f) = (7669835559337984, -53)%Z /\ fbits t = (7669836096208896, -53)%Z.
Proof. vm_compute. repeat split. Qed.

Print Assumptions C05_float_a0_frozen.
Print Assumptions C05_float_a1_objective.
Print Assumptions C05_float_monotone.
