(** C19 — DQD emitters branch along the supplied gradients and step toward better branches.
    Model: Model/DQD.v (GradientArborescenceEmitter, GradientOperatorEmitter, GradientAscentOpt) over
    exact rationals; proofs: Proofs/DQDProofs.v, Base/QVec.v.  Coefficient rows, rankings, stop signals,
    norms, recombination weights and sampled elites are arbitrary inputs of the model, so every theorem
    holds for every coefficient distribution, ranker, Jacobian (zero / rank-deficient included: no
    hypothesis on J beyond its shape), dimension, selection and restart rule and feedback sequence.

    Vocabulary (Proofs/DQDProofs.v):
      eff_coeffs norm eps norms cs = cs, or cs[j] / (norms[j] + eps) when normalising
      g_parents c i  = configured number of parents for this feedback (C10: inserted count or batch/2)
      g_selected c i = the first g_parents rows of the ranking
      g_mean c i     = sum_j weights[j] * selected[j]
      g_fires c i s  = stop signal \/ configured restart rule fires at this tell                      *)
From Coq Require Import List ZArith QArith Qabs Qminmax Bool Arith Lia Lqa.
From PV Require Import Base.ListUtil Base.QVec Model.Store Model.ESControl Spec.ESControlSpec
                       Proofs.ESControlProofs Model.DQD Proofs.DQDProofs.
Import ListNotations.

(** ** span: GradientArborescenceEmitter
    After tell_dqd(J) every solution of ask() is the solution point plus a linear combination of the
    supplied gradients J: with the ES coefficients themselves, or (normalize_grad) each divided by
    (||J_j|| + epsilon).  One solution per coefficient row. *)
Theorem C19_span_gae : forall c s J norms coeffs,
  length norms = length J -> length (theta s) = g_n c -> Forall (fun v => length v = g_n c) J ->
  exists out, gae_ask c (gae_tell_dqd c s J norms) coeffs = Ok out /\ length out = length coeffs /\
    forall i cs, nth_error coeffs i = Some cs ->
      exists x, nth_error out i = Some x /\
        veq (vsub x (theta s)) (lincomb (g_n c) (eff_coeffs (g_norm c) (g_eps c) norms cs) J).
Proof. exact gae_span_supplied. Qed.

(** normalisation keeps the direction of every term: the factor is positive *)
Theorem C19_normalised_coefficient_sign : forall (c m eps : Q),
  0 <= m -> 0 < eps -> (0 <= c <-> 0 <= c / (m + eps)) /\ (c == 0 <-> c / (m + eps) == 0).
Proof. exact normalised_coeff_sign. Qed.

(** ** span: GradientOperatorEmitter (measure_gradients): parent_i + sum_j c'_ij g_ij where c' is the
    sampled row with a non-negative objective coefficient and unchanged measure coefficients *)
Theorem C19_span_goe : forall c s e J coeffs,
  goe_blocked c e = false -> o_mg c = true -> o_jac s = Some J ->
  Forall (fun p => length p = o_n c) (o_parents s) ->
  Forall (fun g => Forall (fun v => length v = o_n c) g) J ->
  exists out, goe_ask c s e coeffs = Ok out /\
    forall i p cs g, nth_error (o_parents s) i = Some p -> nth_error coeffs i = Some cs ->
                     nth_error J i = Some g ->
      exists x, nth_error out i = Some x /\
        veq (vsub x p) (lincomb (o_n c) (abs_head cs) g) /\
        0 <= hd 0 (abs_head cs) /\ tl (abs_head cs) = tl cs.
Proof. exact goe_ask_span_mg. Qed.

(** ... and without measure gradients: parent_i + sigma_g * (objective gradient of parent i) *)
Theorem C19_span_goe_objective_only : forall c s e J coeffs,
  goe_blocked c e = false -> o_mg c = false -> o_jac s = Some J ->
  Forall (fun p => length p = o_n c) (o_parents s) ->
  Forall (fun g => Forall (fun v => length v = o_n c) g) J ->
  exists out, goe_ask c s e coeffs = Ok out /\
    forall i p g0 gs, nth_error (o_parents s) i = Some p -> nth_error J i = Some (g0 :: gs) ->
      exists x, nth_error out i = Some x /\ veq (vsub x p) (vscale (o_sigma_g c) g0).
Proof. exact goe_ask_span_obj. Qed.

(** the stored gradients of GradientOperatorEmitter are the supplied ones, normalised when requested *)
Theorem C19_goe_stored_gradients : forall c s J norms,
  o_jac (goe_tell_dqd c s J norms) =
    Some (if o_norm c then map2 (fun Ji ni => map2 vdiv Ji (map (fun m => m + o_eps c) ni)) J norms else J).
Proof. reflexivity. Qed.

(** ** refusal until gradients were supplied *)
Theorem C19_refuse : forall c x0 ops coeffs i,
  forallb (fun o => negb (is_tell_dqd o)) ops = true ->
  gae_ask c (grun c x0 ops) coeffs = Err RuntimeError /\ gae_tell c i (grun c x0 ops) = Err RuntimeError.
Proof. exact grun_refuses. Qed.

Theorem C19_accept_after_tell_dqd : forall c x0 ops coeffs,
  existsb is_tell_dqd ops = true -> exists out, gae_ask c (grun c x0 ops) coeffs = Ok out.
Proof. exact grun_accepts. Qed.

Theorem C19_refuse_goe : forall c s e coeffs,
  goe_blocked c e = false -> o_jac s = None -> goe_ask c s e coeffs = Err RuntimeError.
Proof. exact goe_refuses. Qed.

(** ** the step: gradient ascent moves theta to theta + lr (mean - theta), i.e. for 0 < lr <= 1 onto the
    segment between theta and the rank-weighted mean of the selected solutions, in every coordinate *)
Theorem C19_step : forall c i s g lr,
  jac s = Some g -> g_opt c = GradAscent lr -> ~ g_fires c i s -> g_parents c i <> 0%nat ->
  length (theta s) = g_n c -> Forall (fun v => length v = g_n c) (t_sols i) ->
  exists log s', gae_tell c i s = Ok (log, s') /\
    In (GStep (vsub (g_mean c i) (theta s))) log /\
    forall k, coord (theta s') k == coord (theta s) k + lr * (coord (g_mean c i) k - coord (theta s) k) /\
              (0 < lr <= 1 -> Qmin (coord (theta s) k) (coord (g_mean c i) k) <= coord (theta s') k
                                <= Qmax (coord (theta s) k) (coord (g_mean c i) k)).
Proof. exact gae_tell_step. Qed.

(** the mean is a convex combination of the selected solutions (weights >= 0, sum 1: the only facts
    about ln(mu + 1/2) - ln i that are used): it stays inside their coordinate-wise bounds *)
Theorem C19_mean_in_hull : forall c i k lo hi,
  Forall (fun v => length v = g_n c) (t_sols i) ->
  length (t_weights i (g_parents c i)) = length (g_selected c i) ->
  Forall (fun w => 0 <= w) (t_weights i (g_parents c i)) ->
  qsum (t_weights i (g_parents c i)) == 1 ->
  Forall (fun p => lo <= coord p k <= hi) (g_selected c i) ->
  (k < g_n c)%nat ->
  lo <= coord (g_mean c i) k <= hi.
Proof. exact g_mean_in_hull. Qed.

(** ** nothing selected: the solution point stays where it is and the gradient optimiser is not stepped
    (whatever the optimiser) *)
Theorem C19_zero_parents : forall c i s g,
  jac s = Some g -> ~ g_fires c i s -> g_parents c i = 0%nat ->
  gae_tell c i s = Ok ([GOptTell (t_idx i) 0], mkGae (theta s) (jac s) (S (g_itrs s)) (g_restarts s)).
Proof. exact gae_tell_zero_parents. Qed.

(** The unchanged code (gae_tell_unpatched follows it line by line) violates the previous clause — the
    weighted mean of no parents is the zero vector, theta = [3;4] moves to [3/2;2] — and differs from
    the stated behaviour in no other case.  This is finding F11. *)
Definition f11_cfg := mkGaeCfg (mkCfg GAE Filter Basic 2) 2 false 0 (GradAscent (1 # 2)).
Definition f11_in := mkTellIn [[1; 1]; [2; 2]] [0; 0]%Z [0; 1]%nat false (fun _ => []) [[9; 9]] 0 [].
Definition f11_state := mkGae [3; 4] (Some [[1; 0]; [0; 1]; [0; 0]]) 0 0.

Theorem C19_zero_parents_refuted_for_unchanged_code :
  exists log s', gae_tell_unpatched f11_cfg f11_in f11_state = Ok (log, s') /\
                 veq (theta s') [3 # 2; 2] /\ ~ veq (theta s') (theta f11_state).
Proof.
  eexists. eexists. split; [vm_compute; reflexivity|]. split.
  - repeat constructor.
  - intros H. inversion H as [|? ? ? ? Hq _]. vm_compute in Hq. discriminate.
Qed.

Theorem C19_unchanged_code_differs_only_there : forall c i s,
  g_parents c i <> 0%nat -> gae_tell_unpatched c i s = gae_tell c i s.
Proof. exact unpatched_agrees. Qed.

(** ** restart: as C10, re-centring the solution point on an elite currently in the archive *)
Theorem C19_restart : forall c i s g x,
  jac s = Some g -> g_fires c i s -> pick_elite i = Some x ->
  In x (t_elites i) /\
  exists log0, gae_tell c i s =
    Ok (log0 ++ [GSample 1; GGradReset x; GOptReset0; GRankerReset],
        mkGae x (jac s) (S (g_itrs s)) (S (g_restarts s)))
    /\ (forall a, In a log0 -> match a with GOptTell _ _ | GStep _ => True | _ => False end).
Proof.
  intros c i s g x Hj Hf Hx. split; [exact (pick_elite_In i x Hx) | exact (gae_tell_restart true c i s g x Hj Hf Hx)].
Qed.

Theorem C19_no_restart : forall c i s g log s',
  jac s = Some g -> ~ g_fires c i s -> gae_tell c i s = Ok (log, s') ->
  g_restarts s' = g_restarts s /\ g_itrs s' = S (g_itrs s) /\
  forall a, In a log -> match a with GOptTell _ _ | GStep _ => True | _ => False end.
Proof.
  intros c i s g log s' Hj Hf H. unfold gae_tell in H.
  rewrite (gae_tell_no_restart true c i s g Hj Hf) in H.
  destruct (true && (g_parents c i =? 0)%nat); inversion H; subst; simpl; repeat split; auto;
    intros a Ha; simpl in Ha; repeat (destruct Ha as [<-|Ha]; [exact I|]); contradiction.
Qed.

(** ** non-vacuity *)
Definition ex_cfg (norm : bool) := mkGaeCfg (mkCfg GAE Filter (EveryN 2) 3) 2 norm 3 (GradAscent (1 # 2)).
Definition ex_state := gae_tell_dqd (ex_cfg true) (gae_init [1; 2]) [[3; 4]; [0; 0]; [5; 12]] [5; 0; 13].
Definition ex_in (stop : bool) :=
  mkTellIn [[4; 0]; [0; 8]; [2; 2]] [1; 0; 2]%Z [2; 0; 1]%nat stop (fun _ => [3 # 4; 1 # 4]) [[7; 7]; [9; 9]] 1 [].

Example C19_nonvacuous_span :
  (* normalised, zero gradient included: (3,4)/8, (0,0)/3, (5,12)/16 *)
  jac ex_state = Some [[3 / 8; 4 / 8]; [0 / 3; 0 / 3]; [5 / 16; 12 / 16]] /\
  exists out, gae_ask (ex_cfg true) ex_state [[8; 1; 16]; [0; 5; 0]] = Ok out /\
              veq (nth 0 out []) [9; 18] /\ veq (nth 1 out []) [1; 2].
Proof.
  split; [reflexivity|]. eexists. split; [reflexivity|]. split; vm_compute; repeat constructor.
Qed.

Example C19_nonvacuous_step_and_restart :
  (* 2 parents selected: rows 2 and 0 of the batch; mean = 3/4 (2,2) + 1/4 (4,0) = (5/2, 3/2);
     theta (1,2) -> (7/4, 7/4); second tell restarts (every 2nd) onto elite (9,9) *)
  ~ g_fires (ex_cfg true) (ex_in false) ex_state /\ g_parents (ex_cfg true) (ex_in false) = 2%nat /\
  exists log s1, gae_tell (ex_cfg true) (ex_in false) ex_state = Ok (log, s1) /\ veq (theta s1) [7 # 4; 7 # 4] /\
    g_fires (ex_cfg true) (ex_in false) s1 /\ pick_elite (ex_in false) = Some [9; 9] /\
    exists log2 s2, gae_tell (ex_cfg true) (ex_in false) s1 = Ok (log2, s2) /\ theta s2 = [9; 9] /\ g_restarts s2 = 1%nat.
Proof.
  split; [intros [H|H]; vm_compute in H; discriminate|]. split; [reflexivity|].
  eexists. eexists. split; [vm_compute; reflexivity|]. split; [repeat constructor|].
  split; [right; vm_compute; reflexivity|]. split; [reflexivity|].
  eexists. eexists. split; [vm_compute; reflexivity|]. split; reflexivity.
Qed.

Example C19_nonvacuous_goe :
  let c := mkGoeCfg 2 true (1 # 2) false 0 None in
  let s := goe_tell_dqd c (fst (goe_ask_dqd c goe_init false [[1; 1]; [2; 2]])) [[[1; 0]; [0; 1]]; [[1; 1]; [1; 1]]] [] in
  goe_blocked c false = false /\ goe_ask c goe_init false [] = Err RuntimeError /\
  exists out, goe_ask c s false [[-2; 3]; [1; -1]] = Ok out /\ veq (nth 0 out []) [3; 4] /\ veq (nth 1 out []) [2; 2].
Proof.
  split; [reflexivity|]. split; [reflexivity|]. eexists. split; [reflexivity|]. split; vm_compute; repeat constructor.
Qed.

Print Assumptions C19_span_gae.
Print Assumptions C19_normalised_coefficient_sign.
Print Assumptions C19_span_goe.
Print Assumptions C19_span_goe_objective_only.
Print Assumptions C19_goe_stored_gradients.
Print Assumptions C19_refuse.
Print Assumptions C19_accept_after_tell_dqd.
Print Assumptions C19_refuse_goe.
Print Assumptions C19_step.
Print Assumptions C19_mean_in_hull.
Print Assumptions C19_zero_parents.
Print Assumptions C19_zero_parents_refuted_for_unchanged_code.
Print Assumptions C19_unchanged_code_differs_only_there.
Print Assumptions C19_restart.
Print Assumptions C19_no_restart.
