(** C06 for ProximityArchive -- the statistics agree with the stored entries in every reachable state of Model/Proximity.v
    (any history of add / add_single / clear / bounds reads, any k, threshold, initial capacity >= 1, with and without local
    competition, any growth of the store).  Only statements closed by [exact], a non-vacuity Example, Print Assumptions.
    Proofs: Proofs/ProximityStats.v (on top of Proofs/C06Proofs.v and Proofs/ProximityProofs.v). *)
From Coq Require Import List Arith Bool ZArith QArith Qreduction Lia.
From PV Require Import Base.ListUtil Base.QUtil Model.Store Model.Archive Proofs.ArchiveProofs Proofs.C06Proofs Model.Proximity
     Proofs.ProximityProofs Proofs.ProximityStats.
Import ListNotations.

(** the invariant: running sum = recomputed sum over the cells, num_elites = len, qd_score and obj_mean derived from them *)
Theorem C06_proximity_stats_invariant : forall (P : Type) (meas : P -> list Q) (c : pcfg) (h : list (pop P)),
  (1 <= pcap0 c)%nat -> PStats (prun meas c h).
Proof. exact prun_stats. Qed.

(** spelled out over the entries 0 .. size-1 (qd_score_offset is 0 in the model of ProximityArchive's defaults) *)
Theorem C06_proximity_stats_are_entries : forall (P : Type) (meas : P -> list Q) (c : pcfg) (h : list (pop P)),
  (1 <= pcap0 c)%nat ->
  let st := prun meas c h in
  (a_sum (ps_arch st) == Qsum (map (cobj (ps_arch st)) (seq 0 (psize st))))%Q /\
  st_num (a_stats (ps_arch st)) = psize st /\
  (st_qd (a_stats (ps_arch st)) == a_sum (ps_arch st))%Q /\
  match st_mean (a_stats (ps_arch st)) with
  | None => psize st = 0%nat
  | Some m => psize st <> 0%nat /\ (m == a_sum (ps_arch st) / qnat (psize st))%Q
  end.
Proof. exact prun_sum_is_entries. Qed.

(** one step: a call that replaces entries under local competition keeps the invariant (the case a stale-statistics
    implementation gets wrong) *)
Theorem C06_proximity_step : forall (P : Type) (meas : P -> list Q) (c : pcfg) (st : pstate P) (o : pop P),
  PInv meas st -> PStats st -> PStats (pstep meas c st o).
Proof. exact pstep_stats. Qed.

(** non-vacuity: capacity 1 -> 4 -> 8, a batch with two replacements under local competition, one rejection and two
    admissions; the statistics are those of the five entries (objectives 4, 2, 0, 3, 7) *)
Definition mz0 (p : Z) : list Q := [inject_Z p].
Definition pc0 (o : Q) (p : Z) (d : list Q) (nr : nat) : pcand Z := mkPc o p d nr.
Example C06_proximity_nonvacuous :
  let c := mkPcfg 1 1%Q true 1 in
  let h := [PAdd false [pc0 1 0 []%Q 0; pc0 2 5 []%Q 0; pc0 0 9 []%Q 0];
            PAdd false [pc0 3 0 [0; 5; 9]%Q 0; pc0 3 1 [1; 4; 8]%Q 0; pc0 4 0 [0; 5; 9]%Q 0; pc0 1 5 [5; 0; 4]%Q 1;
                        pc0 7 20 [20; 15; 11]%Q 2]] in
  let st := prun mz0 c h in
  (psize st = 5%nat) /\ (pcap st = 8%nat) /\ (Qred (a_sum (ps_arch st)) = 16%Q) /\ (st_num (a_stats (ps_arch st)) = 5%nat) /\
  (Qred (st_qd (a_stats (ps_arch st))) = 16%Q) /\ (option_map Qred (st_mean (a_stats (ps_arch st))) = Some (16 # 5)%Q) /\
  (map (fun i => Qred (cobj (ps_arch st) i)) (seq 0 5) = [4; 2; 0; 3; 7]%Q).
Proof. vm_compute. repeat split; reflexivity. Qed.

Print Assumptions C06_proximity_stats_invariant.
Print Assumptions C06_proximity_stats_are_entries.
Print Assumptions C06_proximity_step.
