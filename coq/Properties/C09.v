(** C09 — seeded runs are reproducible and independent of global random state.
    Only statements closed by [exact]; model in Model/Rng.v + Model/RngSite.v, proofs in
    Proofs/RngProofs.v.  Level: PARTIAL.  The theorems are about stream ownership in the model, for
    every bit generator [bits], every configuration, every history.  That the real code performs no
    draw outside the sites the model knows is established by the inventory scan
    (Generated/RngInventory.v, checked in Checked/RngRefine.v) whose soundness is trusted, and by
    the differential run.  "Different seeds give different numbers" is an observation about PCG64;
    what is proved is that different seeds / spawned children have different stream identities. *)
From Coq Require Import List ZArith Bool String.
From PV Require Import Base.ListUtil Model.Rng Model.RngSite Proofs.RngProofs.
Import ListNotations.
Open Scope Z_scope.

Section C09.
Variable bits : seedid -> Z -> Z.

(** ** Generic layer: any history whose pyribs calls draw from owned generators only *)

(** results neither depend on ... : two worlds that agree on the owned generators (and differ
    arbitrarily in NumPy's global RandomState, Python's random module, the OS entropy pool) give
    the same pyribs outputs and the same owned final states, foreign draws and reseeds included *)
Theorem C09_frame : forall (h : list op) (w1 w2 : world),
  py_ok h = true -> own w1 = own w2 ->
  py_outs (fst (run bits h w1)) = py_outs (fst (run bits h w2)) /\
  own (snd (run bits h w1)) = own (snd (run bits h w2)).
Proof. exact (run_frame bits). Qed.

(** ... nor disturb the global state: after any history the three process-wide sources are exactly
    where the user's own actions (the non-pyribs part of the history) left them *)
Theorem C09_globals_undisturbed : forall (h : list op) (w : world),
  py_ok h = true ->
  glob (snd (run bits h w)) = glob (snd (run bits (only_foreign h) w)).
Proof. intros h w H. exact (run_globals bits h w w H eq_refl). Qed.

Theorem C09_globals_untouched : forall (h : list op) (w : world),
  py_ok h = true -> forallb is_py h = true -> glob (snd (run bits h w)) = glob w.
Proof. exact (run_globals_untouched bits). Qed.

(** any interleaving of foreign draws / reseeds / pickle round trips can be erased *)
Theorem C09_interleaving : forall (h : list op) (w w' : world),
  py_ok h = true -> own w = own w' ->
  py_outs (fst (run bits h w)) = py_outs (fst (run bits (drop_foreign h) w')) /\
  own (snd (run bits h w)) = own (snd (run bits (drop_foreign h) w')).
Proof. exact (run_interleave bits). Qed.

(** run (h1 ++ h2) w  =  run h2 (restore (save (run h1 w))), in whatever process it is restored *)
Theorem C09_checkpoint : forall (h1 h2 : list op) (w : world) (gl : globals),
  py_ok (h1 ++ h2) = true ->
  let w1 := snd (run bits h1 w) in
  let r := run bits h2 (restore (save w1) gl) in
  py_outs (fst (run bits (h1 ++ h2) w)) = py_outs (fst (run bits h1 w)) ++ py_outs (fst r) /\
  own (snd (run bits (h1 ++ h2) w)) = own (snd r).
Proof. exact (run_checkpoint bits). Qed.

(** ** pyribs layer: every archive kind and centroid method, every emitter / ES / ranker
    combination, both schedulers (the [active] mask), int and SeedSequence seeds, any history *)

(** no public operation of any configuration reads anything but generators owned by the pipeline *)
Theorem C09_pyribs_owned : forall (cfg : config) (h : list pop), py_ok (compile_all cfg h) = true.
Proof. exact compile_all_py_ok. Qed.

(** same seeds + same evaluations => identical outputs and states; the global generators' contents
    (gl, gl') and the user's foreign draws / reseeds / checkpoints (dropped by the filter) are irrelevant *)
Theorem C09_replay : forall (cfg : config) (h h' : list pop) (gl gl' : globals) r r',
  filter pop_is_py h = filter pop_is_py h' ->
  pipeline bits cfg h gl = Some r -> pipeline bits cfg h' gl' = Some r' ->
  py_outs (fst r) = py_outs (fst r') /\ own (snd r) = own (snd r').
Proof. exact (pipeline_replay bits). Qed.

Theorem C09_pipeline_globals_untouched : forall (cfg : config) (h : list pop) (gl : globals) r,
  pipeline bits cfg h gl = Some r -> forallb pop_is_py h = true -> glob (snd r) = gl.
Proof. exact (pipeline_globals bits). Qed.

Theorem C09_pipeline_checkpoint : forall (cfg : config) (h1 h2 : list pop) (gl gl' : globals) r,
  pipeline bits cfg (h1 ++ h2) gl = Some r ->
  exists r1, pipeline bits cfg h1 gl = Some r1 /\
    let r2 := run bits (compile_all cfg h2) (restore (save (snd r1)) gl') in
    py_outs (fst r) = py_outs (fst r1) ++ py_outs (fst r2) /\ own (snd r) = own (snd r2).
Proof. exact (pipeline_checkpoint bits). Qed.

End C09.

(** ** Seeds *)

(** every seeded component honours its seed: each generator any constructor creates (archive,
    every CVT centroid method's third-party sampler, operators, optimizers, rankers) reads a stream
    whose identity descends from the seed of the component that owns it *)
Theorem C09_seed_honoured : forall (cfg : config) (t : list tagged),
  build cfg = Some t ->
  forall c r g, In (c, r, g) t ->
  exists s, comp_seed cfg c = Some s /\ derives (c_seqs cfg) s (g_sid g) = true.
Proof. exact build_derives. Qed.

(** SeedSequence.spawn: children are pairwise different, different from the parent, and two
    successive spawns of one object never repeat a child *)
Theorem C09_spawn_distinct : forall (s : sseq) (n k : nat),
  NoDup (map sid_of (fst (spawn s n) ++ fst (spawn (snd (spawn s n)) k))) /\
  (forall c, In c (fst (spawn s n)) -> sid_of c <> sid_of s).
Proof. intros s n k. split; [exact (spawn_twice_NoDup s n k) | exact (spawn_fresh s n)]. Qed.

(** optimizer and ranker of an ES-driven emitter read different streams ... *)
Theorem C09_opt_ranker_separate : forall seqs tbl s o r tbl',
  tbl_ok seqs tbl -> spawn2 tbl s = Some (o, r, tbl') -> o <> r.
Proof. intros seqs tbl s o r tbl' Ht H. exact (proj2 (proj2 (proj2 (spawn2_spec seqs tbl s o r tbl' Ht H)))). Qed.

(** ... and two such emitters given the same SeedSequence object get four different ones *)
Theorem C09_shared_seedsequence_distinct : forall tbl k o1 r1 t1 o2 r2 t2,
  spawn2 tbl (SRef k) = Some (o1, r1, t1) -> spawn2 t1 (SRef k) = Some (o2, r2, t2) ->
  NoDup [o1; r1; o2; r2].
Proof. exact spawn2_ref_twice. Qed.

(** ** Sites: what the static inventory's verdict means in the model *)

Theorem C09_seeded_sites_owned : forall (inv : list site) (us : list site_use),
  all_sites_seeded inv = true -> (forall u, In u us -> In (fst (fst u)) inv) ->
  owned_only (site_prog us) = true.
Proof.
  intros inv us Hall Hin. apply seeded_sites_owned.
  intros u Hu. exact (all_sites_seeded_In inv _ Hall (Hin u Hu)).
Qed.

(** an unseeded site is not harmless: executing it consumes a process-wide source *)
Theorem C09_unseeded_site_disturbs : forall bits (s : site) (g : nat) (n : Z) (w : world),
  site_seeded s = false -> 0 < n -> glob (snd (draw bits w (resolve s g) n)) <> glob w.
Proof. exact unseeded_site_disturbs. Qed.

(** ** Non-vacuity *)

Definition ex_cfg : config :=
  mkConfig [(77, [3%nat])]
           (mkArchive (ACvt CHalton) (SInt 5) 10 2)
           [EGaussian (SInt 11) 4 3 false;
            EEvoStrat (SRef 0) EsCma Rk2Rd 4 3;
            EGradArbor (SRef 0) EsSepCma RkRd 5;
            EIsoLine (SInt 11) 2 3 true].

Definition ex_gl (a b c : Z) : globals := mkGlobals (mkGen (a, []) 0) (mkGen (b, []) 0) (mkGen (c, []) 0).

Definition ex_h : list pop :=
  [PAsk true [] []; PForeign GNp 3; PTell [false; true; false; false]; PReseed GPy (9, []);
   PAsk false [true; false; true; true] [0; 6; 0; 0]; PCheckpoint (ex_gl 1 2 3); PSample 2 false;
   PTell [false; false; true; false]; PCqd 2 3].

(** the hypotheses of C09_replay / C09_pipeline_checkpoint / C09_seed_honoured are met by a run that
    really draws (9 generators, outputs non-empty), under different globals
    and different interleavings *)
Example C09_nonvacuous :
  exists r r',
    pipeline toy_bits ex_cfg ex_h (ex_gl 1 2 3) = Some r /\
    pipeline toy_bits ex_cfg (filter pop_is_py ex_h) (ex_gl 4 5 6) = Some r' /\
    filter pop_is_py ex_h = filter pop_is_py (filter pop_is_py ex_h) /\
    map (@List.length Z) (py_outs (fst r)) = [39; 3; 43; 2; 3; 12]%nat /\
    py_outs (fst r) = py_outs (fst r') /\ own (snd r) = own (snd r') /\
    map g_pos (own (snd r)) = [24; 0; 24; 12; 4; 4; 30; 0; 8] /\
    map g_sid (own (snd r)) =
      [(5, []); (5, []); (11, []); (77, [3; 0]%nat); (77, [3; 1]%nat); (77, [3; 3]%nat); (77, [3; 2]%nat); (11, []); (11, [])] /\
    glob (snd r') = ex_gl 4 5 6 /\
    py_ok (compile_all ex_cfg ex_h) = true.
Proof. vm_compute. eexists. eexists. repeat split. Qed.

(** the ownership hypothesis of C09_frame is needed: one legacy np.random draw inside a pyribs call
    and two worlds with the same owned generators give different results *)
Example C09_frame_needs_ownership :
  let h := [Py [Draw NpGlobal 1]] in
  let w1 := mkWorld [] (ex_gl 1 2 3) in
  let w2 := mkWorld [] (ex_gl 7 2 3) in
  py_ok h = false /\ own w1 = own w2 /\
  py_outs (fst (run toy_bits h w1)) <> py_outs (fst (run toy_bits h w2)).
Proof. vm_compute. repeat split; congruence. Qed.

(** sites: a seeded and an unseeded one (the shape of finding F7) *)
Example C09_sites_nonvacuous :
  let good := mkSite "ribs/archives/_archive_base.py" 134 "ArchiveBase.__init__" KDefaultRng "numpy.random.default_rng" SrcParam in
  let f7 := mkSite "ribs/archives/_cvt_archive.py" 226 "CVTArchive.__init__" KThirdParty "scipy.stats.qmc.Sobol" SrcNone in
  all_sites_seeded [good] = true /\ all_sites_seeded [good; f7] = false /\
  resolve good 0 = Own 0 /\ resolve f7 0 = OsEntropy /\
  spawn2 [mkSS 77 [3%nat] 0] (SRef 0) = Some ((77, [3; 0]%nat), (77, [3; 1]%nat), [mkSS 77 [3%nat] 2]).
Proof. vm_compute. repeat split. Qed.

Print Assumptions C09_frame.
Print Assumptions C09_globals_undisturbed.
Print Assumptions C09_globals_untouched.
Print Assumptions C09_interleaving.
Print Assumptions C09_checkpoint.
Print Assumptions C09_pyribs_owned.
Print Assumptions C09_replay.
Print Assumptions C09_pipeline_globals_untouched.
Print Assumptions C09_pipeline_checkpoint.
Print Assumptions C09_seed_honoured.
Print Assumptions C09_spawn_distinct.
Print Assumptions C09_opt_ranker_separate.
Print Assumptions C09_shared_seedsequence_distinct.
Print Assumptions C09_seeded_sites_owned.
Print Assumptions C09_unseeded_site_disturbs.
