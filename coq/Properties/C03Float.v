(** C03, floating point -- GridArchive.index_of as the code computes it, in ROUNDED arithmetic (Model/GridRound.v: one
    rounding after each of the four arithmetic operations, clip to [0, d-1], truncate), for every finite measure:
    the statements of Properties/C03.v about the exact model that survive rounding, proved for every floating-point
    format and rounding direction (Flocq's generic [round]; the four operations may round differently, as numpy's
    float32/float64 promotion makes them), and the upper edge for IEEE binary64 round-to-nearest-even with its explicit
    accuracy side conditions.  What rounding does NOT preserve -- the exact position of the cell borders -- is the
    "either adjacent cell" clause of the property and is covered by the bit-exact model Model/GridFloat.v on generated cases.
    Only statements closed by [exact], a non-vacuity Example, Print Assumptions.  Proofs: Proofs/GridRoundProofs.v. *)
From Coq Require Import Reals ZArith Lra Lia.
From Flocq Require Import Core.
From PV Require Import Model.GridRound Proofs.GridRoundProofs.
Open Scope R_scope.

Section AnyFormat.
Variable beta : radix.
Variables fs fm fa fq : Z -> Z.
Context {vs : Valid_exp fs} {vm : Valid_exp fm} {va : Valid_exp fa} {vq : Valid_exp fq}.
Variables ns nm na nq : R -> Z.
Context {ws : Valid_rnd ns} {wm : Valid_rnd nm} {wa : Valid_rnd na} {wq : Valid_rnd nq}.

Notation idxF := (idx_r (round beta fs ns) (round beta fm nm) (round beta fa na) (round beta fq nq)).

(** every finite measure gets a cell of the grid (no wrap-around, no out-of-range index), whatever the rounding does *)
Theorem C03_float_grid_range : forall d lo eps w m, (1 <= d)%Z -> (0 <= idxF d lo eps w m <= d - 1)%Z.
Proof. exact (float_idx_range beta fs fm fa fq ns nm na nq). Qed.

(** the mapping is monotone in the coordinate in floating point as well: every cell is an interval of floats *)
Theorem C03_float_grid_monotone : forall d lo eps w m1 m2,
  (1 <= d)%Z -> 0 < w -> m1 <= m2 -> (idxF d lo eps w m1 <= idxF d lo eps w m2)%Z.
Proof. exact (float_idx_mono beta fs fm fa fq ns nm na nq). Qed.

(** coordinates at or below the lower bound, of any magnitude, go to cell 0 -- provided the archive's epsilon does not
    fill a whole cell by itself (a condition on the constants [eps], [w] only) *)
Theorem C03_float_grid_edge_low : forall d lo eps w m,
  (1 <= d)%Z -> 0 < w -> round beta fq nq (round beta fa na eps / w) < 1 -> m <= lo -> idxF d lo eps w m = 0%Z.
Proof. exact (float_idx_edge_low beta fs fm fa fq ns nm na nq). Qed.
End AnyFormat.

(** coordinates at or above the upper bound go to the last cell: binary64 round-to-nearest-even in the multiplication,
    addition and division (float64 archives; float32 archives after numpy's promotion), ANY monotone subtraction [rs]
    (binary32 or binary64) that reproduces the stored interval size [w] up to half an ulp; at most 2^51 cells per
    dimension; d * w in the normal range *)
Theorem C03_float_grid_edge_high_binary64 : forall (rs : R -> R) (d : Z) (lo hi eps w m : R),
  mono rs -> (1 <= d)%Z -> 0 < w -> 0 <= eps ->
  4 * u64 * IZR d <= 1 ->
  (1 - u64) * w <= rs (hi - lo) ->
  ymin64 <= (1 - u64) * (1 - u64) * (IZR d * w) ->
  hi <= m -> idx_r rs b64 b64 b64 d lo eps w m = (d - 1)%Z.
Proof. exact ieee_idx_edge_high. Qed.

Theorem C03_float_grid_cell_count_bound : forall d, (d <= 2 ^ 51)%Z -> 4 * u64 * IZR d <= 1.
Proof. exact u64_times. Qed.

(** non-vacuity: a float64 archive with 10 cells on [0, 1), epsilon 0: the side conditions of the upper edge hold (w is the
    rounded hi - lo = 1), so every m >= 1 lands in cell 9; and every m <= 0 lands in cell 0 *)
Example C03_float_nonvacuous : forall m,
  (1 <= m -> idx_r b64 b64 b64 b64 10 0 0 (b64 (1 - 0)) m = 9%Z) /\
  (m <= 0 -> idx_r b64 b64 b64 b64 10 0 0 (b64 (1 - 0)) m = 0%Z).
Proof.
  intros m.
  assert (E1 : b64 (1 - 0) = 1).
  { replace (1 - 0) with 1 by lra. unfold b64. apply round_generic; auto with typeclass_instances.
    change 1 with (bpow radix2 0). apply generic_format_bpow. unfold FLT_exp. lia. }
  assert (E0 : b64 0 = 0) by (unfold b64; apply round_0; auto with typeclass_instances).
  pose proof u64_nonneg as Hu.
  assert (Hu10 : 4 * u64 * IZR 10 <= 1) by (apply u64_times; lia).
  rewrite E1. split; intros H.
  - change 9%Z with (10 - 1)%Z.
    apply (ieee_idx_edge_high b64 10 0 1 0 1 m); try lra; try lia; auto using b64_mono; try (rewrite E1; nra).
    + assert (Hy : ymin64 <= / 4).
      { unfold ymin64. replace (/ 4) with (bpow radix2 (-2)) by (simpl; lra). apply bpow_le. lia. }
      assert (Hu4 : u64 <= / 40) by (simpl in Hu10; lra).
      assert (9 / 10 <= (1 - u64) * (1 - u64)) by nra.
      simpl IZR. nra.
  - apply (idx_edge_low b64 b64 b64 b64); auto using b64_mono; try lia; try lra.
    rewrite E0. unfold Rdiv. rewrite Rmult_0_l, E0. lra.
Qed.

Print Assumptions C03_float_grid_range.
Print Assumptions C03_float_grid_monotone.
Print Assumptions C03_float_grid_edge_low.
Print Assumptions C03_float_grid_edge_high_binary64.
Print Assumptions C03_float_grid_cell_count_bound.
