(** C17 — rankers return a best-first permutation by their documented key.
    Only statements closed by [exact]; model in Model/Ranker.v (shaped like ribs/emitters/rankers.py),
    specification in Spec/RankerSpec.v, proofs in Proofs/RankerProofs.v.
    All theorems quantify over every ranker kind, every ranker state (direction, remaining random stream),
    every archive (bounds, density function) and all column arrays of any length (0 and 1 included) with
    arbitrary rational entries (ties, negative values, equal projections) and arbitrary integer statuses. *)
From Coq Require Import List ZArith QArith Bool Arith Permutation.
From PV Require Import Model.Store Model.Ranker Spec.RankerSpec Proofs.RankerProofs.
Import ListNotations.
Open Scope Q_scope.

(** the returned indices are a permutation of the batch positions *)
Theorem C17_perm : forall r a d i idx v,
  rank r a d i = Ok (idx, v) -> Permutation idx (seq 0 (batch_size v)).
Proof. exact rank_perm. Qed.

(** best first: along the result the (status, key) pairs never get better -- status first
    (new 2 > improved 1 > not added 0; constant 0 for one-stage rankers), then the key, descending;
    density ascending *)
Theorem C17_sorted : forall r a d i idx v,
  rank r a d i = Ok (idx, v) -> best_first (r_kind r) v idx.
Proof. exact rank_best_first. Qed.

(** in particular the add status dominates: it never increases along the result, whatever the keys *)
Theorem C17_status_dominates : forall r a d i idx v,
  rank r a d i = Ok (idx, v) ->
  forall p q, (p < q < batch_size v)%nat -> fst (key_at v (nth q idx O)) <= fst (key_at v (nth p idx O)).
Proof. exact rank_status_dominates. Qed.

(** the ranking values are the documented key array, aligned with the ORIGINAL positions *)
Theorem C17_values_aligned : forall r a d i idx v,
  rank r a d i = Ok (idx, v) -> v = documented_values r a d i.
Proof. exact rank_values. Qed.

(** ranking (any number of times, on any data, failing or not) leaves the ranker -- direction and
    random stream -- unchanged; only reset / the setter change it.  (Archive, data and add feedback are
    inputs of a pure function in the model; their immutability is tied to the code by the harness's
    bitwise before/after comparison.) *)
Theorem C17_pure : forall r ops, forallb is_rank ops = true -> fst (run r ops) = r.
Proof. exact run_rank_only. Qed.

(** reset of a random-direction ranker: dir = z ⊙ (upper − lower) for the next [measure_dim] draws z
    of the ranker's own stream, which are consumed *)
Theorem C17_reset : forall r a r',
  reset r a = Ok r' -> is_rd (r_kind r) = true -> length (a_upper a) = length (a_lower a) ->
  let dim := length (a_lower a) in
  exists dir, r_dir r' = Some dir /\ length dir = dim /\
    (forall j, (j < dim)%nat -> nth j dir 0 = nth j (r_rng r) 0 * (nth j (a_upper a) 0 - nth j (a_lower a) 0)) /\
    r_rng r' = skipn dim (r_rng r) /\ r_kind r' = r_kind r.
Proof. exact reset_rd. Qed.

(** a second reset draws a NEW direction: the next segment of the stream *)
Theorem C17_reset_fresh : forall r a r1 r2,
  reset r a = Ok r1 -> reset r1 a = Ok r2 -> is_rd (r_kind r) = true -> length (a_upper a) = length (a_lower a) ->
  let dim := length (a_lower a) in
  exists dir, r_dir r2 = Some dir /\
    forall j, (j < dim)%nat -> nth j dir 0 = nth (dim + j) (r_rng r) 0 * (nth j (a_upper a) 0 - nth j (a_lower a) 0).
Proof. exact reset_twice. Qed.

Theorem C17_reset_stateless_rankers : forall r a, is_rd (r_kind r) = false -> reset r a = Ok r.
Proof. exact reset_other. Qed.

(** the extracted decidable predicate the harness evaluates on the IMPLEMENTATION's outputs means
    exactly "permutation and best-first", and the model always satisfies it *)
Theorem C17_checker_exact : forall k v idx,
  rank_ok k v idx = true <-> Permutation idx (seq 0 (batch_size v)) /\ best_first k v idx.
Proof. exact rank_ok_iff. Qed.

Theorem C17_checker_accepts_model : forall r a d i idx v,
  rank r a d i = Ok (idx, v) -> rank_ok (r_kind r) v idx = true.
Proof. exact rank_ok_complete. Qed.

(** non-vacuity: concrete batches with ties, negative values and all three statuses on which [rank]
    succeeds; a concrete reset followed by a rank with equal projections; a second reset *)
Example C17_nonvacuous_two_stage :
  let info := mkInfo [0; 2; 1; 2; 0; 1]%Z [-1; 3 # 2; 5; 3 # 2; -1; -7] [] in
  rank (new_ranker TwoImp []) (mkArchive [] [] None) (mkData [] []) info
  = Ok ([3; 1; 2; 5; 4; 0]%nat,
        V2 [(0, -1); (2 # 1, 3 # 2); (1, 5); (2 # 1, 3 # 2); (0, -1); (1, -7)]).
Proof. vm_compute. reflexivity. Qed.

Example C17_nonvacuous_single_and_density :
  rank (new_ranker Obj []) (mkArchive [] [] None) (mkData [1; -2; 1; 0] []) (mkInfo [] [] [])
    = Ok ([2; 0; 3; 1]%nat, V1 [1; -2; 1; 0]) /\
  rank (new_ranker Density []) (mkArchive [] [] (Some (map (fun m => dot m [1; 1]))))
       (mkData [] [[1; 0]; [0; 0]; [0; 1]; [-1; 0]]) (mkInfo [] [] [])
    = Ok ([3; 1; 0; 2]%nat, V1 [1; 0; 1; -1]) /\
  rank (new_ranker Obj []) (mkArchive [] [] None) (mkData [7] []) (mkInfo [] [] []) = Ok ([0]%nat, V1 [7]) /\
  rank (new_ranker Obj []) (mkArchive [] [] None) (mkData [] []) (mkInfo [] [] []) = Ok ([], V1 []).
Proof. vm_compute. repeat split; reflexivity. Qed.

Example C17_nonvacuous_reset :
  let a := mkArchive [-1; 0] [1; 4] None in
  let r0 := new_ranker RD [1 # 2; -3 # 4; 5; 7] in
  exists r1 r2, reset r0 a = Ok r1 /\ reset r1 a = Ok r2 /\
    is_rd (r_kind r0) = true /\ length (a_upper a) = length (a_lower a) /\
    r_dir r1 = Some [(1 # 2) * (1 - -1); (-3 # 4) * (4 - 0)] /\
    r_dir r2 = Some [5 * (1 - -1); 7 * (4 - 0)] /\
    rank r1 a (mkData [] [[3; 0]; [0; -1]; [1; 0]]) (mkInfo [] [] []) =
      Ok ([1; 0; 2]%nat, V1 (map (fun m => dot m [(1 # 2) * (1 - -1); (-3 # 4) * (4 - 0)]) [[3; 0]; [0; -1]; [1; 0]])) /\
    rank r0 a (mkData [] [[3; 0]]) (mkInfo [] [] []) = Err RuntimeError.
Proof. eexists. eexists. vm_compute. repeat split; reflexivity. Qed.

Example C17_nonvacuous_pure :
  let a := mkArchive [0] [1] None in
  let ops := [ORank a (mkData [] [[1]; [2]]) (mkInfo [] [] []); ORank a (mkData [] []) (mkInfo [] [] [])] in
  forallb is_rank ops = true /\ fst (run (set_dir (new_ranker RD [3]) [2]) ops) = set_dir (new_ranker RD [3]) [2].
Proof. vm_compute. split; reflexivity. Qed.

Print Assumptions C17_perm.
Print Assumptions C17_sorted.
Print Assumptions C17_status_dominates.
Print Assumptions C17_values_aligned.
Print Assumptions C17_pure.
Print Assumptions C17_reset.
Print Assumptions C17_reset_fresh.
Print Assumptions C17_reset_stateless_rankers.
Print Assumptions C17_checker_exact.
Print Assumptions C17_checker_accepts_model.
