(** C02 — add() feedback (status, value) is computed against the pre-call archive.
    Spec side: [judge_status] / [judge_value] are functions of the archive CONTENT before the call and of
    the candidate alone.  Model: Model/Archive.v.  Proofs: Proofs/C02Proofs.v. *)
From Coq Require Import List Arith Bool ZArith QArith Qreduction.
From PV Require Import Base.ListUtil Base.QUtil Base.FirstArgmax Model.Store Model.Archive
     Proofs.ArchiveProofs Proofs.C01Proofs Proofs.C02Proofs.
Import ListNotations.
Local Open Scope nat_scope.

Section C02.
Variable P : Type.

(** every reachable archive state is well formed (so the theorems below apply after any history) *)
Theorem C02_reachable_wellformed : forall (c : cfg) (h : list (aop P)), AInv c (arun c h).
Proof. exact (@arun_ainv P). Qed.

(** status 2 / 1 / 0 and value = objective - prior threshold (0 or threshold_min for an empty cell),
    computed per candidate from the PRE-call content only: the feedback of position k does not depend on
    the other members of the batch, and all members aimed at one cell are judged against the same state. *)
Theorem C02_pointwise : forall (c : cfg) (a : archive P) (cs : list (cand P)),
  AInv c a -> snd (add c a cs) = (map (judge_status c a) cs, map (judge_value c a) cs).
Proof. exact (@add_feedback_pointwise P). Qed.

Theorem C02_single_feedback : forall (c : cfg) (a : archive P) (x : cand P),
  AInv c a -> snd (add_single c a x) = (judge_status c a x, judge_value c a x).
Proof. exact (@add_single_feedback P). Qed.

(** a row that newly appears in a cell belongs to a candidate of this call, aimed at this cell, whose
    status is non-zero (so a status-0 candidate is never stored) *)
Theorem C02_stored_has_status : forall (c : cfg) (a : archive P) (cs : list (cand P)) i r,
  AInv c a -> wf_cells c cs ->
  content (fst (add c a cs)) i = Some r -> content a i <> Some r ->
  exists w, In w cs /\ c_cell w = i /\ judge_status c a w <> 0%Z /\ r_obj r = c_obj w /\ r_pay r = c_pay w.
Proof. exact (@stored_has_status P). Qed.

(** add_single agrees with add on a batch of one: identical post-state (contents, thresholds,
    statistics, best elite) and identical feedback, for default and CMA-MAE settings *)
Theorem C02_single_eq_batch1 : forall (c : cfg) (a : archive P) (x : cand P),
  AInv c a -> coupled c ->
  fst (add_single c a x) = fst (add c a [x]) /\
  snd (add c a [x]) = ([fst (snd (add_single c a x))], [snd (snd (add_single c a x))]).
Proof. exact (@single_eq_batch1 P). Qed.
End C02.

(** non-vacuity: CMA-MAE configuration, occupied and empty cells, objective exactly at the threshold *)
Definition ex_cfg : cfg := mkCfg 3 (Some (-1)%Q) (1#2)%Q 0%Q.
Definition ex_state : archive Z := arun ex_cfg [Add [mkCand 0 2 1%Z]].
Example C02_nonvacuous :
  AInv ex_cfg ex_state /\ coupled ex_cfg /\
  snd (add ex_cfg ex_state [mkCand 0 (1#2) 2%Z; mkCand 0 3 3%Z; mkCand 1 (-1) 4%Z; mkCand 1 0 5%Z]) =
    ([0; 1; 0; 2]%Z, [(0#4); (5#2); 0; 1]%Q).
Proof.
  split; [apply arun_ainv|]. split; [intros H; discriminate|]. vm_compute. reflexivity.
Qed.

Print Assumptions C02_reachable_wellformed.
Print Assumptions C02_pointwise.
Print Assumptions C02_single_feedback.
Print Assumptions C02_stored_has_status.
Print Assumptions C02_single_eq_batch1.
