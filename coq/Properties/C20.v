(** C20 — visualisations draw exactly what the archive stores.
    Only statements closed by [exact] (or a few lines of glue); model in Model/Viz.v, proofs in Proofs/VizProofs.v.
    Level: PARTIAL — the Voronoi regions of the 2-D CVT heat map (scipy/Qhull, shapely) are not modelled;
    the model fixes which SITE gets which objective, the harness checks the drawn regions geometrically. *)
From Coq Require Import List Arith Bool QArith Lia Permutation Sorted.
From PV Require Import Base.ListUtil Base.MixedRadixViz Model.Store Model.Viz Proofs.VizProofs.
Import ListNotations.
Local Open Scope nat_scope.

(** [cell_shows l i c]: the drawn cell value [c] is the objective of the listed elite with index [i], blank if none:
      (forall ob, c = Some ob <-> exists e, In e l /\ e_index e = i /\ e_obj e = ob) /\
      (c = None <-> forall e, In e l -> e_index e <> i)                                   (Proofs/VizProofs.v) *)

(** ravel / unravel (C order) are mutually inverse for EVERY list of dimensions *)
Theorem C20_mixed_radix : forall dims,
  (forall g, in_grid dims g -> ravel dims g < prod dims /\ unravel dims (ravel dims g) = g) /\
  (forall i, i < prod dims -> in_grid dims (unravel dims i) /\ ravel dims (unravel dims i) = i).
Proof.
  intros dims. split.
  - intros g Hg. split; [exact (ravel_lt dims g Hg) | exact (unravel_ravel dims g Hg)].
  - intros i Hi. split; [exact (unravel_in_grid dims i Hi) | exact (ravel_unravel dims i Hi)].
Qed.

(** grid_archive_heatmap, 2-D, every grid shape / listing / option setting: the mesh is drawn on the archive's two
    boundary arrays and colors[y][x] is the objective of the elite stored in cell ravel [x;y], blank if there is none *)
Theorem C20_grid_cell : forall g l o dx dy h,
  g_dims g = [dx; dy] -> o_transpose o = false -> NoDup (map e_index l) ->
  grid_heatmap g l o = Ok (PHeat h) ->
  hm_xb h = nth 0 (g_boundaries g) [] /\ hm_yb h = nth 1 (g_boundaries g) [] /\
  length (hm_colors h) = dy /\
  forall x y, x < dx -> y < dy ->
    length (nth y (hm_colors h) []) = dx /\
    cell_shows l (ravel [dx; dy] [x; y]) (nth x (nth y (hm_colors h) []) None).
Proof. exact grid_cell_plot. Qed.

(** 1-D grid: one row of cells along the boundary array *)
Theorem C20_grid1d_cell : forall g l o d h,
  g_dims g = [d] -> NoDup (map e_index l) -> grid_heatmap g l o = Ok (PHeat h) ->
  hm_xb h = nth 0 (g_boundaries g) [] /\
  exists cells, hm_colors h = [cells] /\ length cells = d /\
    forall k, k < d -> cell_shows l k (nth k cells None).
Proof. exact grid1d_cell_plot. Qed.

(** transpose_measures: the transposed picture exists exactly when the plain one does, has the boundary arrays
    and axis limits exchanged, the same colour limits, and the transposed colour matrix *)
Theorem C20_transpose : forall g l o dx dy h,
  g_dims g = [dx; dy] -> length (g_lower g) = 2 -> length (g_upper g) = 2 ->
  grid_heatmap g l (with_transpose o false) = Ok (PHeat h) ->
  exists h', grid_heatmap g l (with_transpose o true) = Ok (PHeat h') /\
    hm_xb h' = hm_yb h /\ hm_yb h' = hm_xb h /\
    Some (hm_xlim h') = hm_ylim h /\ hm_ylim h' = Some (hm_xlim h) /\ hm_clim h' = hm_clim h /\
    length (hm_colors h) = dy /\ length (hm_colors h') = dx /\
    (forall x, x < dx -> length (nth x (hm_colors h') []) = dy) /\
    (forall x y, x < dx -> y < dy ->
       nth y (nth x (hm_colors h') []) None = nth x (nth y (hm_colors h) []) None).
Proof. exact grid_transpose. Qed.

(** scatter plots: markers sit at the elites' measures and carry their objectives; transposition swaps the
    coordinates of every marker, vertical with horizontal boundary lines, and the axis limits *)
Theorem C20_scatter_transpose : forall g l o s,
  length (g_lower g) = 2 -> length (g_upper g) = 2 ->
  sliding_heatmap g l (with_transpose o false) = Ok (PScatter s) ->
  sc_offsets s = map (fun e => pair2 (e_meas e)) l /\ sc_array s = map e_obj l /\
  exists s', sliding_heatmap g l (with_transpose o true) = Ok (PScatter s') /\
    sc_offsets s' = map flip2 (sc_offsets s) /\ sc_array s' = sc_array s /\
    sc_vlines s' = sc_hlines s /\ sc_hlines s' = sc_vlines s /\
    sc_xlim s' = sc_ylim s /\ sc_ylim s' = sc_xlim s /\ sc_clim s' = sc_clim s.
Proof.
  intros g l o s Hlo Hup H. split; [|split; [|exact (sliding_transpose g l o s Hlo Hup H)]].
  - revert H. unfold sliding_heatmap. destruct (g_dims g) as [|a [|b [|c t]]]; try discriminate.
    destruct (limits_strict _ _ _); [|discriminate]. intros E; inversion E; reflexivity.
  - exact (proj2 (proj2 (sliding_limits g l _ s H))).
Qed.

Theorem C20_proximity_transpose : forall g l o s,
  (match o_bounds o with Some (lo, up) => length lo = 2 /\ length up = 2
                       | None => length (g_lower g) = 2 /\ length (g_upper g) = 2 end) ->
  proximity_plot g l (with_transpose o false) = Ok (PScatter s) ->
  exists s', proximity_plot g l (with_transpose o true) = Ok (PScatter s') /\
    sc_offsets s' = map flip2 (sc_offsets s) /\ sc_array s' = sc_array s /\
    sc_xlim s' = sc_ylim s /\ sc_ylim s' = sc_xlim s /\ sc_clim s' = sc_clim s.
Proof. exact proximity_transpose. Qed.

(** 2-D CVT: transposition flips every Voronoi site (and marker) and the limits; the objective / colour value
    attached to each site is unchanged *)
Theorem C20_cvt2d_transpose : forall g l o v,
  length (g_lower g) = 2 -> length (g_upper g) = 2 ->
  cvt_heatmap g l (with_transpose o false) = Ok (PVor v) ->
  exists v', cvt_heatmap g l (with_transpose o true) = Ok (PVor v') /\
    vo_sites v' = map flip2 (vo_sites v) /\ vo_obj v' = vo_obj v /\ vo_t v' = vo_t v /\
    vo_xlim v' = vo_ylim v /\ vo_ylim v' = vo_xlim v /\ vo_clim v' = vo_clim v /\
    vo_markers v' = map flip2 (vo_markers v).
Proof. exact cvt2d_transpose. Qed.

(** 1-D CVT, for EVERY list of centroids (any order, ties included): the sort index is a permutation that sorts
    the centroids, and inv_idx is its two-sided inverse *)
Theorem C20_cvt1d_inverse : forall cs,
  let p := argsort cs in
  let inv := inverse_perm p in
  Permutation p (seq 0 (length cs)) /\
  StronglySorted Qle (map (qnth cs) p) /\
  (forall k, k < length cs -> nth (nth k p 0) inv 0 = k) /\
  (forall c, c < length cs -> nth (nth c inv 0) p 0 = c).
Proof.
  intros cs p inv. split; [exact (argsort_perm cs)|]. split.
  - exact (StronglySorted_map Qle (qnth cs) p (argsort_sorted cs)).
  - split; intros k Hk.
    + apply inverse_perm_left; [apply argsort_is_perm | unfold p; rewrite argsort_length; exact Hk].
    + apply inverse_perm_right; [apply argsort_is_perm | unfold p; rewrite argsort_length; exact Hk].
Qed.

(** ... hence the k-th interval (between the midpoints of the sorted centroids) shows the objective of the elite
    stored in the cell of the k-th smallest centroid, blank if that cell is empty *)
Theorem C20_cvt1d_cell : forall g l o lb h,
  g_lower g = [lb] -> NoDup (map e_index l) -> cvt_heatmap g l o = Ok (PHeat h) ->
  let cs := map (fun c => qnth c 0) (g_centroids g) in
  let p := argsort cs in
  hm_xb h = [lb] ++ midpoints (map (qnth cs) p) ++ [qnth (g_upper g) 0] /\
  exists cells, hm_colors h = [cells] /\ length cells = length cs /\
    forall k, k < length cs -> cell_shows l (nth k p 0) (nth k cells None).
Proof. exact cvt1d_cell_plot. Qed.

(** colour limits: an explicit vmin / vmax is used as given; the default is the minimum / maximum of the stored
    objectives.   is_lower_limit vmin objs lo :=  match vmin with Some v => lo = v
                                                 | None => In lo objs /\ forall y, In y objs -> lo <= y end *)
Theorem C20_limits :
  (forall g l o dx dy h, g_dims g = [dx; dy] -> grid_heatmap g l o = Ok (PHeat h) ->
     exists lo hi, hm_clim h = (Some lo, Some hi) /\
       is_lower_limit (o_vmin o) (map e_obj l) lo /\ is_upper_limit (o_vmax o) (map e_obj l) hi) /\
  (forall g l o d h, g_dims g = [d] -> NoDup (map e_index l) -> grid_heatmap g l o = Ok (PHeat h) ->
     (forall lo, fst (hm_clim h) = Some lo -> is_lower_limit (o_vmin o) (map e_obj l) lo) /\
     (forall hi, snd (hm_clim h) = Some hi -> is_upper_limit (o_vmax o) (map e_obj l) hi) /\
     (l <> [] -> exists lo hi, hm_clim h = (Some lo, Some hi))) /\
  (forall g l o lb h, g_lower g = [lb] -> NoDup (map e_index l) -> cvt_heatmap g l o = Ok (PHeat h) ->
     (forall lo, fst (hm_clim h) = Some lo -> is_lower_limit (o_vmin o) (map e_obj l) lo) /\
     (forall hi, snd (hm_clim h) = Some hi -> is_upper_limit (o_vmax o) (map e_obj l) hi)) /\
  (forall g l o s, sliding_heatmap g l o = Ok (PScatter s) ->
     is_lower_limit (o_vmin o) (map e_obj l) (fst (sc_clim s)) /\
     is_upper_limit (o_vmax o) (map e_obj l) (snd (sc_clim s)) /\ sc_array s = map e_obj l) /\
  (forall g l o s, proximity_plot g l o = Ok (PScatter s) ->
     is_lower_limit (o_vmin o) (map e_obj l) (fst (sc_clim s)) /\
     is_upper_limit (o_vmax o) (map e_obj l) (snd (sc_clim s)) /\ sc_array s = map e_obj l) /\
  (forall g l o p, parallel_axes g l o = Ok (PPar p) ->
     (forall lo, fst (pa_clim p) = Some lo -> is_lower_limit (o_vmin o) (map e_obj l) lo) /\
     (forall hi, snd (pa_clim p) = Some hi -> is_upper_limit (o_vmax o) (map e_obj l) hi)).
Proof.
  split; [exact grid2d_limits|]. split; [exact grid1d_limits|]. split; [exact cvt1d_limits|].
  split; [exact sliding_limits|]. split; [exact proximity_limits | exact parallel_limits].
Qed.

(** the limits are determined by the SET of stored objectives (as rationals) *)
Theorem C20_limits_unique : forall v objs a b,
  (is_lower_limit v objs a -> is_lower_limit v objs b -> a == b)%Q /\
  (is_upper_limit v objs a -> is_upper_limit v objs b -> a == b)%Q.
Proof. intros v objs a b. split; [exact (is_lower_limit_unique v objs a b) | exact (is_upper_limit_unique v objs a b)]. Qed.

(** plotting from a frame: a frame equal to the archive's listing gives the same picture for every function, and
    the heat map does not depend on the ROW ORDER of the frame *)
Theorem C20_df_same :
  (forall k w o, w_frame w = Some (w_elites w) ->
     snd (plot w (k, o)) = draw k (w_geom w) (w_elites w) o) /\
  (forall dx dy l l', Permutation l l' -> NoDup (map e_index l) -> (forall e, In e l -> e_index e < dx * dy) ->
     grid2d_colors dx dy (map e_index l') (map e_obj l') = grid2d_colors dx dy (map e_index l) (map e_obj l)).
Proof.
  split; [|exact grid2d_colors_perm].
  intros k w o H. unfold plot. simpl. rewrite (source_same w o H). reflexivity.
Qed.

(** plotting returns no new state: after any sequence of plotting calls the archive listing, its geometry and the
    caller's frame are what they were, so a picture never depends on earlier plotting calls *)
Theorem C20_pure : forall cs w,
  plot_all w cs = w /\ forall c, snd (plot (plot_all w cs) c) = snd (plot w c).
Proof. intros cs w. rewrite (plot_all_world cs w). split; reflexivity. Qed.

(** parallel axes: the first measure is drawn as is; measure j is drawn at the height of axis 0 that has the same
    relative position between the bounds as the measure has on its own axis (endpoints map to endpoints) *)
Theorem C20_parallel_position :
  (forall lo up row, nth 0 (normalize_row lo up row) 0%Q = nth 0 row 0%Q) /\
  (forall lo up row j, S j < length row -> S j < length lo -> S j < length up ->
     nth (S j) (normalize_row lo up row) 0%Q =
     to_axis0 (qnth lo 0) (qnth up 0 - qnth lo 0) (nth (S j) row 0%Q) (qnth lo (S j)) (qnth up (S j))) /\
  (forall lb0 r0 y lb ub, ~ ub - lb == 0 -> ~ r0 == 0 ->
     (to_axis0 lb0 r0 y lb ub - lb0) / r0 == (y - lb) / (ub - lb))%Q /\
  (forall lb0 r0 lb ub, ~ ub - lb == 0 ->
     to_axis0 lb0 r0 lb lb ub == lb0 /\ to_axis0 lb0 r0 ub lb ub == lb0 + r0)%Q.
Proof.
  split; [exact normalize_row_0|]. split; [exact normalize_row_nth|].
  split; [exact to_axis0_position | exact to_axis0_endpoints].
Qed.

(** sort_archive draws the same elites, lowest objective first (highest on top) *)
Theorem C20_parallel_sort : forall l,
  Permutation (sort_by_obj l) l /\ StronglySorted obj_le (sort_by_obj l).
Proof. intros l. split; [exact (sort_by_obj_perm l) | exact (sort_by_obj_sorted l)]. Qed.

(** * Non-vacuity: concrete non-trivial inputs meeting the hypotheses *)
Definition ex_geom : geometry :=
  mkGeom [3; 2] [[0; 1; 2; 3]; [10; 11; 12]]%Q [0; 10]%Q [3; 12]%Q [].
Definition ex_list : listing :=
  [mkElite 0 1%Q [1 # 2; 21 # 2]%Q; mkElite 3 7%Q [3 # 2; 23 # 2]%Q; mkElite 4 5%Q [5 # 2; 21 # 2]%Q].
Definition ex_opts (t : bool) : opts := mkOpts false t None None false None true None.

(** a 3x2 grid with elites in cells (0,0), (1,1), (2,0): the hypotheses of C20_grid_cell / C20_transpose /
    C20_limits hold and the picture is the asymmetric one *)
Example C20_grid_nonvacuous :
  exists h h', grid_heatmap ex_geom ex_list (ex_opts false) = Ok (PHeat h) /\
    grid_heatmap ex_geom ex_list (ex_opts true) = Ok (PHeat h') /\
    NoDup (map e_index ex_list) /\
    hm_colors h = [[Some 1%Q; None; Some 5%Q]; [None; Some 7%Q; None]] /\
    hm_colors h' = [[Some 1%Q; None]; [None; Some 7%Q]; [Some 5%Q; None]] /\
    hm_clim h = (Some 1%Q, Some 7%Q) /\ hm_xb h' = [10; 11; 12]%Q.
Proof.
  eexists. eexists. split; [vm_compute; reflexivity|]. split; [vm_compute; reflexivity|].
  split; [repeat constructor; simpl; intuition congruence|]. vm_compute. repeat split; reflexivity.
Qed.

Example C20_mixed_radix_nonvacuous :
  in_grid [3; 2; 4] [2; 1; 3] /\ ravel [3; 2; 4] [2; 1; 3] = 23 /\ unravel [3; 2; 4] 23 = [2; 1; 3] /\ 23 < prod [3; 2; 4].
Proof. split; [repeat constructor|]. vm_compute. repeat split; lia. Qed.

(** unsorted centroids 0.7, 0.1, 0.4, 0.9 with elites in cells 0 and 1: intervals 0 and 2 are filled *)
Definition ex_cvt : geometry := mkGeom [] [] [0]%Q [1]%Q [[7 # 10]; [1 # 10]; [4 # 10]; [9 # 10]]%Q.
Example C20_cvt1d_nonvacuous :
  argsort [7 # 10; 1 # 10; 4 # 10; 9 # 10]%Q = [1; 2; 0; 3] /\
  inverse_perm [1; 2; 0; 3] = [2; 0; 1; 3] /\
  exists h, cvt_heatmap ex_cvt [mkElite 0 1%Q [72 # 100]%Q; mkElite 1 2%Q [12 # 100]%Q] (ex_opts false) = Ok (PHeat h) /\
    hm_colors h = [[Some 2%Q; None; Some 1%Q; None]].
Proof.
  split; [vm_compute; reflexivity|]. split; [vm_compute; reflexivity|].
  eexists. split; vm_compute; reflexivity.
Qed.

Example C20_scatter_nonvacuous :
  exists s, sliding_heatmap ex_geom ex_list (with_transpose (ex_opts false) false) = Ok (PScatter s) /\
    length (sc_vlines s) = 4 /\ length (sc_hlines s) = 3 /\
    proximity_plot ex_geom ex_list (with_transpose (ex_opts false) false) <> Err RuntimeError /\
    (exists v, cvt_heatmap (mkGeom [] [] [0; 0] [1; 2] [[7 # 10; 2 # 10]; [1 # 10; 3 # 10]])%Q ex_list
                 (with_transpose (ex_opts false) false) = Ok (PVor v)).
Proof.
  eexists. split; [vm_compute; reflexivity|]. split; [reflexivity|]. split; [reflexivity|].
  split; [vm_compute; discriminate|]. eexists. vm_compute. reflexivity.
Qed.

Example C20_parallel_nonvacuous :
  exists p, parallel_axes (mkGeom [] [] [0; 10; -1] [4; 12; 1] [])%Q ex_list
              (mkOpts false false None None true (Some [1; 0]) false None) = Ok (PPar p) /\
    pa_objs p = [1; 5; 7]%Q /\ length (pa_lines p) = 3 /\
    (~ (12 - 10 == 0) /\ ~ (4 - 0 == 0))%Q.
Proof. eexists. split; [vm_compute; reflexivity|]. repeat split; try reflexivity; intros H; vm_compute in H; discriminate. Qed.

Example C20_df_pure_nonvacuous :
  let w := mkWorld ex_geom ex_list (Some ex_list) in
  w_frame w = Some (w_elites w) /\ Permutation ex_list (rev ex_list) /\ rev ex_list <> ex_list /\
  plot_all w [(KGrid, ex_opts true); (KParallel, ex_opts false)] = w.
Proof.
  split; [reflexivity|]. split; [apply Permutation_rev|]. split; [discriminate | reflexivity].
Qed.

Print Assumptions C20_mixed_radix.
Print Assumptions C20_grid_cell.
Print Assumptions C20_grid1d_cell.
Print Assumptions C20_transpose.
Print Assumptions C20_scatter_transpose.
Print Assumptions C20_proximity_transpose.
Print Assumptions C20_cvt2d_transpose.
Print Assumptions C20_cvt1d_inverse.
Print Assumptions C20_cvt1d_cell.
Print Assumptions C20_limits.
Print Assumptions C20_limits_unique.
Print Assumptions C20_df_same.
Print Assumptions C20_pure.
Print Assumptions C20_parallel_position.
Print Assumptions C20_parallel_sort.
