(** C05 — CMA-MAE thresholds follow the documented update rule and only ever rise.
    Exact-arithmetic theorems about Model/Archive.v (threshold_min = Some t0, 0 <= learning_rate <= 1).
    In binary32/64 the implementation evaluates the same formula with rounding; the harness compares
    step-wise with a few-ulp tolerance (see DESIGN.md 5/C05). *)
From Coq Require Import List Arith Bool ZArith QArith Qreduction.
From PV Require Import Base.ListUtil Base.QUtil Base.FirstArgmax Model.Store Model.Archive
     Proofs.ArchiveProofs Proofs.C01Proofs Proofs.C02Proofs.
Import ListNotations.
Local Open Scope nat_scope.

Section C05.
Variable P : Type.

(** an empty cell's effective threshold is threshold_min *)
Theorem C05_initial : forall (c : cfg) (a : archive P) i t0,
  tmin c = Some t0 -> content a i = None -> eff_thr c a i = t0.
Proof. intros c a i t0 Ht Hc. unfold eff_thr, base_of. rewrite Hc, Ht. reflexivity. Qed.

(** One call, one cell.  [accepted] = the candidates of the call aimed at the cell whose objective
    exceeds the cell's prior effective threshold [t], in batch order.  If none: elite and threshold are
    unchanged.  Otherwise the cell holds the first arg-max of [accepted] (possibly worse than the
    previous elite), and with k = |accepted|, m = mean objective of [accepted]:
      threshold' == (1-a)^k * t + (1 - (1-a)^k) * m,   t <= threshold' <= best accepted objective,
    and the stored candidate's objective is > t. *)
Theorem C05_call : forall (c : cfg) (a : archive P) (cs : list (cand P)) i t0,
  AInv c a -> wf_cells c cs -> lr_ok c -> tmin c = Some t0 ->
  let acc := accepted c a cs i in
  let t := eff_thr c a i in
  match first_argmax c_obj acc with
  | None => acc = [] /\ content (fst (add c a cs)) i = content a i
  | Some w =>
      exists r, content (fst (add c a cs)) i = Some r /\
        r_obj r = c_obj w /\ r_pay r = c_pay w /\ (t < c_obj w)%Q /\
        (r_thr r == qpow (1 - lr c) (length acc) * t + (1 - qpow (1 - lr c) (length acc)) * mean acc)%Q /\
        (t <= r_thr r <= c_obj w)%Q
  end.
Proof. exact (@cma_mae_call P). Qed.

(** add_single: (1-a)*t + a*f *)
Theorem C05_single : forall (c : cfg) (a : archive P) (x : cand P),
  AInv c a ->
  (single_thr c (bump_add (a_store a)) x == (1 - lr c) * eff_thr c a (c_cell x) + lr c * c_obj x)%Q.
Proof. exact (@single_thr_formula P). Qed.

(** a = 0: thresholds never move *)
Theorem C05_a0_frozen : forall (c : cfg) (t : Q) (acc : list (cand P)),
  (lr c == 0)%Q -> (batch_thr c t acc == t)%Q.
Proof. exact (@batch_thr_frozen P). Qed.

(** over every history: between clears no cell's effective threshold ever decreases *)
Theorem C05_history_monotone : forall (c : cfg) (h : list (aop P)) (o : aop P) i t0,
  lr_ok c -> tmin c = Some t0 -> wf_hist c (h ++ [o]) -> o <> Clear ->
  (eff_thr c (arun c h) i <= eff_thr c (arun c (h ++ [o])) i)%Q.
Proof. exact (@threshold_monotone P). Qed.
End C05.

(** non-vacuity: lr = 1/2, threshold_min = -1, three accepted and one rejected candidate in one cell *)
Definition ex_cfg : cfg := mkCfg 2 (Some (-1)%Q) (1#2)%Q 0%Q.
Definition ex_cs : list (cand Z) := [mkCand 0 1 1%Z; mkCand 0 (-2) 2%Z; mkCand 0 3 3%Z; mkCand 0 3 4%Z].
Example C05_nonvacuous :
  AInv ex_cfg (arch_init Z ex_cfg) /\ wf_cells ex_cfg ex_cs /\ lr_ok ex_cfg /\
  option_map (fun r => (r_pay r, Qred (r_thr r))) (content (fst (add ex_cfg (arch_init Z ex_cfg) ex_cs)) 0)
  = Some (3%Z, (23#12)%Q).
Proof.
  split; [apply init_ainv|]. split.
  - intros x Hx. simpl in Hx. repeat (destruct Hx as [<-|Hx]; [vm_compute; auto|]). destruct Hx.
  - split; [unfold lr_ok; simpl; split; discriminate|]. vm_compute. reflexivity.
Qed.

Print Assumptions C05_initial.
Print Assumptions C05_call.
Print Assumptions C05_single.
Print Assumptions C05_a0_frozen.
Print Assumptions C05_history_monotone.
