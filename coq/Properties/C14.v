(** C14 — ProximityArchive admits by novelty, is append-only, replaces only by competition; reported
    bounds describe the current contents and are unavailable when empty.
    Only statements closed by [exact] (plus 1-3 lines of glue); model in Model/Proximity.v, proofs in
    Proofs/KnnProofs.v, Proofs/ProximityProofs.v, Proofs/C14Proofs.v.

    Reading guide.  [prun meas c h] is the state after ANY history [h] of add / add_single / clear /
    lower_bounds / upper_bounds reads, for ANY configuration [c] (k_neighbors [pk], novelty_threshold
    [pthr], local_competition [plc], initial_capacity [pcap0 >= 1]).  A candidate [x] carries its
    distances [pc_dists x] to the stored entries 0..n-1 of the pre-call archive and the index
    [pc_near x] answered by index_of (validated by the model).  [is_knn k dists sel]: [sel] is ANY
    valid answer of a k-nearest-neighbour query (min(k,n) distinct stored indices, no unselected entry
    strictly closer than a selected one) -- the k-D tree's tie-breaking is left open.
    [sel_mean dists sel] is the mean distance to the selected entries.  [eff b cs] = the batch with
    objectives replaced by 0 when objective=None ([b = true]). *)
From Coq Require Import List Arith Bool ZArith QArith Lia Lqa.
From PV Require Import Base.ListUtil Base.QUtil Base.FirstArgmax Model.Store Proofs.StoreProofs Model.Archive
     Model.Proximity Proofs.KnnProofs Proofs.ProximityProofs Proofs.C14Proofs.
Import ListNotations.
Local Open Scope nat_scope.

Section C14.
Variable P : Type.
Variable meas : P -> list Q.

(** every reachable state satisfies the invariant the clauses rest on: ArrayStore bookkeeping exact,
    stored indices exactly 0..n-1 in insertion order, capacity >= 1, cached bounds (when present)
    equal to the min/max of the current measures *)
Theorem C14_invariant : forall (c : pcfg) (h : list (pop P)), 1 <= pcap0 c -> PInv meas (prun meas c h).
Proof. exact (prun_pinv meas). Qed.

(** a k-nearest-neighbour answer always exists, and all of them have the same distance sum (so the
    novelty does not depend on the tree's tie-breaking) *)
Theorem C14_knn_exists : forall (dists : list Q) (k : nat), exists sel, is_knn k dists sel.
Proof. exact knn_exists. Qed.

Theorem C14_knn_sum_unique : forall k dists sel,
  is_knn k dists sel -> (sel_sum dists sel == Qsum (ksmallest (Nat.min k (length dists)) dists))%Q.
Proof. exact knn_sum. Qed.

(** status "new" (2) <=> novelty >= threshold, judged on the PRE-call archive; every candidate of a
    batch into an empty archive is admitted *)
Theorem C14_admit_iff : forall (c : pcfg) (h : list (pop P)) b cs st' out j x,
  1 <= pcap0 c -> let st := prun meas c h in
  padd c st b cs = (st', Ok out) -> nth_error (eff b cs) j = Some x ->
  (psize st = 0 -> nth j (o_status out) 0%Z = 2%Z) /\
  (psize st <> 0 -> forall sel, is_knn (pk c) (pc_dists x) sel ->
     (nth j (o_status out) 0%Z = 2%Z <-> (pthr c <= sel_mean (pc_dists x) sel)%Q)).
Proof. intros c h b cs st' out j x Hc st Hadd. exact (@admit_iff P meas c st b cs st' out (prun_pinv meas c h Hc) Hadd j x). Qed.

(** the reported novelty is that mean (the threshold itself when the archive is empty) *)
Theorem C14_reported_novelty : forall (c : pcfg) (h : list (pop P)) b cs st' out j x,
  1 <= pcap0 c -> let st := prun meas c h in
  padd c st b cs = (st', Ok out) -> nth_error (eff b cs) j = Some x ->
  (psize st = 0 -> nth j (o_nov out) 0%Q = pthr c) /\
  (psize st <> 0 -> forall sel, is_knn (pk c) (pc_dists x) sel ->
     (nth j (o_nov out) 0 == sel_mean (pc_dists x) sel)%Q).
Proof. intros c h b cs st' out j x Hc st Hadd. exact (@reported_novelty P meas c st b cs st' out (prun_pinv meas c h Hc) Hadd j x). Qed.

(** local competition: for EVERY valid neighbour selection the number of selected entries with a
    strictly lower objective lies in the reported interval; the interval is a single number when
    exactly as many entries lie AT the k-th distance as are still needed (no tie at the boundary);
    (0,0) on an empty archive *)
Theorem C14_lc_count : forall (c : pcfg) (h : list (pop P)) b cs st' out j x,
  1 <= pcap0 c -> let st := prun meas c h in
  padd c st b cs = (st', Ok out) -> plc c = true -> 1 <= pk c -> nth_error (eff b cs) j = Some x ->
  let r := nth j (o_lc out) (0, 0) in
  let k := Nat.min (pk c) (psize st) in
  (psize st = 0 -> r = (0, 0)) /\
  (psize st <> 0 -> forall sel, is_knn (pk c) (pc_dists x) sel ->
     fst r <= countb (lower st (pc_obj x)) sel <= snd r) /\
  (psize st <> 0 -> length (idx_tie k (pc_dists x)) = k - length (idx_below k (pc_dists x)) -> fst r = snd r).
Proof. intros c h b cs st' out j x Hc st Hadd. exact (@lc_count P meas c st b cs st' out (prun_pinv meas c h Hc) Hadd j x). Qed.

(** ... and the interval is exact: every count in it is produced by some valid selection *)
Theorem C14_lc_count_complete : forall (c : pcfg) (h : list (pop P)) b cs st' out j x v,
  1 <= pcap0 c -> let st := prun meas c h in
  padd c st b cs = (st', Ok out) -> plc c = true -> 1 <= pk c -> nth_error (eff b cs) j = Some x ->
  psize st <> 0 ->
  let r := nth j (o_lc out) (0, 0) in
  fst r <= v <= snd r ->
  exists sel, is_knn (pk c) (pc_dists x) sel /\ countb (lower st (pc_obj x)) sel = v.
Proof. intros c h b cs st' out j x v Hc st Hadd. exact (@lc_count_complete P meas c st b cs st' out (prun_pinv meas c h Hc) Hadd j x v). Qed.

(** without local competition: one call appends the novel rows in batch order and touches nothing else;
    indices are exactly 0..n-1 *)
Theorem C14_append_only_call : forall (c : pcfg) (h : list (pop P)) b cs st' out,
  1 <= pcap0 c -> let st := prun meas c h in
  padd c st b cs = (st', Ok out) -> plc c = false ->
  entries st' = entries st ++ map (fun x => Some (row_of x)) (novs c (psize st) (eff b cs)) /\
  olist (pstore st') = seq 0 (psize st') /\
  psize st' = psize st + length (novs c (psize st) (eff b cs)) /\
  firstn (psize st) (entries st') = entries st.
Proof. intros c h b cs st' out Hc st Hadd. exact (@append_only P meas c st b cs st' out (prun_pinv meas c h Hc) Hadd). Qed.

(** ... and for whole histories: whatever is done after [h1] (no clear), the entries stored after [h1]
    are still there, unchanged, at the same indices *)
Theorem C14_append_only : forall (c : pcfg) (h1 h2 : list (pop P)),
  1 <= pcap0 c -> plc c = false -> no_clear h2 ->
  firstn (psize (prun meas c h1)) (entries (prun meas c (h1 ++ h2))) = entries (prun meas c h1).
Proof. exact (run_append_only meas). Qed.

Theorem C14_indices : forall (c : pcfg) (h : list (pop P)), 1 <= pcap0 c ->
  olist (pstore (prun meas c h)) = seq 0 (psize (prun meas c h)).
Proof. exact (run_indices meas). Qed.

(** growth: the capacity becomes the smallest cap * 2^j that holds the new size; no entry is lost
    (with local competition it may be replaced, never removed), none moves *)
Theorem C14_growth_call : forall (c : pcfg) (h : list (pop P)) b cs st' out,
  1 <= pcap0 c -> let st := prun meas c h in
  padd c st b cs = (st', Ok out) ->
  let n' := psize st + length (novs c (psize st) (eff b cs)) in
  psize st' = n' /\ n' <= pcap st' /\
  pcap st' = (if Nat.ltb (pcap st) n' then grow (pcap st) n' else pcap st) /\
  (exists j, pcap st' = pcap st * 2 ^ j /\ (j = 0 \/ pcap st * 2 ^ (j - 1) < n')) /\
  (forall i, i < psize st -> pcontent st' i <> None) /\
  (plc c = false -> forall i, i < psize st -> pcontent st' i = pcontent st i).
Proof. intros c h b cs st' out Hc st Hadd. exact (@growth P meas c st b cs st' out (prun_pinv meas c h Hc) Hadd). Qed.

Theorem C14_growth : forall (c : pcfg) (h : list (pop P)), 1 <= pcap0 c ->
  psize (prun meas c h) <= pcap (prun meas c h) /\ exists j, pcap (prun meas c h) = pcap0 c * 2 ^ j.
Proof. exact (run_growth meas). Qed.

(** with local competition: entry [i] is replaced exactly when the first arg-max of the non-novel
    candidates whose nearest entry is [i] has a strictly higher objective, and then by that candidate *)
Theorem C14_replace_iff : forall (c : pcfg) (h : list (pop P)) b cs st' out i r,
  1 <= pcap0 c -> let st := prun meas c h in
  padd c st b cs = (st', Ok out) -> plc c = true -> pcontent st i = Some r ->
  pcontent st' i =
  match first_argmax (@pc_obj P) (targets c (psize st) i (eff b cs)) with
  | Some w => if Qltb (r_obj r) (pc_obj w) then Some (row_of w) else Some r
  | None => Some r
  end.
Proof. intros c h b cs st' out i r Hc st Hadd. exact (@replace_iff P meas c st b cs st' out (prun_pinv meas c h Hc) Hadd i r). Qed.

(** ... and its feedback: a non-novel candidate targets a stored entry at minimum distance, gets status 1
    iff its objective is strictly higher than that entry's, status 0 otherwise, value = difference *)
Theorem C14_replace_feedback : forall (c : pcfg) (h : list (pop P)) b cs st' out j x,
  1 <= pcap0 c -> let st := prun meas c h in
  padd c st b cs = (st', Ok out) -> plc c = true -> nth_error (eff b cs) j = Some x ->
  is_novel c (psize st) x = false ->
  exists r, pcontent st (pc_near x) = Some r /\ pc_near x < psize st /\
    (forall d, In d (pc_dists x) -> (dist_at (pc_dists x) (pc_near x) <= d)%Q) /\
    (nth j (o_status out) 0%Z = 1%Z <-> (r_obj r < pc_obj x)%Q) /\
    (nth j (o_status out) 0%Z = 0%Z <-> (pc_obj x <= r_obj r)%Q) /\
    nth j (o_val out) 0%Q = (pc_obj x - r_thr r)%Q /\ (r_thr r == r_obj r)%Q.
Proof. intros c h b cs st' out j x Hc st Hadd. exact (@replace_feedback P meas c st b cs st' out (prun_pinv meas c h Hc) Hadd j x). Qed.

(** bounds: whenever read, the coordinate-wise min / max of the CURRENT measures; RuntimeError when the
    archive is empty -- in particular right after clear(), whatever was cached before *)
Theorem C14_bounds : forall (c : pcfg) (h : list (pop P)), 1 <= pcap0 c ->
  let st := prun meas c h in
  snd (read_lo meas st) = (if Nat.eqb (psize st) 0 then Err RuntimeError else Ok (vfold qmin (pmeasures meas st))) /\
  snd (read_hi meas st) = (if Nat.eqb (psize st) 0 then Err RuntimeError else Ok (vfold qmax (pmeasures meas st))).
Proof. exact (run_bounds meas). Qed.

Theorem C14_bounds_after_clear : forall (c : pcfg) (h : list (pop P)), 1 <= pcap0 c ->
  let st := prun meas c (h ++ [PClear]) in
  psize st = 0 /\ snd (read_lo meas st) = Err RuntimeError /\ snd (read_hi meas st) = Err RuntimeError.
Proof. exact (run_bounds_after_clear meas). Qed.

Theorem C14_bounds_are_min : forall d j (vs : list (list Q)),
  vs <> [] -> (forall v, In v vs -> length v = d) -> j < d ->
  (forall v, In v vs -> (nth j (vfold qmin vs) 0 <= nth j v 0)%Q) /\
  (exists v, In v vs /\ nth j (vfold qmin vs) 0%Q = nth j v 0%Q) /\ length (vfold qmin vs) = d.
Proof. exact vfold_min_spec. Qed.

Theorem C14_bounds_are_max : forall d j (vs : list (list Q)),
  vs <> [] -> (forall v, In v vs -> length v = d) -> j < d ->
  (forall v, In v vs -> (nth j v 0 <= nth j (vfold qmax vs) 0)%Q) /\
  (exists v, In v vs /\ nth j (vfold qmax vs) 0%Q = nth j v 0%Q) /\ length (vfold qmax vs) = d.
Proof. exact vfold_max_spec. Qed.

(** the unchanged code's clear() keeps the caches ([pclear_stale]); with it the clause fails on every
    non-empty state whose bounds were read: the stale value is returned for an empty archive (finding F6) *)
Theorem C14_bounds_refuted_for_stale_clear : forall (c : pcfg) (h : list (pop P)), 1 <= pcap0 c ->
  let st := prun meas c h in psize st <> 0 ->
  stale_clear_read meas st = Ok (vfold qmin (pmeasures meas st)) /\
  psize (pclear_stale (fst (read_lo meas st))) = 0.
Proof. intros c h Hc st. exact (@bounds_refuted_with_stale_clear P meas st (prun_pinv meas c h Hc)). Qed.

(** objective=None, add_single *)
Theorem C14_objective_none : forall (c : pcfg) (st : pstate P) cs,
  (plc c = false -> padd c st true cs = padd c st false (map (@zero_obj P) cs)) /\
  (plc c = true -> padd c st true cs = (st, Err ValueError)).
Proof. intros c st cs. split; [exact (noobj_zero c st cs)|exact (noobj_lc_rejected c st cs)]. Qed.

Theorem C14_add_single : forall (c : pcfg) (st : pstate P) b x, padd_single c st b x = padd c st b [x].
Proof. exact (@add_single_is_batch_of_one P). Qed.

End C14.

(** * Non-vacuity: concrete reachable states meeting the hypotheses (1-D, payload = position) *)
Definition mz (p : Z) : list Q := [inject_Z p].
Definition pc (o : Q) (p : Z) (d : list Q) (nr : nat) : pcand Z := mkPc o p d nr.
Arguments pc o%Q p%Z d%Q nr%nat.
Definition cfgL : pcfg := mkPcfg 1 1%Q true 1.     (* k = 1, threshold 1, local competition, capacity 1 *)
Definition cfgN : pcfg := mkPcfg 2 1%Q false 1.    (* k = 2, threshold 1, no local competition *)
Definition h0 : list (pop Z) := [PAdd false [pc 1 0 []%Q 0; pc 2 5 []%Q 0; pc 0 9 []%Q 0]].
(* entries at 0, 5, 9 with objectives 1, 2, 0; capacity 1 -> 4 *)
Definition b1 : list (pcand Z) :=
  [pc 3 0 [0; 5; 9]%Q 0;          (* duplicate of entry 0, better: non-novel, competes *)
   pc 3 1 [1; 4; 8]%Q 0;          (* novelty exactly = threshold: admitted *)
   pc 4 0 [0; 5; 9]%Q 0;          (* second competitor for entry 0, even better *)
   pc 4 0 [0; 5; 9]%Q 0;          (* tie with the previous one: the earlier wins *)
   pc 1 5 [5; 0; 4]%Q 1;          (* worse than entry 1: rejected *)
   pc 7 20 [20; 15; 11]%Q 2].     (* far away: admitted; capacity 4 -> 8 *)

Example ex_state : psize (prun mz cfgL h0) = 3 /\ pcap (prun mz cfgL h0) = 4.
Proof. vm_compute. auto. Qed.

Example ex_lc_call :
  let r := padd cfgL (prun mz cfgL h0) false b1 in
  match snd r with
  | Ok out => o_status out = [1; 2; 1; 1; 0; 2]%Z /\ map Qred (o_nov out) = [0; 1; 0; 0; 0; 11]%Q /\
              o_lc out = [(1, 1); (1, 1); (1, 1); (1, 1); (0, 0); (1, 1)] /\
              map Qred (o_val out) = [2; 3; 3; 3; -1; 7]%Q
  | Err _ => False
  end /\
  psize (fst r) = 5 /\ pcap (fst r) = 8 /\
  map (fun o => match o with Some rw => (Qred (r_obj rw), r_pay rw) | None => (0%Q, (-1)%Z) end) (entries (fst r)) =
  [(4%Q, 0%Z); (2%Q, 5%Z); (0%Q, 9%Z); (3%Q, 1%Z); (7%Q, 20%Z)].
Proof. vm_compute. repeat split; reflexivity. Qed.

(** hypotheses of C14_admit_iff / C14_reported_novelty / C14_lc_count are satisfiable: a non-empty
    reachable state, a successful call, a valid selection *)
Example ex_knn : is_knn 1 [1; 4; 8]%Q [0] /\ is_knn 2 [0; 5; 9]%Q [1; 0] /\ ~ is_knn 1 [1; 4; 8]%Q [1].
Proof.
  split; [apply is_knn_b_iff; vm_compute; reflexivity|].
  split; [apply is_knn_b_iff; vm_compute; reflexivity|].
  rewrite <- is_knn_b_iff. vm_compute. discriminate.
Qed.

(** boundary tie: k = 2 over distances [1; 2; 2] with objectives 1, 2, 0 vs candidate objective 2:
    the selection {0,1} counts 1 lower neighbour, {0,2} counts 2: interval (1, 2) *)
Example ex_lc_tie :
  lc_range (prun mz cfgL h0) 2 [1; 2; 2]%Q 2%Q = (1, 2) /\
  is_knn 2 [1; 2; 2]%Q [0; 1] /\ is_knn 2 [1; 2; 2]%Q [0; 2] /\
  countb (lower (prun mz cfgL h0) 2%Q) [0; 1] = 1 /\ countb (lower (prun mz cfgL h0) 2%Q) [0; 2] = 2.
Proof.
  split; [vm_compute; reflexivity|].
  split; [apply is_knn_b_iff; vm_compute; reflexivity|].
  split; [apply is_knn_b_iff; vm_compute; reflexivity|].
  split; vm_compute; reflexivity.
Qed.

(** append-only + three capacity doublings (1 -> 2 -> 4 -> 8) without local competition, then a clear *)
Definition hN : list (pop Z) :=
  [PAdd true [pc 9 0 []%Q 0; pc 9 0 []%Q 0];                 (* empty archive: duplicates both admitted *)
   PLower;
   PAddSingle false (pc 1 4 [4; 4]%Q 0);                   (* mean(4,4) = 4 >= 1 *)
   PAdd false [pc 1 4 [4; 4; 0]%Q 2; pc 1 6 [6; 6; 2]%Q 2;   (* mean(0,4) = 2: admitted; mean(2,6) = 4 *)
               pc 1 8 [8; 8; 4]%Q 2];                      (* judged against the PRE-call archive: mean(4,8) = 6 *)
   PUpper].

Example ex_append :
  let st := prun mz cfgN hN in
  psize st = 6 /\ pcap st = 8 /\ olist (pstore st) = [0; 1; 2; 3; 4; 5] /\
  map (fun o => match o with Some rw => (Qred (r_obj rw), r_pay rw) | None => (0%Q, (-1)%Z) end) (entries st) =
  [(0%Q, 0%Z); (0%Q, 0%Z); (1%Q, 4%Z); (1%Q, 4%Z); (1%Q, 6%Z); (1%Q, 8%Z)] /\
  snd (read_lo mz st) = Ok [0%Q] /\ snd (read_hi mz st) = Ok [inject_Z 8] /\
  snd (read_lo mz (prun mz cfgN (hN ++ [PClear]))) = Err RuntimeError /\
  stale_clear_read mz st = Ok [0%Q].
Proof. vm_compute. repeat split; reflexivity. Qed.

Example ex_no_clear : no_clear (P := Z) (skipn 2 hN).
Proof. intros o Ho. simpl in Ho. destruct Ho as [<-|[<-|[<-|[]]]]; reflexivity. Qed.

Print Assumptions C14_invariant.
Print Assumptions C14_knn_exists.
Print Assumptions C14_knn_sum_unique.
Print Assumptions C14_admit_iff.
Print Assumptions C14_reported_novelty.
Print Assumptions C14_lc_count.
Print Assumptions C14_lc_count_complete.
Print Assumptions C14_append_only_call.
Print Assumptions C14_append_only.
Print Assumptions C14_indices.
Print Assumptions C14_growth_call.
Print Assumptions C14_growth.
Print Assumptions C14_replace_iff.
Print Assumptions C14_replace_feedback.
Print Assumptions C14_bounds.
Print Assumptions C14_bounds_after_clear.
Print Assumptions C14_bounds_are_min.
Print Assumptions C14_bounds_are_max.
Print Assumptions C14_bounds_refuted_for_stale_clear.
Print Assumptions C14_objective_none.
Print Assumptions C14_add_single.
