(** C04 — Scheduler routes every evaluation back to the emitter that asked for it.
    Only statements closed by [exact]; model in Model/Scheduler.v, proofs in Proofs/SchedulerProofs.v.

    Vocabulary (all defined in Proofs/SchedulerProofs.v, a few lines each):
      WF s              one [_num_emitted] counter per emitter (holds in every reachable state: C04_reachable_WF)
      idle l            [_last_called] is neither "ask" nor "ask_dqd"
      legal l c         call [c] is in order after [l]
      plang             prefixes of (ask tell | ask_dqd tell_dqd)*, as an inductive predicate
      expected_told     the arguments an emitter owning rows [start, start+n) must receive:
                        [firstn n (skipn start _)] of every column, of the Jacobian and of the add feedback
      ins_events        the insertion calls of one tell: [AddBatch data] | one [AddSingle (row i)] per row, in order
    [ask_gen false/true] = Scheduler.ask / ask_dqd, [tell_gen false/true] = Scheduler.tell / tell_dqd. *)
From Coq Require Import List Arith Bool Lia.
From PV Require Import Base.ListUtil Base.SliceUtil Model.Store Model.Scheduler Proofs.SchedulerProofs.
Import ListNotations.

Section C04.
Variable V : Type.   (* a row of a field *)
Variable F : Type.   (* a row of the archive's add feedback *)

(** every state reachable from a fresh scheduler (any number of emitters, mode, result archive,
    program) is well formed *)
Theorem C04_reachable_WF : forall n m wr (ops : list (sop V F)),
  WF (fst (sched_run (sched_init n m wr) ops)).
Proof. intros n m wr ops. apply run_WF. apply init_WF. Qed.

(** ask / ask_dqd returns the concatenation, in emitter order, of what each emitter generated
    ([resp i], any lengths, 0 included), records the counts, asks every emitter exactly once and
    touches nothing else *)
Theorem C04_ask_concat : forall dqd (s : sched V F) resp,
  WF s -> idle (last_called s) = true ->
  let n := n_emitters s in
  let sols := concat (map resp (seq 0 n)) in
  exists el,
    ask_gen dqd s resp =
      (mkSched (Some (ask_call dqd)) sols (map (fun i => length (resp i)) (seq 0 n))
               (arch s) (rarch s) (mode s) el,
       Ok (ORows sols)) /\
    length el = n /\
    forall i, i < n -> nth i el [] = nth i (elog s) [] ++ [Asked dqd (resp i)].
Proof. exact (@ask_spec V F). Qed.

(** the pos:end slices partition any array whose length is the total batch size *)
Theorem C04_slices_partition : forall (A : Type) (lens : list nat) (data : list A),
  length data = sum_nat lens ->
  concat (slices lens 0 data) = data /\
  Forall2 (fun s n => length s = n) (slices lens 0 data) lens /\
  forall i, i < length lens ->
    nth i (slices lens 0 data) [] = firstn (nth i lens 0) (skipn (sum_nat (firstn i lens)) data).
Proof.
  intros A lens data H. split; [|split].
  - exact (slices_concat lens 0 data (eq_sym H)).
  - apply slices_lengths. simpl. lia.
  - intros i Hi. exact (slices_nth lens 0 data Hi).
Qed.

(** a well-formed tell / tell_dqd in order: every row goes into the archive (and the result
    archive) exactly once and in order, then emitter [i] is handed the slice
    [Σ_{j<i} n_j, Σ_{j<i} n_j + n_i) of EVERY column (solution included), of the Jacobian and of the
    add feedback; [None] columns (objective=None) stay [None]; nothing else changes *)
Theorem C04_tell_routes : forall dqd (s : sched V F) a,
  WF s ->
  last_is (last_called s) (ask_call dqd) = true ->
  lens_ok (length (cur s)) (ta_data a) && jac_ok dqd (length (cur s)) a = true ->
  ta_fail a = None ->
  let n := length (cur s) in
  let data := ta_data a ++ [Some (cur s)] in
  let jac := if dqd then Some (ta_jac a) else None in
  let info := map (ta_fb a) (seq 0 n) in
  exists el,
    tell_gen dqd s a =
      (mkSched (Some (tell_call dqd)) (cur s) (num_emitted s)
               (arch s ++ ins_events (mode s) n data)
               (option_map (fun l => l ++ ins_events (mode s) n data) (rarch s)) (mode s) el,
       Ok ONone) /\
    length el = n_emitters s /\
    forall i, i < n_emitters s ->
      nth i el [] = nth i (elog s) [] ++
        [Told dqd (expected_told (sum_nat (firstn i (num_emitted s))) (nth i (num_emitted s) 0)
                                 data jac info)].
Proof. exact (@tell_ok_spec V F). Qed.

(** ask followed by its tell: each emitter gets back exactly the solutions it generated together
    with the rows of every field, of the Jacobian and of the add feedback at the same positions *)
Theorem C04_ask_tell_roundtrip : forall dqd (s : sched V F) resp a,
  WF s -> idle (last_called s) = true ->
  let n := n_emitters s in
  let total := length (concat (map resp (seq 0 n))) in
  lens_ok total (ta_data a) && jac_ok dqd total a = true -> ta_fail a = None ->
  let s1 := fst (ask_gen dqd s resp) in
  let s2 := fst (tell_gen dqd s1 a) in
  snd (tell_gen dqd s1 a) = Ok ONone /\
  forall i, i < n ->
    let off := sum_nat (map (fun j => length (resp j)) (seq 0 i)) in
    let m := length (resp i) in
    exists t,
      nth i (elog s2) [] = nth i (elog s) [] ++ [Asked dqd (resp i); Told dqd t] /\
      last (t_data t) None = Some (resp i) /\
      (forall c col, nth_error (ta_data a) c = Some (Some col) ->
                     nth_error (t_data t) c = Some (Some (firstn m (skipn off col)))) /\
      (forall c, nth_error (ta_data a) c = Some None -> nth_error (t_data t) c = Some None) /\
      t_jac t = (if dqd then Some (firstn m (skipn off (ta_jac a))) else None) /\
      t_info t = map (ta_fb a) (seq off m).
Proof. exact (@ask_tell_roundtrip V F). Qed.

(** inserted exactly once and in order.  batch: ONE add with exactly the columns handed to tell plus
    the solutions returned by ask; single: ONE add_single per row, row [i] of every column in the
    [i]-th call (see C04_tell_routes for where [ins_events] lands in both archives) *)
Theorem C04_inserted_once_batch : forall n (data : list (column V)),
  ins_events Batch n data = [AddBatch data].
Proof. reflexivity. Qed.

Theorem C04_inserted_once_single : forall n (data : list (column V)),
  ins_events Single n data = map (fun i => AddSingle (row_at i data)) (seq 0 n) /\
  forall c l, nth_error data c = Some (Some l) -> length l = n ->
    map (fun i => nth c (row_at i data) None) (seq 0 n) = map Some l.
Proof. intros n data. split; [reflexivity|]. intros c l. exact (@row_at_column V data c l n). Qed.

(** a tell with a wrong-length argument: ValueError, only [_last_called] has changed *)
Theorem C04_tell_wrong_length : forall dqd (s : sched V F) a,
  last_is (last_called s) (ask_call dqd) = true ->
  lens_ok (length (cur s)) (ta_data a) && jac_ok dqd (length (cur s)) a = false ->
  tell_gen dqd s a =
  (mkSched (Some (tell_call dqd)) (cur s) (num_emitted s) (arch s) (rarch s) (mode s) (elog s),
   Err ValueError).
Proof. exact (@tell_gen_badlen V F). Qed.

(** the archive rejects the batch (batch mode: nothing inserted) or row k (single mode: rows
    0..k-1 were inserted into both archives); no emitter is told *)
Theorem C04_tell_rejected_by_archive : forall dqd (s : sched V F) a k,
  last_is (last_called s) (ask_call dqd) = true ->
  lens_ok (length (cur s)) (ta_data a) && jac_ok dqd (length (cur s)) a = true ->
  ta_fail a = Some k -> k < length (cur s) ->
  let data := ta_data a ++ [Some (cur s)] in
  let ins := match mode s with Batch => [] | Single => ins_events Single k data end in
  tell_gen dqd s a =
  (mkSched (Some (tell_call dqd)) (cur s) (num_emitted s) (arch s ++ ins)
           (option_map (fun l => l ++ ins) (rarch s)) (mode s) (elog s),
   Err ValueError).
Proof. exact (@tell_rejected_spec V F). Qed.

(** protocol, one call: a call raises RuntimeError iff it is out of order, and then the WHOLE
    state (archives, emitters, counters, phase) is unchanged; a call in order never raises
    RuntimeError and becomes the new [_last_called] (even when it ends in a ValueError) *)
Theorem C04_protocol_step : forall (s : sched V F) (o : sop V F),
  (snd (sched_step s o) = Err RuntimeError <-> legal (last_called s) (kind_of o) = false) /\
  (snd (sched_step s o) = Err RuntimeError -> sched_step s o = (s, Err RuntimeError)) /\
  (legal (last_called s) (kind_of o) = true ->
     last_called (fst (sched_step s o)) = Some (kind_of o)).
Proof.
  intros s o. split; [exact (runtime_error_iff_illegal s o)|].
  split; [exact (@runtime_error_unchanged V F s o)|]. intros H. exact (proj1 (step_legal s o H)).
Qed.

(** protocol, every program: from an idle state (in particular a fresh scheduler) a call sequence
    runs without RuntimeError iff it is a prefix of (ask tell | ask_dqd tell_dqd)* *)
Theorem C04_protocol_language : forall (s : sched V F) (ops : list (sop V F)),
  idle (last_called s) = true ->
  (Forall (fun r => r <> Err RuntimeError) (snd (sched_run s ops)) <-> plang (map (@kind_of V F) ops)).
Proof. exact (@protocol_language V F). Qed.

(** C04_modes_agree — "for elitist archives add_mode single and batch leave identical contents":
    by C04_tell_routes both modes present the same rows in the same order ([ins_events]); that an
    elitist archive ends up with the same contents either way is the archive's batching invariance,
    delegated to C01_batching_invariance (archive model).  The harness checks the clause
    differentially on real GridArchives in both modes on every run. *)
End C04.

(** non-vacuity: concrete programs meeting the hypotheses of the implications above *)
Definition ex_resp (i : nat) : list nat := match i with 0 => [10; 11] | 1 => [] | _ => [12] end.
Definition ex_args : tell_args nat nat :=
  mkTellArgs [None; Some [110; 111; 112]] [210; 211; 212] (fun k => 1000 + k) None.

Example C04_nonvacuous_roundtrip :
  let s0 := sched_init (V := nat) (F := nat) 3 Single true in
  WF s0 /\ idle (last_called s0) = true /\
  lens_ok 3 (ta_data ex_args) && jac_ok true 3 ex_args = true /\
  let '(s2, outs) := sched_run s0 [OpAskDqd ex_resp; OpTellDqd ex_args] in
  outs = [Ok (ORows [10; 11; 12]); Ok ONone] /\
  nth 2 (elog s2) [] =
    [Asked true [12];
     Told true (mkTold [None; Some [112]; Some [12]] (Some [212]) [1002])] /\
  nth 1 (elog s2) [] = [Asked true []; Told true (mkTold [None; Some []; Some []] (Some []) [])] /\
  arch s2 = [AddSingle [None; Some 110; Some 10]; AddSingle [None; Some 111; Some 11];
             AddSingle [None; Some 112; Some 12]] /\
  rarch s2 = Some (arch s2).
Proof. vm_compute. repeat split; reflexivity. Qed.

Example C04_nonvacuous_protocol :
  let s0 := sched_init (V := nat) (F := nat) 3 Batch false in
  let ops := [OpTell ex_args; OpAsk ex_resp; OpAskDqd ex_resp; OpTellDqd ex_args; OpTell ex_args; OpTell ex_args] in
  map (fun r => match r with Err e => Some e | Ok _ => None end) (snd (sched_run s0 ops)) =
    [Some RuntimeError; None; Some RuntimeError; Some RuntimeError; None; Some RuntimeError] /\
  plang [CAsk; CTell; CAskDqd] /\ ~ plang [CAsk; CAskDqd].
Proof.
  split; [vm_compute; reflexivity|]. split; [repeat constructor|]. intros H. inversion H.
Qed.

Example C04_nonvacuous_rejections :
  let s0 := sched_init (V := nat) (F := nat) 3 Single true in
  let s1 := fst (sched_step s0 (OpAsk ex_resp)) in
  let bad := mkTellArgs [None; Some [110; 111]] [] (fun k => 1000 + k) None in
  let rej := mkTellArgs [None; Some [110; 111; 112]] [] (fun k => 1000 + k) (Some 2) in
  last_is (last_called s1) CAsk = true /\
  lens_ok 3 (ta_data bad) = false /\ snd (sched_step s1 (OpTell bad)) = Err ValueError /\
  lens_ok 3 (ta_data rej) = true /\ snd (sched_step s1 (OpTell rej)) = Err ValueError /\
  length (arch (fst (sched_step s1 (OpTell rej)))) = 2.
Proof. vm_compute. repeat split; reflexivity. Qed.

Print Assumptions C04_reachable_WF.
Print Assumptions C04_ask_concat.
Print Assumptions C04_slices_partition.
Print Assumptions C04_tell_routes.
Print Assumptions C04_ask_tell_roundtrip.
Print Assumptions C04_inserted_once_batch.
Print Assumptions C04_inserted_once_single.
Print Assumptions C04_tell_wrong_length.
Print Assumptions C04_tell_rejected_by_archive.
Print Assumptions C04_protocol_step.
Print Assumptions C04_protocol_language.
