(** C01 — Elitist archives keep, per cell, the best candidate ever routed there.
    Model: Model/Archive.v (ArchiveBase.add / add_single / clear over the ArrayStore model, following
    _transforms.py).  Spec: a cell's content is the first arg-max of the candidates routed to it since
    the last clear, in submission order.  Proofs: Proofs/C01Proofs.v. *)
From Coq Require Import List Arith Bool ZArith QArith Qreduction.
From PV Require Import Base.ListUtil Base.QUtil Base.FirstArgmax Model.Store Model.Archive
     Proofs.ArchiveProofs Proofs.C01Proofs.
Import ListNotations.
Local Open Scope nat_scope.

Section C01.
Variable P : Type.   (* payload: solution, measures and every extra field of ONE candidate *)

(** Main refinement: for every elitist configuration, every history of add / add_single / clear
    (any batch sizes, 0 and 1 included) and every cell, the stored row is built from ONE candidate —
    objective, threshold (= objective) and the whole payload — namely the first arg-max of what was
    routed to that cell since the last clear. *)
Theorem C01_contents : forall (c : cfg) (h : list (aop P)) (i : nat),
  elitist c -> wf_hist c h ->
  content (arun c h) i = option_map (@elite_of P) (first_argmax c_obj (routed h i)).
Proof. exact (@contents_spec P). Qed.

(** what "first arg-max" means: highest objective, earliest submitted among equals *)
Theorem C01_winner_is_earliest_best : forall (l : list (cand P)) (w : cand P),
  first_argmax c_obj l = Some w ->
  exists l1 l2, l = l1 ++ w :: l2 /\
    (forall x, In x l1 -> (c_obj x < c_obj w)%Q) /\ (forall x, In x l2 -> (c_obj x <= c_obj w)%Q).
Proof. exact (@first_argmax_first (cand P) c_obj). Qed.

Theorem C01_occupied_iff_routed : forall (c : cfg) (h : list (aop P)) (i : nat),
  elitist c -> wf_hist c h -> (content (arun c h) i <> None <-> routed h i <> []).
Proof. exact (@occupied_iff_routed P). Qed.

(** per-cell objectives never decrease and occupied cells never empty, except by clear *)
Theorem C01_objective_monotone : forall (c : cfg) (h : list (aop P)) (o : aop P) (i : nat) r,
  elitist c -> wf_hist c (h ++ [o]) -> o <> Clear ->
  content (arun c h) i = Some r ->
  exists r', content (arun c (h ++ [o])) i = Some r' /\ (r_obj r <= r_obj r')%Q.
Proof. exact (@objective_monotone P). Qed.

(** splitting, merging or single-stepping batches does not change the contents *)
Theorem C01_batching_invariance : forall (c : cfg) (h1 h2 : list (aop P)) (i : nat),
  elitist c -> wf_hist c h1 -> wf_hist c h2 ->
  submitted h1 = submitted h2 -> content (arun c h1) i = content (arun c h2) i.
Proof. exact (@batching_invariance P). Qed.

Theorem C01_len : forall (c : cfg) (h : list (aop P)),
  elitist c -> wf_hist c h ->
  len (a_store (arun c h)) = length (sort_uniq (map c_cell (submitted h))).
Proof. exact (@len_spec P). Qed.
End C01.

(** non-vacuity: an elitist configuration and a history with collisions, an exact tie, a clear *)
Definition ex_cfg : cfg := mkCfg 4 None 1 0.
Definition ex_hist : list (aop Z) :=
  [Add [mkCand 1 (3#2) 10%Z; mkCand 1 (5#2) 11%Z; mkCand 2 1 12%Z]; Clear;
   AddSingle (mkCand 1 (5#2) 13%Z); Add [mkCand 1 (5#2) 14%Z; mkCand 1 2 15%Z; mkCand 3 (-1) 16%Z]].
Example C01_nonvacuous :
  elitist ex_cfg /\ wf_hist ex_cfg ex_hist /\
  option_map (@r_pay Z) (content (arun ex_cfg ex_hist) 1) = Some 13%Z /\
  content (arun ex_cfg ex_hist) 2 = None /\
  len (a_store (arun ex_cfg ex_hist)) = 2.
Proof.
  split; [split; [reflexivity|reflexivity]|].
  split.
  - intros o Ho. simpl in Ho.
    repeat (destruct Ho as [<-|Ho]; [simpl; try exact I; try (vm_compute; auto);
             try (intros x Hx; simpl in Hx; repeat (destruct Hx as [<-|Hx]; [vm_compute; auto|]); destruct Hx)|]).
    destruct Ho.
  - vm_compute. auto.
Qed.

Print Assumptions C01_contents.
Print Assumptions C01_winner_is_earliest_best.
Print Assumptions C01_occupied_iff_routed.
Print Assumptions C01_objective_monotone.
Print Assumptions C01_batching_invariance.
Print Assumptions C01_len.
