(** C12 -- no aliasing: caller arrays are never mutated or retained, outputs are copies; all read paths present the
    same elites in the same order.
    Model: Model/Alias.v (alias calculus + one straight-line program per public entry point and code path) and
    Model/Store.v (read paths).  Proofs: Proofs/AliasSound.v, Proofs/AliasEnumA..D.v, Proofs/AliasProofs.v, Proofs/AliasOut.v.
    Only statements closed by [exact] (or two lines of glue), non-vacuity Examples, Print Assumptions. *)
From Coq Require Import List Arith Bool ZArith Lia.
From PV Require Import Base.ListUtil Model.Store Proofs.StoreProofs Model.Alias Proofs.AliasSound Proofs.AliasProofs Proofs.AliasEnumA Proofs.AliasOut.
Import ListNotations.

(** * The calculus: concrete effects are included in the abstract effects, for EVERY program, EVERY concrete state
    (heap contents universally quantified), EVERY meaning [f] of the content operations and every mutation log [m]:
    the erasure of the concrete final state IS the abstract final state (same local variables, same fields reachable
    from self, same returned and exposed values, same halt flag), and every buffer that existed before the run and is
    not in the abstract mutation set holds bitwise what it held. *)
Theorem alias_sound : forall (f : nat -> list Z -> Z) (p : list instr) (s : cstate) (m : list nat),
  let a := arun p (erase m s) in
  let s' := crun f p s in
  erase (a_mut a) s' = a /\
  incl m (a_mut a) /\
  length (c_heap s) <= length (c_heap s') /\
  (forall b, b < length (c_heap s) -> ~ In b (a_mut a) -> nth b (c_heap s') 0%Z = nth b (c_heap s) 0%Z).
Proof. exact AliasSound.alias_sound. Qed.

(** * The entry points.  Quantified: the meaning [f] of the content operations, the entry point, its arity (with /
    without extra field), the code path variant, the layout class of every argument, the whole heap [h] (store
    buffers 0..6, the object's other buffers 7..14, the caller's arrays 15.., contents arbitrary). *)

(** the call completes and every caller array is bitwise what it was *)
Theorem C12_caller_arrays_not_mutated :
  forall (f : nat -> list Z -> Z) (e : ep) (n v : nat) (la : list layout) (h : list Z),
  In n (arities e) -> v < n_variants e -> length la = n -> length h = n_internal + n ->
  c_halt (crun f (prog e v n) (c_init la h)) = false /\
  forall i, i < n ->
    nth (caller_buf i) (c_heap (crun f (prog e v n) (c_init la h))) 0%Z = nth (caller_buf i) h 0%Z.
Proof. exact ep_not_mutated. Qed.

(** no caller array is kept: nothing reachable from self after the call lives in a caller buffer, so a caller-side
    write at any later time (any later heap h', any new contents z) changes nothing observable through self *)
Theorem C12_caller_arrays_not_retained :
  forall (f : nat -> list Z -> Z) (e : ep) (n v : nat) (la : list layout) (h : list Z),
  In n (arities e) -> v < n_variants e -> length la = n -> length h = n_internal + n ->
  forall i, i < n ->
    ~ In (caller_buf i) (bufs (c_self (crun f (prog e v n) (c_init la h)))) /\
    forall h' z, observe (c_self (crun f (prog e v n) (c_init la h))) (upd h' (caller_buf i) z)
                 = observe (c_self (crun f (prog e v n) (c_init la h))) h'.
Proof. exact ep_not_retained. Qed.

(** everything handed out is a copy or read-only: writing through ANY returned value changes no store buffer and no
    caller buffer; the store's fields (solution objective measures threshold extra occupied occupied_list) still are
    the store's own buffers, so what the store shows is unchanged *)
Theorem C12_outputs_are_copies_or_readonly :
  forall (f : nat -> list Z -> Z) (e : ep) (n v : nat) (la : list layout) (h : list Z),
  In n (arities e) -> v < n_variants e -> length la = n -> length h = n_internal + n ->
  forall r, In r (c_ret (crun f (prog e v n) (c_init la h))) ->
    (forall h' z b, is_store_buf b || is_caller_buf n b = true -> nth b (write_through r z h') 0%Z = nth b h' 0%Z) /\
    (forall h' z fl, fl < n_store ->
        exists x, lookup (c_self (crun f (prog e v n) (c_init la h))) fl = Some x /\
                  content (write_through r z h') x = content h' x).
Proof. exact ep_outputs_copies. Qed.

(** ... at full strength for what stores and archives (and the visualisation functions) hand out -- add feedback,
    retrieve, data, iteration entries, sample_elites, best_elite, index_of, scores: a writable returned value lives in
    NO buffer reachable from self (store buffers, the cached best-elite record, centroids, boundaries, the sliding
    buffer, ...), so a write through it, on any later heap, changes nothing observable through self.  [out_eps] = the
    32 store / archive / operator-constructor entry points + the 2 visualisation ones; the emitters' ask results are
    not in the property's list (see Proofs/AliasOut.v). *)
Theorem C12_outputs_detached_from_self :
  forall (f : nat -> list Z -> Z) (e : ep) (n v : nat) (la : list layout) (h : list Z),
  In e out_eps -> In n (arities e) -> v < n_variants e -> length la = n -> length h = n_internal + n ->
  forall r, In r (c_ret (crun f (prog e v n) (c_init la h))) ->
    (vw r = false \/ ~ In (vbuf r) (bufs (c_self (crun f (prog e v n) (c_init la h))))) /\
    forall h' z, observe (c_self (crun f (prog e v n) (c_init la h))) (write_through r z h')
                 = observe (c_self (crun f (prog e v n) (c_init la h))) h'.
Proof. exact ep_outputs_detached. Qed.

(** * Read paths (Model/Store.v): every way of reading presents [map (elite_of s) (olist s)] -- the same elites in the
    same order (occupied_list order) with the fields of one and the same stored row.
    [fields] are the field names, [proj fl r] the value of field fl in row r, [dim fl] its declared length. *)
Theorem C12_read_paths_agree :
  forall (R V : Type) (dflt : V) (fields : list nat) (dim : nat -> nat) (proj : nat -> R -> list V) (rdflt : R),
  NoDup fields -> (forall fl r, length (proj fl r) = dim fl) ->
  forall s : store R,
  let spec := elites_spec fields proj rdflt s in
  let df := read_pandas dflt fields dim proj rdflt s in
  elites_of_dict (read_dict fields proj rdflt s) = spec /\
  elites_of_tuple fields (read_tuple fields proj rdflt s) = spec /\
  transpose_rows (olist s) (map (fun fl => (fl, read_single proj rdflt s fl)) fields) = spec /\
  read_iter fields proj rdflt s = spec /\
  snd df = olist s /\
  (forall fl, In fl fields -> df_get_field dflt df fl = column proj rdflt s fl) /\
  transpose_rows (snd df) (map (fun fl => (fl, df_get_field dflt df fl)) fields) = spec /\
  df_iterelites dflt fields df = spec.
Proof. exact read_paths_agree. Qed.

(** the scalar columns name_0 .. name_{d-1} of the data frame are the components of that field, in olist order *)
Theorem C12_pandas_columns :
  forall (R V : Type) (dflt : V) (fields : list nat) (dim : nat -> nat) (proj : nat -> R -> list V) (rdflt : R)
         (s : store R) fl j, In fl fields -> j < dim fl ->
  In ((fl, j), map (fun i => nth j (proj fl (row_at rdflt s i)) dflt) (olist s))
     (fst (read_pandas dflt fields dim proj rdflt s)).
Proof. exact pandas_column_agrees. Qed.

(** the elites shown are the store's data(), and on every reachable store they are rows that were written *)
Theorem C12_elites_are_the_stored_rows :
  forall (R V : Type) (fields : list nat) (proj : nat -> R -> list V) (rdflt : R) (c : nat) (ops : list (op R)) i,
  let s := run c ops in
  In i (olist s) ->
  exists r, get_row s i = Some r /\ elite_of fields proj rdflt s i = (i, map (fun fl => (fl, proj fl r)) fields).
Proof. exact elites_are_written_rows. Qed.

(* ---------------------------------------------------------------------------------------------- *)
(** * Non-vacuity and sanity Examples *)

(** the enumeration is not empty: entry points, arities, variants and layout vectors exist (5^4 vectors for add) *)
Example C12_domain_nonempty :
  length all_eps = 49 /\ In 4 (arities ArchiveAdd) /\ 1 < n_variants ArchiveAdd /\ length (layout_vectors 4) = 625.
Proof. vm_compute. repeat split; auto. Qed.

(** a concrete run: ArchiveAdd with an exact-dtype ndarray, a view, a non-contiguous array and a python list really
    writes store buffers (the program is not the empty program) and hands out two fresh arrays *)
Example C12_archive_add_effects :
  let a := arun (prog ArchiveAdd 0 4) (a_init [ExactNdarray; ViewOf; NonContiguous; PyList]) in
  a_halt a = false /\ memb 0 (a_mut a) = true /\ memb 1 (a_mut a) = true /\ memb 5 (a_mut a) = true /\
  length (a_ret a) = 2 /\ clean 4 a = true.
Proof. vm_compute. repeat split. Qed.

(** the concrete semantics on a concrete heap: buffers 0..14 hold 100.., the caller's four arrays 1000..; after
    add() the store's solution buffer changed, the caller's arrays did not *)
Example C12_concrete_run :
  let h := map Z.of_nat (seq 100 15 ++ seq 1000 4) in
  let s := crun (fun op args => (Z.of_nat op + fold_right Z.add 0 args)%Z) (prog ArchiveAdd 0 4)
                (c_init [ExactNdarray; ExactNdarray; ExactNdarray; ExactNdarray] h) in
  c_halt s = false /\ nth 0 (c_heap s) 0%Z <> nth 0 h 0%Z /\
  map (fun i => nth (caller_buf i) (c_heap s) 0%Z) [0; 1; 2; 3] = [1000; 1001; 1002; 1003]%Z.
Proof. vm_compute. repeat split. discriminate. Qed.

(** the abstract interpretation is not blind: on the programs of the UNCHANGED code (prog_asis) it reports exactly the
    defects the harness finds on the real pyribs *)
Example C12_refuted_asis_F3_dqd_jacobian :          (* tell_dqd: jacobian /= norms in place, array kept *)
  let a := asis_effects GAETellDqd 1 6 [ExactNdarray; ExactNdarray; ExactNdarray; ExactNdarray; ExactNdarray; ExactNdarray] in
  arg_mutated a 3 = true /\ arg_retained a 3 = true /\ clean 6 a = false.
Proof. vm_compute. repeat split. Qed.

Example C12_refuted_asis_F4_sliding_buffer :        (* the buffer keeps the caller's arrays *)
  let a := asis_effects SlidingAddSingle 0 3 [ExactNdarray; ExactNdarray; ExactNdarray] in
  arg_retained a 0 = true /\ arg_retained a 2 = true /\ arg_mutated a 0 = false /\ clean 3 a = false.
Proof. vm_compute. repeat split. Qed.

Example C12_refuted_asis_F5_iteration_views :       (* iteration hands out writable views of store buffers *)
  rw_store (asis_effects ArchiveIter 0 0 []) = true /\ rw_store (arun (prog ArchiveIter 0 0) (a_init [])) = false.
Proof. vm_compute. repeat split. Qed.

Example C12_refuted_asis_F15_ctor_args :            (* np.asarray(custom_centroids, dtype) kept when already of that dtype *)
  arg_retained (asis_effects CVTCtorCentroids 0 1 [ExactNdarray]) 0 = true /\
  arg_retained (asis_effects CVTCtorCentroids 0 1 [OtherDtype]) 0 = false /\
  arg_retained (asis_effects GaussianCtor 1 3 [PyList; NonContiguous; PyList]) 1 = true.
Proof. vm_compute. repeat split. Qed.

Example C12_refuted_asis_FC12d_best_elite :         (* best_elite handed out the archive's own cached record *)
  In BestElite out_eps /\
  rw_self (asis_effects BestElite 0 0 []) = true /\ no_rw_self (asis_effects BestElite 0 0 []) = false /\
  length (a_ret (arun (prog BestElite 0 0) (a_init []))) = 1 /\ no_rw_self (arun (prog BestElite 0 0) (a_init [])) = true.
Proof. vm_compute. repeat split. auto 20. Qed.

(** read paths on a concrete store: capacity 4, writes to cells 2, 0, 2 (overwrite), rows are ids; three fields *)
Example C12_read_paths_nonvacuous :
  let proj := fun (fl : nat) (r : nat) => match fl with 0 => [r; r + 1] | _ => [10 * r] end in
  let dim := fun fl : nat => match fl with 0 => 2 | _ => 1 end in
  let s := run 4 [OpAdd [2] [7] [] true; OpAdd [0; 2] [8; 9] [] true] in
  NoDup [0; 1] /\ (forall fl r, length (proj fl r) = dim fl) /\
  elites_spec [0; 1] proj 0 s = [(2, [(0, [9; 10]); (1, [90])]); (0, [(0, [8; 9]); (1, [80])])] /\
  read_iter [0; 1] proj 0 s = elites_spec [0; 1] proj 0 s /\
  df_iterelites 0 [0; 1] (read_pandas 0 [0; 1] dim proj 0 s) = elites_spec [0; 1] proj 0 s.
Proof.
  cbv zeta. split; [repeat constructor; simpl; intuition discriminate|].
  split; [intros [|fl] r; reflexivity|]. vm_compute. repeat split.
Qed.

Print Assumptions alias_sound.
Print Assumptions C12_caller_arrays_not_mutated.
Print Assumptions C12_caller_arrays_not_retained.
Print Assumptions C12_outputs_are_copies_or_readonly.
Print Assumptions C12_outputs_detached_from_self.
Print Assumptions C12_read_paths_agree.
Print Assumptions C12_pandas_columns.
Print Assumptions C12_elites_are_the_stored_rows.
