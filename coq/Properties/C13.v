(** C13 — ArrayStore occupancy bookkeeping stays exact under add, clear and resize.
    Only statements closed by [exact]; model in Model/Store.v, proofs in Proofs/StoreProofs.v. *)
From Coq Require Import List Arith Bool Lia.
From PV Require Import Base.ListUtil Model.Store Proofs.StoreProofs.
Import ListNotations.

Section C13.
Variable R : Type.

(** every reachable state (any capacity incl. 0/1, any history, any transform chain) satisfies the
    bookkeeping invariant: array lengths = capacity, occupied_list duplicate-free and listing exactly
    the occupied indices, occupied indices were written. *)
Theorem C13_inv : forall (c : nat) (ops : list (op R)), Inv (run c ops).
Proof. exact (@run_inv R). Qed.

Theorem C13_len_counts_occupied : forall (s : store R), Inv s -> len s = count_true (occ s).
Proof. exact (@len_count R). Qed.

Theorem C13_len_le_capacity : forall (s : store R), Inv s -> len s <= cap s.
Proof. exact (@len_le_cap R). Qed.

(** occupied_list is append-only between clears: indices first filled by this call come after all
    earlier ones, in ascending order, each once. *)
Theorem C13_olist_append : forall (s : store R) idxs xs k,
  add_ok s idxs xs k ->
  olist (fst (add_raw s idxs xs k)) = olist s ++ new_indices s idxs /\
  strict_sorted (new_indices s idxs) /\
  (forall i, In i (new_indices s idxs) <-> In i idxs /\ get_occ s i = false).
Proof.
  intros s idxs xs k H. split; [exact (add_raw_olist H)|].
  split; [exact (new_indices_sorted s idxs) | exact (new_indices_In s idxs)].
Qed.

(** read-your-writes with last-wins for repeated indices; unnamed indices untouched *)
Theorem C13_read_your_writes : forall (s : store R) idxs xs k i,
  Inv s -> add_ok s idxs xs k ->
  get_occ (fst (add_raw s idxs xs k)) i = (get_occ s i || memb i idxs)%bool /\
  get_row (fst (add_raw s idxs xs k)) i =
    match last_write i idxs xs with Some x => Some x | None => get_row s i end.
Proof. intros s idxs xs k i HI H. split; [exact (add_raw_occ i HI H) | exact (add_raw_row i HI H)]. Qed.

Theorem C13_rejected_add_unchanged : forall (s : store R) idxs xs ts k e,
  snd (add s idxs xs ts k) = Err e -> fst (add s idxs xs ts k) = bump_add s.
Proof. exact (@add_err_unchanged R). Qed.

Theorem C13_clear : forall (s : store R), len (clear s) = 0 /\ forall i, get_occ (clear s) i = false.
Proof. exact (@clear_empty R). Qed.

Theorem C13_resize_preserves : forall (s : store R) c, cap s < c ->
  let s' := fst (resize s c) in
  cap s' = c /\ olist s' = olist s /\ nadd s' = nadd s /\ nclear s' = nclear s /\
  (forall i, get_occ s' i = get_occ s i) /\ (forall i, get_row s' i = get_row s i).
Proof. exact (@resize_preserves R). Qed.

Theorem C13_resize_rejects : forall (s : store R) c, c <= cap s -> resize s c = (s, Err ValueError).
Proof. exact (@resize_err R). Qed.

Theorem C13_raw_roundtrip : forall (s : store R), from_raw (as_raw s) = s.
Proof. exact (@raw_roundtrip R). Qed.

Theorem C13_iter_modified_iff : forall (s : store R) (it : iter),
  snd (iter_next s it) = Modified R <-> (it_add it <> nadd s \/ it_clear it <> nclear s).
Proof. exact (@iter_modified_iff R). Qed.

(** an iterator created at [s] raises as soon as any add (even a rejected or empty one) or clear ran,
    whatever else happened, and checked before exhaustion *)
Theorem C13_iter_detects : forall (s : store R) ops,
  existsb (@is_mod R) ops = true ->
  forall pos, snd (iter_next (fold_left (@step R) ops s) (mkIter pos (nadd s) (nclear s))) = Modified R.
Proof. exact (@iter_detects_modification R). Qed.

Theorem C13_iter_yields : forall (s : store R) (it : iter),
  it_add it = nadd s -> it_clear it = nclear s -> it_pos it < len s ->
  iter_next s it = (mkIter (S (it_pos it)) (it_add it) (it_clear it),
                    Yield (nth (it_pos it) (olist s) 0) (get_row s (nth (it_pos it) (olist s) 0))).
Proof. exact (@iter_yields_olist R). Qed.
End C13.

(** non-vacuity: a concrete history reaches a non-trivial state on which the hypotheses hold *)
Example C13_nonvacuous :
  let s := run 4 [OpAdd [2;0;2] [10;11;12] [] true; OpResize 6; OpAdd [5;0] [13;14] [] true] in
  olist s = [0;2;5] /\ get_row s 2 = Some 12 /\ get_row s 0 = Some 14 /\ len s = 3 /\ cap s = 6
  /\ add_ok (run 4 []) [2;0;2] [10;11;12] true.
Proof. vm_compute. repeat split; congruence. Qed.

Print Assumptions C13_inv.
Print Assumptions C13_len_counts_occupied.
Print Assumptions C13_len_le_capacity.
Print Assumptions C13_olist_append.
Print Assumptions C13_read_your_writes.
Print Assumptions C13_rejected_add_unchanged.
Print Assumptions C13_clear.
Print Assumptions C13_resize_preserves.
Print Assumptions C13_resize_rejects.
Print Assumptions C13_raw_roundtrip.
Print Assumptions C13_iter_modified_iff.
Print Assumptions C13_iter_detects.
Print Assumptions C13_iter_yields.
