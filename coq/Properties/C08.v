(** C08 — emitters emit finite, in-bounds, correctly shaped and typed solutions.
    Only statements closed by [exact] (or a 2-3 line glue); model in Model/Emit.v, proofs in
    Proofs/EmitProofs.v.  Numbers are exact rationals, so "finite" holds by construction in the
    model; floating-point overflow/NaN freedom of the numeric kernels and the pycma wrapper are
    observed by the harness only (level: partial).

    Quantification: [ask_call] ranges over every clipping ask path (GaussianEmitter, IsoLineEmitter,
    GeneticAlgorithmEmitter with either operator, GradientOperatorEmitter.ask_dqd / ask) with ANY
    configuration, archive content (= list of current elites, possibly empty), random integers and
    normal draws; the history of the emitter/archive enters only through those arguments. *)
From Coq Require Import List ZArith QArith Bool Arith Lia.
From PV Require Import Base.ListUtil Model.Store Model.Emit Proofs.EmitProofs.
Import ListNotations.
Open Scope Q_scope.

(** ** bounds parsing: None |-> -inf/+inf, per dimension, one-sided *)
Theorem C08_process_bounds : forall bounds dim lo hi,
  process_bounds bounds dim = Ok (lo, hi) ->
  length lo = dim /\ length hi = dim /\
  match bounds with
  | None => forall j, nth j lo None = None /\ nth j hi None = None
  | Some bs => length bs = dim /\
               forall j, (j < dim)%nat -> entry_spec (nth j bs None) (nth j lo None) (nth j hi None)
  end.
Proof. exact process_bounds_spec. Qed.

Theorem C08_process_bounds_rejects : forall bounds dim e,
  process_bounds bounds dim = Err e ->
  e = ValueError /\ exists bs, bounds = Some bs /\
    (length bs <> dim \/ exists j l, nth_error bs j = Some (Some l) /\ length l <> 2%nat).
Proof. exact process_bounds_err. Qed.

(** ** clip *)
Theorem C08_clip_in_bounds : forall x l h, l <= h -> l <= clip x (Some l) (Some h) <= h.
Proof. exact clip_in_bounds_finite. Qed.

Theorem C08_clip_in_bounds_matrix : forall m lo hi,
  bounds_ok lo hi -> Forall (row_in_bounds lo hi) (clip_matrix m lo hi).
Proof. exact clip_matrix_in_bounds. Qed.

(** ** every coordinate of every clipping emitter's output is inside the emitter's bounds *)
Theorem C08_in_bounds : forall (a : ask_call) out,
  bounds_ok (e_lo (call_cfg a)) (e_hi (call_cfg a)) -> run_ask a = Ok out ->
  Forall (row_in_bounds (e_lo (call_cfg a)) (e_hi (call_cfg a))) out.
Proof. exact run_ask_in_bounds. Qed.

(** ** shape: (batch_size, solution_dim) -- or the clipped initial_solutions while the archive is
    empty (ask_dqd of GradientOperatorEmitter documents "no solutions" in that case) *)
Theorem C08_shape : forall (a : ask_call) out,
  call_wf a -> run_ask a = Ok out ->
  match call_elites a, e_init (call_cfg a) with
  | [], Some ini =>
      out = if is_ask_dqd a then [] else clip_matrix ini (e_lo (call_cfg a)) (e_hi (call_cfg a))
  | _, _ => has_shape (e_batch (call_cfg a)) (e_dim (call_cfg a)) out
  end.
Proof. exact run_ask_shape. Qed.

(** ** parents are rows of the current elites (sample_elites indexes the occupied list with
    integers < len), or x0 while the archive is empty *)
Theorem C08_parents_are_elites : forall c elites n ints,
  elites <> [] -> ints_ok elites n ints -> Forall (fun p => In p elites) (parents_of c elites n ints).
Proof. exact parents_are_elites. Qed.

Theorem C08_parents_x0_when_empty : forall c n ints, parents_of c [] n ints = repeat (e_x0 c) n.
Proof. exact parents_of_empty. Qed.

(** ** zero noise: the output is the clipped parents; with elites (and x0) inside the bounds it is
    the parents themselves, i.e. archive solutions exactly *)
Theorem C08_zero_noise : forall (a : ask_call) out,
  call_wf a -> zero_noise a -> run_ask a = Ok out ->
  (call_elites a <> [] \/ e_init (call_cfg a) = None) ->
  meq out (clip_matrix (parents_of (call_cfg a) (call_elites a) (e_batch (call_cfg a)) (call_ints a))
                       (e_lo (call_cfg a)) (e_hi (call_cfg a))).
Proof. exact run_ask_zero_noise. Qed.

Theorem C08_zero_noise_returns_parents : forall (a : ask_call) out,
  call_wf a -> zero_noise a -> run_ask a = Ok out ->
  (call_elites a <> [] \/ e_init (call_cfg a) = None) ->
  Forall (row_in_bounds (e_lo (call_cfg a)) (e_hi (call_cfg a))) (call_elites a) ->
  row_in_bounds (e_lo (call_cfg a)) (e_hi (call_cfg a)) (e_x0 (call_cfg a)) ->
  meq out (parents_of (call_cfg a) (call_elites a) (e_batch (call_cfg a)) (call_ints a)).
Proof. exact zero_noise_returns_parents. Qed.

Theorem C08_zero_noise_returns_elites : forall (a : ask_call) out,
  call_wf a -> zero_noise a -> run_ask a = Ok out -> call_elites a <> [] ->
  Forall (row_in_bounds (e_lo (call_cfg a)) (e_hi (call_cfg a))) (call_elites a) ->
  length out = e_batch (call_cfg a) /\
  Forall (fun r => exists p, In p (call_elites a) /\ req r p) out.
Proof. exact zero_noise_returns_elites. Qed.

(** ** otherwise each output differs from its parent only by the drawn perturbation, clipped:
    row k = clip (parent_k + noise_k)   [parent_k = elites[ints k], or x0 on an empty archive] *)
Theorem C08_perturbation_gaussian : forall c e ints z k,
  (e <> [] \/ e_init c = None) -> (k < e_batch c)%nat ->
  nth k (gaussian_ask c e ints z) [] =
  clip_row (vadd (parent_row c e ints k) (tabulate (e_dim c) (z k))) (e_lo c) (e_hi c).
Proof. exact gaussian_ask_nth. Qed.

Theorem C08_perturbation_isoline : forall c e ints iso line k,
  (e <> [] \/ e_init c = None) -> (k < e_batch c)%nat ->
  nth k (isoline_ask c e ints iso line) [] =
  clip_row (isoline_row (parent_row c e ints k) (parent_row c e ints (e_batch c + k))
                        (tabulate (e_dim c) (iso k)) (line k)) (e_lo c) (e_hi c).
Proof. exact isoline_ask_nth. Qed.

Theorem C08_perturbation_ga : forall c e ints z line,
  ga_ask c OpGaussian e ints z line = gaussian_ask c e ints z /\
  ga_ask c OpIsoLine e ints z line = isoline_ask c e ints z line.
Proof. intros. split; [exact (ga_gaussian c e ints z line) | exact (ga_isoline c e ints z line)]. Qed.

Theorem C08_perturbation_ask_dqd : forall c l e ints z line k,
  (e <> [] \/ e_init c = None) -> (k < e_batch c)%nat ->
  nth k (go_ask_dqd c l e ints z line) [] =
  clip_row
    (if l then vadd (vadd (parent_row c e ints k)
                          (vscale (line k) (vsub (parent_row c e ints (e_batch c + k)) (parent_row c e ints k))))
                    (tabulate (e_dim c) (z k))
     else vadd (parent_row c e ints k) (tabulate (e_dim c) (z k))) (e_lo c) (e_hi c).
Proof. exact go_ask_dqd_nth. Qed.

(** a clipped coordinate is the unclipped value itself or exactly the bound it was clipped to *)
Theorem C08_clipped_coordinate : forall r lo hi j,
  (j < length (clip_row r lo hi))%nat ->
  let v := nth j (clip_row r lo hi) 0 in
  v = nth j r 0 \/ nth j lo None = Some v \/ nth j hi None = Some v.
Proof. exact clipped_coord. Qed.

(** ** resampling evolution strategies (cma_es, sep_cma_es, lm_ma_es, openai_es): for EVERY
    candidate stream and fuel, if ask returns then it returns [b] rows, every one inside the
    bounds, row i being exactly candidate number [picks i] of the stream; no candidate is used
    twice and every candidate that was consumed but not returned was out of bounds. *)
Theorem C08_resample : forall fuel lo hi b stream rows picks used,
  es_ask fuel lo hi b stream = RsDone rows picks used ->
  length rows = b /\ length picks = b /\
  Forall (fun r => row_oob r lo hi = false) rows /\
  (forall i, (i < b)%nat ->
     (nth i picks 0 < used)%nat /\ nth_error stream (nth i picks 0%nat) = Some (nth i rows [])) /\
  NoDup picks /\
  (forall p, (p < used)%nat -> In p picks \/ row_oob (nth p stream []) lo hi = true).
Proof. exact es_ask_post. Qed.

Theorem C08_resample_all_in_bounds : forall fuel lo hi b stream rows picks used,
  length lo = length hi ->
  es_ask fuel lo hi b stream = RsDone rows picks used -> Forall (row_in_bounds lo hi) rows.
Proof. exact resample_all_in_bounds. Qed.

(** ** GradientArborescenceEmitter.ask: one row per coefficient vector, each of solution_dim *)
Theorem C08_gae_shape : forall theta jac coeffs d,
  length theta = d -> Forall (fun r => length r = d) jac ->
  has_shape (length coeffs) d (gae_ask theta jac coeffs).
Proof. exact gae_ask_shape. Qed.

(** ** dtype: for the intended behaviour every ask path returns the archive's solution dtype,
    whatever the measures dtype and the dtype of the Jacobian passed in *)
Theorem C08_dtype : forall k sd md jd, out_dtype true k sd md jd = sd.
Proof. exact out_dtype_intended. Qed.

(** the unchanged code (bounds built in the MEASURES dtype, DQD outputs not cast) does not: F12 *)
Theorem C08_dtype_asis_refuted : exists k sd md jd, out_dtype false k sd md jd <> sd.
Proof. exact out_dtype_asis_refuted. Qed.

(** ** non-vacuity *)
Definition ex_cfg : ecfg :=
  mkCfg 2 2 [1#2; 0] None [Some (-1); None] [Some 1; Some (1#2)].
Definition ex_elites : matrix := [[1#4; 1#4]; [-(3#4); 2]].
Definition ex_ints (k : nat) : nat := match k with 0%nat => 1%nat | _ => 0%nat end.
Definition ex_z (i j : nat) : Q := match i, j with 0%nat, 0%nat => -(1#2) | 1%nat, 1%nat => 1 | _, _ => 1#8 end.

(* process_bounds accepts a one-sided, per-dimension layout and rejects a 3-tuple *)
Example C08_nonvacuous_bounds :
  process_bounds (Some [Some [Some (-1); Some 1]; Some [None; Some (1#2)]]) 2
    = Ok ([Some (-1); None], [Some 1; Some (1#2)]) /\
  process_bounds (Some [None; Some [None; None; None]]) 2 = Err ValueError /\
  process_bounds (Some [None]) 2 = Err ValueError.
Proof. vm_compute. repeat split. Qed.

(* a well-formed call on a 2-elite archive: parent 1 is clipped in both coordinates, parent 0 in one *)
Example C08_nonvacuous_ask :
  call_wf (AGaussian ex_cfg ex_elites ex_ints ex_z) /\
  meq (gaussian_ask ex_cfg ex_elites ex_ints ex_z) [[-1; 1#2]; [3#8; 1#2]] /\
  meq (gaussian_ask ex_cfg [] ex_ints ex_z) [[0; 1#8]; [5#8; 1#2]] /\
  bounds_ok (e_lo ex_cfg) (e_hi ex_cfg) /\ 0 <= clip (7#2) (Some 0) (Some 3) <= 3.
Proof.
  assert (Hb : bounds_ok (e_lo ex_cfg) (e_hi ex_cfg)).
  { unfold bounds_ok. intros [|[|[|j]]]; simpl; try exact I; discriminate. }
  split; [|split; [|split; [|split]]]; auto.
  - split; [|split].
    + constructor; auto.
    + repeat constructor.
    + intros k Hk. simpl in *. destruct k as [|[|k]]; simpl; lia.
  - vm_compute. repeat constructor.
  - vm_compute. repeat constructor.
  - vm_compute. split; discriminate.
Qed.

(* zero noise on in-bounds elites returns them *)
Example C08_nonvacuous_zero_noise :
  let a := AIsoLine (mkCfg 2 2 [0; 0] None [Some (-1); None] [Some 1; Some 3]) ex_elites
                    (fun k => Nat.modulo k 2) (fun _ _ => 0) (fun _ => 0) in
  zero_noise a /\ (exists out, run_ask a = Ok out /\ meq out [[1#4; 1#4]; [-(3#4); 2]]) /\
  Forall (row_in_bounds [Some (-1); None] [Some 1; Some 3]) ex_elites.
Proof.
  simpl. split; [split; intros ?; reflexivity|]. split.
  - eexists. split; [reflexivity|]. vm_compute. repeat constructor.
  - assert (H : forall r, row_oob r [Some (-1); None] [Some 1; Some 3] = false ->
                        row_in_bounds [Some (-1); None] [Some 1; Some 3] r)
      by (intros r; apply row_oob_false; reflexivity).
    unfold ex_elites. constructor; [|constructor; [|constructor]]; apply H; vm_compute; reflexivity.
Qed.

(* the resampling loop: slot 1's first candidate is out of bounds, it takes the third one *)
Example C08_nonvacuous_resample :
  es_ask 5 [Some 0] [Some 1] 2 [[1#2]; [2]; [3#4]] = RsDone [[1#2]; [3#4]] [0%nat; 2%nat] 3 /\
  es_ask 5 [Some 0] [Some 1] 2 [[1#2]; [2]] = RsNeed 1 /\
  es_ask 1 [Some 0] [Some 1] 2 [[1#2]; [2]; [3#4]] = RsFuel.
Proof. vm_compute. repeat split. Qed.

Print Assumptions C08_process_bounds.
Print Assumptions C08_process_bounds_rejects.
Print Assumptions C08_clip_in_bounds.
Print Assumptions C08_clip_in_bounds_matrix.
Print Assumptions C08_in_bounds.
Print Assumptions C08_shape.
Print Assumptions C08_parents_are_elites.
Print Assumptions C08_parents_x0_when_empty.
Print Assumptions C08_zero_noise.
Print Assumptions C08_zero_noise_returns_parents.
Print Assumptions C08_zero_noise_returns_elites.
Print Assumptions C08_perturbation_gaussian.
Print Assumptions C08_perturbation_isoline.
Print Assumptions C08_perturbation_ga.
Print Assumptions C08_perturbation_ask_dqd.
Print Assumptions C08_clipped_coordinate.
Print Assumptions C08_resample.
Print Assumptions C08_resample_all_in_bounds.
Print Assumptions C08_gae_shape.
Print Assumptions C08_dtype.
Print Assumptions C08_dtype_asis_refuted.
