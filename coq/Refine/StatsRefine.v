(** Refinement: ArchiveBase._stats_update and the objective-sum expression of compute_objective_sum, translated
    from the CURRENT source (Generated/StatsGen.v, rewritten on every run by harness/py2v_stats.py), equal the
    model's [stats_update] / [sum_delta] (Model/Archive.v) for ALL arguments.  Numbers are compared with [==], so
    algebraically equivalent rewrites of the Python pass; a dropped offset, a division by the wrong count, [>=]
    instead of [>] for the best elite, or "cells" instead of "len" do not. *)
From Coq Require Import List ZArith QArith Qreduction Bool Lqa.
From PV Require Import Base.ListUtil Base.QUtil Base.FirstArgmax Model.Store Model.Archive Generated.StatsGen.
Import ListNotations.
Open Scope Q_scope.

Section Refine.
Variable P : Type.
Notation B := (nat * row P)%type.

Definition gen_of (c : cfg) (a : archive P) (s' : store (row P)) (sum' : Q) (bi : nat) (r : row P) :=
  gen_stats_update B (len s') (cells c) (offset c) (a_sum a) (st_max (a_stats a)) (a_best a) sum' (r_obj r) (bi, r).

Theorem gen_stats_update_refines (c : cfg) (a : archive P) (s' : store (row P)) (sum' : Q) (bi : nat) (r : row P) :
  get_row s' bi = Some r ->
  let a' := stats_update c a s' sum' bi in
  let '(gsum, (gnum, gcov, gqd, gnorm, gmax, gmean), gbest) := gen_of c a s' sum' bi r in
  a_store a' = s' /\ a_sum a' = gsum /\ qnat (st_num (a_stats a')) = gnum /\
  st_cov (a_stats a') == gcov /\ st_qd (a_stats a') == gqd /\ st_norm (a_stats a') == gnorm /\
  st_max (a_stats a') = gmax /\ (exists m, st_mean (a_stats a') = Some m /\ m == gmean) /\ a_best a' = gbest.
Proof.
  intros Hr. unfold gen_of, gen_stats_update, stats_update. rewrite Hr. cbv zeta.
  destruct (st_max (a_stats a)) as [m|].
  - destruct (Qltb m (r_obj r)); cbn [a_store a_sum a_stats a_best st_num st_cov st_qd st_norm st_max st_mean];
      repeat split; try reflexivity; try (unfold Qdiv; ring); eexists; (split; [reflexivity|try reflexivity; unfold Qdiv; ring]).
  - cbn [a_store a_sum a_stats a_best st_num st_cov st_qd st_norm st_max st_mean];
      repeat split; try reflexivity; try (unfold Qdiv; ring); eexists; (split; [reflexivity|try reflexivity; unfold Qdiv; ring]).
Qed.

(** compute_objective_sum: cur_sum + sum(new_objective - (cur_objective with unoccupied entries zeroed)) *)
Theorem gen_objective_sum_refines (a : archive P) (s : store (row P)) (w : list (nat * row P)) :
  gen_objective_sum (a_sum a)
    (map (fun p => gen_sum_term (get_occ s (fst p)) (r_obj (snd p))
                                (match get_row s (fst p) with Some r => r_obj r | None => 0 end)) w)
  == a_sum a + sum_delta s w.
Proof.
  unfold gen_objective_sum, sum_delta. apply Qplus_comp; [reflexivity|].
  induction w as [|p t IH]; simpl; [reflexivity|].
  apply Qplus_comp; [|exact IH].
  unfold gen_sum_term, old_obj. destruct (get_occ s (fst p)); reflexivity.
Qed.

End Refine.

Print Assumptions gen_stats_update_refines.
Print Assumptions gen_objective_sum_refines.
