(** Refinement: the ranker key table extracted from the CURRENT source of ribs/emitters/rankers.py (Generated/RankGen.v, rewritten
    on every run by harness/py2v_rank.py: per ranker the number of stages, the sort key and whether the argsort is flipped) is what
    Model/Ranker.v's [rank] does: for every ranker of the table, every archive, data and add feedback, [rank] is
    flip?(argsort key) with the key as ranking values (one stage) or the (status, key) lexicographic order with the stacked pairs
    as ranking values (two stages), the key being the table's. *)
From Coq Require Import List ZArith QArith Bool.
From PV Require Import Base.ListUtil Model.Store Model.Ranker Generated.RankGen.
Import ListNotations.

(** the key column a table entry names; [None] when it is not available (direction not set / archive without density /
    measure rows of the wrong length): [rank] then raises *)
Definition key_column (k : rkey) (r : ranker) (a : archive) (d : data) (i : add_info) : option (list Q) :=
  match k with
  | KValue => Some (i_value i)
  | KObjective => Some (d_objective d)
  | KNovelty => Some (i_novelty i)
  | KProjection => match r_dir r with
                   | Some dir => match projections (d_measures d) dir with Ok p => Some p | Err _ => None end
                   | None => None
                   end
  | KDensity => match a_density a with Some f => Some (f (d_measures d)) | None => None end
  end.

Definition by_table (e : stages * rkey * bool) (r : ranker) (a : archive) (d : data) (i : add_info) : option (result (list nat * values)) :=
  let '(st, k, desc) := e in
  match key_column k r a d i with
  | None => None
  | Some key =>
      Some (match st with
            | One => Ok ((if desc then flip (argsort key) else argsort key), V1 key)
            | Two => two_stage (i_status i) key
            end)
  end.

Theorem rank_follows_table (r : ranker) (a : archive) (d : data) (i : add_info) e :
  In (r_kind r, e) gen_ranker_table ->
  match by_table e r a d i with
  | Some res => rank r a d i = res
  | None => exists err, rank r a d i = Err err
  end.
Proof.
  intros Hin. simpl in Hin.
  repeat (destruct Hin as [Heq|Hin]; [inversion Heq as [[Hk He]]; subst e; clear Heq|]); try contradiction;
    unfold rank; rewrite <- Hk; unfold by_table, key_column, single_stage.
  all: try reflexivity.
  - destruct (r_dir r) as [dir|]; [|eexists; reflexivity].
    destruct (projections (d_measures d) dir) as [p|err]; [reflexivity|eexists; reflexivity].
  - destruct (r_dir r) as [dir|]; [|eexists; reflexivity].
    destruct (projections (d_measures d) dir) as [p|err]; [reflexivity|eexists; reflexivity].
  - destruct (a_density a) as [f|]; [reflexivity|eexists; reflexivity].
Qed.

(** every ranker kind of the model has exactly one entry *)
Theorem table_complete (k : kind) : exists e, In (k, e) gen_ranker_table /\ forall e', In (k, e') gen_ranker_table -> e' = e.
Proof.
  destruct k; eexists; (split; [simpl; auto 10|]); intros e' H; simpl in H;
    repeat (destruct H as [H|H]; [try discriminate; inversion H; reflexivity|]); contradiction.
Qed.

Print Assumptions rank_follows_table.
Print Assumptions table_complete.
