(** C12 -- the conversions validate_batch / validate_single apply to the caller's arrays, as the translator reads them from the
    CURRENT source (Generated/ValidateGen.v, rewritten on every run), have the same alias effect as the programs [validate_batch] /
    [validate_single] of Model/Alias.v: same allocations, same fields of self, same mutated buffers, same returned and exposed values,
    same halting, and every register bound to the same abstract value. *)
From Coq Require Import List Arith Bool ZArith.
From PV Require Import Base.ListUtil Model.Store Model.Alias Model.ValidateIR Generated.ValidateGen.
Import ListNotations.

(** observational equality of abstract states: everything equal, environments equal as finite maps *)
Definition obs_eq (a b : astate) : Prop :=
  a_next a = a_next b /\ a_self a = a_self b /\ a_mut a = a_mut b /\ a_ret a = a_ret b /\ a_exp a = a_exp b /\ a_halt a = a_halt b /\
  forall x, lookup (a_env a) x = lookup (a_env b) x.

Lemma obs_refl a : obs_eq a a.
Proof. repeat split. Qed.

Lemma obs_trans a b c : obs_eq a b -> obs_eq b c -> obs_eq a c.
Proof.
  intros (H1 & H2 & H3 & H4 & H5 & H6 & H7) (K1 & K2 & K3 & K4 & K5 & K6 & K7).
  repeat split; try congruence; try (intros x; rewrite H7; apply K7).
Qed.

Lemma lookup_bind e d v x : lookup (bind e d v) x = if Nat.eqb x d then Some v else lookup e x.
Proof. reflexivity. Qed.

Lemma lookups_ext e1 e2 xs : (forall x, lookup e1 x = lookup e2 x) -> lookups e1 xs = lookups e2 xs.
Proof. intros H. induction xs as [|x t IH]; simpl; [reflexivity|]. rewrite H, IH. reflexivity. Qed.

Ltac obs_fields := repeat split; simpl; try assumption; try congruence;
  try (let xx := fresh "xx" in intros xx; match goal with |- context [Nat.eqb xx ?d] => destruct (Nat.eqb xx d) end; auto; congruence).

(** every instruction respects observational equality *)
Lemma astep_obs i a b : obs_eq a b -> obs_eq (astep i a) (astep i b).
Proof.
  intros (H1 & H2 & H3 & H4 & H5 & H6 & H7).
  assert (Hb : forall d v x, lookup (bind (a_env a) d v) x = lookup (bind (a_env b) d v) x)
    by (intros d v x; rewrite !lookup_bind; destruct (Nat.eqb x d); [reflexivity|apply H7]).
  unfold astep. rewrite <- H6. destruct (a_halt a) eqn:Eh; [obs_fields|].
  destruct i as [d s dt|d s|d s k|d s|d s|d srcs op|d srcs op|d s|f s|d f|s|s].
  - rewrite <- H7. destruct (lookup (a_env a) s) as [v|]; [|unfold a_halted; obs_fields].
    destruct (asarray_aliases v dt); unfold a_bind, a_alloc; obs_fields; rewrite <- ?H1; auto.
  - rewrite <- H7. destruct (lookup (a_env a) s) as [v|]; [|unfold a_halted; obs_fields]. unfold a_bind; obs_fields; auto.
  - rewrite <- H7. destruct (lookup (a_env a) s) as [v|]; [|unfold a_halted; obs_fields].
    destruct (vnd v); unfold a_bind, a_halted; obs_fields; auto.
  - rewrite <- H7. destruct (lookup (a_env a) s) as [v|]; [|unfold a_halted; obs_fields].
    destruct (vnd v && vcontig v); unfold a_bind, a_alloc; obs_fields; rewrite <- ?H1; auto.
  - rewrite <- H7. destruct (lookup (a_env a) s) as [v|]; [|unfold a_halted; obs_fields].
    unfold a_alloc; obs_fields; rewrite <- ?H1; auto.
  - rewrite <- (lookups_ext (a_env a) (a_env b) srcs H7). destruct (lookups (a_env a) srcs); [|unfold a_halted; obs_fields].
    unfold a_alloc; obs_fields; rewrite <- ?H1; auto.
  - rewrite <- H7, <- (lookups_ext (a_env a) (a_env b) srcs H7).
    destruct (lookup (a_env a) d) as [v|]; [|unfold a_halted; obs_fields].
    destruct (lookups (a_env a) srcs); [|unfold a_halted; obs_fields].
    destruct (vw v); unfold a_halted; obs_fields.
  - rewrite <- H7. destruct (lookup (a_env a) s) as [v|]; [|unfold a_halted; obs_fields]. unfold a_bind; obs_fields; auto.
  - rewrite <- H7. destruct (lookup (a_env a) s) as [v|]; [|unfold a_halted; obs_fields]. obs_fields.
  - rewrite <- H2. destruct (lookup (a_self a) f) as [v|]; [|unfold a_halted; obs_fields]. unfold a_bind; obs_fields; auto.
  - rewrite <- H7. destruct (lookup (a_env a) s) as [v|]; [|unfold a_halted; obs_fields]. obs_fields.
  - rewrite <- H7. destruct (lookup (a_env a) s) as [v|]; [|unfold a_halted; obs_fields]. obs_fields.
Qed.

Lemma arun_obs p : forall a b, obs_eq a b -> obs_eq (arun p a) (arun p b).
Proof. unfold arun. induction p as [|i p IH]; intros a b H; simpl; [exact H|]. apply IH. apply astep_obs. exact H. Qed.

Lemma astep_halt i a : a_halt a = true -> astep i a = a.
Proof. intros H. unfold astep. rewrite H. reflexivity. Qed.

Lemma astep_asarray_some d s dt a v : a_halt a = false -> lookup (a_env a) s = Some v ->
  astep (IAsarray d s dt) a = if asarray_aliases v dt then a_bind a d v else a_alloc a d.
Proof. intros H L. unfold astep. rewrite H, L. reflexivity. Qed.

Lemma astep_asarray_none d s dt a : a_halt a = false -> lookup (a_env a) s = None ->
  astep (IAsarray d s dt) a = a_halted a.
Proof. intros H L. unfold astep. rewrite H, L. reflexivity. Qed.

(** np.asarray(x) followed by a conversion to the declared dtype has the effect of the single conversion to the declared dtype *)
Lemma plain_then_dtype r a :
  obs_eq (arun (prog_of r [CPlain; CDtype]) a) (arun [IAsarray r r true] a).
Proof.
  unfold arun, prog_of. cbn [map instr_of fold_left].
  destruct (a_halt a) eqn:Eh.
  - rewrite !(astep_halt _ a Eh). apply obs_refl.
  - destruct (lookup (a_env a) r) as [v|] eqn:El.
    + rewrite (astep_asarray_some r r false a v Eh El), (astep_asarray_some r r true a v Eh El).
      unfold asarray_aliases. destruct (vnd v) eqn:En; cbn [andb negb orb].
      * (* an ndarray: the plain conversion aliases it *)
        assert (L2 : lookup (a_env (a_bind a r v)) r = Some v) by (unfold a_bind; cbn [a_env]; rewrite lookup_bind, Nat.eqb_refl; reflexivity).
        rewrite (astep_asarray_some r r true (a_bind a r v) v Eh L2). unfold asarray_aliases. rewrite En. cbn [andb negb orb].
        destruct (vtgt v); unfold a_bind, a_alloc; repeat split; cbn; auto;
          intros x; destruct (Nat.eqb x r); reflexivity.
      * (* not an ndarray: the plain conversion allocates a fresh array, which already has the declared dtype *)
        assert (L2 : lookup (a_env (a_alloc a r)) r = Some (fresh_val (a_next a))) by (unfold a_alloc; cbn [a_env]; rewrite lookup_bind, Nat.eqb_refl; reflexivity).
        assert (Eh2 : a_halt (a_alloc a r) = false) by exact Eh.
        rewrite (astep_asarray_some r r true (a_alloc a r) _ Eh2 L2). unfold asarray_aliases, fresh_val. cbn [vnd vtgt andb negb orb].
        unfold a_bind, a_alloc; repeat split; cbn; auto.
        intros x; destruct (Nat.eqb x r); reflexivity.
    + rewrite (astep_asarray_none r r false a Eh El), (astep_asarray_none r r true a Eh El).
      rewrite (astep_halt _ (a_halted a)) by reflexivity. apply obs_refl.
Qed.

(** * validate_single: solution, objective, measures in this order *)
Theorem gen_validate_single_is_model : forall sol obj meas a,
  obs_eq (arun (prog_of sol gen_single_solution ++ prog_of obj gen_single_objective ++ prog_of meas gen_single_measures) a)
         (arun (validate_single sol obj meas) a).
Proof.
  intros sol obj meas a. unfold gen_single_solution, gen_single_objective, gen_single_measures, validate_single.
  change (prog_of sol [CPlain] ++ prog_of obj [CScalar] ++ prog_of meas [CPlain; CDtype])
    with ([IAsarray sol sol false; ICopy obj obj] ++ prog_of meas [CPlain; CDtype]).
  change [IAsarray sol sol false; ICopy obj obj; IAsarray meas meas true]
    with ([IAsarray sol sol false; ICopy obj obj] ++ [IAsarray meas meas true]).
  unfold arun. rewrite !fold_left_app. apply plain_then_dtype.
Qed.

(** * validate_batch: register k of the batch is solution (0), objective (1), measures (2) or another field (>= 3) *)
Definition gen_batch_conv (k : nat) : list conv :=
  match k with 0 => gen_batch_solution | 1 => gen_batch_objective | 2 => gen_batch_measures | _ => gen_batch_other end.

Theorem gen_validate_batch_field_is_model : forall k r a,
  obs_eq (arun (prog_of r (gen_batch_conv k)) a) (arun [IAsarray r r (Nat.eqb k 1 || Nat.eqb k 2)] a).
Proof.
  intros k r a. destruct k as [|[|[|k]]]; simpl gen_batch_conv; simpl orb.
  - apply obs_refl.
  - apply obs_refl.
  - apply plain_then_dtype.
  - apply obs_refl.
Qed.

Theorem gen_validate_batch_is_model : forall regs a,
  obs_eq (arun (flat_map (fun kr => prog_of (snd kr) (gen_batch_conv (fst kr))) (combine (seq 0 (length regs)) regs)) a)
         (arun (validate_batch regs) a).
Proof.
  intros regs. unfold validate_batch. generalize (combine (seq 0 (length regs)) regs). intros l.
  induction l as [|[k r] t IH]; intros a; simpl; [apply obs_refl|].
  unfold arun in *. rewrite fold_left_app.
  eapply obs_trans.
  - apply (arun_obs (flat_map (fun kr => prog_of (snd kr) (gen_batch_conv (fst kr))) t)).
    apply (gen_validate_batch_field_is_model k r a).
  - simpl. apply IH.
Qed.

(** * what observational equality is good for: every verdict the C12 theorems are about reads only the fields it preserves *)
Lemma obs_verdicts n a b : obs_eq a b ->
  clean n a = clean n b /\
  (forall i, arg_mutated a i = arg_mutated b i) /\ (forall i, arg_retained a i = arg_retained b i) /\
  (forall i, arg_returned a i = arg_returned b i) /\ (forall i, arg_exposed a i = arg_exposed b i) /\
  rw_store a = rw_store b /\ ro_store a = ro_store b /\ rw_self a = rw_self b /\ exp_store a = exp_store b.
Proof.
  intros (H1 & H2 & H3 & H4 & H5 & H6 & _).
  unfold clean, arg_mutated, arg_retained, arg_returned, arg_exposed, rw_store, ro_store, rw_self, exp_store.
  rewrite H2, H3, H4, H5, H6. repeat split; reflexivity.
Qed.

(** ... so an entry point that validates its arguments and then runs ANY continuation gets the same verdict whether the validators are
    the model's or the ones read from the current source *)
Theorem gen_validate_single_same_verdict : forall n sol obj meas (rest : list instr) a,
  clean n (arun rest (arun (prog_of sol gen_single_solution ++ prog_of obj gen_single_objective ++ prog_of meas gen_single_measures) a)) =
  clean n (arun rest (arun (validate_single sol obj meas) a)).
Proof.
  intros. apply obs_verdicts. apply arun_obs. apply gen_validate_single_is_model.
Qed.

Theorem gen_validate_batch_same_verdict : forall n regs (rest : list instr) a,
  clean n (arun rest (arun (flat_map (fun kr => prog_of (snd kr) (gen_batch_conv (fst kr))) (combine (seq 0 (length regs)) regs)) a)) =
  clean n (arun rest (arun (validate_batch regs) a)).
Proof.
  intros. apply obs_verdicts. apply arun_obs. apply gen_validate_batch_is_model.
Qed.

Print Assumptions gen_validate_single_is_model.
Print Assumptions gen_validate_single_same_verdict.
Print Assumptions gen_validate_batch_same_verdict.
Print Assumptions gen_validate_batch_is_model.
