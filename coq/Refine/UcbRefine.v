(** Refinement: the UCB1 score translated from the CURRENT source of BanditScheduler.ask (Generated/UcbGen.v, rewritten on every
    run by harness/py2v_ucb.py) is the documented formula  success/selection + zeta * sqrt(ln(total success)/selection), the total
    being clipped below at 1 (fix F9: while nothing has been inserted the exploration term is sqrt(ln 1 / n)); [usqrt] and [ulog]
    are uninterpreted, so this is pure field algebra and an algebraically equivalent rewrite of the Python still passes. *)
From Coq Require Import Reals Lra Field.
From PV Require Import Generated.UcbGen.
Open Scope R_scope.

Section Refine.
Variable usqrt : R -> R.
Variable ulog : R -> R.

Definition ucb1_spec (s n tot zeta : R) : R := s / n + zeta * usqrt (ulog (Rmax tot 1) / n).

Theorem gen_ucb1_refines s n tot zeta : n <> 0 -> gen_ucb1 usqrt ulog s n tot zeta = ucb1_spec s n tot zeta.
Proof.
  intros Hn. unfold gen_ucb1, ucb1_spec.
  first [ reflexivity
        | repeat match goal with
                 | |- context [usqrt ?a] =>
                     match goal with
                     | |- context [usqrt ?b] => tryif constr_eq a b then fail else (replace a with b by (field; exact Hn))
                     end
                 end; field; exact Hn ].
Qed.

(** with a positive total the clip is invisible: the score is the textbook UCB1 *)
Corollary gen_ucb1_textbook s n tot zeta : n <> 0 -> 1 <= tot ->
  gen_ucb1 usqrt ulog s n tot zeta = s / n + zeta * usqrt (ulog tot / n).
Proof. intros Hn Ht. rewrite gen_ucb1_refines by exact Hn. unfold ucb1_spec. rewrite Rmax_left by exact Ht. reflexivity. Qed.

End Refine.

Print Assumptions gen_ucb1_refines.
Print Assumptions gen_ucb1_textbook.
