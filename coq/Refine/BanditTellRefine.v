(** C16 -- BanditScheduler.tell as harness/py2v_bandit.py reads it from the CURRENT source (Generated/BanditTellGen.v, rewritten on
    every run) against Model/Bandit.v: the credit an emitter receives for a round is the model's [credit] step, for all counts. *)
From Coq Require Import List Arith Bool ZArith QArith.
From PV Require Import Base.ListUtil Base.SliceUtil Model.Store Model.Scheduler Model.Bandit Model.BanditTellFacts Generated.BanditTellGen
     Proofs.BanditProofs.
Import ListNotations.

Theorem gen_bandit_tell_facts_are_model : gen_bandit_tell_facts = model_bandit_tell_facts.
Proof. reflexivity. Qed.

Section BanditTellRefine.
Variable V : Type.
Variable F : Type.
Variable status_nz : F -> bool.

(** one step of [credit]: the selection count grows by the number of rows the emitter emitted, the success count by the number of
    non-zero statuses in ITS slice of the feedback *)
Theorem gen_credit_is_model : forall (i : nat) (t : told V F) rest (nums sel suc : list nat),
  credit status_nz ((i, t) :: rest) nums sel suc =
  credit status_nz rest nums
         (upd sel i (gen_credit_selection (nth i sel 0%nat) (nth i nums 0%nat)))
         (upd suc i (gen_credit_success (nth i suc 0%nat) (count_nz status_nz (t_info t)))).
Proof. intros. reflexivity. Qed.

(** the whole crediting loop, for every round in which each emitter is delivered to at most once: an emitter that was told
    ends with exactly the source's two sums, every other emitter's counters are what they were *)
Theorem gen_credit_loop_is_model : forall (ds : list (nat * told V F)) (nums sel suc : list nat),
  NoDup (map fst ds) ->
  let sel' := fst (credit status_nz ds nums sel suc) in
  let suc' := snd (credit status_nz ds nums sel suc) in
  length sel' = length sel /\ length suc' = length suc /\
  (forall i, ~ In i (map fst ds) -> nth i sel' 0%nat = nth i sel 0%nat /\ nth i suc' 0%nat = nth i suc 0%nat) /\
  (forall i t, In (i, t) ds -> (i < length sel)%nat -> (i < length suc)%nat ->
     nth i sel' 0%nat = gen_credit_selection (nth i sel 0%nat) (nth i nums 0%nat) /\
     nth i suc' 0%nat = gen_credit_success (nth i suc 0%nat) (count_nz status_nz (t_info t))).
Proof. intros ds nums sel suc Hnd. exact (credit_spec status_nz ds nums sel suc Hnd). Qed.
End BanditTellRefine.

Print Assumptions gen_bandit_tell_facts_are_model.
Print Assumptions gen_credit_is_model.
Print Assumptions gen_credit_loop_is_model.
