(** C16 -- BanditScheduler.tell as harness/py2v_bandit.py reads it from the CURRENT source (Generated/BanditTellGen.v, rewritten on
    every run) against Model/Bandit.v: the credit an emitter receives for a round is the model's [credit] step, for all counts. *)
From Coq Require Import List Arith Bool ZArith QArith.
From PV Require Import Base.ListUtil Base.SliceUtil Model.Store Model.Scheduler Model.Bandit Model.BanditTellFacts Generated.BanditTellGen.
Import ListNotations.

Theorem gen_bandit_tell_facts_are_model : gen_bandit_tell_facts = model_bandit_tell_facts.
Proof. reflexivity. Qed.

Section BanditTellRefine.
Variable V : Type.
Variable F : Type.
Variable status_nz : F -> bool.

(** one step of [credit]: the selection count grows by the number of rows the emitter emitted, the success count by the number of
    non-zero statuses in ITS slice of the feedback *)
Theorem gen_credit_is_model : forall (i : nat) (t : told V F) rest (nums sel suc : list nat),
  credit status_nz ((i, t) :: rest) nums sel suc =
  credit status_nz rest nums
         (upd sel i (gen_credit_selection (nth i sel 0%nat) (nth i nums 0%nat)))
         (upd suc i (gen_credit_success (nth i suc 0%nat) (count_nz status_nz (t_info t)))).
Proof. intros. reflexivity. Qed.
End BanditTellRefine.

Print Assumptions gen_bandit_tell_facts_are_model.
Print Assumptions gen_credit_is_model.
