(** C04 -- Scheduler._add_to_archives and the routing loop of tell / tell_dqd as harness/py2v_sched.py reads them from the CURRENT
    source (Generated/SchedGen.v, rewritten on every run) against Model/Scheduler.v: the slice bounds are the model's, the
    statement-level facts are those the model renders; the lemmas say what two of the facts mean in the model. *)
From Coq Require Import List Arith Bool Lia.
From PV Require Import Base.ListUtil Base.SliceUtil Model.Store Model.Scheduler Model.SchedFacts Generated.SchedGen.
Import ListNotations.

Theorem gen_sched_facts_are_model : gen_sched_facts = model_sched_facts.
Proof. reflexivity. Qed.

Section SchedRefine.
Variable V : Type.
Variable F : Type.

(** EmittersInPoolOrderGetOwnSlices: one delivery per emitter of the round, in order, each with the slice [pos, pos + n) *)
Theorem gen_slices_are_model : forall (i : nat) (t nums : list nat) (pos : nat) (data : list (column V)) jac (info : list F),
  deliveries (i :: t) nums pos data jac info =
  (i, mk_told (gen_slice_start pos (nth i nums 0)) (gen_slice_end pos (nth i nums 0)) data jac info)
    :: deliveries t nums (gen_next_pos pos (nth i nums 0)) data jac info.
Proof. intros. reflexivity. Qed.

(** BatchSearchArchiveThenResultSameData: a successful batch insertion appends the SAME event to the search archive's log and, if
    there is one, to the result archive's log; a rejected one appends nothing to either *)
Theorem model_batch_same_data : forall n (data : list (column V)) (fb : nat -> F) a r,
  add_to_archives Batch n data fb None a r = (a ++ [AddBatch data], option_map (fun l => l ++ [AddBatch data]) r, Ok (map fb (seq 0 n))) /\
  forall k, add_to_archives Batch n data fb (Some k) a r = (a, r, Err ValueError).
Proof. intros. split; reflexivity. Qed.

(** the whole routing loop: the feedback slices handed to the emitters, concatenated in delivery order, are exactly the rows
    [pos, pos + total emitted) of the feedback -- no row is delivered twice, none is skipped, none is reordered *)
Lemma firstn_app_skipn : forall A (x : list A) m k, firstn m x ++ firstn k (skipn m x) = firstn (m + k) x.
Proof.
  intros A x m; revert x; induction m as [|m IH]; intros x k; [reflexivity|].
  destruct x as [|a x]; [now rewrite !firstn_nil|]. cbn [firstn skipn plus app]. now rewrite IH.
Qed.

Lemma slice_app : forall A (l : list A) a m k, slice l a (a + m) ++ slice l (a + m) (a + m + k) = slice l a (a + m + k).
Proof.
  intros A l a m k. rewrite (slice_firstn_skipn l a m), (slice_firstn_skipn l (a + m) k).
  rewrite <- Nat.add_assoc, (slice_firstn_skipn l a (m + k)).
  rewrite <- (skipn_skipn l m a). apply firstn_app_skipn.
Qed.

Theorem gen_routing_tiles_feedback : forall (idxs nums : list nat) (pos : nat) (data : list (column V)) jac (info : list F),
  concat (map (fun d => t_info (snd d)) (deliveries idxs nums pos data jac info)) =
  slice info pos (pos + sum_nat (map (fun i => nth i nums 0) idxs)).
Proof.
  induction idxs as [|i t IH]; intros nums pos data jac info.
  - cbn. unfold slice. replace (pos + 0 - pos) with 0 by lia. reflexivity.
  - rewrite gen_slices_are_model. cbn [map concat snd sum_nat t_info mk_told]. rewrite IH.
    unfold gen_slice_start, gen_slice_end, gen_next_pos. rewrite Nat.add_assoc. apply slice_app.
Qed.
End SchedRefine.

Print Assumptions gen_sched_facts_are_model.
Print Assumptions gen_slices_are_model.
Print Assumptions model_batch_same_data.
Print Assumptions gen_routing_tiles_feedback.
