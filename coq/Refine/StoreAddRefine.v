(** C13 / C11 / C01 -- the order of the phases of ArrayStore.add as the extractor reads it from the CURRENT source
    (Generated/StoreAddGen.v, rewritten on every run) is the order Model/Store.v's [add] implements:

      PCount          bump_add                                   (the update counter; iterators are invalidated even by a rejected add)
      PTransforms     run_transforms  on views of the pre-call store
      PIndices        indices = np.asarray(indices, dtype=np.int32): the model's [idxs : list nat] (can raise for non-integers: before any write)
      PEmptyReturn    length idxs = 0  ->  (s, Ok)
      PLenCheck       length idxs <> length xs  ->  ValueError
      PKeyCheck       keys_ok = false  ->  ValueError
      PConvert        (values are abstract in the model: conversion can only fail, which it does before any write)
      POccupancyRead  in_range  ->  IndexError                    (numpy's bounds check on occupied[unique_indices])
      POccupancyWrite mark / olist ++ new
      PWrite          write_rows
      PReturn

    and, as a property of that list: no phase that can raise comes after a phase that writes -- which is why [add_raw] returns the
    store it was given in every error branch. *)
From Coq Require Import List Bool.
From PV Require Import Generated.StoreAddGen.
Import ListNotations.

Definition model_phases : list phase :=
  [PCount; PInit; PTransforms; PIndices; PEmptyReturn; PLenCheck; PKeyCheck; PConvert; POccupancyRead; POccupancyWrite; PWrite; PReturn].

Definition can_raise (p : phase) : bool :=
  match p with PTransforms | PIndices | PLenCheck | PKeyCheck | PConvert | POccupancyRead => true | _ => false end.

(** writes to occupancy or to the field arrays (PCount only touches the update counter) *)
Definition writes (p : phase) : bool := match p with POccupancyWrite | PWrite => true | _ => false end.

Fixpoint order_ok (seen_write : bool) (l : list phase) : bool :=
  match l with
  | [] => true
  | p :: t => if seen_write && can_raise p then false else order_ok (seen_write || writes p) t
  end.

Theorem gen_store_add_is_model_order : gen_store_add_phases = model_phases.
Proof. reflexivity. Qed.

Theorem gen_store_add_order_ok : order_ok false gen_store_add_phases = true.
Proof. reflexivity. Qed.

(** what [order_ok] means: whenever a phase that can raise is reached, nothing has been written yet *)
Lemma order_ok_spec : forall l seen, order_ok seen l = true ->
  forall a p b, l = a ++ p :: b -> can_raise p = true -> seen = false /\ forallb (fun q => negb (writes q)) a = true.
Proof.
  induction l as [|x t IH]; intros seen H a p b E Hp.
  - destruct a; discriminate.
  - destruct a as [|y a']; simpl in E; injection E as -> ->.
    + simpl in H. rewrite Hp in H. destruct seen; [discriminate|]. split; reflexivity.
    + simpl in H. destruct (seen && can_raise y) eqn:E1; [discriminate|].
      destruct (IH _ H a' p b eq_refl Hp) as [Hs Ha].
      apply orb_false_iff in Hs. destruct Hs as [-> Hw]. split; [reflexivity|].
      simpl. rewrite Hw. exact Ha.
Qed.

Corollary gen_store_add_rejects_before_writing : forall a p b,
  gen_store_add_phases = a ++ p :: b -> can_raise p = true -> forallb (fun q => negb (writes q)) a = true.
Proof. intros a p b E Hp. exact (proj2 (order_ok_spec _ _ gen_store_add_order_ok a p b E Hp)). Qed.

Print Assumptions gen_store_add_is_model_order.
Print Assumptions gen_store_add_order_ok.
Print Assumptions gen_store_add_rejects_before_writing.
