(** Refinement: the ask/tell protocol table extracted from the CURRENT source of ribs/schedulers
    (Generated/ProtoGen.v, rewritten on every run by harness/py2v_proto.py: per method the guard on _last_called that
    is evaluated before anything else, and the value assigned to _last_called right after it) is the protocol of the
    Scheduler / BanditScheduler models: for every state and every call, the model raises RuntimeError exactly when
    the table's guard forbids the call -- and then returns the state untouched -- and otherwise records the table's
    next state as the last call (also when the call later ends in a ValueError).  That a call in order never raises
    RuntimeError is C04_protocol_step / C16_protocol_step. *)
From Coq Require Import List Bool ZArith QArith.
From PV Require Import Base.ListUtil Model.Store Model.Scheduler Model.Bandit Generated.ProtoGen.
Import ListNotations.

Definition allows (g : guard) (l : option call) : bool :=
  match g with
  | GForbid cs => negb (existsb (last_is l) cs)
  | GRequire c => last_is l c
  end.

Section Proto.
Variables V F : Type.

Theorem scheduler_protocol_table (s : sched V F) (o : sop V F) :
  exists g nxt, In (kind_of o, g, nxt) gen_proto_Scheduler /\ nxt = kind_of o /\
    (allows g (last_called s) = false -> sched_step s o = (s, Err RuntimeError)) /\
    (allows g (last_called s) = true -> last_called (fst (sched_step s o)) = Some nxt).
Proof.
  destruct o as [resp|resp|a|a]; simpl kind_of.
  - exists (GForbid [CAsk; CAskDqd]), CAsk. split; [simpl; auto|]. split; [reflexivity|].
    unfold sched_step, ask_gen, allows. simpl existsb. rewrite orb_false_r.
    destruct (last_is (last_called s) CAsk || last_is (last_called s) CAskDqd); simpl; split; intros H; try discriminate; auto.
    all: try (match goal with |- context [ask_route ?a ?b ?c ?d ?e] => destruct (ask_route a b c d e) as [[sols0 nums0] el0] end; reflexivity).
  - exists (GForbid [CAsk; CAskDqd]), CAskDqd. split; [simpl; auto|]. split; [reflexivity|].
    unfold sched_step, ask_gen, allows. simpl existsb. rewrite orb_false_r.
    destruct (last_is (last_called s) CAsk || last_is (last_called s) CAskDqd); simpl; split; intros H; try discriminate; auto.
    all: try (match goal with |- context [ask_route ?a ?b ?c ?d ?e] => destruct (ask_route a b c d e) as [[sols0 nums0] el0] end; reflexivity).
  - exists (GRequire CAsk), CTell. split; [simpl; auto|]. split; [reflexivity|].
    unfold sched_step, tell_gen, allows. simpl ask_call.
    destruct (last_is (last_called s) CAsk); simpl; split; intros H; try discriminate; auto.
    all: try (destruct (negb (lens_ok _ _)); [reflexivity|]).
    all: try (match goal with |- context [add_to_archives ?a ?b ?c ?d ?e ?f ?g] => destruct (add_to_archives a b c d e f g) as [[ar rr] [info|err0]] end; reflexivity).
  - exists (GRequire CAskDqd), CTellDqd. split; [simpl; auto|]. split; [reflexivity|].
    unfold sched_step, tell_gen, allows. simpl ask_call.
    destruct (last_is (last_called s) CAskDqd); simpl; split; intros H; try discriminate; auto.
    all: try (destruct (negb (lens_ok _ _)); [reflexivity|]).
    all: try (destruct (negb (Nat.eqb _ _)); [reflexivity|]).
    all: try (match goal with |- context [add_to_archives ?a ?b ?c ?d ?e ?f ?g] => destruct (add_to_archives a b c d e f g) as [[ar rr] [info|err0]] end; reflexivity).
Qed.

(** BanditScheduler: ask / tell (ask_dqd / tell_dqd are not implemented there) *)
Variable status_nz : F -> bool.

Theorem bandit_protocol_table (s : bandit V F) (o : bop V F) (m : call) :
  match o with BAsk _ _ _ _ => m = CAsk | BTell _ => m = CTell | _ => False end ->
  exists g nxt, In (m, g, nxt) gen_proto_BanditScheduler /\ nxt = m /\
    (allows g (last_called (core s)) = false -> bandit_step status_nz s o = (s, Err RuntimeError)) /\
    (allows g (last_called (core s)) = true -> last_called (core (fst (bandit_step status_nz s o))) = Some nxt).
Proof.
  destruct o as [rin scores chosen resp|a| |]; intros Hm; try contradiction; subst m.
  - exists (GForbid [CAsk]), CAsk. split; [simpl; auto|]. split; [reflexivity|].
    unfold bandit_step, bandit_ask, allows. simpl existsb. rewrite orb_false_r.
    destruct (last_is (last_called (core s)) CAsk); simpl; split; intros H; try discriminate; auto.
    all: try destruct (ask_pre s rin) as [[resel kept] restarts'].
    all: try reflexivity.
    all: try (match goal with |- context [ask_route ?a ?b ?c ?d ?e] => destruct (ask_route a b c d e) as [[sols0 nums0] el0] end; reflexivity).
  - exists (GRequire CAsk), CTell. split; [simpl; auto|]. split; [reflexivity|].
    unfold bandit_step, bandit_tell, allows.
    destruct (last_is (last_called (core s)) CAsk); simpl; split; intros H; try discriminate; auto.
    all: try (destruct (negb (lens_ok _ _)); [reflexivity|]).
    all: try (match goal with |- context [add_to_archives ?a ?b ?c ?d ?e ?f ?g] => destruct (add_to_archives a b c d e f g) as [[ar rr] [info|err0]] end; [|reflexivity]).
    all: try (match goal with |- context [credit ?a ?b ?c ?d] => destruct (credit a b c d) as [sel suc] end; reflexivity).
    all: try reflexivity.
Qed.

End Proto.

Print Assumptions scheduler_protocol_table.
Print Assumptions bandit_protocol_table.
