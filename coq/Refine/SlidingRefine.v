(** C15 -- SolutionBuffer / SlidingBoundariesArchive._remap / add_single as harness/py2v_sliding.py reads them from the CURRENT source
    (Generated/SlidingGen.v, rewritten on every run) against Model/Sliding.v: the three translated tests and indices are the model's,
    for all arguments; the statement-level facts are those the model renders. *)
From Coq Require Import List Arith Bool ZArith QArith Lia.
From PV Require Import Base.ListUtil Base.QUtil Model.Store Model.Archive Model.Sliding Model.SlidingFacts Generated.SlidingGen.
Import ListNotations.

(** the j-th new boundary of a dimension is the sorted measure at index int(j * size / d); the last one is the largest *)
Theorem gen_sample_idx_is_model : forall (d : nat) (srt : list Q),
  new_bnd1 d srt = map (fun j => nth (gen_sample_idx j (length srt) d) srt 0%Q) (seq 0 d) ++ [last srt 0%Q].
Proof. intros. reflexivity. Qed.

(** ... and that index is always INSIDE the sorted measures whenever there is at least one of them: the default of [nth] above is
    never what a boundary is made of *)
Theorem gen_sample_idx_in_range : forall (j size d : nat), (j < d)%nat -> (0 < size)%nat -> (gen_sample_idx j size d < size)%nat.
Proof.
  intros j size d Hj Hs. unfold gen_sample_idx. apply Nat.div_lt_upper_bound; [lia|]. nia.
Qed.

Section SlidingRefine.
Variable P : Type.
Notation sstate := (Sliding.sstate P).
Notation entry := (Sliding.entry P).

(** the buffer is full iff it holds at least [s_cap] entries; a full buffer loses its OLDEST entry *)
Theorem gen_buf_full_is_model : forall (c : scfg) (buf : list entry),
  buf_full c buf = gen_buf_full (s_cap c) (length buf) /\
  buf_add c buf = (fun e => (if gen_buf_full (s_cap c) (length buf) then tl buf else buf) ++ [e]).
Proof. intros. split; reflexivity. Qed.

(** hence a buffer within its capacity stays within it, whatever is added and however often *)
Theorem gen_buf_stays_within_capacity : forall (c : scfg) (es : list entry) (buf : list entry),
  (0 < s_cap c)%nat -> (length buf <= s_cap c)%nat -> (length (fold_left (buf_add c) es buf) <= s_cap c)%nat.
Proof.
  intros c es; induction es as [|e es IH]; intros buf Hc Hb; cbn [fold_left]; [exact Hb|].
  apply IH; [exact Hc|]. destruct (gen_buf_full_is_model c buf) as [_ ->]. unfold gen_buf_full.
  destruct (Nat.leb_spec (s_cap c) (length buf)) as [Hfull|Hroom]; rewrite app_length; cbn [length].
  - destruct buf as [|b0 buf]; cbn [tl length] in *; lia.
  - lia.
Qed.

(** add_single remaps exactly when the running count is a multiple of the remap frequency (the count already includes the new entry,
    the buffer already holds it) *)
Theorem gen_remap_due_is_model : forall stale (c : scfg) (st : sstate) (e : entry),
  let st1 := mkSS (ss_arch st) (buf_add c (ss_buf st) e) (S (ss_total st)) (ss_geom st) in
  gen_remap_due (S (ss_total st)) (s_freq c) = true -> sadd_single stale c st e = remap stale c st1.
Proof.
  intros stale c st e st1 H. unfold sadd_single. unfold gen_remap_due in H. rewrite H. reflexivity.
Qed.

Theorem gen_remap_not_due_is_model : forall stale (c : scfg) (st : sstate) (e : entry),
  gen_remap_due (S (ss_total st)) (s_freq c) = false ->
  ss_geom (fst (sadd_single stale c st e)) = ss_geom st /\ ss_buf (fst (sadd_single stale c st e)) = buf_add c (ss_buf st) e.
Proof.
  intros stale c st e H. unfold sadd_single. unfold gen_remap_due in H. rewrite H.
  destruct (add_single _ _ _) as [a' fb]. simpl. split; reflexivity.
Qed.
End SlidingRefine.

Theorem gen_sliding_facts_are_model : gen_sliding_facts = model_sliding_facts.
Proof. reflexivity. Qed.

Print Assumptions gen_sample_idx_is_model.
Print Assumptions gen_buf_full_is_model.
Print Assumptions gen_remap_due_is_model.
Print Assumptions gen_remap_not_due_is_model.
Print Assumptions gen_sliding_facts_are_model.
Print Assumptions gen_sample_idx_in_range.
Print Assumptions gen_buf_stays_within_capacity.
