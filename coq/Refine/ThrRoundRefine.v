(** C05 -- the new-threshold expression of single_entry_with_threshold as the translator reads it from the CURRENT source, over R
    with one rounding per arithmetic operation (Generated/ThrGenR.v, rewritten on every run), IS Model/ThrRound.v's, for all
    roundings and arguments. *)
From Coq Require Import Reals.
From PV Require Import Model.ThrRound Generated.ThrGenR.
Open Scope R_scope.

Theorem gen_single_thr_r_is_model : forall (rs rm ra : R -> R) (t a f : R),
  gen_single_thr_r rs rm ra t a f = single_r rs rm ra t a f.
Proof. intros. reflexivity. Qed.

Print Assumptions gen_single_thr_r_is_model.
