(** C19 -- the arithmetic of GradientArborescenceEmitter.{tell_dqd, ask, tell} as the translator reads it from the CURRENT source
    (Generated/DqdGen.v, rewritten on every run) IS what Model/DQD.v is built from: gradient normalisation, the branching point plus the
    combination of gradients, the gradient step toward the mean, the "no parents selected: the solution point stays" guard; and the
    collaborator calls of tell come in the order in which [gae_tell] logs them. *)
From Coq Require Import List Arith Bool ZArith QArith.
From PV Require Import Base.ListUtil Base.QVec Model.Store Model.ESControl Model.DQD Model.DqdPhases Generated.DqdGen.
Import ListNotations.
Open Scope Q_scope.

Lemma vadd_map2 : forall a b, vadd a b = map2 Qplus a b.
Proof. induction a as [|x a IH]; intros [|y b]; simpl; try reflexivity. rewrite IH. reflexivity. Qed.

Lemma vsub_map2 : forall a b, vsub a b = map2 Qminus a b.
Proof. induction a as [|x a IH]; intros [|y b]; simpl; try reflexivity. rewrite IH. reflexivity. Qed.

Lemma map2_map_r {A B C D} (f : A -> C -> D) (h : B -> C) : forall l1 l2,
  map2 f l1 (map h l2) = map2 (fun a b => f a (h b)) l1 l2.
Proof. induction l1 as [|x l1 IH]; intros [|y l2]; simpl; try reflexivity. rewrite IH. reflexivity. Qed.

(** tell_dqd: jacobian / (norm + epsilon), gradient by gradient, coordinate by coordinate *)
Theorem gen_normalise_is_model : forall eps norms J,
  normalise eps norms J = map2 (fun v m => map (fun g => gen_normalised g (gen_norm_denominator m eps)) v) J norms.
Proof. intros. unfold normalise. rewrite map2_map_r. reflexivity. Qed.

(** ask: theta + sum_j coeff_j * grad_j *)
Theorem gen_branch_is_model : forall n point coeffs grads,
  branch n point coeffs grads = map2 gen_branch_coord point (lincomb n coeffs grads).
Proof. intros. unfold branch. rewrite vadd_map2. reflexivity. Qed.

(** ... so the whole batch ask() returns is, row by row and coordinate by coordinate, the source's expression *)
Theorem gen_ask_is_model : forall (c : gae_cfg) (s : gae) (coeffs : list (list Q)) (g : list vec),
  jac s = Some g ->
  gae_ask c s coeffs = Ok (map (fun cs => map2 gen_branch_coord (theta s) (lincomb (g_n c) cs g)) coeffs).
Proof.
  intros c s coeffs g Hj. unfold gae_ask. rewrite Hj. f_equal. apply map_ext. intros cs. apply gen_branch_is_model.
Qed.

(** tell: gradient_step = new_mean - theta *)
Theorem gen_step_is_model : forall new_mean th, vsub new_mean th = map2 gen_step_coord new_mean th.
Proof. intros. rewrite vsub_map2. reflexivity. Qed.

(** tell: the step is taken exactly when parents were selected *)
Theorem gen_moves_is_model : forall np : nat, (true && (np =? 0)%nat) = negb (gen_moves np).
Proof. intros [|np]; reflexivity. Qed.

(** the order of the collaborator calls *)
Theorem gen_tell_phases_are_model : gen_tell_phases = model_tell_phases.
Proof. reflexivity. Qed.

(** ... which is the order of the action log of [gae_tell]: opt.tell first, then at most one step, then (on restart) the four
    restart actions *)
Theorem model_tell_log_order : forall c i s log s',
  gae_tell c i s = Ok (log, s') ->
  exists np steplog tail, log = GOptTell (t_idx i) np :: steplog ++ tail /\
    (steplog = [] \/ exists g, steplog = [GStep g]) /\
    (tail = [] \/ exists x, tail = [GSample 1; GGradReset x; GOptReset0; GRankerReset]).
Proof.
  intros c i s log s' H. unfold gae_tell, gae_tell_with in H.
  destruct (jac s) as [j|]; [|discriminate].
  set (np := num_parents (g_ctl c) (count_new (t_status i))) in *.
  destruct (true && (np =? 0)%nat) eqn:E.
  - destruct (t_stop i || check_restart (c_rule (g_ctl c)) (S (g_itrs s)) (count_new (t_status i))).
    + destruct (pick_elite i) as [x|]; [|discriminate]. inversion H; subst.
      exists np, [], [GSample 1; GGradReset x; GOptReset0; GRankerReset]. simpl. split; [reflexivity|]. split; [left; reflexivity|right; eauto].
    + inversion H; subst. exists np, [], []. simpl. split; [reflexivity|]. split; left; reflexivity.
  - destruct (t_stop i || check_restart (c_rule (g_ctl c)) (S (g_itrs s)) (count_new (t_status i))).
    + destruct (pick_elite i) as [x|]; [|discriminate]. inversion H; subst.
      eexists np, [GStep _], [GSample 1; GGradReset x; GOptReset0; GRankerReset]. simpl. split; [reflexivity|]. split; [right; eauto|right; eauto].
    + inversion H; subst. eexists np, [GStep _], []. simpl. split; [reflexivity|]. split; [right; eauto|left; reflexivity].
Qed.

Print Assumptions gen_normalise_is_model.
Print Assumptions gen_branch_is_model.
Print Assumptions gen_ask_is_model.
Print Assumptions gen_step_is_model.
Print Assumptions gen_moves_is_model.
Print Assumptions gen_tell_phases_are_model.
Print Assumptions model_tell_log_order.
