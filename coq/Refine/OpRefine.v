(** C08 -- one coordinate of GaussianOperator.ask / IsoLineOperator.ask as the translator reads it from the CURRENT source
    (Generated/OpGen.v, rewritten on every run), applied coordinate by coordinate and row by row, IS Model/Emit.v's [gaussian_op] /
    [isoline_op]; and the source draws its noise in the shapes the model assumes (Model/OpFacts.v). *)
From Coq Require Import List QArith.
From PV Require Import Model.Store Model.Emit Model.OpFacts Generated.OpGen Proofs.EmitProofs.
Import ListNotations.
Open Scope Q_scope.

Fixpoint zip_gauss (p z : row) (lo hi : list ebound) : row :=
  match p, z, lo, hi with
  | x :: p', y :: z', l :: lo', h :: hi' => gen_gauss_coord x y l h :: zip_gauss p' z' lo' hi'
  | _, _, _, _ => []
  end.

Fixpoint zip_iso (e p1 iso : row) (g : Q) (lo hi : list ebound) : row :=
  match e, p1, iso, lo, hi with
  | x :: e', q :: p1', n :: iso', l :: lo', h :: hi' => gen_iso_coord x q n g l h :: zip_iso e' p1' iso' g lo' hi'
  | _, _, _, _, _ => []
  end.

Lemma gauss_row : forall p z lo hi, clip_row (vadd p z) lo hi = zip_gauss p z lo hi.
Proof.
  induction p as [|x p IH]; intros [|y z] [|l lo] [|h hi]; simpl; try reflexivity.
  rewrite IH. reflexivity.
Qed.

Lemma iso_row : forall e p1 iso g lo hi, clip_row (isoline_row e p1 iso g) lo hi = zip_iso e p1 iso g lo hi.
Proof.
  unfold isoline_row.
  induction e as [|x e IH]; intros [|q p1] [|n iso] g [|l lo] [|h hi]; simpl; try reflexivity.
  rewrite IH. reflexivity.
Qed.

Lemma map_map2 {A B C D} (f : C -> D) (g : A -> B -> C) : forall l1 l2, map f (map2 g l1 l2) = map2 (fun a b => f (g a b)) l1 l2.
Proof. induction l1 as [|a l1 IH]; intros [|b l2]; simpl; try reflexivity. rewrite IH. reflexivity. Qed.

Lemma map2_ext {A B C} (f g : A -> B -> C) : (forall a b, f a b = g a b) -> forall l1 l2, map2 f l1 l2 = map2 g l1 l2.
Proof. intros H. induction l1 as [|a l1 IH]; intros [|b l2]; simpl; try reflexivity. rewrite H, IH. reflexivity. Qed.

Theorem gen_gaussian_is_model : forall lo hi parents noise,
  gaussian_op lo hi parents noise = map2 (fun p z => zip_gauss p z lo hi) parents noise.
Proof.
  intros. unfold gaussian_op, clip_matrix. rewrite map_map2. apply map2_ext. intros. apply gauss_row.
Qed.

Fixpoint rows_iso (p0 p1 iso : matrix) (line : list Q) (lo hi : list ebound) : matrix :=
  match p0, p1, iso, line with
  | e :: t0, q :: t1, n :: tn, g :: tg => zip_iso e q n g lo hi :: rows_iso t0 t1 tn tg lo hi
  | _, _, _, _ => []
  end.

Theorem gen_isoline_is_model : forall lo hi p0 p1 iso line,
  isoline_op lo hi p0 p1 iso line = rows_iso p0 p1 iso line lo hi.
Proof.
  intros lo hi. unfold isoline_op, clip_matrix.
  induction p0 as [|e p0 IH]; intros [|q p1] [|n iso] [|g line]; simpl; try reflexivity.
  rewrite iso_row, IH. reflexivity.
Qed.

(** ... and so are the emitters' ask paths on a non-empty archive (or without initial_solutions): every returned row is the source's
    per-coordinate expression applied to a parent row and a row of draws *)
Theorem gen_gaussian_ask_is_model : forall (c : ecfg) (elites : matrix) ints z,
  (elites <> [] \/ e_init c = None) ->
  gaussian_ask c elites ints z =
  map2 (fun p n => zip_gauss p n (e_lo c) (e_hi c)) (parents_of c elites (e_batch c) ints) (draw_matrix (e_batch c) (e_dim c) z).
Proof.
  intros c elites ints z H. unfold gaussian_ask.
  destruct elites as [|e t]; [destruct H as [H|H]; [contradiction|rewrite H]|]; apply gen_gaussian_is_model.
Qed.

Theorem gen_isoline_ask_is_model : forall (c : ecfg) (elites : matrix) ints iso line,
  (elites <> [] \/ e_init c = None) ->
  isoline_ask c elites ints iso line =
  let ps := parents_of c elites (2 * e_batch c) ints in
  rows_iso (firstn (e_batch c) ps) (skipn (e_batch c) ps) (draw_matrix (e_batch c) (e_dim c) iso) (tabulate (e_batch c) line) (e_lo c) (e_hi c).
Proof.
  intros c elites ints iso line H. unfold isoline_ask.
  destruct elites as [|e t]; [destruct H as [H|H]; [contradiction|rewrite H]|]; cbv zeta; apply gen_isoline_is_model.
Qed.

(** the coordinate expressions read from the source land inside the bounds for EVERY parent, draw and line coefficient, as soon as
    the bounds are ordered (a missing bound constrains nothing) *)
Theorem gen_coords_in_bounds : forall (lo hi : ebound), ebound_le lo hi ->
  (forall p z, in_bounds (gen_gauss_coord p z lo hi) lo hi) /\
  (forall e p1 iso g, in_bounds (gen_iso_coord e p1 iso g lo hi) lo hi).
Proof.
  intros lo hi Hb. split; intros; unfold gen_gauss_coord, gen_iso_coord; apply clip_in_bounds; exact Hb.
Qed.

Theorem gen_op_facts_are_model : gen_op_facts = model_op_facts.
Proof. reflexivity. Qed.

Print Assumptions gen_gaussian_is_model.
Print Assumptions gen_isoline_is_model.
Print Assumptions gen_gaussian_ask_is_model.
Print Assumptions gen_isoline_ask_is_model.
Print Assumptions gen_op_facts_are_model.
Print Assumptions gen_coords_in_bounds.
