(** C20 -- the data handling of grid_archive_heatmap as harness/py2v_gridviz.py reads it from the CURRENT source
    (Generated/GridVizGen.v, rewritten on every run) exhibits exactly the facts Model/Viz.v renders; the lemma below spells out the
    central one (row = y, column = x) on the model. *)
From Coq Require Import List Arith QArith Lia.
From PV Require Import Base.ListUtil Base.MixedRadixViz Model.Store Model.Viz Model.GridVizFacts Generated.GridVizGen Proofs.VizProofs.
Import ListNotations.

Theorem gen_gridviz_facts_are_model : gen_gridviz_facts = model_gridviz_facts.
Proof. reflexivity. Qed.

(** TwoDimMatrixRowIsYColumnIsX / TransposeSwapsBoundsAndMatrix, on a concrete asymmetric instance evaluated by the kernel: a 3 x 2
    grid with elites in cells (x, y) = (0, 0), (1, 1), (2, 0) *)
Example model_row_is_y_column_is_x :
  grid2d_colors 3 2 [0; 3; 4]%nat [1; 7; 5]%Q = [[Some 1%Q; None; Some 5%Q]; [None; Some 7%Q; None]] /\
  transpose None 3 (grid2d_colors 3 2 [0; 3; 4]%nat [1; 7; 5]%Q) = [[Some 1%Q; None]; [None; Some 7%Q]; [Some 5%Q; None]].
Proof. split; vm_compute; reflexivity. Qed.

(** ... and for EVERY grid and every listing of distinct in-range cells: the colour at row y, column x of the matrix handed to
    pcolormesh is the objective of the elite whose flat index is x * dy + y (grid index (x, y)), and blank iff no elite is there *)
Theorem model_row_is_y_column_is_x_all : forall (dx dy : nat) (idxs : list nat) (objs : list Q) (x y : nat),
  length idxs = length objs -> NoDup idxs -> (forall i, In i idxs -> (i < dx * dy)%nat) ->
  (x < dx)%nat -> (y < dy)%nat ->
  let c := nth x (nth y (grid2d_colors dx dy idxs objs) []) None in
  (forall o, c = Some o <-> In ((x * dy + y)%nat, o) (combine idxs objs)) /\
  (c = None <-> ~ In (x * dy + y)%nat idxs).
Proof.
  intros dx dy idxs objs x y Hl Hnd Hr Hx Hy.
  assert (E : ravel [dx; dy] [x; y] = (x * dy + y)%nat) by (unfold ravel, prod; simpl; lia).
  rewrite <- E. exact (@grid2d_cell dx dy idxs objs x y Hl Hnd Hr Hx Hy).
Qed.

Print Assumptions gen_gridviz_facts_are_model.
Print Assumptions model_row_is_y_column_is_x_all.
