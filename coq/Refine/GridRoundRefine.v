(** C03 -- the raw index expression of GridArchive.index_of as the translator reads it from the CURRENT source, over R with one
    rounding per arithmetic operation (Generated/GridGenR.v, rewritten on every run), IS the expression of Model/GridRound.v,
    for all roundings and all arguments.  (The clip bounds 0 and dims - 1 and the clip-then-cast order are checked by the
    translator itself and tied to the exact model in Refine/GridRefine.v.) *)
From Coq Require Import Reals.
From PV Require Import Model.GridRound Generated.GridGenR.
Open Scope R_scope.

Theorem gen_grid_raw_r_is_model : forall (rs rm ra rq : R -> R) (D lo eps w m : R),
  gen_grid_raw_r rs rm ra rq D lo eps w m = raw_r rs rm ra rq D lo eps w m.
Proof. intros. reflexivity. Qed.

Print Assumptions gen_grid_raw_r_is_model.
