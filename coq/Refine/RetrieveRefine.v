(** C07 -- ArchiveBase.retrieve / retrieve_single / sample_elites as harness/py2v_retrieve.py reads them from the CURRENT source
    (Generated/RetrieveGen.v, rewritten on every run) against Model/Archive.v; the lemmas say what the facts mean in the model. *)
From Coq Require Import List Arith Bool.
From PV Require Import Model.Store Model.Archive Model.RetrieveFacts Generated.RetrieveGen.
Import ListNotations.

Theorem gen_retrieve_facts_are_model : gen_retrieve_facts = model_retrieve_facts.
Proof. reflexivity. Qed.

Section RetrieveRefine.
Variable P : Type.
Notation archive := (Archive.archive P).

(** RetrieveBlanksUnoccupiedOnly: a row is blank exactly when its cell holds nothing; otherwise it is the cell's own (index, row) *)
Theorem model_retrieve_row : forall (a : archive) (q : list nat) k i,
  nth_error q k = Some i ->
  nth_error (retrieve_cells a q) k =
  Some (match content a i with Some r => (true, Some (i, r)) | None => (false, None) end).
Proof.
  intros a q k i H. unfold retrieve_cells. rewrite nth_error_map, H. reflexivity.
Qed.

(** SampleEmptyRaisesIndexError / SampleThroughOccupiedList / SampleOwnGeneratorBelowLen: with positions below the bound the source
    uses, every sampled row is an entry of the occupied list *)
Theorem model_sample_rows : forall (a : archive) (ints : list nat),
  len (a_store a) <> 0 ->
  sample a ints = Ok (map (fun k => let i := nth k (olist (a_store a)) 0 in (i, get_row (a_store a) i)) ints).
Proof.
  intros a ints H. unfold sample. destruct (Nat.eqb_spec (len (a_store a)) 0); [contradiction|reflexivity].
Qed.

Theorem model_sample_in_olist : forall (a : archive) (ints : list nat) k,
  In k ints -> k < gen_sample_bound (len (a_store a)) -> In (nth k (olist (a_store a)) 0) (olist (a_store a)).
Proof.
  intros a ints k _ Hk. unfold gen_sample_bound, len in Hk. apply nth_In. exact Hk.
Qed.
End RetrieveRefine.

Print Assumptions gen_retrieve_facts_are_model.
Print Assumptions model_retrieve_row.
Print Assumptions model_sample_rows.
Print Assumptions model_sample_in_olist.
