(** C20 -- the body of cvt_archive_heatmap's loop over the Voronoi regions as the translator reads it from the CURRENT source
    (Generated/VizPolyGen.v, rewritten on every run) IS Model/VizPoly.v's [model_body]; hence the alignment theorems of
    Proofs/VizPolyProofs.v hold for the program the source contains now. *)
From Coq Require Import List Arith QArith.
From PV Require Import Model.VizPoly Proofs.VizPolyProofs Generated.VizPolyGen.
Import ListNotations.
Local Open Scope nat_scope.

Theorem gen_body_is_model : gen_body = model_body.
Proof. reflexivity. Qed.

Theorem gen_picture_colours : forall clip (regions : list region),
  exists vs fs, picture clip gen_body regions = Some (vs, fs) /\ length fs = length vs /\
    forall j rid, nth_error vs j = Some rid ->
      exists r, nth_error regions rid = Some r /\ r_skip r = false /\ nth_error fs j = Some (colour_of (r_obj r)).
Proof. rewrite gen_body_is_model. exact picture_colours. Qed.

Theorem gen_picture_piece_count : forall clip (regions : list region),
  exists vs fs, picture clip gen_body regions = Some (vs, fs) /\
    forall rid r, nth_error regions rid = Some r ->
      count_occ Nat.eq_dec vs rid = if r_skip r then 0 else pieces clip r.
Proof. rewrite gen_body_is_model. exact picture_piece_count. Qed.

Print Assumptions gen_body_is_model.
Print Assumptions gen_picture_colours.
Print Assumptions gen_picture_piece_count.
