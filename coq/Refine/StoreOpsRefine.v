(** C13 -- ArrayStore.clear / resize / the getters / the iterator as harness/py2v_storeops.py reads them from the CURRENT source
    (Generated/StoreOpsGen.v, rewritten on every run) against Model/Store.v: the two translated tests are the model's, for all
    arguments; the statement-level facts are the ones the model renders, and the lemmas below say what each fact means in the model. *)
From Coq Require Import List Arith Bool.
From PV Require Import Model.Store Model.StoreOpsFacts Generated.StoreOpsGen.
Import ListNotations.

Section StoreOps.
Variable R : Type.
Notation store := (Store.store R).

Theorem gen_resize_rejects_is_model : forall (s : store) c,
  snd (resize s c) = (if gen_resize_rejects c (cap s) then Err ValueError else Ok tt) /\
  (gen_resize_rejects c (cap s) = true -> fst (resize s c) = s).
Proof.
  intros s c. unfold resize, gen_resize_rejects. destruct (Nat.leb c (cap s)); simpl; split; auto; discriminate.
Qed.

Theorem gen_iter_at_end_is_model : forall (s : store) (it : iter),
  it_add it = nadd s -> it_clear it = nclear s ->
  gen_iter_at_end (it_pos it) (len s) = true -> iter_next s it = (it, Stop R).
Proof.
  intros s it Ha Hc He. unfold iter_next, gen_iter_at_end in *. rewrite Ha, Hc, !Nat.eqb_refl. simpl. rewrite He. reflexivity.
Qed.

(** ... and before the end an unmodified store yields the entry at the next position of occupied_list and advances by one *)
Theorem gen_iter_yields_is_model : forall (s : store) (it : iter),
  it_add it = nadd s -> it_clear it = nclear s ->
  gen_iter_at_end (it_pos it) (len s) = false ->
  iter_next s it = (mkIter (S (it_pos it)) (it_add it) (it_clear it),
                    Yield (nth (it_pos it) (olist s) 0) (get_row s (nth (it_pos it) (olist s) 0))).
Proof.
  intros s it Ha Hc He. unfold iter_next, gen_iter_at_end in *. rewrite Ha, Hc, !Nat.eqb_refl. simpl. rewrite He. reflexivity.
Qed.

(** IteratorChecksCountersThenEnd: a modified store is reported even at the end of the iteration *)
Theorem model_iter_counters_first : forall (s : store) (it : iter),
  (it_add it <> nadd s \/ it_clear it <> nclear s) -> iter_next s it = (it, Modified R).
Proof.
  intros s it H. unfold iter_next.
  destruct (Nat.eqb_spec (it_add it) (nadd s)); destruct (Nat.eqb_spec (it_clear it) (nclear s)); simpl; try reflexivity.
  destruct H; contradiction.
Qed.

(** ClearCountsResetsLenAndMaskOnly *)
Theorem model_clear_facts : forall s : store,
  len (clear s) = 0 /\ nclear (clear s) = S (nclear s) /\ nadd (clear s) = nadd s /\ cap (clear s) = cap s /\
  rows (clear s) = rows s /\ (forall i, get_occ (clear s) i = false).
Proof.
  intros s. unfold clear, len, get_occ. simpl. repeat split.
  intros i. revert i. induction (cap s) as [|n IH]; intros [|i]; simpl; auto.
Qed.

(** ResizeExtendsKeepsPrefixAndCounters *)
Theorem model_resize_facts : forall (s : store) c, cap s < c ->
  let s' := fst (resize s c) in
  cap s' = c /\ olist s' = olist s /\ nadd s' = nadd s /\ nclear s' = nclear s /\
  (forall i, i < length (occ s) -> get_occ s' i = get_occ s i) /\
  (forall i, i < length (rows s) -> get_row s' i = get_row s i).
Proof.
  intros s c Hc. unfold resize. destruct (Nat.leb_spec c (cap s)) as [Hle|_]; [exfalso; apply (Nat.lt_irrefl c); eapply Nat.le_lt_trans; eauto|].
  simpl. repeat split.
  - intros i Hi. unfold get_occ. simpl. apply app_nth1. exact Hi.
  - intros i Hi. unfold get_row. simpl. apply app_nth1. exact Hi.
Qed.
End StoreOps.

Theorem gen_storeops_facts_are_model : gen_storeops_facts = model_storeops_facts.
Proof. reflexivity. Qed.

Print Assumptions gen_resize_rejects_is_model.
Print Assumptions gen_iter_at_end_is_model.
Print Assumptions gen_iter_yields_is_model.
Print Assumptions model_iter_counters_first.
Print Assumptions model_clear_facts.
Print Assumptions model_resize_facts.
Print Assumptions gen_storeops_facts_are_model.
