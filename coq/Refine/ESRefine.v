(** Refinement: the control logic translated from the CURRENT source of EvolutionStrategyEmitter and
    GradientArborescenceEmitter (Generated/ESGen.v, rewritten on every run by harness/py2v_es.py) is the one of
    Model/ESControl.v, for all arguments, and the two copies in the two classes are the same function:
    `_check_restart` (per restart rule), the number of parents, and the restart decision of `tell` (evaluated after
    `_itrs += 1`, on the number of inserted solutions). *)
From Coq Require Import List ZArith Arith Bool Lia.
From PV Require Import Base.ListUtil Model.Store Model.ESControl Generated.ESGen.

Theorem gen_check_restart_ESE_refines r itrs n : gen_check_restart_ESE r itrs n = check_restart r itrs n.
Proof. destruct r; reflexivity. Qed.

Theorem gen_check_restart_GAE_refines r itrs n : gen_check_restart_GAE r itrs n = check_restart r itrs n.
Proof. destruct r; reflexivity. Qed.

Theorem gen_check_restart_same r itrs n : gen_check_restart_ESE r itrs n = gen_check_restart_GAE r itrs n.
Proof. destruct r; reflexivity. Qed.

Theorem gen_num_parents_refines k sel r batch new_sols :
  gen_num_parents_ESE sel new_sols batch = num_parents (mkCfg k sel r batch) new_sols /\
  gen_num_parents_GAE sel new_sols batch = num_parents (mkCfg k sel r batch) new_sols.
Proof. destruct sel; split; reflexivity. Qed.

(** the number of parents read from the source never exceeds the batch when at most [batch] solutions were inserted (always the case:
    the insertion count is a count over the batch), so `parents[:num_parents]` never reaches past the ranked rows *)
Theorem gen_num_parents_le_batch sel new_sols batch : (new_sols <= batch)%nat ->
  (gen_num_parents_ESE sel new_sols batch <= batch)%nat /\ (gen_num_parents_GAE sel new_sols batch <= batch)%nat.
Proof.
  intros H. destruct sel; cbn [gen_num_parents_ESE gen_num_parents_GAE]; split; try exact H;
  (destruct batch as [|b]; [reflexivity|apply Nat.lt_le_incl, Nat.div_lt; lia]).
Qed.

(** the restart decision taken by the model's [tell] is the translated one, for both classes *)
Theorem gen_restart_refines (P V : Type) (c : cfg) (e : env P V) (s : state P) rows statuses :
  let itrs1 := S (itrs s) in
  let new_sols := count_new statuses in
  let sorted := take_rows (snd (e_rank e rows statuses)) (fst (e_rank e rows statuses)) in
  let decision := e_stop e sorted || check_restart (c_rule c) itrs1 new_sols in
  decision = gen_restart_ESE (c_rule c) (e_stop e sorted) itrs1 new_sols /\
  decision = gen_restart_GAE (c_rule c) (e_stop e sorted) itrs1 new_sols /\
  (decision = false ->
     let '(log, s', _) := tell c e s rows statuses in restarted log = false /\ restarts s' = restarts s /\ itrs s' = itrs1).
Proof.
  cbv zeta. unfold gen_restart_ESE, gen_restart_GAE.
  split; [destruct (c_rule c); reflexivity|]. split; [destruct (c_rule c); reflexivity|].
  intros Hd. unfold tell. destruct (e_rank e rows statuses) as [indices vals]. simpl fst in Hd; simpl snd in Hd.
  rewrite Hd. simpl. auto.
Qed.

Print Assumptions gen_check_restart_ESE_refines.
Print Assumptions gen_check_restart_GAE_refines.
Print Assumptions gen_check_restart_same.
Print Assumptions gen_num_parents_refines.
Print Assumptions gen_restart_refines.
Print Assumptions gen_num_parents_le_batch.
