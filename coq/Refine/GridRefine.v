(** Refinement: the index arithmetic translated from the CURRENT source of GridArchive.index_of and the clip expression of
    SlidingBoundariesArchive.index_of (Generated/GridGen.v, rewritten on every run by harness/py2v_grid.py) equal the models'
    definitions for ALL arguments: the raw expression (up to [==], so algebraically equivalent rewrites pass), the clip bounds
    0 and dims - 1, the order clip-then-cast (the repaired order: the translator rejects a cast before the clip), and the sliding
    archive's clip(m + eps, lower, upper - eps). *)
From Coq Require Import List ZArith QArith Qminmax Qround Lqa.
From PV Require Import Base.MixedRadix Model.Grid Model.SlidingIndex Generated.GridGen Proofs.GridProofs.
Open Scope Q_scope.

Theorem gen_grid_raw_refines d lo hi eps m : gen_grid_raw d lo hi eps m == grid_raw d lo hi eps m.
Proof. unfold gen_grid_raw, grid_raw, Qdiv. ring. Qed.

Theorem gen_grid_clip_bounds d : gen_grid_clip_lo == 0 /\ gen_grid_clip_hi d == inject_Z (d - 1).
Proof.
  split; [reflexivity|]. unfold gen_grid_clip_hi. unfold Zminus. rewrite inject_Z_plus. simpl. ring.
Qed.

Lemma Qtrunc_comp x y : x == y -> Qtrunc x = Qtrunc y.
Proof.
  intros H. unfold Qtrunc. rewrite (Qleb_comp 0 0 (Qeq_refl 0) x y H).
  destruct (Qle_bool 0 y); [apply Qfloor_comp|apply Qceiling_comp]; exact H.
Qed.

Lemma clipQ_comp a a' b b' x x' : a == a' -> b == b' -> x == x' -> clipQ a b x == clipQ a' b' x'.
Proof. intros Ha Hb Hx. unfold clipQ. rewrite Ha, Hb, Hx. reflexivity. Qed.

(** the whole per-dimension index function of the current source = the model's clip-then-cast index, hence (GridProofs:
    grid_idx1_clip_first_eq) the intended index grid_idx1 about which C03's grid theorems are stated *)
Theorem gen_grid_idx1_refines d lo hi eps m : gen_grid_idx1 d lo hi eps m = grid_idx1_clip_first d lo hi eps m.
Proof.
  unfold gen_grid_idx1, grid_idx1_clip_first. apply Qtrunc_comp. apply clipQ_comp.
  - reflexivity.
  - apply gen_grid_clip_bounds.
  - apply gen_grid_raw_refines.
Qed.

(** hence what the source computes is, for EVERY measure (however far outside the bounds), a cell of the grid; it is monotone in the
    measure; and everything at or beyond the upper bound falls in the last cell *)
Theorem gen_grid_idx1_in_range d lo hi eps m : (1 <= d)%Z -> (0 <= gen_grid_idx1 d lo hi eps m < d)%Z.
Proof. intros Hd. rewrite gen_grid_idx1_refines. apply grid_idx1_clip_first_range. exact Hd. Qed.

Theorem gen_grid_idx1_mono d lo hi eps m1 m2 : (1 <= d)%Z -> lo < hi -> m1 <= m2 ->
  (gen_grid_idx1 d lo hi eps m1 <= gen_grid_idx1 d lo hi eps m2)%Z.
Proof. intros Hd Hw Hm. rewrite !gen_grid_idx1_refines. apply grid_idx1_clip_first_mono; assumption. Qed.

Theorem gen_grid_idx1_upper_edge d lo hi eps m : (1 <= d)%Z -> lo < hi -> 0 <= eps -> hi <= m ->
  gen_grid_idx1 d lo hi eps m = (d - 1)%Z.
Proof. intros Hd Hw He Hm. rewrite gen_grid_idx1_refines. apply grid_idx1_clip_first_edge_high; assumption. Qed.

(** the sliding archive: what is searched in the boundaries is clip(m + eps, lo, hi - eps), as in Model/SlidingIndex.v *)
Theorem gen_sb_clipped_refines d b lo hi eps m :
  sb_idx1 d b lo hi eps m = Nat.max 0 (searchsorted_left (firstn d b) (gen_sb_clipped lo hi eps m) - 1).
Proof. reflexivity. Qed.

Print Assumptions gen_grid_raw_refines.
Print Assumptions gen_grid_clip_bounds.
Print Assumptions gen_grid_idx1_refines.
Print Assumptions gen_sb_clipped_refines.
Print Assumptions gen_grid_idx1_in_range.
Print Assumptions gen_grid_idx1_mono.
Print Assumptions gen_grid_idx1_upper_edge.
