(** C14 -- the decision expressions of ProximityArchive.compute_novelty / add as the translator reads them from the CURRENT source
    (Generated/ProxGen.v, rewritten on every run) ARE the ones Model/Proximity.v is built from: the neighbour count, the admission
    test, the new size, the growth test, the local-competition comparison; and the source exhibits every array-level fact the model
    fixes by construction (Model/ProxFacts.v). *)
From Coq Require Import List Arith Bool QArith Lia.
From PV Require Import Base.QUtil Model.Store Model.Archive Model.Proximity Model.ProxFacts Generated.ProxGen Proofs.ProximityProofs.
Import ListNotations.

Section ProxRefine.
Variable P : Type.
Notation pstate := (Proximity.pstate P).
Notation pcand := (Proximity.pcand P).

Theorem gen_kk_is_model : forall (c : pcfg) (n : nat), gen_kk n (pk c) = kk c n.
Proof. intros. unfold gen_kk, kk. apply Nat.min_comm. Qed.

Theorem gen_novel_enough_is_model : forall (c : pcfg) (n : nat) (x : pcand),
  is_novel c n x = gen_novel_enough (novelty c n (pc_dists x)) (pthr c).
Proof. intros. reflexivity. Qed.

Theorem gen_lower_is_model : forall (st : pstate) (o : Q) (i : nat), lower st o i = gen_lower (obj_at st i) o.
Proof. intros. reflexivity. Qed.

Theorem gen_growth_is_model : forall (c : pcfg) (st : pstate) (cs : list pcand),
  grown_store c st cs =
  let new_size := gen_new_size (psize st) (length (novel_rows c st cs)) in
  if gen_must_grow new_size (cap (pstore st))
  then fst (resize (pstore st) (grow (cap (pstore st)) new_size))
  else pstore st.
Proof. intros. reflexivity. Qed.
End ProxRefine.

(** consequences that hold for every size: the neighbour count read from the source never exceeds the archive nor k, and the growth
    test read from the source always leaves room for the new size (so no novel row is ever written past the store) *)
Theorem gen_kk_bounds : forall n k : nat, (gen_kk n k <= n)%nat /\ (gen_kk n k <= k)%nat.
Proof. intros n k. unfold gen_kk. split; [apply Nat.le_min_l|apply Nat.le_min_r]. Qed.

Theorem gen_growth_makes_room : forall (capacity n m : nat), (1 <= capacity)%nat ->
  let new_size := gen_new_size n m in
  (new_size <= (if gen_must_grow new_size capacity then grow capacity new_size else capacity))%nat.
Proof.
  intros capacity n m Hc new_size. unfold gen_must_grow.
  destruct (Nat.ltb_spec capacity new_size) as [Hlt|Hge]; [apply grow_ge; exact Hc|exact Hge].
Qed.

Theorem gen_facts_are_model : gen_facts = model_facts.
Proof. reflexivity. Qed.

Print Assumptions gen_kk_is_model.
Print Assumptions gen_novel_enough_is_model.
Print Assumptions gen_lower_is_model.
Print Assumptions gen_growth_is_model.
Print Assumptions gen_facts_are_model.
Print Assumptions gen_kk_bounds.
Print Assumptions gen_growth_makes_room.
