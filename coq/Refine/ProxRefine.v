(** C14 -- the decision expressions of ProximityArchive.compute_novelty / add as the translator reads them from the CURRENT source
    (Generated/ProxGen.v, rewritten on every run) ARE the ones Model/Proximity.v is built from: the neighbour count, the admission
    test, the new size, the growth test, the local-competition comparison; and the source exhibits every array-level fact the model
    fixes by construction (Model/ProxFacts.v). *)
From Coq Require Import List Arith Bool QArith.
From PV Require Import Base.QUtil Model.Store Model.Archive Model.Proximity Model.ProxFacts Generated.ProxGen.
Import ListNotations.

Section ProxRefine.
Variable P : Type.
Notation pstate := (Proximity.pstate P).
Notation pcand := (Proximity.pcand P).

Theorem gen_kk_is_model : forall (c : pcfg) (n : nat), gen_kk n (pk c) = kk c n.
Proof. intros. unfold gen_kk, kk. apply Nat.min_comm. Qed.

Theorem gen_novel_enough_is_model : forall (c : pcfg) (n : nat) (x : pcand),
  is_novel c n x = gen_novel_enough (novelty c n (pc_dists x)) (pthr c).
Proof. intros. reflexivity. Qed.

Theorem gen_lower_is_model : forall (st : pstate) (o : Q) (i : nat), lower st o i = gen_lower (obj_at st i) o.
Proof. intros. reflexivity. Qed.

Theorem gen_growth_is_model : forall (c : pcfg) (st : pstate) (cs : list pcand),
  grown_store c st cs =
  let new_size := gen_new_size (psize st) (length (novel_rows c st cs)) in
  if gen_must_grow new_size (cap (pstore st))
  then fst (resize (pstore st) (grow (cap (pstore st)) new_size))
  else pstore st.
Proof. intros. reflexivity. Qed.
End ProxRefine.

Theorem gen_facts_are_model : gen_facts = model_facts.
Proof. reflexivity. Qed.

Print Assumptions gen_kk_is_model.
Print Assumptions gen_novel_enough_is_model.
Print Assumptions gen_lower_is_model.
Print Assumptions gen_growth_is_model.
Print Assumptions gen_facts_are_model.
