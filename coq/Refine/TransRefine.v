(** Refinement: the functions translated from the CURRENT source of ribs/archives/_transforms.py
    (Generated/TransGen.v, rewritten on every run by harness/py2v_arch.py) equal the hand-written model's
    definitions (Model/Archive.v) for ALL arguments: the insertion decision and status of
    single_entry_with_threshold, the reported value, the threshold it writes, and the closed form of
    _compute_thresholds.  Thresholds and values are compared up to [==] / [Qred], so an algebraically
    equivalent rewrite of the Python still passes, while [<] -> [<=], a swapped status, a different
    baseline, a dropped exponent or "sum instead of mean" makes these lemmas unprovable. *)
From Coq Require Import List ZArith QArith Qreduction Bool Lqa.
From PV Require Import Base.ListUtil Base.QUtil Base.FirstArgmax Model.Store Model.Archive Generated.TransGen.
Import ListNotations.
Open Scope Q_scope.
Local Arguments Qred : simpl never.

Section Refine.
Variable P : Type.

Definition thr_of (v : bool * option (row P)) : Q := match snd v with Some r => r_thr r | None => 0 end.

Lemma lt_ext_gt_ext t o : lt_ext t o = gt_ext o t.
Proof. destruct t; reflexivity. Qed.

Theorem gen_single_status (c : cfg) (s : store (row P)) (x : cand P) :
  let v := look s (c_cell x) in
  let g := gen_single (fst v) (thr_of v) (tmin c) (lr c) (c_obj x) in
  fst (fst (fst g)) = single_status c s x /\ snd g = single_ok c s x.
Proof.
  cbv zeta. unfold gen_single, single_status, single_ok, thr_base, thr_of, look. cbn [fst snd].
  rewrite lt_ext_gt_ext.
  destruct (get_occ s (c_cell x)); cbn [negb andb orb].
  - destruct (Qltb _ (c_obj x)); split; reflexivity.
  - destruct (gt_ext (c_obj x) (tmin c)); split; reflexivity.
Qed.

Theorem gen_single_value (c : cfg) (s : store (row P)) (x : cand P) :
  let v := look s (c_cell x) in
  snd (fst (fst (gen_single (fst v) (thr_of v) (tmin c) (lr c) (c_obj x)))) == value_of c s x.
Proof.
  cbv zeta. unfold gen_single, value_of, thr_base, thr_of, look. cbn [fst snd].
  rewrite lt_ext_gt_ext.
  destruct (get_occ s (c_cell x)); cbn [negb andb orb].
  - destruct (Qltb _ (c_obj x)); cbn [fst snd]; reflexivity.
  - destruct (gt_ext (c_obj x) (tmin c)); cbn [fst snd]; destruct (tmin c); reflexivity.
Qed.

Theorem gen_single_threshold (c : cfg) (s : store (row P)) (x : cand P) :
  let v := look s (c_cell x) in
  match snd (fst (gen_single (fst v) (thr_of v) (tmin c) (lr c) (c_obj x))) with
  | Some t => single_ok c s x = true /\ Qred t = single_thr c s x
  | None => single_ok c s x = false
  end.
Proof.
  cbv zeta. unfold gen_single, single_ok, single_thr, thr_base, thr_of, look. cbn [fst snd].
  rewrite lt_ext_gt_ext.
  destruct (get_occ s (c_cell x)); cbn [negb andb orb].
  - destruct (Qltb _ (c_obj x)); cbn [fst snd]; [split; [reflexivity|apply Qred_complete; ring]|reflexivity].
  - destruct (gt_ext (c_obj x) (tmin c)); cbn [fst snd]; [split; [reflexivity|]|reflexivity].
    destruct (tmin c); apply Qred_complete; ring.
Qed.

Theorem gen_batch_thr_refines (c : cfg) (t : Q) (grp : list (cand P)) :
  Qred (gen_batch_thr (lr c) (length grp) t (Qsum (map c_obj grp))) = batch_thr c t grp.
Proof.
  unfold gen_batch_thr, batch_thr. apply Qred_complete. unfold Qdiv. ring.
Qed.

End Refine.

Print Assumptions gen_single_status.
Print Assumptions gen_single_value.
Print Assumptions gen_single_threshold.
Print Assumptions gen_batch_thr_refines.
