(** Refinement: the functions translated from the CURRENT source of AdamOpt.step / GradientAscentOpt.step
    (Generated/OptGen.v, rewritten on every run) equal the published ascent rules, for all arguments.

    Published rule for Adam (Kingma & Ba 2014, Algorithm 1 with the efficient step of section 2), turned into ASCENT on f
    with optional L2 regularisation: the descent gradient is  d = l2*theta - g  (gradient of -f + l2/2*theta^2),
      t' = t+1,  m' = b1*m + (1-b1)*d,  v' = b2*v + (1-b2)*d^2,
      alpha_t = lr * sqrt(1 - b2^t') / (1 - b1^t'),   theta' = theta - alpha_t * m' / (sqrt v' + eps).
    Gradient ascent: theta' = theta + lr*g.

    [usqrt] and [upow] are uninterpreted, so the proofs are pure field algebra: arguments of [usqrt]/[upow] are first
    unified by [ring], then [field] closes the goal.  An algebraically equivalent rewrite of the Python still passes;
    a changed sign, swapped beta, dropped bias correction or dropped term does not. *)
From Coq Require Import Reals Lra Field.
From PV Require Import Generated.OptGen.
Open Scope R_scope.

Section Refine.
Variable usqrt : R -> R.
Variable upow : R -> R -> R.

Definition adam_spec (lr b1 b2 eps l2 : R) (theta m v t g : R) : R * R * R * R :=
  let d := l2 * theta - g in
  let t' := t + 1 in
  let m' := b1 * m + (1 - b1) * d in
  let v' := b2 * v + (1 - b2) * (d * d) in
  let alpha_t := lr * usqrt (1 - upow b2 t') / (1 - upow b1 t') in
  (m', t', theta - alpha_t * m' / (usqrt v' + eps), v').

Definition ga_spec (lr theta g : R) : R := theta + lr * g.

(** make the arguments of the uninterpreted functions syntactically equal wherever [ring] proves them equal *)
Ltac unify_upow :=
  repeat match goal with
  | |- context [upow ?x ?a] =>
      match goal with
      | |- context [upow x ?b] =>
          tryif constr_eq a b then fail else
            (let H := fresh "H" in assert (H : a = b) by ring; rewrite H; clear H)
      end
  end.
Ltac unify_usqrt :=
  repeat match goal with
  | |- context [usqrt ?a] =>
      match goal with
      | |- context [usqrt ?b] =>
          tryif constr_eq a b then fail else
            (let H := fresh "H" in assert (H : a = b) by ring; rewrite H; clear H)
      end
  end.
Ltac unify_atoms := unify_upow; unify_usqrt; unify_upow; unify_usqrt.

Theorem adam_step_refines : forall lr b1 b2 eps l2 theta m v t g,
  1 - upow b1 (t + 1) <> 0 ->
  usqrt (b2 * v + (1 - b2) * ((l2 * theta - g) * (l2 * theta - g))) + eps <> 0 ->
  adam_step usqrt upow b1 b2 eps l2 lr m t theta v g = adam_spec lr b1 b2 eps l2 theta m v t g.
Proof.
  intros lr b1 b2 eps l2 theta m v t g Hb Hv.
  unfold adam_step, adam_spec. cbv zeta.
  repeat match goal with |- (_, _) = (_, _) => apply f_equal2 end; try ring.
  revert Hb Hv. unify_atoms. intros Hb Hv.
  field. split; assumption.
Qed.

Theorem ga_step_refines : forall lr theta g, ga_step lr theta g = ga_spec lr theta g.
Proof. intros lr theta g. unfold ga_step, ga_spec. cbv zeta. ring. Qed.

End Refine.
