(** Lemmas about the visualisation model (Model/Viz.v). *)
From Coq Require Import List Arith Bool QArith Lia Lqa Permutation Sorted.
From PV Require Import Base.ListUtil Base.MixedRadixViz Model.Store Model.Viz.
Import ListNotations.
Local Open Scope nat_scope.

(** * Generic "fancy assignment": a fold of writes over any get/set structure *)
Section GScatter.
Variables (S K V : Type).
Variable get : S -> K -> V.
Variable set : S -> K -> V -> S.
Variable valid : S -> K -> Prop.
Hypothesis get_set_same : forall s k v, valid s k -> get (set s k v) k = v.
Hypothesis get_set_other : forall s k k' v, k <> k' -> get (set s k' v) k = get s k.
Hypothesis valid_set : forall s k k' v, valid s k -> valid (set s k' v) k.

Definition gscatter (s : S) (kvs : list (K * V)) : S :=
  fold_left (fun s kv => set s (fst kv) (snd kv)) kvs s.

Lemma gscatter_valid kvs : forall s k, valid s k -> valid (gscatter s kvs) k.
Proof.
  induction kvs as [|[k0 v0] t IH]; intros s k Hv; simpl; auto.
Qed.

Lemma gscatter_notin kvs : forall s k, ~ In k (map fst kvs) -> get (gscatter s kvs) k = get s k.
Proof.
  induction kvs as [|[k0 v0] t IH]; intros s k Hn; simpl in *; auto.
  rewrite IH by tauto. apply get_set_other. intros E; apply Hn; left; congruence.
Qed.

Lemma gscatter_in kvs : forall s k v,
  NoDup (map fst kvs) -> valid s k -> In (k, v) kvs -> get (gscatter s kvs) k = v.
Proof.
  induction kvs as [|[k0 v0] t IH]; intros s k v Hnd Hv Hin; simpl in *; [tauto|].
  inversion Hnd as [|? ? Hk0 Hnd']; subst.
  destruct Hin as [E|Hin].
  - inversion E; subst. rewrite gscatter_notin by exact Hk0. apply get_set_same; exact Hv.
  - apply IH; auto.
Qed.
End GScatter.

(** * Small list facts *)
Lemma map_fst_combine_In {A B} (ks : list A) (vs : list B) k :
  In k (map fst (combine ks vs)) -> In k ks.
Proof.
  intros H. apply in_map_iff in H. destruct H as [[k' v] [E Hin]]. simpl in E; subst.
  eapply in_combine_l; eauto.
Qed.

Lemma NoDup_map_fst_combine {A B} (ks : list A) (vs : list B) :
  NoDup ks -> NoDup (map fst (combine ks vs)).
Proof.
  revert vs; induction ks as [|k t IH]; intros vs Hnd; simpl; [constructor|].
  destruct vs as [|v vt]; simpl; [constructor|].
  inversion Hnd; subst. constructor; auto.
  intros Hin. apply map_fst_combine_In in Hin. contradiction.
Qed.

Lemma In_combine_exists_r {A B} (ks : list A) (vs : list B) k :
  length ks = length vs -> In k ks -> exists v, In (k, v) (combine ks vs).
Proof.
  revert vs; induction ks as [|k0 t IH]; intros [|v vt] Hl Hin; simpl in *; try lia; try tauto.
  destruct Hin as [->|Hin]; [exists v; auto|].
  destruct (IH vt ltac:(lia) Hin) as [v' Hv']. exists v'; auto.
Qed.

Lemma in_combine_map {A A' B B'} (f : A -> A') (g : B -> B') (ks : list A) (vs : list B) k' v' :
  In (k', v') (combine (map f ks) (map g vs)) <-> exists k v, f k = k' /\ g v = v' /\ In (k, v) (combine ks vs).
Proof.
  revert vs; induction ks as [|k0 t IH]; intros [|v0 vt]; simpl; try (split; [tauto | intros (k & v & _ & _ & []) ]).
  rewrite IH. split.
  - intros [E|(k & v & Hk & Hv & Hin)].
    + inversion E; subst. exists k0, v0; auto.
    + exists k, v; auto.
  - intros (k & v & Hk & Hv & [E|Hin]).
    + inversion E; subst. left; reflexivity.
    + right. exists k, v; auto.
Qed.

Lemma NoDup_map_inj_on {A B} (f : A -> B) (l : list A) :
  NoDup l -> (forall a b, In a l -> In b l -> f a = f b -> a = b) -> NoDup (map f l).
Proof.
  induction 1 as [|a l Ha Hnd IH]; intros Hinj; simpl; constructor.
  - intros Hin. apply in_map_iff in Hin. destruct Hin as [b [E Hb]].
    assert (b = a) by (apply Hinj; simpl; auto). subst. contradiction.
  - apply IH. intros; apply Hinj; simpl; auto.
Qed.

Lemma nth_map_seq {A} (f : nat -> A) n x d : x < n -> nth x (map f (seq 0 n)) d = f x.
Proof.
  intros Hx. rewrite (nth_indep _ d (f 0)) by (rewrite map_length, seq_length; exact Hx).
  rewrite map_nth, seq_nth by exact Hx. reflexivity.
Qed.

Lemma nth_repeat_lt {A} (a d : A) n k : nth k (repeat a n) d = if Nat.ltb k n then a else d.
Proof.
  revert k; induction n as [|n IH]; intros [|k]; simpl; auto. apply IH.
Qed.

Lemma combine_nth_In {A B} (l : list A) (l' : list B) k da db :
  length l = length l' -> k < length l -> In (nth k l da, nth k l' db) (combine l l').
Proof.
  intros Hl Hk. rewrite <- combine_nth by exact Hl. apply nth_In. rewrite combine_length. lia.
Qed.

(** * 1-D scatter *)
Lemma scatter_as_gscatter {A} (a : list A) ks vs :
  scatter a ks vs = gscatter (list A) nat A (fun a k v => upd a k v) a (combine ks vs).
Proof. reflexivity. Qed.

Lemma scatter_length {A} ks : forall (a : list A) vs, length (scatter a ks vs) = length a.
Proof.
  unfold scatter. induction ks as [|k t IH]; intros a [|v vt]; simpl; auto.
  rewrite IH, upd_length. reflexivity.
Qed.

Lemma scatter_nth_notin {A} (a : list A) ks vs k d :
  ~ In k ks -> nth k (scatter a ks vs) d = nth k a d.
Proof.
  intros Hn. rewrite scatter_as_gscatter.
  apply (gscatter_notin (list A) nat A (fun a k => nth k a d) (fun a k v => upd a k v)).
  - intros s k0 k' v Hne. apply nth_upd_other. auto.
  - intros Hin. apply Hn. eapply map_fst_combine_In; eauto.
Qed.

Lemma scatter_nth_in {A} (a : list A) ks vs k v d :
  NoDup ks -> k < length a -> In (k, v) (combine ks vs) -> nth k (scatter a ks vs) d = v.
Proof.
  intros Hnd Hk Hin. rewrite scatter_as_gscatter.
  apply (gscatter_in (list A) nat A (fun a k => nth k a d) (fun a k v => upd a k v) (fun a k => k < length a)).
  - intros s k0 v0 Hv. apply nth_upd_same; exact Hv.
  - intros s k0 k' v0 Hne. apply nth_upd_other. auto.
  - intros s k0 k' v0 Hv. rewrite upd_length; exact Hv.
  - apply NoDup_map_fst_combine; exact Hnd.
  - exact Hk.
  - exact Hin.
Qed.

(** cells written with [Some objective] into a blank vector *)
Lemma scatter_blank_spec (n : nat) (ks : list nat) (objs : list Q) k :
  NoDup ks -> length ks = length objs -> k < n ->
  let cells := scatter (repeat None n) ks (map Some objs) in
  (forall o, nth k cells None = Some o <-> In (k, o) (combine ks objs)) /\
  (nth k cells None = None <-> ~ In k ks).
Proof.
  intros Hnd Hl Hk cells.
  assert (Hin : forall o, In (k, o) (combine ks objs) -> nth k cells None = Some o).
  { intros o Ho. apply scatter_nth_in; auto; [rewrite repeat_length; exact Hk|].
    rewrite <- (map_id ks). apply in_combine_map. exists k, o; auto. }
  assert (Hout : ~ In k ks -> nth k cells None = None).
  { intros Hn. unfold cells. rewrite scatter_nth_notin by exact Hn.
    rewrite nth_repeat_lt. destruct (k <? n); reflexivity. }
  split.
  - intros o; split; [|apply Hin].
    intros Hs. destruct (in_dec Nat.eq_dec k ks) as [Hi|Hn].
    + destruct (In_combine_exists_r ks objs k Hl Hi) as [o' Ho'].
      rewrite (Hin o' Ho') in Hs. inversion Hs; subst. exact Ho'.
    + rewrite (Hout Hn) in Hs. discriminate.
  - split; [|apply Hout].
    intros Hnone Hi. destruct (In_combine_exists_r ks objs k Hl Hi) as [o' Ho'].
    rewrite (Hin o' Ho') in Hnone. discriminate.
Qed.

(** * 2-D scatter *)
Definition get2 {A} (d : A) (m : list (list A)) (k : nat * nat) : A := nth (snd k) (nth (fst k) m []) d.
Definition valid2 {A} (m : list (list A)) (k : nat * nat) : Prop :=
  fst k < length m /\ snd k < length (nth (fst k) m []).

Lemma set2_length {A} (m : list (list A)) y x v : length (set2 m y x v) = length m.
Proof. unfold set2. apply upd_length. Qed.

Lemma set2_row_length {A} (m : list (list A)) y x v y' :
  length (nth y' (set2 m y x v) []) = length (nth y' m []).
Proof.
  unfold set2. rewrite nth_upd.
  destruct (Nat.eqb_spec y y') as [->|Hne]; simpl; [|reflexivity].
  destruct (Nat.ltb_spec y' (length m)); [apply upd_length | reflexivity].
Qed.

Lemma get2_set2_same {A} (d : A) m k v : valid2 m k -> get2 d (set2 m (fst k) (snd k) v) k = v.
Proof.
  destruct k as [y x]. unfold valid2, get2, set2; simpl. intros [Hy Hx].
  rewrite nth_upd_same by exact Hy. apply nth_upd_same; exact Hx.
Qed.

Lemma get2_set2_other {A} (d : A) m k k' v : k <> k' -> get2 d (set2 m (fst k') (snd k') v) k = get2 d m k.
Proof.
  destruct k as [y x], k' as [y' x']. unfold get2, set2; simpl. intros Hne.
  rewrite nth_upd.
  destruct (Nat.eqb_spec y' y) as [->|Hy]; simpl; [|reflexivity].
  destruct (Nat.ltb_spec y (length m)); [|reflexivity].
  apply nth_upd_other. intros E; apply Hne; congruence.
Qed.

Lemma valid2_set2 {A} (m : list (list A)) k k' v : valid2 m k -> valid2 (set2 m (fst k') (snd k') v) k.
Proof.
  unfold valid2. intros [H1 H2]. rewrite set2_length, set2_row_length. auto.
Qed.

Lemma scatter2_as_gscatter {A} (m : list (list A)) ks vs :
  scatter2 m ks vs = gscatter _ (nat * nat) A (fun m k v => set2 m (fst k) (snd k) v) m (combine ks vs).
Proof. reflexivity. Qed.

Lemma scatter2_shape {A} ks : forall (m : list (list A)) vs,
  length (scatter2 m ks vs) = length m /\
  forall y, length (nth y (scatter2 m ks vs) []) = length (nth y m []).
Proof.
  unfold scatter2. induction ks as [|k t IH]; intros m [|v vt]; simpl; auto.
  destruct (IH (set2 m (fst k) (snd k) v) vt) as [H1 H2]. split.
  - rewrite H1. apply set2_length.
  - intros y. rewrite H2. apply set2_row_length.
Qed.

Lemma scatter2_notin {A} (d : A) m ks vs k : ~ In k ks -> get2 d (scatter2 m ks vs) k = get2 d m k.
Proof.
  intros Hn. rewrite scatter2_as_gscatter.
  apply (gscatter_notin _ (nat * nat) A (get2 d) (fun m k v => set2 m (fst k) (snd k) v)).
  - intros s k0 k' v Hne. apply get2_set2_other; exact Hne.
  - intros Hin. apply Hn. eapply map_fst_combine_In; eauto.
Qed.

Lemma scatter2_in {A} (d : A) m ks vs k v :
  NoDup ks -> valid2 m k -> In (k, v) (combine ks vs) -> get2 d (scatter2 m ks vs) k = v.
Proof.
  intros Hnd Hv Hin. rewrite scatter2_as_gscatter.
  apply (gscatter_in _ (nat * nat) A (get2 d) (fun m k v => set2 m (fst k) (snd k) v) valid2).
  - intros s k0 v0 H. apply get2_set2_same; exact H.
  - intros s k0 k' v0 Hne. apply get2_set2_other; exact Hne.
  - intros s k0 k' v0 H. apply valid2_set2; exact H.
  - apply NoDup_map_fst_combine; exact Hnd.
  - exact Hv.
  - exact Hin.
Qed.

Lemma blank_matrix_valid {A} (a : A) dx dy x y : x < dx -> y < dy -> valid2 (repeat (repeat a dx) dy) (y, x).
Proof.
  intros Hx Hy. unfold valid2; simpl. rewrite repeat_length. split; [exact Hy|].
  rewrite nth_repeat_lt. apply Nat.ltb_lt in Hy. rewrite Hy, repeat_length. exact Hx.
Qed.

Lemma blank_matrix_get {A} (a d : A) dx dy x y : x < dx -> y < dy -> get2 d (repeat (repeat a dx) dy) (y, x) = a.
Proof.
  intros Hx Hy. unfold get2; simpl. rewrite nth_repeat_lt.
  apply Nat.ltb_lt in Hy. rewrite Hy. rewrite nth_repeat_lt. apply Nat.ltb_lt in Hx. rewrite Hx. reflexivity.
Qed.

(** * grid_archive_heatmap, 2-D: the colour matrix *)
Definition key2 (dx dy i : nat) : nat * nat :=
  let gi := unravel [dx; dy] i in (nth 1 gi O, nth 0 gi O).

Lemma key2_eq dx dy i : key2 dx dy i = (i mod dy, i / dy).
Proof. unfold key2. rewrite unravel_2d. reflexivity. Qed.

Lemma grid2d_colors_eq dx dy idxs objs :
  grid2d_colors dx dy idxs objs =
  scatter2 (repeat (repeat None dx) dy) (map (key2 dx dy) idxs) (map Some objs).
Proof. unfold grid2d_colors, key2. rewrite map_map. reflexivity. Qed.

Lemma key2_ravel dx dy x y : x < dx -> y < dy -> key2 dx dy (ravel [dx; dy] [x; y]) = (y, x).
Proof.
  intros Hx Hy. unfold key2. rewrite unravel_ravel; [reflexivity|].
  unfold in_grid. repeat constructor; assumption.
Qed.

Lemma key2_inj dx dy i j : i < dx * dy -> j < dx * dy -> key2 dx dy i = key2 dx dy j -> i = j.
Proof.
  intros Hi Hj E. rewrite !key2_eq in E. inversion E as [[Em Ed]].
  assert (Hp : dy <> 0) by (intros Z; subst; lia).
  rewrite (Nat.div_mod i dy Hp), (Nat.div_mod j dy Hp), Em, Ed. reflexivity.
Qed.

Lemma key2_is_ravel dx dy i x y :
  i < dx * dy -> key2 dx dy i = (y, x) -> i = ravel [dx; dy] [x; y] /\ x < dx /\ y < dy.
Proof.
  intros Hi E. rewrite key2_eq in E. inversion E as [[Em Ed]].
  assert (Hp : dy <> 0) by (intros Z; subst; lia).
  rewrite ravel_2d. split; [|split].
  - pose proof (Nat.div_mod i dy Hp). lia.
  - apply Nat.div_lt_upper_bound; [exact Hp | lia].
  - apply Nat.mod_upper_bound; exact Hp.
Qed.

Lemma all_below_spec n idxs : all_below n idxs = true <-> forall i, In i idxs -> i < n.
Proof.
  unfold all_below. rewrite forallb_forall. split; intros H i Hi; specialize (H i Hi).
  - apply Nat.ltb_lt; exact H.
  - apply Nat.ltb_lt; exact H.
Qed.

Lemma grid2d_colors_shape dx dy idxs objs :
  length (grid2d_colors dx dy idxs objs) = dy /\
  forall y, y < dy -> length (nth y (grid2d_colors dx dy idxs objs) []) = dx.
Proof.
  rewrite grid2d_colors_eq.
  destruct (scatter2_shape (map (key2 dx dy) idxs) (repeat (repeat (@None Q) dx) dy) (map Some objs)) as [H1 H2].
  split; [rewrite H1; apply repeat_length|].
  intros y Hy. rewrite H2, nth_repeat_lt. apply Nat.ltb_lt in Hy. rewrite Hy. apply repeat_length.
Qed.

Lemma grid2d_cell dx dy idxs objs x y :
  length idxs = length objs -> NoDup idxs -> (forall i, In i idxs -> i < dx * dy) ->
  x < dx -> y < dy ->
  let c := nth x (nth y (grid2d_colors dx dy idxs objs) []) None in
  (forall o, c = Some o <-> In (ravel [dx; dy] [x; y], o) (combine idxs objs)) /\
  (c = None <-> ~ In (ravel [dx; dy] [x; y]) idxs).
Proof.
  intros Hl Hnd Hr Hx Hy c.
  set (keys := map (key2 dx dy) idxs).
  assert (Hc : c = get2 None (scatter2 (repeat (repeat None dx) dy) keys (map Some objs)) (y, x)).
  { unfold c. rewrite grid2d_colors_eq. reflexivity. }
  assert (Hkeys : NoDup keys).
  { apply NoDup_map_inj_on; [exact Hnd|]. intros a b Ha Hb. apply key2_inj; auto. }
  assert (Hin : forall o, In (ravel [dx; dy] [x; y], o) (combine idxs objs) -> c = Some o).
  { intros o Ho. rewrite Hc. apply scatter2_in; [exact Hkeys | apply blank_matrix_valid; assumption|].
    apply in_combine_map. exists (ravel [dx; dy] [x; y]), o. split; [apply key2_ravel; assumption|auto]. }
  assert (Hkey : In (y, x) keys <-> In (ravel [dx; dy] [x; y]) idxs).
  { unfold keys. rewrite in_map_iff. split.
    - intros [i [E Hi]]. destruct (key2_is_ravel dx dy i x y (Hr i Hi) E) as [-> _]. exact Hi.
    - intros Hi. exists (ravel [dx; dy] [x; y]). split; [apply key2_ravel; assumption|exact Hi]. }
  assert (Hout : ~ In (ravel [dx; dy] [x; y]) idxs -> c = None).
  { intros Hn. rewrite Hc, scatter2_notin by (rewrite Hkey; exact Hn). apply blank_matrix_get; assumption. }
  split.
  - intros o; split; [|apply Hin].
    intros Hs. destruct (in_dec Nat.eq_dec (ravel [dx; dy] [x; y]) idxs) as [Hi|Hn].
    + destruct (In_combine_exists_r idxs objs _ Hl Hi) as [o' Ho'].
      rewrite (Hin o' Ho') in Hs. inversion Hs; subst. exact Ho'.
    + rewrite (Hout Hn) in Hs. discriminate.
  - split; [|apply Hout].
    intros Hnone Hi. destruct (In_combine_exists_r idxs objs _ Hl Hi) as [o' Ho'].
    rewrite (Hin o' Ho') in Hnone. discriminate.
Qed.

(** grid 1-D: the cell index is the flat index *)
Lemma unravel_1d d i : nth 0 (unravel [d] i) O = i.
Proof. unfold unravel, prod. simpl. apply Nat.div_1_r. Qed.

Lemma grid1d_cells_eq d idxs objs : grid1d_cells d idxs objs = scatter (repeat None d) idxs (map Some objs).
Proof.
  unfold grid1d_cells. f_equal. rewrite <- (map_id idxs) at 2. apply map_ext. intros i. apply unravel_1d.
Qed.

Lemma grid1d_cell d idxs objs k :
  length idxs = length objs -> NoDup idxs -> k < d ->
  (forall o, nth k (grid1d_cells d idxs objs) None = Some o <-> In (k, o) (combine idxs objs)) /\
  (nth k (grid1d_cells d idxs objs) None = None <-> ~ In k idxs).
Proof.
  intros Hl Hnd Hk. rewrite grid1d_cells_eq. apply scatter_blank_spec; auto.
Qed.

(** * transpose *)
Lemma transpose_length {A} (d : A) n m : length (transpose d n m) = n.
Proof. unfold transpose. rewrite map_length, seq_length. reflexivity. Qed.

Lemma transpose_row {A} (d : A) n m x : x < n -> nth x (transpose d n m) [] = map (fun row => nth x row d) m.
Proof. intros Hx. unfold transpose. apply (nth_map_seq (fun x => map (fun row => nth x row d) m)). exact Hx. Qed.

Lemma transpose_row_length {A} (d : A) n m x : x < n -> length (nth x (transpose d n m) []) = length m.
Proof. intros Hx. rewrite transpose_row by exact Hx. apply map_length. Qed.

Lemma transpose_nth {A} (d : A) n m x y :
  x < n -> y < length m -> nth y (nth x (transpose d n m) []) d = nth x (nth y m []) d.
Proof.
  intros Hx Hy. rewrite transpose_row by exact Hx.
  rewrite (nth_indep _ d (nth x [] d)) by (rewrite map_length; exact Hy).
  rewrite (map_nth (fun row => nth x row d)). reflexivity.
Qed.

(** * limits *)
Local Open Scope Q_scope.
Lemma qmin_spec a b : (qmin a b = a \/ qmin a b = b) /\ qmin a b <= a /\ qmin a b <= b.
Proof.
  unfold qmin. destruct (Qle_bool a b) eqn:E.
  - apply Qle_bool_iff in E. repeat split; auto; lra.
  - assert (~ a <= b) by (rewrite <- Qle_bool_iff; congruence). repeat split; auto; lra.
Qed.

Lemma qmax_spec a b : (qmax a b = a \/ qmax a b = b) /\ a <= qmax a b /\ b <= qmax a b.
Proof.
  unfold qmax. destruct (Qle_bool a b) eqn:E.
  - apply Qle_bool_iff in E. repeat split; auto; lra.
  - assert (~ a <= b) by (rewrite <- Qle_bool_iff; congruence). repeat split; auto; lra.
Qed.

Lemma fold_qmin_spec t : forall x, In (fold_left qmin t x) (x :: t) /\ forall y, In y (x :: t) -> fold_left qmin t x <= y.
Proof.
  induction t as [|h t IH]; intros x; simpl.
  - split; [auto|]. intros y [->|[]]. lra.
  - destruct (IH (qmin x h)) as [Hin Hle]. destruct (qmin_spec x h) as [Hc [Hx Hh]]. split.
    + destruct Hin as [E|Hin]; [|auto]. rewrite <- E. destruct Hc as [->| ->]; auto.
    + intros y [->|[->|Hy]].
      * eapply Qle_trans; [apply Hle; left; reflexivity | exact Hx].
      * eapply Qle_trans; [apply Hle; left; reflexivity | exact Hh].
      * apply Hle. right; exact Hy.
Qed.

Lemma fold_qmax_spec t : forall x, In (fold_left qmax t x) (x :: t) /\ forall y, In y (x :: t) -> y <= fold_left qmax t x.
Proof.
  induction t as [|h t IH]; intros x; simpl.
  - split; [auto|]. intros y [->|[]]. lra.
  - destruct (IH (qmax x h)) as [Hin Hle]. destruct (qmax_spec x h) as [Hc [Hx Hh]]. split.
    + destruct Hin as [E|Hin]; [|auto]. rewrite <- E. destruct Hc as [->| ->]; auto.
    + intros y [->|[->|Hy]].
      * eapply Qle_trans; [exact Hx | apply Hle; left; reflexivity].
      * eapply Qle_trans; [exact Hh | apply Hle; left; reflexivity].
      * apply Hle. right; exact Hy.
Qed.

Lemma min_list_spec l m : min_list l = Some m -> In m l /\ forall y, In y l -> m <= y.
Proof. destruct l as [|x t]; simpl; [discriminate|]. intros E; inversion E; subst. apply fold_qmin_spec. Qed.

Lemma max_list_spec l m : max_list l = Some m -> In m l /\ forall y, In y l -> y <= m.
Proof. destruct l as [|x t]; simpl; [discriminate|]. intros E; inversion E; subst. apply fold_qmax_spec. Qed.

Lemma min_list_none l : min_list l = None <-> l = [].
Proof. destruct l; simpl; split; congruence. Qed.

Lemma max_list_none l : max_list l = None <-> l = [].
Proof. destruct l; simpl; split; congruence. Qed.

(** what "default = range of the stored objectives, explicit values override" means *)
Definition is_lower_limit (vmin : option Q) (objs : list Q) (lo : Q) : Prop :=
  match vmin with Some v => lo = v | None => In lo objs /\ forall y, In y objs -> lo <= y end.
Definition is_upper_limit (vmax : option Q) (objs : list Q) (hi : Q) : Prop :=
  match vmax with Some v => hi = v | None => In hi objs /\ forall y, In y objs -> y <= hi end.

Lemma pick_min_spec vmin objs lo : pick vmin (min_list objs) = Some lo -> is_lower_limit vmin objs lo.
Proof. destruct vmin as [v|]; simpl; [congruence | apply min_list_spec]. Qed.

Lemma pick_max_spec vmax objs hi : pick vmax (max_list objs) = Some hi -> is_upper_limit vmax objs hi.
Proof. destruct vmax as [v|]; simpl; [congruence | apply max_list_spec]. Qed.

Lemma limits_strict_spec vmin vmax objs lo hi :
  limits_strict vmin vmax objs = Ok (lo, hi) -> is_lower_limit vmin objs lo /\ is_upper_limit vmax objs hi.
Proof.
  unfold limits_strict.
  destruct (pick vmin (min_list objs)) as [a|] eqn:Ea; [|discriminate].
  destruct (pick vmax (max_list objs)) as [b|] eqn:Eb; [|discriminate].
  intros E; inversion E; subst. split; [apply pick_min_spec | apply pick_max_spec]; assumption.
Qed.

Lemma limits_strict_defined vmin vmax objs : objs <> [] -> exists lo hi, limits_strict vmin vmax objs = Ok (lo, hi).
Proof.
  intros Hne. unfold limits_strict. destruct objs as [|x t]; [congruence|].
  destruct vmin, vmax; simpl; eauto.
Qed.

Lemma somes_In {A} (l : list (option A)) x : In x (somes l) <-> In (Some x) l.
Proof.
  unfold somes. rewrite in_flat_map. split.
  - intros [[y|] [Hin Hx]]; simpl in Hx; [destruct Hx as [->|[]]; exact Hin | tauto].
  - intros Hin. exists (Some x). simpl; auto.
Qed.

Local Open Scope nat_scope.

(** * argsort and its inverse (cvt_archive_heatmap, 1-D) *)
Lemma insert_idx_perm cs i l : Permutation (insert_idx cs i l) (i :: l).
Proof.
  induction l as [|j t IH]; simpl; [reflexivity|].
  destruct (Qle_bool (qnth cs i) (qnth cs j)); [reflexivity|].
  rewrite IH. apply perm_swap.
Qed.

Lemma fold_insert_perm cs l : Permutation (fold_right (insert_idx cs) [] l) l.
Proof.
  induction l as [|a t IH]; simpl; [constructor|].
  rewrite insert_idx_perm. constructor; exact IH.
Qed.

Lemma argsort_perm cs : Permutation (argsort cs) (seq 0 (length cs)).
Proof. apply fold_insert_perm. Qed.

Definition key_le (cs : list Q) (i j : nat) : Prop := (qnth cs i <= qnth cs j)%Q.

Lemma insert_idx_sorted cs i l :
  StronglySorted (key_le cs) l -> StronglySorted (key_le cs) (insert_idx cs i l).
Proof.
  induction 1 as [|j t Hs IH Hf]; simpl.
  - repeat constructor.
  - destruct (Qle_bool (qnth cs i) (qnth cs j)) eqn:E.
    + apply Qle_bool_iff in E. constructor; [constructor; auto|].
      constructor; [exact E|].
      eapply Forall_impl; [|exact Hf]. intros k Hk. unfold key_le in *. eapply Qle_trans; eauto.
    + assert (Hlt : ~ (qnth cs i <= qnth cs j)%Q) by (rewrite <- Qle_bool_iff; congruence).
      constructor; [exact IH|].
      rewrite Forall_forall. intros k Hk.
      apply (Permutation_in k (insert_idx_perm cs i t)) in Hk. destruct Hk as [<-|Hk].
      * unfold key_le. lra.
      * rewrite Forall_forall in Hf. apply Hf; exact Hk.
Qed.

Lemma argsort_sorted cs : StronglySorted (key_le cs) (argsort cs).
Proof.
  unfold argsort. induction (seq 0 (length cs)) as [|a t IH]; simpl; [constructor|].
  apply insert_idx_sorted; exact IH.
Qed.

Lemma StronglySorted_map {A B} (R : B -> B -> Prop) (f : A -> B) l :
  StronglySorted (fun a b => R (f a) (f b)) l -> StronglySorted R (map f l).
Proof.
  induction 1 as [|a t Hs IH Hf]; simpl; constructor; auto.
  rewrite Forall_forall in *. intros b Hb. apply in_map_iff in Hb. destruct Hb as [x [<- Hx]]. auto.
Qed.

Lemma perm_seq_facts p n :
  Permutation p (seq 0 n) -> length p = n /\ NoDup p /\ forall i, In i p <-> i < n.
Proof.
  intros Hp. split; [|split].
  - rewrite (Permutation_length Hp). apply seq_length.
  - apply (Permutation_NoDup (Permutation_sym Hp)). apply seq_NoDup.
  - intros i. split; intros Hi.
    + apply (Permutation_in i Hp) in Hi. apply in_seq in Hi. lia.
    + apply (Permutation_in i (Permutation_sym Hp)). apply in_seq. lia.
Qed.

Lemma inverse_perm_left p :
  Permutation p (seq 0 (length p)) ->
  forall k, k < length p -> nth (nth k p 0) (inverse_perm p) 0 = k.
Proof.
  intros Hp k Hk. destruct (perm_seq_facts p _ Hp) as [_ [Hnd Hin]].
  unfold inverse_perm. apply scatter_nth_in.
  - exact Hnd.
  - rewrite repeat_length. apply Hin. apply nth_In. exact Hk.
  - pose proof (combine_nth_In p (seq 0 (length p)) k 0 0) as H.
    rewrite seq_length in H. specialize (H eq_refl Hk).
    rewrite seq_nth in H by exact Hk. exact H.
Qed.

Lemma inverse_perm_right p :
  Permutation p (seq 0 (length p)) ->
  forall c, c < length p -> nth (nth c (inverse_perm p) 0) p 0 = c.
Proof.
  intros Hp c Hc. destruct (perm_seq_facts p _ Hp) as [_ [_ Hin]].
  apply Hin in Hc. destruct (In_nth p c 0 Hc) as [k [Hk E]].
  rewrite <- E at 1. rewrite inverse_perm_left by assumption. exact E.
Qed.

Lemma inverse_perm_range p :
  Permutation p (seq 0 (length p)) -> forall c, c < length p -> nth c (inverse_perm p) 0 < length p.
Proof.
  intros Hp c Hc. destruct (perm_seq_facts p _ Hp) as [_ [_ Hin]].
  apply Hin in Hc. destruct (In_nth p c 0 Hc) as [k [Hk E]].
  rewrite <- E. rewrite inverse_perm_left by assumption. exact Hk.
Qed.

Lemma argsort_length cs : length (argsort cs) = length cs.
Proof. rewrite (Permutation_length (argsort_perm cs)). apply seq_length. Qed.

Lemma argsort_is_perm cs : Permutation (argsort cs) (seq 0 (length (argsort cs))).
Proof. rewrite argsort_length. apply argsort_perm. Qed.

Lemma cvt1d_cell cs idxs objs k :
  length idxs = length objs -> NoDup idxs -> (forall i, In i idxs -> i < length cs) -> k < length cs ->
  (forall o, nth k (cvt1d_cells cs idxs objs) None = Some o <-> In (nth k (argsort cs) 0, o) (combine idxs objs)) /\
  (nth k (cvt1d_cells cs idxs objs) None = None <-> ~ In (nth k (argsort cs) 0) idxs).
Proof.
  intros Hl Hnd Hr Hk.
  set (p := argsort cs). set (inv := inverse_perm p). set (f := fun i => nth i inv 0).
  assert (Hp : Permutation p (seq 0 (length p))) by apply argsort_is_perm.
  assert (Lp : length p = length cs) by apply argsort_length.
  assert (Hleft : forall j, j < length cs -> f (nth j p 0) = j).
  { intros j Hj. unfold f, inv. apply inverse_perm_left; [exact Hp | lia]. }
  assert (Hright : forall c, c < length cs -> nth (f c) p 0 = c).
  { intros c Hc. unfold f, inv. apply inverse_perm_right; [exact Hp | lia]. }
  assert (Hfk : forall i, In i idxs -> (f i = k <-> i = nth k p 0)).
  { intros i Hi. split; intros E.
    - rewrite <- E. symmetry. apply Hright. apply Hr; exact Hi.
    - rewrite E. apply Hleft; exact Hk. }
  assert (Hnd' : NoDup (map f idxs)).
  { apply NoDup_map_inj_on; [exact Hnd|]. intros a b Ha Hb E.
    rewrite <- (Hright a (Hr a Ha)), <- (Hright b (Hr b Hb)), E. reflexivity. }
  assert (Hcells : cvt1d_cells cs idxs objs = scatter (repeat None (length cs)) (map f idxs) (map Some objs)) by reflexivity.
  rewrite Hcells.
  destruct (scatter_blank_spec (length cs) (map f idxs) objs k Hnd' ltac:(rewrite map_length; exact Hl) Hk) as [HS HN].
  split.
  - intros o. rewrite HS. rewrite <- (map_id objs) at 1. rewrite in_combine_map. split.
    + intros (i & v & Hi & Hv & Hin). unfold id in Hv. subst v.
      apply Hfk in Hi; [subst i; exact Hin | eapply in_combine_l; eauto].
    + intros Hin. exists (nth k p 0), o. split; [apply Hleft; exact Hk | split; [reflexivity | exact Hin]].
  - rewrite HN. rewrite in_map_iff. split; intros H Hc; apply H.
    + exists (nth k p 0). split; [apply Hleft; exact Hk | exact Hc].
    + destruct Hc as [i [Hi Hin]]. apply (Hfk i Hin) in Hi. subst i. exact Hin.
Qed.

(** * Plot-level statements *)
Definition with_transpose (o : opts) (b : bool) : opts :=
  mkOpts (o_df o) b (o_vmin o) (o_vmax o) (o_sort o) (o_order o) (o_lines o) (o_bounds o).

Lemma qnth_rev2 (l : list Q) : length l = 2 -> qnth (rev l) 0 = qnth l 1 /\ qnth (rev l) 1 = qnth l 0.
Proof. destruct l as [|a [|b [|c t]]]; simpl; intros H; try lia. auto. Qed.

(** grid_archive_heatmap 2-D: shape of a successful call *)
Lemma grid_heatmap_2d g l o dx dy :
  g_dims g = [dx; dy] ->
  forall p, grid_heatmap g l o = Ok p ->
  all_below (dx * dy) (map e_index l) = true /\
  exists vlo vhi, limits_strict (o_vmin o) (o_vmax o) (map e_obj l) = Ok (vlo, vhi) /\
    let colors := grid2d_colors dx dy (map e_index l) (map e_obj l) in
    let t := o_transpose o in
    let lo := if t then rev (g_lower g) else g_lower g in
    let up := if t then rev (g_upper g) else g_upper g in
    p = PHeat (mkHeat (if t then nth 1 (g_boundaries g) [] else nth 0 (g_boundaries g) [])
                      (if t then nth 0 (g_boundaries g) [] else nth 1 (g_boundaries g) [])
                      (if t then transpose None dx colors else colors)
                      (qnth lo 0, qnth up 0) (Some (qnth lo 1, qnth up 1)) (Some vlo, Some vhi) []).
Proof.
  intros Hd p. unfold grid_heatmap. rewrite Hd.
  destruct (all_below (dx * dy) (map e_index l)) eqn:Eb; [|discriminate].
  destruct (limits_strict (o_vmin o) (o_vmax o) (map e_obj l)) as [[vlo vhi]|e] eqn:El; [|discriminate].
  intros E; inversion E; subst. split; [reflexivity|]. exists vlo, vhi. split; reflexivity.
Qed.

Lemma grid_heatmap_2d_ok g l o dx dy :
  g_dims g = [dx; dy] -> all_below (dx * dy) (map e_index l) = true ->
  forall vlo vhi, limits_strict (o_vmin o) (o_vmax o) (map e_obj l) = Ok (vlo, vhi) ->
  exists p, grid_heatmap g l o = Ok p.
Proof.
  intros Hd Hb vlo vhi Hl. unfold grid_heatmap. rewrite Hd, Hb, Hl. eexists; reflexivity.
Qed.

Lemma grid_transpose g l o dx dy h :
  g_dims g = [dx; dy] -> length (g_lower g) = 2 -> length (g_upper g) = 2 ->
  grid_heatmap g l (with_transpose o false) = Ok (PHeat h) ->
  exists h', grid_heatmap g l (with_transpose o true) = Ok (PHeat h') /\
    hm_xb h' = hm_yb h /\ hm_yb h' = hm_xb h /\
    Some (hm_xlim h') = hm_ylim h /\ hm_ylim h' = Some (hm_xlim h) /\ hm_clim h' = hm_clim h /\
    length (hm_colors h) = dy /\ length (hm_colors h') = dx /\
    (forall x, x < dx -> length (nth x (hm_colors h') []) = dy) /\
    (forall x y, x < dx -> y < dy ->
       nth y (nth x (hm_colors h') []) None = nth x (nth y (hm_colors h) []) None).
Proof.
  intros Hd Hlo Hup H.
  destruct (grid_heatmap_2d g l _ dx dy Hd _ H) as [Hb (vlo & vhi & Hl & Hp)].
  simpl in Hl, Hp. inversion Hp; subst h; clear Hp.
  destruct (grid_heatmap_2d_ok g l (with_transpose o true) dx dy Hd Hb vlo vhi Hl) as [p' Hp'].
  destruct (grid_heatmap_2d g l _ dx dy Hd _ Hp') as [_ (vlo' & vhi' & Hl' & Hq)].
  simpl in Hl', Hq. rewrite Hl in Hl'. inversion Hl'; subst vlo' vhi'. subst p'.
  destruct (qnth_rev2 _ Hlo) as [L0 L1]. destruct (qnth_rev2 _ Hup) as [U0 U1].
  destruct (grid2d_colors_shape dx dy (map e_index l) (map e_obj l)) as [S1 S2].
  eexists. split; [exact Hp'|]. simpl.
  rewrite L0, L1, U0, U1.
  repeat split; try reflexivity.
  - exact S1.
  - apply transpose_length.
  - intros x Hx. rewrite transpose_row_length by exact Hx. exact S1.
  - intros x y Hx Hy. apply transpose_nth; [exact Hx | rewrite S1; exact Hy].
Qed.

(** scatter plots: transposition swaps offsets, lines and limits *)
Lemma sliding_transpose g l o s :
  length (g_lower g) = 2 -> length (g_upper g) = 2 ->
  sliding_heatmap g l (with_transpose o false) = Ok (PScatter s) ->
  exists s', sliding_heatmap g l (with_transpose o true) = Ok (PScatter s') /\
    sc_offsets s' = map flip2 (sc_offsets s) /\ sc_array s' = sc_array s /\
    sc_vlines s' = sc_hlines s /\ sc_hlines s' = sc_vlines s /\
    sc_xlim s' = sc_ylim s /\ sc_ylim s' = sc_xlim s /\ sc_clim s' = sc_clim s.
Proof.
  intros Hlo Hup. unfold sliding_heatmap.
  destruct (g_dims g) as [|a [|b [|c t]]]; try discriminate.
  simpl o_transpose; simpl o_vmin; simpl o_vmax; simpl o_lines.
  destruct (limits_strict (o_vmin o) (o_vmax o) (map e_obj l)) as [clim|e]; [|discriminate].
  intros E; inversion E; subst s; clear E.
  destruct (qnth_rev2 _ Hlo) as [L0 L1]. destruct (qnth_rev2 _ Hup) as [U0 U1].
  eexists. split; [reflexivity|]. simpl. rewrite L0, L1, U0, U1.
  repeat split; reflexivity.
Qed.

Lemma proximity_transpose g l o s :
  (match o_bounds o with Some (lo, up) => length lo = 2 /\ length up = 2
                       | None => length (g_lower g) = 2 /\ length (g_upper g) = 2 end) ->
  proximity_plot g l (with_transpose o false) = Ok (PScatter s) ->
  exists s', proximity_plot g l (with_transpose o true) = Ok (PScatter s') /\
    sc_offsets s' = map flip2 (sc_offsets s) /\ sc_array s' = sc_array s /\
    sc_xlim s' = sc_ylim s /\ sc_ylim s' = sc_xlim s /\ sc_clim s' = sc_clim s.
Proof.
  intros Hb. unfold proximity_plot. simpl o_transpose; simpl o_vmin; simpl o_vmax; simpl o_bounds.
  destruct (o_bounds o) as [[lo up]|].
  - destruct Hb as [Hlo Hup].
    destruct (limits_strict (o_vmin o) (o_vmax o) (map e_obj l)) as [clim|e]; [|discriminate].
    intros E; inversion E; subst s; clear E.
    destruct (qnth_rev2 _ Hlo) as [L0 L1]. destruct (qnth_rev2 _ Hup) as [U0 U1].
    eexists. split; [reflexivity|]. simpl. rewrite L0, L1, U0, U1. repeat split; reflexivity.
  - destruct Hb as [Hlo Hup].
    remember (map (fun x => (x - c001)%Q) (g_lower g)) as lo0 eqn:Elo0.
    remember (map (fun x => (x + c001)%Q) (g_upper g)) as up0 eqn:Eup0.
    assert (Hlo' : length lo0 = 2) by (subst lo0; rewrite map_length; exact Hlo).
    assert (Hup' : length up0 = 2) by (subst up0; rewrite map_length; exact Hup).
    destruct (g_lower g) as [|a lt]; [simpl in Hlo; lia|].
    destruct (limits_strict (o_vmin o) (o_vmax o) (map e_obj l)) as [clim|e]; [|discriminate].
    intros E; inversion E; subst s; clear E.
    destruct (qnth_rev2 _ Hlo') as [L0 L1]. destruct (qnth_rev2 _ Hup') as [U0 U1].
    eexists. split; [reflexivity|]. simpl.
    rewrite L0, L1, U0, U1. repeat split; reflexivity.
Qed.

Lemma cvt2d_transpose g l o v :
  length (g_lower g) = 2 -> length (g_upper g) = 2 ->
  cvt_heatmap g l (with_transpose o false) = Ok (PVor v) ->
  exists v', cvt_heatmap g l (with_transpose o true) = Ok (PVor v') /\
    vo_sites v' = map flip2 (vo_sites v) /\ vo_obj v' = vo_obj v /\ vo_t v' = vo_t v /\
    vo_xlim v' = vo_ylim v /\ vo_ylim v' = vo_xlim v /\ vo_clim v' = vo_clim v /\
    vo_markers v' = map flip2 (vo_markers v).
Proof.
  intros Hlo Hup. unfold cvt_heatmap.
  destruct (g_lower g) as [|a [|b [|c t]]] eqn:Eg; simpl in Hlo; try lia.
  simpl o_transpose; simpl o_vmin; simpl o_vmax; simpl o_lines. cbv iota.
  rewrite !map_length.
  destruct (qnth_rev2 _ Hup) as [U0 U1].
  set (site_obj := scatter (repeat None (length (g_centroids g))) (map e_index l) (map Some (map e_obj l))).
  destruct (pick (o_vmin o) (min_list (somes site_obj))) as [lo|];
    destruct (pick (o_vmax o) (max_list (somes site_obj))) as [hi|];
    intros E; inversion E; subst v; clear E;
    (eexists; split; [reflexivity|]; simpl; rewrite U0, U1;
     repeat split; try reflexivity; destruct (o_lines o); reflexivity).
Qed.

(** * colour limits of each plot *)
Lemma grid2d_limits g l o dx dy h :
  g_dims g = [dx; dy] -> grid_heatmap g l o = Ok (PHeat h) ->
  exists lo hi, hm_clim h = (Some lo, Some hi) /\
    is_lower_limit (o_vmin o) (map e_obj l) lo /\ is_upper_limit (o_vmax o) (map e_obj l) hi.
Proof.
  intros Hd H. destruct (grid_heatmap_2d g l o dx dy Hd _ H) as [_ (vlo & vhi & Hl & Hp)].
  inversion Hp; subst h. exists vlo, vhi. split; [reflexivity|]. apply limits_strict_spec; exact Hl.
Qed.

Lemma sliding_limits g l o s :
  sliding_heatmap g l o = Ok (PScatter s) ->
  is_lower_limit (o_vmin o) (map e_obj l) (fst (sc_clim s)) /\ is_upper_limit (o_vmax o) (map e_obj l) (snd (sc_clim s))
  /\ sc_array s = map e_obj l.
Proof.
  unfold sliding_heatmap. destruct (g_dims g) as [|a [|b [|c t]]]; try discriminate.
  destruct (limits_strict (o_vmin o) (o_vmax o) (map e_obj l)) as [[lo hi]|e] eqn:El; [|discriminate].
  intros E; inversion E; subst s; simpl. destruct (limits_strict_spec _ _ _ _ _ El). auto.
Qed.

Lemma proximity_limits g l o s :
  proximity_plot g l o = Ok (PScatter s) ->
  is_lower_limit (o_vmin o) (map e_obj l) (fst (sc_clim s)) /\ is_upper_limit (o_vmax o) (map e_obj l) (snd (sc_clim s))
  /\ sc_array s = map e_obj l.
Proof.
  unfold proximity_plot.
  destruct (match o_bounds o with Some (lo, up) => Ok (lo, up) | None => _ end) as [[lo0 up0]|e0]; [|discriminate].
  destruct (limits_strict (o_vmin o) (o_vmax o) (map e_obj l)) as [[lo hi]|e] eqn:El; [|discriminate].
  intros E; inversion E; subst s; simpl. destruct (limits_strict_spec _ _ _ _ _ El). auto.
Qed.

(** 1-D heat maps take the limits over the cells that were filled (np.nanmin / np.nanmax) *)
Lemma heatmap_1d_limits g bnds cells o mk lo :
  fst (hm_clim (heatmap_1d g bnds cells o mk)) = Some lo -> is_lower_limit (o_vmin o) (somes cells) lo.
Proof. simpl. apply pick_min_spec. Qed.

Lemma heatmap_1d_limits_hi g bnds cells o mk hi :
  snd (hm_clim (heatmap_1d g bnds cells o mk)) = Some hi -> is_upper_limit (o_vmax o) (somes cells) hi.
Proof. simpl. apply pick_max_spec. Qed.

Lemma is_lower_limit_ext v l l' lo : (forall x, In x l <-> In x l') -> is_lower_limit v l lo -> is_lower_limit v l' lo.
Proof.
  intros H. unfold is_lower_limit. destruct v; auto. intros [Hi Hle]. split; [apply H; exact Hi|].
  intros y Hy. apply Hle. apply H; exact Hy.
Qed.

Lemma is_upper_limit_ext v l l' hi : (forall x, In x l <-> In x l') -> is_upper_limit v l hi -> is_upper_limit v l' hi.
Proof.
  intros H. unfold is_upper_limit. destruct v; auto. intros [Hi Hle]. split; [apply H; exact Hi|].
  intros y Hy. apply Hle. apply H; exact Hy.
Qed.

(** with duplicate-free in-range indices the filled cells hold exactly the stored objectives *)
Lemma scatter_blank_somes n ks (objs : list Q) :
  NoDup ks -> length ks = length objs -> (forall k, In k ks -> k < n) ->
  forall x, In x (somes (scatter (repeat None n) ks (map Some objs))) <-> In x objs.
Proof.
  intros Hnd Hl Hr x. rewrite somes_In. split.
  - intros Hin. destruct (In_nth _ _ None Hin) as [k [Hk E]].
    rewrite scatter_length, repeat_length in Hk.
    destruct (scatter_blank_spec n ks objs k Hnd Hl Hk) as [HS _].
    apply HS in E. eapply in_combine_r; eauto.
  - intros Hx. destruct (In_nth objs x 0%Q Hx) as [j [Hj E]].
    assert (Hin : In (nth j ks 0, x) (combine ks objs)).
    { rewrite <- E. apply combine_nth_In; [exact Hl | lia]. }
    assert (Hk : nth j ks 0 < n) by (apply Hr; apply nth_In; lia).
    destruct (scatter_blank_spec n ks objs (nth j ks 0) Hnd Hl Hk) as [HS _].
    apply HS in Hin. rewrite <- Hin. apply nth_In. rewrite scatter_length, repeat_length. exact Hk.
Qed.

Lemma grid1d_limits g l o d h :
  g_dims g = [d] -> NoDup (map e_index l) -> grid_heatmap g l o = Ok (PHeat h) ->
  (forall lo, fst (hm_clim h) = Some lo -> is_lower_limit (o_vmin o) (map e_obj l) lo) /\
  (forall hi, snd (hm_clim h) = Some hi -> is_upper_limit (o_vmax o) (map e_obj l) hi) /\
  (l <> [] -> exists lo hi, hm_clim h = (Some lo, Some hi)).
Proof.
  intros Hd Hnd. unfold grid_heatmap. rewrite Hd.
  destruct (all_below d (map e_index l)) eqn:Eb; [|discriminate].
  intros E; inversion E; subst h; clear E.
  rewrite grid1d_cells_eq.
  assert (Hs : forall x, In x (somes (scatter (repeat None d) (map e_index l) (map Some (map e_obj l)))) <-> In x (map e_obj l)).
  { apply scatter_blank_somes; [exact Hnd | rewrite !map_length; reflexivity | apply all_below_spec; exact Eb]. }
  split; [|split].
  - intros lo H. eapply is_lower_limit_ext; [exact Hs|]. apply pick_min_spec. exact H.
  - intros hi H. eapply is_upper_limit_ext; [exact Hs|]. apply pick_max_spec. exact H.
  - intros Hne. simpl.
    assert (Hne' : somes (scatter (repeat None d) (map e_index l) (map Some (map e_obj l))) <> []).
    { destruct l as [|e t]; [congruence|]. intros Z.
      assert (Hi : In (e_obj e) (map e_obj (e :: t))) by (simpl; auto).
      apply Hs in Hi. rewrite Z in Hi. exact Hi. }
    destruct (somes _) as [|x t] eqn:Es; [congruence|].
    destruct (o_vmin o), (o_vmax o); simpl; eauto.
Qed.

Lemma parallel_limits g l o p :
  parallel_axes g l o = Ok (PPar p) ->
  (forall lo, fst (pa_clim p) = Some lo -> is_lower_limit (o_vmin o) (map e_obj l) lo) /\
  (forall hi, snd (pa_clim p) = Some hi -> is_upper_limit (o_vmax o) (map e_obj l) hi).
Proof.
  unfold parallel_axes.
  destruct (match o_order o with None => seq 0 (length (g_lower g)) | Some c => c end) as [|c0 ct]; [discriminate|].
  destruct (negb (all_below (length (g_lower g)) (c0 :: ct))); [discriminate|].
  intros E; inversion E; subst p; simpl. split; intros x H; [apply pick_min_spec | apply pick_max_spec]; exact H.
Qed.

(** * purity *)
Lemma plot_world w c : fst (plot w c) = w.
Proof. reflexivity. Qed.

Lemma plot_all_world cs : forall w, plot_all w cs = w.
Proof. unfold plot_all. induction cs as [|c t IH]; intros w; simpl; auto. Qed.

(** * parallel axes: relative position on every axis *)
Lemma to_axis0_position lb0 r0 y lb ub :
  (~ ub - lb == 0 -> ~ r0 == 0 -> (to_axis0 lb0 r0 y lb ub - lb0) / r0 == (y - lb) / (ub - lb))%Q.
Proof. intros H1 H2. unfold to_axis0. field. auto. Qed.

Lemma to_axis0_endpoints lb0 r0 lb ub :
  (~ ub - lb == 0 -> to_axis0 lb0 r0 lb lb ub == lb0 /\ to_axis0 lb0 r0 ub lb ub == lb0 + r0)%Q.
Proof. intros H. unfold to_axis0. split; field; auto. Qed.

Lemma map3_nth {A B C D} (f : A -> B -> C -> D) a b c j da db dc dd :
  j < length a -> j < length b -> j < length c ->
  nth j (map3 f a b c) dd = f (nth j a da) (nth j b db) (nth j c dc).
Proof.
  revert b c j. induction a as [|x a IH]; intros [|y b] [|z c] [|j] Ha Hb Hc; simpl in *; try lia; auto.
  apply IH; lia.
Qed.

Lemma normalize_row_nth lo up row j :
  S j < length row -> S j < length lo -> S j < length up ->
  nth (S j) (normalize_row lo up row) 0%Q =
  to_axis0 (qnth lo 0) (qnth up 0 - qnth lo 0) (nth (S j) row 0%Q) (qnth lo (S j)) (qnth up (S j)).
Proof.
  intros Hr Hl Hu. destruct row as [|y0 rest]; simpl in Hr; [lia|].
  destruct lo as [|l0 lt]; simpl in Hl; [lia|]. destruct up as [|u0 ut]; simpl in Hu; [lia|].
  unfold normalize_row. simpl nth. simpl tl.
  rewrite (map3_nth _ rest lt ut j 0%Q 0%Q 0%Q) by lia. reflexivity.
Qed.

Lemma normalize_row_0 lo up row : nth 0 (normalize_row lo up row) 0%Q = nth 0 row 0%Q.
Proof. destruct row; reflexivity. Qed.

(** sort_archive: a stable ascending sort of the frame's rows *)
Lemma insert_obj_perm e l : Permutation (insert_obj e l) (e :: l).
Proof.
  induction l as [|h t IH]; simpl; [reflexivity|].
  destruct (Qle_bool (e_obj e) (e_obj h)); [reflexivity|]. rewrite IH. apply perm_swap.
Qed.

Lemma sort_by_obj_perm l : Permutation (sort_by_obj l) l.
Proof.
  unfold sort_by_obj. induction l as [|a t IH]; simpl; [constructor|].
  rewrite insert_obj_perm. constructor; exact IH.
Qed.

Definition obj_le (a b : elite) : Prop := (e_obj a <= e_obj b)%Q.

Lemma insert_obj_sorted e l : StronglySorted obj_le l -> StronglySorted obj_le (insert_obj e l).
Proof.
  induction 1 as [|h t Hs IH Hf]; simpl.
  - repeat constructor.
  - destruct (Qle_bool (e_obj e) (e_obj h)) eqn:E.
    + apply Qle_bool_iff in E. constructor; [constructor; auto|].
      constructor; [exact E|]. eapply Forall_impl; [|exact Hf]. intros k Hk. unfold obj_le in *. eapply Qle_trans; eauto.
    + assert (Hlt : ~ (e_obj e <= e_obj h)%Q) by (rewrite <- Qle_bool_iff; congruence).
      constructor; [exact IH|]. rewrite Forall_forall. intros k Hk.
      apply (Permutation_in k (insert_obj_perm e t)) in Hk. destruct Hk as [<-|Hk].
      * unfold obj_le. lra.
      * rewrite Forall_forall in Hf. apply Hf; exact Hk.
Qed.

Lemma sort_by_obj_sorted l : StronglySorted obj_le (sort_by_obj l).
Proof.
  unfold sort_by_obj. induction l as [|a t IH]; simpl; [constructor | apply insert_obj_sorted; exact IH].
Qed.

(** * the order of the listing does not matter (a frame is the same elites in any row order) *)
Lemma combine_map_pair {A B C} (f : A -> B) (g : A -> C) (l : list A) :
  combine (map f l) (map g l) = map (fun a => (f a, g a)) l.
Proof. induction l as [|a t IH]; simpl; [reflexivity|]. rewrite IH. reflexivity. Qed.

Lemma grid2d_colors_perm dx dy (l l' : listing) :
  Permutation l l' -> NoDup (map e_index l) -> (forall e, In e l -> e_index e < dx * dy) ->
  grid2d_colors dx dy (map e_index l') (map e_obj l') = grid2d_colors dx dy (map e_index l) (map e_obj l).
Proof.
  intros Hp Hnd Hr.
  assert (Hnd' : NoDup (map e_index l')) by (eapply Permutation_NoDup; [apply Permutation_map; exact Hp | exact Hnd]).
  assert (Hr1 : forall i, In i (map e_index l) -> i < dx * dy).
  { intros i Hi. apply in_map_iff in Hi. destruct Hi as [e [<- He]]. apply Hr; exact He. }
  assert (Hr2 : forall i, In i (map e_index l') -> i < dx * dy).
  { intros i Hi. apply Hr1. eapply Permutation_in; [apply Permutation_map; apply Permutation_sym; exact Hp | exact Hi]. }
  assert (Hpairs : forall i o, In (i, o) (combine (map e_index l) (map e_obj l)) <->
                               In (i, o) (combine (map e_index l') (map e_obj l'))).
  { intros i o. rewrite !combine_map_pair. split; apply Permutation_in; apply Permutation_map; [|apply Permutation_sym]; exact Hp. }
  assert (Hidx : forall i, In i (map e_index l) <-> In i (map e_index l')).
  { intros i. split; apply Permutation_in; apply Permutation_map; [|apply Permutation_sym]; exact Hp. }
  destruct (grid2d_colors_shape dx dy (map e_index l) (map e_obj l)) as [S1 S2].
  destruct (grid2d_colors_shape dx dy (map e_index l') (map e_obj l')) as [S1' S2'].
  apply (nth_ext _ _ [] []); [congruence|].
  intros y Hy. rewrite S1' in Hy.
  apply (nth_ext _ _ None None); [rewrite S2, S2'; auto|].
  intros x Hx. rewrite S2' in Hx by exact Hy.
  destruct (grid2d_cell dx dy (map e_index l) (map e_obj l) x y ltac:(rewrite !map_length; reflexivity) Hnd Hr1 Hx Hy) as [A1 A2].
  destruct (grid2d_cell dx dy (map e_index l') (map e_obj l') x y ltac:(rewrite !map_length; reflexivity) Hnd' Hr2 Hx Hy) as [B1 B2].
  cbv zeta in A1, A2, B1, B2.
  destruct (nth x (nth y (grid2d_colors dx dy (map e_index l) (map e_obj l)) []) None) as [ob|] eqn:E.
  - apply B1. apply Hpairs. apply A1. reflexivity.
  - apply B2. rewrite <- Hidx. apply A2. reflexivity.
Qed.

(** the same holds for the limits, up to the representation of the rational *)
Lemma is_lower_limit_unique v l a b : is_lower_limit v l a -> is_lower_limit v l b -> (a == b)%Q.
Proof.
  unfold is_lower_limit. destruct v; [intros -> ->; reflexivity|].
  intros [Ia La] [Ib Lb]. apply Qle_antisym; auto.
Qed.

Lemma is_upper_limit_unique v l a b : is_upper_limit v l a -> is_upper_limit v l b -> (a == b)%Q.
Proof.
  unfold is_upper_limit. destruct v; [intros -> ->; reflexivity|].
  intros [Ia La] [Ib Lb]. apply Qle_antisym; auto.
Qed.

Lemma source_same w o : w_frame w = Some (w_elites w) -> source w o = w_elites w.
Proof. intros H. unfold source. rewrite H. destruct (o_df o); reflexivity. Qed.

(** * The cell statements at the level of the plotting functions, in terms of the listed elites *)
Lemma in_combine_elite (l : listing) i ob :
  In (i, ob) (combine (map e_index l) (map e_obj l)) <-> exists e, In e l /\ e_index e = i /\ e_obj e = ob.
Proof.
  rewrite combine_map_pair, in_map_iff. split.
  - intros [e [E He]]. inversion E. exists e; auto.
  - intros [e [He [<- <-]]]. exists e; auto.
Qed.

Lemma notin_index_elite (l : listing) i :
  ~ In i (map e_index l) <-> forall e, In e l -> e_index e <> i.
Proof.
  rewrite in_map_iff. split.
  - intros H e He E. apply H. exists e; auto.
  - intros H [e [E He]]. apply (H e He E).
Qed.

Definition cell_shows (l : listing) (i : nat) (c : option Q) : Prop :=
  (forall ob, c = Some ob <-> exists e, In e l /\ e_index e = i /\ e_obj e = ob) /\
  (c = None <-> forall e, In e l -> e_index e <> i).

Lemma grid_cell_plot g l o dx dy h :
  g_dims g = [dx; dy] -> o_transpose o = false -> NoDup (map e_index l) ->
  grid_heatmap g l o = Ok (PHeat h) ->
  hm_xb h = nth 0 (g_boundaries g) [] /\ hm_yb h = nth 1 (g_boundaries g) [] /\
  length (hm_colors h) = dy /\
  forall x y, x < dx -> y < dy ->
    length (nth y (hm_colors h) []) = dx /\
    cell_shows l (ravel [dx; dy] [x; y]) (nth x (nth y (hm_colors h) []) None).
Proof.
  intros Hd Ht Hnd H.
  destruct (grid_heatmap_2d g l o dx dy Hd _ H) as [Hb (vlo & vhi & Hl & Hp)].
  cbv zeta in Hp. rewrite Ht in Hp. inversion Hp; subst h; clear Hp. simpl.
  destruct (grid2d_colors_shape dx dy (map e_index l) (map e_obj l)) as [S1 S2].
  split; [reflexivity|]. split; [reflexivity|]. split; [exact S1|].
  intros x y Hx Hy. split; [apply S2; exact Hy|].
  destruct (grid2d_cell dx dy (map e_index l) (map e_obj l) x y ltac:(rewrite !map_length; reflexivity) Hnd
              ltac:(apply all_below_spec; exact Hb) Hx Hy) as [A B].
  cbv zeta in A, B. split.
  - intros ob. rewrite A. apply in_combine_elite.
  - rewrite B. apply notin_index_elite.
Qed.

Lemma grid1d_cell_plot g l o d h :
  g_dims g = [d] -> NoDup (map e_index l) -> grid_heatmap g l o = Ok (PHeat h) ->
  hm_xb h = nth 0 (g_boundaries g) [] /\
  exists cells, hm_colors h = [cells] /\ length cells = d /\
    forall k, k < d -> cell_shows l k (nth k cells None).
Proof.
  intros Hd Hnd. unfold grid_heatmap. rewrite Hd.
  destruct (all_below d (map e_index l)) eqn:Eb; [|discriminate].
  intros E; inversion E; subst h; clear E. simpl. split; [reflexivity|].
  eexists. split; [reflexivity|]. split.
  - rewrite grid1d_cells_eq, scatter_length. apply repeat_length.
  - intros k Hk.
    destruct (grid1d_cell d (map e_index l) (map e_obj l) k ltac:(rewrite !map_length; reflexivity) Hnd Hk) as [A B].
    split.
    + intros ob. rewrite A. apply in_combine_elite.
    + rewrite B. apply notin_index_elite.
Qed.

Lemma cvt1d_cell_plot g l o lb h :
  g_lower g = [lb] -> NoDup (map e_index l) -> cvt_heatmap g l o = Ok (PHeat h) ->
  let cs := map (fun c => qnth c 0) (g_centroids g) in
  let p := argsort cs in
  hm_xb h = [lb] ++ midpoints (map (qnth cs) p) ++ [qnth (g_upper g) 0] /\
  exists cells, hm_colors h = [cells] /\ length cells = length cs /\
    forall k, k < length cs -> cell_shows l (nth k p 0) (nth k cells None).
Proof.
  intros Hg Hnd. unfold cvt_heatmap. rewrite Hg.
  set (cs := map (fun c => qnth c 0) (g_centroids g)).
  destruct (all_below (length cs) (map e_index l)) eqn:Eb; [|discriminate].
  intros E; inversion E; subst h; clear E. simpl. split; [reflexivity|].
  eexists. split; [reflexivity|]. split.
  - unfold cvt1d_cells. rewrite scatter_length. apply repeat_length.
  - intros k Hk.
    destruct (cvt1d_cell cs (map e_index l) (map e_obj l) k ltac:(rewrite !map_length; reflexivity) Hnd
                ltac:(apply all_below_spec; exact Eb) Hk) as [A B].
    split.
    + intros ob. rewrite A. apply in_combine_elite.
    + rewrite B. apply notin_index_elite.
Qed.

Lemma cvt1d_limits g l o lb h :
  g_lower g = [lb] -> NoDup (map e_index l) -> cvt_heatmap g l o = Ok (PHeat h) ->
  (forall lo, fst (hm_clim h) = Some lo -> is_lower_limit (o_vmin o) (map e_obj l) lo) /\
  (forall hi, snd (hm_clim h) = Some hi -> is_upper_limit (o_vmax o) (map e_obj l) hi).
Proof.
  intros Hg Hnd. unfold cvt_heatmap. rewrite Hg.
  set (cs := map (fun c => qnth c 0) (g_centroids g)).
  destruct (all_below (length cs) (map e_index l)) eqn:Eb; [|discriminate].
  intros E; inversion E; subst h; clear E.
  set (p := argsort cs). set (f := fun i => nth i (inverse_perm p) 0).
  assert (Hp : Permutation p (seq 0 (length p))) by apply argsort_is_perm.
  assert (Lp : length p = length cs) by apply argsort_length.
  assert (Hr : forall i, In i (map e_index l) -> i < length cs) by (apply all_below_spec; exact Eb).
  assert (Hs : forall x, In x (somes (cvt1d_cells cs (map e_index l) (map e_obj l))) <-> In x (map e_obj l)).
  { change (cvt1d_cells cs (map e_index l) (map e_obj l))
      with (scatter (repeat None (length cs)) (map f (map e_index l)) (map Some (map e_obj l))).
    apply scatter_blank_somes.
    - apply NoDup_map_inj_on; [exact Hnd|]. intros a b Ha Hb E.
      rewrite <- (inverse_perm_right p Hp a ltac:(rewrite Lp; apply Hr; exact Ha)),
              <- (inverse_perm_right p Hp b ltac:(rewrite Lp; apply Hr; exact Hb)).
      unfold f in E. rewrite E. reflexivity.
    - rewrite !map_length. reflexivity.
    - intros k Hk. apply in_map_iff in Hk. destruct Hk as [i [<- Hi]].
      unfold f. rewrite <- Lp. apply inverse_perm_range; [exact Hp | rewrite Lp; apply Hr; exact Hi]. }
  split.
  - intros lo H. eapply is_lower_limit_ext; [exact Hs|]. apply pick_min_spec. exact H.
  - intros hi H. eapply is_upper_limit_ext; [exact Hs|]. apply pick_max_spec. exact H.
Qed.
