(** C15: SlidingBoundariesArchive. Invariants and refinement of a remap to a fresh elitist run under the
    new geometry. *)
From Coq Require Import List Arith Bool ZArith QArith Qminmax Qreduction Lia Lqa Sorted Permutation.
From PV Require Import Base.ListUtil Base.QUtil Base.FirstArgmax Base.MixedRadix Model.Store Proofs.StoreProofs
     Model.Archive Proofs.ArchiveProofs Proofs.C01Proofs Proofs.C02Proofs Proofs.C07Proofs Model.Sliding.
Import ListNotations.
Set Implicit Arguments.
Local Open Scope nat_scope.
Local Arguments Qred : simpl never.
Local Arguments Qplus : simpl never.
Local Arguments Qmult : simpl never.
Local Arguments Qminus : simpl never.
Local Arguments Qltb : simpl never.
Local Arguments Qle_bool : simpl never.

(** * index_of stays inside the grid *)
Lemma ssearch_le a x : ssearch a x <= length a.
Proof. induction a as [|y t IH]; simpl; [lia|]. destruct (Qle_bool x y); simpl; lia. Qed.

Lemma sidx1_lt eps d b lo hi m : 1 <= d -> sidx1 eps d b lo hi m < d.
Proof.
  intros Hd. unfold sidx1.
  pose proof (ssearch_le (firstn d b) (sclip lo (hi - eps) (m + eps))) as H.
  rewrite firstn_length in H. lia.
Qed.

Lemma sgrid_in_grid eps dims : forall bnd lo hi m,
  positive_dims dims -> length bnd = length dims -> length lo = length dims -> length hi = length dims ->
  length m = length dims -> in_grid dims (sgrid eps dims bnd lo hi m).
Proof.
  induction dims as [|d dt IH]; intros bnd lo hi m Hp Hb Hl Hh Hm.
  - destruct bnd, lo, hi, m; simpl in *; try discriminate; constructor.
  - destruct bnd as [|b bt], lo as [|l lt], hi as [|h ht], m as [|x xt]; simpl in *; try discriminate.
    inversion Hp; subst. constructor; [apply sidx1_lt; lia|].
    apply IH; auto.
Qed.

Record gwf (dims : list nat) (g : geom) : Prop := {
  gwf_bnd : length (g_bnd g) = length dims;
  gwf_lo : length (g_lo g) = length dims;
  gwf_hi : length (g_hi g) = length dims }.

Lemma sindex_lt eps dims g m :
  positive_dims dims -> gwf dims g -> length m = length dims -> sindex eps dims g m < prod dims.
Proof.
  intros Hp [Hb Hl Hh] Hm. unfold sindex. apply ravel_lt. apply sgrid_in_grid; auto.
Qed.

(** * sorting *)
Fixpoint qsorted (l : list Q) : Prop :=
  match l with
  | [] => True
  | x :: t => match t with [] => True | y :: _ => (x <= y)%Q end /\ qsorted t
  end.

Lemma qinsert_perm x l : Permutation (qinsert x l) (x :: l).
Proof.
  induction l as [|y t IH]; simpl; auto.
  destruct (Qle_bool x y); auto.
  eapply perm_trans; [apply perm_skip, IH|apply perm_swap].
Qed.

Lemma qsort_perm l : Permutation (qsort l) l.
Proof.
  induction l as [|x t IH]; simpl; auto.
  eapply perm_trans; [apply qinsert_perm|]. apply perm_skip, IH.
Qed.

Lemma qsort_length l : length (qsort l) = length l.
Proof. apply Permutation_length, qsort_perm. Qed.

Lemma qinsert_sorted x l : qsorted l -> qsorted (qinsert x l).
Proof.
  induction l as [|y t IH]; simpl; auto.
  intros [Hy Ht]. destruct (Qle_bool x y) eqn:E.
  - apply Qle_bool_iff in E. simpl. auto.
  - assert (Hyx : (y <= x)%Q).
    { destruct (Qlt_le_dec y x) as [H|H]; [apply Qlt_le_weak; auto|]. apply Qle_bool_iff in H. congruence. }
    specialize (IH Ht). simpl. split; auto.
    destruct t as [|z u]; simpl; auto.
    simpl in *. destruct (Qle_bool x z); auto.
Qed.

Lemma qsort_sorted l : qsorted (qsort l).
Proof. induction l as [|x t IH]; simpl; auto. apply qinsert_sorted; auto. Qed.

Lemma qsorted_nth l : qsorted l -> forall i j, i <= j -> j < length l -> (nth i l 0 <= nth j l 0)%Q.
Proof.
  induction l as [|x t IH]; intros Hs i j Hij Hj; simpl in Hj; [lia|].
  destruct Hs as [Hx Ht].
  destruct j as [|j]; [assert (i = 0) by lia; subst; simpl; apply Qle_refl|].
  destruct i as [|i].
  - simpl. destruct t as [|y u]; [simpl in Hj; lia|].
    apply Qle_trans with y; auto.
    change y with (nth 0 (y :: u) 0%Q). apply IH; auto; simpl in *; lia.
  - simpl. apply IH; auto; lia.
Qed.

Lemma last_nth (l : list Q) d : last l d = nth (length l - 1) l d.
Proof.
  induction l as [|x t IH]; [reflexivity|].
  destruct t as [|y u]; [reflexivity|].
  change (last (x :: y :: u) d) with (last (y :: u) d). rewrite IH.
  replace (length (x :: y :: u) - 1) with (S (length (y :: u) - 1)) by (simpl; lia). reflexivity.
Qed.

(** * new boundaries are order statistics, sorted, first = min, last = max *)
Lemma new_bnd1_length d srt : length (new_bnd1 d srt) = S d.
Proof. unfold new_bnd1. rewrite app_length, map_length, seq_length. simpl. lia. Qed.

Lemma new_bnd1_nth d srt j : j < d -> nth j (new_bnd1 d srt) 0%Q = nth (j * length srt / d) srt 0%Q.
Proof.
  intros Hj. unfold new_bnd1. rewrite app_nth1 by (rewrite map_length, seq_length; auto).
  rewrite (nth_indep _ 0%Q (nth (0 * length srt / d) srt 0%Q)) by (rewrite map_length, seq_length; auto).
  rewrite (map_nth (fun j => nth (j * length srt / d) srt 0%Q) (seq 0 d) 0 j).
  rewrite seq_nth by auto. reflexivity.
Qed.

Lemma new_bnd1_last d srt : nth d (new_bnd1 d srt) 0%Q = last srt 0%Q.
Proof.
  unfold new_bnd1. rewrite app_nth2 by (rewrite map_length, seq_length; lia).
  rewrite map_length, seq_length, Nat.sub_diag. reflexivity.
Qed.

Lemma div_idx_lt j n d : j < d -> 0 < n -> j * n / d < n.
Proof.
  intros Hj Hn. apply Nat.div_lt_upper_bound; [lia|]. nia.
Qed.

Lemma div_idx_mono j k n d : j <= k -> 0 < d -> j * n / d <= k * n / d.
Proof. intros H Hd. apply Nat.div_le_mono; [lia|]. nia. Qed.

(** every pair of boundaries is ordered (covers the last entry too) *)
Lemma new_bnd1_sorted d srt : 0 < length srt -> qsorted srt ->
  forall j k, j <= k -> k <= d -> (nth j (new_bnd1 d srt) 0 <= nth k (new_bnd1 d srt) 0)%Q.
Proof.
  intros Hn Hs j k Hjk Hk.
  destruct (Nat.eq_dec k d) as [->|Hkd].
  - rewrite new_bnd1_last, last_nth.
    destruct (Nat.eq_dec j d) as [->|Hjd]; [rewrite new_bnd1_last, last_nth; apply Qle_refl|].
    rewrite new_bnd1_nth by lia. apply qsorted_nth; auto; [|lia].
    pose proof (@div_idx_lt j (length srt) d). lia.
  - rewrite !new_bnd1_nth by lia. apply qsorted_nth; auto.
    + apply div_idx_mono; lia.
    + apply div_idx_lt; lia.
Qed.

Lemma new_bnd1_first d srt : 0 < d -> nth 0 (new_bnd1 d srt) 0%Q = nth 0 srt 0%Q.
Proof. intros Hd. rewrite new_bnd1_nth by auto. simpl. rewrite Nat.div_0_l by lia. reflexivity. Qed.

(** the first boundary is a minimum and the last a maximum of the buffered coordinates *)
Lemma sorted_first_min l x : In x l -> (nth 0 (qsort l) 0 <= x)%Q.
Proof.
  intros Hin. apply (Permutation_in _ (Permutation_sym (qsort_perm l))) in Hin.
  destruct (In_nth _ _ 0%Q Hin) as (k & Hk & <-).
  apply qsorted_nth; [apply qsort_sorted|lia|auto].
Qed.

Lemma sorted_last_max l x : In x l -> (x <= last (qsort l) 0)%Q.
Proof.
  intros Hin. apply (Permutation_in _ (Permutation_sym (qsort_perm l))) in Hin.
  destruct (In_nth _ _ 0%Q Hin) as (k & Hk & <-).
  rewrite last_nth. apply qsorted_nth; [apply qsort_sorted|lia|lia].
Qed.

Lemma zip_with_length A B C (f : A -> B -> C) l1 l2 : length l2 = length l1 -> length (zip_with f l1 l2) = length l1.
Proof.
  revert l2; induction l1 as [|a t IH]; intros [|b u] H; simpl in *; try discriminate; auto.
Qed.

Lemma zip_with_nth A B C (f : A -> B -> C) l1 l2 i da db dc :
  i < length l1 -> length l2 = length l1 -> nth i (zip_with f l1 l2) dc = f (nth i l1 da) (nth i l2 db).
Proof.
  revert l2 i; induction l1 as [|a t IH]; intros [|b u] i Hi H; simpl in *; try discriminate; try lia.
  destruct i; auto. apply IH; lia.
Qed.

Section SlidingProofs.
Variable P : Type.
Notation PP := (list Q * P)%type.
Notation entry := (entry P).
Notation sstate := (sstate P).
Notation sop := (sop P).

Record cwf (c : scfg) : Prop := {
  cwf_dims : positive_dims (s_dims c);
  cwf_freq : 1 <= s_freq c;
  cwf_cap : 1 <= s_cap c;
  cwf_lo : length (s_lo0 c) = length (s_dims c);
  cwf_hi : length (s_hi0 c) = length (s_dims c) }.

Lemma acfg_elitist c : elitist (acfg c).
Proof. split; simpl; auto. apply Qeq_refl. Qed.

Lemma sorted_measures_length c (buf : list entry) : length (sorted_measures c buf) = length (s_dims c).
Proof. unfold sorted_measures. rewrite map_length, seq_length. reflexivity. Qed.

Lemma new_geom_wf c (buf : list entry) : gwf (s_dims c) (new_geom c (sorted_measures c buf)).
Proof.
  unfold new_geom. constructor; simpl; rewrite ?map_length; apply zip_with_length, sorted_measures_length.
Qed.

Lemma init_bnd_length dims : forall lo hi, length lo = length dims -> length hi = length dims ->
  length (init_bnd dims lo hi) = length dims.
Proof.
  induction dims as [|d t IH]; intros [|l lt] [|h ht] Hl Hh; simpl in *; try discriminate; auto.
Qed.

Lemma geom0_wf c : cwf c -> gwf (s_dims c) (geom0 c).
Proof. intros H. constructor; simpl; [apply init_bnd_length; apply H|apply H|apply H]. Qed.

(** the i-th dimension's new boundaries *)
Theorem new_geom_boundaries c (buf : list entry) i :
  i < length (s_dims c) ->
  let d := nth i (s_dims c) 0 in
  let srt := qsort (map (coord i) buf) in
  let b := nth i (g_bnd (new_geom c (sorted_measures c buf))) [] in
  b = new_bnd1 d srt /\
  nth i (g_lo (new_geom c (sorted_measures c buf))) 0%Q = hd 0%Q b /\
  nth i (g_hi (new_geom c (sorted_measures c buf))) 0%Q = last b 0%Q.
Proof.
  intros Hi d srt b.
  assert (Hb : b = new_bnd1 d srt).
  { unfold b, new_geom; simpl.
    rewrite (zip_with_nth new_bnd1 _ _ 0 [] []) by (auto; apply sorted_measures_length).
    unfold sorted_measures.
    rewrite (nth_indep _ [] ((fun i => qsort (map (coord i) buf)) 0)) by (rewrite map_length, seq_length; auto).
    rewrite (map_nth (fun i => qsort (map (coord i) buf)) (seq 0 (length (s_dims c))) 0 i).
    rewrite seq_nth by auto. reflexivity. }
  split; [exact Hb|].
  assert (Hlen : length (zip_with new_bnd1 (s_dims c) (sorted_measures c buf)) = length (s_dims c))
    by (apply zip_with_length, sorted_measures_length).
  unfold new_geom; simpl. split.
  - rewrite (nth_indep _ 0%Q ((fun l => hd 0%Q l) [])) by (rewrite map_length, Hlen; auto).
    rewrite (map_nth (fun l => hd 0%Q l)). reflexivity.
  - rewrite (nth_indep _ 0%Q ((fun l => last l 0%Q) [])) by (rewrite map_length, Hlen; auto).
    rewrite (map_nth (fun l => last l 0%Q)). reflexivity.
Qed.

(** * the buffer holds the most recent min(capacity, total) insertions *)
Definition lastn A (n : nat) (l : list A) : list A := skipn (length l - n) l.

Lemma lastn_all A n (l : list A) : length l <= n -> lastn n l = l.
Proof. intros H. unfold lastn. replace (length l - n) with 0 by lia. reflexivity. Qed.

Lemma lastn_length A n (l : list A) : length (lastn n l) = Nat.min n (length l).
Proof. unfold lastn. rewrite skipn_length. lia. Qed.

Lemma skipn_app_le A n (l1 l2 : list A) : n <= length l1 -> skipn n (l1 ++ l2) = skipn n l1 ++ l2.
Proof. intros H. rewrite skipn_app. replace (n - length l1) with 0 by lia. reflexivity. Qed.

Lemma tl_skipn A n (l : list A) : tl (skipn n l) = skipn (S n) l.
Proof.
  revert l; induction n as [|n IH]; intros [|x t]; simpl; auto.
  - apply IH.
Qed.

Lemma buf_add_lastn c (ins : list entry) e :
  1 <= s_cap c ->
  buf_add c (lastn (s_cap c) ins) e = lastn (s_cap c) (ins ++ [e]).
Proof.
  intros Hc. unfold buf_add, buf_full. rewrite lastn_length.
  unfold lastn. rewrite app_length; simpl.
  destruct (Nat.leb_spec (s_cap c) (Nat.min (s_cap c) (length ins))) as [H|H].
  - rewrite tl_skipn. rewrite skipn_app_le by lia. f_equal. f_equal. lia.
  - replace (length ins - s_cap c) with 0 by lia.
    replace (length ins + 1 - s_cap c) with 0 by lia. reflexivity.
Qed.

(** every validated insertion of a history, in order *)
Fixpoint inserted (h : list sop) : list entry :=
  match h with
  | [] => []
  | SAdd es :: t => es ++ inserted t
  | SAddSingle e :: t => e :: inserted t
  | SClear :: t => inserted t
  end.

Lemma inserted_app h1 h2 : inserted (h1 ++ h2) = inserted h1 ++ inserted h2.
Proof.
  induction h1 as [|o t IH]; simpl; auto. destruct o; simpl; rewrite IH, ?app_assoc; auto.
Qed.

Definition BufInv (c : scfg) (st : sstate) (ins : list entry) : Prop :=
  ss_buf st = lastn (s_cap c) ins /\ ss_total st = length ins.

Lemma remap_buf stale c (st : sstate) : ss_buf (fst (remap stale c st)) = ss_buf st /\ ss_total (fst (remap stale c st)) = ss_total st.
Proof.
  unfold remap. destruct (rev (ss_buf st)) as [|lst r]; [simpl; auto|].
  destruct (add_single _ _ _) as [a3 fb]. simpl. auto.
Qed.

Lemma sadd_single_buf stale c (st : sstate) ins e :
  1 <= s_cap c -> BufInv c st ins -> BufInv c (fst (sadd_single stale c st e)) (ins ++ [e]).
Proof.
  intros Hc [Hb Ht]. unfold sadd_single.
  destruct (Nat.eqb (S (ss_total st) mod s_freq c) 0).
  - destruct (remap_buf stale c (mkSS (ss_arch st) (buf_add c (ss_buf st) e) (S (ss_total st)) (ss_geom st))) as [H1 H2].
    split; [rewrite H1|rewrite H2]; simpl.
    + rewrite Hb. apply buf_add_lastn; auto.
    + rewrite Ht, app_length. simpl. lia.
  - destruct (add_single _ _ _) as [a' fb]. split; simpl.
    + rewrite Hb. apply buf_add_lastn; auto.
    + rewrite Ht, app_length. simpl. lia.
Qed.

Lemma sadd_buf stale c es : forall (st : sstate) ins,
  1 <= s_cap c -> BufInv c st ins -> BufInv c (fst (sadd stale c st es)) (ins ++ es).
Proof.
  induction es as [|e t IH]; intros st ins Hc HB; simpl.
  - rewrite app_nil_r. auto.
  - pose proof (@sadd_single_buf stale c st ins e Hc HB) as H1.
    destruct (sadd_single stale c st e) as [st1 fb]. simpl in H1.
    specialize (IH st1 (ins ++ [e]) Hc H1).
    destruct (sadd stale c st1 t) as [st2 fbs]. simpl in *.
    rewrite <- app_assoc in IH. exact IH.
Qed.

Lemma sstep_buf stale c (st : sstate) ins o :
  1 <= s_cap c -> BufInv c st ins -> BufInv c (sstep stale c st o) (ins ++ inserted [o]).
Proof.
  intros Hc HB. destruct o as [es|e|]; simpl.
  - rewrite app_nil_r. apply sadd_buf; auto.
  - apply sadd_single_buf; auto.
  - rewrite app_nil_r. exact HB.
Qed.

Theorem buffer_spec stale c (h : list sop) :
  1 <= s_cap c ->
  ss_buf (srun stale c h) = lastn (s_cap c) (inserted h) /\ ss_total (srun stale c h) = length (inserted h).
Proof.
  intros Hc. unfold srun.
  assert (H0 : BufInv c (sinit P c) []) by (split; reflexivity).
  change (inserted h) with ([] ++ inserted h).
  revert H0. generalize (sinit P c). generalize (@nil entry).
  induction h as [|o t IH]; intros ins st HB; simpl.
  - rewrite app_nil_r. exact HB.
  - specialize (IH (ins ++ inserted [o]) (sstep stale c st o) (@sstep_buf stale c st ins o Hc HB)).
    rewrite <- app_assoc in IH.
    replace (inserted [o] ++ inserted t) with (inserted (o :: t)) in IH by (destruct o; simpl; rewrite ?app_nil_r; auto).
    exact IH.
Qed.

(** * between remaps: an insertion is ArchiveBase.add_single under the current geometry *)
Theorem no_remap_step stale c (st : sstate) e :
  Nat.eqb (S (ss_total st) mod s_freq c) 0 = false ->
  let r := add_single (acfg c) (ss_arch st) (cand_of_entry c (ss_geom st) e) in
  sadd_single stale c st e = (mkSS (fst r) (buf_add c (ss_buf st) e) (S (ss_total st)) (ss_geom st), snd r).
Proof.
  intros H r. unfold sadd_single. rewrite H. unfold r. destruct (add_single _ _ _) as [a' fb]. reflexivity.
Qed.

Theorem remap_step stale c (st : sstate) e :
  Nat.eqb (S (ss_total st) mod s_freq c) 0 = true ->
  sadd_single stale c st e = remap stale c (mkSS (ss_arch st) (buf_add c (ss_buf st) e) (S (ss_total st)) (ss_geom st)).
Proof. intros H. unfold sadd_single. rewrite H. reflexivity. Qed.

(** * contents *)
Definition mea_ok (c : scfg) (m : list Q) : Prop := length m = length (s_dims c).
Definition entry_ok (c : scfg) (e : entry) : Prop := mea_ok c (e_mea e).

Definition cell_of (c : scfg) (g : geom) (pp : PP) : nat := sindex (s_eps c) (s_dims c) g (fst pp).

Record SInv (c : scfg) (st : sstate) : Prop := {
  si_ainv : AInv (acfg c) (ss_arch st);
  si_gwf : gwf (s_dims c) (ss_geom st);
  si_own : InOwnCell (cell_of c (ss_geom st)) (ss_arch st);
  si_mea : forall i r, content (ss_arch st) i = Some r -> mea_ok c (fst (r_pay r));
  si_buf : Forall (entry_ok c) (ss_buf st) }.

Lemma cand_of_cell_lt c g m o (p : P) :
  cwf c -> gwf (s_dims c) g -> mea_ok c m -> c_cell (cand_of c g m o p) < cells (acfg c).
Proof. intros Hc Hg Hm. simpl. apply sindex_lt; auto. apply Hc. Qed.

Lemma cand_of_consistent c g m o (p : P) : consistent_cand (cell_of c g) (cand_of c g m o p).
Proof. reflexivity. Qed.

(** rows listed by data() are exactly the contents *)
Lemma cur_rows_in (a : archive PP) c r :
  AInv c a -> (In r (cur_rows a) <-> exists i, content a i = Some r).
Proof.
  intros HA. unfold cur_rows, elites, data. rewrite in_flat_map. split.
  - intros ([i o] & Hin & Hr). apply in_map_iff in Hin. destruct Hin as (j & Heq & Hj).
    inversion Heq; subst; clear Heq. simpl in Hr.
    destruct (get_row (a_store a) i) as [r'|] eqn:Er; simpl in Hr; [|contradiction].
    destruct Hr as [->|[]]. exists i. unfold content.
    apply (inv_olist_occ (ainv_store HA)) in Hj. rewrite Hj. exact Er.
  - intros (i & Hc). destruct (content_cases i HA) as [[Hn _]|(r' & Hs & Ho & Hrow)]; [congruence|].
    rewrite Hc in Hs. inversion Hs; subst r'.
    exists (i, Some r). split; [|simpl; auto].
    apply in_map_iff. exists i. split; [rewrite Hrow; reflexivity|].
    apply (inv_olist_occ (ainv_store HA)). exact Ho.
Qed.

Lemma removelast_rev A (l : list A) x r : rev l = x :: r -> l = removelast l ++ [x].
Proof.
  intros H. assert (Hl : l = rev r ++ [x]) by (rewrite <- (rev_involutive l), H; reflexivity).
  rewrite Hl at 2. rewrite removelast_last. exact Hl.
Qed.

(** what a remap re-inserts, as candidates under geometry g *)
Definition reinserted (c : scfg) (g : geom) (st : sstate) : list (cand PP) :=
  map (cand_of_row c g) (cur_rows (ss_arch st)) ++ map (cand_of_entry c g) (ss_buf st).

Lemma reinserted_wf c g (st : sstate) :
  cwf c -> gwf (s_dims c) g -> SInv c st -> wf_cells (acfg c) (reinserted c g st).
Proof.
  intros Hc Hg HS x Hx. unfold reinserted in Hx. apply in_app_or in Hx. destruct Hx as [Hx|Hx].
  - apply in_map_iff in Hx. destruct Hx as (r & <- & Hr).
    apply (cur_rows_in r (si_ainv HS)) in Hr. destruct Hr as (i & Hi).
    apply cand_of_cell_lt; auto. eapply si_mea; eauto.
  - apply in_map_iff in Hx. destruct Hx as (e & <- & He).
    apply cand_of_cell_lt; auto. pose proof (si_buf HS) as HB. rewrite Forall_forall in HB. apply HB; auto.
Qed.

(** the refinement: after a remap every cell holds the first arg-max of (old elites ++ buffer) routed there
    by the new geometry, with its whole payload *)
Theorem remap_contents c (st : sstate) :
  cwf c -> SInv c st -> ss_buf st <> [] ->
  let g' := new_geom c (sorted_measures c (ss_buf st)) in
  let st' := fst (remap false c st) in
  ss_geom st' = g' /\
  J (acfg c) (ss_arch st') (reinserted c g' st).
Proof.
  intros Hc HS Hne g' st'. unfold st', remap. fold g'.
  destruct (rev (ss_buf st)) as [|lst r] eqn:Er.
  { exfalso. apply Hne. rewrite <- (rev_involutive (ss_buf st)), Er. reflexivity. }
  pose proof (removelast_rev _ Er) as Hbuf.
  set (olds := map (cand_of_row c g') (cur_rows (ss_arch st))).
  set (news := map (cand_of_entry c g') (removelast (ss_buf st))).
  set (a1 := clear (acfg c) (ss_arch st)).
  assert (Hg' : gwf (s_dims c) g') by apply new_geom_wf.
  assert (Hwf : wf_cells (acfg c) (reinserted c g' st)) by (apply reinserted_wf; auto).
  assert (Hre : reinserted c g' st = (olds ++ news) ++ [cand_of_entry c g' lst]).
  { unfold reinserted, olds, news. rewrite Hbuf at 1. rewrite map_app, app_assoc. reflexivity. }
  assert (J1 : J (acfg c) a1 []).
  { split; [apply clear_ainv, (si_ainv HS)|]. intros i. unfold a1. rewrite clear_content. reflexivity. }
  assert (J2 : J (acfg c) (fst (add (acfg c) a1 (olds ++ news))) (olds ++ news)).
  { apply (@J_step _ (acfg c) a1 [] (Add (olds ++ news)) (acfg_elitist c) J1).
    intros x Hx. apply Hwf. rewrite Hre. apply in_or_app. auto. }
  assert (J3 : J (acfg c) (fst (add_single (acfg c) (fst (add (acfg c) a1 (olds ++ news))) (cand_of_entry c g' lst)))
                 ((olds ++ news) ++ [cand_of_entry c g' lst])).
  { apply (@J_step _ (acfg c) _ (olds ++ news) (AddSingle (cand_of_entry c g' lst)) (acfg_elitist c) J2).
    simpl. apply (Hwf (cand_of_entry c g' lst)). rewrite Hre. apply in_or_app. right. simpl. auto. }
  destruct (add_single (acfg c) (fst (add (acfg c) a1 (olds ++ news))) (cand_of_entry c g' lst)) as [a3 fb] eqn:E3.
  simpl. split; [reflexivity|]. rewrite Hre. exact J3.
Qed.

Lemma reinserted_consistent c g (st : sstate) x : In x (reinserted c g st) -> c_cell x = cell_of c g (c_pay x).
Proof.
  intros Hx. unfold reinserted in Hx. apply in_app_or in Hx.
  destruct Hx as [Hx|Hx]; apply in_map_iff in Hx; destruct Hx as (y & <- & _); reflexivity.
Qed.

Lemma reinserted_mea c g (st : sstate) x : SInv c st -> In x (reinserted c g st) -> mea_ok c (fst (c_pay x)).
Proof.
  intros HS Hx. unfold reinserted in Hx. apply in_app_or in Hx. destruct Hx as [Hx|Hx].
  - apply in_map_iff in Hx. destruct Hx as (r & <- & Hr). simpl.
    apply (cur_rows_in r (si_ainv HS)) in Hr. destruct Hr as (i & Hi). eapply si_mea; eauto.
  - apply in_map_iff in Hx. destruct Hx as (e & <- & He). simpl.
    pose proof (si_buf HS) as HB. rewrite Forall_forall in HB. apply HB; auto.
Qed.

Lemma remap_sinv c (st : sstate) : cwf c -> SInv c st -> ss_buf st <> [] -> SInv c (fst (remap false c st)).
Proof.
  intros Hc HS Hne. destruct (remap_contents Hc HS Hne) as [Hg [HA HJ]].
  destruct (remap_buf false c st) as [Hb _].
  constructor.
  - exact HA.
  - rewrite Hg. apply new_geom_wf.
  - rewrite Hg. intros i r Hr. rewrite HJ in Hr.
    destruct (first_argmax c_obj (group i (reinserted c _ st))) as [w|] eqn:E; [|discriminate].
    inversion Hr; subst; simpl. apply first_argmax_in, group_in in E. destruct E as [Hin Hcell].
    rewrite <- Hcell. symmetry. eapply reinserted_consistent; eauto.
  - intros i r Hr. rewrite HJ in Hr.
    destruct (first_argmax c_obj (group i (reinserted c _ st))) as [w|] eqn:E; [|discriminate].
    inversion Hr; subst; simpl. apply first_argmax_in, group_in in E. destruct E as [Hin _].
    eapply reinserted_mea; eauto.
  - rewrite Hb. apply (si_buf HS).
Qed.

Lemma buf_add_ok c (buf : list entry) e : Forall (entry_ok c) buf -> entry_ok c e -> Forall (entry_ok c) (buf_add c buf e).
Proof.
  intros HB He. unfold buf_add. apply Forall_app. split; [|constructor; auto].
  destruct (buf_full c buf); auto. destruct buf; simpl; auto. inversion HB; auto.
Qed.

Lemma buf_add_ne c (buf : list entry) e : buf_add c buf e <> [].
Proof. unfold buf_add. destruct (if buf_full c buf then tl buf else buf); discriminate. Qed.

Lemma sadd_single_sinv c (st : sstate) e : cwf c -> SInv c st -> entry_ok c e -> SInv c (fst (sadd_single false c st e)).
Proof.
  intros Hc HS He. unfold sadd_single.
  destruct (Nat.eqb (S (ss_total st) mod s_freq c) 0).
  - apply remap_sinv; auto; simpl; [|apply buf_add_ne].
    destruct HS as [H1 H2 H3 H4 H5]. constructor; simpl; auto. apply buf_add_ok; auto.
  - destruct (add_single (acfg c) (ss_arch st) (cand_of_entry c (ss_geom st) e)) as [a' fb] eqn:E.
    assert (Ha' : a' = astep (acfg c) (ss_arch st) (AddSingle (cand_of_entry c (ss_geom st) e))) by (unfold astep; rewrite E; reflexivity).
    assert (Hlt : c_cell (cand_of_entry c (ss_geom st) e) < cells (acfg c))
      by (apply cand_of_cell_lt; auto; apply (si_gwf HS)).
    constructor; simpl.
    + rewrite Ha'. apply astep_ainv, (si_ainv HS).
    + apply (si_gwf HS).
    + rewrite Ha'. apply astep_own_cell; [apply (si_ainv HS)|exact Hlt|reflexivity|apply (si_own HS)].
    + intros i r Hr. rewrite Ha' in Hr. unfold astep in Hr.
      rewrite (add_single_content _ i (si_ainv HS) Hlt) in Hr.
      unfold single_row in Hr.
      destruct (Nat.eqb i (c_cell (cand_of_entry c (ss_geom st) e)) && single_ok (acfg c) (bump_add (a_store (ss_arch st))) (cand_of_entry c (ss_geom st) e))%bool.
      * inversion Hr; subst; simpl. exact He.
      * eapply (si_mea HS); eauto.
    + apply buf_add_ok; auto. apply (si_buf HS).
Qed.

Lemma sadd_sinv c es : forall (st : sstate), cwf c -> SInv c st -> Forall (entry_ok c) es -> SInv c (fst (sadd false c st es)).
Proof.
  induction es as [|e t IH]; intros st Hc HS He; simpl; auto.
  inversion He; subst.
  pose proof (@sadd_single_sinv c st e Hc HS H1) as H.
  destruct (sadd_single false c st e) as [st1 fb]. simpl in H.
  specialize (IH st1 Hc H H2). destruct (sadd false c st1 t) as [st2 fbs]. exact IH.
Qed.

Definition sop_ok (c : scfg) (o : sop) : Prop :=
  match o with SAdd es => Forall (entry_ok c) es | SAddSingle e => entry_ok c e | SClear => True end.

Lemma sclear_sinv c (st : sstate) : SInv c st -> SInv c (sclear c st).
Proof.
  intros [H1 H2 H3 H4 H5]. constructor; simpl; auto.
  - apply clear_ainv; auto.
  - intros i r Hr. rewrite clear_content in Hr. discriminate.
  - intros i r Hr. rewrite clear_content in Hr. discriminate.
Qed.

Lemma sinit_sinv c : cwf c -> SInv c (sinit P c).
Proof.
  intros Hc. constructor; simpl.
  - apply init_ainv.
  - apply geom0_wf; auto.
  - intros i r Hr. rewrite init_content in Hr. discriminate.
  - intros i r Hr. rewrite init_content in Hr. discriminate.
  - constructor.
Qed.

Theorem sinv_run c (h : list sop) : cwf c -> (forall o, In o h -> sop_ok c o) -> SInv c (srun false c h).
Proof.
  intros Hc. unfold srun. generalize (sinit_sinv Hc). generalize (sinit P c).
  induction h as [|o t IH]; intros st HS Hok; simpl; auto.
  apply IH; [|intros; apply Hok; simpl; auto].
  specialize (Hok o (or_introl eq_refl)).
  destruct o as [es|e|]; simpl.
  - apply sadd_sinv; auto.
  - apply sadd_single_sinv; auto.
  - apply sclear_sinv; auto.
Qed.

(** nothing is lost except to a better (or equal, earlier) solution in the same new cell *)
Theorem remap_nothing_lost c (st : sstate) x :
  cwf c -> SInv c st -> ss_buf st <> [] ->
  let g' := new_geom c (sorted_measures c (ss_buf st)) in
  In x (reinserted c g' st) ->
  exists r, content (ss_arch (fst (remap false c st))) (c_cell x) = Some r /\ (c_obj x <= r_obj r)%Q.
Proof.
  intros Hc HS Hne g' Hx. destruct (remap_contents Hc HS Hne) as [_ [_ HJ]]. fold g' in HJ.
  rewrite HJ.
  assert (Hg : In x (group (c_cell x) (reinserted c g' st))) by (apply group_in; auto).
  destruct (first_argmax c_obj (group (c_cell x) (reinserted c g' st))) as [w|] eqn:E.
  - exists (elite_of w). split; [reflexivity|]. simpl. eapply first_argmax_ge; eauto.
  - apply fam_none_iff in E. rewrite E in Hg. destruct Hg.
Qed.

End SlidingProofs.

(** * whole histories: at every point the contents are the first arg-max, per cell of the CURRENT geometry, of
    (what the last remap re-inserted ++ every insertion since), or of the insertions since the last clear *)
Section History.
Variable P : Type.
Notation PP := (list Q * P)%type.
Notation entry := (entry P).
Notation sstate := (sstate P).
Notation sop := (sop P).

(** ghost: the candidates (routed by the geometry in force when they were (re-)inserted) that account for the contents *)
Definition gadd_single (c : scfg) (sa : sstate * list (cand PP)) (e : entry) : sstate * list (cand PP) :=
  let '(st, acc) := sa in
  let st' := fst (sadd_single false c st e) in
  if Nat.eqb (S (ss_total st) mod s_freq c) 0
  then (st', reinserted c (ss_geom st') (mkSS (ss_arch st) (buf_add c (ss_buf st) e) (S (ss_total st)) (ss_geom st)))
  else (st', acc ++ [cand_of_entry c (ss_geom st) e]).

Definition gstep (c : scfg) (sa : sstate * list (cand PP)) (o : sop) : sstate * list (cand PP) :=
  match o with
  | SAdd es => fold_left (gadd_single c) es sa
  | SAddSingle e => gadd_single c sa e
  | SClear => (sclear c (fst sa), [])
  end.

Definition grun (c : scfg) (h : list sop) : sstate * list (cand PP) := fold_left (gstep c) h (sinit P c, []).

Lemma sadd_fold c es : forall (st : sstate), fst (sadd false c st es) = fold_left (fun s e => fst (sadd_single false c s e)) es st.
Proof.
  induction es as [|e t IH]; intros st; simpl; [reflexivity|].
  destruct (sadd_single false c st e) as [st1 fb] eqn:E1. specialize (IH st1).
  destruct (sadd false c st1 t) as [st2 fbs]. simpl in *. exact IH.
Qed.

Lemma gadd_single_fst c sa e : fst (gadd_single c sa e) = fst (sadd_single false c (fst sa) e).
Proof. destruct sa as [st acc]. unfold gadd_single. destruct (Nat.eqb _ 0); reflexivity. Qed.

Lemma gfold_fst c es : forall sa, fst (fold_left (gadd_single c) es sa) = fst (sadd false c (fst sa) es).
Proof.
  induction es as [|e t IH]; intros sa; [reflexivity|].
  simpl fold_left. rewrite IH, gadd_single_fst, !sadd_fold. reflexivity.
Qed.

(** the ghost run follows the real run *)
Lemma grun_fst c h : fst (grun c h) = srun false c h.
Proof.
  unfold grun, srun. generalize (@nil (cand PP)). generalize (sinit P c).
  induction h as [|o t IH]; intros st acc; [reflexivity|].
  cbn [fold_left]. destruct o as [es|e|]; cbn [gstep sstep].
  - destruct (fold_left (gadd_single c) es (st, acc)) as [st' acc'] eqn:E. rewrite IH. f_equal.
    change st' with (fst (st', acc')). rewrite <- E, gfold_fst. reflexivity.
  - destruct (gadd_single c (st, acc) e) as [st' acc'] eqn:E. rewrite IH. f_equal.
    change st' with (fst (st', acc')). rewrite <- E, gadd_single_fst. reflexivity.
  - cbn [fst]. apply IH.
Qed.

Definition GInv (c : scfg) (sa : sstate * list (cand PP)) : Prop :=
  SInv c (fst sa) /\ J (acfg c) (ss_arch (fst sa)) (snd sa) /\
  forall x, In x (snd sa) -> c_cell x = cell_of c (ss_geom (fst sa)) (c_pay x).

Lemma gadd_single_inv c sa e : cwf c -> entry_ok c e -> GInv c sa -> GInv c (gadd_single c sa e).
Proof.
  intros Hc He [HS [HJ Hcell]]. destruct sa as [st acc]. simpl in HS, HJ, Hcell.
  pose proof (@sadd_single_sinv P c st e Hc HS He) as HS'.
  unfold gadd_single. destruct (Nat.eqb (S (ss_total st) mod s_freq c) 0) eqn:E.
  - set (st1 := mkSS (ss_arch st) (buf_add c (ss_buf st) e) (S (ss_total st)) (ss_geom st)).
    assert (HS1 : SInv c st1).
    { destruct HS as [H1 H2 H3 H4 H5]. constructor; simpl; auto. apply buf_add_ok; auto. }
    assert (Hne : ss_buf st1 <> []) by apply buf_add_ne.
    pose proof (remap_contents Hc HS1 Hne) as [Hg HJ'].
    assert (Heq : fst (sadd_single false c st e) = fst (remap false c st1)) by (rewrite (@remap_step P false c st e E); reflexivity).
    split; [exact HS'|]. simpl fst; simpl snd. rewrite Heq. split.
    + rewrite Hg. exact HJ'.
    + intros x Hx. rewrite Hg in *. eapply reinserted_consistent; eauto.
  - pose proof (@no_remap_step P false c st e E) as Hstep. cbv zeta in Hstep.
    assert (Hlt : c_cell (cand_of_entry c (ss_geom st) e) < cells (acfg c))
      by (apply cand_of_cell_lt; auto; apply (si_gwf HS)).
    split; [exact HS'|]. simpl fst; simpl snd. rewrite Hstep. simpl. split.
    + apply (@J_step _ (acfg c) (ss_arch st) acc (AddSingle (cand_of_entry c (ss_geom st) e)) (acfg_elitist c) HJ Hlt).
    + intros x Hx. apply in_app_or in Hx. destruct Hx as [Hx|[<-|[]]]; [apply Hcell; auto|reflexivity].
Qed.

Lemma gstep_inv c sa o : cwf c -> sop_ok c o -> GInv c sa -> GInv c (gstep c sa o).
Proof.
  intros Hc Ho HG. destruct o as [es|e|]; simpl.
  - revert sa HG. induction es as [|e t IH]; intros sa HG; simpl; auto.
    inversion Ho; subst. apply IH; auto. apply gadd_single_inv; auto.
  - apply gadd_single_inv; auto.
  - destruct HG as [HS [HJ Hcell]]. split; [apply sclear_sinv; auto|]. simpl. split.
    + split; [apply clear_ainv, (si_ainv HS)|]. intros i. rewrite clear_content. reflexivity.
    + intros x [].
Qed.

Theorem history_contents c (h : list sop) :
  cwf c -> (forall o, In o h -> sop_ok c o) ->
  forall i, content (ss_arch (srun false c h)) i =
            option_map (@elite_of PP) (first_argmax c_obj (group i (snd (grun c h)))) /\
            (forall x, In x (snd (grun c h)) ->
               c_cell x = sindex (s_eps c) (s_dims c) (ss_geom (srun false c h)) (fst (c_pay x))).
Proof.
  intros Hc Hok.
  assert (HG : GInv c (grun c h)).
  { unfold grun.
    assert (H0 : GInv c (sinit P c, [])).
    { split; [apply sinit_sinv; auto|]. simpl. split; [apply J_init|intros x []]. }
    revert H0 Hok. generalize (sinit P c, @nil (cand PP)).
    induction h as [|o t IH]; intros sa H0 Hok; simpl; auto.
    apply IH; [apply gstep_inv; auto; apply Hok; simpl; auto|intros; apply Hok; simpl; auto]. }
  destruct HG as [_ [[_ HJ] Hcell]]. rewrite grun_fst in HJ, Hcell.
  intros i. split; [apply HJ|exact Hcell].
Qed.

End History.

(** * feedback of a remapping insertion (C02 for SlidingBoundariesArchive): status and value of the newest solution are judged
    against the REBUILT archive (previous elites, then the buffer without the newest solution, under the new geometry) as it is just
    before the newest solution is inserted *)
Section RemapFeedback.
Variable P : Type.
Notation PP := (list Q * P)%type.

Definition rebuilt (c : scfg) (st : sstate P) : archive PP :=
  let g' := new_geom c (sorted_measures c (ss_buf st)) in
  fst (add (acfg c) (clear (acfg c) (ss_arch st))
           (map (cand_of_row c g') (cur_rows (ss_arch st)) ++ map (cand_of_entry c g') (removelast (ss_buf st)))).

Theorem remap_feedback c (st : sstate P) lst r :
  cwf c -> SInv c st -> rev (ss_buf st) = lst :: r ->
  let g' := new_geom c (sorted_measures c (ss_buf st)) in
  let x := cand_of_entry c g' lst in
  snd (remap false c st) = (judge_status (acfg c) (rebuilt c st) x, judge_value (acfg c) (rebuilt c st) x).
Proof.
  intros Hc HS Hrev g' x. unfold remap. rewrite Hrev. fold g'.
  change (fst (add (acfg c) (clear (acfg c) (ss_arch st))
                   (map (cand_of_row c g') (cur_rows (ss_arch st)) ++ map (cand_of_entry c g') (removelast (ss_buf st)))))
    with (rebuilt c st).
  assert (HA : AInv (acfg c) (rebuilt c st)).
  { unfold rebuilt. apply add_inv. apply clear_ainv. apply (si_ainv HS). }
  pose proof (@add_single_feedback PP (acfg c) (rebuilt c st) x HA) as Hfb.
  destruct (add_single (acfg c) (rebuilt c st) (cand_of_entry c g' lst)) as [a3 fb] eqn:E.
  simpl. unfold x in Hfb. rewrite E in Hfb. simpl in Hfb. exact Hfb.
Qed.

End RemapFeedback.
