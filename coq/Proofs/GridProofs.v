(** Lemmas about Model/Grid.v (exact GridArchive.index_of). *)
From Coq Require Import List ZArith QArith Qround Qminmax Bool Lia Lqa.
From PV Require Import Base.MixedRadix Model.Grid.
Import ListNotations.
Open Scope Q_scope.

(** * floor / trunc facts *)
Lemma Qfloor_ge (z : Z) (x : Q) : inject_Z z <= x -> (z <= Qfloor x)%Z.
Proof. intros H. rewrite <- (Qfloor_Z z). apply Qfloor_resp_le. exact H. Qed.

Lemma Qfloor_lt (z : Z) (x : Q) : x < inject_Z z -> (Qfloor x < z)%Z.
Proof.
  intros H. rewrite Zlt_Qlt. eapply Qle_lt_trans; [apply Qfloor_le|exact H].
Qed.

Lemma Qfloor_unique (z : Z) (x : Q) : inject_Z z <= x -> x < inject_Z (z + 1) -> Qfloor x = z.
Proof. intros H1 H2. pose proof (Qfloor_ge _ _ H1). pose proof (Qfloor_lt _ _ H2). lia. Qed.

Lemma Qceiling_neg (x : Q) : x < 0 -> (Qceiling x <= 0)%Z.
Proof.
  intros H. unfold Qceiling.
  assert (H0 : (0 <= Qfloor (- x))%Z) by (apply Qfloor_ge; change (inject_Z 0) with 0; lra).
  lia.
Qed.

Lemma Qle_bool_false (x y : Q) : Qle_bool x y = false -> y < x.
Proof.
  intros H. apply Qnot_le_lt. intros C. apply Qle_bool_iff in C. congruence.
Qed.

Lemma Qtrunc_nonneg (x : Q) : 0 <= x -> Qtrunc x = Qfloor x.
Proof. intros H. unfold Qtrunc. apply Qle_bool_iff in H. rewrite H. reflexivity. Qed.

Lemma Qtrunc_neg (x : Q) : x < 0 -> Qtrunc x = Qceiling x.
Proof.
  intros H. unfold Qtrunc. destruct (Qle_bool 0 x) eqn:E; [|reflexivity].
  apply Qle_bool_iff in E. lra.
Qed.

Lemma Qtrunc_ge (z : Z) (x : Q) : (0 <= z)%Z -> inject_Z z <= x -> (z <= Qtrunc x)%Z.
Proof.
  intros Hz H. assert (H0 : 0 <= x).
  { eapply Qle_trans; [|exact H]. change 0 with (inject_Z 0). rewrite <- Zle_Qle. exact Hz. }
  rewrite Qtrunc_nonneg by exact H0. apply Qfloor_ge. exact H.
Qed.

Lemma Qtrunc_lt (z : Z) (x : Q) : (0 < z)%Z -> x < inject_Z z -> (Qtrunc x < z)%Z.
Proof.
  intros Hz H. destruct (Qlt_le_dec x 0) as [Hn|Hp].
  - rewrite Qtrunc_neg by exact Hn. pose proof (Qceiling_neg _ Hn). lia.
  - rewrite Qtrunc_nonneg by exact Hp. apply Qfloor_lt. exact H.
Qed.

Lemma Qtrunc_mono (x y : Q) : x <= y -> (Qtrunc x <= Qtrunc y)%Z.
Proof.
  intros H. destruct (Qlt_le_dec x 0) as [Hx|Hx]; destruct (Qlt_le_dec y 0) as [Hy|Hy].
  - rewrite !Qtrunc_neg by assumption. apply Qceiling_resp_le. exact H.
  - rewrite (Qtrunc_neg _ Hx), (Qtrunc_nonneg _ Hy).
    pose proof (Qceiling_neg _ Hx). assert ((0 <= Qfloor y)%Z) by (apply Qfloor_ge; exact Hy). lia.
  - lra.
  - rewrite !Qtrunc_nonneg by assumption. apply Qfloor_resp_le. exact H.
Qed.

Lemma Qtrunc_comp (x y : Q) : x == y -> Qtrunc x = Qtrunc y.
Proof.
  intros E. apply Z.le_antisymm; apply Qtrunc_mono; rewrite E; apply Qle_refl.
Qed.

(** truncation and floor only differ on negative values, which the clip sends to 0 anyway *)
Lemma clip_trunc_floor (h : Z) (x : Q) : (0 <= h)%Z -> clipZ 0 h (Qtrunc x) = clipZ 0 h (Qfloor x).
Proof.
  intros Hh. destruct (Qlt_le_dec x 0) as [Hn|Hp].
  - rewrite Qtrunc_neg by exact Hn. pose proof (Qceiling_neg _ Hn) as Hc.
    assert (Hf : (Qfloor x < 0)%Z) by (apply Qfloor_lt; exact Hn).
    unfold clipZ. lia.
  - rewrite Qtrunc_nonneg by exact Hp. reflexivity.
Qed.

Lemma clipZ_range (h x : Z) : (0 <= h)%Z -> (0 <= clipZ 0 h x <= h)%Z.
Proof. unfold clipZ. lia. Qed.

Lemma clipZ_mono (l h x y : Z) : (x <= y)%Z -> (clipZ l h x <= clipZ l h y)%Z.
Proof. unfold clipZ. lia. Qed.

(** * one dimension *)
Section OneDim.
Variables (d : Z) (lo hi eps : Q).
Hypothesis Hd : (1 <= d)%Z.
Hypothesis Hw : lo < hi.
Hypothesis Heps : 0 <= eps.

Let w := hi - lo.
Let dq := inject_Z d.

Lemma w_pos : 0 < hi - lo.
Proof. lra. Qed.

Lemma dq_pos : 0 < inject_Z d.
Proof. change 0 with (inject_Z 0). rewrite <- Zlt_Qlt. lia. Qed.

(** z <= raw  <->  z*w <= numerator *)
Lemma raw_ge (z : Q) (m : Q) : z * (hi - lo) <= inject_Z d * (m - lo) + eps -> z <= grid_raw d lo hi eps m.
Proof. intros H. unfold grid_raw. apply Qle_shift_div_l; [exact w_pos|exact H]. Qed.

Lemma raw_lt (z : Q) (m : Q) : inject_Z d * (m - lo) + eps < z * (hi - lo) -> grid_raw d lo hi eps m < z.
Proof. intros H. unfold grid_raw. apply Qlt_shift_div_r; [exact w_pos|exact H]. Qed.

Lemma raw_mono (m1 m2 : Q) : m1 <= m2 -> grid_raw d lo hi eps m1 <= grid_raw d lo hi eps m2.
Proof.
  intros H. unfold grid_raw, Qdiv. apply Qmult_le_compat_r.
  - pose proof dq_pos as Hq. nra.
  - apply Qlt_le_weak. apply Qinv_lt_0_compat. exact w_pos.
Qed.

Lemma grid_idx1_range (m : Q) : (0 <= grid_idx1 d lo hi eps m < d)%Z.
Proof. unfold grid_idx1. pose proof (clipZ_range (d - 1) (Qtrunc (grid_raw d lo hi eps m))). lia. Qed.

Lemma grid_idx1_mono (m1 m2 : Q) : m1 <= m2 -> (grid_idx1 d lo hi eps m1 <= grid_idx1 d lo hi eps m2)%Z.
Proof. intros H. unfold grid_idx1. apply clipZ_mono, Qtrunc_mono, raw_mono, H. Qed.

(** a cell index is determined by the two inequalities  j <= raw < j+1 *)
Lemma grid_idx1_of_bounds (m : Q) (j : Z) : (0 <= j < d)%Z ->
  inject_Z j * (hi - lo) <= inject_Z d * (m - lo) + eps ->
  inject_Z d * (m - lo) + eps < inject_Z (j + 1) * (hi - lo) ->
  grid_idx1 d lo hi eps m = j.
Proof.
  intros Hj H1 H2. unfold grid_idx1.
  assert (Ht : Qtrunc (grid_raw d lo hi eps m) = j).
  { pose proof (Qtrunc_ge j _ (proj1 Hj) (raw_ge _ _ H1)) as A.
    assert (B : (Qtrunc (grid_raw d lo hi eps m) < j + 1)%Z) by (apply Qtrunc_lt; [lia|apply raw_lt; exact H2]).
    lia. }
  rewrite Ht. unfold clipZ. lia.
Qed.

Lemma grid_idx1_ge (m : Q) (j : Z) : (0 <= j < d)%Z ->
  inject_Z j * (hi - lo) <= inject_Z d * (m - lo) + eps -> (j <= grid_idx1 d lo hi eps m)%Z.
Proof.
  intros Hj H1. unfold grid_idx1.
  pose proof (Qtrunc_ge j _ (proj1 Hj) (raw_ge _ _ H1)) as A. unfold clipZ. lia.
Qed.

Lemma grid_idx1_le (m : Q) (j : Z) : (0 <= j)%Z ->
  inject_Z d * (m - lo) + eps < inject_Z (j + 1) * (hi - lo) -> (grid_idx1 d lo hi eps m <= j)%Z.
Proof.
  intros Hj H2. unfold grid_idx1.
  assert (B : (Qtrunc (grid_raw d lo hi eps m) < j + 1)%Z) by (apply Qtrunc_lt; [lia|apply raw_lt; exact H2]).
  unfold clipZ. lia.
Qed.

(** out of range above, ANY magnitude: last cell *)
Lemma grid_idx1_edge_high (m : Q) : hi <= m -> grid_idx1 d lo hi eps m = (d - 1)%Z.
Proof.
  intros H. unfold grid_idx1.
  assert (A : (d <= Qtrunc (grid_raw d lo hi eps m))%Z).
  { apply Qtrunc_ge; [lia|]. apply raw_ge. pose proof dq_pos as Hq. nra. }
  unfold clipZ. lia.
Qed.

(** out of range below, any magnitude: first cell (needs epsilon below the range width, as every
    sensible archive has: otherwise even m = lower maps to cell >= 1) *)
Lemma grid_idx1_edge_low (m : Q) : m <= lo -> eps < hi - lo -> grid_idx1 d lo hi eps m = 0%Z.
Proof.
  intros H He.
  assert (A : (grid_idx1 d lo hi eps m <= 0)%Z).
  { apply grid_idx1_le; [lia|]. change (inject_Z (0 + 1)) with 1. pose proof dq_pos as Hq.
    assert (P : 0 <= inject_Z d * (lo - m)) by (apply Qmult_le_0_compat; lra). lra. }
  pose proof (grid_idx1_range m). lia.
Qed.

(** without any assumption on epsilon: at or below lower - eps/d *)
Lemma grid_idx1_edge_low_shifted (m : Q) : m + eps / inject_Z d <= lo -> grid_idx1 d lo hi eps m = 0%Z.
Proof.
  intros H.
  assert (A : (grid_idx1 d lo hi eps m <= 0)%Z).
  { apply grid_idx1_le; [lia|]. change (inject_Z (0 + 1)) with 1. pose proof dq_pos as Hq.
    assert (E : inject_Z d * (m + eps / inject_Z d) == inject_Z d * m + eps) by (field; lra).
    assert (inject_Z d * (m + eps / inject_Z d) <= inject_Z d * lo) by (apply Qmult_le_l; assumption).
    lra. }
  pose proof (grid_idx1_range m). lia.
Qed.

(** the shift characterisation: index_of is the exact [lower, upper) interval map applied to the
    coordinate shifted up by epsilon/dims *)
Lemma grid_idx1_shift (m : Q) :
  grid_idx1 d lo hi eps m =
  clipZ 0 (d - 1) (Qfloor (inject_Z d * ((m + eps / inject_Z d) - lo) / (hi - lo))).
Proof.
  unfold grid_idx1. rewrite clip_trunc_floor by lia. f_equal. apply Qfloor_comp.
  unfold grid_raw. pose proof dq_pos as Hq. pose proof w_pos as Hww. field. split; lra.
Qed.

(** boundaries *)
Lemma boundary_scaled (j : Z) : inject_Z d * (grid_boundary d lo hi j - lo) == inject_Z j * (hi - lo).
Proof. unfold grid_boundary. pose proof dq_pos as Hq. field. lra. Qed.

Lemma boundary_0 : grid_boundary d lo hi 0 == lo.
Proof. unfold grid_boundary. pose proof dq_pos as Hq. simpl. field. lra. Qed.

Lemma boundary_d : grid_boundary d lo hi d == hi.
Proof. unfold grid_boundary. pose proof dq_pos as Hq. field. lra. Qed.

Lemma le_boundary_scaled (j : Z) (m : Q) :
  grid_boundary d lo hi j <= m -> inject_Z j * (hi - lo) <= inject_Z d * (m - lo).
Proof.
  intros H. rewrite <- boundary_scaled. pose proof dq_pos as Hq.
  apply Qmult_le_l; [exact Hq|lra].
Qed.

Lemma lt_boundary_scaled (j : Z) (m : Q) :
  m < grid_boundary d lo hi j -> inject_Z d * (m - lo) < inject_Z j * (hi - lo).
Proof.
  intros H. rewrite <- boundary_scaled. pose proof dq_pos as Hq.
  apply Qmult_lt_l; [exact Hq|lra].
Qed.

(** interior of a cell (more than eps/d below its upper boundary): exactly that cell *)
Lemma grid_idx1_in_cell (m : Q) (j : Z) : (0 <= j < d)%Z ->
  grid_boundary d lo hi j <= m -> m + eps / inject_Z d < grid_boundary d lo hi (j + 1) ->
  grid_idx1 d lo hi eps m = j.
Proof.
  intros Hj H1 H2. apply grid_idx1_of_bounds; [exact Hj| |].
  - pose proof (le_boundary_scaled _ _ H1). lra.
  - pose proof (lt_boundary_scaled _ _ H2) as A. pose proof dq_pos as Hq.
    assert (E : inject_Z d * (m + eps / inject_Z d - lo) == inject_Z d * (m - lo) + eps) by (field; lra).
    lra.
Qed.

(** anywhere in the cell [b_j, b_{j+1}): that cell or the one above (never further, as long as
    epsilon does not exceed the range width) *)
Lemma grid_idx1_in_cell_or_next (m : Q) (j : Z) : (0 <= j < d)%Z -> eps <= hi - lo ->
  grid_boundary d lo hi j <= m -> m < grid_boundary d lo hi (j + 1) ->
  grid_idx1 d lo hi eps m = j \/ grid_idx1 d lo hi eps m = Z.min (j + 1) (d - 1).
Proof.
  intros Hj He H1 H2.
  assert (A : (j <= grid_idx1 d lo hi eps m)%Z).
  { apply grid_idx1_ge; [exact Hj|]. pose proof (le_boundary_scaled _ _ H1). lra. }
  assert (B : (grid_idx1 d lo hi eps m <= j + 1)%Z).
  { apply grid_idx1_le; [lia|]. pose proof (lt_boundary_scaled _ _ H2) as C.
    rewrite (inject_Z_plus (j + 1) 1). change (inject_Z 1) with 1. lra. }
  pose proof (grid_idx1_range m). lia.
Qed.

(** a coordinate equal to a boundary belongs to the cell above it *)
Lemma grid_idx1_boundary_ge (j : Z) : (0 <= j < d)%Z -> (j <= grid_idx1 d lo hi eps (grid_boundary d lo hi j))%Z.
Proof.
  intros Hj. apply grid_idx1_ge; [exact Hj|]. rewrite boundary_scaled. lra.
Qed.

Lemma grid_idx1_boundary_eq (j : Z) : (0 <= j < d)%Z -> eps < hi - lo ->
  grid_idx1 d lo hi eps (grid_boundary d lo hi j) = j.
Proof.
  intros Hj He. apply grid_idx1_of_bounds; [exact Hj| |]; rewrite boundary_scaled; [lra|].
  rewrite inject_Z_plus. change (inject_Z 1) with 1. lra.
Qed.

(** the repaired code (clip in floating point, then cast) computes the same cell *)
Lemma clipQ_cases (h : Z) (x : Q) : (0 <= h)%Z ->
  (x < 0 /\ clipQ 0 (inject_Z h) x == 0) \/
  (0 <= x /\ x <= inject_Z h /\ clipQ 0 (inject_Z h) x == x) \/
  (inject_Z h < x /\ clipQ 0 (inject_Z h) x == inject_Z h).
Proof.
  intros Hh. assert (H0 : 0 <= inject_Z h) by (change 0 with (inject_Z 0); rewrite <- Zle_Qle; exact Hh).
  unfold clipQ.
  destruct (Qlt_le_dec x 0) as [Hn|Hp].
  - left. split; [exact Hn|]. rewrite (Q.max_r x 0) by lra. apply Q.min_l. exact H0.
  - right. rewrite (Q.max_l x 0) by exact Hp.
    destruct (Qlt_le_dec (inject_Z h) x) as [Hb|Hs].
    + right. split; [exact Hb|]. apply Q.min_r. lra.
    + left. split; [exact Hp|]. split; [exact Hs|]. apply Q.min_l. exact Hs.
Qed.

Lemma grid_idx1_clip_first_eq (m : Q) : grid_idx1_clip_first d lo hi eps m = grid_idx1 d lo hi eps m.
Proof.
  unfold grid_idx1_clip_first, grid_idx1. set (x := grid_raw d lo hi eps m).
  assert (Hh : (0 <= d - 1)%Z) by lia.
  destruct (clipQ_cases (d - 1) x Hh) as [[Hx E]|[[Hx [Hx2 E]]|[Hx E]]]; rewrite (Qtrunc_comp _ _ E).
  - rewrite (Qtrunc_neg _ Hx). pose proof (Qceiling_neg _ Hx). unfold clipZ. change (Qtrunc 0) with 0%Z. lia.
  - pose proof (Qtrunc_ge 0 x (Z.le_refl 0) Hx) as A.
    assert (B : (Qtrunc x <= d - 1)%Z).
    { rewrite (Qtrunc_nonneg _ Hx). rewrite <- (Qfloor_Z (d - 1)). apply Qfloor_resp_le. exact Hx2. }
    unfold clipZ. lia.
  - assert (A : (d - 1 <= Qtrunc x)%Z) by (apply Qtrunc_ge; [lia|lra]).
    rewrite (Qtrunc_nonneg (inject_Z (d - 1))) by (change 0 with (inject_Z 0); rewrite <- Zle_Qle; lia).
    rewrite Qfloor_Z. unfold clipZ. lia.
Qed.

(** where the pre-fix code (cast to int32, then clip) is right: whenever the truncated raw value fits into int32 *)
Lemma grid_idx1_int32_first_agrees (m : Q) :
  (int32_min <= Qtrunc (grid_raw d lo hi eps m) <= int32_max)%Z ->
  grid_idx1_int32_first d lo hi eps m = grid_idx1 d lo hi eps m.
Proof.
  intros [H1 H2]. unfold grid_idx1_int32_first, grid_idx1, cast_int32.
  apply Z.leb_le in H1. apply Z.leb_le in H2. rewrite H1, H2. reflexivity.
Qed.

(** ... and what it does otherwise: every coordinate whose raw value is at or beyond 2^31 lands in cell 0 *)
Lemma grid_idx1_int32_first_wraps (m : Q) :
  inject_Z (int32_max + 1) <= grid_raw d lo hi eps m -> grid_idx1_int32_first d lo hi eps m = 0%Z.
Proof.
  intros H. unfold grid_idx1_int32_first, cast_int32.
  assert (A : (int32_max + 1 <= Qtrunc (grid_raw d lo hi eps m))%Z) by (apply Qtrunc_ge; [unfold int32_max; lia|exact H]).
  assert (E : (Qtrunc (grid_raw d lo hi eps m) <=? int32_max)%Z = false) by (apply Z.leb_gt; lia).
  rewrite E, andb_false_r. unfold clipZ, int32_min. lia.
Qed.
(** the repaired code (clip in floating point, then cast; fixes/F1.patch), stated directly: in range, monotone and
    sending every coordinate at or above the upper bound -- of every magnitude -- to the last cell *)
Lemma grid_idx1_clip_first_range (m : Q) : (0 <= grid_idx1_clip_first d lo hi eps m < d)%Z.
Proof. rewrite grid_idx1_clip_first_eq. apply grid_idx1_range. Qed.

Lemma grid_idx1_clip_first_mono (m1 m2 : Q) : m1 <= m2 ->
  (grid_idx1_clip_first d lo hi eps m1 <= grid_idx1_clip_first d lo hi eps m2)%Z.
Proof. intro H. rewrite !grid_idx1_clip_first_eq. apply grid_idx1_mono. exact H. Qed.

Lemma grid_idx1_clip_first_edge_high (m : Q) : hi <= m -> grid_idx1_clip_first d lo hi eps m = (d - 1)%Z.
Proof. intro H. rewrite grid_idx1_clip_first_eq. apply grid_idx1_edge_high. exact H. Qed.

Lemma grid_idx1_clip_first_edge_low (m : Q) : m <= lo -> eps < hi - lo -> grid_idx1_clip_first d lo hi eps m = 0%Z.
Proof. intros H1 H2. rewrite grid_idx1_clip_first_eq. apply grid_idx1_edge_low; assumption. Qed.
End OneDim.

(** the pre-fix code (cast to int32, then clip) violates edge-high (and monotonicity): dims=[10], ranges=[(0,1)], 1e9 -> cell 0 *)
Lemma int32_first_edge_high_witness :
  grid_idx1_int32_first 10 0 1 (1 # 1000000) 1000000000 = 0%Z /\
  grid_idx1 10 0 1 (1 # 1000000) 1000000000 = 9%Z /\
  grid_idx1_int32_first 10 0 1 (1 # 1000000) (1 # 2) = 5%Z.
Proof. vm_compute. repeat split; reflexivity. Qed.

(** * all dimensions *)
Lemma grid_cells_in_grid (eps : Q) (cfg : list gdim) : valid_cfg cfg -> forall m, length m = length cfg ->
  in_gridZ (grid_dims cfg) (grid_cells grid_idx1 eps cfg m).
Proof.
  induction 1 as [|c ct [Hc1 Hc2] Ht IH]; intros [|x mt] Hl; simpl in *; try discriminate; constructor.
  - pose proof (grid_idx1_range (gd c) (glo c) (ghi c) eps Hc1 x). lia.
  - apply IH. lia.
Qed.

Lemma grid_index_range (eps : Q) (cfg : list gdim) (m : list Q) : valid_cfg cfg -> length m = length cfg ->
  (0 <= grid_index_of_one eps cfg m < prodZ (grid_dims cfg))%Z.
Proof. intros Hv Hl. apply ravelZ_range, grid_cells_in_grid; assumption. Qed.

Lemma grid_int_to_grid_of_index (eps : Q) (cfg : list gdim) (m : list Q) : valid_cfg cfg -> length m = length cfg ->
  int_to_grid_index cfg (grid_index_of_one eps cfg m) = grid_cells grid_idx1 eps cfg m.
Proof. intros Hv Hl. apply unravelZ_ravelZ, grid_cells_in_grid; assumption. Qed.

Lemma valid_cfg_positive (cfg : list gdim) : valid_cfg cfg -> positive_dimsZ (grid_dims cfg).
Proof. induction 1 as [|c ct [Hc1 Hc2] Ht IH]; simpl; constructor; [lia|exact IH]. Qed.

Lemma grid_to_int_to_grid (cfg : list gdim) (g : list Z) : in_gridZ (grid_dims cfg) g ->
  int_to_grid_index cfg (grid_to_int_index cfg g) = g.
Proof. apply unravelZ_ravelZ. Qed.

Lemma int_to_grid_to_int (cfg : list gdim) (i : Z) : valid_cfg cfg -> (0 <= i < prodZ (grid_dims cfg))%Z ->
  grid_to_int_index cfg (int_to_grid_index cfg i) = i /\ in_gridZ (grid_dims cfg) (int_to_grid_index cfg i).
Proof.
  intros Hv Hi. split; [apply ravelZ_unravelZ|apply unravelZ_in_grid]; try exact Hi; apply valid_cfg_positive, Hv.
Qed.

(** monotone: raising any coordinates never lowers any grid index, nor the flattened index *)
Lemma grid_cells_mono (eps : Q) (cfg : list gdim) : valid_cfg cfg -> forall m1 m2, Forall2 Qle m1 m2 ->
  Forall2 Z.le (grid_cells grid_idx1 eps cfg m1) (grid_cells grid_idx1 eps cfg m2).
Proof.
  induction 1 as [|c ct [Hc1 Hc2] Ht IH]; intros m1 m2 H; simpl.
  - destruct m1; constructor.
  - destruct H as [|x y t1 t2 Hxy Hr]; constructor.
    + apply grid_idx1_mono; assumption.
    + apply IH. exact Hr.
Qed.

Lemma ravelZ_mono (dims : list Z) : positive_dimsZ dims -> forall g1 g2, Forall2 Z.le g1 g2 ->
  (ravelZ dims g1 <= ravelZ dims g2)%Z.
Proof.
  induction 1 as [|d t Hd Ht IH]; intros g1 g2 H; simpl; [lia|].
  destruct H as [|x y t1 t2 Hxy Hr]; [lia|].
  pose proof (prodZ_pos _ Ht) as Hp. pose proof (IH _ _ Hr). nia.
Qed.

Lemma grid_index_mono (eps : Q) (cfg : list gdim) (m1 m2 : list Q) : valid_cfg cfg -> Forall2 Qle m1 m2 ->
  (grid_index_of_one eps cfg m1 <= grid_index_of_one eps cfg m2)%Z.
Proof.
  intros Hv H. apply ravelZ_mono; [apply valid_cfg_positive, Hv|apply grid_cells_mono; assumption].
Qed.

(** index_of_single agrees with index_of at every position of every batch *)
Lemma grid_single_is_batch (eps : Q) (cfg : list gdim) (ms : list (list Q)) (k : nat) : (k < length ms)%nat ->
  nth k (grid_index_of eps cfg ms) 0%Z = grid_index_of_single eps cfg (nth k ms []).
Proof.
  intros Hk. unfold grid_index_of_single, grid_index_of. simpl.
  rewrite (nth_indep _ 0%Z (grid_index_of_one eps cfg [])) by (rewrite map_length; exact Hk).
  apply map_nth.
Qed.

Lemma grid_index_of_length (eps : Q) (cfg : list gdim) (ms : list (list Q)) : length (grid_index_of eps cfg ms) = length ms.
Proof. apply map_length. Qed.

(** all dimensions: the repaired per-dimension code computes the same grid cells as the intended one *)
Lemma grid_cells_clip_first_eq (eps : Q) (cfg : list gdim) : valid_cfg cfg -> forall m,
  grid_cells grid_idx1_clip_first eps cfg m = grid_cells grid_idx1 eps cfg m.
Proof.
  unfold valid_cfg. induction 1 as [|c ct Hc Hct IH]; intros [|x mt]; simpl; try reflexivity.
  destruct Hc as [Hd _]. rewrite (grid_idx1_clip_first_eq _ _ _ _ Hd), IH. reflexivity.
Qed.
