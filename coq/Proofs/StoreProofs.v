(** Invariants and read-your-writes lemmas for the ArrayStore model. *)
From Coq Require Import List Arith Bool Lia Sorted.
From PV Require Import Base.ListUtil Model.Store.
Import ListNotations.
Set Implicit Arguments.

Section StoreProofs.
Variable R : Type.
Notation store := (store R).

Record Inv (s : store) : Prop := {
  inv_occ_len : length (occ s) = cap s;
  inv_rows_len : length (rows s) = cap s;
  inv_nodup : NoDup (olist s);
  inv_olist_occ : forall i, In i (olist s) <-> get_occ s i = true;
  inv_written : forall i, get_occ s i = true -> get_row s i <> None
}.

Lemma nth_repeat_false i n : nth i (repeat false n) false = false.
Proof. revert i; induction n; intros [|i]; simpl; auto. Qed.

Lemma nth_repeat_None A i n : nth i (repeat (@None A) n) None = None.
Proof. revert i; induction n; intros [|i]; simpl; auto. Qed.

Lemma init_inv c : Inv (init (R:=R) c).
Proof.
  constructor.
  - apply repeat_length.
  - apply repeat_length.
  - constructor.
  - intros i. unfold get_occ; simpl. rewrite nth_repeat_false. intuition discriminate.
  - intros i. unfold get_occ; simpl. rewrite nth_repeat_false. discriminate.
Qed.

Lemma NoDup_app_intro A (l1 l2 : list A) :
  NoDup l1 -> NoDup l2 -> (forall x, In x l1 -> In x l2 -> False) -> NoDup (l1 ++ l2).
Proof.
  induction l1 as [|a t IH]; intros H1 H2 Hd; simpl; auto.
  inversion H1; subst. constructor.
  - rewrite in_app_iff. intros [?|?]; [auto|]. apply (Hd a); simpl; auto.
  - apply IH; auto. intros x Hx. apply Hd; simpl; auto.
Qed.

Lemma get_occ_lt (s : store) i : length (occ s) = cap s -> get_occ s i = true -> i < cap s.
Proof.
  intros Hl H. unfold get_occ in H.
  destruct (Nat.lt_ge_cases i (cap s)); auto.
  rewrite nth_overflow in H; [discriminate | lia].
Qed.

(** ** mark *)
Lemma mark_length o new : length (mark o new) = length o.
Proof.
  unfold mark. revert o; induction new as [|i t IH]; intros o; simpl; auto.
  rewrite IH, upd_length; auto.
Qed.

Lemma mark_get o new i :
  nth i (mark o new) false = (nth i o false || (memb i new && Nat.ltb i (length o)))%bool.
Proof.
  unfold mark. revert o; induction new as [|j t IH]; intros o; simpl.
  - rewrite orb_false_r; auto.
  - rewrite IH, upd_length, nth_upd.
    rewrite (Nat.eqb_sym i j).
    destruct (Nat.eqb j i); simpl; auto.
    destruct (Nat.ltb i (length o)); simpl; auto.
    + rewrite orb_true_r; auto.
    + destruct (memb i t); simpl; auto.
Qed.

(** ** write_rows *)
Lemma write_rows_length (rs : list (option R)) idxs xs : length (write_rows rs idxs xs) = length rs.
Proof.
  unfold write_rows. revert rs xs; induction idxs as [|j t IH]; intros rs [|x xt]; simpl; auto.
  rewrite IH, upd_length; auto.
Qed.

Lemma write_rows_get (rs : list (option R)) idxs xs i :
  (forall j, In j idxs -> j < length rs) ->
  nth i (write_rows rs idxs xs) None =
  match last_write i idxs xs with Some x => Some x | None => nth i rs None end.
Proof.
  unfold write_rows. revert rs xs; induction idxs as [|j t IH]; intros rs [|x xt] Hr; simpl; auto.
  rewrite IH.
  - destruct (last_write i t xt); auto.
    rewrite nth_upd. rewrite (Nat.eqb_sym i j).
    destruct (Nat.eqb_spec j i); subst; simpl; auto.
    assert (Hlt : i < length rs) by (apply Hr; simpl; auto).
    apply Nat.ltb_lt in Hlt. rewrite Hlt; auto.
  - intros k Hk. rewrite upd_length. apply Hr; simpl; auto.
Qed.

Lemma in_range_spec (s : store) idxs : in_range s idxs = true <-> forall j, In j idxs -> j < cap s.
Proof.
  unfold in_range. rewrite forallb_forall. split; intros H j Hj; specialize (H j Hj).
  - apply Nat.ltb_lt; auto.
  - apply Nat.ltb_lt; auto.
Qed.

Lemma new_indices_In (s : store) idxs i :
  In i (new_indices s idxs) <-> In i idxs /\ get_occ s i = false.
Proof.
  unfold new_indices. rewrite filter_In, sort_uniq_In.
  destruct (get_occ s i); simpl; intuition congruence.
Qed.

Lemma new_indices_NoDup (s : store) idxs : NoDup (new_indices s idxs).
Proof. unfold new_indices. apply NoDup_filter, sort_uniq_NoDup. Qed.

Lemma StronglySorted_filter (f : nat -> bool) l : strict_sorted l -> strict_sorted (filter f l).
Proof.
  induction 1 as [|x l Hs IH Hf]; simpl; [constructor|].
  destruct (f x); auto. constructor; auto.
  rewrite Forall_forall in *. intros y Hy. apply filter_In in Hy. apply Hf; tauto.
Qed.

Lemma new_indices_sorted (s : store) idxs : strict_sorted (new_indices s idxs).
Proof. unfold new_indices. apply StronglySorted_filter, sort_uniq_sorted. Qed.

(** ** add_raw: characterisation of a successful write *)
Definition add_ok (s : store) (idxs : list nat) (xs : list R) (keys_ok : bool) : Prop :=
  idxs <> [] /\ length idxs = length xs /\ keys_ok = true /\ in_range s idxs = true.

Lemma add_raw_ok (s : store) idxs xs k :
  add_ok s idxs xs k ->
  add_raw s idxs xs k =
  (mkStore (cap s) (mark (occ s) (new_indices s idxs)) (olist s ++ new_indices s idxs)
           (write_rows (rows s) idxs xs) (nadd s) (nclear s), Ok tt).
Proof.
  intros (Hne & Hl & Hk & Hr). unfold add_raw.
  destruct (Nat.eqb_spec (length idxs) 0) as [H0|_].
  - destruct idxs; [congruence|discriminate].
  - apply Nat.eqb_eq in Hl. rewrite Hl, Hk, Hr. reflexivity.
Qed.

Lemma add_raw_cases (s : store) idxs xs k :
  (idxs = [] /\ add_raw s idxs xs k = (s, Ok tt)) \/
  (add_ok s idxs xs k) \/
  (exists e, add_raw s idxs xs k = (s, Err e) /\ idxs <> []).
Proof.
  unfold add_raw, add_ok.
  destruct (Nat.eqb_spec (length idxs) 0) as [H0|Hn0].
  { left. destruct idxs; [auto|discriminate]. }
  right.
  assert (Hne : idxs <> []) by (intros ->; simpl in Hn0; congruence).
  destruct (Nat.eqb_spec (length idxs) (length xs)); cbn [negb];
    [|right; eexists; split; [reflexivity|auto]].
  destruct k; cbn [negb]; [|right; eexists; split; [reflexivity|auto]].
  destruct (in_range s idxs) eqn:E; cbn [negb];
    [|right; eexists; split; [reflexivity|auto]].
  left. repeat split; auto.
Qed.

Lemma add_raw_occ (s : store) idxs xs k i :
  Inv s -> add_ok s idxs xs k ->
  get_occ (fst (add_raw s idxs xs k)) i = (get_occ s i || memb i idxs)%bool.
Proof.
  intros HI Hok. rewrite (add_raw_ok Hok). unfold get_occ; simpl.
  rewrite mark_get. fold (get_occ s i).
  destruct (get_occ s i) eqn:Eo; simpl; auto.
  destruct Hok as (_ & _ & _ & Hr). rewrite in_range_spec in Hr.
  destruct (memb i idxs) eqn:Em.
  - assert (In i idxs) by (apply memb_In; auto).
    assert (Hn : In i (new_indices s idxs)) by (apply new_indices_In; auto).
    apply memb_In in Hn. rewrite Hn. simpl.
    apply Nat.ltb_lt. rewrite (inv_occ_len HI). auto.
  - assert (Hn : ~ In i (new_indices s idxs)).
    { rewrite new_indices_In. rewrite <- memb_In. intros [? _]. congruence. }
    apply memb_false in Hn. rewrite Hn; auto.
Qed.

Lemma add_raw_row (s : store) idxs xs k i :
  Inv s -> add_ok s idxs xs k ->
  get_row (fst (add_raw s idxs xs k)) i =
  match last_write i idxs xs with Some x => Some x | None => get_row s i end.
Proof.
  intros HI Hok. rewrite (add_raw_ok Hok). unfold get_row; simpl.
  apply write_rows_get. destruct Hok as (_ & _ & _ & Hr). rewrite in_range_spec in Hr.
  rewrite (inv_rows_len HI). auto.
Qed.

Lemma add_raw_olist (s : store) idxs xs k :
  add_ok s idxs xs k ->
  olist (fst (add_raw s idxs xs k)) = olist s ++ new_indices s idxs.
Proof. intros Hok. rewrite (add_raw_ok Hok). reflexivity. Qed.

Lemma add_raw_inv (s : store) idxs xs k : Inv s -> Inv (fst (add_raw s idxs xs k)).
Proof.
  intros HI.
  destruct (add_raw_cases s idxs xs k) as [[_ ->]|[Hok|(e & -> & _)]]; auto.
  assert (Hocc := fun i => add_raw_occ i HI Hok).
  assert (Hrow := fun i => add_raw_row i HI Hok).
  assert (Hol := add_raw_olist Hok).
  pose proof Hok as (_ & Hlen & _ & Hr). rewrite in_range_spec in Hr.
  constructor.
  - rewrite (add_raw_ok Hok); simpl. rewrite mark_length. apply HI.
  - rewrite (add_raw_ok Hok); simpl. rewrite write_rows_length. apply HI.
  - rewrite Hol. apply NoDup_app_intro.
    + apply HI.
    + apply new_indices_NoDup.
    + intros i Hi Hn. apply new_indices_In in Hn. apply (inv_olist_occ HI) in Hi.
      destruct Hn; congruence.
  - intros i. rewrite Hol, Hocc, in_app_iff, new_indices_In, (inv_olist_occ HI), orb_true_iff, memb_In.
    destruct (get_occ s i); intuition.
  - intros i. rewrite Hocc, Hrow.
    destruct (last_write i idxs xs) eqn:E; [discriminate|].
    apply last_write_None in E; auto. apply memb_false in E. rewrite E, orb_false_r.
    apply HI.
Qed.

(** ** add with an arbitrary transform chain *)
Lemma bump_add_inv (s : store) : Inv s -> Inv (bump_add s).
Proof. intros [H1 H2 H3 H4 H5]; constructor; auto. Qed.

Lemma add_inv (s : store) idxs xs ts k : Inv s -> Inv (fst (add s idxs xs ts k)).
Proof.
  intros HI. unfold add.
  destruct (run_transforms (bump_add s) ts idxs xs) as [[i' x']|e]; simpl.
  - apply add_raw_inv, bump_add_inv; auto.
  - apply bump_add_inv; auto.
Qed.

(** a rejected add changes nothing but the update counter *)
Lemma add_err_unchanged (s : store) idxs xs ts k e :
  snd (add s idxs xs ts k) = Err e -> fst (add s idxs xs ts k) = bump_add s.
Proof.
  unfold add.
  destruct (run_transforms (bump_add s) ts idxs xs) as [[i' x']|e']; simpl; auto.
  destruct (add_raw_cases (bump_add s) i' x' k) as [[_ ->]|[Hok|(e2 & -> & _)]]; simpl; auto.
  rewrite (add_raw_ok Hok). simpl. discriminate.
Qed.

(** transforms only ever see the store as it was before the call (plus the counter) *)
Lemma run_transforms_reads_prestate (s : store) ts idxs xs :
  run_transforms (bump_add s) ts idxs xs =
  (fix go ts idxs xs :=
     match ts with
     | [] => Ok (idxs, xs)
     | t :: ts' => match retrieve s idxs with
                   | Err e => Err e
                   | Ok view => let '(i', x') := t idxs xs view in go ts' i' x'
                   end
     end) ts idxs xs.
Proof.
  revert idxs xs; induction ts as [|t ts IH]; intros idxs xs; simpl; auto.
  change (retrieve (bump_add s) idxs) with (retrieve s idxs).
  destruct (retrieve s idxs) as [view|e]; auto.
  destruct (t idxs xs view) as [i' x']. apply IH.
Qed.

(** ** clear *)
Lemma clear_inv (s : store) : Inv s -> Inv (clear s).
Proof.
  intros HI. constructor; simpl.
  - apply repeat_length.
  - apply HI.
  - constructor.
  - intros i. unfold get_occ; simpl. rewrite nth_repeat_false. intuition discriminate.
  - intros i. unfold get_occ; simpl. rewrite nth_repeat_false. discriminate.
Qed.

Lemma clear_empty (s : store) : len (clear s) = 0 /\ forall i, get_occ (clear s) i = false.
Proof. split; auto. intros i. unfold get_occ; simpl. apply nth_repeat_false. Qed.

(** ** resize *)
Lemma resize_err (s : store) c : c <= cap s -> resize s c = (s, Err ValueError).
Proof. intros H. unfold resize. apply Nat.leb_le in H. rewrite H. auto. Qed.

Lemma resize_ok (s : store) c : cap s < c ->
  resize s c = (mkStore c (occ s ++ repeat false (c - cap s)) (olist s)
                        (rows s ++ repeat None (c - cap s)) (nadd s) (nclear s), Ok tt).
Proof. intros H. unfold resize. destruct (Nat.leb_spec c (cap s)); [lia|auto]. Qed.

Lemma nth_app_repeat_false l n i : nth i (l ++ repeat false n) false = nth i l false.
Proof.
  destruct (Nat.lt_ge_cases i (length l)).
  - apply app_nth1; auto.
  - rewrite app_nth2; auto. rewrite nth_repeat_false, nth_overflow; auto.
Qed.

Lemma nth_app_repeat_None A (l : list (option A)) n i :
  nth i (l ++ repeat None n) None = nth i l None.
Proof.
  destruct (Nat.lt_ge_cases i (length l)).
  - apply app_nth1; auto.
  - rewrite app_nth2; auto. rewrite nth_repeat_None, nth_overflow; auto.
Qed.

Lemma resize_preserves (s : store) c : cap s < c ->
  let s' := fst (resize s c) in
  cap s' = c /\ olist s' = olist s /\ nadd s' = nadd s /\ nclear s' = nclear s /\
  (forall i, get_occ s' i = get_occ s i) /\ (forall i, get_row s' i = get_row s i).
Proof.
  intros H. rewrite (resize_ok _ H). simpl. repeat split; auto.
  - intros i. unfold get_occ; simpl. apply nth_app_repeat_false.
  - intros i. unfold get_row; simpl. apply nth_app_repeat_None.
Qed.

Lemma resize_inv (s : store) c : Inv s -> Inv (fst (resize s c)).
Proof.
  intros HI. destruct (Nat.le_gt_cases c (cap s)) as [Hle|Hlt].
  - rewrite (resize_err _ Hle); auto.
  - destruct (resize_preserves _ Hlt) as (Hc & Hol & _ & _ & Hocc & Hrow).
    constructor.
    + rewrite (resize_ok _ Hlt); simpl. rewrite app_length, repeat_length, (inv_occ_len HI). lia.
    + rewrite (resize_ok _ Hlt); simpl. rewrite app_length, repeat_length, (inv_rows_len HI). lia.
    + rewrite Hol; apply HI.
    + intros i. rewrite Hol, Hocc. apply HI.
    + intros i. rewrite Hocc, Hrow. apply HI.
Qed.

(** ** raw round trip *)
Lemma raw_roundtrip (s : store) : from_raw (as_raw s) = s.
Proof. destruct s; unfold from_raw, as_raw; simpl. rewrite firstn_all. reflexivity. Qed.

(** ** histories *)
Lemma step_inv (s : store) o : Inv s -> Inv (step s o).
Proof.
  destruct o as [idxs xs ts k| |c]; simpl; intros HI.
  - apply add_inv; auto.
  - apply clear_inv; auto.
  - apply resize_inv; auto.
Qed.

Lemma run_inv c ops : Inv (run (R:=R) c ops).
Proof.
  unfold run. generalize (init_inv c). generalize (init (R:=R) c).
  induction ops as [|o t IH]; simpl; intros s HI; auto. apply IH, step_inv; auto.
Qed.

(** ** derived facts *)
Lemma olist_lt_cap (s : store) i : Inv s -> In i (olist s) -> i < cap s.
Proof. intros HI Hi. apply (inv_olist_occ HI) in Hi. eapply get_occ_lt; eauto. apply HI. Qed.

Lemma len_le_cap (s : store) : Inv s -> len s <= cap s.
Proof.
  intros HI. unfold len.
  rewrite <- (seq_length (cap s) 0).
  apply NoDup_incl_length; [apply HI|].
  intros i Hi. apply in_seq. pose proof (olist_lt_cap _ HI Hi). lia.
Qed.

Fixpoint count_true (l : list bool) : nat :=
  match l with [] => 0 | b :: t => (if b then 1 else 0) + count_true t end.

Lemma count_true_filter_seq (l : list bool) (k : nat) :
  count_true l = length (filter (fun i => nth (i - k) l false) (seq k (length l))).
Proof.
  revert k; induction l as [|b t IH]; intros k; simpl; auto.
  rewrite Nat.sub_diag. rewrite (IH (S k)).
  assert (E : filter (fun i => nth (i - S k) t false) (seq (S k) (length t)) =
              filter (fun i => match i - k with 0 => b | S m => nth m t false end) (seq (S k) (length t))).
  { apply filter_ext_in. intros i Hi. apply in_seq in Hi.
    replace (i - k) with (S (i - S k)) by lia. reflexivity. }
  rewrite <- E. destruct b; simpl; auto.
Qed.

Lemma len_count (s : store) : Inv s -> len s = count_true (occ s).
Proof.
  intros HI. rewrite (count_true_filter_seq (occ s) 0). unfold len.
  apply Nat.le_antisymm.
  - apply NoDup_incl_length; [apply HI|].
    intros i Hi. apply filter_In. split.
    + apply in_seq. pose proof (olist_lt_cap _ HI Hi). rewrite (inv_occ_len HI). lia.
    + rewrite Nat.sub_0_r. apply (inv_olist_occ HI); auto.
  - apply NoDup_incl_length; [apply NoDup_filter, seq_NoDup|].
    intros i Hi. apply filter_In in Hi. destruct Hi as [_ Hi].
    rewrite Nat.sub_0_r in Hi. apply (inv_olist_occ HI); auto.
Qed.

(** ** iterator *)
Lemma iter_modified_iff (s : store) (it : iter) :
  snd (iter_next s it) = Modified R <-> (it_add it <> nadd s \/ it_clear it <> nclear s).
Proof.
  unfold iter_next.
  destruct (Nat.eqb_spec (it_add it) (nadd s)); destruct (Nat.eqb_spec (it_clear it) (nclear s));
    simpl; try (intuition congruence).
  destruct (Nat.leb (len s) (it_pos it)); simpl; intuition congruence.
Qed.

Lemma iter_yields_olist (s : store) (it : iter) :
  it_add it = nadd s -> it_clear it = nclear s -> it_pos it < len s ->
  iter_next s it = (mkIter (S (it_pos it)) (it_add it) (it_clear it),
                    Yield (nth (it_pos it) (olist s) 0) (get_row s (nth (it_pos it) (olist s) 0))).
Proof.
  intros Ha Hc Hp. unfold iter_next.
  apply Nat.eqb_eq in Ha, Hc. rewrite Ha, Hc. simpl.
  destruct (Nat.leb_spec (len s) (it_pos it)); [lia|auto].
Qed.

Lemma step_counter_changes (s : store) o :
  match o with OpResize _ => True | _ => nadd (step s o) <> nadd s \/ nclear (step s o) <> nclear s end.
Proof.
  destruct o as [idxs xs ts k| |c]; simpl; [|right; lia|exact I].
  - left. unfold add.
    destruct (run_transforms (bump_add s) ts idxs xs) as [[i' x']|e]; simpl; [|lia].
    destruct (add_raw_cases (bump_add s) i' x' k) as [[_ ->]|[Hok|(e2 & -> & _)]]; simpl; try lia.
    rewrite (add_raw_ok Hok); simpl; lia.
Qed.

Lemma counters_monotone (s : store) o : nadd s <= nadd (step s o) /\ nclear s <= nclear (step s o).
Proof.
  destruct o as [idxs xs ts k| |c]; simpl.
  - unfold add.
    destruct (run_transforms (bump_add s) ts idxs xs) as [[i' x']|e]; simpl; [|lia].
    destruct (add_raw_cases (bump_add s) i' x' k) as [[_ ->]|[Hok|(e2 & -> & _)]]; simpl; try lia.
    rewrite (add_raw_ok Hok); simpl; lia.
  - lia.
  - unfold resize. destruct (Nat.leb c (cap s)); simpl; lia.
Qed.


Definition is_mod (o : op R) : bool := match o with OpResize _ => false | _ => true end.

Lemma steps_counters (s : store) ops :
  let s' := fold_left (@step R) ops s in
  nadd s <= nadd s' /\ nclear s <= nclear s' /\
  (existsb is_mod ops = true -> nadd s + nclear s < nadd s' + nclear s').
Proof.
  revert s; induction ops as [|o t IH]; intros s; simpl.
  - repeat split; auto; discriminate.
  - destruct (IH (step s o)) as (Ha & Hc & Hm).
    destruct (counters_monotone s o) as (Ha0 & Hc0).
    repeat split; try lia.
    intros Hex. apply orb_true_iff in Hex. destruct Hex as [Ho|Ht].
    + pose proof (step_counter_changes s o) as Hch.
      destruct o; simpl in Ho; try discriminate; lia.
    + specialize (Hm Ht). lia.
Qed.

Lemma iter_detects_modification (s : store) ops :
  existsb is_mod ops = true ->
  forall pos, snd (iter_next (fold_left (@step R) ops s) (mkIter pos (nadd s) (nclear s))) = Modified R.
Proof.
  intros Hex pos. apply iter_modified_iff. simpl.
  destruct (steps_counters s ops) as (Ha & Hc & Hm). specialize (Hm Hex). lia.
Qed.

Lemma iter_unmodified_resize_only (s : store) ops :
  existsb is_mod ops = false ->
  nadd (fold_left (@step R) ops s) = nadd s /\ nclear (fold_left (@step R) ops s) = nclear s /\
  olist (fold_left (@step R) ops s) = olist s.
Proof.
  revert s; induction ops as [|o t IH]; intros s; simpl; auto.
  intros Hex. apply orb_false_iff in Hex. destruct Hex as [Ho Ht].
  destruct o as [? ? ? ?| |c]; simpl in Ho; try discriminate.
  destruct (IH (step s (OpResize c)) Ht) as (-> & -> & ->).
  simpl. unfold resize. destruct (Nat.leb c (cap s)); simpl; auto.
Qed.

End StoreProofs.
