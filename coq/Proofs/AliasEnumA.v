(** C12 -- part A of the finite enumeration (entry point x arity x path variant x layout vector), evaluated by the
    kernel's virtual machine.  Split over four files only so that the build runs them in parallel. *)
From Coq Require Import List Bool.
From PV Require Import Model.Alias Proofs.AliasSound.
Import ListNotations.

Definition eps_A : list ep :=
  [StoreAdd; StoreRetrieve; StoreData; StoreIter; StoreRaw; StoreOccupied; StoreFromRaw;
   ArchiveAdd; ArchiveAddSingle; SlidingAdd; SlidingAddSingle; ProximityAdd; ProximityAddSingle;
   ArchiveRetrieve; ArchiveRetrieveSingle; SampleElites; ArchiveData; BestElite; ArchiveIter;
   IndexOf; IndexOfSingle; CVTCtorCentroids; CVTCtorSamples; GridCtor; CqdScore; ComputeNovelty;
   GaussianCtor; IsoLineCtor; ESCtor; GAECtor; GOECtor; GACtor].

Lemma enum_A : forallb check_ep2 eps_A = true.
Proof. vm_cast_no_check (eq_refl true). Qed.
