(** C03 -- GridArchive.index_of in rounded arithmetic (Model/GridRound.v): range, monotonicity and the two edge cells for
    EVERY choice of monotone roundings (Section Generic), then the instantiation with Flocq's generic [round] (any radix,
    any format, any valid rounding direction: Section FlocqAny) and with IEEE binary64 / binary32 round-to-nearest-even
    including the accuracy side conditions of the upper edge (Section IEEE). *)
From Coq Require Import Reals ZArith Lra Lia Psatz.
From Flocq Require Import Core Relative.
From PV Require Import Model.GridRound.
Open Scope R_scope.

Definition mono (r : R -> R) : Prop := forall x y, x <= y -> r x <= r y.

Lemma clipR_mono a b x y : x <= y -> clipR a b x <= clipR a b y.
Proof. intros H. unfold clipR. apply Rle_min_compat_r. apply Rle_max_compat_r. exact H. Qed.

Lemma clipR_range a b x : a <= b -> a <= clipR a b x <= b.
Proof.
  intros H. unfold clipR. split.
  - apply Rmin_glb; [apply Rmax_r | exact H].
  - apply Rmin_r.
Qed.

Lemma clipR_above a b x : a <= b -> b <= x -> clipR a b x = b.
Proof.
  intros Hab H. unfold clipR. apply Rmin_right. apply Rle_trans with x; [exact H | apply Rmax_l].
Qed.

Lemma Ztrunc_unit x : 0 <= x < 1 -> Ztrunc x = 0%Z.
Proof.
  intros [H0 H1]. rewrite Ztrunc_floor by exact H0. apply Zfloor_imp. simpl. split; lra.
Qed.

Section Generic.
Variables rs rm ra rq : R -> R.
Hypothesis Hs : mono rs.
Hypothesis Hm : mono rm.
Hypothesis Ha : mono ra.
Hypothesis Hq : mono rq.
Variable d : Z.
Variables lo eps w : R.
Hypothesis Hd : (1 <= d)%Z.
Hypothesis Hw : 0 < w.

Notation raw := (raw_r rs rm ra rq (IZR d) lo eps w).
Notation idx := (idx_r rs rm ra rq d lo eps w).

Lemma D_pos : 1 <= IZR d.
Proof. apply IZR_le in Hd. exact Hd. Qed.

Lemma D1_nonneg : 0 <= IZR (d - 1).
Proof. apply (IZR_le 0). lia. Qed.

Lemma raw_mono m1 m2 : m1 <= m2 -> raw m1 <= raw m2.
Proof.
  intros H. unfold raw_r. pose proof D_pos as HD.
  apply Hq. apply Rmult_le_compat_r; [left; apply Rinv_0_lt_compat; exact Hw|].
  apply Ha. apply Rplus_le_compat_r. apply Hm.
  apply Rmult_le_compat_l; [lra|]. apply Hs. lra.
Qed.

(** the index is a cell of the grid, whatever the measure *)
Theorem idx_range m : (0 <= idx m <= d - 1)%Z.
Proof.
  unfold idx_r. pose proof (clipR_range 0 (IZR (d - 1)) (raw m) D1_nonneg) as [H0 H1].
  split.
  - pose proof (Ztrunc_le _ _ H0) as T. rewrite (Ztrunc_IZR 0) in T. exact T.
  - pose proof (Ztrunc_le _ _ H1) as T. rewrite (Ztrunc_IZR (d - 1)) in T. exact T.
Qed.

(** monotone in the measure: every cell is an interval of measures, in every floating-point format and rounding mode *)
Theorem idx_mono m1 m2 : m1 <= m2 -> (idx m1 <= idx m2)%Z.
Proof.
  intros H. unfold idx_r. apply Ztrunc_le. apply clipR_mono. apply raw_mono. exact H.
Qed.

Lemma idx_top m : IZR (d - 1) <= raw m -> idx m = (d - 1)%Z.
Proof.
  intros H. unfold idx_r. rewrite clipR_above by (exact D1_nonneg || exact H). apply Ztrunc_IZR.
Qed.

Lemma idx_bottom m : raw m < 1 -> idx m = 0%Z.
Proof.
  intros H. unfold idx_r. apply Ztrunc_unit.
  pose proof (clipR_range 0 (IZR (d - 1)) (raw m) D1_nonneg) as [H0 _].
  split; [exact H0|]. unfold clipR.
  apply Rle_lt_trans with (Rmax (raw m) 0); [apply Rmin_l|].
  apply Rmax_lub_lt; lra.
Qed.

(** the lowest cell: a measure at or below the lower bound lands in cell 0 as soon as the rounded epsilon does not fill a
    whole cell by itself (the side condition is a fact about the archive's constants only) *)
Theorem idx_edge_low m :
  rs 0 <= 0 -> rm 0 <= 0 -> rq (ra eps / w) < 1 -> m <= lo -> idx m = 0%Z.
Proof.
  intros Hs0 Hm0 He H. apply idx_bottom. unfold raw_r. pose proof D_pos as HD.
  apply Rle_lt_trans with (rq (ra eps / w)); [|exact He].
  apply Hq. apply Rmult_le_compat_r; [left; apply Rinv_0_lt_compat; exact Hw|].
  apply Ha.
  assert (H1 : rs (m - lo) <= 0) by (apply Rle_trans with (rs 0); [apply Hs; lra | exact Hs0]).
  assert (H2 : rm (IZR d * rs (m - lo)) <= 0).
  { apply Rle_trans with (rm 0); [apply Hm; nra | exact Hm0]. }
  lra.
Qed.

(** the highest cell.  [u] = relative accuracy from below of the three later roundings on [ymin, oo) (for IEEE formats:
    half an ulp, on the normal range); the subtraction only has to reproduce the interval size up to the same factor. *)
Section EdgeHigh.
Variables u ymin hi : R.
Hypothesis Hu : 0 <= u.
Hypothesis HuD : 4 * u * IZR d <= 1.
Hypothesis Heps : 0 <= eps.
Hypothesis Hacc_m : forall y, ymin <= y -> (1 - u) * y <= rm y.
Hypothesis Hacc_a : forall y, ymin <= y -> (1 - u) * y <= ra y.
Hypothesis Hacc_q : forall y, ymin <= y -> (1 - u) * y <= rq y.
Hypothesis Hsub : (1 - u) * w <= rs (hi - lo).
Hypothesis Hmin1 : ymin <= (1 - u) * (1 - u) * (IZR d * w).
Hypothesis Hmin2 : ymin <= (1 - u) * (1 - u) * (1 - u) * IZR d.

Lemma u_small : u <= 1 / 4.
Proof. pose proof D_pos as HD. assert (0 <= u * (IZR d - 1)) by (apply Rmult_le_pos; lra). lra. Qed.

Theorem idx_edge_high m : hi <= m -> idx m = (d - 1)%Z.
Proof.
  intros H. apply idx_top. unfold raw_r.
  pose proof D_pos as HD. pose proof u_small as Hu4.
  set (D := IZR d) in *.
  assert (Hq1 : 0 <= 1 - u) by lra.
  (* subtraction *)
  assert (H0 : (1 - u) * w <= rs (m - lo)).
  { apply Rle_trans with (rs (hi - lo)); [exact Hsub | apply Hs; lra]. }
  (* multiplication *)
  set (p1 := D * ((1 - u) * w)).
  assert (Hp1 : ymin <= p1).
  { unfold p1. apply Rle_trans with ((1 - u) * (1 - u) * (D * w)); [exact Hmin1|].
    assert (HX : 0 <= D * w) by (apply Rmult_le_pos; lra).
    replace (D * ((1 - u) * w)) with ((1 - u) * (D * w)) by ring.
    rewrite Rmult_assoc. apply Rmult_le_compat_l; [lra|].
    rewrite <- (Rmult_1_l (D * w)) at 2. apply Rmult_le_compat_r; lra. }
  assert (H1 : (1 - u) * p1 <= rm (D * rs (m - lo))).
  { apply Rle_trans with (rm p1); [apply Hacc_m; exact Hp1|]. apply Hm. unfold p1. apply Rmult_le_compat_l; lra. }
  (* addition *)
  set (a1 := (1 - u) * p1) in *.
  assert (Ha1 : ymin <= a1).
  { unfold a1, p1. apply Rle_trans with ((1 - u) * (1 - u) * (D * w)); [exact Hmin1|]. right. ring. }
  assert (H2 : (1 - u) * a1 <= ra (rm (D * rs (m - lo)) + eps)).
  { apply Rle_trans with (ra a1); [apply Hacc_a; exact Ha1|]. apply Ha. lra. }
  (* division *)
  set (a2 := (1 - u) * a1) in *.
  assert (Ha2w : a2 / w = (1 - u) * (1 - u) * (1 - u) * D).
  { unfold a2, a1, p1. field. lra. }
  assert (H3 : (1 - u) * (a2 / w) <= rq (ra (rm (D * rs (m - lo)) + eps) / w)).
  { apply Rle_trans with (rq (a2 / w)); [apply Hacc_q; rewrite Ha2w; exact Hmin2|].
    apply Hq. apply Rmult_le_compat_r; [left; apply Rinv_0_lt_compat; exact Hw | exact H2]. }
  apply Rle_trans with ((1 - u) * (a2 / w)); [|exact H3].
  rewrite Ha2w. unfold Zminus. rewrite plus_IZR. fold D. simpl IZR.
  (* (1-u)^4 D >= D - 1  from  4 u D <= 1 *)
  assert (Hb : 1 - 4 * u <= (1 - u) * ((1 - u) * (1 - u) * (1 - u))).
  { assert (0 <= u * u) by nra. assert (u * u * u <= u * u) by nra. nra. }
  assert (Hb2 : (1 - 4 * u) * D <= (1 - u) * ((1 - u) * (1 - u) * (1 - u)) * D).
  { apply Rmult_le_compat_r; lra. }
  nra.
Qed.
End EdgeHigh.
End Generic.

(* ============================================================================================== *)
(** * Flocq: every format, every valid rounding direction is monotone -- range and monotonicity of the index hold for
      float16/32/64/..., round-to-nearest (even or away), toward zero, up, down, and any mix of them across the four
      operations (numpy's float32/float64 promotion) *)
Section FlocqAny.
Variable beta : radix.
Variables fs fm fa fq : Z -> Z.
Context {vs : Valid_exp fs} {vm : Valid_exp fm} {va : Valid_exp fa} {vq : Valid_exp fq}.
Variables ns nm na nq : R -> Z.
Context {ws : Valid_rnd ns} {wm : Valid_rnd nm} {wa : Valid_rnd na} {wq : Valid_rnd nq}.

Lemma round_mono (fexp : Z -> Z) {ve : Valid_exp fexp} (rnd : R -> Z) {vr : Valid_rnd rnd} : mono (round beta fexp rnd).
Proof. intros x y H. apply round_le; assumption. Qed.

Notation idxF := (idx_r (round beta fs ns) (round beta fm nm) (round beta fa na) (round beta fq nq)).

Theorem float_idx_range d lo eps w m : (1 <= d)%Z -> (0 <= idxF d lo eps w m <= d - 1)%Z.
Proof. intros Hd. apply idx_range. exact Hd. Qed.

Theorem float_idx_mono d lo eps w m1 m2 : (1 <= d)%Z -> 0 < w -> m1 <= m2 -> (idxF d lo eps w m1 <= idxF d lo eps w m2)%Z.
Proof. intros Hd Hw H. apply idx_mono; auto using round_mono. Qed.

Theorem float_idx_edge_low d lo eps w m :
  (1 <= d)%Z -> 0 < w -> round beta fq nq (round beta fa na eps / w) < 1 -> m <= lo -> idxF d lo eps w m = 0%Z.
Proof.
  intros Hd Hw He H. apply idx_edge_low; auto using round_mono; rewrite round_0; auto; lra.
Qed.
End FlocqAny.

(* ============================================================================================== *)
(** * IEEE binary64 with round-to-nearest-even in the three later operations (what numpy does for float64 archives and, after
      promotion, for float32 archives), any monotone subtraction: the upper edge *)
Section IEEE.
Definition b64 : R -> R := round radix2 (FLT_exp (-1074) 53) ZnearestE.
Definition b32 : R -> R := round radix2 (FLT_exp (-149) 24) ZnearestE.

Local Instance prec53 : Prec_gt_0 53 := eq_refl.
Local Instance prec24 : Prec_gt_0 24 := eq_refl.

Definition u64 : R := / 2 * bpow radix2 (-53 + 1).
Definition ymin64 : R := bpow radix2 (-1074 + 53 - 1).

Lemma b64_mono : mono b64.
Proof. intros x y H. apply round_le; auto with typeclass_instances. Qed.

Lemma b32_mono : mono b32.
Proof. intros x y H. apply round_le; auto with typeclass_instances. Qed.

Lemma b64_acc y : ymin64 <= y -> (1 - u64) * y <= b64 y.
Proof.
  intros H.
  assert (Hy : 0 < y). { apply Rlt_le_trans with ymin64; [apply bpow_gt_0 | exact H]. }
  pose proof (relative_error_N_FLT radix2 (-1074) 53 prec53 (fun x => negb (Z.even x)) y) as E.
  rewrite (Rabs_pos_eq y) in E by lra.
  specialize (E H).
  change (round radix2 (FLT_exp (-1074) 53) (Znearest (fun x => negb (Z.even x))) y) with (b64 y) in E.
  change (/ 2 * bpow radix2 (- (53) + 1)) with u64 in E.
  apply Rabs_le_inv in E. destruct E as [E1 E2].
  replace ((1 - u64) * y) with (y - u64 * y) by ring. lra.
Qed.

Lemma u64_nonneg : 0 <= u64.
Proof. unfold u64. pose proof (bpow_gt_0 radix2 (-53 + 1)). lra. Qed.

(** float64 archive (every operation binary64) or float32 archive (binary32 subtraction on float32 measures, the rest
    binary64 after promotion): [rs] is the subtraction's rounding, [w] the stored interval size *)
Theorem ieee_idx_edge_high (rs : R -> R) (d : Z) (lo hi eps w m : R) :
  mono rs -> (1 <= d)%Z -> 0 < w -> 0 <= eps ->
  4 * u64 * IZR d <= 1 ->
  (1 - u64) * w <= rs (hi - lo) ->
  ymin64 <= (1 - u64) * (1 - u64) * (IZR d * w) ->
  hi <= m -> idx_r rs b64 b64 b64 d lo eps w m = (d - 1)%Z.
Proof.
  intros Hs Hd Hw He HuD Hsub Hmin H.
  apply idx_edge_high with (u := u64) (ymin := ymin64) (hi := hi);
    auto using b64_mono, b64_acc, u64_nonneg.
  (* ymin <= (1-u)^3 d : ymin is tiny, (1-u)^3 d >= 1/2 *)
  assert (HD : 1 <= IZR d) by (apply (IZR_le 1); exact Hd).
  pose proof u64_nonneg as Hu.
  assert (Hu4 : u64 <= 1 / 4) by nra.
  assert (Hy : ymin64 <= / 4).
  { unfold ymin64. change (/ 4) with (/ (2 * 2)).
    replace (/ (2 * 2)) with (bpow radix2 (-2)) by (simpl; lra).
    apply bpow_le. lia. }
  assert (27 / 64 <= (1 - u64) * (1 - u64) * (1 - u64)) by nra.
  nra.
Qed.

(** d <= 2^51 cells per dimension are enough for the accuracy condition *)
Lemma u64_times d : (d <= 2 ^ 51)%Z -> 4 * u64 * IZR d <= 1.
Proof.
  intros H. apply IZR_le in H.
  assert (E : u64 = / IZR (2 ^ 53)).
  { unfold u64. change (bpow radix2 (-53 + 1)) with (/ IZR (Z.pow_pos 2 52)).
    rewrite <- Rinv_mult. f_equal. }
  rewrite E.
  assert (P : 0 < IZR (2 ^ 53)) by (apply (IZR_lt 0); lia).
  assert (Q : 4 * IZR d <= IZR (2 ^ 53)).
  { change 4 with (IZR 4). rewrite <- mult_IZR. apply IZR_le.
    assert (IZR d <= IZR (2 ^ 51)) by exact H. apply le_IZR in H0. lia. }
  apply Rmult_le_reg_r with (IZR (2 ^ 53)); [exact P|].
  replace (4 * / IZR (2 ^ 53) * IZR d * IZR (2 ^ 53)) with (4 * IZR d) by (field; lra).
  lra.
Qed.
End IEEE.
