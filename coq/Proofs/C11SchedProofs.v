(** C11, scheduler part: a tell / tell_dqd that ends in an error in batch mode has inserted nothing into
    either archive and told no emitter. *)
From Coq Require Import List Arith Bool.
From PV Require Import Base.ListUtil Model.Store Model.Scheduler.
Import ListNotations.
Set Implicit Arguments.

Section C11Sched.
Variables V F : Type.

Lemma tell_err_batch dqd (s : sched V F) (a : tell_args V F) s' e :
  mode s = Batch -> tell_gen dqd s a = (s', Err e) ->
  arch s' = arch s /\ rarch s' = rarch s /\ elog s' = elog s /\ cur s' = cur s /\ num_emitted s' = num_emitted s.
Proof.
  intros Hm. unfold tell_gen.
  destruct (negb (last_is (last_called s) (ask_call dqd))); [intros H; inversion H; subst; auto|].
  destruct (negb (lens_ok (length (cur s)) (ta_data a))); [intros H; inversion H; subst; simpl; auto|].
  destruct (dqd && negb (Nat.eqb (length (ta_jac a)) (length (cur s))))%bool; [intros H; inversion H; subst; simpl; auto|].
  rewrite Hm. unfold add_to_archives.
  destruct (ta_fail a) as [k|].
  - intros H; inversion H; subst; simpl; auto.
  - unfold app_event. intros H. discriminate H.
Qed.

End C11Sched.
