(** C06 for ProximityArchive: the incrementally maintained statistics of Model/Proximity.v agree with the stored entries in
    every reachable state.  The archive's capacity (the [cells] of the underlying ArchiveBase model) changes when the store
    grows, so the two capacity-dependent statistics of Proofs/C06Proofs.v ([StatsOK]: coverage, norm_qd_score) are left out
    here (a ProximityArchive's coverage is defined through its own notion of cells); the others -- the running objective sum,
    num_elites, qd_score, obj_mean -- are shown to be functions of the current entries. *)
From Coq Require Import List Arith Bool ZArith QArith Qreduction Lia Lqa.
From PV Require Import Base.ListUtil Base.QUtil Base.FirstArgmax Model.Store Proofs.StoreProofs Model.Archive Proofs.ArchiveProofs
     Proofs.C01Proofs Proofs.C02Proofs Proofs.C06Proofs Model.Proximity Proofs.ProximityProofs.
Import ListNotations.
Set Implicit Arguments.
Local Open Scope nat_scope.
Local Arguments Qred : simpl never.
Local Arguments Qplus : simpl never.
Local Arguments Qmult : simpl never.
Local Arguments Qminus : simpl never.
Local Arguments Qopp : simpl never.
Local Arguments Qdiv : simpl never.

Section PStats.
Variable P : Type.
Variable meas : P -> list Q.

Notation archive := (Archive.archive P).
Notation row := (Archive.row P).
Notation pstate := (Proximity.pstate P).

(** the capacity-independent part of the statistics invariant *)
Record StatsCore (c : cfg) (a : archive) : Prop := {
  sc_sum : (a_sum a == total c a)%Q;
  sc_num : st_num (a_stats a) = len (a_store a);
  sc_qd : (st_qd (a_stats a) == a_sum a - qnat (len (a_store a)) * offset c)%Q;
  sc_mean : match st_mean (a_stats a) with
            | None => len (a_store a) = 0
            | Some m => len (a_store a) <> 0 /\ (m == a_sum a / qnat (len (a_store a)))%Q
            end
}.

Lemma commit_stats_core (c : cfg) (a : archive) f l :
  AInv c a -> StatsCore c a -> good_write c f l ->
  StatsCore c (commit c a (bump_add (a_store a)) (collect f l)).
Proof.
  intros HA HS Hg.
  pose proof (commit_total HA Hg) as Htot. cbv zeta in Htot.
  pose proof (commit_len_pos HA Hg) as Hpos.
  unfold commit in *.
  destruct (best_index (collect f l)) as [bi|] eqn:Eb.
  - set (s' := fst (add_raw (bump_add (a_store a)) (map fst (collect f l)) (map snd (collect f l)) true)) in *.
    destruct (stats_update_fields c a s' (a_sum a + sum_delta (bump_add (a_store a)) (collect f l))%Q bi)
      as (H1 & H2 & _ & H4 & _ & H6).
    assert (Hst : a_store (stats_update c a s' (a_sum a + sum_delta (bump_add (a_store a)) (collect f l))%Q bi) = s')
      by apply stats_update_store.
    assert (Hne : collect f l <> []) by (intros Hn; apply best_index_none in Hn; congruence).
    specialize (Hpos Hne). rewrite Hst in Hpos.
    constructor; rewrite ?Hst, ?H1, ?H2, ?H4, ?H6; try reflexivity.
    + rewrite Htot, (sc_sum HS). reflexivity.
    + split; [exact Hpos|reflexivity].
  - apply best_index_none in Eb. rewrite Eb in *. simpl in *.
    destruct HS as [Hs1 Hs2 Hs4 Hs6].
    constructor; simpl; auto.
    all: try (rewrite Hs1, Htot; unfold sum_delta; simpl; ring).
Qed.

(** the recomputed sum does not depend on how many (empty) cells lie beyond the occupied ones *)
Lemma Qsum_zero (l : list nat) (f : nat -> Q) : (forall i, In i l -> (f i == 0)%Q) -> (Qsum (map f l) == 0)%Q.
Proof.
  induction l as [|x t IH]; intros H; simpl; [reflexivity|].
  rewrite (H x) by (simpl; auto). rewrite IH by (intros i Hi; apply H; simpl; auto). ring.
Qed.

Lemma total_agree (c c' : cfg) (a a' : archive) :
  cells c <= cells c' ->
  (forall i, content a' i = content a i) ->
  (forall i, cells c <= i -> content a i = None) ->
  (total c' a' == total c a)%Q.
Proof.
  intros Hle Hc Hn. unfold total.
  replace (cells c') with (cells c + (cells c' - cells c)) by lia.
  rewrite seq_app, map_app, Qsum_app.
  rewrite (Qsum_zero (seq (0 + cells c) (cells c' - cells c))).
  - rewrite Qplus_0_r. apply Qsum_ext_in. intros i _. unfold cobj. rewrite Hc. reflexivity.
  - intros i Hi. apply in_seq in Hi. unfold cobj. rewrite Hc, Hn by lia. reflexivity.
Qed.

(** * the invariant on Proximity states *)
Definition PStats (st : pstate) : Prop := StatsCore (acfg (pcap st)) (ps_arch st).

Lemma content_beyond_cap (st : pstate) i : PInv meas st -> pcap st <= i -> content (ps_arch st) i = None.
Proof.
  intros HP Hi. change (content (ps_arch st) i) with (pcontent st i).
  destruct (pcontent st i) as [r|] eqn:E; [|reflexivity].
  exfalso.
  assert (Hlt : i < psize st).
  { apply (proj1 (pcontent_some_iff st i (pi_inv HP) (pi_olist HP))). rewrite E. discriminate. }
  pose proof (len_le_cap (pi_inv HP)) as Hc. unfold psize, pcap in *. lia.
Qed.

Section Step.
Variable c : pcfg.
Variable st : pstate.
Variable cs : list (pcand P).
Hypothesis HP : PInv meas st.
Hypothesis HS : PStats st.
Hypothesis Hnear : near_lt c (psize st) cs.

Let s1 := grown_store c st cs.
Let a1 := with_store (ps_arch st) s1.
Let c1 := acfg (cap s1).

Lemma cap_grows : pcap st <= cap s1.
Proof.
  destruct (grown_facts c cs HP) as (_ & _ & _ & _ & _ & _ & Hcap). fold s1 in Hcap. rewrite Hcap.
  destruct (Nat.ltb_spec (pcap st) (psize st + length (novs c (psize st) cs))) as [Hlt|Hge]; [|lia].
  pose proof (grow_ge (psize st + length (novs c (psize st) cs)) (pi_cap HP)). lia.
Qed.

Lemma a1_core : StatsCore c1 a1.
Proof.
  destruct (grown_facts c cs HP) as (_ & Hol & _ & _ & _ & _ & _). fold s1 in Hol.
  assert (Hlen : len s1 = len (a_store (ps_arch st))).
  { unfold len. rewrite Hol. reflexivity. }
  destruct HS as [H1 H2 H3 H4].
  constructor; unfold a1 at 1; simpl; rewrite ?Hlen.
  - rewrite H1. symmetry. apply total_agree.
    + simpl. apply cap_grows.
    + intros i. apply (a1_content c cs HP).
    + intros i Hi. apply content_beyond_cap; auto.
  - exact H2.
  - exact H3.
  - exact H4.
Qed.

Lemma padd_ok_stats : PStats (fst (padd_ok c st cs)).
Proof.
  unfold PStats.
  destruct (core_store_inv c cs HP) as (_ & Hcap).
  unfold pcap. rewrite Hcap. rewrite padd_ok_arch. fold s1 a1 c1.
  rewrite add_is_commit. apply commit_stats_core.
  - apply (a1_ainv c cs HP).
  - apply a1_core.
  - apply add_good_write. apply to_cands_wf; [exact Hnear|].
    destruct (grown_facts c cs HP) as (_ & _ & Hn & _). exact Hn.
Qed.
End Step.

Lemma padd_stats c (st : pstate) b (cs0 : list (pcand P)) : PInv meas st -> PStats st -> PStats (fst (padd c st b cs0)).
Proof.
  intros HP HS. destruct (padd c st b cs0) as [st' [out|e]] eqn:E; simpl.
  - destruct (padd_inv _ _ _ _ E) as (Hv & -> & _). apply padd_ok_stats; auto. apply valid_near; auto.
  - rewrite (padd_err _ _ _ _ E). exact HS.
Qed.

Lemma empty_core (c : cfg) (s : Store.store row) :
  len s = 0 -> (forall i, content (mkArch s 0 stats0 None) i = None) -> StatsCore c (mkArch s 0 stats0 None).
Proof.
  intros Hl Hc. destruct (stats_empty c s Hl Hc) as [H1 H2 _ H4 _ H6]. constructor; assumption.
Qed.

Lemma pclear_stats (st : pstate) : PStats (pclear st).
Proof.
  unfold PStats, pclear. simpl. unfold Archive.clear. apply empty_core; [reflexivity|].
  intros i. apply (clear_content (acfg 0) (ps_arch st) i).
Qed.

Lemma pstart_stats c : PStats (pstart P c).
Proof.
  unfold PStats, pstart. simpl. apply empty_core; [reflexivity|]. intros i. apply init_content.
Qed.

Lemma pstep_stats c (st : pstate) o : PInv meas st -> PStats st -> PStats (pstep meas c st o).
Proof.
  intros HP HS. destruct o as [b cs|b x| | |]; simpl.
  - apply padd_stats; auto.
  - apply padd_stats; auto.
  - apply pclear_stats.
  - unfold read_lo. destruct (ps_lo st); [exact HS|]. destruct (Nat.eqb (psize st) 0); exact HS.
  - unfold read_hi. destruct (ps_hi st); [exact HS|]. destruct (Nat.eqb (psize st) 0); exact HS.
Qed.

(** every reachable state of a ProximityArchive *)
Theorem prun_stats c (h : list (pop P)) : 1 <= pcap0 c -> PStats (prun meas c h).
Proof.
  intros Hc. unfold prun.
  generalize (pstart_pinv meas c Hc) (pstart_stats c). generalize (pstart P c).
  induction h as [|o t IH]; intros st HP HS; simpl; [exact HS|].
  apply IH; [apply pstep_pinv; auto | apply pstep_stats; auto].
Qed.

(** ... spelled out: the sum is the sum of the objectives of the stored entries 0 .. size-1 *)
Theorem prun_sum_is_entries c (h : list (pop P)) : 1 <= pcap0 c ->
  let st := prun meas c h in
  (a_sum (ps_arch st) == Qsum (map (cobj (ps_arch st)) (seq 0 (psize st))))%Q /\
  st_num (a_stats (ps_arch st)) = psize st /\
  (st_qd (a_stats (ps_arch st)) == a_sum (ps_arch st))%Q /\
  match st_mean (a_stats (ps_arch st)) with
  | None => psize st = 0
  | Some m => psize st <> 0 /\ (m == a_sum (ps_arch st) / qnat (psize st))%Q
  end.
Proof.
  intros Hc st.
  pose proof (prun_stats c h Hc) as HS. fold st in HS.
  pose proof (prun_pinv meas c h Hc) as HP. fold st in HP.
  destruct HS as [H1 H2 H3 H4].
  split; [|split; [exact H2|split; [|exact H4]]].
  - rewrite H1. unfold total. simpl cells.
    pose proof (len_le_cap (pi_inv HP)) as Hle. fold (psize st) (pcap st) in Hle.
    replace (pcap st) with (psize st + (pcap st - psize st)) by lia.
    rewrite seq_app, map_app, Qsum_app.
    rewrite (Qsum_zero (seq (0 + psize st) (pcap st - psize st))); [ring|].
    intros i Hi. apply in_seq in Hi. unfold cobj.
    change (content (ps_arch st) i) with (pcontent st i).
    destruct (pcontent st i) as [r|] eqn:E; [|reflexivity].
    exfalso. assert (i < psize st) by (apply (proj1 (pcontent_some_iff st i (pi_inv HP) (pi_olist HP))); rewrite E; discriminate). lia.
  - rewrite H3. simpl offset. ring.
Qed.
End PStats.
