(** Proofs about Model/Rng.v and Model/RngSite.v: frame, interleaving, replay, checkpoint, spawn
    distinctness, seed derivation of every constructed generator, site classification. *)
From Coq Require Import List ZArith Bool Arith Lia String FinFun.
From PV Require Import Base.ListUtil Model.Rng Model.RngSite.
Import ListNotations.
Open Scope Z_scope.

(** * Layer 1 *)
Section L1.
Variable bits : seedid -> Z -> Z.

Lemma draw_own_frame w1 w2 i n :
  own w1 = own w2 ->
  fst (draw bits w1 (Own i) n) = fst (draw bits w2 (Own i) n) /\
  own (snd (draw bits w1 (Own i) n)) = own (snd (draw bits w2 (Own i) n)) /\
  glob (snd (draw bits w1 (Own i) n)) = glob w1.
Proof.
  intros H. unfold draw. rewrite <- H.
  destruct (nth_error (own w1) i) as [g|]; simpl.
  - repeat split; reflexivity.
  - repeat split; auto.
Qed.

Lemma owned_only_cons c p : owned_only (c :: p) = true -> cmd_owned c = true /\ owned_only p = true.
Proof. unfold owned_only. simpl. intros H. apply andb_true_iff in H. exact H. Qed.

Lemma exec_cons s n p w :
  exec bits (Draw s n :: p) w =
  (fst (draw bits w s n) ++ fst (exec bits p (snd (draw bits w s n))),
   snd (exec bits p (snd (draw bits w s n)))).
Proof.
  cbn [exec]. destruct (draw bits w s n) as [v w1]. cbn [fst snd].
  destruct (exec bits p w1) as [vs w2]. reflexivity.
Qed.

Lemma exec_frame p : forall w1 w2,
  owned_only p = true -> own w1 = own w2 ->
  fst (exec bits p w1) = fst (exec bits p w2) /\
  own (snd (exec bits p w1)) = own (snd (exec bits p w2)) /\
  glob (snd (exec bits p w1)) = glob w1.
Proof.
  induction p as [|c p IH]; intros w1 w2 Hp Ho.
  - simpl. auto.
  - apply owned_only_cons in Hp. destruct Hp as [Hc Hp].
    destruct c as [s n]. destruct s as [i| | |]; simpl in Hc; try discriminate.
    destruct (draw_own_frame w1 w2 i n Ho) as [Hv [Ho' Hg]].
    rewrite !exec_cons. cbn [fst snd].
    destruct (IH _ _ Hp Ho') as [Hv' [Ho'' Hg']].
    rewrite Hv, Hv', Ho'', Hg', Hg. auto.
Qed.

Lemma step_py_eq p w : step bits w (Py p) = (OPy (fst (exec bits p w)), snd (exec bits p w)).
Proof. cbn [step]. destruct (exec bits p w). reflexivity. Qed.

Lemma run_cons o h w :
  run bits (o :: h) w =
  (fst (step bits w o) :: fst (run bits h (snd (step bits w o))), snd (run bits h (snd (step bits w o)))).
Proof.
  cbn [run]. destruct (step bits w o) as [x w1]. cbn [fst snd]. destruct (run bits h w1). reflexivity.
Qed.

(** a step of the history, on two worlds that agree on the owned generators *)
Lemma step_py_frame p w1 w2 :
  owned_only p = true -> own w1 = own w2 ->
  fst (step bits w1 (Py p)) = fst (step bits w2 (Py p)) /\
  own (snd (step bits w1 (Py p))) = own (snd (step bits w2 (Py p))) /\
  glob (snd (step bits w1 (Py p))) = glob w1.
Proof.
  intros Hp Ho. destruct (exec_frame p w1 w2 Hp Ho) as [Hv [Ho' Hg]].
  rewrite !step_py_eq. cbn [fst snd]. rewrite Hv. auto.
Qed.

Lemma step_foreign_own o w : is_py o = false -> own (snd (step bits w o)) = own w.
Proof.
  destruct o as [p|g n|g sid|gl]; intros H; try discriminate.
  - destruct g; reflexivity.
  - destruct g; reflexivity.
  - reflexivity.
Qed.

Lemma step_foreign_glob o w w' :
  is_py o = false -> glob w = glob w' ->
  fst (step bits w o) = fst (step bits w' o) /\ glob (snd (step bits w o)) = glob (snd (step bits w' o)).
Proof.
  destruct o as [p|g n|g sid|gl]; intros H Hg; try discriminate.
  - destruct g; simpl; rewrite Hg; auto.
  - destruct g; simpl; rewrite Hg; auto.
  - simpl. auto.
Qed.

Lemma step_foreign_out o w : is_py o = false -> py_outs [fst (step bits w o)] = [].
Proof.
  destruct o as [p|g n|g sid|gl]; intros H; try discriminate.
  - destruct g; reflexivity.
  - destruct g; reflexivity.
  - reflexivity.
Qed.

Lemma py_outs_cons x l : py_outs (x :: l) = py_outs [x] ++ py_outs l.
Proof. destruct x; reflexivity. Qed.

Lemma py_ok_cons o h : py_ok (o :: h) = true ->
  (match o with Py p => owned_only p | _ => true end) = true /\ py_ok h = true.
Proof. unfold py_ok. simpl. intros H. apply andb_true_iff in H. exact H. Qed.

(** FRAME: the pyribs outputs and the owned final states are a function of the owned streams only *)
Lemma run_frame h : forall w1 w2,
  py_ok h = true -> own w1 = own w2 ->
  py_outs (fst (run bits h w1)) = py_outs (fst (run bits h w2)) /\
  own (snd (run bits h w1)) = own (snd (run bits h w2)).
Proof.
  induction h as [|o h IH]; intros w1 w2 Hok Ho.
  - simpl. auto.
  - apply py_ok_cons in Hok. destruct Hok as [Hp Hok].
    rewrite !run_cons. cbn [fst snd].
    rewrite (py_outs_cons (fst (step bits w1 o))), (py_outs_cons (fst (step bits w2 o))).
    destruct (is_py o) eqn:Epy.
    + destruct o as [p|g n|g sid|gl]; try discriminate.
      destruct (step_py_frame p w1 w2 Hp Ho) as [A [B _]].
      destruct (IH _ _ Hok B) as [C Dd]. rewrite A, C. auto.
    + rewrite !(step_foreign_out o _ Epy).
      apply IH; [exact Hok|]. rewrite !(step_foreign_own o _ Epy). exact Ho.
Qed.

Lemma only_foreign_cons o h :
  only_foreign (o :: h) = if is_py o then only_foreign h else o :: only_foreign h.
Proof. unfold only_foreign. simpl. destruct (is_py o); reflexivity. Qed.

Lemma drop_foreign_cons o h :
  drop_foreign (o :: h) = if is_py o then o :: drop_foreign h else drop_foreign h.
Proof. unfold drop_foreign. simpl. destruct (is_py o); reflexivity. Qed.

(** pyribs calls leave the three global sources exactly as the user's own code left them *)
Lemma run_globals h : forall w w',
  py_ok h = true -> glob w = glob w' ->
  glob (snd (run bits h w)) = glob (snd (run bits (only_foreign h) w')).
Proof.
  induction h as [|o h IH]; intros w w' Hok Hg.
  - simpl. exact Hg.
  - apply py_ok_cons in Hok. destruct Hok as [Hp Hok].
    rewrite only_foreign_cons, run_cons. cbn [fst snd].
    destruct (is_py o) eqn:Epy.
    + destruct o as [p|g n|g sid|gl]; try discriminate.
      destruct (step_py_frame p w w Hp eq_refl) as [_ [_ G]].
      apply IH; [exact Hok|]. now rewrite G.
    + rewrite run_cons. cbn [fst snd].
      apply IH; [exact Hok|]. exact (proj2 (step_foreign_glob o w w' Epy Hg)).
Qed.

Lemma only_foreign_nil h : forallb is_py h = true -> only_foreign h = [].
Proof.
  induction h as [|o h IH]; simpl; intros H; [reflexivity|].
  apply andb_true_iff in H. destruct H as [A B]. unfold only_foreign. simpl. rewrite A. simpl.
  exact (IH B).
Qed.

Lemma run_globals_untouched h w :
  py_ok h = true -> forallb is_py h = true -> glob (snd (run bits h w)) = glob w.
Proof.
  intros Hok Hpy. rewrite (run_globals h w w Hok eq_refl). rewrite (only_foreign_nil h Hpy). reflexivity.
Qed.

(** INTERLEAVING: foreign draws / reseeds / pickle round trips anywhere do not change what pyribs returns *)
Lemma run_interleave h : forall w w',
  py_ok h = true -> own w = own w' ->
  py_outs (fst (run bits h w)) = py_outs (fst (run bits (drop_foreign h) w')) /\
  own (snd (run bits h w)) = own (snd (run bits (drop_foreign h) w')).
Proof.
  induction h as [|o h IH]; intros w w' Hok Ho.
  - simpl. auto.
  - apply py_ok_cons in Hok. destruct Hok as [Hp Hok].
    rewrite drop_foreign_cons, run_cons. cbn [fst snd].
    rewrite (py_outs_cons (fst (step bits w o))).
    destruct (is_py o) eqn:Epy.
    + destruct o as [p|g n|g sid|gl]; try discriminate.
      rewrite run_cons. cbn [fst snd]. rewrite (py_outs_cons (fst (step bits w' (Py p)))).
      destruct (step_py_frame p w w' Hp Ho) as [A [B _]].
      destruct (IH _ _ Hok B) as [C Dd]. rewrite A, C. auto.
    + rewrite (step_foreign_out o _ Epy).
      apply IH; [exact Hok|]. rewrite (step_foreign_own o _ Epy). exact Ho.
Qed.

Lemma run_app h1 : forall h2 w,
  run bits (h1 ++ h2) w =
  (fst (run bits h1 w) ++ fst (run bits h2 (snd (run bits h1 w))), snd (run bits h2 (snd (run bits h1 w)))).
Proof.
  induction h1 as [|o h1 IH]; intros h2 w.
  - simpl. now destruct (run bits h2 w).
  - simpl. destruct (step bits w o) as [x w1]. rewrite IH.
    destruct (run bits h1 w1) as [xs w2]. simpl. reflexivity.
Qed.

Lemma py_outs_app a b : py_outs (a ++ b) = py_outs a ++ py_outs b.
Proof.
  induction a as [|x a IH]; simpl; [reflexivity|]. destruct x; simpl; now rewrite IH.
Qed.

Lemma py_ok_app h1 h2 : py_ok (h1 ++ h2) = (py_ok h1 && py_ok h2)%bool.
Proof. unfold py_ok. apply forallb_app. Qed.

(** CHECKPOINT: stop after h1, pickle, unpickle anywhere, continue with h2 *)
Lemma run_checkpoint h1 h2 w gl :
  py_ok (h1 ++ h2) = true ->
  let w1 := snd (run bits h1 w) in
  let r := run bits h2 (restore (save w1) gl) in
  py_outs (fst (run bits (h1 ++ h2) w)) = py_outs (fst (run bits h1 w)) ++ py_outs (fst r) /\
  own (snd (run bits (h1 ++ h2) w)) = own (snd r).
Proof.
  intros Hok w1 r. rewrite py_ok_app in Hok. apply andb_true_iff in Hok. destruct Hok as [_ H2].
  rewrite run_app. simpl. rewrite py_outs_app.
  destruct (run_frame h2 (snd (run bits h1 w)) (restore (save w1) gl) H2 eq_refl) as [A B].
  subst r. rewrite A. auto.
Qed.

End L1.

(** * Spawn *)

Lemma spawn_sids s n :
  map sid_of (fst (spawn s n)) =
  map (fun i => (ss_entropy s, ss_key s ++ [ss_spawned s + i]%nat)) (seq 0 n).
Proof. unfold spawn. simpl. rewrite map_map. reflexivity. Qed.

Lemma app_single_inj (k : list nat) a b : k ++ [a] = k ++ [b] -> a = b.
Proof. intros H. apply app_inv_head in H. now inversion H. Qed.

Lemma spawn_NoDup s n : NoDup (map sid_of (fst (spawn s n))).
Proof.
  rewrite spawn_sids.
  apply FinFun.Injective_map_NoDup; [|apply seq_NoDup].
  intros i j H. inversion H as [H1]. apply app_single_inj in H1. lia.
Qed.

Lemma spawn_fresh s n c : In c (fst (spawn s n)) -> sid_of c <> sid_of s.
Proof.
  unfold spawn. simpl. intros H. apply in_map_iff in H. destruct H as [i [Hc _]]. subst c.
  unfold sid_of. simpl. intros E. inversion E as [E1].
  apply (f_equal (@List.length nat)) in E1. rewrite app_length in E1. simpl in E1. lia.
Qed.

Lemma spawn_state s n : snd (spawn s n) = mkSS (ss_entropy s) (ss_key s) (ss_spawned s + n).
Proof. reflexivity. Qed.

Lemma seq_plus n k : seq n k = map (fun i => (n + i)%nat) (seq 0 k).
Proof.
  induction n as [|n IH].
  - simpl. now rewrite map_id.
  - rewrite <- seq_shift, IH, map_map. reflexivity.
Qed.

(** two successive spawns from the same SeedSequence object never hand out the same child twice *)
Lemma spawn_twice_NoDup s n k :
  NoDup (map sid_of (fst (spawn s n) ++ fst (spawn (snd (spawn s n)) k))).
Proof.
  rewrite map_app, !spawn_sids, spawn_state. simpl.
  assert (E : map (fun i => (ss_entropy s, ss_key s ++ [(ss_spawned s + n + i)%nat])) (seq 0 k)
            = map (fun i => (ss_entropy s, ss_key s ++ [(ss_spawned s + i)%nat])) (seq n k)).
  { rewrite (seq_plus n k), map_map. apply map_ext. intros a. now rewrite Nat.add_assoc. }
  rewrite E, <- map_app, <- seq_app.
  apply FinFun.Injective_map_NoDup; [|apply seq_NoDup].
  intros i j H. inversion H as [H1]. apply app_single_inj in H1. lia.
Qed.

(** * Layer 2: the pyribs footprints only ever name owned generators *)

Lemma owned_only_app a b : owned_only (a ++ b) = (owned_only a && owned_only b)%bool.
Proof. apply forallb_app. Qed.

Lemma sample_elites_owned ow n : owned_only (sample_elites ow n) = true.
Proof. reflexivity. Qed.

Lemma operator_ask_owned ow c o b d : owned_only (operator_ask ow c o b d) = true.
Proof. destruct o; reflexivity. Qed.

Lemma ask_prog_owned ow m c e empty extra : owned_only (ask_prog ow m c e empty extra) = true.
Proof.
  destruct e; simpl;
    repeat match goal with |- context [if ?x then _ else _] => destruct x end;
    rewrite ?owned_only_app, ?sample_elites_owned, ?operator_ask_owned; try reflexivity;
    match goal with |- context [match ?o with OpGaussian => _ | OpIsoLine => _ end] => destruct o end;
    reflexivity.
Qed.

Lemma ask_dqd_prog_owned ow c e empty : owned_only (ask_dqd_prog ow c e empty) = true.
Proof.
  destruct e; simpl; try reflexivity;
    repeat match goal with |- context [if ?x then _ else _] => destruct x end; reflexivity.
Qed.

Lemma tell_prog_owned ow m c e r : owned_only (tell_prog ow m c e r) = true.
Proof.
  destruct e; simpl; try reflexivity;
    repeat match goal with |- context [if ?x then _ else _] => destruct x end; reflexivity.
Qed.

Lemma sched_ask_owned ow m es : forall c empty active extra,
  owned_only (sched_ask ow m c es empty active extra) = true.
Proof.
  induction es as [|e es IH]; intros c empty active extra; [reflexivity|].
  cbn [sched_ask]. rewrite owned_only_app, IH.
  destruct (hd true active); [rewrite ask_prog_owned|]; reflexivity.
Qed.

Lemma sched_ask_dqd_owned ow es : forall c empty, owned_only (sched_ask_dqd ow c es empty) = true.
Proof.
  induction es as [|e es IH]; intros c empty; [reflexivity|].
  cbn [sched_ask_dqd]. now rewrite owned_only_app, IH, ask_dqd_prog_owned.
Qed.

Lemma sched_tell_owned ow m es : forall c r, owned_only (sched_tell ow m c es r) = true.
Proof.
  induction es as [|e es IH]; intros c r; [reflexivity|].
  cbn [sched_tell]. now rewrite owned_only_app, IH, tell_prog_owned.
Qed.

Lemma compile_py_ok cfg ow h : py_ok (map (compile cfg ow) h) = true.
Proof.
  induction h as [|o h IH]; [reflexivity|].
  unfold py_ok in *. cbn [map forallb]. rewrite IH, andb_true_r.
  destruct o; cbn [compile]; try reflexivity.
  - apply sched_ask_owned.
  - apply sched_ask_dqd_owned.
  - apply sched_tell_owned.
  - destruct empty; reflexivity.
Qed.

Lemma compile_all_py_ok cfg h : py_ok (compile_all cfg h) = true.
Proof. unfold compile_all. destruct (build cfg); [apply compile_py_ok|reflexivity]. Qed.

Lemma compile_all_app cfg h1 h2 : compile_all cfg (h1 ++ h2) = compile_all cfg h1 ++ compile_all cfg h2.
Proof. unfold compile_all. destruct (build cfg); [apply map_app|reflexivity]. Qed.

(** the compiled history keeps exactly the user's foreign actions *)
Definition pop_is_py (o : pop) : bool :=
  match o with PForeign _ _ | PReseed _ _ | PCheckpoint _ => false | _ => true end.

Lemma compile_is_py cfg ow o : is_py (compile cfg ow o) = pop_is_py o.
Proof. destruct o; reflexivity. Qed.

Lemma compile_all_drop cfg h :
  drop_foreign (compile_all cfg h) = compile_all cfg (filter pop_is_py h).
Proof.
  unfold compile_all. destruct (build cfg) as [t|]; [|reflexivity].
  unfold drop_foreign. induction h as [|o h IH]; [reflexivity|].
  cbn [map filter]. rewrite compile_is_py. destruct (pop_is_py o); cbn [map]; now rewrite IH.
Qed.

(** * Every constructed generator descends from its component's seed *)

Definition tbl_ok (seqs : list seedid) (tbl : list sseq) : Prop :=
  Forall2 (fun s ss => sid_of ss = s) seqs tbl.

Lemma tbl_ok_init seqs : tbl_ok seqs (map (fun s : seedid => mkSS (fst s) (snd s) 0) seqs).
Proof.
  induction seqs as [|a l IH]; constructor; [destruct a; reflexivity|exact IH].
Qed.

Lemma tbl_ok_nth seqs tbl : tbl_ok seqs tbl ->
  forall k ss, nth_error tbl k = Some ss -> nth_error seqs k = Some (sid_of ss).
Proof.
  induction 1 as [|s ss0 l l' Hs Hl IH]; intros k ss Hk.
  - destruct k; discriminate.
  - destruct k; simpl in *.
    + inversion Hk; subst. reflexivity.
    + exact (IH k ss Hk).
Qed.

Lemma tbl_ok_upd seqs tbl : tbl_ok seqs tbl ->
  forall k ss ss', nth_error tbl k = Some ss -> sid_of ss' = sid_of ss -> tbl_ok seqs (upd tbl k ss').
Proof.
  induction 1 as [|s ss0 l l' Hs Ht IH]; intros k ss ss' Hk He.
  - destruct k; discriminate.
  - destruct k; simpl in *.
    + inversion Hk; subst. constructor; [congruence|exact Ht].
    + constructor; [exact Hs|exact (IH k ss ss' Hk He)].
Qed.

Lemma prefix_refl a : prefix a a = true.
Proof. induction a as [|x a IH]; simpl; [reflexivity|]. now rewrite Nat.eqb_refl, IH. Qed.

Lemma prefix_app a b : prefix a (a ++ b) = true.
Proof. induction a as [|x a IH]; simpl; [reflexivity|]. now rewrite Nat.eqb_refl, IH. Qed.

Lemma default_rng_derives seqs tbl s sid :
  tbl_ok seqs tbl -> default_rng tbl s = Some sid -> derives seqs s sid = true.
Proof.
  intros Ht H. destruct s as [z|k]; simpl in *.
  - inversion H; subst. simpl. apply Z.eqb_refl.
  - destruct (nth_error tbl k) as [ss|] eqn:E; [|discriminate]. simpl in H. inversion H; subst.
    rewrite (tbl_ok_nth _ _ Ht k _ E). unfold sid_of. simpl. now rewrite Z.eqb_refl, prefix_refl.
Qed.

Lemma spawn2_spec seqs tbl s o r tbl' :
  tbl_ok seqs tbl -> spawn2 tbl s = Some (o, r, tbl') ->
  tbl_ok seqs tbl' /\ derives seqs s o = true /\ derives seqs s r = true /\ o <> r.
Proof.
  intros Ht H. destruct s as [z|k]; simpl in H.
  - inversion H; subst. simpl. repeat split; try exact Ht; try apply Z.eqb_refl.
    unfold sid_of. simpl. intros E. inversion E.
  - destruct (nth_error tbl k) as [ss|] eqn:E; [|discriminate].
    unfold spawn in H. simpl in H. inversion H; subst. clear H.
    split.
    + apply (tbl_ok_upd _ _ Ht k _ _ E). reflexivity.
    + simpl. rewrite (tbl_ok_nth _ _ Ht k _ E). unfold sid_of. simpl.
      rewrite Z.eqb_refl, !prefix_app. repeat split; try reflexivity.
      intros Hc. inversion Hc as [H1]. apply app_single_inj in H1. lia.
Qed.

(** all generators an emitter constructor creates: owner = c, stream derived from the emitter's seed *)
Lemma emitter_init_spec seqs tbl c m e gs tbl' :
  tbl_ok seqs tbl -> emitter_init tbl c m e = Some (gs, tbl') ->
  tbl_ok seqs tbl' /\
  forall c' r g, In (c', r, g) gs -> c' = c /\ derives seqs (emitter_seed e) (g_sid g) = true.
Proof.
  intros Ht H.
  destruct e as [s b d i|s b d i|o s b d i|s b d i1 i2 i3|s es rk b d|s es rk b]; simpl in H.
  - destruct (default_rng tbl s) as [sid|] eqn:E; [|discriminate]. inversion H; subst. split; [exact Ht|].
    intros c' r g [Hin|[]]. inversion Hin; subst. split; [reflexivity|]. exact (default_rng_derives _ _ _ _ Ht E).
  - destruct (default_rng tbl s) as [sid|] eqn:E; [|discriminate]. inversion H; subst. split; [exact Ht|].
    intros c' r g [Hin|[Hin|[]]]; inversion Hin; subst; (split; [reflexivity|]); exact (default_rng_derives _ _ _ _ Ht E).
  - destruct (default_rng tbl s) as [sid|] eqn:E; [|discriminate]. inversion H; subst. split; [exact Ht|].
    intros c' r g [Hin|[]]. inversion Hin; subst. split; [reflexivity|]. exact (default_rng_derives _ _ _ _ Ht E).
  - destruct (default_rng tbl s) as [sid|] eqn:E; [|discriminate]. inversion H; subst. split; [exact Ht|].
    intros c' r g [Hin|[]]. inversion Hin; subst. split; [reflexivity|]. exact (default_rng_derives _ _ _ _ Ht E).
  - destruct (spawn2 tbl s) as [[[o r0] t2]|] eqn:E; [|discriminate]. inversion H; subst.
    destruct (spawn2_spec _ _ _ _ _ _ Ht E) as [A [B [C _]]]. split; [exact A|].
    intros c' r g [Hin|[Hin|[]]]; inversion Hin; subst; (split; [reflexivity|]); assumption.
  - destruct (spawn2 tbl s) as [[[o r0] t2]|] eqn:E; [|discriminate]. inversion H; subst.
    destruct (spawn2_spec _ _ _ _ _ _ Ht E) as [A [B [C _]]]. split; [exact A|].
    intros c' r g [Hin|[Hin|[]]]; inversion Hin; subst; (split; [reflexivity|]); assumption.
Qed.

Lemma emitters_init_spec seqs m es : forall tbl c gs,
  tbl_ok seqs tbl -> emitters_init tbl c m es = Some gs ->
  forall c' r g, In (c', r, g) gs ->
  exists j e, c' = (c + j)%nat /\ nth_error es j = Some e /\ derives seqs (emitter_seed e) (g_sid g) = true.
Proof.
  induction es as [|e es IH]; intros tbl c gs Ht H c' r g Hin; simpl in H.
  - inversion H; subst. destruct Hin.
  - destruct (emitter_init tbl c m e) as [[g1 tbl']|] eqn:E; [|discriminate].
    destruct (emitters_init tbl' (S c) m es) as [g2|] eqn:F; [|discriminate].
    inversion H; subst. destruct (emitter_init_spec _ _ _ _ _ _ _ Ht E) as [Ht' Hs].
    apply in_app_or in Hin. destruct Hin as [Hin|Hin].
    + destruct (Hs _ _ _ Hin) as [A B]. exists 0%nat, e. repeat split; [lia|exact B].
    + destruct (IH _ _ _ Ht' F _ _ _ Hin) as [j [e' [A [B C]]]].
      exists (S j), e'. repeat split; [lia|exact B|exact C].
Qed.

Lemma archive_init_spec seqs tbl a gs :
  tbl_ok seqs tbl -> archive_init tbl 0 a = Some gs ->
  forall c' r g, In (c', r, g) gs -> c' = 0%nat /\ derives seqs (a_seed a) (g_sid g) = true.
Proof.
  intros Ht H c' r g Hin. unfold archive_init in H.
  destruct (default_rng tbl (a_seed a)) as [sid|] eqn:E; [|discriminate].
  pose proof (default_rng_derives _ _ _ _ Ht E) as Dv.
  inversion H; subst. clear H.
  destruct (a_kind a) as [|cm| |]; [| destruct cm | |]; simpl in Hin;
    repeat (destruct Hin as [Hin|Hin]; [inversion Hin; subst; simpl; auto|]); destruct Hin.
Qed.

Lemma build_derives cfg t :
  build cfg = Some t ->
  forall c r g, In (c, r, g) t ->
  exists s, comp_seed cfg c = Some s /\ derives (c_seqs cfg) s (g_sid g) = true.
Proof.
  unfold build. intros H c r g Hin.
  pose proof (tbl_ok_init (c_seqs cfg)) as Ht.
  destruct (archive_init _ 0 (c_archive cfg)) as [ga|] eqn:E; [|discriminate].
  destruct (emitters_init _ 1 (a_mdim (c_archive cfg)) (c_emitters cfg)) as [ge|] eqn:F; [|discriminate].
  inversion H; subst. apply in_app_or in Hin. destruct Hin as [Hin|Hin].
  - destruct (archive_init_spec _ _ _ _ Ht E _ _ _ Hin) as [A B]. subst c.
    exists (a_seed (c_archive cfg)). auto.
  - destruct (emitters_init_spec _ _ _ _ _ _ Ht F _ _ _ Hin) as [j [e [A [B C]]]]. subst c.
    exists (emitter_seed e). simpl. rewrite B. auto.
Qed.

(** the two ES-driven emitters give their optimizer and their ranker different streams, and two of
    them built from the SAME SeedSequence object still get four different streams *)
Lemma spawn2_ref_twice tbl k o1 r1 t1 o2 r2 t2 :
  spawn2 tbl (SRef k) = Some (o1, r1, t1) -> spawn2 t1 (SRef k) = Some (o2, r2, t2) ->
  NoDup [o1; r1; o2; r2].
Proof.
  simpl. intros H1 H2.
  destruct (nth_error tbl k) as [ss|] eqn:E; [|discriminate].
  unfold spawn in H1. simpl in H1. inversion H1; subst. clear H1.
  assert (E1 : nth_error (upd tbl k (mkSS (ss_entropy ss) (ss_key ss) (ss_spawned ss + 2))) k
               = Some (mkSS (ss_entropy ss) (ss_key ss) (ss_spawned ss + 2))).
  { clear H2. revert k E. induction tbl as [|x tbl IH]; intros k E; destruct k; simpl in *; try discriminate; auto. }
  rewrite E1 in H2. unfold spawn in H2. simpl in H2. inversion H2; subst. clear H2.
  pose proof (spawn_twice_NoDup ss 2 2) as N. unfold spawn in N. simpl in N. exact N.
Qed.

(** * Sites *)
Section Sites.
Variable bits : seedid -> Z -> Z.

Lemma site_seeded_resolve s g : site_seeded s = true -> resolve s g = Own g.
Proof.
  unfold site_seeded, resolve. destruct (st_kind s); intros H; try discriminate; now rewrite H.
Qed.

Lemma seeded_sites_owned us :
  (forall u, In u us -> site_seeded (fst (fst u)) = true) -> owned_only (site_prog us) = true.
Proof.
  induction us as [|u us IH]; intros H; [reflexivity|].
  unfold owned_only, site_prog in *. cbn [map forallb]. rewrite IH.
  - destruct u as [[s g] n]. rewrite (site_seeded_resolve s g (H _ (or_introl eq_refl))). reflexivity.
  - intros u' Hin. apply H. now right.
Qed.

Lemma all_sites_seeded_In l s : all_sites_seeded l = true -> In s l -> site_seeded s = true.
Proof. unfold all_sites_seeded. intros H Hin. rewrite forallb_forall in H. exact (H s Hin). Qed.

Lemma take_pos g n : 0 < n -> g_pos (snd (take bits g n)) <> g_pos g.
Proof. unfold take. simpl. lia. Qed.

(** a site that is not seeded consumes one of the process-wide sources *)
Lemma unseeded_site_disturbs s g n w :
  site_seeded s = false -> 0 < n -> glob (snd (draw bits w (resolve s g) n)) <> glob w.
Proof.
  intros Hs Hn.
  assert (R : resolve s g = NpGlobal \/ resolve s g = PyGlobal \/ resolve s g = OsEntropy).
  { unfold site_seeded in Hs. unfold resolve. destruct (st_kind s); try rewrite Hs; auto. }
  destruct R as [R|[R|R]]; rewrite R; simpl; intros E.
  - apply (f_equal np_global) in E. simpl in E. apply (f_equal g_pos) in E. simpl in E. lia.
  - apply (f_equal py_global) in E. simpl in E. apply (f_equal g_pos) in E. simpl in E. lia.
  - apply (f_equal os_entropy) in E. simpl in E. apply (f_equal g_pos) in E. simpl in E. lia.
Qed.

End Sites.

(** * Whole pipelines *)
Section Pipelines.
Variable bits : seedid -> Z -> Z.

Lemma init_own cfg gl gl' w w' : init cfg gl = Some w -> init cfg gl' = Some w' -> own w = own w'.
Proof.
  unfold init. destruct (build cfg); intros A B; [|discriminate]. inversion A; inversion B; reflexivity.
Qed.

Lemma init_glob cfg gl w : init cfg gl = Some w -> glob w = gl.
Proof. unfold init. destruct (build cfg); intros A; [|discriminate]. inversion A; reflexivity. Qed.

(** REPLAY: same seeds (cfg) + same evaluations (the pyribs calls of the two histories, flags
    included, coincide) => same outputs and same owned states, whatever the global generators
    contained and however user code used them in between *)
Lemma pipeline_replay cfg h h' gl gl' r r' :
  filter pop_is_py h = filter pop_is_py h' ->
  pipeline bits cfg h gl = Some r -> pipeline bits cfg h' gl' = Some r' ->
  py_outs (fst r) = py_outs (fst r') /\ own (snd r) = own (snd r').
Proof.
  unfold pipeline. intros Hh A B.
  destruct (init cfg gl) as [w|] eqn:E; [|discriminate].
  destruct (init cfg gl') as [w'|] eqn:E'; [|discriminate].
  inversion A; inversion B; subst. clear A B.
  pose proof (init_own _ _ _ _ _ E E') as Ho.
  destruct (run_interleave bits (compile_all cfg h) w w (compile_all_py_ok cfg h) eq_refl) as [A1 A2].
  destruct (run_interleave bits (compile_all cfg h') w' w (compile_all_py_ok cfg h') (eq_sym Ho)) as [B1 B2].
  rewrite compile_all_drop in A1, A2. rewrite compile_all_drop in B1, B2.
  rewrite <- Hh in B1, B2. rewrite A1, A2, B1, B2. auto.
Qed.

Lemma pipeline_globals cfg h gl r :
  pipeline bits cfg h gl = Some r -> forallb pop_is_py h = true -> glob (snd r) = gl.
Proof.
  unfold pipeline. intros A Hpy. destruct (init cfg gl) as [w|] eqn:E; [|discriminate].
  inversion A; subst. clear A. cbn [snd].
  transitivity (glob w); [|exact (init_glob _ _ _ E)].
  apply run_globals_untouched; [apply compile_all_py_ok|].
  unfold compile_all. destruct (build cfg); [|reflexivity].
  rewrite forallb_forall in *. intros o Hin. apply in_map_iff in Hin. destruct Hin as [po [Ho Hin]].
  subst o. rewrite compile_is_py. exact (Hpy po Hin).
Qed.

Lemma pipeline_checkpoint cfg h1 h2 gl gl' r :
  pipeline bits cfg (h1 ++ h2) gl = Some r ->
  exists r1, pipeline bits cfg h1 gl = Some r1 /\
    let r2 := run bits (compile_all cfg h2) (restore (save (snd r1)) gl') in
    py_outs (fst r) = py_outs (fst r1) ++ py_outs (fst r2) /\ own (snd r) = own (snd r2).
Proof.
  unfold pipeline. intros A. destruct (init cfg gl) as [w|] eqn:E; [|discriminate].
  inversion A; subst. clear A. eexists. split; [reflexivity|].
  rewrite compile_all_app.
  apply run_checkpoint. rewrite <- compile_all_app. apply compile_all_py_ok.
Qed.

End Pipelines.
