(** C12 -- soundness of the abstract effect semantics of Model/Alias.v (see Proofs/AliasProofs.v for the overview). *)
From Coq Require Import List Arith Bool ZArith Lia.
From PV Require Import Base.ListUtil Model.Store Model.Alias.
Import ListNotations.

(* ============================================================================================== *)
(** * 1. Soundness of the abstract effect semantics *)
Section Sound.
Variable f : nat -> list Z -> Z.

Lemma erase_halted m s : erase m (c_halted s) = a_halted (erase m s).
Proof. reflexivity. Qed.

Lemma erase_bind m s d v : erase m (c_bind s d v) = a_bind (erase m s) d v.
Proof. reflexivity. Qed.

Lemma erase_alloc m s d z : erase m (c_alloc s d z) = a_alloc (erase m s) d.
Proof.
  unfold erase, c_alloc, a_alloc; simpl. rewrite app_length; simpl. rewrite Nat.add_1_r. reflexivity.
Qed.

Lemma erase_mut m s : a_mut (erase m s) = m.
Proof. reflexivity. Qed.

(** one instruction: the abstract step of the erasure is the erasure of the concrete step (with the mutation log
    the abstract step computes) *)
Lemma step_sim i s m :
  erase (a_mut (astep i (erase m s))) (cstep f i s) = astep i (erase m s).
Proof.
  unfold astep, cstep.
  change (a_halt (erase m s)) with (c_halt s).
  destruct (c_halt s) eqn:Hh; [reflexivity|].
  change (a_env (erase m s)) with (c_env s). change (a_self (erase m s)) with (c_self s).
  destruct i.
  - destruct (lookup (c_env s) s0); [|reflexivity].
    destruct (asarray_aliases a with_dtype); [reflexivity|]. apply erase_alloc.
  - destruct (lookup (c_env s) s0); reflexivity.
  - destruct (lookup (c_env s) s0); [|reflexivity]. destruct (vnd a); reflexivity.
  - destruct (lookup (c_env s) s0); [|reflexivity].
    destruct (vnd a && vcontig a); [reflexivity|]. apply erase_alloc.
  - destruct (lookup (c_env s) s0); [|reflexivity]. apply erase_alloc.
  - destruct (lookups (c_env s) srcs); [|reflexivity]. apply erase_alloc.
  - destruct (lookup (c_env s) d); [|reflexivity].
    destruct (lookups (c_env s) srcs); [|reflexivity].
    destruct (vw a); [|reflexivity].
    unfold erase; simpl. rewrite upd_length. reflexivity.
  - destruct (lookup (c_env s) s0); reflexivity.
  - destruct (lookup (c_env s) s0); [|reflexivity]. reflexivity.
  - destruct (lookup (c_self s) f0); reflexivity.
  - destruct (lookup (c_env s) s0); [|reflexivity]. reflexivity.
  - destruct (lookup (c_env s) s0); [|reflexivity]. reflexivity.
Qed.

(** the abstract mutation set only grows *)
Lemma astep_mut_incl i a : incl (a_mut a) (a_mut (astep i a)).
Proof.
  unfold astep. destruct (a_halt a); [apply incl_refl|].
  destruct i; simpl;
    repeat match goal with
           | |- context [match ?x with _ => _ end] => destruct x; simpl
           end; try apply incl_refl; try (apply incl_tl, incl_refl).
Qed.

(** the heap only grows, and a buffer outside the abstract mutation set keeps its contents *)
Lemma cstep_heap_len i s : length (c_heap s) <= length (c_heap (cstep f i s)).
Proof.
  unfold cstep. destruct (c_halt s); [lia|].
  destruct i; simpl;
    repeat match goal with
           | |- context [match ?x with _ => _ end] => destruct x; simpl
           end; try lia; try (rewrite app_length; simpl; lia); try (rewrite upd_length; lia).
Qed.

Lemma nth_app_old (h : list Z) z b : b < length h -> nth b (h ++ [z]) 0%Z = nth b h 0%Z.
Proof. intros Hb. apply app_nth1; exact Hb. Qed.

Lemma step_heap i s m b :
  b < length (c_heap s) ->
  ~ In b (a_mut (astep i (erase m s))) ->
  nth b (c_heap (cstep f i s)) 0%Z = nth b (c_heap s) 0%Z.
Proof.
  intros Hb. unfold astep, cstep.
  change (a_halt (erase m s)) with (c_halt s).
  destruct (c_halt s) eqn:Hh; [reflexivity|].
  change (a_env (erase m s)) with (c_env s). change (a_self (erase m s)) with (c_self s).
  destruct i; simpl;
    repeat match goal with
           | |- context [match ?x with _ => _ end] => destruct x; simpl
           end; intros Hn; try reflexivity; try (apply nth_app_old; exact Hb).
  apply nth_upd_other. intros E. apply Hn. left. exact E.
Qed.

(** ** programs *)
Lemma arun_cons i p a : arun (i :: p) a = arun p (astep i a).
Proof. reflexivity. Qed.

Lemma crun_cons i p s : crun f (i :: p) s = crun f p (cstep f i s).
Proof. reflexivity. Qed.

Theorem alias_sound : forall (p : list instr) (s : cstate) (m : list nat),
  let a := arun p (erase m s) in
  let s' := crun f p s in
  erase (a_mut a) s' = a /\
  incl m (a_mut a) /\
  length (c_heap s) <= length (c_heap s') /\
  (forall b, b < length (c_heap s) -> ~ In b (a_mut a) -> nth b (c_heap s') 0%Z = nth b (c_heap s) 0%Z).
Proof.
  induction p as [|i p IH]; intros s m; cbv zeta.
  - simpl. repeat split; auto using incl_refl.
  - rewrite arun_cons, crun_cons.
    pose proof (step_sim i s m) as Hs.
    pose proof (astep_mut_incl i (erase m s)) as Hm. rewrite erase_mut in Hm.
    pose proof (cstep_heap_len i s) as Hl.
    rewrite <- Hs.
    specialize (IH (cstep f i s) (a_mut (astep i (erase m s)))). cbv zeta in IH.
    destruct IH as (E & I & L & Hp).
    split; [exact E|]. split; [eapply incl_tran; eauto|]. split; [lia|].
    intros b Hb Hn.
    rewrite Hp; [| lia | exact Hn].
    apply step_heap with (m := m); [exact Hb|].
    intros Hin. apply Hn. apply I. exact Hin.
Qed.

(** the components of the simulation, separately *)
Corollary alias_sound_state p s m :
  c_env (crun f p s) = a_env (arun p (erase m s)) /\
  c_self (crun f p s) = a_self (arun p (erase m s)) /\
  c_ret (crun f p s) = a_ret (arun p (erase m s)) /\
  c_exp (crun f p s) = a_exp (arun p (erase m s)) /\
  c_halt (crun f p s) = a_halt (arun p (erase m s)).
Proof.
  destruct (alias_sound p s m) as (E & _). rewrite <- E. simpl. repeat split.
Qed.
End Sound.

(* ============================================================================================== *)
(** * 2. The entry points *)

Lemma init_erase la h : length h = n_internal + length la -> erase [] (c_init la h) = a_init la.
Proof. intros H. unfold erase, c_init, a_init; simpl. rewrite H. reflexivity. Qed.

Lemma all_layouts_complete l : In l all_layouts.
Proof. destruct l; simpl; tauto. Qed.

Lemma layout_vectors_complete la : In la (layout_vectors (length la)).
Proof.
  induction la as [|l la IH]; [simpl; tauto|].
  change (In (l :: la) (flat_map (fun l0 => map (fun t => l0 :: t) (layout_vectors (length la))) all_layouts)).
  apply in_flat_map. exists l. split; [apply all_layouts_complete|]. apply in_map. exact IH.
Qed.

Lemma all_eps_complete e : In e all_eps.
Proof. destruct e; simpl; tauto. Qed.

(** the store's fields still are the store's own buffers after the call (no entry point rebinds them) *)
Definition store_stable (a : astate) : bool :=
  forallb (fun b => match lookup (a_self a) b with
                    | Some v => Nat.eqb (vbuf v) b
                    | None => false
                    end) (seq 0 n_store).

Definition check_ep2 (e : ep) : bool :=
  forallb (fun n => forallb (fun v => forallb (fun la => let a := arun (prog e v n) (a_init la) in clean n a && store_stable a)
                                              (layout_vectors n))
                            (seq 0 (n_variants e)))
          (arities e).

Definition check_all2 : bool := forallb check_ep2 all_eps.

