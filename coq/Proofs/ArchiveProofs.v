(** Per-cell characterisation of ArchiveBase.add / add_single / clear on the model. *)
From Coq Require Import List Arith Bool ZArith QArith Qreduction Lia Lqa Sorted.
From PV Require Import Base.ListUtil Base.QUtil Base.FirstArgmax Model.Store Proofs.StoreProofs Model.Archive.
Import ListNotations.
Set Implicit Arguments.
Local Open Scope nat_scope.

Section ArchiveProofs.
Variable P : Type.
Notation cand := (cand P).
Notation row := (row P).
Notation archive := (archive P).
Notation store := (Store.store row).

(** ** collect *)
Lemma collect_keys_in (f : nat -> option row) l i :
  In i (map fst (collect f l)) <-> In i l /\ f i <> None.
Proof.
  unfold collect. induction l as [|j t IH]; simpl; [intuition|].
  rewrite map_app, in_app_iff, IH.
  destruct (f j) eqn:E; simpl.
  - split.
    + intros [[->|[]]|[H1 H2]]; [split; auto; congruence|tauto].
    + intros [[->|H1] H2]; [left; auto|right; auto].
  - split.
    + intros [[]|[H1 H2]]; tauto.
    + intros [[->|H1] H2]; [congruence|right; auto].
Qed.

Lemma collect_lengths (f : nat -> option row) l :
  length (map fst (collect f l)) = length (map snd (collect f l)).
Proof. rewrite !map_length; auto. Qed.

Lemma last_write_app_None A i (k1 k2 : list nat) (v1 v2 : list A) :
  length k1 = length v1 ->
  last_write i (k1 ++ k2) (v1 ++ v2) =
  match last_write i k2 v2 with Some y => Some y | None => last_write i k1 v1 end.
Proof.
  revert v1; induction k1 as [|j t IH]; intros [|x xt] Hl; simpl in *; try lia.
  - destruct (last_write i k2 v2); auto.
  - rewrite IH by lia. destruct (last_write i k2 v2); auto.
Qed.

Lemma collect_lookup (f : nat -> option row) l i :
  NoDup l ->
  last_write i (map fst (collect f l)) (map snd (collect f l)) = if memb i l then f i else None.
Proof.
  unfold collect. induction l as [|j t IH]; intros Hnd; simpl; auto.
  inversion Hnd as [|? ? Hnotin Hnd']; subst.
  rewrite !map_app, last_write_app_None.
  2:{ destruct (f j); simpl; auto. }
  rewrite (IH Hnd').
  destruct (Nat.eqb_spec i j) as [->|Hne].
  - assert (Hm : memb j t = false) by (apply memb_false; auto). rewrite Hm.
    destruct (f j); simpl; auto. rewrite Nat.eqb_refl. auto.
  - destruct (memb i t); [destruct (f i); auto|].
    + destruct (f j); simpl; auto. apply Nat.eqb_neq in Hne. rewrite Hne; auto.
    + destruct (f j); simpl; auto. apply Nat.eqb_neq in Hne. rewrite Hne; auto.
Qed.

Lemma collect_nil_iff (f : nat -> option row) l :
  collect f l = [] <-> forall i, In i l -> f i = None.
Proof.
  unfold collect. induction l as [|j t IH]; simpl; [intuition|].
  split.
  - intros H. apply app_eq_nil in H. destruct H as [H1 H2].
    intros i [->|Hi]; [destruct (f i); [discriminate|auto] | apply IH; auto].
  - intros H. rewrite (proj2 IH) by (intros; apply H; auto).
    rewrite (H j) by auto. reflexivity.
Qed.

(** ** groups *)
Lemma group_app i (l1 l2 : list cand) : group i (l1 ++ l2) = group i l1 ++ group i l2.
Proof. unfold group. apply filter_app. Qed.

Lemma group_in i (l : list cand) x : In x (group i l) <-> In x l /\ c_cell x = i.
Proof. unfold group. rewrite filter_In. rewrite Nat.eqb_eq. tauto. Qed.

Lemma filter_comm A (f g : A -> bool) l : filter f (filter g l) = filter g (filter f l).
Proof.
  induction l as [|x t IH]; simpl; auto.
  destruct (f x) eqn:Ef; destruct (g x) eqn:Eg; simpl; rewrite ?Ef, ?Eg, IH; auto.
Qed.

Lemma group_filter i (f : cand -> bool) l : group i (filter f l) = filter f (group i l).
Proof. unfold group. apply filter_comm. Qed.

Lemma winner_row_some_in (c : cfg) (s : store) filt i :
  winner_row c s filt i <> None -> In i (sort_uniq (map c_cell filt)).
Proof.
  unfold winner_row. destruct (first_argmax c_obj (group i filt)) eqn:E; [|congruence].
  intros _. apply first_argmax_in in E. apply group_in in E. destruct E as [E1 E2].
  apply sort_uniq_In. rewrite <- E2. apply in_map; auto.
Qed.

(** ** the store after commit *)
Definition wf_cells (c : cfg) (cs : list cand) : Prop := forall x, In x cs -> c_cell x < cells c.

Record AInv (c : cfg) (a : archive) : Prop := {
  ainv_store : Inv (a_store a);
  ainv_cap : cap (a_store a) = cells c
}.

Lemma stats_update_store (c : cfg) (a : archive) (s' : store) sum' bi :
  a_store (stats_update c a s' sum' bi) = s'.
Proof.
  unfold stats_update. destruct (get_row s' bi) as [r|]; [|reflexivity].
  destruct (st_max (a_stats a)) as [m|]; [|reflexivity].
  destruct (Qltb m (r_obj r)); reflexivity.
Qed.

Lemma commit_store (c : cfg) (a : archive) s1 w :
  a_store (commit c a s1 w) = fst (add_raw s1 (map fst w) (map snd w) true).
Proof. unfold commit. destruct (best_index w); [apply stats_update_store|reflexivity]. Qed.

Lemma content_bump (a : archive) i :
  (if get_occ (bump_add (a_store a)) i then get_row (bump_add (a_store a)) i else None) = content a i.
Proof. reflexivity. Qed.

(** general form: writing [collect f l] (keys in range, [l] duplicate-free) *)
Lemma commit_content (c : cfg) (a : archive) (f : nat -> option row) l i :
  AInv c a -> NoDup l -> (forall j, In j l -> j < cells c) ->
  (forall j, f j <> None -> In j l) ->
  content (commit c a (bump_add (a_store a)) (collect f l)) i =
  match f i with Some r => Some r | None => content a i end.
Proof.
  intros [HI Hcap] Hnd Hrange Hsome.
  unfold content at 1. rewrite commit_store.
  set (s1 := bump_add (a_store a)).
  assert (HI1 : Inv s1) by (apply bump_add_inv; auto).
  destruct (add_raw_cases s1 (map fst (collect f l)) (map snd (collect f l)) true)
    as [[Hnil ->]|[Hok|(e & Herr & _)]].
  - (* nothing written *)
    simpl. apply map_eq_nil in Hnil. rewrite collect_nil_iff in Hnil.
    destruct (f i) eqn:E.
    + exfalso. assert (Hin : In i l) by (apply Hsome; congruence).
      rewrite (Hnil i Hin) in E. discriminate.
    + reflexivity.
  - rewrite (add_raw_occ i HI1 Hok), (add_raw_row i HI1 Hok).
    rewrite (collect_lookup f i Hnd).
    destruct (f i) eqn:E.
    + assert (Hin : In i l) by (apply Hsome; congruence).
      assert (Hm : memb i l = true) by (apply memb_In; auto). rewrite Hm.
      assert (Hk : memb i (map fst (collect f l)) = true).
      { apply memb_In, collect_keys_in. split; auto; congruence. }
      rewrite Hk, orb_true_r. reflexivity.
    + assert (Hk : memb i (map fst (collect f l)) = false).
      { apply memb_false. rewrite collect_keys_in. intros [_ H]; congruence. }
      rewrite Hk, orb_false_r.
      destruct (memb i l); reflexivity.
  - (* add_raw cannot fail here *)
    exfalso. unfold add_raw in Herr.
    destruct (Nat.eqb (length (map fst (collect f l))) 0); [discriminate|].
    rewrite collect_lengths, Nat.eqb_refl in Herr. simpl in Herr.
    assert (Hr : in_range s1 (map fst (collect f l)) = true).
    { apply in_range_spec. intros j Hj. apply collect_keys_in in Hj. destruct Hj as [Hj _].
      change (cap s1) with (cap (a_store a)). rewrite Hcap. auto. }
    rewrite Hr in Herr. simpl in Herr. discriminate.
Qed.

Lemma commit_inv (c : cfg) (a : archive) w : AInv c a -> AInv c (commit c a (bump_add (a_store a)) w).
Proof.
  intros [HI Hcap]. constructor; rewrite commit_store.
  - apply add_raw_inv, bump_add_inv; auto.
  - destruct (add_raw_cases (bump_add (a_store a)) (map fst w) (map snd w) true)
      as [[_ ->]|[Hok|(e & -> & _)]]; simpl; auto.
    rewrite (add_raw_ok Hok); simpl; auto.
Qed.

(** ** add *)
Definition cell_winner (c : cfg) (a : archive) (cs : list cand) (i : nat) : option row :=
  winner_row c (bump_add (a_store a)) (filter (can_insert c (bump_add (a_store a))) cs) i.

Theorem add_content (c : cfg) (a : archive) (cs : list cand) i :
  AInv c a -> wf_cells c cs ->
  content (fst (add c a cs)) i =
  match cell_winner c a cs i with Some r => Some r | None => content a i end.
Proof.
  intros HA Hwf. unfold add, batch_winners; simpl.
  apply commit_content; auto.
  - apply sort_uniq_NoDup.
  - intros j Hj. rewrite sort_uniq_In in Hj. apply in_map_iff in Hj. destruct Hj as (x & <- & Hx).
    apply filter_In in Hx. apply Hwf; tauto.
  - intros j Hj. eapply winner_row_some_in; eauto.
Qed.

Lemma add_inv (c : cfg) (a : archive) cs : AInv c a -> AInv c (fst (add c a cs)).
Proof. intros HA. unfold add; simpl. apply commit_inv; auto. Qed.

(** ** add_single *)
Definition single_row (c : cfg) (a : archive) (x : cand) (i : nat) : option row :=
  let s1 := bump_add (a_store a) in
  if (Nat.eqb i (c_cell x) && single_ok c s1 x)%bool
  then Some (mkRow (c_obj x) (single_thr c s1 x) (c_pay x)) else None.

Lemma single_winners_collect (c : cfg) (a : archive) (x : cand) :
  single_winners c (bump_add (a_store a)) x = collect (single_row c a x) [c_cell x].
Proof.
  unfold single_winners, collect, single_row; simpl.
  rewrite Nat.eqb_refl; simpl.
  destruct (single_ok c (bump_add (a_store a)) x); reflexivity.
Qed.

Theorem add_single_content (c : cfg) (a : archive) (x : cand) i :
  AInv c a -> c_cell x < cells c ->
  content (fst (add_single c a x)) i =
  match single_row c a x i with Some r => Some r | None => content a i end.
Proof.
  intros HA Hwf. unfold add_single; simpl. rewrite single_winners_collect.
  apply commit_content; auto.
  - constructor; [intros []|constructor].
  - intros j [<-|[]]; auto.
  - intros j Hj. unfold single_row in Hj.
    destruct (Nat.eqb_spec j (c_cell x)); [left; auto|simpl in Hj; congruence].
Qed.

Lemma add_single_inv (c : cfg) (a : archive) x : AInv c a -> AInv c (fst (add_single c a x)).
Proof. intros HA. unfold add_single; simpl. apply commit_inv; auto. Qed.

(** ** clear / init *)
Lemma clear_content (c : cfg) (a : archive) i : content (clear c a) i = None.
Proof. unfold content, clear; simpl. unfold get_occ; simpl. rewrite nth_repeat_false. reflexivity. Qed.

Lemma clear_ainv (c : cfg) (a : archive) : AInv c a -> AInv c (clear c a).
Proof. intros [HI Hcap]. constructor; simpl; auto. apply clear_inv; auto. Qed.

Lemma init_ainv (c : cfg) : AInv c (arch_init P c).
Proof. constructor; simpl; auto. apply init_inv. Qed.

Lemma init_content (c : cfg) i : content (arch_init P c) i = None.
Proof. unfold content, arch_init; simpl. unfold get_occ; simpl. rewrite nth_repeat_false. reflexivity. Qed.

End ArchiveProofs.
