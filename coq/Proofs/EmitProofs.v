(** Lemmas about Model/Emit.v (C08). *)
From Coq Require Import List ZArith QArith Qabs Bool Arith Lia Lqa.
From PV Require Import Base.ListUtil Model.Store Model.Emit.
Import ListNotations.
Open Scope Q_scope.

(** * clip *)
Definition ebound_le (lo hi : ebound) : Prop :=
  match lo, hi with Some l, Some h => l <= h | _, _ => True end.

Lemma Qle_bool_false a b : Qle_bool a b = false -> b < a.
Proof.
  intros H. destruct (Qlt_le_dec b a) as [Hlt|Hle]; auto.
  apply Qle_bool_iff in Hle. congruence.
Qed.

Lemma clip_lo_ge x lo : ge_lo (clip_lo x lo) lo.
Proof.
  destruct lo as [l|]; simpl; auto. unfold qmax.
  destruct (Qle_bool l x) eqn:E; [apply Qle_bool_iff in E; auto | apply Qle_refl].
Qed.

Lemma clip_in_bounds x lo hi : ebound_le lo hi -> in_bounds (clip x lo hi) lo hi.
Proof.
  intros Hb. unfold clip, in_bounds. pose proof (clip_lo_ge x lo) as Hlo.
  set (y := clip_lo x lo) in *. clearbody y.
  destruct hi as [h|]; simpl.
  - unfold qmin. destruct (Qle_bool y h) eqn:E.
    + apply Qle_bool_iff in E. split; auto.
    + split; [|apply Qle_refl]. destruct lo as [l|]; simpl in *; auto.
  - split; auto.
Qed.

(** the statement in the usual notation, for finite bounds *)
Lemma clip_in_bounds_finite x l h : l <= h -> l <= clip x (Some l) (Some h) <= h.
Proof. intros H. exact (@clip_in_bounds x (Some l) (Some h) H). Qed.

Lemma clip_id x lo hi : in_bounds x lo hi -> clip x lo hi = x.
Proof.
  intros [Hl Hh]. unfold clip.
  assert (E : clip_lo x lo = x).
  { destruct lo as [l|]; simpl in *; auto. unfold qmax.
    apply Qle_bool_iff in Hl. rewrite Hl. reflexivity. }
  rewrite E. destruct hi as [h|]; simpl in *; auto. unfold qmin.
  apply Qle_bool_iff in Hh. rewrite Hh. reflexivity.
Qed.

Lemma Qle_bool_comp a a' b b' : a == a' -> b == b' -> Qle_bool a b = Qle_bool a' b'.
Proof.
  intros Ha Hb. destruct (Qle_bool a b) eqn:E1, (Qle_bool a' b') eqn:E2; auto.
  - apply Qle_bool_iff in E1. apply Qle_bool_false in E2. rewrite Ha, Hb in E1. lra.
  - apply Qle_bool_iff in E2. apply Qle_bool_false in E1. rewrite <- Ha, <- Hb in E2. lra.
Qed.

Lemma clip_comp x y lo hi : x == y -> clip x lo hi == clip y lo hi.
Proof.
  intros H. unfold clip.
  assert (E : clip_lo x lo == clip_lo y lo).
  { destruct lo as [l|]; simpl; auto. unfold qmax.
    rewrite (Qle_bool_comp l l x y (Qeq_refl l) H). destruct (Qle_bool l y); auto. reflexivity. }
  destruct hi as [h|]; simpl; auto. unfold qmin.
  rewrite (Qle_bool_comp _ _ h h E (Qeq_refl h)). destruct (Qle_bool (clip_lo y lo) h); auto. reflexivity.
Qed.

(** a coordinate that was not clipped is exactly the unclipped value; a clipped one sits on the bound *)
Lemma clip_cases x lo hi :
  clip x lo hi = x \/ lo = Some (clip x lo hi) \/ hi = Some (clip x lo hi).
Proof.
  unfold clip. destruct hi as [h|]; simpl.
  - unfold qmin. destruct (Qle_bool (clip_lo x lo) h); auto.
    destruct lo as [l|]; simpl; auto. unfold qmax. destruct (Qle_bool l x); auto.
  - destruct lo as [l|]; simpl; auto. unfold qmax. destruct (Qle_bool l x); auto.
Qed.

(** * rows *)
Lemma bounds_ok_tl l lo h hi : bounds_ok (l :: lo) (h :: hi) -> ebound_le l h /\ bounds_ok lo hi.
Proof.
  intros H. split.
  - specialize (H 0%nat). simpl in H. unfold ebound_le. destruct l, h; auto.
  - intros j. specialize (H (S j)). simpl in H. exact H.
Qed.

Lemma clip_row_in_bounds r : forall lo hi, bounds_ok lo hi -> row_in_bounds lo hi (clip_row r lo hi).
Proof.
  induction r as [|x t IH]; intros lo hi Hb j Hj; simpl in *; [lia|].
  destruct lo as [|l lt]; [simpl in Hj; lia|]. destruct hi as [|h ht]; [simpl in Hj; lia|].
  apply bounds_ok_tl in Hb. destruct Hb as [Hlh Hb]. simpl in Hj.
  destruct j as [|j]; simpl.
  - apply clip_in_bounds; auto.
  - apply IH; auto. lia.
Qed.

Lemma clip_row_length r : forall lo hi,
  (length r <= length lo)%nat -> (length r <= length hi)%nat -> length (clip_row r lo hi) = length r.
Proof.
  induction r as [|x t IH]; intros [|l lt] [|h ht] H1 H2; simpl in *; try lia.
  rewrite IH; lia.
Qed.

Lemma clip_row_id r : forall lo hi,
  (length r <= length lo)%nat -> (length r <= length hi)%nat ->
  row_in_bounds lo hi r -> clip_row r lo hi = r.
Proof.
  induction r as [|x t IH]; intros [|l lt] [|h ht] H1 H2 Hin; simpl in *; try lia; auto.
  f_equal.
  - apply clip_id. exact (Hin 0%nat ltac:(simpl; lia)).
  - apply IH; try lia. intros j Hj. exact (Hin (S j) ltac:(simpl; lia)).
Qed.

Lemma clip_row_comp r r' : req r r' -> forall lo hi, req (clip_row r lo hi) (clip_row r' lo hi).
Proof.
  induction 1 as [|x y t t' Hxy Ht IH]; intros lo hi; simpl; [constructor|].
  destruct lo as [|l lt]; [constructor|]. destruct hi as [|h ht]; [constructor|].
  constructor; [apply clip_comp; auto | apply IH].
Qed.

(** per coordinate: unchanged, or equal to the bound it was clipped to *)
Lemma clip_row_nth r : forall lo hi j, (j < length (clip_row r lo hi))%nat ->
  nth j (clip_row r lo hi) 0 = clip (nth j r 0) (nth j lo None) (nth j hi None).
Proof.
  induction r as [|x t IH]; intros [|l lt] [|h ht] j Hj; simpl in *; try lia.
  destruct j as [|j]; auto. apply IH. lia.
Qed.

Lemma clip_matrix_in_bounds m lo hi :
  bounds_ok lo hi -> Forall (row_in_bounds lo hi) (clip_matrix m lo hi).
Proof.
  intros Hb. unfold clip_matrix. apply Forall_forall. intros r Hr.
  apply in_map_iff in Hr. destruct Hr as [r0 [<- _]]. apply clip_row_in_bounds; auto.
Qed.

Lemma clip_matrix_shape m lo hi n d :
  has_shape n d m -> length lo = d -> length hi = d -> has_shape n d (clip_matrix m lo hi).
Proof.
  intros [Hn Hd] Hlo Hhi. split; unfold clip_matrix; [rewrite map_length; auto|].
  apply Forall_forall. intros r Hr. apply in_map_iff in Hr. destruct Hr as [r0 [<- Hin]].
  rewrite Forall_forall in Hd. specialize (Hd r0 Hin). rewrite clip_row_length; lia.
Qed.

Lemma clip_matrix_id m lo hi d :
  Forall (fun r => length r = d) m -> length lo = d -> length hi = d ->
  Forall (row_in_bounds lo hi) m -> clip_matrix m lo hi = m.
Proof.
  intros Hd Hlo Hhi Hin. unfold clip_matrix. induction m as [|r t IH]; simpl; auto.
  inversion Hd; subst. inversion Hin; subst. f_equal; [apply clip_row_id; auto; lia | apply IH; auto].
Qed.

Lemma clip_matrix_comp m m' lo hi : meq m m' -> meq (clip_matrix m lo hi) (clip_matrix m' lo hi).
Proof.
  induction 1 as [|r r' t t' Hr Ht IH]; simpl; constructor; auto. apply clip_row_comp; auto.
Qed.

(** * shapes of the building blocks *)
Lemma tabulate_length A n (f : nat -> A) : length (tabulate n f) = n.
Proof. unfold tabulate. rewrite map_length, seq_length. reflexivity. Qed.

Lemma tabulate_nth A n (f : nat -> A) k d : (k < n)%nat -> nth k (tabulate n f) d = f k.
Proof.
  intros H. unfold tabulate. rewrite (nth_indep _ d (f 0%nat)) by (rewrite map_length, seq_length; auto).
  rewrite map_nth. rewrite seq_nth; auto.
Qed.

Lemma tabulate_Forall A (P : A -> Prop) n f : (forall k, (k < n)%nat -> P (f k)) -> Forall P (tabulate n f).
Proof.
  intros H. unfold tabulate. apply Forall_forall. intros x Hx. apply in_map_iff in Hx.
  destruct Hx as [k [<- Hk]]. apply in_seq in Hk. apply H. lia.
Qed.

Lemma map2_length A B C (f : A -> B -> C) l1 : forall l2,
  length (map2 f l1 l2) = Nat.min (length l1) (length l2).
Proof. induction l1 as [|a t IH]; intros [|b t2]; simpl; auto. Qed.

Lemma map2_nth A B C (f : A -> B -> C) l1 : forall l2 k da db dc,
  (k < length l1)%nat -> (k < length l2)%nat ->
  nth k (map2 f l1 l2) dc = f (nth k l1 da) (nth k l2 db).
Proof.
  induction l1 as [|a t IH]; intros [|b t2] k da db dc H1 H2; simpl in *; try lia.
  destruct k as [|k]; auto. apply IH; lia.
Qed.

Lemma map2_Forall A B C (P : C -> Prop) (f : A -> B -> C) l1 : forall l2,
  (forall a b, In a l1 -> In b l2 -> P (f a b)) -> Forall P (map2 f l1 l2).
Proof.
  induction l1 as [|a t IH]; intros [|b t2] H; simpl; constructor.
  - apply H; simpl; auto.
  - apply IH. intros; apply H; simpl; auto.
Qed.

Lemma vadd_length a b : length (vadd a b) = Nat.min (length a) (length b).
Proof. apply map2_length. Qed.
Lemma vsub_length a b : length (vsub a b) = Nat.min (length a) (length b).
Proof. apply map2_length. Qed.
Lemma vscale_length g a : length (vscale g a) = length a.
Proof. apply map_length. Qed.

Lemma draw_matrix_shape b d z : has_shape b d (draw_matrix b d z).
Proof.
  split; unfold draw_matrix; [apply tabulate_length|].
  apply tabulate_Forall. intros k _. apply tabulate_length.
Qed.

Lemma repeat_Forall A (P : A -> Prop) x n : P x -> Forall P (repeat x n).
Proof. intros H. induction n; simpl; constructor; auto. Qed.

(** * parents are current elites (or x0 while the archive is empty) *)
Definition ints_ok (elites : matrix) (n : nat) (ints : nat -> nat) : Prop :=
  forall k, (k < n)%nat -> (ints k < length elites)%nat.

Lemma parents_of_empty c n ints : parents_of c [] n ints = repeat (e_x0 c) n.
Proof. reflexivity. Qed.

Lemma parents_of_nonempty c elites n ints :
  elites <> [] -> parents_of c elites n ints = tabulate n (fun k => nth (ints k) elites []).
Proof. destruct elites; [congruence|reflexivity]. Qed.

Lemma parents_of_length c elites n ints : length (parents_of c elites n ints) = n.
Proof.
  destruct elites; [rewrite parents_of_empty; apply repeat_length|].
  rewrite parents_of_nonempty by congruence. apply tabulate_length.
Qed.

Lemma parents_are_elites c elites n ints :
  elites <> [] -> ints_ok elites n ints ->
  Forall (fun p => In p elites) (parents_of c elites n ints).
Proof.
  intros Hne Hi. rewrite parents_of_nonempty by auto. apply tabulate_Forall.
  intros k Hk. apply nth_In. apply Hi; auto.
Qed.

Lemma parents_of_nth c elites n ints k :
  elites <> [] -> (k < n)%nat -> nth k (parents_of c elites n ints) [] = nth (ints k) elites [].
Proof. intros Hne Hk. rewrite parents_of_nonempty by auto. apply tabulate_nth; auto. Qed.

Lemma parents_of_nth_empty c n ints k :
  (k < n)%nat -> nth k (parents_of c [] n ints) [] = e_x0 c.
Proof.
  intros Hk. rewrite parents_of_empty. revert k Hk. induction n; intros [|k] Hk; simpl; auto; try lia.
  apply IHn. lia.
Qed.

(** well-formed configuration and archive content *)
Record cfg_wf (c : ecfg) : Prop := {
  wf_lo : length (e_lo c) = e_dim c;
  wf_hi : length (e_hi c) = e_dim c;
  wf_x0 : length (e_x0 c) = e_dim c;
  wf_bounds : bounds_ok (e_lo c) (e_hi c)
}.
Definition elites_wf (d : nat) (elites : matrix) : Prop := Forall (fun r => length r = d) elites.

Lemma parents_of_shape c elites n ints :
  cfg_wf c -> elites_wf (e_dim c) elites -> ints_ok elites n ints ->
  has_shape n (e_dim c) (parents_of c elites n ints).
Proof.
  intros Hc He Hi. split; [apply parents_of_length|].
  destruct elites as [|e0 et].
  - rewrite parents_of_empty. apply repeat_Forall. apply (wf_x0 _ Hc).
  - rewrite parents_of_nonempty by congruence. apply tabulate_Forall. intros k Hk.
    unfold elites_wf in He. rewrite Forall_forall in He. apply He. apply nth_In. apply Hi; auto.
Qed.

Lemma map2_vadd_shape n d a b : has_shape n d a -> has_shape n d b -> has_shape n d (map2 vadd a b).
Proof.
  intros [Ha Hda] [Hb Hdb]. split; [rewrite map2_length; lia|].
  apply map2_Forall. intros x y Hx Hy. rewrite Forall_forall in Hda, Hdb.
  rewrite vadd_length, (Hda x Hx), (Hdb y Hy). lia.
Qed.

Lemma firstn_In' A (l : list A) : forall k x, In x (firstn k l) -> In x l.
Proof.
  induction l as [|a t IH]; intros [|k] x H; simpl in *; try contradiction.
  destruct H as [H|H]; [left; auto | right; eauto].
Qed.

Lemma firstn_shape n d k m : has_shape n d m -> (k <= n)%nat -> has_shape k d (firstn k m).
Proof.
  intros [Hn Hd] Hk. split; [rewrite firstn_length; lia|].
  apply Forall_forall. intros r Hr. rewrite Forall_forall in Hd. apply Hd. eapply firstn_In'; eauto.
Qed.

Lemma skipn_In A (l : list A) : forall k x, In x (skipn k l) -> In x l.
Proof. induction l as [|a t IH]; intros [|k] x H; simpl in *; auto. right; eauto. Qed.

Lemma skipn_shape n d k m : has_shape n d m -> has_shape (n - k) d (skipn k m).
Proof.
  intros [Hn Hd]. split; [rewrite skipn_length; lia|].
  apply Forall_forall. intros r Hr. rewrite Forall_forall in Hd. apply Hd. eapply skipn_In; eauto.
Qed.

Lemma isoline_row_length e p n g d :
  length e = d -> length p = d -> length n = d -> length (isoline_row e p n g) = d.
Proof.
  intros He Hp Hn. unfold isoline_row. rewrite !vadd_length, vscale_length, vsub_length. lia.
Qed.

Lemma isoline_rows_shape b d : forall p0 p1 iso line,
  has_shape b d p0 -> has_shape b d p1 -> has_shape b d iso -> length line = b ->
  has_shape b d (isoline_rows p0 p1 iso line).
Proof.
  induction b as [|b IH]; intros p0 p1 iso line [H0 D0] [H1 D1] [H2 D2] H3.
  - destruct p0; simpl in *; try lia. split; simpl; auto.
  - destruct p0 as [|e t0], p1 as [|q t1], iso as [|n tn], line as [|g tg]; simpl in *; try lia.
    inversion D0; inversion D1; inversion D2; subst.
    destruct (IH t0 t1 tn tg) as [Hl Hd]; try (split; auto; lia); try lia.
    split; simpl; [lia|]. constructor; auto. apply isoline_row_length; auto.
Qed.

Lemma dqd_line_rows_shape b d : forall ps os noise line,
  has_shape b d ps -> has_shape b d os -> has_shape b d noise -> length line = b ->
  has_shape b d (dqd_line_rows ps os noise line).
Proof.
  induction b as [|b IH]; intros p0 p1 iso line [H0 D0] [H1 D1] [H2 D2] H3.
  - destruct p0; simpl in *; try lia. split; simpl; auto.
  - destruct p0 as [|e t0], p1 as [|q t1], iso as [|n tn], line as [|g tg]; simpl in *; try lia.
    inversion D0; inversion D1; inversion D2; subst.
    destruct (IH t0 t1 tn tg) as [Hl Hd]; try (split; auto; lia); try lia.
    split; simpl; [lia|]. constructor; auto.
    rewrite !vadd_length, vscale_length, vsub_length. lia.
Qed.

(** * Every clipping ask: all coordinates in bounds *)
Lemma run_ask_in_bounds a out :
  bounds_ok (e_lo (call_cfg a)) (e_hi (call_cfg a)) -> run_ask a = Ok out ->
  Forall (row_in_bounds (e_lo (call_cfg a)) (e_hi (call_cfg a))) out.
Proof.
  intros Hb Hr. destruct a as [c e ints z|c e ints iso line|c o e ints z line|c l e ints z line
                              |c mg e ps jac sg m1 z]; simpl in *.
  - inversion Hr; subst; clear Hr. unfold gaussian_ask, gaussian_op.
    destruct e; destruct (e_init c); apply clip_matrix_in_bounds; auto.
  - inversion Hr; subst; clear Hr. unfold isoline_ask, isoline_op.
    destruct e; destruct (e_init c); apply clip_matrix_in_bounds; auto.
  - inversion Hr; subst; clear Hr. unfold ga_ask, isoline_op, gaussian_op.
    destruct e; destruct (e_init c); destruct (Nat.eqb (parent_type o) 2);
      apply clip_matrix_in_bounds; auto.
  - inversion Hr; subst; clear Hr. unfold go_ask_dqd.
    destruct e; destruct (e_init c); destruct l; try apply clip_matrix_in_bounds; auto.
  - unfold go_ask in Hr.
    destruct e; destruct (e_init c); destruct jac; try discriminate;
      inversion Hr; subst; apply clip_matrix_in_bounds; auto.
Qed.

(** * Shapes *)
Lemma lincomb_length d : forall cf J base,
  Forall (fun r => length r = d) J -> length base = d -> length (lincomb base cf J) = d.
Proof.
  induction cf as [|g tc IH]; intros [|r tj] base HJ Hb; simpl; auto.
  inversion HJ; subst. apply IH; auto. rewrite vadd_length, vscale_length. lia.
Qed.

Definition jac_wf (mg : bool) (b d : nat) (jac : option (list matrix)) : Prop :=
  match jac with
  | None => True
  | Some J => length J = b /\
              Forall (fun Ji => Forall (fun r => length r = d) Ji /\ (mg = false -> Ji <> [])) J
  end.

Definition call_wf (a : ask_call) : Prop :=
  cfg_wf (call_cfg a) /\ elites_wf (e_dim (call_cfg a)) (call_elites a) /\
  match a with
  | AGaussian c e ints _ => ints_ok e (e_batch c) ints
  | AIsoLine c e ints _ _ => ints_ok e (2 * e_batch c) ints
  | AGA c o e ints _ _ => ints_ok e (parent_type o * e_batch c) ints
  | AGoDqd c l e ints _ _ => ints_ok e ((if l then 2 else 1) * e_batch c) ints
  | AGoAsk c mg e ps jac _ _ _ => has_shape (e_batch c) (e_dim c) ps /\ jac_wf mg (e_batch c) (e_dim c) jac
  end.

Lemma ints_ok_le e n m ints : ints_ok e n ints -> (m <= n)%nat -> ints_ok e m ints.
Proof. intros H Hle k Hk. apply H. lia. Qed.

Lemma gaussian_shape c e ints z :
  cfg_wf c -> elites_wf (e_dim c) e -> ints_ok e (e_batch c) ints ->
  has_shape (e_batch c) (e_dim c)
            (gaussian_op (e_lo c) (e_hi c) (parents_of c e (e_batch c) ints)
                         (draw_matrix (e_batch c) (e_dim c) z)).
Proof.
  intros Hc He Hi. unfold gaussian_op.
  apply clip_matrix_shape; [|apply (wf_lo _ Hc)|apply (wf_hi _ Hc)].
  apply map2_vadd_shape; [apply parents_of_shape; auto | apply draw_matrix_shape].
Qed.

Lemma isoline_shape c e ints iso line :
  cfg_wf c -> elites_wf (e_dim c) e -> ints_ok e (2 * e_batch c) ints ->
  let ps := parents_of c e (2 * e_batch c) ints in
  has_shape (e_batch c) (e_dim c)
            (isoline_op (e_lo c) (e_hi c) (firstn (e_batch c) ps) (skipn (e_batch c) ps)
                        (draw_matrix (e_batch c) (e_dim c) iso) (tabulate (e_batch c) line)).
Proof.
  intros Hc He Hi ps. unfold isoline_op.
  apply clip_matrix_shape; [|apply (wf_lo _ Hc)|apply (wf_hi _ Hc)].
  pose proof (parents_of_shape c e (2 * e_batch c) ints Hc He Hi) as Hps. fold ps in Hps.
  apply isoline_rows_shape.
  - apply (firstn_shape (2 * e_batch c)); auto; lia.
  - replace (e_batch c) with (2 * e_batch c - e_batch c)%nat at 1 by lia. apply skipn_shape; auto.
  - apply draw_matrix_shape.
  - apply tabulate_length.
Qed.

Lemma run_ask_shape a out :
  call_wf a -> run_ask a = Ok out ->
  match call_elites a, e_init (call_cfg a) with
  | [], Some ini =>
      out = if is_ask_dqd a then [] else clip_matrix ini (e_lo (call_cfg a)) (e_hi (call_cfg a))
  | _, _ => has_shape (e_batch (call_cfg a)) (e_dim (call_cfg a)) out
  end.
Proof.
  intros [Hc [He Hw]] Hr.
  destruct a as [c e ints z|c e ints iso line|c o e ints z line|c l e ints z line
                |c mg e ps jac sg m1 z]; simpl in *.
  - inversion Hr; subst; clear Hr. unfold gaussian_ask.
    destruct e as [|e0 et]; destruct (e_init c); auto; apply gaussian_shape; auto.
  - inversion Hr; subst; clear Hr. unfold isoline_ask.
    destruct e as [|e0 et]; destruct (e_init c); auto; apply isoline_shape; auto.
  - inversion Hr; subst; clear Hr. unfold ga_ask.
    destruct e as [|e0 et]; destruct (e_init c); auto; destruct o; simpl in *;
      try (apply isoline_shape; auto); try (apply gaussian_shape; auto);
      try (eapply ints_ok_le; eauto; lia).
  - inversion Hr; subst; clear Hr. unfold go_ask_dqd.
    assert (Hshape : forall e, elites_wf (e_dim c) e ->
              ints_ok e ((if l then 2 else 1) * e_batch c) ints ->
              has_shape (e_batch c) (e_dim c)
                (if l then clip_matrix (dqd_line_rows (parents_of c e (e_batch c) ints)
                            (parents_of c e (e_batch c) (fun k => ints (e_batch c + k)%nat))
                            (draw_matrix (e_batch c) (e_dim c) z) (tabulate (e_batch c) line))
                            (e_lo c) (e_hi c)
                 else clip_matrix (map2 vadd (parents_of c e (e_batch c) ints)
                                        (draw_matrix (e_batch c) (e_dim c) z)) (e_lo c) (e_hi c))).
    { intros e' He' Hi'. destruct l.
      - apply clip_matrix_shape; [|apply (wf_lo _ Hc)|apply (wf_hi _ Hc)].
        apply dqd_line_rows_shape.
        + apply parents_of_shape; auto. eapply ints_ok_le; eauto; lia.
        + apply parents_of_shape; auto. intros k Hk. apply Hi'. lia.
        + apply draw_matrix_shape.
        + apply tabulate_length.
      - apply clip_matrix_shape; [|apply (wf_lo _ Hc)|apply (wf_hi _ Hc)].
        apply map2_vadd_shape; [|apply draw_matrix_shape].
        apply parents_of_shape; auto. eapply ints_ok_le; eauto; lia. }
    destruct e as [|e0 et]; destruct (e_init c); auto.
  - destruct Hw as [Hps Hj]. unfold go_ask in Hr.
    assert (Hshape : forall J, jac_wf mg (e_batch c) (e_dim c) (Some J) ->
      has_shape (e_batch c) (e_dim c)
        (clip_matrix
          (if mg
           then map2 (fun pj cf => vadd (lincomb (zero_row (e_dim c)) cf (snd pj)) (fst pj))
                     (combine ps J) (go_coeffs (length J) m1 z)
           else map2 (fun p Ji => vadd p (vscale sg (hd [] Ji))) ps J) (e_lo c) (e_hi c))).
    { intros J [HJl HJ]. apply clip_matrix_shape; [|apply (wf_lo _ Hc)|apply (wf_hi _ Hc)].
      destruct Hps as [Hpl Hpd]. rewrite Forall_forall in Hpd, HJ. destruct mg.
      - split.
        + rewrite map2_length, combine_length. unfold go_coeffs. rewrite tabulate_length. lia.
        + apply map2_Forall. intros [p Ji] cf Hin _. simpl.
          pose proof (in_combine_l _ _ _ _ Hin) as Hp. pose proof (in_combine_r _ _ _ _ Hin) as HJi.
          rewrite vadd_length, (Hpd p Hp).
          rewrite (lincomb_length (e_dim c)); [lia| |].
          * apply (proj1 (HJ Ji HJi)).
          * unfold zero_row. apply repeat_length.
      - split.
        + rewrite map2_length. unfold matrix, row in *. lia.
        + apply map2_Forall. intros p Ji Hp HJi. rewrite vadd_length, vscale_length, (Hpd p Hp).
          destruct (HJ Ji HJi) as [Hd Hne]. destruct Ji as [|r0 rt]; [exfalso; apply Hne; auto|].
          simpl. inversion Hd; subst. lia. }
    destruct e as [|e0 et]; destruct (e_init c); destruct jac as [J|]; try discriminate;
      inversion Hr; subst; auto.
Qed.

(** * GeneticAlgorithmEmitter is one of the two pipelines *)
Lemma ga_gaussian c e ints z line : ga_ask c OpGaussian e ints z line = gaussian_ask c e ints z.
Proof. unfold ga_ask, gaussian_ask. destruct e; destruct (e_init c); reflexivity. Qed.
Lemma ga_isoline c e ints z line : ga_ask c OpIsoLine e ints z line = isoline_ask c e ints z line.
Proof. unfold ga_ask, isoline_ask. destruct e; destruct (e_init c); reflexivity. Qed.

(** * Each output row = clip (parent + perturbation) *)
Definition parent_row (c : ecfg) (e : matrix) (ints : nat -> nat) (k : nat) : row :=
  match e with [] => e_x0 c | _ => nth (ints k) e [] end.

Lemma parents_of_nth_row c e n ints k :
  (k < n)%nat -> nth k (parents_of c e n ints) [] = parent_row c e ints k.
Proof.
  intros Hk. destruct e as [|e0 et].
  - apply parents_of_nth_empty; auto.
  - apply parents_of_nth; auto. congruence.
Qed.

Lemma clip_matrix_nth m lo hi k : nth k (clip_matrix m lo hi) [] = clip_row (nth k m []) lo hi.
Proof.
  unfold clip_matrix. exact (map_nth (fun r => clip_row r lo hi) m [] k).
Qed.

Lemma draw_matrix_nth b d z k : (k < b)%nat -> nth k (draw_matrix b d z) [] = tabulate d (z k).
Proof. intros H. unfold draw_matrix. apply tabulate_nth; auto. Qed.

Lemma gaussian_op_nth c e ints z k :
  (k < e_batch c)%nat ->
  nth k (gaussian_op (e_lo c) (e_hi c) (parents_of c e (e_batch c) ints)
                     (draw_matrix (e_batch c) (e_dim c) z)) [] =
  clip_row (vadd (parent_row c e ints k) (tabulate (e_dim c) (z k))) (e_lo c) (e_hi c).
Proof.
  intros Hk. unfold gaussian_op. rewrite clip_matrix_nth. f_equal.
  rewrite (map2_nth _ _ _ vadd _ _ k [] [] []).
  - rewrite parents_of_nth_row, draw_matrix_nth; auto.
  - rewrite parents_of_length; auto.
  - unfold draw_matrix. rewrite tabulate_length; auto.
Qed.

Lemma gaussian_ask_nth c e ints z k :
  (e <> [] \/ e_init c = None) -> (k < e_batch c)%nat ->
  nth k (gaussian_ask c e ints z) [] =
  clip_row (vadd (parent_row c e ints k) (tabulate (e_dim c) (z k))) (e_lo c) (e_hi c).
Proof.
  intros Hne Hk. unfold gaussian_ask.
  destruct e as [|e0 et]; destruct (e_init c) eqn:Ei; try apply gaussian_op_nth; auto.
  destruct Hne; congruence.
Qed.

Lemma isoline_rows_nth : forall p0 p1 iso line k,
  (k < length p0)%nat -> (k < length p1)%nat -> (k < length iso)%nat -> (k < length line)%nat ->
  nth k (isoline_rows p0 p1 iso line) [] =
  isoline_row (nth k p0 []) (nth k p1 []) (nth k iso []) (nth k line 0).
Proof.
  induction p0 as [|e t0 IH]; intros [|q t1] [|n tn] [|g tg] k H0 H1 H2 H3; simpl in *; try lia.
  destruct k as [|k]; auto. apply IH; lia.
Qed.

Lemma nth_firstn A (l : list A) : forall k n d, (k < n)%nat -> nth k (firstn n l) d = nth k l d.
Proof.
  induction l as [|a t IH]; intros k [|n] d H; simpl; try lia; auto.
  destruct k as [|k]; auto. apply IH. lia.
Qed.

Lemma nth_skipn A (l : list A) : forall k n d, nth k (skipn n l) d = nth (n + k) l d.
Proof.
  induction l as [|a t IH]; intros k [|n] d; simpl; auto. destruct k; auto.
Qed.

Lemma isoline_op_nth c e ints iso line k :
  (k < e_batch c)%nat ->
  let ps := parents_of c e (2 * e_batch c) ints in
  nth k (isoline_op (e_lo c) (e_hi c) (firstn (e_batch c) ps) (skipn (e_batch c) ps)
                    (draw_matrix (e_batch c) (e_dim c) iso) (tabulate (e_batch c) line)) [] =
  clip_row (isoline_row (parent_row c e ints k) (parent_row c e ints (e_batch c + k))
                        (tabulate (e_dim c) (iso k)) (line k)) (e_lo c) (e_hi c).
Proof.
  intros Hk ps. unfold isoline_op. rewrite clip_matrix_nth. f_equal.
  assert (Hl : length ps = (2 * e_batch c)%nat) by apply parents_of_length.
  rewrite isoline_rows_nth.
  - rewrite nth_firstn by auto. rewrite nth_skipn. unfold ps.
    rewrite !parents_of_nth_row by lia. rewrite draw_matrix_nth by auto.
    rewrite tabulate_nth by auto. reflexivity.
  - rewrite firstn_length. lia.
  - rewrite skipn_length. lia.
  - unfold draw_matrix. rewrite tabulate_length. auto.
  - rewrite tabulate_length. auto.
Qed.

Lemma isoline_ask_nth c e ints iso line k :
  (e <> [] \/ e_init c = None) -> (k < e_batch c)%nat ->
  nth k (isoline_ask c e ints iso line) [] =
  clip_row (isoline_row (parent_row c e ints k) (parent_row c e ints (e_batch c + k))
                        (tabulate (e_dim c) (iso k)) (line k)) (e_lo c) (e_hi c).
Proof.
  intros Hne Hk. unfold isoline_ask.
  destruct e as [|e0 et]; destruct (e_init c) eqn:Ei; try apply isoline_op_nth; auto.
  destruct Hne; congruence.
Qed.

Lemma dqd_line_rows_nth : forall ps os noise line k,
  (k < length ps)%nat -> (k < length os)%nat -> (k < length noise)%nat -> (k < length line)%nat ->
  nth k (dqd_line_rows ps os noise line) [] =
  vadd (vadd (nth k ps []) (vscale (nth k line 0) (vsub (nth k os []) (nth k ps [])))) (nth k noise []).
Proof.
  induction ps as [|e t0 IH]; intros [|q t1] [|n tn] [|g tg] k H0 H1 H2 H3; simpl in *; try lia.
  destruct k as [|k]; auto. apply IH; lia.
Qed.

Lemma go_ask_dqd_nth c l e ints z line k :
  (e <> [] \/ e_init c = None) -> (k < e_batch c)%nat ->
  nth k (go_ask_dqd c l e ints z line) [] =
  clip_row
    (if l then vadd (vadd (parent_row c e ints k)
                          (vscale (line k) (vsub (parent_row c e ints (e_batch c + k)) (parent_row c e ints k))))
                    (tabulate (e_dim c) (z k))
     else vadd (parent_row c e ints k) (tabulate (e_dim c) (z k))) (e_lo c) (e_hi c).
Proof.
  intros Hne Hk. unfold go_ask_dqd.
  assert (Hmain :
    nth k (if l
           then clip_matrix (dqd_line_rows (parents_of c e (e_batch c) ints)
                   (parents_of c e (e_batch c) (fun k0 => ints (e_batch c + k0)%nat))
                   (draw_matrix (e_batch c) (e_dim c) z) (tabulate (e_batch c) line)) (e_lo c) (e_hi c)
           else clip_matrix (map2 vadd (parents_of c e (e_batch c) ints)
                                  (draw_matrix (e_batch c) (e_dim c) z)) (e_lo c) (e_hi c)) [] =
    clip_row
      (if l then vadd (vadd (parent_row c e ints k)
                            (vscale (line k) (vsub (parent_row c e ints (e_batch c + k)) (parent_row c e ints k))))
                      (tabulate (e_dim c) (z k))
       else vadd (parent_row c e ints k) (tabulate (e_dim c) (z k))) (e_lo c) (e_hi c)).
  { destruct l.
    - rewrite clip_matrix_nth. f_equal. rewrite dqd_line_rows_nth.
      + rewrite !parents_of_nth_row by auto. rewrite draw_matrix_nth, tabulate_nth by auto.
        unfold parent_row. destruct e; reflexivity.
      + rewrite parents_of_length; auto.
      + rewrite parents_of_length; auto.
      + unfold draw_matrix. rewrite tabulate_length; auto.
      + rewrite tabulate_length; auto.
    - apply gaussian_op_nth; auto. }
  destruct e as [|e0 et]; destruct (e_init c) eqn:Ei; auto. destruct Hne; congruence.
Qed.

(** per coordinate: the unclipped value, or exactly the bound it was clipped to *)
Lemma clipped_coord r lo hi j :
  (j < length (clip_row r lo hi))%nat ->
  let v := nth j (clip_row r lo hi) 0 in
  v = nth j r 0 \/ nth j lo None = Some v \/ nth j hi None = Some v.
Proof.
  intros Hj v. unfold v. rewrite clip_row_nth by auto. apply clip_cases.
Qed.

(** * Zero noise *)
Definition zero2 (z : nat -> nat -> Q) : Prop := forall i j, z i j == 0.
Definition zero1 (g : nat -> Q) : Prop := forall i, g i == 0.

Lemma req_refl r : req r r.
Proof. induction r; constructor; auto. reflexivity. Qed.
Lemma meq_refl m : meq m m.
Proof. induction m; constructor; auto. apply req_refl. Qed.
Lemma req_trans a b c : req a b -> req b c -> req a c.
Proof.
  intros H. revert c. induction H as [|x y t t' Hxy Ht IH]; intros c Hc; inversion Hc; subst; constructor.
  - rewrite Hxy; auto.
  - apply IH; auto.
Qed.

Lemma vadd_zero_tab p d f : length p = d -> (forall j, f j == 0) -> req (vadd p (tabulate d f)) p.
Proof.
  intros Hl Hz. subst d. unfold tabulate. generalize 0%nat as s.
  induction p as [|x t IH]; intros s; simpl; constructor.
  - rewrite Hz. ring.
  - apply IH.
Qed.

Lemma vscale_vsub_zero g a b : g == 0 -> length a = length b -> req (vadd b (vscale g (vsub a b))) b.
Proof.
  intros Hg. revert b. induction a as [|x t IH]; intros [|y u] Hl; simpl in *; try discriminate; constructor.
  - rewrite Hg. ring.
  - apply IH. lia.
Qed.

Lemma vadd_comp a a' b b' : req a a' -> req b b' -> req (vadd a b) (vadd a' b').
Proof.
  intros Ha. revert b b'. induction Ha as [|x x' t t' Hx Ht IH]; intros b b' Hb; simpl; [constructor|].
  inversion Hb; subst; constructor; [rewrite Hx; rewrite H; reflexivity | apply IH; auto].
Qed.

Lemma req_length a b : req a b -> length a = length b.
Proof. induction 1; simpl; auto. Qed.

(** statement per pipeline row *)
Lemma gaussian_row_zero p d f : length p = d -> (forall j, f j == 0) -> req (vadd p (tabulate d f)) p.
Proof. apply vadd_zero_tab. Qed.

Lemma isoline_row_zero e q d f g :
  length e = d -> length q = d -> (forall j, f j == 0) -> g == 0 ->
  req (isoline_row e q (tabulate d f) g) e.
Proof.
  intros He Hq Hf Hg. unfold isoline_row.
  apply req_trans with (vadd e (vscale g (vsub q e))).
  - apply vadd_comp; [apply vadd_zero_tab; auto | apply req_refl].
  - apply vscale_vsub_zero; auto. lia.
Qed.

Lemma dqd_line_row_zero p o d f g :
  length p = d -> length o = d -> (forall j, f j == 0) -> g == 0 ->
  req (vadd (vadd p (vscale g (vsub o p))) (tabulate d f)) p.
Proof.
  intros Hp Ho Hf Hg.
  assert (H1 : req (vadd p (vscale g (vsub o p))) p) by (apply vscale_vsub_zero; auto; lia).
  apply req_trans with (vadd p (tabulate d f)).
  - apply vadd_comp; [auto | apply req_refl].
  - apply vadd_zero_tab; auto.
Qed.

Lemma meq_by_nth n (a b : matrix) :
  length a = n -> length b = n -> (forall k, (k < n)%nat -> req (nth k a []) (nth k b [])) -> meq a b.
Proof.
  revert a b. induction n as [|n IH]; intros [|x a] [|y b] Ha Hb H; simpl in *; try lia; constructor.
  - apply (H 0%nat). lia.
  - apply IH; auto. intros k Hk. apply (H (S k)). lia.
Qed.

Lemma parent_row_length c e ints n k :
  cfg_wf c -> elites_wf (e_dim c) e -> ints_ok e n ints -> (k < n)%nat ->
  length (parent_row c e ints k) = e_dim c.
Proof.
  intros Hc He Hi Hk. unfold parent_row. destruct e as [|e0 et]; [apply (wf_x0 _ Hc)|].
  unfold elites_wf in He. rewrite Forall_forall in He. apply He. apply nth_In. apply Hi; auto.
Qed.

Definition zero_noise (a : ask_call) : Prop :=
  match a with
  | AGaussian _ _ _ z => zero2 z
  | AIsoLine _ _ _ iso line => zero2 iso /\ zero1 line
  | AGA _ _ _ _ z line => zero2 z /\ zero1 line
  | AGoDqd _ _ _ _ z line => zero2 z /\ zero1 line
  | AGoAsk _ _ _ _ _ _ _ _ => False
  end.
Definition call_ints (a : ask_call) : nat -> nat :=
  match a with
  | AGaussian _ _ i _ | AIsoLine _ _ i _ _ | AGA _ _ _ i _ _ | AGoDqd _ _ _ i _ _ => i
  | AGoAsk _ _ _ _ _ _ _ _ => fun _ => O
  end.

(** with zero noise the output is the clipped parents, row by row *)
Lemma run_ask_zero_noise a out :
  call_wf a -> zero_noise a -> run_ask a = Ok out ->
  (call_elites a <> [] \/ e_init (call_cfg a) = None) ->
  meq out (clip_matrix (parents_of (call_cfg a) (call_elites a) (e_batch (call_cfg a)) (call_ints a))
                       (e_lo (call_cfg a)) (e_hi (call_cfg a))).
Proof.
  intros Hwf Hz Hr Hne. pose proof (run_ask_shape a out Hwf Hr) as Hsh.
  destruct Hwf as [Hc [He Hw]].
  assert (Hsh' : has_shape (e_batch (call_cfg a)) (e_dim (call_cfg a)) out).
  { destruct (call_elites a); auto. destruct (e_init (call_cfg a)); auto. destruct Hne; congruence. }
  clear Hsh. destruct Hsh' as [Hlen _].
  apply (meq_by_nth (e_batch (call_cfg a))); auto.
  { unfold clip_matrix. rewrite map_length. apply parents_of_length. }
  intros k Hk. rewrite clip_matrix_nth, parents_of_nth_row by auto.
  destruct a as [c e ints z|c e ints iso line|c o e ints z line|c l e ints z line
                |c mg e ps jac sg m1 z]; simpl in *; try contradiction.
  - inversion Hr; subst; clear Hr. rewrite gaussian_ask_nth by auto.
    apply clip_row_comp. apply gaussian_row_zero; [|intros j; apply Hz].
    apply (parent_row_length c e ints (e_batch c)); auto.
  - inversion Hr; subst; clear Hr. destruct Hz as [Hz1 Hz2]. rewrite isoline_ask_nth by auto.
    apply clip_row_comp.
    apply isoline_row_zero; auto;
      try (apply (parent_row_length c e ints (2 * e_batch c)); auto; lia); try (intros j; apply Hz1).
  - inversion Hr; subst; clear Hr. destruct Hz as [Hz1 Hz2]. destruct o; simpl in Hw.
    + rewrite ga_gaussian, gaussian_ask_nth by auto.
      apply clip_row_comp. apply gaussian_row_zero; [|intros j; apply Hz1].
      apply (parent_row_length c e ints (1 * e_batch c)); auto. lia.
    + rewrite ga_isoline, isoline_ask_nth by auto.
      apply clip_row_comp.
      apply isoline_row_zero; auto;
        try (apply (parent_row_length c e ints (2 * e_batch c)); auto; lia); try (intros j; apply Hz1).
  - inversion Hr; subst; clear Hr. destruct Hz as [Hz1 Hz2]. rewrite go_ask_dqd_nth by auto.
    apply clip_row_comp. destruct l.
    + apply dqd_line_row_zero; auto;
        try (apply (parent_row_length c e ints (2 * e_batch c)); auto; lia); try (intros j; apply Hz1).
    + apply gaussian_row_zero; [|intros j; apply Hz1].
      apply (parent_row_length c e ints (1 * e_batch c)); auto. lia.
Qed.

Lemma call_wf_ints a :
  call_wf a -> ints_ok (call_elites a) (e_batch (call_cfg a)) (call_ints a) \/ (exists c mg e ps j s m z, a = AGoAsk c mg e ps j s m z).
Proof.
  intros [_ [_ Hw]].
  destruct a as [c e ints z|c e ints iso line|c o e ints z line|c l e ints z line
                |c mg e ps jac sg m1 z]; simpl in *.
  - left; auto.
  - left. eapply ints_ok_le; eauto. lia.
  - left. eapply ints_ok_le; eauto. destruct o; simpl; lia.
  - left. eapply ints_ok_le; eauto. destruct l; lia.
  - right. repeat eexists.
Qed.

(** zero noise, elites and x0 inside the bounds: the output is the parents themselves *)
Lemma zero_noise_returns_parents a out :
  call_wf a -> zero_noise a -> run_ask a = Ok out ->
  (call_elites a <> [] \/ e_init (call_cfg a) = None) ->
  Forall (row_in_bounds (e_lo (call_cfg a)) (e_hi (call_cfg a))) (call_elites a) ->
  row_in_bounds (e_lo (call_cfg a)) (e_hi (call_cfg a)) (e_x0 (call_cfg a)) ->
  meq out (parents_of (call_cfg a) (call_elites a) (e_batch (call_cfg a)) (call_ints a)).
Proof.
  intros Hwf Hz Hr Hne Hin Hx0.
  pose proof (run_ask_zero_noise a out Hwf Hz Hr Hne) as H.
  destruct (call_wf_ints a Hwf) as [Hi|[c [mg [e [ps [j [s [m [z ->]]]]]]]]]; [|simpl in Hz; contradiction].
  destruct Hwf as [Hc [He _]].
  pose proof (parents_of_shape _ _ _ _ Hc He Hi) as [Hpl Hpd].
  rewrite (clip_matrix_id _ _ _ (e_dim (call_cfg a))) in H; auto.
  - apply (wf_lo _ Hc).
  - apply (wf_hi _ Hc).
  - destruct (call_elites a) as [|e0 et] eqn:Ee.
    + rewrite parents_of_empty. apply repeat_Forall; auto.
    + assert (Hne' : e0 :: et <> []) by congruence.
      pose proof (parents_are_elites (call_cfg a) (e0 :: et) _ _ Hne' Hi) as Hpe.
      rewrite Forall_forall in *. intros p Hp. apply Hin. apply Hpe; auto.
Qed.

(** ... hence every returned row is (equal in value to) a solution currently in the archive *)
Lemma zero_noise_returns_elites a out :
  call_wf a -> zero_noise a -> run_ask a = Ok out -> call_elites a <> [] ->
  Forall (row_in_bounds (e_lo (call_cfg a)) (e_hi (call_cfg a))) (call_elites a) ->
  length out = e_batch (call_cfg a) /\
  Forall (fun r => exists p, In p (call_elites a) /\ req r p) out.
Proof.
  intros Hwf Hz Hr Hne Hin.
  pose proof (run_ask_zero_noise a out Hwf Hz Hr (or_introl Hne)) as H.
  destruct (call_wf_ints a Hwf) as [Hi|[c [mg [e [ps [j [s [m [z ->]]]]]]]]]; [|simpl in Hz; contradiction].
  destruct Hwf as [Hc [He _]].
  pose proof (parents_of_shape _ _ _ _ Hc He Hi) as [Hpl Hpd].
  pose proof (parents_are_elites (call_cfg a) _ _ _ Hne Hi) as Hpe.
  rewrite (clip_matrix_id _ _ _ (e_dim (call_cfg a))) in H; auto.
  - split.
    + rewrite <- Hpl. clear -H. induction H; simpl; auto.
    + clear -H Hpe. induction H as [|r p t tp Hrp Ht IH]; constructor.
      * inversion Hpe; subst. exists p; auto.
      * inversion Hpe; subst. apply IH; auto.
  - apply (wf_lo _ Hc).
  - apply (wf_hi _ Hc).
  - rewrite Forall_forall in *. intros p Hp. apply Hin. apply Hpe; auto.
Qed.

(** * The resample-until-in-bounds loop *)
Lemma oob_false_in_bounds x lo hi : oob x lo hi = false -> in_bounds x lo hi.
Proof.
  unfold oob, in_bounds. intros H. apply orb_false_elim in H. destruct H as [H1 H2]. split.
  - destruct lo as [l|]; simpl; auto. apply negb_false_iff in H1. apply Qle_bool_iff in H1. auto.
  - destruct hi as [h|]; simpl; auto. apply negb_false_iff in H2. apply Qle_bool_iff in H2. auto.
Qed.

Lemma in_bounds_oob_false x lo hi : in_bounds x lo hi -> oob x lo hi = false.
Proof.
  unfold oob, in_bounds. intros [H1 H2]. apply orb_false_intro.
  - destruct lo as [l|]; simpl in *; auto. apply negb_false_iff. apply Qle_bool_iff. auto.
  - destruct hi as [h|]; simpl in *; auto. apply negb_false_iff. apply Qle_bool_iff. auto.
Qed.

Lemma row_oob_false r : forall lo hi,
  length lo = length hi -> row_oob r lo hi = false -> row_in_bounds lo hi r.
Proof.
  induction r as [|x t IH]; intros [|l lt] [|h ht] Hl H j Hj; simpl in *; try lia; try discriminate.
  - destruct j; simpl; split; exact I.
  - apply orb_false_elim in H. destruct H as [H1 H2]. destruct j as [|j]; simpl.
    + apply oob_false_in_bounds; auto.
    + apply IH; auto; lia.
Qed.

Lemma row_in_bounds_oob_false r : forall lo hi, row_in_bounds lo hi r -> row_oob r lo hi = false.
Proof.
  induction r as [|x t IH]; intros [|l lt] [|h ht] H; simpl in *; auto.
  apply orb_false_intro.
  - apply in_bounds_oob_false. exact (H 0%nat ltac:(simpl; lia)).
  - apply IH. intros j Hj. exact (H (S j) ltac:(simpl; lia)).
Qed.

Section WriteSlots.
Let slot := (row * nat)%type.
Let d0 : slot := ([], 0%nat).

Lemma write_slots_length : forall idx cand (sols : list slot),
  length (write_slots sols idx cand) = length sols.
Proof.
  induction idx as [|i ti IH]; intros [|x tc] sols; simpl; auto. rewrite IH. apply upd_length.
Qed.

Lemma write_slots_other : forall idx cand (sols : list slot) i,
  ~ In i idx -> nth i (write_slots sols idx cand) d0 = nth i sols d0.
Proof.
  induction idx as [|i0 ti IH]; intros [|x tc] sols i Hn; simpl in *; auto.
  rewrite IH by tauto. apply nth_upd_other. intros E. apply Hn. auto.
Qed.

Lemma write_slots_same : forall idx cand (sols : list slot) j,
  NoDup idx -> (j < length idx)%nat -> (j < length cand)%nat ->
  (nth j idx 0 < length sols)%nat ->
  nth (nth j idx 0%nat) (write_slots sols idx cand) d0 = nth j cand d0.
Proof.
  induction idx as [|i0 ti IH]; intros [|x tc] sols j Hnd Hj Hc Hs; simpl in *; try lia.
  inversion Hnd as [|? ? Hni Hnd']; subst. destruct j as [|j].
  - rewrite write_slots_other by auto. apply nth_upd_same. auto.
  - apply IH; auto; try lia. rewrite upd_length. auto.
Qed.
End WriteSlots.

Lemma still_oob_In lo hi : forall idx cand i,
  In i (still_oob lo hi idx cand) ->
  exists j, (j < length idx)%nat /\ (j < length cand)%nat /\ nth j idx 0%nat = i /\
            row_oob (nth j cand []) lo hi = true.
Proof.
  induction idx as [|i0 ti IH]; intros [|x tc] i H; simpl in *; try contradiction.
  destruct (row_oob x lo hi) eqn:E.
  - destruct H as [<-|H].
    + exists 0%nat. repeat split; auto; lia.
    + destruct (IH tc i H) as [j [H1 [H2 [H3 H4]]]]. exists (S j). repeat split; auto; lia.
  - destruct (IH tc i H) as [j [H1 [H2 [H3 H4]]]]. exists (S j). repeat split; auto; lia.
Qed.

Lemma still_oob_sub lo hi idx cand i : In i (still_oob lo hi idx cand) -> In i idx.
Proof.
  intros H. destruct (still_oob_In lo hi idx cand i H) as [j [H1 [_ [<- _]]]]. apply nth_In; auto.
Qed.

Lemma still_oob_intro lo hi : forall idx cand j,
  (j < length idx)%nat -> (j < length cand)%nat -> row_oob (nth j cand []) lo hi = true ->
  In (nth j idx 0%nat) (still_oob lo hi idx cand).
Proof.
  induction idx as [|i0 ti IH]; intros [|x tc] j H1 H2 H3; simpl in *; try lia.
  destruct j as [|j].
  - rewrite H3. left; auto.
  - destruct (row_oob x lo hi); [right|]; apply IH; auto; lia.
Qed.

Lemma still_oob_NoDup lo hi : forall idx cand, NoDup idx -> NoDup (still_oob lo hi idx cand).
Proof.
  induction idx as [|i0 ti IH]; intros [|x tc] H; simpl; try constructor.
  inversion H; subst. destruct (row_oob x lo hi); auto.
  constructor; auto. intros Hin. apply still_oob_sub in Hin. auto.
Qed.

Lemma skipn_skipn' A : forall a (l : list A) b, skipn b (skipn a l) = skipn (a + b) l.
Proof.
  induction a as [|a IH]; intros l b; simpl; auto.
  destruct l as [|x t]; simpl; [destruct b; auto | apply IH].
Qed.

Section Resample.
Variables (lo hi : list ebound) (S0 : matrix) (b : nat).
Let d0 : row * nat := ([], 0%nat).

Definition slot_ok (pos : nat) (s : row * nat) : Prop :=
  (snd s < pos)%nat /\ nth_error S0 (snd s) = Some (fst s) /\ row_oob (fst s) lo hi = false.

Record rinv (stream : matrix) (pos : nat) (sols : list (row * nat)) (remaining : list nat) : Prop := {
  ri_stream : stream = skipn pos S0;
  ri_len : length sols = b;
  ri_rem : Forall (fun i => (i < b)%nat) remaining;
  ri_nodup : NoDup remaining;
  ri_done : forall i, (i < b)%nat -> ~ In i remaining -> slot_ok pos (nth i sols d0);
  ri_inj : forall i i', (i < b)%nat -> (i' < b)%nat -> ~ In i remaining -> ~ In i' remaining ->
           snd (nth i sols d0) = snd (nth i' sols d0) -> i = i';
  ri_cover : forall p, (p < pos)%nat ->
             (exists i, (i < b)%nat /\ ~ In i remaining /\ snd (nth i sols d0) = p) \/
             row_oob (nth p S0 []) lo hi = true
}.

Lemma rinv_init : rinv S0 0 (repeat d0 b) (seq 0 b).
Proof.
  constructor.
  - reflexivity.
  - apply repeat_length.
  - apply Forall_forall. intros i Hi. apply in_seq in Hi. lia.
  - apply seq_NoDup.
  - intros i Hi Hn. exfalso. apply Hn. apply in_seq. lia.
  - intros i i' Hi _ Hn. exfalso. apply Hn. apply in_seq. lia.
  - intros p Hp. lia.
Qed.

Lemma rinv_step stream pos sols remaining :
  rinv stream pos sols remaining ->
  let k := length remaining in
  (0 < k)%nat -> (k <= length stream)%nat ->
  rinv (skipn k stream) (pos + k)
       (write_slots sols remaining (combine (firstn k stream) (seq pos k)))
       (still_oob lo hi remaining (firstn k stream)).
Proof.
  intros [Hst Hlen Hrem Hnd Hdone Hinj Hcov] k Hk0 Hk.
  set (cand := firstn k stream).
  set (cands := combine cand (seq pos k)).
  assert (Hcl : length cand = k) by (unfold cand; rewrite firstn_length; lia).
  assert (Hcsl : length cands = k) by (unfold cands; rewrite combine_length, Hcl, seq_length; lia).
  assert (HS0 : (pos + k <= length S0)%nat).
  { rewrite Hst in Hk. rewrite skipn_length in Hk. unfold matrix, row in *. lia. }
  assert (Hcj : forall j, (j < k)%nat ->
            nth j cands d0 = (nth (pos + j) S0 [], (pos + j)%nat) /\
            nth j cand [] = nth (pos + j) S0 []).
  { intros j Hj. assert (E : nth j cand [] = nth (pos + j) S0 []).
    { unfold cand. rewrite nth_firstn by auto. rewrite Hst. apply nth_skipn. }
    split; auto. unfold cands, d0. rewrite combine_nth by (rewrite seq_length; exact Hcl).
    f_equal; [exact E | apply seq_nth; auto]. }
  (* what a slot holds after the round *)
  assert (Hnew : forall j, (j < k)%nat ->
            nth (nth j remaining 0%nat) (write_slots sols remaining cands) d0 =
            (nth (pos + j) S0 [], (pos + j)%nat)).
  { intros j Hj. unfold d0. rewrite (write_slots_same remaining cands sols j); auto; try lia.
    - apply Hcj; auto.
    - rewrite Hlen. rewrite Forall_forall in Hrem. apply Hrem. apply nth_In. auto. }
  assert (Hold : forall i, ~ In i remaining ->
            nth i (write_slots sols remaining cands) d0 = nth i sols d0).
  { intros i Hi. apply write_slots_other; auto. }
  assert (Hinb : forall j, (j < k)%nat ->
            ~ In (nth j remaining 0%nat) (still_oob lo hi remaining cand) ->
            row_oob (nth (pos + j) S0 []) lo hi = false).
  { intros j Hj Hn. destruct (row_oob (nth (pos + j) S0 []) lo hi) eqn:E; auto.
    exfalso. apply Hn. pose proof (proj2 (Hcj j Hj)) as E2. unfold matrix, row in *.
    apply still_oob_intro; [exact Hj | rewrite Hcl; exact Hj | rewrite E2; auto]. }
  constructor.
  - rewrite Hst. apply skipn_skipn'.
  - rewrite write_slots_length. auto.
  - apply Forall_forall. intros i Hi. apply still_oob_sub in Hi.
    rewrite Forall_forall in Hrem. auto.
  - apply still_oob_NoDup; auto.
  - intros i Hi Hn. destruct (in_dec Nat.eq_dec i remaining) as [Hin|Hnin].
    + destruct (In_nth _ _ 0%nat Hin) as [j [Hj <-]]. fold k in Hj.
      fold cands. rewrite Hnew by auto. unfold slot_ok; simpl. repeat split; try lia.
      * apply nth_error_nth'. lia.
      * apply Hinb; auto.
    + fold cands. rewrite Hold by auto. destruct (Hdone i Hi Hnin) as [H1 [H2 H3]].
      repeat split; auto. lia.
  - intros i i' Hi Hi' Hn Hn' Heq. fold cands in Heq.
    destruct (in_dec Nat.eq_dec i remaining) as [Hin|Hnin];
      destruct (in_dec Nat.eq_dec i' remaining) as [Hin'|Hnin'].
    + destruct (In_nth _ _ 0%nat Hin) as [j [Hj Ej]]. destruct (In_nth _ _ 0%nat Hin') as [j' [Hj' Ej']].
      fold k in Hj, Hj'. rewrite <- Ej, <- Ej' in Heq. rewrite !Hnew in Heq by auto. simpl in Heq.
      assert (j = j') by lia. subst. congruence.
    + destruct (In_nth _ _ 0%nat Hin) as [j [Hj Ej]]. fold k in Hj.
      rewrite <- Ej in Heq. rewrite Hnew in Heq by auto. rewrite (Hold i') in Heq by auto. simpl in Heq.
      destruct (Hdone i' Hi' Hnin') as [H1 _]. lia.
    + destruct (In_nth _ _ 0%nat Hin') as [j [Hj Ej]]. fold k in Hj.
      rewrite <- Ej in Heq. rewrite Hnew in Heq by auto. rewrite (Hold i) in Heq by auto. simpl in Heq.
      destruct (Hdone i Hi Hnin) as [H1 _]. lia.
    + rewrite !Hold in Heq by auto. apply Hinj; auto.
  - intros p Hp. destruct (Nat.lt_ge_cases p pos) as [Hlt|Hge].
    + destruct (Hcov p Hlt) as [[i [Hi [Hn Hs]]]|Ho]; [left|right; auto].
      exists i. repeat split; auto.
      * intros Hin. apply still_oob_sub in Hin. auto.
      * fold cands. rewrite Hold by auto. auto.
    + assert (Ej : exists j, (j < k)%nat /\ p = (pos + j)%nat) by (exists (p - pos)%nat; lia).
      destruct Ej as [j [Hj ->]].
      destruct (row_oob (nth (pos + j) S0 []) lo hi) eqn:E; [right; auto|left].
      exists (nth j remaining 0%nat). repeat split.
      * rewrite Forall_forall in Hrem. apply Hrem. apply nth_In. auto.
      * intros Hin. destruct (still_oob_In _ _ _ _ _ Hin) as [j' [H1 [H2 [H3 H4]]]].
        assert (j' = j).
        { apply (proj1 (NoDup_nth remaining 0%nat) Hnd); auto. }
        subst j'. fold cand in H4. rewrite (proj2 (Hcj j Hj)) in H4. congruence.
      * fold cands. rewrite Hnew by auto. reflexivity.
Qed.

Definition rs_post (rows : matrix) (picks : list nat) (used : nat) : Prop :=
  length rows = b /\ length picks = b /\
  Forall (fun r => row_oob r lo hi = false) rows /\
  (forall i, (i < b)%nat ->
     (nth i picks 0 < used)%nat /\ nth_error S0 (nth i picks 0%nat) = Some (nth i rows [])) /\
  NoDup picks /\
  (forall p, (p < used)%nat -> In p picks \/ row_oob (nth p S0 []) lo hi = true).

Lemma map_nth' A B (f : A -> B) l da db i : (i < length l)%nat -> nth i (map f l) db = f (nth i l da).
Proof. intros H. rewrite (nth_indep _ db (f da)) by (rewrite map_length; auto). apply map_nth. Qed.

Lemma rinv_final stream pos sols :
  rinv stream pos sols [] -> rs_post (map fst sols) (map snd sols) pos.
Proof.
  intros [Hst Hlen _ _ Hdone Hinj Hcov].
  assert (Hn : forall i, ~ In i (@nil nat)) by (intros i H; exact H).
  unfold rs_post. rewrite !map_length. repeat split; auto.
  - apply Forall_forall. intros r Hr. apply in_map_iff in Hr. destruct Hr as [s [<- Hs]].
    destruct (In_nth _ _ d0 Hs) as [i [Hi <-]]. rewrite Hlen in Hi.
    apply (Hdone i Hi (Hn i)).
  - rewrite (map_nth' _ _ snd sols d0) by lia. apply (Hdone i H (Hn i)).
  - rewrite (map_nth' _ _ snd sols d0), (map_nth' _ _ fst sols d0) by lia. apply (Hdone i H (Hn i)).
  - apply (proj2 (NoDup_nth (map snd sols) 0%nat)). rewrite map_length. intros i j Hi Hj E.
    rewrite !(map_nth' _ _ snd sols d0) in E by lia. apply Hinj; auto; lia.
  - intros p Hp. destruct (Hcov p Hp) as [[i [Hi [_ Hs]]]|Ho]; [left|right; auto].
    rewrite <- Hs. rewrite <- (map_nth' _ _ snd sols d0 0%nat) by lia. apply nth_In. rewrite map_length. lia.
Qed.

Lemma resample_post : forall fuel stream pos sols remaining rows picks used,
  rinv stream pos sols remaining ->
  resample fuel lo hi stream pos sols remaining = RsDone rows picks used ->
  rs_post rows picks used.
Proof.
  induction fuel as [|f IH]; intros stream pos sols remaining rows picks used Hinv H;
    destruct remaining as [|i0 rt]; simpl in H; try discriminate.
  - inversion H; subst. apply rinv_final with stream; auto.
  - inversion H; subst. apply rinv_final with stream; auto.
  - destruct (Nat.ltb (length stream) (S (length rt))) eqn:E; try discriminate.
    apply Nat.ltb_ge in E. eapply IH; [|exact H].
    apply (rinv_step stream pos sols (i0 :: rt) Hinv); simpl; auto. lia.
Qed.
End Resample.

Theorem es_ask_post fuel lo hi b stream rows picks used :
  es_ask fuel lo hi b stream = RsDone rows picks used -> rs_post lo hi stream b rows picks used.
Proof.
  unfold es_ask. destruct b as [|b].
  - intros H. inversion H; subst. unfold rs_post; simpl. repeat split; auto; try lia; try constructor.
  - intros H. eapply resample_post; [|exact H]. apply rinv_init.
Qed.

(** the form quoted in DESIGN.md: every returned row is inside the bounds, for every stream *)
Theorem resample_all_in_bounds fuel lo hi b stream rows picks used :
  length lo = length hi ->
  es_ask fuel lo hi b stream = RsDone rows picks used -> Forall (row_in_bounds lo hi) rows.
Proof.
  intros Hl H. destruct (es_ask_post _ _ _ _ _ _ _ _ H) as [_ [_ [Hf _]]].
  rewrite Forall_forall in *. intros r Hr. apply row_oob_false; auto.
Qed.


(** * _process_bounds *)
Definition entry_spec (b : bentry) (l h : ebound) : Prop :=
  match b with
  | None => l = None /\ h = None
  | Some [l'; h'] => l = l' /\ h = h'
  | Some _ => False
  end.

Lemma process_entries_spec : forall bs lo hi,
  process_entries bs = Ok (lo, hi) ->
  length lo = length bs /\ length hi = length bs /\
  forall j, (j < length bs)%nat -> entry_spec (nth j bs None) (nth j lo None) (nth j hi None).
Proof.
  induction bs as [|b t IH]; intros lo hi H; simpl in H.
  - inversion H; subst. simpl. repeat split; auto. intros j Hj. lia.
  - destruct (process_entry b) as [[l h]|e] eqn:Eb; try discriminate.
    destruct (process_entries t) as [[ls hs]|e] eqn:Et; try discriminate.
    inversion H; subst. destruct (IH ls hs eq_refl) as [H1 [H2 H3]].
    simpl. repeat split; try lia. intros j Hj. destruct j as [|j].
    + unfold process_entry in Eb. unfold entry_spec.
      destruct b as [[|x [|y [|w u]]]|]; try discriminate; inversion Eb; subst; auto.
    + apply H3. lia.
Qed.

Lemma process_bounds_spec bounds dim lo hi :
  process_bounds bounds dim = Ok (lo, hi) ->
  length lo = dim /\ length hi = dim /\
  match bounds with
  | None => forall j, nth j lo None = None /\ nth j hi None = None
  | Some bs => length bs = dim /\
               forall j, (j < dim)%nat -> entry_spec (nth j bs None) (nth j lo None) (nth j hi None)
  end.
Proof.
  unfold process_bounds. destruct bounds as [bs|].
  - destruct (Nat.eqb (length bs) dim) eqn:E; try discriminate. apply Nat.eqb_eq in E.
    intros H. destruct (process_entries_spec bs lo hi H) as [H1 [H2 H3]]. subst dim. repeat split; auto.
  - intros H. inversion H; subst. rewrite !repeat_length. repeat split; auto;
      (destruct (Nat.lt_ge_cases j dim) as [Hj|Hj];
       [apply nth_repeat | apply nth_overflow; rewrite repeat_length; auto]).
Qed.

Lemma process_entries_err : forall bs e,
  process_entries bs = Err e ->
  e = ValueError /\ exists j l, nth_error bs j = Some (Some l) /\ length l <> 2%nat.
Proof.
  induction bs as [|b t IH]; intros e H; simpl in H; try discriminate.
  destruct (process_entry b) as [[l h]|e'] eqn:Eb.
  - destruct (process_entries t) as [[ls hs]|e''] eqn:Et; try discriminate.
    inversion H; subst. destruct (IH e eq_refl) as [He [j [l' [Hj Hl]]]].
    split; auto. exists (S j), l'. auto.
  - inversion H; subst. unfold process_entry in Eb.
    destruct b as [[|x [|y [|w u]]]|]; try discriminate; inversion Eb; subst; split; auto;
      eexists 0%nat, _; split; simpl; try reflexivity; simpl; lia.
Qed.

Lemma process_bounds_err bounds dim e :
  process_bounds bounds dim = Err e ->
  e = ValueError /\ exists bs, bounds = Some bs /\
    (length bs <> dim \/ exists j l, nth_error bs j = Some (Some l) /\ length l <> 2%nat).
Proof.
  unfold process_bounds. destruct bounds as [bs|]; try discriminate.
  destruct (Nat.eqb (length bs) dim) eqn:E.
  - intros H. destruct (process_entries_err bs e H) as [He Hx]. split; auto. exists bs. auto.
  - intros H. inversion H; subst. apply Nat.eqb_neq in E. split; auto. exists bs. auto.
Qed.

(** * GradientArborescenceEmitter.ask : shape *)
Lemma gae_ask_shape theta jac coeffs d :
  length theta = d -> Forall (fun r => length r = d) jac ->
  has_shape (length coeffs) d (gae_ask theta jac coeffs).
Proof.
  intros Ht Hj. unfold gae_ask. split; [apply map_length|].
  apply Forall_forall. intros r Hr. apply in_map_iff in Hr. destruct Hr as [cf [<- _]].
  rewrite vadd_length, (lincomb_length d); auto; try lia.
  unfold zero_row. rewrite repeat_length. auto.
Qed.

(** * dtype: a finite statement, decided by computation *)
Lemma all_dt_complete d : In d all_dt.
Proof. destruct d; simpl; auto. Qed.
Lemma all_akind_complete k : In k all_akind.
Proof.
  destruct k as [[|]|[|]|[|] [|]|[| | | |]|[|] [|]|[|] [|]| |[| | | |]]; vm_compute; tauto.
Qed.

Definition dtype_table_ok (fixed : bool) : bool :=
  forallb (fun k => forallb (fun sd => forallb (fun md => forallb (fun jd =>
    dt_eqb (out_dtype fixed k sd md jd) sd) all_dt) all_dt) all_dt) all_akind.

Lemma dt_eqb_eq a b : dt_eqb a b = true -> a = b.
Proof. destruct a, b; simpl; congruence. Qed.

Theorem out_dtype_intended k sd md jd : out_dtype true k sd md jd = sd.
Proof.
  assert (H : dtype_table_ok true = true) by (vm_compute; reflexivity).
  unfold dtype_table_ok in H. rewrite forallb_forall in H.
  specialize (H k (all_akind_complete k)). rewrite forallb_forall in H.
  specialize (H sd (all_dt_complete sd)). rewrite forallb_forall in H.
  specialize (H md (all_dt_complete md)). rewrite forallb_forall in H.
  specialize (H jd (all_dt_complete jd)). apply dt_eqb_eq. exact H.
Qed.

(** the unchanged code (bounds in the measures dtype, no cast of DQD outputs): finding F12 *)
Theorem out_dtype_asis_refuted : exists k sd md jd, out_dtype false k sd md jd <> sd.
Proof. exists (KGaussian false), F32, F64, F64. vm_compute. discriminate. Qed.

(** and exactly where: the clipping emitters when measures are float64 and solutions float32;
    the DQD ask paths whenever the archive is float32 and the Jacobian/noise is float64 *)
Theorem out_dtype_asis_same_dtype_non_dqd k d jd :
  (match k with KGoAsk _ false | KGaeAsk _ | KGoDqd _ true => False | _ => True end) ->
  out_dtype false k d d jd = d.
Proof.
  destruct k as [[|]|[|]|[|] [|]|[| | | |]|[|] [|]|[|] [|]| |[| | | |]]; destruct d, jd; simpl;
    intros H; try contradiction; reflexivity.
Qed.
