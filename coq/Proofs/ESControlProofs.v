(** Lemmas about Model/ESControl.v (C10). *)
From Coq Require Import List ZArith Bool Arith Lia.
From PV Require Import Base.ListUtil Model.Store Model.ESControl Spec.ESControlSpec.
Import ListNotations.

(** * counting *)
Lemma count_new_acc : forall l a,
  fold_left (fun acc z => if (z =? 0)%Z then acc else S acc) l a = a + inserted l.
Proof.
  induction l as [|z t IH]; intros a; unfold inserted in *; simpl; [lia|].
  rewrite IH. destruct (z =? 0)%Z; simpl; lia.
Qed.

Lemma count_new_inserted : forall l, count_new l = inserted l.
Proof. intros l. unfold count_new. rewrite count_new_acc. lia. Qed.

Lemma inserted_zero_iff : forall l, inserted l = 0 <-> Forall (fun z => z = 0%Z) l.
Proof.
  induction l as [|z t IH]; unfold inserted in *; simpl.
  - split; auto.
  - destruct (Z.eqb_spec z 0) as [->|Hz]; simpl.
    + rewrite IH. split; intros H; [constructor; auto | inversion H; auto].
    + split; [lia|]. intros H; inversion H; contradiction.
Qed.

Lemma num_parents_spec : forall c sts, num_parents c (count_new sts) = parents_spec c sts.
Proof. intros c sts. unfold num_parents, parents_spec. rewrite count_new_inserted. reflexivity. Qed.

Lemma check_restart_spec : forall r t sts,
  check_restart r t (count_new sts) = true <-> rule_fires r t sts.
Proof.
  intros [| |n] t sts; simpl.
  - split; [discriminate | contradiction].
  - rewrite Nat.eqb_eq, count_new_inserted. apply inserted_zero_iff.
  - apply Z.eqb_eq.
Qed.

Section Proofs.
Variables P V : Type.
Implicit Types (c : cfg) (e : env P V) (s : state P) (h : list (env P V)).

(** the optimiser's [check_stop] answer during this tell *)
Definition stop_answer e (rows : list P) (sts : list Z) : bool :=
  e_stop e (take_rows (snd (e_rank e rows sts)) (fst (e_rank e rows sts))).

Definition fires c e s (rows : list P) (sts : list Z) : Prop :=
  stop_answer e rows sts = true \/ rule_fires (c_rule c) (S (itrs s)) sts.

(** the three calls every tell makes *)
Definition base_log c e (rows : list P) (sts : list Z) : list (action P V) :=
  [ARank rows sts;
   AOptTell (fst (e_rank e rows sts)) (snd (e_rank e rows sts)) (parents_spec c sts);
   ACheckStop (take_rows (snd (e_rank e rows sts)) (fst (e_rank e rows sts)))].

Lemma fires_dec : forall c e s rows sts,
  (stop_answer e rows sts || check_restart (c_rule c) (S (itrs s)) (count_new sts) = true) <-> fires c e s rows sts.
Proof.
  intros. unfold fires. rewrite orb_true_iff, check_restart_spec. reflexivity.
Qed.

Lemma tell_restart : forall c e s rows sts x,
  fires c e s rows sts -> sample_elite e = Some x ->
  tell c e s rows sts =
    (base_log c e rows sts ++ ASample 1 :: restart_actions c x,
     mkState (S (itrs s)) (S (restarts s)) (Some x) (S (ranker_epoch s)), Ok tt).
Proof.
  intros c e s rows sts x Hf Hx. apply fires_dec in Hf. unfold stop_answer in Hf.
  unfold tell, base_log. rewrite <- num_parents_spec.
  destruct (e_rank e rows sts) as [idx vals] eqn:Er. simpl in *.
  rewrite Hf, Hx. reflexivity.
Qed.

Lemma tell_restart_empty : forall c e s rows sts,
  fires c e s rows sts -> sample_elite e = None ->
  tell c e s rows sts =
    (base_log c e rows sts ++ [ASample 1],
     mkState (S (itrs s)) (restarts s) (center s) (ranker_epoch s), Err IndexError).
Proof.
  intros c e s rows sts Hf Hx. apply fires_dec in Hf. unfold stop_answer in Hf.
  unfold tell, base_log. rewrite <- num_parents_spec.
  destruct (e_rank e rows sts) as [idx vals] eqn:Er. simpl in *.
  rewrite Hf, Hx. reflexivity.
Qed.

Lemma tell_no_restart : forall c e s rows sts,
  ~ fires c e s rows sts ->
  tell c e s rows sts =
    (base_log c e rows sts,
     mkState (S (itrs s)) (restarts s) (center s) (ranker_epoch s), Ok tt).
Proof.
  intros c e s rows sts Hf. rewrite <- fires_dec in Hf. unfold stop_answer in Hf.
  unfold tell, base_log. rewrite <- num_parents_spec.
  destruct (e_rank e rows sts) as [idx vals] eqn:Er. simpl in *.
  destruct (e_stop e (take_rows vals idx) || check_restart (c_rule c) (S (itrs s)) (count_new sts)) eqn:E;
    [exfalso; apply Hf; reflexivity | reflexivity].
Qed.

Lemma fires_decidable : forall c e s rows sts, fires c e s rows sts \/ ~ fires c e s rows sts.
Proof.
  intros. rewrite <- fires_dec.
  destruct (stop_answer e rows sts || check_restart (c_rule c) (S (itrs s)) (count_new sts)); auto.
Qed.

Lemma sample_elite_In : forall e x, sample_elite e = Some x -> In x (e_archive e).
Proof.
  intros e x H. unfold sample_elite in H. destruct (e_archive e) eqn:E; [discriminate|].
  eapply nth_error_In; eauto.
Qed.

Lemma restart_actions_reset : forall c (x : P), forallb (@is_reset P V) (restart_actions c x) = true.
Proof. intros c x. unfold restart_actions. destruct (c_kind c); reflexivity. Qed.

Lemma restart_actions_not_sample : forall c (x : P), existsb (@is_sample P V) (restart_actions c x) = false.
Proof. intros c x. unfold restart_actions. destruct (c_kind c); reflexivity. Qed.

(** ** single tell *)
Lemma tell_itrs : forall c e s rows sts, itrs (snd (fst (tell c e s rows sts))) = S (itrs s).
Proof.
  intros. destruct (fires_decidable c e s rows sts) as [Hf|Hf].
  - destruct (sample_elite e) eqn:Ex.
    + rewrite (tell_restart _ _ _ _ _ _ Hf Ex). reflexivity.
    + rewrite (tell_restart_empty _ _ _ _ _ Hf Ex). reflexivity.
  - rewrite (tell_no_restart _ _ _ _ _ Hf). reflexivity.
Qed.

Lemma tell_log_prefix : forall c e s rows sts,
  exists tail, fst (fst (tell c e s rows sts)) = base_log c e rows sts ++ tail
               /\ forallb (@is_reset P V) tail = true.
Proof.
  intros. destruct (fires_decidable c e s rows sts) as [Hf|Hf].
  - destruct (sample_elite e) eqn:Ex.
    + rewrite (tell_restart _ _ _ _ _ _ Hf Ex). eexists; split; [reflexivity|].
      simpl. apply restart_actions_reset.
    + rewrite (tell_restart_empty _ _ _ _ _ Hf Ex). eexists; split; reflexivity.
  - rewrite (tell_no_restart _ _ _ _ _ Hf). exists []. rewrite app_nil_r. split; reflexivity.
Qed.

Lemma tell_parents : forall c e s rows sts idx vals np,
  In (AOptTell idx vals np) (fst (fst (tell c e s rows sts))) -> np = parents_spec c sts.
Proof.
  intros c e s rows sts idx vals np Hin.
  destruct (tell_log_prefix c e s rows sts) as [tail [Heq Hr]]. rewrite Heq in Hin.
  apply in_app_or in Hin. destruct Hin as [Hin|Hin].
  - simpl in Hin. destruct Hin as [H|[H|[H|[]]]]; try discriminate. inversion H; reflexivity.
  - rewrite forallb_forall in Hr. apply Hr in Hin. discriminate.
Qed.

(** the calls that are not part of a restart are exactly: one rank of exactly the rows passed in,
    one opt.tell with exactly what that rank call returned, one check_stop on the values in rank order *)
Lemma tell_passthrough : forall c e s rows sts,
  filter (fun a => negb (is_reset a)) (fst (fst (tell c e s rows sts))) = base_log c e rows sts.
Proof.
  intros. destruct (tell_log_prefix c e s rows sts) as [tail [-> Hr]].
  rewrite filter_app.
  assert (Ht : filter (fun a : action P V => negb (is_reset a)) tail = []).
  { clear - Hr. induction tail as [|a t IH]; simpl in *; auto.
    apply andb_true_iff in Hr. destruct Hr as [Ha Ht]. rewrite Ha. simpl. auto. }
  rewrite Ht, app_nil_r. reflexivity.
Qed.

Lemma restarted_base : forall c e rows sts, restarted (base_log c e rows sts) = false.
Proof. reflexivity. Qed.

Lemma tell_restarted_iff : forall c e s rows sts,
  restarted (fst (fst (tell c e s rows sts))) = true <-> fires c e s rows sts.
Proof.
  intros. destruct (fires_decidable c e s rows sts) as [Hf|Hf].
  - split; auto. intros _. destruct (sample_elite e) eqn:Ex.
    + rewrite (tell_restart _ _ _ _ _ _ Hf Ex). reflexivity.
    + rewrite (tell_restart_empty _ _ _ _ _ Hf Ex). reflexivity.
  - rewrite (tell_no_restart _ _ _ _ _ Hf). simpl. split; [discriminate | contradiction].
Qed.

Lemma tell_restarts_iff : forall c e s rows sts,
  sample_elite e <> None ->
  let s' := snd (fst (tell c e s rows sts)) in
  (restarts s' = S (restarts s) <-> fires c e s rows sts) /\
  (restarts s' = restarts s <-> ~ fires c e s rows sts).
Proof.
  intros c e s rows sts Hne. destruct (fires_decidable c e s rows sts) as [Hf|Hf].
  - destruct (sample_elite e) eqn:Ex; [|contradiction].
    rewrite (tell_restart _ _ _ _ _ _ Hf Ex). simpl. split; split; auto; try lia. contradiction.
  - rewrite (tell_no_restart _ _ _ _ _ Hf). simpl. split; split; auto; try lia. contradiction.
Qed.

(** ** histories *)
Definition never_stops e : Prop := forall v, e_stop e v = false.

Lemma never_stops_fires : forall c e s rows sts,
  never_stops e -> (fires c e s rows sts <-> rule_fires (c_rule c) (S (itrs s)) sts).
Proof.
  intros c e s rows sts Hn. unfold fires, stop_answer. rewrite Hn.
  split; [intros [H|H]; [discriminate | exact H] | auto].
Qed.

Lemma run_cons : forall c s e h,
  run c s (e :: h) =
    (fst (fst (round c e s)) :: fst (run c (snd (fst (round c e s))) h),
     snd (run c (snd (fst (round c e s))) h)).
Proof.
  intros. simpl. destruct (round c e s) as [[log s1] r]. simpl.
  destruct (run c s1 h) as [logs s2]. reflexivity.
Qed.

Lemma run_length : forall c h s, length (fst (run c s h)) = length h.
Proof.
  induction h as [|e t IH]; intros s; [reflexivity|].
  rewrite run_cons. simpl. rewrite IH. reflexivity.
Qed.

Lemma run_itrs : forall c h s, itrs (snd (run c s h)) = itrs s + length h.
Proof.
  induction h as [|e t IH]; intros s; [simpl; lia|].
  rewrite run_cons. simpl. rewrite IH. unfold round. rewrite tell_itrs. lia.
Qed.

(** position-wise characterisation of restarts when the optimiser never reports convergence *)
Lemma run_restarted_at : forall c h s t e log,
  Forall never_stops h ->
  nth_error h t = Some e -> nth_error (fst (run c s h)) t = Some log ->
  (restarted log = true <-> rule_fires (c_rule c) (itrs s + S t) (e_status e)).
Proof.
  induction h as [|e0 h IH]; intros s t e log Hn He Hl; [destruct t; discriminate|].
  rewrite run_cons in Hl. inversion Hn as [|? ? Hn0 Hn']; subst.
  destruct t as [|t]; simpl in He, Hl.
  - inversion He; inversion Hl; subst. unfold round.
    rewrite tell_restarted_iff, never_stops_fires by assumption.
    replace (itrs s + 1) with (S (itrs s)) by lia. reflexivity.
  - rewrite (IH _ _ _ _ Hn' He Hl). unfold round. rewrite tell_itrs.
    replace (S (itrs s) + S t) with (itrs s + S (S t)) by lia. reflexivity.
Qed.

Fixpoint count_true (l : list bool) : nat :=
  match l with [] => 0 | true :: t => S (count_true t) | false :: t => count_true t end.

Lemma run_restart_count : forall c h s,
  Forall (fun e => sample_elite e <> None) h ->
  restarts (snd (run c s h)) = restarts s + count_true (map (@restarted P V) (fst (run c s h))).
Proof.
  induction h as [|e h IH]; intros s Hs; [simpl; lia|].
  inversion Hs as [|? ? He Hs']; subst.
  rewrite run_cons. simpl. rewrite (IH _ Hs'). unfold round.
  destruct (fires_decidable c e s (ask e) (e_status e)) as [Hf|Hf].
  - destruct (sample_elite e) eqn:Ex; [|contradiction].
    rewrite (tell_restart _ _ _ _ _ _ Hf Ex). simpl.
    replace (restarted (base_log c e (ask e) (e_status e) ++ ASample 1 :: restart_actions c p)) with true; [lia|].
    reflexivity.
  - rewrite (tell_no_restart _ _ _ _ _ Hf). simpl. lia.
Qed.

(** rule "basic", optimiser never converged: nothing is ever reset *)
Lemma run_basic_never : forall c h s,
  c_rule c = Basic -> Forall never_stops h ->
  let r := run c s h in
  restarts (snd r) = restarts s /\ center (snd r) = center s /\ ranker_epoch (snd r) = ranker_epoch s /\
  Forall (fun log => forall a, In a log -> is_reset a = false) (fst r).
Proof.
  induction h as [|e h IH]; intros s Hb Hn; [simpl; auto|].
  inversion Hn as [|? ? Hn0 Hn']; subst.
  rewrite run_cons. simpl.
  assert (Hf : ~ fires c e s (ask e) (e_status e)).
  { rewrite never_stops_fires by assumption. rewrite Hb. simpl. auto. }
  unfold round. rewrite (tell_no_restart _ _ _ _ _ Hf). simpl.
  destruct (IH (mkState (S (itrs s)) (restarts s) (center s) (ranker_epoch s)) Hb Hn') as [H1 [H2 [H3 H4]]].
  simpl in *. repeat split; auto. constructor; auto.
  intros a [<-|[<-|[<-|[]]]]; reflexivity.
Qed.

End Proofs.

Arguments fires {P V} c e s rows sts.
Arguments never_stops {P V} e.
Arguments stop_answer {P V} e rows sts.
Arguments base_log {P V} c e rows sts.

(** * every-N arithmetic *)
Lemma mod_abs_zero : forall a N, (N <> 0 -> (a mod N = 0 <-> a mod Z.abs N = 0))%Z.
Proof.
  intros a N HN. rewrite !Z.mod_divide by lia. symmetry. apply Z.divide_abs_l.
Qed.

Lemma div_succ : forall a n, (0 <= a -> 0 < n ->
  (a + 1) / n = a / n + (if (a + 1) mod n =? 0 then 1 else 0))%Z.
Proof.
  intros a n Ha Hn.
  pose proof (Z.div_mod a n ltac:(lia)) as Hdm.
  pose proof (Z.mod_pos_bound a n Hn) as Hb.
  destruct (Z.eq_dec (a mod n + 1) n) as [E|E].
  - assert (Hq : ((a + 1) / n = a / n + 1)%Z).
    { symmetry. apply (Z.div_unique (a + 1) n (a / n + 1) 0); lia. }
    assert (Hr : ((a + 1) mod n = 0)%Z).
    { symmetry. apply (Z.mod_unique (a + 1) n (a / n + 1) 0); lia. }
    rewrite Hq, Hr. reflexivity.
  - assert (Hq : ((a + 1) / n = a / n)%Z).
    { symmetry. apply (Z.div_unique (a + 1) n (a / n) (a mod n + 1)); lia. }
    assert (Hr : ((a + 1) mod n = a mod n + 1)%Z).
    { symmetry. apply (Z.mod_unique (a + 1) n (a / n) (a mod n + 1)); lia. }
    rewrite Hq, Hr. destruct (Z.eqb_spec (a mod n + 1) 0); lia.
Qed.

(** number of multiples of N among 1..T *)
Lemma count_multiples : forall N T, (N <> 0)%Z ->
  length (filter (fun k => (Z.of_nat k mod N =? 0)%Z) (seq 1 T)) = Z.to_nat (Z.of_nat T / Z.abs N).
Proof.
  intros N T HN. induction T as [|T IH]; [reflexivity|].
  rewrite seq_S, filter_app, app_length, IH. change (1 + T) with (S T).
  assert (Hf : filter (fun k => (Z.of_nat k mod N =? 0)%Z) [S T]
               = if ((Z.of_nat T + 1) mod N =? 0)%Z then [S T] else []).
  { cbn [filter]. replace (Z.of_nat (S T)) with (Z.of_nat T + 1)%Z by lia. reflexivity. }
  rewrite Hf. clear Hf.
  replace (Z.of_nat (S T)) with (Z.of_nat T + 1)%Z by lia.
  rewrite (div_succ (Z.of_nat T) (Z.abs N)) by lia.
  assert (Hq : (0 <= Z.of_nat T / Z.abs N)%Z) by (apply Z.div_pos; lia).
  destruct (Z.eqb_spec ((Z.of_nat T + 1) mod N) 0) as [E|E];
    destruct (Z.eqb_spec ((Z.of_nat T + 1) mod Z.abs N) 0) as [E'|E'].
  - rewrite Z2Nat.inj_add by lia. reflexivity.
  - apply (mod_abs_zero _ _ HN) in E. contradiction.
  - apply (mod_abs_zero _ _ HN) in E'. contradiction.
  - rewrite Z.add_0_r. cbn [length]. lia.
Qed.

Section EveryN.
Variables P V : Type.

Lemma restarted_flags_everyN : forall (c : cfg) N (h : list (env P V)) s,
  c_rule c = EveryN N -> Forall (@never_stops P V) h ->
  map (@restarted P V) (fst (run c s h)) =
  map (fun k => (Z.of_nat k mod N =? 0)%Z) (seq (S (itrs s)) (length h)).
Proof.
  intros c N h. induction h as [|e h IH]; intros s Hc Hn; [reflexivity|].
  inversion Hn as [|? ? Hn0 Hn']; subst.
  rewrite run_cons. cbn [fst snd map length seq]. f_equal.
  - unfold round.
    destruct (restarted (fst (fst (tell c e s (ask e) (e_status e))))) eqn:E.
    + apply tell_restarted_iff in E. rewrite never_stops_fires in E by assumption.
      rewrite Hc in E. cbn [rule_fires] in E. symmetry. apply Z.eqb_eq. exact E.
    + symmetry. apply Z.eqb_neq. intros Hm.
      assert (Hf : fires c e s (ask e) (e_status e)).
      { apply never_stops_fires; auto. rewrite Hc. exact Hm. }
      apply tell_restarted_iff in Hf. congruence.
  - rewrite (IH _ Hc Hn'). unfold round. rewrite tell_itrs. reflexivity.
Qed.

Lemma count_true_filter : forall (A : Type) (f : A -> bool) l,
  count_true (map f l) = length (filter f l).
Proof. induction l as [|a t IH]; simpl; auto. destruct (f a); simpl; auto. Qed.

Lemma everyN_restart_count : forall (c : cfg) N (h : list (env P V)),
  c_rule c = EveryN N -> (N <> 0)%Z -> Forall (@never_stops P V) h ->
  Forall (fun e => sample_elite e <> None) h ->
  restarts (snd (run c init_state h)) = Z.to_nat (Z.of_nat (length h) / Z.abs N).
Proof.
  intros c N h Hc HN Hn Hs.
  rewrite (@run_restart_count P V c h init_state Hs), (@restarted_flags_everyN c N h init_state Hc Hn). cbn [restarts itrs init_state].
  rewrite count_true_filter. apply count_multiples; auto.
Qed.

Lemma everyN_positions : forall (c : cfg) N (h : list (env P V)) t e log,
  c_rule c = EveryN N -> (N <> 0)%Z -> Forall (@never_stops P V) h ->
  nth_error h t = Some e -> nth_error (fst (run c init_state h)) t = Some log ->
  (restarted log = true <-> (N | Z.of_nat (S t))%Z).
Proof.
  intros c N h t e log Hc HN Hn He Hl.
  rewrite (@run_restarted_at P V c h init_state t e log Hn He Hl), Hc.
  cbn [rule_fires itrs init_state Nat.add]. apply Z.mod_divide; auto.
Qed.

Lemma no_improvement_positions : forall (c : cfg) (h : list (env P V)) s t e log,
  c_rule c = NoImprovement -> Forall (@never_stops P V) h ->
  nth_error h t = Some e -> nth_error (fst (run c s h)) t = Some log ->
  (restarted log = true <-> Forall (fun z => z = 0%Z) (e_status e)).
Proof.
  intros c h s t e log Hc Hn He Hl.
  rewrite (@run_restarted_at P V c h s t e log Hn He Hl), Hc. reflexivity.
Qed.

End EveryN.
