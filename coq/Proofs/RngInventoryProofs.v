(** What the verdict of the static inventory (Model/RngSite2.v) means in the stream-ownership model:
    an inventory on which [all_entries_seeded] evaluates to [true] meets the hypothesis [py_ok] of the
    frame / interleaving / checkpoint theorems of Proofs/RngProofs.v for EVERY history whose pyribs
    calls execute entries of that inventory only; an inventory on which it evaluates to [false]
    contains an entry whose execution consumes a process-wide source. *)
From Coq Require Import List ZArith Bool Arith Lia String.
From PV Require Import Base.ListUtil Model.Rng Model.RngSite Model.RngSite2 Proofs.RngProofs.
Import ListNotations.
Open Scope Z_scope.

Lemma use_seeded_resolve u g : use_seeded u = true -> resolve_entry (EUse u) g = Own g.
Proof. simpl. intros H. now rewrite H. Qed.

Lemma entry_seeded_resolve e g : entry_seeded e = true -> resolve_entry e g = Own g.
Proof.
  destruct e as [s|u]; simpl; intros H.
  - exact (site_seeded_resolve s g H).
  - now rewrite H.
Qed.

Lemma all_entries_seeded_In l e : all_entries_seeded l = true -> In e l -> entry_seeded e = true.
Proof. unfold all_entries_seeded. intros H Hin. rewrite forallb_forall in H. exact (H e Hin). Qed.

Lemma seeded_entries_owned us :
  (forall u, In u us -> entry_seeded (fst (fst u)) = true) -> owned_only (entry_prog us) = true.
Proof.
  induction us as [|u us IH]; intros H; [reflexivity|].
  unfold owned_only, entry_prog in *. cbn [map forallb]. rewrite IH.
  - destruct u as [[e g] n]. rewrite (entry_seeded_resolve e g (H _ (or_introl eq_refl))). reflexivity.
  - intros u' Hin. apply H. now right.
Qed.

Lemma inventory_prog_owned inv us :
  all_entries_seeded inv = true -> (forall u, In u us -> In (fst (fst u)) inv) ->
  owned_only (entry_prog us) = true.
Proof.
  intros Hall Hin. apply seeded_entries_owned. intros u Hu.
  exact (all_entries_seeded_In inv _ Hall (Hin u Hu)).
Qed.

(** the verdict discharges the ownership hypothesis of the frame theorems, for every history over the inventory *)
Lemma inventory_py_ok inv h :
  all_entries_seeded inv = true -> Forall (eop_within inv) h -> py_ok (map compile_eop h) = true.
Proof.
  intros Hall Hw. induction Hw as [|o h Ho Hw IH]; [reflexivity|].
  unfold py_ok in *. cbn [map forallb]. rewrite IH, andb_true_r.
  destruct o as [us|g n|g sid|gl]; cbn [compile_eop]; try reflexivity.
  exact (inventory_prog_owned inv us Hall Ho).
Qed.

Lemma compile_eop_is_py o : is_py (compile_eop o) = eop_is_py o.
Proof. destruct o; reflexivity. Qed.

Section Hist.
Variable bits : seedid -> Z -> Z.

Lemma inventory_frame inv h w1 w2 :
  all_entries_seeded inv = true -> Forall (eop_within inv) h -> own w1 = own w2 ->
  py_outs (fst (run bits (map compile_eop h) w1)) = py_outs (fst (run bits (map compile_eop h) w2)) /\
  own (snd (run bits (map compile_eop h) w1)) = own (snd (run bits (map compile_eop h) w2)).
Proof. intros Hall Hw Ho. exact (run_frame bits _ w1 w2 (inventory_py_ok inv h Hall Hw) Ho). Qed.

Lemma inventory_interleave inv h w w' :
  all_entries_seeded inv = true -> Forall (eop_within inv) h -> own w = own w' ->
  py_outs (fst (run bits (map compile_eop h) w)) = py_outs (fst (run bits (drop_foreign (map compile_eop h)) w')) /\
  own (snd (run bits (map compile_eop h) w)) = own (snd (run bits (drop_foreign (map compile_eop h)) w')).
Proof. intros Hall Hw Ho. exact (run_interleave bits _ w w' (inventory_py_ok inv h Hall Hw) Ho). Qed.

Lemma inventory_globals_undisturbed inv h w :
  all_entries_seeded inv = true -> Forall (eop_within inv) h ->
  glob (snd (run bits (map compile_eop h) w)) = glob (snd (run bits (only_foreign (map compile_eop h)) w)).
Proof. intros Hall Hw. exact (run_globals bits _ w w (inventory_py_ok inv h Hall Hw) eq_refl). Qed.

Lemma forallb_map_is_py h : forallb eop_is_py h = true -> forallb is_py (map compile_eop h) = true.
Proof.
  induction h as [|o h IH]; simpl; intros H; [reflexivity|].
  apply andb_true_iff in H. destruct H as [A B]. now rewrite compile_eop_is_py, A, (IH B).
Qed.

Lemma inventory_globals_untouched inv h w :
  all_entries_seeded inv = true -> Forall (eop_within inv) h -> forallb eop_is_py h = true ->
  glob (snd (run bits (map compile_eop h) w)) = glob w.
Proof.
  intros Hall Hw Hpy.
  exact (run_globals_untouched bits _ w (inventory_py_ok inv h Hall Hw) (forallb_map_is_py h Hpy)).
Qed.

Lemma inventory_checkpoint inv h1 h2 w gl :
  all_entries_seeded inv = true -> Forall (eop_within inv) (h1 ++ h2) ->
  let w1 := snd (run bits (map compile_eop h1) w) in
  let r := run bits (map compile_eop h2) (restore (save w1) gl) in
  py_outs (fst (run bits (map compile_eop (h1 ++ h2)) w)) =
    py_outs (fst (run bits (map compile_eop h1) w)) ++ py_outs (fst r) /\
  own (snd (run bits (map compile_eop (h1 ++ h2)) w)) = own (snd r).
Proof.
  intros Hall Hw. pose proof (inventory_py_ok inv _ Hall Hw) as Hok. rewrite map_app in *.
  exact (run_checkpoint bits _ _ w gl Hok).
Qed.

(** an entry that is not seeded is not harmless: executing it consumes one of the process-wide sources *)
Lemma unseeded_entry_disturbs e g n w :
  entry_seeded e = false -> 0 < n -> glob (snd (draw bits w (resolve_entry e g) n)) <> glob w.
Proof.
  destruct e as [s|u]; intros He Hn.
  - exact (unseeded_site_disturbs bits s g n w He Hn).
  - simpl in He. simpl. rewrite He. simpl. intros E.
    apply (f_equal os_entropy) in E. simpl in E. apply (f_equal g_pos) in E. simpl in E. lia.
Qed.

End Hist.

(** a negative verdict exhibits an offending entry *)
Lemma unseeded_entries_spec l e :
  In e (unseeded_entries l) <-> In e l /\ entry_seeded e = false.
Proof.
  unfold unseeded_entries. rewrite filter_In. split; intros [A B]; split; auto.
  - now apply negb_true_iff in B.
  - now apply negb_true_iff.
Qed.

Lemma verdict_false_witness l :
  all_entries_seeded l = false -> exists e, In e l /\ entry_seeded e = false.
Proof.
  induction l as [|e l IH]; simpl; intros H; [discriminate|].
  destruct (entry_seeded e) eqn:E.
  - simpl in H. destruct (IH H) as [e' [A B]]. exists e'. auto.
  - exists e. auto.
Qed.

Lemma verdict_true_iff_none l : all_entries_seeded l = true <-> unseeded_entries l = [].
Proof.
  induction l as [|e l IH]; simpl; [tauto|].
  unfold unseeded_entries in *. simpl. destruct (entry_seeded e); simpl.
  - exact IH.
  - split; discriminate.
Qed.
