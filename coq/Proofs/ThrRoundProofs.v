(** C05 in rounded arithmetic: what holds for every monotone rounding (Model/ThrRound.v). *)
From Coq Require Import Reals Lra.
From Flocq Require Import Core.
From PV Require Import Model.ThrRound Proofs.GridRoundProofs.
Open Scope R_scope.

Section Generic.
Variables rs rm ra : R -> R.
Hypothesis Hs : mono rs.
Hypothesis Hm : mono rm.
Hypothesis Ha : mono ra.
Hypothesis Hs0 : rs 0 = 0.
Hypothesis Hs1 : rs 1 = 1.
Hypothesis Hm0 : rm 0 = 0.

Notation thr := (single_r rs rm ra).

(** representable numbers are fixed points of the roundings *)
Definition fixed (x : R) : Prop := rm x = x /\ ra x = x.

(** a = 0: the threshold does not move, exactly *)
Theorem single_a0 t f : fixed t -> thr t 0 f = t.
Proof.
  intros [Hmt Hat]. unfold single_r.
  replace (1 - 0) with 1 by ring. rewrite Hs1.
  replace (t * 1) with t by ring. replace (f * 0) with 0 by ring.
  rewrite Hmt, Hm0. replace (t + 0) with t by ring. exact Hat.
Qed.

(** a = 1: the new threshold is exactly the objective *)
Theorem single_a1 t f : fixed f -> thr t 1 f = f.
Proof.
  intros [Hmf Haf]. unfold single_r.
  replace (1 - 1) with 0 by ring. rewrite Hs0.
  replace (t * 0) with 0 by ring. replace (f * 1) with f by ring.
  rewrite Hmf, Hm0. replace (0 + f) with f by ring. exact Haf.
Qed.

Lemma rs_nonneg a : a <= 1 -> 0 <= rs (1 - a).
Proof. intros H. rewrite <- Hs0. apply Hs. lra. Qed.

(** monotone in the objective and in the previous threshold, for every learning rate in [0, 1] *)
Theorem single_mono_f t a f1 f2 : 0 <= a -> f1 <= f2 -> thr t a f1 <= thr t a f2.
Proof.
  intros H0 H. unfold single_r. apply Ha. apply Rplus_le_compat_l. apply Hm.
  apply Rmult_le_compat_r; assumption.
Qed.

Theorem single_mono_t t1 t2 a f : a <= 1 -> t1 <= t2 -> thr t1 a f <= thr t2 a f.
Proof.
  intros H1 H. unfold single_r. apply Ha. apply Rplus_le_compat_r. apply Hm.
  apply Rmult_le_compat_r; [apply rs_nonneg; exact H1 | exact H].
Qed.

(** an equal candidate leaves the threshold where the rounded convex combination of t with itself puts it, and a better
    candidate can only raise that: thr t a f >= thr t a t whenever f >= t (the exact identity thr t a t = t is what rounding
    breaks, see Properties/C05Float.v) *)
Corollary single_ge_self t a f : 0 <= a -> t <= f -> thr t a t <= thr t a f.
Proof. intros H0 H. apply single_mono_f; assumption. Qed.
End Generic.

(** Flocq: every format and rounding direction qualifies *)
Section FlocqAny.
Variable beta : radix.
Variable fexp : Z -> Z.
Context {ve : Valid_exp fexp}.
Variable rnd : R -> Z.
Context {vr : Valid_rnd rnd}.
Notation rd := (round beta fexp rnd).
Notation thrF := (single_r rd rd rd).

Lemma rd_1 : generic_format beta fexp 1 -> rd 1 = 1.
Proof. intros H. apply round_generic; assumption. Qed.

Theorem float_single_a0 t f : generic_format beta fexp 1 -> generic_format beta fexp t -> thrF t 0 f = t.
Proof.
  intros H1 Ht. apply single_a0; auto using round_0, rd_1.
  split; apply round_generic; assumption.
Qed.

Theorem float_single_a1 t f : generic_format beta fexp f -> thrF t 1 f = f.
Proof.
  intros Hf. apply single_a1; auto using round_0.
  split; apply round_generic; assumption.
Qed.

Theorem float_single_mono t1 t2 a f1 f2 : 0 <= a <= 1 -> t1 <= t2 -> f1 <= f2 -> thrF t1 a f1 <= thrF t2 a f2.
Proof.
  intros [H0 H1] Ht Hf.
  apply Rle_trans with (thrF t2 a f1).
  - apply single_mono_t; auto using round_0, (round_mono beta fexp rnd).
  - apply single_mono_f; auto using (round_mono beta fexp rnd).
Qed.
End FlocqAny.
