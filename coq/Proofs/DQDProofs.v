(** Lemmas about Model/DQD.v (C19). *)
From Coq Require Import List ZArith QArith Qabs Qminmax Bool Arith Lia Lqa.
From PV Require Import Base.ListUtil Base.QVec Model.Store Model.ESControl Spec.ESControlSpec
                       Proofs.ESControlProofs Model.DQD.
Import ListNotations.

(** * list plumbing *)
Lemma map2_nth_error : forall A B C (f : A -> B -> C) l1 l2 i a b,
  nth_error l1 i = Some a -> nth_error l2 i = Some b -> nth_error (map2 f l1 l2) i = Some (f a b).
Proof.
  induction l1 as [|x l1 IH]; intros [|y l2] [|i] a b H1 H2; simpl in *; try discriminate.
  - inversion H1; inversion H2; reflexivity.
  - eapply IH; eauto.
Qed.

Lemma combine_nth_error : forall A B (l1 : list A) (l2 : list B) i a b,
  nth_error l1 i = Some a -> nth_error l2 i = Some b -> nth_error (combine l1 l2) i = Some (a, b).
Proof.
  induction l1 as [|x l1 IH]; intros [|y l2] [|i] a b H1 H2; simpl in *; try discriminate.
  - inversion H1; inversion H2; reflexivity.
  - eapply IH; eauto.
Qed.

Lemma Forall_map2 : forall A B C (P : C -> Prop) (f : A -> B -> C) l1 l2,
  (forall a b, In a l1 -> In b l2 -> P (f a b)) -> Forall P (map2 f l1 l2).
Proof.
  induction l1 as [|x l1 IH]; intros [|y l2] H; simpl; constructor.
  - apply H; left; reflexivity.
  - apply IH. intros a b Ha Hb. apply H; right; assumption.
Qed.

Lemma Forall_take_rows : forall A (P : A -> Prop) vals idx,
  Forall P vals -> Forall P (take_rows vals idx).
Proof.
  intros A P vals idx H. unfold take_rows. apply Forall_forall. intros x Hx.
  apply in_flat_map in Hx. destruct Hx as [i [_ Hi]].
  destruct (nth_error vals i) eqn:E; simpl in Hi; [|contradiction].
  destruct Hi as [<-|[]]. rewrite Forall_forall in H. apply H. eapply nth_error_In; eauto.
Qed.

Lemma Forall_firstn' : forall A (P : A -> Prop) n l, Forall P l -> Forall P (firstn n l).
Proof.
  intros A P n l H. revert n. induction H as [|x l Hx Hl IH]; intros [|n]; simpl; constructor; auto.
Qed.

(** * normalisation *)
Lemma normalise_length_each : forall n eps norms J,
  Forall (fun g => length g = n) J -> Forall (fun g => length g = n) (normalise eps norms J).
Proof.
  intros n eps norms J H. unfold normalise. apply Forall_map2.
  intros g d Hg _. rewrite vdiv_length. rewrite Forall_forall in H. auto.
Qed.

Lemma store_jac_length_each : forall n b eps norms J,
  Forall (fun g => length g = n) J -> Forall (fun g => length g = n) (store_jac b eps norms J).
Proof. intros n [|] eps norms J H; simpl; auto using normalise_length_each. Qed.

(** effective coefficients on the *supplied* gradients *)
Definition eff_coeffs (norm : bool) (eps : Q) (norms : list Q) (cs : list Q) : list Q :=
  if norm then map2 Qdiv cs (map (fun m => m + eps)%Q norms) else cs.

Lemma lincomb_store_jac : forall n b eps norms J cs,
  length norms = length J ->
  veq (lincomb n cs (store_jac b eps norms J)) (lincomb n (eff_coeffs b eps norms cs) J).
Proof.
  intros n [|] eps norms J cs Hl; simpl; [|apply veq_refl].
  unfold normalise. apply lincomb_normalised. rewrite map_length. exact Hl.
Qed.

(** normalising never flips a direction: the factor 1/(norm + eps) is positive *)
Lemma normalised_coeff_sign : forall (c m eps : Q),
  (0 <= m -> 0 < eps -> (0 <= c <-> 0 <= c / (m + eps)) /\ (c == 0 <-> c / (m + eps) == 0))%Q.
Proof.
  intros c m eps Hm He.
  assert (Hp : (0 < m + eps)%Q) by lra.
  assert (Hi : (0 < / (m + eps))%Q) by (apply Qinv_lt_0_compat; exact Hp).
  unfold Qdiv. split; split; intros H; nra.
Qed.

(** * GradientArborescenceEmitter.ask *)
Lemma branch_span : forall n point cs g,
  length point = n -> Forall (fun v => length v = n) g ->
  veq (vsub (branch n point cs g) point) (lincomb n cs g).
Proof.
  intros n point cs g Hp Hg. unfold branch. apply vsub_vadd_cancel.
  rewrite lincomb_length; auto.
Qed.

Lemma gae_ask_span : forall c s g coeffs,
  jac s = Some g -> length (theta s) = g_n c -> Forall (fun v => length v = g_n c) g ->
  exists out, gae_ask c s coeffs = Ok out /\ length out = length coeffs /\
    forall i cs, nth_error coeffs i = Some cs ->
      exists x, nth_error out i = Some x /\ veq (vsub x (theta s)) (lincomb (g_n c) cs g).
Proof.
  intros c s g coeffs Hj Ht Hg. unfold gae_ask. rewrite Hj.
  eexists. split; [reflexivity|]. split; [apply map_length|].
  intros i cs Hi. eexists. split; [apply map_nth_error; exact Hi|].
  apply branch_span; auto.
Qed.

Lemma gae_span_supplied : forall c s J norms coeffs,
  length norms = length J -> length (theta s) = g_n c -> Forall (fun v => length v = g_n c) J ->
  exists out, gae_ask c (gae_tell_dqd c s J norms) coeffs = Ok out /\ length out = length coeffs /\
    forall i cs, nth_error coeffs i = Some cs ->
      exists x, nth_error out i = Some x /\
        veq (vsub x (theta s)) (lincomb (g_n c) (eff_coeffs (g_norm c) (g_eps c) norms cs) J).
Proof.
  intros c s J norms coeffs Hl Ht HJ.
  destruct (@gae_ask_span c (gae_tell_dqd c s J norms) (store_jac (g_norm c) (g_eps c) norms J) coeffs)
    as [out [Ho [Hlen Hrows]]]; try reflexivity; auto using store_jac_length_each.
  exists out. split; [exact Ho|]. split; [exact Hlen|].
  intros i cs Hi. destruct (Hrows i cs Hi) as [x [Hx Hv]]. exists x. split; [exact Hx|].
  eapply veq_trans; [exact Hv|]. apply lincomb_store_jac. exact Hl.
Qed.

(** * GradientOperatorEmitter.ask *)
Lemma abs_head_nonneg : forall cs, (0 <= hd 0 (abs_head cs))%Q /\ tl (abs_head cs) = tl cs.
Proof. intros [|c t]; simpl; split; auto; try lra. apply Qabs_nonneg. Qed.

Definition goe_blocked (c : goe_cfg) (archive_empty : bool) : bool :=
  match archive_empty, o_init c with true, Some _ => true | _, _ => false end.

Lemma goe_ask_unblocked : forall c s e coeffs, goe_blocked c e = false ->
  goe_ask c s e coeffs =
    match o_jac s with
    | None => Err RuntimeError
    | Some J =>
        if o_mg c then
          Ok (map2 (fun p cg => branch (o_n c) p (abs_head (fst cg)) (snd cg)) (o_parents s) (combine coeffs J))
        else Ok (map2 (fun p g => vadd p (vscale (o_sigma_g c) (hd (vzero (o_n c)) g))) (o_parents s) J)
    end.
Proof.
  intros c s e coeffs H. unfold goe_ask, goe_blocked in *.
  destruct e; destruct (o_init c); try discriminate; reflexivity.
Qed.

Lemma goe_ask_span_mg : forall c s e J coeffs,
  goe_blocked c e = false -> o_mg c = true -> o_jac s = Some J ->
  Forall (fun p => length p = o_n c) (o_parents s) ->
  Forall (fun g => Forall (fun v => length v = o_n c) g) J ->
  exists out, goe_ask c s e coeffs = Ok out /\
    forall i p cs g, nth_error (o_parents s) i = Some p -> nth_error coeffs i = Some cs ->
                     nth_error J i = Some g ->
      exists x, nth_error out i = Some x /\
        veq (vsub x p) (lincomb (o_n c) (abs_head cs) g) /\
        (0 <= hd 0 (abs_head cs))%Q /\ tl (abs_head cs) = tl cs.
Proof.
  intros c s e J coeffs Hb Hm Hj Hp HJ. rewrite (goe_ask_unblocked _ _ _ _ Hb), Hj, Hm.
  eexists. split; [reflexivity|].
  intros i p cs g Hpi Hci Hgi. eexists. split.
  - eapply map2_nth_error; [exact Hpi | eapply combine_nth_error; eauto].
  - simpl. split; [|apply abs_head_nonneg].
    apply branch_span.
    + rewrite Forall_forall in Hp. apply Hp. eapply nth_error_In; eauto.
    + rewrite Forall_forall in HJ. apply HJ. eapply nth_error_In; eauto.
Qed.

Lemma goe_ask_span_obj : forall c s e J coeffs,
  goe_blocked c e = false -> o_mg c = false -> o_jac s = Some J ->
  Forall (fun p => length p = o_n c) (o_parents s) ->
  Forall (fun g => Forall (fun v => length v = o_n c) g) J ->
  exists out, goe_ask c s e coeffs = Ok out /\
    forall i p g0 gs, nth_error (o_parents s) i = Some p -> nth_error J i = Some (g0 :: gs) ->
      exists x, nth_error out i = Some x /\ veq (vsub x p) (vscale (o_sigma_g c) g0).
Proof.
  intros c s e J coeffs Hb Hm Hj Hp HJ. rewrite (goe_ask_unblocked _ _ _ _ Hb), Hj, Hm.
  eexists. split; [reflexivity|].
  intros i p g0 gs Hpi Hgi. eexists. split.
  - eapply map2_nth_error; eauto.
  - simpl. apply vsub_vadd_cancel. rewrite vscale_length.
    rewrite Forall_forall in Hp, HJ.
    rewrite (Hp p) by (eapply nth_error_In; eauto).
    specialize (HJ _ (nth_error_In _ _ Hgi)). inversion HJ; subst. auto.
Qed.

(** * refusal *)
Lemma gae_refuses : forall c s coeffs i b,
  jac s = None -> gae_ask c s coeffs = Err RuntimeError /\ gae_tell_with b c i s = Err RuntimeError.
Proof. intros c s coeffs i b H. unfold gae_ask, gae_tell_with. rewrite H. auto. Qed.

Lemma goe_refuses : forall c s e coeffs,
  goe_blocked c e = false -> o_jac s = None -> goe_ask c s e coeffs = Err RuntimeError.
Proof. intros c s e coeffs Hb H. rewrite (goe_ask_unblocked _ _ _ _ Hb), H. reflexivity. Qed.

Lemma gae_tell_jac : forall b c i s log s', gae_tell_with b c i s = Ok (log, s') -> jac s' = jac s.
Proof.
  intros b c i s log s' H. unfold gae_tell_with in H.
  destruct (jac s) eqn:Ej; [|discriminate].
  destruct (b && (num_parents (g_ctl c) (count_new (t_status i)) =? 0)) eqn:Eb;
  destruct (t_stop i || check_restart (c_rule (g_ctl c)) (S (g_itrs s)) (count_new (t_status i))) eqn:Er;
  try destruct (pick_elite i) eqn:Ep; try discriminate; inversion H; subst; simpl; auto.
Qed.

Lemma gstep_jac_none : forall c s o, jac s = None -> is_tell_dqd o = false -> jac (gstep c s o) = None.
Proof.
  intros c s [| | |i] Hj Ho; simpl in *; auto; try discriminate.
  unfold gae_tell. destruct (gae_refuses c s [] i true Hj) as [_ ->]. exact Hj.
Qed.

Lemma gstep_jac_some : forall c s o, jac s <> None -> jac (gstep c s o) <> None.
Proof.
  intros c s [|J n|cs|i] Hj; simpl; auto; try discriminate.
  destruct (gae_tell c i s) as [[log s']|e] eqn:E; auto.
  unfold gae_tell in E. rewrite (gae_tell_jac _ _ _ _ _ _ E). exact Hj.
Qed.

Lemma fold_jac_none : forall c ops s,
  jac s = None -> forallb (fun o => negb (is_tell_dqd o)) ops = true ->
  jac (fold_left (gstep c) ops s) = None.
Proof.
  induction ops as [|o ops IH]; intros s Hj Ho; simpl in *; auto.
  apply andb_true_iff in Ho. destruct Ho as [Ho1 Ho2].
  apply IH; auto. apply gstep_jac_none; auto. destruct (is_tell_dqd o); auto; discriminate.
Qed.

Lemma fold_jac_some : forall c ops s, jac s <> None -> jac (fold_left (gstep c) ops s) <> None.
Proof.
  induction ops as [|o ops IH]; intros s Hj; simpl; auto. apply IH. apply gstep_jac_some. exact Hj.
Qed.

Lemma fold_jac_after_tell_dqd : forall c ops s,
  existsb is_tell_dqd ops = true -> jac (fold_left (gstep c) ops s) <> None.
Proof.
  induction ops as [|o ops IH]; intros s H; simpl in *; [discriminate|].
  destruct (is_tell_dqd o) eqn:E; simpl in H.
  - apply fold_jac_some. destruct o; simpl in *; discriminate.
  - apply IH. exact H.
Qed.

Lemma grun_refuses : forall c x0 ops coeffs i,
  forallb (fun o => negb (is_tell_dqd o)) ops = true ->
  gae_ask c (grun c x0 ops) coeffs = Err RuntimeError /\ gae_tell c i (grun c x0 ops) = Err RuntimeError.
Proof.
  intros c x0 ops coeffs i H. apply gae_refuses. unfold grun. apply fold_jac_none; auto.
Qed.

Lemma grun_accepts : forall c x0 ops coeffs,
  existsb is_tell_dqd ops = true -> exists out, gae_ask c (grun c x0 ops) coeffs = Ok out.
Proof.
  intros c x0 ops coeffs H. unfold gae_ask, grun.
  destruct (jac (fold_left (gstep c) ops (gae_init x0))) eqn:E.
  - eexists; reflexivity.
  - exfalso. eapply fold_jac_after_tell_dqd; eauto.
Qed.

(** * tell *)
Definition g_parents (c : gae_cfg) (i : tell_in) : nat := parents_spec (g_ctl c) (t_status i).

Definition g_selected (c : gae_cfg) (i : tell_in) : list vec :=
  firstn (g_parents c i) (take_rows (t_sols i) (t_idx i)).

(** the rank-weighted mean of the selected solutions *)
Definition g_mean (c : gae_cfg) (i : tell_in) : vec :=
  lincomb (g_n c) (t_weights i (g_parents c i)) (g_selected c i).

Definition g_fires (c : gae_cfg) (i : tell_in) (s : gae) : Prop :=
  t_stop i = true \/ rule_fires (c_rule (g_ctl c)) (S (g_itrs s)) (t_status i).

Lemma g_fires_dec : forall c i s,
  (t_stop i || check_restart (c_rule (g_ctl c)) (S (g_itrs s)) (count_new (t_status i)) = true) <-> g_fires c i s.
Proof. intros. unfold g_fires. rewrite orb_true_iff, check_restart_spec. reflexivity. Qed.

Lemma gae_tell_no_restart : forall b c i s g,
  jac s = Some g -> ~ g_fires c i s ->
  gae_tell_with b c i s =
    if b && (g_parents c i =? 0) then
      Ok ([GOptTell (t_idx i) (g_parents c i)], mkGae (theta s) (jac s) (S (g_itrs s)) (g_restarts s))
    else
      Ok ([GOptTell (t_idx i) (g_parents c i); GStep (vsub (g_mean c i) (theta s))],
          mkGae (apply_step (g_opt c) (theta s) (vsub (g_mean c i) (theta s)) (t_theta_after i))
                (jac s) (S (g_itrs s)) (g_restarts s)).
Proof.
  intros b c i s g Hj Hf. rewrite <- g_fires_dec in Hf.
  unfold gae_tell_with, g_mean, g_selected, g_parents. rewrite Hj, <- num_parents_spec.
  destruct (b && (num_parents (g_ctl c) (count_new (t_status i)) =? 0)) eqn:Eb;
  destruct (t_stop i || check_restart (c_rule (g_ctl c)) (S (g_itrs s)) (count_new (t_status i))) eqn:Er;
  try (exfalso; apply Hf; reflexivity); reflexivity.
Qed.

Lemma gae_tell_restart : forall b c i s g x,
  jac s = Some g -> g_fires c i s -> pick_elite i = Some x ->
  exists log0, gae_tell_with b c i s =
    Ok (log0 ++ [GSample 1; GGradReset x; GOptReset0; GRankerReset],
        mkGae x (jac s) (S (g_itrs s)) (S (g_restarts s)))
    /\ (forall a, In a log0 -> match a with GOptTell _ _ | GStep _ => True | _ => False end).
Proof.
  intros b c i s g x Hj Hf Hx. rewrite <- g_fires_dec in Hf.
  unfold gae_tell_with. rewrite Hj.
  destruct (b && (num_parents (g_ctl c) (count_new (t_status i)) =? 0)) eqn:Eb;
    rewrite Hf, Hx; eexists; (split; [reflexivity|]); intros a Ha; simpl in Ha;
    repeat (destruct Ha as [<-|Ha]; [exact I|]); contradiction.
Qed.

Lemma pick_elite_In : forall i x, pick_elite i = Some x -> In x (t_elites i).
Proof.
  intros i x H. unfold pick_elite in H. destruct (t_elites i) eqn:E; [discriminate|].
  eapply nth_error_In; eauto.
Qed.

Lemma g_mean_length : forall c i, Forall (fun v => length v = g_n c) (t_sols i) -> length (g_mean c i) = g_n c.
Proof.
  intros c i H. unfold g_mean. apply lincomb_length. unfold g_selected.
  apply Forall_firstn', Forall_take_rows. exact H.
Qed.

(** gradient ascent: theta' = theta + lr (mean - theta), coordinate-wise on the segment *)
Lemma ga_step_coord : forall lr th m k, length th = length m ->
  coord (vadd th (vscale lr (vsub m th))) k == coord th k + lr * (coord m k - coord th k).
Proof.
  intros lr th m k Hl.
  rewrite coord_vadd by (rewrite vscale_length, vsub_length; auto).
  rewrite coord_vscale, coord_vsub by auto. reflexivity.
Qed.

Lemma segment_between : forall (lr t m : Q), 0 < lr <= 1 ->
  Qmin t m <= t + lr * (m - t) <= Qmax t m.
Proof.
  intros lr t m [H0 H1].
  destruct (Qlt_le_dec t m) as [Hlt|Hle].
  - rewrite Q.min_l, Q.max_r by lra. split; nra.
  - rewrite Q.min_r, Q.max_l by lra. split; nra.
Qed.

Lemma gae_tell_step : forall c i s g lr,
  jac s = Some g -> g_opt c = GradAscent lr -> ~ g_fires c i s -> g_parents c i <> 0%nat ->
  length (theta s) = g_n c -> Forall (fun v => length v = g_n c) (t_sols i) ->
  exists log s', gae_tell c i s = Ok (log, s') /\
    In (GStep (vsub (g_mean c i) (theta s))) log /\
    forall k, coord (theta s') k == coord (theta s) k + lr * (coord (g_mean c i) k - coord (theta s) k) /\
              (0 < lr <= 1 -> Qmin (coord (theta s) k) (coord (g_mean c i) k) <= coord (theta s') k
                                <= Qmax (coord (theta s) k) (coord (g_mean c i) k)).
Proof.
  intros c i s g lr Hj Ho Hf Hnp Ht Hs. unfold gae_tell.
  rewrite (gae_tell_no_restart true c i s g Hj Hf).
  assert (E : (g_parents c i =? 0)%nat = false) by (apply Nat.eqb_neq; exact Hnp).
  rewrite E. simpl. eexists. eexists. split; [reflexivity|]. split; [right; left; reflexivity|].
  intros k. simpl. rewrite Ho. simpl.
  assert (Hk : coord (vadd (theta s) (vscale lr (vsub (g_mean c i) (theta s)))) k ==
               coord (theta s) k + lr * (coord (g_mean c i) k - coord (theta s) k)).
  { apply ga_step_coord. rewrite g_mean_length; auto. }
  split; [exact Hk|]. intros Hlr. rewrite Hk. apply segment_between. exact Hlr.
Qed.

Lemma g_mean_in_hull : forall c i k lo hi,
  Forall (fun v => length v = g_n c) (t_sols i) ->
  length (t_weights i (g_parents c i)) = length (g_selected c i) ->
  Forall (fun w => 0 <= w) (t_weights i (g_parents c i)) ->
  qsum (t_weights i (g_parents c i)) == 1 ->
  Forall (fun p => lo <= coord p k <= hi) (g_selected c i) ->
  (k < g_n c)%nat ->
  lo <= coord (g_mean c i) k <= hi.
Proof.
  intros c i k lo hi Hs Hl Hw Hsum Hp Hk. unfold g_mean.
  pose proof (@lincomb_bounds (g_n c) k lo hi (t_weights i (g_parents c i)) (g_selected c i) Hl) as H.
  rewrite Hsum in H. rewrite !Qmult_1_r in H. apply H; auto.
  unfold g_selected. apply Forall_firstn', Forall_take_rows. exact Hs.
Qed.

Lemma gae_tell_zero_parents : forall c i s g,
  jac s = Some g -> ~ g_fires c i s -> g_parents c i = 0%nat ->
  gae_tell c i s = Ok ([GOptTell (t_idx i) 0], mkGae (theta s) (jac s) (S (g_itrs s)) (g_restarts s)).
Proof.
  intros c i s g Hj Hf Hnp. unfold gae_tell.
  rewrite (gae_tell_no_restart true c i s g Hj Hf), Hnp. reflexivity.
Qed.

(** the behaviour of the unchanged code differs from the stated one only when no parent is selected *)
Lemma unpatched_agrees : forall c i s,
  g_parents c i <> 0%nat -> gae_tell_unpatched c i s = gae_tell c i s.
Proof.
  intros c i s H. unfold gae_tell_unpatched, gae_tell, gae_tell_with, g_parents in *.
  rewrite <- num_parents_spec in H.
  destruct (jac s); auto.
  assert (E : (num_parents (g_ctl c) (count_new (t_status i)) =? 0)%nat = false) by (apply Nat.eqb_neq; exact H).
  rewrite E. reflexivity.
Qed.
