(** C02 (feedback judged against the pre-call archive) and C05 (CMA-MAE threshold rule). *)
From Coq Require Import List Arith Bool ZArith QArith Qreduction Lia Lqa Sorted.
From PV Require Import Base.ListUtil Base.QUtil Base.FirstArgmax Model.Store Proofs.StoreProofs
     Model.Archive Proofs.ArchiveProofs Proofs.C01Proofs.
Import ListNotations.
Set Implicit Arguments.
Local Open Scope nat_scope.
Local Arguments Qred : simpl never.
Local Arguments Qplus : simpl never.
Local Arguments Qmult : simpl never.
Local Arguments Qminus : simpl never.
Local Arguments Qopp : simpl never.
Local Arguments Qdiv : simpl never.
Local Arguments Qltb : simpl never.
Local Arguments Qle_bool : simpl never.

Section C02.
Variable P : Type.
Notation cand := (cand P).
Notation row := (row P).
Notation archive := (archive P).
Notation aop := (aop P).

(** * Spec: how one candidate is judged, as a function of the archive CONTENT before the call only *)
Definition base_of (c : cfg) : Q := match tmin c with None => 0%Q | Some t => t end.

(** the cell's prior threshold as used for value and threshold update *)
Definition eff_thr (c : cfg) (a : archive) (i : nat) : Q :=
  match content a i with Some r => r_thr r | None => base_of c end.

Definition accepts (c : cfg) (a : archive) (x : cand) : bool :=
  match content a (c_cell x) with
  | Some r => Qltb (r_thr r) (c_obj x)
  | None => gt_ext (c_obj x) (tmin c)
  end.

Definition judge_status (c : cfg) (a : archive) (x : cand) : Z :=
  if accepts c a x then (match content a (c_cell x) with Some _ => 1%Z | None => 2%Z end) else 0%Z.

Definition judge_value (c : cfg) (a : archive) (x : cand) : Q := (c_obj x - eff_thr c a (c_cell x))%Q.

(** * Bridge between the store-level model and the content-level spec *)
Lemma look_content (c : cfg) (a : archive) i :
  AInv c a ->
  let s1 := bump_add (a_store a) in
  match content a i with
  | Some r => look s1 i = (true, Some r)
  | None => fst (look s1 i) = false
  end.
Proof.
  intros HA s1. destruct (content_cases i HA) as [[Hn Ho]|(r & Hs & Ho & Hr)].
  - rewrite Hn. exact Ho.
  - rewrite Hs. unfold look. change (get_occ s1 i) with (get_occ (a_store a) i).
    change (get_row s1 i) with (get_row (a_store a) i). rewrite Ho, Hr. reflexivity.
Qed.

Lemma can_insert_accepts (c : cfg) (a : archive) x :
  AInv c a -> can_insert c (bump_add (a_store a)) x = accepts c a x.
Proof.
  intros HA. unfold can_insert, accepts, thr_ext.
  pose proof (look_content (c_cell x) HA) as H. cbv zeta in H.
  destruct (content a (c_cell x)) as [r|].
  - rewrite H. reflexivity.
  - destruct (look (bump_add (a_store a)) (c_cell x)) as [o rr]. simpl in *. subst o. reflexivity.
Qed.

Lemma thr_base_eff (c : cfg) (a : archive) i :
  AInv c a -> thr_base c (look (bump_add (a_store a)) i) = eff_thr c a i.
Proof.
  intros HA. unfold thr_base, eff_thr, base_of.
  pose proof (look_content i HA) as H. cbv zeta in H.
  destruct (content a i) as [r|].
  - rewrite H. reflexivity.
  - destruct (look (bump_add (a_store a)) i) as [o rr]. simpl in *. subst o. reflexivity.
Qed.

Lemma single_ok_accepts (c : cfg) (a : archive) x :
  AInv c a -> single_ok c (bump_add (a_store a)) x = accepts c a x.
Proof.
  intros HA. unfold single_ok, accepts.
  pose proof (look_content (c_cell x) HA) as H. cbv zeta in H.
  pose proof (thr_base_eff (c_cell x) HA) as Hb. unfold eff_thr in Hb.
  destruct (content a (c_cell x)) as [r|].
  - rewrite Hb, H. reflexivity.
  - destruct (look (bump_add (a_store a)) (c_cell x)) as [o rr]. simpl in *. subst o. reflexivity.
Qed.

Lemma occ_content (c : cfg) (a : archive) i :
  AInv c a -> get_occ (bump_add (a_store a)) i = match content a i with Some _ => true | None => false end.
Proof.
  intros HA. destruct (content_cases i HA) as [[Hn Ho]|(r & Hs & Ho & Hr)].
  - rewrite Hn. exact Ho.
  - rewrite Hs. exact Ho.
Qed.

(** * C02: pointwise feedback *)
Theorem add_feedback_pointwise (c : cfg) (a : archive) (cs : list cand) :
  AInv c a ->
  snd (add c a cs) = (map (judge_status c a) cs, map (judge_value c a) cs).
Proof.
  intros HA. unfold add; simpl. f_equal.
  - apply map_ext. intros x. unfold status_of, judge_status.
    rewrite (can_insert_accepts x HA), (occ_content (c_cell x) HA).
    destruct (content a (c_cell x)); reflexivity.
  - apply map_ext. intros x. unfold value_of, judge_value. rewrite (thr_base_eff (c_cell x) HA). reflexivity.
Qed.

Theorem add_single_feedback (c : cfg) (a : archive) (x : cand) :
  AInv c a -> snd (add_single c a x) = (judge_status c a x, judge_value c a x).
Proof.
  intros HA. unfold add_single; simpl. f_equal.
  - unfold single_status, judge_status.
    rewrite (single_ok_accepts x HA), (occ_content (c_cell x) HA).
    destruct (content a (c_cell x)); reflexivity.
  - unfold value_of, judge_value. rewrite (thr_base_eff (c_cell x) HA). reflexivity.
Qed.

(** the accepted candidates of one call aimed at cell [i], in batch order *)
Definition accepted (c : cfg) (a : archive) (cs : list cand) (i : nat) : list cand :=
  filter (accepts c a) (group i cs).

Lemma group_filter_accepts (c : cfg) (a : archive) cs i :
  AInv c a -> group i (filter (can_insert c (bump_add (a_store a))) cs) = accepted c a cs i.
Proof.
  intros HA. rewrite group_filter. unfold accepted. apply filter_ext. intros x. apply can_insert_accepts; auto.
Qed.

(** what a call writes into a cell: row of the first arg-max of the accepted candidates *)
Definition new_thr_spec (c : cfg) (a : archive) (i : nat) (w : cand) (acc : list cand) : Q :=
  match tmin c with
  | None => Qred (c_obj w)
  | Some _ => batch_thr c (eff_thr c a i) acc
  end.

Lemma cell_winner_spec (c : cfg) (a : archive) (cs : list cand) i :
  AInv c a ->
  cell_winner c a cs i =
  match first_argmax c_obj (accepted c a cs i) with
  | Some w => Some (mkRow (c_obj w) (new_thr_spec c a i w (accepted c a cs i)) (c_pay w))
  | None => None
  end.
Proof.
  intros HA. unfold cell_winner, winner_row. rewrite (group_filter_accepts cs i HA).
  destruct (first_argmax c_obj (accepted c a cs i)) as [w|] eqn:E; [|reflexivity].
  f_equal. f_equal. unfold new_thr, new_thr_spec.
  destruct (tmin c); [|reflexivity].
  rewrite (thr_base_eff (c_cell w) HA).
  apply first_argmax_in in E. unfold accepted in E. apply filter_In in E. destruct E as [E _].
  apply group_in in E. destruct E as [_ ->]. reflexivity.
Qed.

(** content after a batch add, entirely in terms of the content before it *)
Theorem add_content_spec (c : cfg) (a : archive) (cs : list cand) i :
  AInv c a -> wf_cells c cs ->
  content (fst (add c a cs)) i =
  match first_argmax c_obj (accepted c a cs i) with
  | Some w => Some (mkRow (c_obj w) (new_thr_spec c a i w (accepted c a cs i)) (c_pay w))
  | None => content a i
  end.
Proof.
  intros HA Hwf. rewrite (add_content i HA Hwf), (cell_winner_spec cs i HA).
  destruct (first_argmax c_obj (accepted c a cs i)); reflexivity.
Qed.

(** a row that appears in a cell during a call belongs to a candidate of that call, aimed at that
    cell, whose status is non-zero; status 0 candidates are never stored *)
Theorem stored_has_status (c : cfg) (a : archive) (cs : list cand) i r :
  AInv c a -> wf_cells c cs ->
  content (fst (add c a cs)) i = Some r -> content a i <> Some r ->
  exists w, In w cs /\ c_cell w = i /\ judge_status c a w <> 0%Z /\
            r_obj r = c_obj w /\ r_pay r = c_pay w.
Proof.
  intros HA Hwf Hr Hnew. rewrite (add_content_spec i HA Hwf) in Hr.
  destruct (first_argmax c_obj (accepted c a cs i)) as [w|] eqn:E; [|congruence].
  inversion Hr; subst r; clear Hr. simpl.
  apply first_argmax_in in E. unfold accepted in E. apply filter_In in E. destruct E as [E Hacc].
  apply group_in in E. destruct E as [Hin Hc].
  exists w. repeat split; auto.
  unfold judge_status. rewrite Hacc. destruct (content a (c_cell w)); discriminate.
Qed.

(** * add_single agrees with add on a batch of one (feedback and the whole post-state) *)
Definition coupled (c : cfg) : Prop := tmin c = None -> (lr c == 1)%Q.

Lemma single_winners_batch (c : cfg) (a : archive) (x : cand) :
  AInv c a -> coupled c ->
  batch_winners c (bump_add (a_store a)) [x] = single_winners c (bump_add (a_store a)) x.
Proof.
  intros HA Hcpl. unfold batch_winners, single_winners. simpl.
  rewrite (can_insert_accepts x HA), (single_ok_accepts x HA).
  destruct (accepts c a x) eqn:Ea; simpl; [|reflexivity].
  unfold collect, winner_row; simpl. unfold group; simpl. rewrite Nat.eqb_refl. simpl.
  f_equal. f_equal. f_equal.
  unfold new_thr, single_thr, batch_thr. simpl.
  destruct (tmin c) as [t0|] eqn:Et.
  - apply Qred_complete. unfold qnat. simpl. field.
  - apply Qred_complete. rewrite (Hcpl Et). ring.
Qed.

Theorem single_eq_batch1 (c : cfg) (a : archive) (x : cand) :
  AInv c a -> coupled c ->
  fst (add_single c a x) = fst (add c a [x]) /\
  snd (add c a [x]) = ([fst (snd (add_single c a x))], [snd (snd (add_single c a x))]).
Proof.
  intros HA Hcpl. split.
  - unfold add_single, add; simpl. rewrite (single_winners_batch x HA Hcpl). reflexivity.
  - rewrite (add_feedback_pointwise [x] HA), (add_single_feedback x HA). reflexivity.
Qed.

(** * Reachable states satisfy AInv *)
Lemma astep_ainv (c : cfg) (a : archive) o : AInv c a -> AInv c (astep c a o).
Proof.
  intros HA. destruct o; unfold astep.
  - apply add_inv; auto.
  - apply add_single_inv; auto.
  - apply clear_ainv; auto.
Qed.

Lemma arun_ainv (c : cfg) (h : list aop) : AInv c (arun c h).
Proof.
  unfold arun. generalize (init_ainv P c). generalize (arch_init P c).
  induction h as [|o t IH]; intros a HA; simpl; auto. apply IH, astep_ainv; auto.
Qed.

(** * C05: the CMA-MAE rule *)
Lemma qpow_bounds q n : (0 <= q <= 1)%Q -> (0 <= qpow q n <= 1)%Q.
Proof.
  intros Hq. induction n as [|k IH]; simpl.
  - lra.
  - nra.
Qed.

Lemma qpow_one n : (qpow 1 n == 1)%Q.
Proof. induction n as [|k IH]; simpl; [reflexivity|rewrite IH; ring]. Qed.

Lemma qpow_compat q q' n : (q == q')%Q -> (qpow q n == qpow q' n)%Q.
Proof. intros H. induction n as [|k IH]; simpl; [reflexivity|rewrite IH, H; reflexivity]. Qed.

Definition mean (l : list cand) : Q := (Qsum (map c_obj l) / qnat (length l))%Q.

(** the closed form, exactly as the property states it *)
Theorem batch_thr_formula (c : cfg) (t : Q) (acc : list cand) :
  (batch_thr c t acc == qpow (1 - lr c) (length acc) * t + (1 - qpow (1 - lr c) (length acc)) * mean acc)%Q.
Proof. unfold batch_thr, mean. rewrite Qred_correct. ring. Qed.

Lemma qnat_pos n : n <> 0 -> (0 < qnat n)%Q.
Proof.
  intros H. unfold qnat. change 0%Q with (inject_Z 0). rewrite <- Zlt_Qlt. lia.
Qed.

Lemma qnat_S n : (qnat (S n) == qnat n + 1)%Q.
Proof. unfold qnat. rewrite Nat2Z.inj_succ. unfold Z.succ. rewrite inject_Z_plus. reflexivity. Qed.

(** sum bounds: every accepted objective is > t, so the mean is > t and <= the maximum *)
Lemma sum_gt (l : list cand) t :
  (forall x, In x l -> (t < c_obj x)%Q) -> l <> [] -> (qnat (length l) * t < Qsum (map c_obj l))%Q.
Proof.
  induction l as [|x r IH]; intros H Hne; [congruence|].
  simpl length. simpl map. simpl Qsum. rewrite qnat_S.
  assert (Hx : (t < c_obj x)%Q) by (apply H; simpl; auto).
  destruct r as [|y r'].
  - cbn [length map Qsum]. change (qnat 0) with 0%Q. lra.
  - assert (IH' : (qnat (length (y :: r')) * t < Qsum (map c_obj (y :: r')))%Q).
    { apply IH; [intros z Hz; apply H; simpl; auto|discriminate]. }
    lra.
Qed.

Lemma sum_le (l : list cand) m :
  (forall x, In x l -> (c_obj x <= m)%Q) -> (Qsum (map c_obj l) <= qnat (length l) * m)%Q.
Proof.
  induction l as [|x r IH]; intros H.
  - cbn [length map Qsum]. change (qnat 0) with 0%Q. lra.
  - simpl length. simpl map. simpl Qsum. rewrite qnat_S.
    assert (Hx : (c_obj x <= m)%Q) by (apply H; simpl; auto).
    assert (IH' : (Qsum (map c_obj r) <= qnat (length r) * m)%Q) by (apply IH; intros z Hz; apply H; simpl; auto).
    lra.
Qed.

Lemma mean_bounds (l : list cand) t m :
  l <> [] -> (forall x, In x l -> (t < c_obj x)%Q) -> (forall x, In x l -> (c_obj x <= m)%Q) ->
  (t < mean l <= m)%Q.
Proof.
  intros Hne Hlo Hhi. unfold mean.
  assert (Hk : (0 < qnat (length l))%Q) by (apply qnat_pos; destruct l; simpl; congruence).
  pose proof (sum_gt Hlo Hne) as H1. pose proof (sum_le l Hhi) as H2.
  split.
  - apply Qlt_shift_div_l; auto. lra.
  - apply Qle_shift_div_r; auto. lra.
Qed.

Definition lr_ok (c : cfg) : Prop := (0 <= lr c <= 1)%Q.

(** thresholds only rise, and never exceed the best accepted objective *)
Theorem batch_thr_bounds (c : cfg) (t : Q) (acc : list cand) (w : cand) :
  lr_ok c -> acc <> [] -> (forall x, In x acc -> (t < c_obj x)%Q) ->
  first_argmax c_obj acc = Some w ->
  (t <= batch_thr c t acc <= c_obj w)%Q.
Proof.
  intros Hlr Hne Hacc Hw.
  assert (Hmax : forall x, In x acc -> (c_obj x <= c_obj w)%Q) by (apply (first_argmax_ge c_obj acc Hw)).
  destruct (mean_bounds Hne Hacc Hmax) as [Hm1 Hm2].
  rewrite batch_thr_formula.
  assert (Hr : (0 <= qpow (1 - lr c) (length acc) <= 1)%Q) by (apply qpow_bounds; unfold lr_ok in Hlr; lra).
  set (r := qpow (1 - lr c) (length acc)) in *. set (m := mean acc) in *.
  split; nra.
Qed.

Theorem batch_thr_frozen (c : cfg) (t : Q) (acc : list cand) :
  (lr c == 0)%Q -> (batch_thr c t acc == t)%Q.
Proof.
  intros H0. rewrite batch_thr_formula.
  assert (Hq : (qpow (1 - lr c) (length acc) == 1)%Q).
  { rewrite (qpow_compat (length acc) (q':=1%Q)); [apply qpow_one|rewrite H0; ring]. }
  rewrite Hq. ring.
Qed.

Theorem single_thr_formula (c : cfg) (a : archive) (x : cand) :
  AInv c a ->
  (single_thr c (bump_add (a_store a)) x == (1 - lr c) * eff_thr c a (c_cell x) + lr c * c_obj x)%Q.
Proof. intros HA. unfold single_thr. rewrite Qred_correct, (thr_base_eff (c_cell x) HA). ring. Qed.

(** every accepted candidate beats the cell's prior effective threshold (finite threshold_min) *)
Lemma accepted_gt (c : cfg) (a : archive) (cs : list cand) i t0 :
  tmin c = Some t0 -> forall x, In x (accepted c a cs i) -> (eff_thr c a i < c_obj x)%Q.
Proof.
  intros Ht x Hx. unfold accepted in Hx. apply filter_In in Hx. destruct Hx as [Hg Ha].
  apply group_in in Hg. destruct Hg as [_ <-].
  unfold accepts in Ha. unfold eff_thr, base_of. rewrite Ht in *.
  destruct (content a (c_cell x)) as [r|]; simpl in Ha; apply Qltb_lt in Ha; exact Ha.
Qed.

(** C05 for one call: a cell that accepts nothing keeps elite and threshold; a cell that accepts
    [acc <> []] gets the first arg-max of [acc] and the closed-form threshold, which lies between the
    prior threshold and the best accepted objective. *)
Theorem cma_mae_call (c : cfg) (a : archive) (cs : list cand) i t0 :
  AInv c a -> wf_cells c cs -> lr_ok c -> tmin c = Some t0 ->
  let acc := accepted c a cs i in
  let t := eff_thr c a i in
  match first_argmax c_obj acc with
  | None => acc = [] /\ content (fst (add c a cs)) i = content a i
  | Some w =>
      exists r, content (fst (add c a cs)) i = Some r /\
        r_obj r = c_obj w /\ r_pay r = c_pay w /\ (t < c_obj w)%Q /\
        (r_thr r == qpow (1 - lr c) (length acc) * t + (1 - qpow (1 - lr c) (length acc)) * mean acc)%Q /\
        (t <= r_thr r <= c_obj w)%Q
  end.
Proof.
  intros HA Hwf Hlr Ht acc t.
  pose proof (add_content_spec i HA Hwf) as Hc. fold acc in Hc.
  destruct (first_argmax c_obj acc) as [w|] eqn:E.
  - eexists; split; [exact Hc|]. simpl.
    assert (Hne : acc <> []) by (intros Hn; rewrite Hn in E; discriminate).
    assert (Hgt : forall x, In x acc -> (t < c_obj x)%Q) by (intros x Hx; eapply accepted_gt; eauto).
    unfold new_thr_spec. rewrite Ht. fold t.
    repeat split; auto.
    + apply Hgt. apply (first_argmax_in c_obj acc E).
    + apply batch_thr_formula.
    + apply (batch_thr_bounds Hlr Hne Hgt E).
    + apply (batch_thr_bounds Hlr Hne Hgt E).
  - split; auto. apply (fam_none_iff c_obj); auto.
Qed.

(** over whole histories: between clears a cell's effective threshold never decreases *)
Theorem threshold_monotone (c : cfg) (h : list aop) (o : aop) i t0 :
  lr_ok c -> tmin c = Some t0 -> wf_hist c (h ++ [o]) -> o <> Clear ->
  (eff_thr c (arun c h) i <= eff_thr c (arun c (h ++ [o])) i)%Q.
Proof.
  intros Hlr Ht Hwf Hnc.
  assert (Hwo : wf_op c o) by (apply Hwf, in_or_app; simpl; auto).
  pose proof (arun_ainv c h) as HA.
  unfold arun. rewrite fold_left_app. simpl. fold (arun c h).
  set (a := arun c h) in *.
  destruct o as [cs|x|]; [| |congruence]; unfold astep.
  - pose proof (@cma_mae_call c a cs i t0 HA Hwo Hlr Ht) as H. cbv zeta in H.
    destruct (first_argmax c_obj (accepted c a cs i)) as [w|].
    + destruct H as (r & Hr & _ & _ & _ & _ & Hb). unfold eff_thr at 2. rewrite Hr. tauto.
    + destruct H as [_ H]. unfold eff_thr. rewrite H. lra.
  - destruct (single_eq_batch1 x HA) as [Heq _]; [unfold coupled; congruence|]. rewrite Heq.
    assert (Hw1 : wf_cells c [x]) by (intros y [<-|[]]; exact Hwo).
    pose proof (@cma_mae_call c a [x] i t0 HA Hw1 Hlr Ht) as H. cbv zeta in H.
    destruct (first_argmax c_obj (accepted c a [x] i)) as [w|].
    + destruct H as (r & Hr & _ & _ & _ & _ & Hb). unfold eff_thr at 2. rewrite Hr. tauto.
    + destruct H as [_ H]. unfold eff_thr. rewrite H. lra.
Qed.

End C02.
