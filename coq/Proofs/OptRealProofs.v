(** Proofs about the real-number model of the evolution strategies (Model/OptReal.v). *)
From Coq Require Import Reals List Arith Lra Lia Psatz.
From PV Require Import Base.RSum Model.OptReal.
Import ListNotations.
Open Scope R_scope.

(** * 1. recombination weights *)
Lemma raw_weight_pos mu i : (1 <= i <= mu)%nat -> 0 < raw_weight mu i.
Proof.
  intros [H1 H2]. unfold raw_weight.
  assert (Hi : 0 < INR i) by (apply lt_0_INR; lia).
  assert (Hle : INR i <= INR mu) by (apply le_INR; exact H2).
  assert (Hlt : ln (INR i) < ln (INR mu + 1 / 2)) by (apply ln_increasing; lra).
  lra.
Qed.

Lemma raw_weight_decr mu i : (1 <= i)%nat -> raw_weight mu (S i) < raw_weight mu i.
Proof.
  intros H1. unfold raw_weight.
  assert (Hi : 0 < INR i) by (apply lt_0_INR; lia).
  assert (Hlt : ln (INR i) < ln (INR (S i))) by (apply ln_increasing; [exact Hi | rewrite S_INR; lra]).
  lra.
Qed.

Lemma raw_weights_length mu : length (raw_weights mu) = mu.
Proof. unfold raw_weights. rewrite map_length, seq_length. reflexivity. Qed.

Lemma raw_weights_pos mu : Forall (fun x => 0 < x) (raw_weights mu).
Proof.
  apply Forall_forall. intros x Hx. unfold raw_weights in Hx.
  apply in_map_iff in Hx. destruct Hx as [i [E Hi]]. apply in_seq in Hi. subst.
  apply raw_weight_pos. lia.
Qed.

Lemma raw_total_pos mu : (1 <= mu)%nat -> 0 < rsum (raw_weights mu).
Proof.
  intros H. apply rsum_pos; [|apply raw_weights_pos].
  intros E. pose proof (raw_weights_length mu) as L. rewrite E in L. simpl in L. lia.
Qed.

Lemma nth_map_lt A B (f : A -> B) l i d d' : (i < length l)%nat -> nth i (map f l) d = f (nth i l d').
Proof.
  revert i. induction l as [|a t IH]; intros [|i] H; simpl in *; try lia; [reflexivity | apply IH; lia].
Qed.

Lemma raw_weights_nth mu i : (i < mu)%nat -> nth i (raw_weights mu) 0 = raw_weight mu (S i).
Proof.
  intros H. unfold raw_weights.
  rewrite (nth_map_lt _ _ _ _ _ _ 0%nat) by (rewrite seq_length; exact H).
  rewrite seq_nth by exact H. reflexivity.
Qed.

Lemma weights_length mu : length (weights mu) = mu.
Proof. unfold weights. rewrite map_length. apply raw_weights_length. Qed.

Lemma weights_nth mu i : (i < mu)%nat -> nth i (weights mu) 0 = raw_weight mu (S i) / rsum (raw_weights mu).
Proof.
  intros H. unfold weights.
  rewrite (nth_map_lt _ _ _ _ _ _ 0) by (rewrite raw_weights_length; exact H).
  rewrite raw_weights_nth by exact H. reflexivity.
Qed.

Lemma weights_pos mu : (1 <= mu)%nat -> Forall (fun x => 0 < x) (weights mu).
Proof.
  intros H. unfold weights. apply Forall_forall. intros x Hx.
  apply in_map_iff in Hx. destruct Hx as [r [E Hr]]. subst.
  pose proof (raw_weights_pos mu) as P. rewrite Forall_forall in P.
  apply Rdiv_lt_0_compat; [apply P; exact Hr | apply raw_total_pos; exact H].
Qed.

Lemma weights_nonneg mu : Forall (fun x => 0 <= x) (weights mu).
Proof.
  destruct mu as [|m]; [constructor|].
  eapply Forall_impl; [|apply weights_pos; lia]. simpl. intros; lra.
Qed.

Lemma weights_sum mu : (1 <= mu)%nat -> rsum (weights mu) = 1.
Proof.
  intros H. unfold weights. rewrite rsum_map_div.
  pose proof (raw_total_pos mu H). field. lra.
Qed.

(** C18_weights *)
Theorem weights_spec : forall mu, (1 <= mu)%nat ->
  length (weights mu) = mu /\
  (forall i, (i < mu)%nat ->
     nth i (weights mu) 0 = (ln (INR mu + 1 / 2) - ln (INR (S i))) / rsum (raw_weights mu)) /\
  0 < rsum (raw_weights mu) /\
  (forall i, (i < mu)%nat -> 0 < nth i (weights mu) 0) /\
  (forall i, (S i < mu)%nat -> nth (S i) (weights mu) 0 < nth i (weights mu) 0) /\
  rsum (weights mu) = 1.
Proof.
  intros mu H. pose proof (raw_total_pos mu H) as T.
  split; [apply weights_length|]. split; [intros i Hi; rewrite weights_nth by exact Hi; reflexivity|].
  split; [exact T|]. split; [|split; [|apply weights_sum; exact H]].
  - intros i Hi. rewrite weights_nth by exact Hi.
    apply Rdiv_lt_0_compat; [apply raw_weight_pos; lia | exact T].
  - intros i Hi. rewrite !weights_nth by lia.
    assert (D : raw_weight mu (S (S i)) < raw_weight mu (S i)) by (apply raw_weight_decr; lia).
    unfold Rdiv. apply Rmult_lt_compat_r; [apply Rinv_0_lt_compat; exact T | exact D].
Qed.

(** * 2. the recombined mean is a convex combination of the parents *)
Lemma map_fst_combine A B (a : list A) (b : list B) :
  (length a <= length b)%nat -> map fst (combine a b) = a.
Proof.
  revert b. induction a as [|x t IH]; intros [|y u] H; simpl in *; try reflexivity; try lia.
  rewrite IH by lia. reflexivity.
Qed.

Lemma recombine_bounds (w : list R) (par : list vec) k lo hi :
  Forall (fun x => 0 <= x) w -> (length w <= length par)%nat -> rsum w = 1 ->
  (forall p, In p par -> lo <= p k <= hi) ->
  lo <= recombine w par k <= hi.
Proof.
  intros Hw Hlen Hsum Hb. unfold recombine.
  pose proof (rsum_weighted_bounds (map (fun wp : R * vec => (fst wp, snd wp k)) (combine w par)) lo hi) as B.
  rewrite !map_map in B. simpl in B.
  replace (map (fun x : R * vec => fst x) (combine w par)) with w in B
    by (symmetry; apply (map_fst_combine _ _ w par Hlen)).
  rewrite Hsum in B. rewrite !Rmult_1_r in B. apply B.
  intros p Hp. apply in_map_iff in Hp. destruct Hp as [[x v] [E Hin]]. subst. simpl.
  split.
  - rewrite Forall_forall in Hw. apply Hw. eapply in_combine_l. exact Hin.
  - apply Hb. eapply in_combine_r. exact Hin.
Qed.

Lemma lmin_le l x : In x l -> lmin l <= x.
Proof.
  destruct l as [|a t]; [intros []|]. simpl. revert a x.
  induction t as [|b u IH]; intros a x; simpl.
  - intros [E|[]]. subst. lra.
  - intros [E|[E|Hin]].
    + subst. eapply Rle_trans; [apply Rmin_r|]. apply IH. left; reflexivity.
    + subst. apply Rmin_l.
    + eapply Rle_trans; [apply Rmin_r|]. apply (IH a x). right; exact Hin.
Qed.

Lemma lmax_ge l x : In x l -> x <= lmax l.
Proof.
  destruct l as [|a t]; [intros []|]. simpl. revert a x.
  induction t as [|b u IH]; intros a x; simpl.
  - intros [E|[]]. subst. lra.
  - intros [E|[E|Hin]].
    + subst. eapply Rle_trans; [|apply Rmax_r]. apply IH. left; reflexivity.
    + subst. apply Rmax_l.
    + eapply Rle_trans; [|apply Rmax_r]. apply (IH a x). right; exact Hin.
Qed.

Lemma select_parents_length sols ranking mu :
  (mu <= length ranking)%nat -> length (select_parents sols ranking mu) = mu.
Proof. intros H. unfold select_parents. rewrite firstn_length, map_length. lia. Qed.

Lemma nth_firstn_lt A (l : list A) n i d : (i < n)%nat -> nth i (firstn n l) d = nth i l d.
Proof.
  revert n i. induction l as [|a t IH]; intros [|n] [|i] H; simpl; try lia; try reflexivity.
  apply IH. lia.
Qed.

(** the parents are the samples at the FIRST [mu] positions of the ranking *)
Lemma select_parents_nth sols ranking mu i :
  (i < mu)%nat -> (mu <= length ranking)%nat ->
  nth i (select_parents sols ranking mu) (sols 0%nat) = sols (nth i ranking 0%nat).
Proof.
  intros Hi Hmu. unfold select_parents.
  rewrite nth_firstn_lt by exact Hi. apply map_nth.
Qed.

Theorem recombine_in_hull : forall sols ranking mu k,
  (1 <= mu <= length ranking)%nat ->
  let parents := select_parents sols ranking mu in
  let mean := recombine (weights mu) parents in
  lmin (map (fun p : vec => p k) parents) <= mean k <= lmax (map (fun p : vec => p k) parents).
Proof.
  intros sols ranking mu k [H1 H2] parents mean. unfold mean.
  apply recombine_bounds.
  - apply weights_nonneg.
  - rewrite weights_length. unfold parents. rewrite select_parents_length by exact H2. lia.
  - apply weights_sum; exact H1.
  - intros p Hp. split; [apply lmin_le | apply lmax_ge]; apply in_map_iff; exists p; split; auto.
Qed.

(** * 3. the strategy parameters: coefficient conditions of the covariance update, from the code's formulas *)
Lemma mueff_ge_1 mu : (1 <= mu)%nat -> 1 <= mueff mu.
Proof.
  intros H. unfold mueff. rewrite weights_sum by exact H.
  pose proof (weights_pos mu H) as P. rewrite Forall_forall in P.
  set (S2 := rsum (map (fun w => w * w) (weights mu))).
  assert (P2 : 0 < S2).
  { apply rsum_pos.
    - intros E. apply (f_equal (@length R)) in E. rewrite map_length, weights_length in E. simpl in E. lia.
    - apply Forall_forall. intros x Hx. apply in_map_iff in Hx. destruct Hx as [a [E Ha]]. subst.
      specialize (P a Ha). simpl in P. nra. }
  assert (Q : S2 <= 1).
  { apply Rle_trans with (rsum (map (fun w => w) (weights mu))); [|rewrite map_id, weights_sum by exact H; lra].
    unfold S2. apply rsum_map_le.
    intros a Ha. pose proof (P a Ha) as Pa. simpl in Pa.
    assert (a <= 1). { rewrite <- (weights_sum mu H). apply rsum_In_le; [apply weights_nonneg | exact Ha]. }
    nra. }
  replace (1 * 1 / S2) with (/ S2) by (field; lra).
  rewrite <- Rinv_1 at 1. apply Rinv_le_contravar; lra.
Qed.

Lemma div_le_c a d c : 0 < d -> a <= c * d -> a / d <= c.
Proof.
  intros Hd H. apply (Rmult_le_reg_r d); [exact Hd|].
  unfold Rdiv. rewrite Rmult_assoc, Rinv_l by lra. lra.
Qed.

Lemma div_lt_c a d c : 0 < d -> a < c * d -> a / d < c.
Proof.
  intros Hd H. apply (Rmult_lt_reg_r d); [exact Hd|].
  unfold Rdiv. rewrite Rmult_assoc, Rinv_l by lra. lra.
Qed.

Lemma div_nonneg a d : 0 <= a -> 0 < d -> 0 <= a / d.
Proof. intros Ha Hd. unfold Rdiv. apply Rle_mult_inv_pos; assumption. Qed.

Lemma hsig_01 dim batch evals cs ps : hsig_of dim batch evals cs ps = 0 \/ hsig_of dim batch evals cs ps = 1.
Proof. unfold hsig_of. cbv zeta. destruct (Rlt_dec _ _); [right | left]; reflexivity. Qed.

Lemma c1a_bounds c1 cc h : 0 <= c1 -> 0 <= cc <= 2 -> (h = 0 \/ h = 1) -> 0 <= c1a_of c1 cc h <= c1.
Proof.
  intros Hc1 Hcc [E|E]; subst; unfold c1a_of.
  - destruct Hcc as [Hc0 Hc2]. pose proof (Rle_0_sqr (1 - cc)) as Hs. unfold Rsqr in Hs.
    replace (1 - (1 - 0 * 0) * cc * (2 - cc)) with ((1 - cc) * (1 - cc)) by ring.
    assert (Hq : (1 - cc) * (1 - cc) <= 1) by nra.
    split; nra.
  - replace (1 - (1 - 1 * 1) * cc * (2 - cc)) with 1 by ring. lra.
Qed.

Section Coeff.
Variables n me : R.
Hypothesis Hn : 1 <= n.
Hypothesis Hme : 1 <= me.

Lemma mueff_term_nonneg : 0 <= me - 2 + 1 / me.
Proof.
  replace (me - 2 + 1 / me) with ((me - 1) * (me - 1) / me) by (field; lra).
  apply div_nonneg; [nra | lra].
Qed.

Lemma q_pos : 0 < me / n.
Proof. apply Rdiv_lt_0_compat; lra. Qed.

Lemma cma_c1_bounds : 0 < cma_c1 n me < 1.
Proof.
  unfold cma_c1. assert (D : 2 < (n + 13 / 10) * (n + 13 / 10) + me) by nra. split.
  - apply Rdiv_lt_0_compat; lra.
  - apply div_lt_c; lra.
Qed.

Lemma cma_cmu_bounds : 0 <= cma_cmu n me <= 1 - cma_c1 n me.
Proof.
  pose proof cma_c1_bounds as [C0 C1]. unfold cma_cmu. split; [|apply Rmin_l].
  apply Rmin_glb; [lra|].
  apply div_nonneg; [pose proof mueff_term_nonneg; lra | nra].
Qed.

Lemma cma_cc_bounds : 0 <= cma_cc n me <= 2.
Proof.
  unfold cma_cc. pose proof q_pos as Q.
  replace (2 * me / n) with (2 * (me / n)) by (field; lra).
  set (q := me / n) in *. split.
  - apply div_nonneg; lra.
  - apply div_le_c; lra.
Qed.

(** alpha = 1 - c1a - cmu * sum(weights) >= 0 for CMA-ES *)
Lemma cma_alpha_nonneg h sw : (h = 0 \/ h = 1) -> sw = 1 ->
  0 <= 1 - c1a_of (cma_c1 n me) (cma_cc n me) h - cma_cmu n me * sw.
Proof.
  intros Hh Hsw. subst sw. pose proof cma_c1_bounds as [C0 C1]. pose proof cma_cmu_bounds as [M0 M1].
  pose proof (c1a_bounds (cma_c1 n me) (cma_cc n me) h (Rlt_le _ _ C0) cma_cc_bounds Hh) as [A0 A1]. lra.
Qed.

Lemma sqrt_n_ge_1 : 1 <= sqrt n.
Proof. rewrite <- sqrt_1 at 1. apply sqrt_le_1_alt. exact Hn. Qed.

Lemma sep_c1_bounds : 0 < sep_c1 n me <= cma_c1 n me.
Proof.
  pose proof cma_c1_bounds as [C0 C1]. pose proof sqrt_n_ge_1 as S. pose proof q_pos as Q.
  unfold sep_c1. set (d := n + 2 * sqrt n + me / n). assert (D : 1 <= d) by (unfold d; lra).
  assert (I : 0 < 1 / d <= 1).
  { split; [apply Rdiv_lt_0_compat; lra | apply div_le_c; lra]. }
  split; nra.
Qed.

Lemma sep_cmu_bounds : 0 <= sep_cmu n me <= 1 - sep_c1 n me.
Proof.
  pose proof cma_c1_bounds as [C0 C1]. pose proof sep_c1_bounds as [S0 S1]. pose proof sqrt_n_ge_1 as S.
  unfold sep_cmu. split; [|apply Rmin_l].
  apply Rmin_glb; [lra|].
  apply div_nonneg; [pose proof mueff_term_nonneg; lra | lra].
Qed.

Lemma sep_cc_bounds : 0 <= sep_cc n me <= 2.
Proof.
  unfold sep_cc. pose proof q_pos as Q. pose proof sqrt_n_ge_1 as S.
  assert (I : 0 < 1 / n) by (apply Rdiv_lt_0_compat; lra).
  replace (2 * me / n) with (2 * (me / n)) by (field; lra).
  set (q := me / n) in *. set (i := 1 / n) in *. split.
  - apply div_nonneg; lra.
  - apply div_le_c; lra.
Qed.

Lemma sep_alpha_nonneg h sw : (h = 0 \/ h = 1) -> sw = 1 ->
  0 <= 1 - c1a_of (sep_c1 n me) (sep_cc n me) h - sep_cmu n me * sw.
Proof.
  intros Hh Hsw. subst sw. pose proof sep_c1_bounds as [C0 C1]. pose proof sep_cmu_bounds as [M0 M1].
  pose proof (c1a_bounds (sep_c1 n me) (sep_cc n me) h (Rlt_le _ _ C0) sep_cc_bounds Hh) as [A0 A1]. lra.
Qed.
End Coeff.

(** * 4. symmetric positive semi-definite matrices are closed under the operations of the covariance update *)
Lemma quad_ext dim A B x : (forall i j, A i j = B i j) -> quad dim A x = quad dim B x.
Proof.
  intros H. unfold quad. apply sumn_ext; intros i _. apply sumn_ext; intros j _. rewrite H. reflexivity.
Qed.

Lemma quad_scale dim a C x : quad dim (fun i j => C i j * a) x = a * quad dim C x.
Proof.
  unfold quad. rewrite <- sumn_scale. apply sumn_ext; intros i _.
  rewrite <- sumn_scale. apply sumn_ext; intros j _. ring.
Qed.

Lemma quad_plus dim A B x : quad dim (fun i j => A i j + B i j) x = quad dim A x + quad dim B x.
Proof.
  unfold quad. rewrite <- sumn_plus. apply sumn_ext; intros i _.
  rewrite <- sumn_plus. apply sumn_ext; intros j _. ring.
Qed.

Lemma quad_outer dim (p x : vec) :
  quad dim (fun i j => p i * p j) x = sumn dim (fun i => x i * p i) * sumn dim (fun i => x i * p i).
Proof.
  rewrite sumn_mult. unfold quad. apply sumn_ext; intros i _. apply sumn_ext; intros j _. ring.
Qed.

Lemma psd_ext dim A B : (forall i j, A i j = B i j) -> psd dim A -> psd dim B.
Proof. intros H P x. rewrite <- (quad_ext dim A B x H). apply P. Qed.

Lemma psd_scale dim a C : 0 <= a -> psd dim C -> psd dim (fun i j => C i j * a).
Proof. intros Ha P x. rewrite quad_scale. specialize (P x). nra. Qed.

Lemma psd_plus dim A B : psd dim A -> psd dim B -> psd dim (fun i j => A i j + B i j).
Proof. intros PA PB x. rewrite quad_plus. specialize (PA x). specialize (PB x). lra. Qed.

Lemma psd_outer dim (p : vec) : psd dim (fun i j => p i * p j).
Proof.
  intros x. rewrite quad_outer.
  pose proof (Rle_0_sqr (sumn dim (fun i => x i * p i))) as H. unfold Rsqr in H. exact H.
Qed.

Lemma psd_zero dim : psd dim (fun _ _ => 0).
Proof.
  intros x. unfold quad. apply sumn_nonneg; intros i _. apply sumn_nonneg; intros j _. lra.
Qed.

Lemma sumn_delta n i (f : nat -> R) :
  (i < n)%nat -> sumn n (fun j => if Nat.eqb i j then f j else 0) = f i.
Proof.
  induction n as [|k IH]; intros H; [lia|]. simpl.
  destruct (Nat.eq_dec i k) as [E|NE].
  - subst. rewrite Nat.eqb_refl.
    rewrite (sumn_ext k _ (fun _ => 0)); [rewrite sumn_zero; lra|].
    intros j Hj. destruct (Nat.eqb_spec k j); [lia | reflexivity].
  - rewrite IH by lia. destruct (Nat.eqb_spec i k); [contradiction | lra].
Qed.

Lemma psd_identity dim : psd dim identity.
Proof.
  intros x. unfold quad, identity. apply sumn_nonneg. intros i Hi.
  rewrite (sumn_ext dim _ (fun j => if Nat.eqb i j then x i * x j else 0)).
  - rewrite sumn_delta by exact Hi. pose proof (Rle_0_sqr (x i)) as H. unfold Rsqr in H. exact H.
  - intros j _. destruct (Nat.eqb i j); ring.
Qed.

Lemma symmetric_identity : symmetric identity.
Proof. intros i j. unfold identity. rewrite (Nat.eqb_sym j i). reflexivity. Qed.

Lemma rank_mu_psd dim w ys : Forall (fun x => 0 <= x) w -> psd dim (rank_mu w ys).
Proof.
  intros Hw. revert ys. induction Hw as [|a t Ha Ht IH]; intros ys.
  - apply (psd_ext dim (fun _ _ => 0)); [intros; reflexivity | apply psd_zero].
  - destruct ys as [|y yt]; [apply (psd_ext dim (fun _ _ => 0)); [intros; reflexivity | apply psd_zero]|].
    apply (psd_ext dim (fun i j => (y i * y j) * a + rank_mu t yt i j)).
    + intros i j. unfold rank_mu. simpl. ring.
    + apply psd_plus; [apply psd_scale; [exact Ha | apply psd_outer] | apply IH].
Qed.

Lemma rank_mu_symmetric w ys : symmetric (rank_mu w ys).
Proof. intros i j. unfold rank_mu. apply rsum_map_ext. intros [a y] _. simpl. ring. Qed.

Lemma sigma_sq_inv_nonneg cmu sigma : 0 <= cmu -> 0 < sigma -> 0 <= cmu / (sigma * sigma).
Proof. intros Hc Hs. apply div_nonneg; [exact Hc | nra]. Qed.

Lemma cov_next_psd dim C c1a cmu c1 pc sigma w ys :
  psd dim C -> 0 <= 1 - c1a - cmu * rsum w -> 0 <= cmu -> 0 < sigma -> Forall (fun x => 0 <= x) w ->
  psd dim (cov_next C c1a cmu c1 pc sigma (rank_mu w ys) w).
Proof.
  intros PC Ha Hc Hs Hw.
  apply (psd_ext dim (fun i j => (C i j * (1 - c1a - cmu * rsum w) + (pc i * pc j) * (c1 * c1))
                                 + rank_mu w ys i j * (cmu / (sigma * sigma)))).
  - intros i j. unfold cov_next, Rdiv. ring.
  - apply psd_plus; [apply psd_plus|].
    + apply psd_scale; assumption.
    + apply psd_scale; [pose proof (Rle_0_sqr c1) as H; unfold Rsqr in H; exact H | apply psd_outer].
    + apply psd_scale; [apply sigma_sq_inv_nonneg; assumption | apply rank_mu_psd; exact Hw].
Qed.

Lemma cov_next_symmetric C c1a cmu c1 pc sigma w ys :
  symmetric C -> symmetric (cov_next C c1a cmu c1 pc sigma (rank_mu w ys) w).
Proof.
  intros S i j. unfold cov_next. rewrite (S i j), (rank_mu_symmetric w ys i j). ring.
Qed.

Lemma rank_mu_diag_nonneg w ys k : Forall (fun x => 0 <= x) w -> 0 <= rank_mu_diag w ys k.
Proof.
  intros Hw. unfold rank_mu_diag. apply rsum_map_nonneg. intros [a y] Hin. simpl.
  rewrite Forall_forall in Hw. pose proof (Hw a (in_combine_l _ _ _ _ Hin)) as Ha. simpl in Ha.
  pose proof (Rle_0_sqr (y k)) as H. unfold Rsqr in H. rewrite Rmult_assoc. nra.
Qed.

Lemma cov_next_diag_nonneg C c1a cmu c1 pc sigma w ys k :
  0 <= C k -> 0 <= 1 - c1a - cmu * rsum w -> 0 <= cmu -> 0 < sigma -> Forall (fun x => 0 <= x) w ->
  0 <= cov_next_diag C c1a cmu c1 pc sigma (rank_mu_diag w ys) w k.
Proof.
  intros HC Ha Hc Hs Hw. unfold cov_next_diag.
  pose proof (rank_mu_diag_nonneg w ys k Hw) as Hr.
  pose proof (sigma_sq_inv_nonneg cmu sigma Hc Hs) as Hg.
  pose proof (Rle_0_sqr (c1 * pc k)) as Hp. unfold Rsqr in Hp.
  replace (c1 * (pc k * pc k) * c1) with (c1 * pc k * (c1 * pc k)) by ring.
  replace (rank_mu_diag w ys k * cmu / (sigma * sigma)) with (rank_mu_diag w ys k * (cmu / (sigma * sigma)))
    by (unfold Rdiv; ring).
  assert (0 <= C k * (1 - c1a - cmu * rsum w)) by nra.
  assert (0 <= rank_mu_diag w ys k * (cmu / (sigma * sigma))) by nra.
  lra.
Qed.

Lemma cov_next_diag_pos C c1a cmu c1 pc sigma w ys k :
  0 < C k -> 0 < 1 - c1a - cmu * rsum w -> 0 <= cmu -> 0 < sigma -> Forall (fun x => 0 <= x) w ->
  0 < cov_next_diag C c1a cmu c1 pc sigma (rank_mu_diag w ys) w k.
Proof.
  intros HC Ha Hc Hs Hw. unfold cov_next_diag.
  pose proof (rank_mu_diag_nonneg w ys k Hw) as Hr.
  pose proof (sigma_sq_inv_nonneg cmu sigma Hc Hs) as Hg.
  pose proof (Rle_0_sqr (c1 * pc k)) as Hp. unfold Rsqr in Hp.
  replace (c1 * (pc k * pc k) * c1) with (c1 * pc k * (c1 * pc k)) by ring.
  replace (rank_mu_diag w ys k * cmu / (sigma * sigma)) with (rank_mu_diag w ys k * (cmu / (sigma * sigma)))
    by (unfold Rdiv; ring).
  assert (0 < C k * (1 - c1a - cmu * rsum w)) by nra.
  assert (0 <= rank_mu_diag w ys k * (cmu / (sigma * sigma))) by nra.
  lra.
Qed.

(** * 5. invariants of tell / ask / reset and of every history *)
Lemma INR_ge_1 dim : (1 <= dim)%nat -> 1 <= INR dim.
Proof. intros H. replace 1 with (INR 1) by reflexivity. apply le_INR. exact H. Qed.

Lemma mu_pos_of_eqb mu : Nat.eqb mu 0 = false -> (1 <= mu)%nat.
Proof. intros E. apply Nat.eqb_neq in E. lia. Qed.

Lemma sigma_next_pos dim sigma cs damps ps : 0 < sigma -> 0 < sigma_next dim sigma cs damps ps.
Proof. intros H. unfold sigma_next. apply Rmult_lt_0_compat; [exact H | apply exp_pos]. Qed.

(** ** CMA-ES *)
Definition cma_inv (dim : nat) (s : cma) : Prop :=
  0 < c_sigma s /\ symmetric (c_cov s) /\ psd dim (c_cov s).

Lemma cma_init_inv dim sigma0 x0 : 0 < sigma0 -> cma_inv dim (cma_init sigma0 x0).
Proof. intros H. repeat split; simpl; [exact H | apply symmetric_identity | apply psd_identity]. Qed.

Lemma cma_ask_inv dim r s : cma_inv dim s -> cma_inv dim (cma_ask r s).
Proof.
  intros [Hs [Hsym Hpsd]]. destruct r; [|repeat split; assumption]. simpl.
  assert (E : forall i j, c_cov s i j = Rmax (c_cov s i j) (c_cov s j i)).
  { intros i j. rewrite <- (Hsym i j). unfold Rmax. destruct (Rle_dec _ _); reflexivity. }
  repeat split; simpl.
  - exact Hs.
  - intros i j. apply Rmax_comm.
  - exact (psd_ext dim _ _ E Hpsd).
Qed.

(** the symmetrisation of ask changes nothing on a symmetric covariance *)
Lemma cma_ask_cov dim r s : cma_inv dim s -> forall i j, c_cov (cma_ask r s) i j = c_cov s i j.
Proof.
  intros [_ [Hsym _]] i j. destruct r; simpl; [|reflexivity].
  rewrite <- (Hsym i j). unfold Rmax. destruct (Rle_dec _ _); reflexivity.
Qed.

Lemma cma_tell_inv dim batch s t : (1 <= dim)%nat -> cma_inv dim s -> cma_inv dim (cma_tell dim batch s t).
Proof.
  intros Hd [Hs [Hsym Hpsd]]. unfold cma_tell.
  destruct (Nat.eqb (t_mu t) 0) eqn:E; [repeat split; assumption|].
  pose proof (mu_pos_of_eqb _ E) as Hmu. pose proof (INR_ge_1 dim Hd) as Hn.
  pose proof (mueff_ge_1 _ Hmu) as Hme.
  repeat split; simpl.
  - apply sigma_next_pos. exact Hs.
  - apply cov_next_symmetric. exact Hsym.
  - apply cov_next_psd.
    + exact Hpsd.
    + apply cma_alpha_nonneg; [exact Hn | exact Hme | apply hsig_01 | apply weights_sum; exact Hmu].
    + apply (cma_cmu_bounds _ _ Hn Hme).
    + exact Hs.
    + apply weights_nonneg.
Qed.

Lemma cma_step_inv dim batch sigma0 s o :
  (1 <= dim)%nat -> 0 < sigma0 -> cma_inv dim s -> cma_inv dim (cma_step dim batch sigma0 s o).
Proof.
  intros Hd H0 I. destruct o as [r|t|x0]; simpl.
  - apply cma_ask_inv; exact I.
  - apply cma_tell_inv; assumption.
  - apply cma_init_inv; exact H0.
Qed.

Lemma fold_inv A B (f : A -> B -> A) (P : A -> Prop) :
  (forall a b, P a -> P (f a b)) -> forall l a, P a -> P (fold_left f l a).
Proof. intros H l. induction l as [|b t IH]; simpl; intros a Pa; [exact Pa | apply IH, H, Pa]. Qed.

Theorem cma_run_inv : forall dim batch sigma0 x0 h,
  (1 <= dim)%nat -> 0 < sigma0 -> cma_inv dim (cma_run dim batch sigma0 x0 h).
Proof.
  intros dim batch sigma0 x0 h Hd H0. unfold cma_run. apply fold_inv.
  - intros s o. apply cma_step_inv; assumption.
  - apply cma_init_inv; exact H0.
Qed.

(** the coefficients of one covariance update, as computed by the code's formulas, are non-negative *)
Theorem cma_coefficients : forall dim mu h,
  (1 <= dim)%nat -> (1 <= mu)%nat -> (h = 0 \/ h = 1) ->
  let n := INR dim in let me := mueff mu in
  let c1 := cma_c1 n me in let cmu := cma_cmu n me in let c1a := c1a_of c1 (cma_cc n me) h in
  0 <= c1a <= c1 /\ 0 <= cmu <= 1 - c1 /\ 0 <= 1 - c1a - cmu * rsum (weights mu) /\ 0 <= c1 * c1.
Proof.
  intros dim mu h Hd Hmu Hh n me c1 cmu c1a.
  pose proof (INR_ge_1 dim Hd) as Hn. pose proof (mueff_ge_1 _ Hmu) as Hme.
  pose proof (cma_c1_bounds n me Hn Hme) as [C0 C1].
  split; [apply c1a_bounds; [apply Rlt_le; exact C0 | apply cma_cc_bounds; assumption | exact Hh]|].
  split; [apply cma_cmu_bounds; assumption|].
  split; [apply cma_alpha_nonneg; [exact Hn | exact Hme | exact Hh | apply weights_sum; exact Hmu]|].
  pose proof (Rle_0_sqr c1) as H. unfold Rsqr in H. exact H.
Qed.

Theorem sep_coefficients : forall dim mu h,
  (1 <= dim)%nat -> (1 <= mu)%nat -> (h = 0 \/ h = 1) ->
  let n := INR dim in let me := mueff mu in
  let c1 := sep_c1 n me in let cmu := sep_cmu n me in let c1a := c1a_of c1 (sep_cc n me) h in
  0 <= c1a <= c1 /\ 0 <= cmu <= 1 - c1 /\ 0 <= 1 - c1a - cmu * rsum (weights mu) /\ 0 <= c1 * c1.
Proof.
  intros dim mu h Hd Hmu Hh n me c1 cmu c1a.
  pose proof (INR_ge_1 dim Hd) as Hn. pose proof (mueff_ge_1 _ Hmu) as Hme.
  pose proof (sep_c1_bounds n me Hn Hme) as [C0 C1].
  split; [apply c1a_bounds; [apply Rlt_le; exact C0 | apply sep_cc_bounds; assumption | exact Hh]|].
  split; [apply sep_cmu_bounds; assumption|].
  split; [apply sep_alpha_nonneg; [exact Hn | exact Hme | exact Hh | apply weights_sum; exact Hmu]|].
  pose proof (Rle_0_sqr c1) as H. unfold Rsqr in H. exact H.
Qed.

(** ** sep-CMA-ES *)
Definition sep_inv (s : sep) : Prop := 0 < s_sigma s /\ forall k, 0 <= s_cov s k.

Lemma sep_init_inv sigma0 x0 : 0 < sigma0 -> sep_inv (sep_init sigma0 x0).
Proof. intros H. split; simpl; [exact H | intros; lra]. Qed.

Lemma sep_tell_inv dim batch s t : (1 <= dim)%nat -> sep_inv s -> sep_inv (sep_tell dim batch s t).
Proof.
  intros Hd [Hs Hc]. unfold sep_tell.
  destruct (Nat.eqb (t_mu t) 0) eqn:E; [split; assumption|].
  pose proof (mu_pos_of_eqb _ E) as Hmu. pose proof (INR_ge_1 dim Hd) as Hn.
  pose proof (mueff_ge_1 _ Hmu) as Hme.
  split; simpl.
  - apply sigma_next_pos. exact Hs.
  - intros k. apply cov_next_diag_nonneg.
    + apply Hc.
    + apply sep_alpha_nonneg; [exact Hn | exact Hme | apply hsig_01 | apply weights_sum; exact Hmu].
    + apply (sep_cmu_bounds _ _ Hn Hme).
    + exact Hs.
    + apply weights_nonneg.
Qed.

Theorem sep_run_inv : forall dim batch sigma0 x0 h,
  (1 <= dim)%nat -> 0 < sigma0 -> sep_inv (sep_run dim batch sigma0 x0 h).
Proof.
  intros dim batch sigma0 x0 h Hd H0. unfold sep_run. apply fold_inv.
  - intros s [t|x1] I; simpl; [apply sep_tell_inv; assumption | apply sep_init_inv; exact H0].
  - apply sep_init_inv; exact H0.
Qed.

(** strict positivity of the diagonal is kept by a tell whose decay coefficient alpha is positive *)
Lemma sep_tell_cov_pos dim batch s t :
  (1 <= dim)%nat -> (1 <= t_mu t)%nat -> 0 < s_sigma s -> (forall k, 0 < s_cov s k) ->
  (let n := INR dim in let me := mueff (t_mu t) in
   forall h, h = 0 \/ h = 1 -> 0 < 1 - c1a_of (sep_c1 n me) (sep_cc n me) h - sep_cmu n me * rsum (weights (t_mu t))) ->
  forall k, 0 < s_cov (sep_tell dim batch s t) k.
Proof.
  intros Hd Hmu Hs Hc Ha k. unfold sep_tell.
  destruct (Nat.eqb (t_mu t) 0) eqn:E; [apply Nat.eqb_eq in E; lia|].
  pose proof (INR_ge_1 dim Hd) as Hn. pose proof (mueff_ge_1 _ Hmu) as Hme.
  simpl. apply cov_next_diag_pos.
  - apply Hc.
  - apply Ha. apply hsig_01.
  - apply (sep_cmu_bounds _ _ Hn Hme).
  - exact Hs.
  - apply weights_nonneg.
Qed.

(** ** LM-MA-ES *)
Lemma lm_tell_sigma_pos dim batch s t : 0 < l_sigma s -> 0 < l_sigma (lm_tell dim batch s t).
Proof.
  intros Hs. unfold lm_tell. destruct (Nat.eqb (t_mu t) 0); simpl; [exact Hs|].
  apply Rmult_lt_0_compat; [exact Hs | apply exp_pos].
Qed.

Theorem lm_run_sigma_pos : forall dim batch sigma0 x0 h, 0 < sigma0 -> 0 < l_sigma (lm_run dim batch sigma0 x0 h).
Proof.
  intros dim batch sigma0 x0 h H0. unfold lm_run. apply (fold_inv _ _ _ (fun s => 0 < l_sigma s)).
  - intros s [t|x1] I; simpl; [apply lm_tell_sigma_pos; exact I | exact H0].
  - simpl. exact H0.
Qed.

(** * 6. sigma > 0 over every history (C18_sigma_pos) *)
Theorem sigma_pos_all_histories : forall dim batch sigma0 x0, (1 <= dim)%nat -> 0 < sigma0 ->
  (forall h, 0 < c_sigma (cma_run dim batch sigma0 x0 h)) /\
  (forall h, 0 < s_sigma (sep_run dim batch sigma0 x0 h)) /\
  (forall h, 0 < l_sigma (lm_run dim batch sigma0 x0 h)).
Proof.
  intros dim batch sigma0 x0 Hd H0. split; [|split]; intros h.
  - apply (cma_run_inv dim batch sigma0 x0 h Hd H0).
  - apply (sep_run_inv dim batch sigma0 x0 h Hd H0).
  - apply lm_run_sigma_pos; exact H0.
Qed.

(** the update really is sigma' = sigma * exp(.) *)
Theorem sigma_update_shape : forall dim batch t,
  (forall s, exists e, c_sigma (cma_tell dim batch s t) = c_sigma s * exp e \/ c_sigma (cma_tell dim batch s t) = c_sigma s) /\
  (forall s, exists e, s_sigma (sep_tell dim batch s t) = s_sigma s * exp e \/ s_sigma (sep_tell dim batch s t) = s_sigma s) /\
  (forall s, exists e, l_sigma (lm_tell dim batch s t) = l_sigma s * exp e \/ l_sigma (lm_tell dim batch s t) = l_sigma s).
Proof.
  intros dim batch t. split; [|split]; intros s.
  - unfold cma_tell. destruct (Nat.eqb (t_mu t) 0); simpl; [exists 0; right; reflexivity|].
    unfold sigma_next. eexists; left; reflexivity.
  - unfold sep_tell. destruct (Nat.eqb (t_mu t) 0); simpl; [exists 0; right; reflexivity|].
    unfold sigma_next. eexists; left; reflexivity.
  - unfold lm_tell. destruct (Nat.eqb (t_mu t) 0); simpl; [exists 0; right; reflexivity|].
    eexists; left; reflexivity.
Qed.

(** * 7. covariance symmetric PSD over every history (C18_cov_psd_sym) *)
Theorem cov_psd_sym_all_histories : forall dim batch sigma0 x0, (1 <= dim)%nat -> 0 < sigma0 ->
  (forall h, let C := c_cov (cma_run dim batch sigma0 x0 h) in
             symmetric C /\ forall x : vec, 0 <= quad dim C x) /\
  (forall h k, 0 <= s_cov (sep_run dim batch sigma0 x0 h) k).
Proof.
  intros dim batch sigma0 x0 Hd H0. split.
  - intros h C. destruct (cma_run_inv dim batch sigma0 x0 h Hd H0) as [_ [S P]]. split; [exact S | exact P].
  - intros h k. destruct (sep_run_inv dim batch sigma0 x0 h Hd H0) as [_ P]. apply P.
Qed.

(** the covariance update has the shape alpha*C + beta*pc pc^T + gamma*sum_i w_i y_i y_i^T *)
Theorem cov_update_shape : forall dim batch s t, Nat.eqb (t_mu t) 0 = false ->
  exists alpha beta gamma pc ys,
    (forall i j, c_cov (cma_tell dim batch s t) i j =
       alpha * c_cov s i j + beta * (pc i * pc j) + gamma * rank_mu (weights (t_mu t)) ys i j) /\
    pc = c_pc (cma_tell dim batch s t) /\
    ys = map (fun (p : vec) k => p k - c_mean s k) (select_parents (t_sols t) (t_ranking t) (t_mu t)) /\
    ((1 <= dim)%nat -> 0 < c_sigma s -> 0 <= alpha /\ 0 <= beta /\ 0 <= gamma).
Proof.
  intros dim batch s t E.
  exists (1 - c1a_of (cma_c1 (INR dim) (mueff (t_mu t))) (cma_cc (INR dim) (mueff (t_mu t)))
                (hsig_of dim batch (c_evals s + length (t_ranking t)) (es_cs (INR dim) (mueff (t_mu t)))
                         (c_ps (cma_tell dim batch s t)))
            - cma_cmu (INR dim) (mueff (t_mu t)) * rsum (weights (t_mu t))).
  exists (cma_c1 (INR dim) (mueff (t_mu t)) * cma_c1 (INR dim) (mueff (t_mu t))).
  exists (cma_cmu (INR dim) (mueff (t_mu t)) / (c_sigma s * c_sigma s)).
  exists (c_pc (cma_tell dim batch s t)).
  exists (map (fun (p : vec) k => p k - c_mean s k) (select_parents (t_sols t) (t_ranking t) (t_mu t))).
  split; [|split; [reflexivity|split; [reflexivity|]]].
  - intros i j. unfold cma_tell. rewrite E. simpl. unfold cov_next, Rdiv. ring.
  - intros Hd Hs. pose proof (mu_pos_of_eqb _ E) as Hmu.
    pose proof (INR_ge_1 dim Hd) as Hn. pose proof (mueff_ge_1 _ Hmu) as Hme.
    split; [|split].
    + apply cma_alpha_nonneg; [exact Hn | exact Hme | apply hsig_01 | apply weights_sum; exact Hmu].
    + pose proof (Rle_0_sqr (cma_c1 (INR dim) (mueff (t_mu t)))) as H. unfold Rsqr in H. exact H.
    + apply (sigma_sq_inv_nonneg _ _ (proj1 (cma_cmu_bounds _ _ Hn Hme)) Hs).
Qed.

(** * 8. mean in the hull of the selected parents, for the three tells (C18_mean_in_hull) *)
Theorem tell_mean_in_hull : forall dim batch t k,
  (1 <= t_mu t <= length (t_ranking t))%nat ->
  let parents := select_parents (t_sols t) (t_ranking t) (t_mu t) in
  let lo := lmin (map (fun p : vec => p k) parents) in
  let hi := lmax (map (fun p : vec => p k) parents) in
  (forall s, lo <= c_mean (cma_tell dim batch s t) k <= hi) /\
  (forall s, lo <= s_mean (sep_tell dim batch s t) k <= hi) /\
  (forall s, lo <= l_mean (lm_tell dim batch s t) k <= hi).
Proof.
  intros dim batch t k H parents lo hi.
  assert (E : Nat.eqb (t_mu t) 0 = false) by (apply Nat.eqb_neq; lia).
  pose proof (recombine_in_hull (t_sols t) (t_ranking t) (t_mu t) k H) as B. cbv zeta in B.
  split; [|split]; intros s.
  - unfold cma_tell. rewrite E. simpl. exact B.
  - unfold sep_tell. rewrite E. simpl. exact B.
  - unfold lm_tell. rewrite E. simpl. exact B.
Qed.

(** the parents are the stored samples at the first [mu] positions of the ranking: a better rank gets the larger weight *)
Theorem tell_mean_formula : forall dim batch s t k,
  (1 <= t_mu t <= length (t_ranking t))%nat ->
  c_mean (cma_tell dim batch s t) k =
    rsum (map (fun wp : R * vec => fst wp * snd wp k)
              (combine (weights (t_mu t)) (map (t_sols t) (firstn (t_mu t) (t_ranking t))))).
Proof.
  intros dim batch s t k H.
  assert (E : Nat.eqb (t_mu t) 0 = false) by (apply Nat.eqb_neq; lia).
  unfold cma_tell. rewrite E. simpl. unfold recombine, select_parents. rewrite firstn_map. reflexivity.
Qed.

(** * 9. zero parents: nothing but the counter changes (C18_zero_parents) *)
Theorem zero_parents_unchanged : forall dim batch t, t_mu t = 0%nat ->
  (forall s, let s' := cma_tell dim batch s t in
     c_mean s' = c_mean s /\ c_sigma s' = c_sigma s /\ c_ps s' = c_ps s /\ c_pc s' = c_pc s /\ c_cov s' = c_cov s /\
     c_evals s' = (c_evals s + length (t_ranking t))%nat) /\
  (forall s, let s' := sep_tell dim batch s t in
     s_mean s' = s_mean s /\ s_sigma s' = s_sigma s /\ s_ps s' = s_ps s /\ s_pc s' = s_pc s /\ s_cov s' = s_cov s /\
     s_evals s' = (s_evals s + length (t_ranking t))%nat) /\
  (forall s, let s' := lm_tell dim batch s t in
     l_mean s' = l_mean s /\ l_sigma s' = l_sigma s /\ l_ps s' = l_ps s /\ l_m s' = l_m s /\
     l_gens s' = (l_gens s + 1)%nat).
Proof.
  intros dim batch t E. split; [|split]; intros s s'; subst s'.
  - unfold cma_tell. rewrite E. simpl. repeat split; reflexivity.
  - unfold sep_tell. rewrite E. simpl. repeat split; reflexivity.
  - unfold lm_tell. rewrite E. simpl. repeat split; reflexivity.
Qed.

(** * 10. tell uses the ranking ORDER and the stored samples only (C18_order_only) *)
Definition with_values (t : tell_in) (v : list R) : tell_in :=
  {| t_sols := t_sols t; t_zs := t_zs t; t_isq := t_isq t; t_ranking := t_ranking t; t_values := v; t_mu := t_mu t |}.

Theorem tell_order_only : forall dim batch t v,
  (forall s, cma_tell dim batch s (with_values t v) = cma_tell dim batch s t) /\
  (forall s, sep_tell dim batch s (with_values t v) = sep_tell dim batch s t) /\
  (forall s, lm_tell dim batch s (with_values t v) = lm_tell dim batch s t).
Proof. intros dim batch t v. split; [|split]; intros s; reflexivity. Qed.

(** ... and so does every history: replacing the ranking values of every tell changes nothing *)
Definition cma_op_with_values (f : tell_in -> list R) (o : cma_op) : cma_op :=
  match o with CTell t => CTell (with_values t (f t)) | _ => o end.
Definition es_op_with_values (f : tell_in -> list R) (o : es_op) : es_op :=
  match o with ETell t => ETell (with_values t (f t)) | _ => o end.

Lemma fold_left_map_ext A B (g : B -> B) (f : A -> B -> A) l :
  (forall a b, f a (g b) = f a b) -> forall a, fold_left f (map g l) a = fold_left f l a.
Proof. intros H. induction l as [|b t IH]; simpl; intros a; [reflexivity | rewrite H; apply IH]. Qed.

Theorem history_order_only : forall dim batch sigma0 x0 f,
  (forall h, cma_run dim batch sigma0 x0 (map (cma_op_with_values f) h) = cma_run dim batch sigma0 x0 h) /\
  (forall h, sep_run dim batch sigma0 x0 (map (es_op_with_values f) h) = sep_run dim batch sigma0 x0 h) /\
  (forall h, lm_run dim batch sigma0 x0 (map (es_op_with_values f) h) = lm_run dim batch sigma0 x0 h).
Proof.
  intros dim batch sigma0 x0 f. split; [|split]; intros h.
  - unfold cma_run. apply fold_left_map_ext. intros s [r|t|x1]; reflexivity.
  - unfold sep_run. apply fold_left_map_ext. intros s [t|x1]; reflexivity.
  - unfold lm_run. apply fold_left_map_ext. intros s [t|x1]; reflexivity.
Qed.

(** * 11. reset gives the initial distribution, whatever happened before (C18_reset) *)
Theorem reset_initial : forall dim batch sigma0 x0 x1,
  (forall h, cma_run dim batch sigma0 x0 (h ++ [CReset x1]) = cma_init sigma0 x1) /\
  (forall h, sep_run dim batch sigma0 x0 (h ++ [EReset x1]) = sep_init sigma0 x1) /\
  (forall h, lm_run dim batch sigma0 x0 (h ++ [EReset x1]) = lm_init sigma0 x1).
Proof.
  intros dim batch sigma0 x0 x1. split; [|split]; intros h.
  - unfold cma_run. rewrite fold_left_app. reflexivity.
  - unfold sep_run. rewrite fold_left_app. reflexivity.
  - unfold lm_run. rewrite fold_left_app. reflexivity.
Qed.

(** hence a history continued after a reset behaves like a fresh optimizer started at the reset point *)
Theorem reset_then_like_fresh : forall dim batch sigma0 x0 x1,
  (forall h h', cma_run dim batch sigma0 x0 (h ++ CReset x1 :: h') = cma_run dim batch sigma0 x1 h') /\
  (forall h h', sep_run dim batch sigma0 x0 (h ++ EReset x1 :: h') = sep_run dim batch sigma0 x1 h') /\
  (forall h h', lm_run dim batch sigma0 x0 (h ++ EReset x1 :: h') = lm_run dim batch sigma0 x1 h').
Proof.
  intros. unfold cma_run, sep_run, lm_run. repeat split; intros h h'; rewrite fold_left_app; reflexivity.
Qed.

Theorem init_distribution : forall sigma0 x0,
  (c_mean (cma_init sigma0 x0) = x0 /\ c_sigma (cma_init sigma0 x0) = sigma0 /\
   (forall k, c_ps (cma_init sigma0 x0) k = 0) /\ (forall k, c_pc (cma_init sigma0 x0) k = 0) /\
   (forall i j, c_cov (cma_init sigma0 x0) i j = if Nat.eqb i j then 1 else 0) /\ c_evals (cma_init sigma0 x0) = 0%nat) /\
  (s_mean (sep_init sigma0 x0) = x0 /\ s_sigma (sep_init sigma0 x0) = sigma0 /\
   (forall k, s_ps (sep_init sigma0 x0) k = 0) /\ (forall k, s_pc (sep_init sigma0 x0) k = 0) /\
   (forall k, s_cov (sep_init sigma0 x0) k = 1) /\ s_evals (sep_init sigma0 x0) = 0%nat) /\
  (l_mean (lm_init sigma0 x0) = x0 /\ l_sigma (lm_init sigma0 x0) = sigma0 /\
   (forall k, l_ps (lm_init sigma0 x0) k = 0) /\ (forall j k, l_m (lm_init sigma0 x0) j k = 0) /\
   l_gens (lm_init sigma0 x0) = 0%nat).
Proof. intros. simpl. repeat split; reflexivity. Qed.
