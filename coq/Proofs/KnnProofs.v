(** Relational specification of "the k nearest neighbours" and its link to the executable
    [ksmallest] / [kth] / [idx_below] / [idx_tie] of Model/Proximity.v.

    [is_knn k dists sel]: [sel] is a duplicate-free list of min(k, n) stored indices such that no
    unselected entry is strictly closer than a selected one.  Every answer a k-nearest-neighbour query
    may give (whatever its tie-breaking) is such a list. *)
From Coq Require Import List Arith Bool ZArith QArith Qreduction Lia Lqa Sorted Permutation.
From PV Require Import Base.ListUtil Base.QUtil Model.Store Proofs.StoreProofs Model.Archive Model.Proximity.
Import ListNotations.
Set Implicit Arguments.
Local Open Scope nat_scope.
Local Arguments Qplus : simpl never.
Local Arguments Qmult : simpl never.
Local Arguments Qle_bool : simpl never.

Definition dist_at (dists : list Q) (i : nat) : Q := nth i dists 0%Q.

Definition is_knn (k : nat) (dists : list Q) (sel : list nat) : Prop :=
  NoDup sel /\ length sel = Nat.min k (length dists) /\
  (forall i, In i sel -> i < length dists) /\
  (forall i j, In i sel -> j < length dists -> ~ In j sel -> (dist_at dists i <= dist_at dists j)%Q).

Definition sel_sum (dists : list Q) (sel : list nat) : Q := Qsum (map (dist_at dists) sel).

(** * sorting *)
Definition qsorted (l : list Q) : Prop := StronglySorted Qle l.

Lemma qinsert_perm x l : Permutation (qinsert x l) (x :: l).
Proof.
  induction l as [|y t IH]; simpl; auto.
  destruct (Qle_bool x y); auto.
  eapply perm_trans; [apply perm_skip, IH|apply perm_swap].
Qed.

Lemma qsort_perm l : Permutation (qsort l) l.
Proof.
  induction l as [|x t IH]; simpl; auto.
  eapply perm_trans; [apply qinsert_perm|apply perm_skip, IH].
Qed.

Lemma qsort_length l : length (qsort l) = length l.
Proof. apply Permutation_length, qsort_perm. Qed.

Lemma qinsert_sorted x l : qsorted l -> qsorted (qinsert x l).
Proof.
  induction 1 as [|y t Hs IH Hf]; simpl.
  - constructor; constructor.
  - rewrite Forall_forall in Hf. destruct (Qle_bool x y) eqn:E.
    + apply Qle_bool_iff in E. constructor; [constructor; auto; apply Forall_forall; auto|].
      apply Forall_forall. intros z [<-|Hz]; auto. specialize (Hf z Hz). lra.
    + assert (Hyx : (y <= x)%Q).
      { destruct (Qlt_le_dec y x) as [H|H]; [lra|]. apply Qle_bool_iff in H. congruence. }
      constructor; auto. apply Forall_forall. intros z Hz.
      apply (Permutation_in _ (qinsert_perm x t)) in Hz. destruct Hz as [<-|Hz]; auto.
Qed.

Lemma qsort_sorted l : qsorted (qsort l).
Proof. induction l; simpl; [constructor|apply qinsert_sorted; auto]. Qed.

Lemma Qsum_app l1 l2 : (Qsum (l1 ++ l2) == Qsum l1 + Qsum l2)%Q.
Proof. induction l1 as [|x t IH]; simpl; [ring|rewrite IH; ring]. Qed.

Lemma Qsum_perm l l' : Permutation l l' -> (Qsum l == Qsum l')%Q.
Proof.
  induction 1; simpl; try reflexivity.
  - rewrite IHPermutation; reflexivity.
  - ring.
  - etransitivity; eauto.
Qed.

(** the first |a| elements of a sorted list carry the same sum as any "lower part" [a] of it *)
Lemma sum_firstn_sorted n : forall s a b,
  length a = n -> qsorted s -> Permutation s (a ++ b) ->
  (forall x y, In x a -> In y b -> (x <= y)%Q) ->
  (Qsum (firstn n s) == Qsum a)%Q.
Proof.
  induction n as [|n IH]; intros s a b Hlen Hs Hp Hab.
  - destruct a; [reflexivity|discriminate].
  - destruct a as [|a0 a']; [discriminate|]. simpl in Hlen.
    destruct s as [|x s'].
    { apply Permutation_nil in Hp. discriminate. }
    inversion Hs as [|? ? Hs' Hx]; subst. rewrite Forall_forall in Hx.
    assert (Hin : In x ((a0 :: a') ++ b)) by (apply (Permutation_in _ Hp); simpl; auto).
    apply in_app_or in Hin. destruct Hin as [Hin|Hin].
    + apply in_split in Hin. destruct Hin as (a1 & a2 & Ha).
      rewrite Ha in Hp. rewrite <- app_assoc in Hp. simpl in Hp.
      apply Permutation_cons_app_inv in Hp. rewrite app_assoc in Hp.
      assert (Hl : length (a1 ++ a2) = n).
      { assert (H := f_equal (@length Q) Ha). simpl in H. rewrite app_length in *. simpl in H. lia. }
      assert (IHs := IH s' (a1 ++ a2) b Hl Hs' Hp).
      rewrite Ha. simpl firstn. simpl Qsum at 1.
      rewrite IHs.
      * rewrite (Qsum_perm (Permutation_sym (Permutation_middle a1 a2 x))). simpl. reflexivity.
      * intros u v Hu Hv. apply Hab; auto. rewrite Ha. apply in_app_or in Hu.
        apply in_or_app. destruct Hu; [left; auto|right; simpl; auto].
    + apply in_split in Hin. destruct Hin as (b1 & b2 & Hb).
      assert (Hall : forall u, In u (a0 :: a') -> (u == x)%Q).
      { intros u Hu. assert (Hle : (u <= x)%Q) by (apply Hab; auto; rewrite Hb; apply in_or_app; simpl; auto).
        assert (Hin' : In u (x :: s')).
        { apply (Permutation_in _ (Permutation_sym Hp)). apply in_or_app; auto. }
        destruct Hin' as [<-|Hin']; [reflexivity|]. specialize (Hx u Hin'). lra. }
      rewrite Hb in Hp.
      assert (Hp' : Permutation s' (a' ++ a0 :: b1 ++ b2)).
      { assert (Hq : Permutation (x :: s') (((a0 :: a') ++ b1) ++ x :: b2)) by (rewrite <- app_assoc; exact Hp).
        apply Permutation_cons_app_inv in Hq. rewrite <- app_assoc in Hq. simpl in Hq.
        eapply perm_trans; [exact Hq|]. apply Permutation_middle. }
      assert (IHs := IH s' a' (a0 :: b1 ++ b2) ltac:(lia) Hs' Hp').
      simpl firstn. simpl Qsum. rewrite IHs.
      * rewrite (Hall a0) by (simpl; auto). reflexivity.
      * intros u v Hu [<-|Hv].
        -- rewrite (Hall u) by (simpl; auto). rewrite (Hall a0) by (simpl; auto). lra.
        -- apply Hab; [simpl; auto|]. rewrite Hb. apply in_app_or in Hv. apply in_or_app.
           destruct Hv; [left; auto|right; simpl; auto].
Qed.

(** * index lists *)
Lemma map_nth_seq (l : list Q) : map (dist_at l) (seq 0 (length l)) = l.
Proof.
  unfold dist_at. induction l as [|x t IH]; simpl; auto.
  f_equal. rewrite <- seq_shift, map_map. exact IH.
Qed.

Definition rest_of (n : nat) (sel : list nat) : list nat := filter (fun i => negb (memb i sel)) (seq 0 n).

Lemma rest_of_In n sel i : In i (rest_of n sel) <-> i < n /\ ~ In i sel.
Proof.
  unfold rest_of. rewrite filter_In, in_seq, negb_true_iff, memb_false. intuition lia.
Qed.

Lemma NoDup_filter A (f : A -> bool) l : NoDup l -> NoDup (filter f l).
Proof.
  induction 1 as [|x t Hx Hnd IH]; simpl; [constructor|].
  destruct (f x); auto. constructor; auto. rewrite filter_In. tauto.
Qed.

Lemma sel_rest_perm n sel :
  NoDup sel -> (forall i, In i sel -> i < n) -> Permutation (seq 0 n) (sel ++ rest_of n sel).
Proof.
  intros Hnd Hr. apply NoDup_Permutation.
  - apply seq_NoDup.
  - apply NoDup_app_intro; auto.
    + apply NoDup_filter, seq_NoDup.
    + intros x Hx Hx'. apply rest_of_In in Hx'. tauto.
  - intros i. rewrite in_seq, in_app_iff, rest_of_In. split.
    + intros Hi. destruct (in_dec Nat.eq_dec i sel); [left; auto|right; split; [lia|auto]].
    + intros [Hi|[Hi _]]; [specialize (Hr i Hi)|]; lia.
Qed.

Lemma knn_split k dists sel :
  is_knn k dists sel ->
  Permutation dists (map (dist_at dists) sel ++ map (dist_at dists) (rest_of (length dists) sel)).
Proof.
  intros (Hnd & _ & Hr & _).
  rewrite <- map_app. rewrite <- (map_nth_seq dists) at 1.
  apply Permutation_map, sel_rest_perm; auto.
Qed.

(** the sum over ANY valid selection is the sum of the min(k, n) smallest distances *)
Theorem knn_sum k dists sel :
  is_knn k dists sel ->
  (sel_sum dists sel == Qsum (ksmallest (Nat.min k (length dists)) dists))%Q.
Proof.
  intros H. pose proof H as (Hnd & Hlen & Hr & Hord).
  unfold sel_sum, ksmallest. symmetry.
  apply sum_firstn_sorted with (b := map (dist_at dists) (rest_of (length dists) sel)).
  - rewrite map_length. exact Hlen.
  - apply qsort_sorted.
  - eapply perm_trans; [apply qsort_perm|apply (knn_split H)].
  - intros x y Hx Hy. apply in_map_iff in Hx. destruct Hx as (i & <- & Hi).
    apply in_map_iff in Hy. destruct Hy as (j & <- & Hj). apply rest_of_In in Hj.
    apply Hord; tauto.
Qed.

(** a valid selection always exists: the positions of the first min(k,n) elements in a stable
    arg-sort would do; for non-vacuity of the theorems it is enough to exhibit, for k >= n, the
    selection of all entries *)
Lemma knn_all k dists : length dists <= k -> is_knn k dists (seq 0 (length dists)).
Proof.
  intros Hk. repeat split.
  - apply seq_NoDup.
  - rewrite seq_length. lia.
  - intros i Hi. apply in_seq in Hi. lia.
  - intros i j _ Hj Hn. exfalso. apply Hn, in_seq. lia.
Qed.

(** * existence of a valid selection (arg-sort by distance, first min(k,n) positions) *)
Section ArgSort.
Variable dists : list Q.

Fixpoint iinsert (i : nat) (l : list nat) : list nat :=
  match l with
  | [] => [i]
  | j :: t => if Qle_bool (dist_at dists i) (dist_at dists j) then i :: l else j :: iinsert i t
  end.
Definition isort (l : list nat) : list nat := fold_right iinsert [] l.
Definition ile (i j : nat) : Prop := (dist_at dists i <= dist_at dists j)%Q.

Lemma iinsert_perm i l : Permutation (iinsert i l) (i :: l).
Proof.
  induction l as [|y t IH]; simpl; auto.
  destruct (Qle_bool _ _); auto.
  eapply perm_trans; [apply perm_skip, IH|apply perm_swap].
Qed.

Lemma isort_perm l : Permutation (isort l) l.
Proof.
  induction l as [|x t IH]; simpl; auto.
  eapply perm_trans; [apply iinsert_perm|apply perm_skip, IH].
Qed.

Lemma iinsert_sorted x l : StronglySorted ile l -> StronglySorted ile (iinsert x l).
Proof.
  induction 1 as [|y t Hs IH Hf]; simpl.
  - constructor; constructor.
  - rewrite Forall_forall in Hf. destruct (Qle_bool (dist_at dists x) (dist_at dists y)) eqn:E.
    + apply Qle_bool_iff in E. constructor; [constructor; auto; apply Forall_forall; auto|].
      apply Forall_forall. intros z [<-|Hz]; auto. specialize (Hf z Hz). unfold ile in *. lra.
    + assert (Hyx : ile y x).
      { unfold ile. destruct (Qlt_le_dec (dist_at dists y) (dist_at dists x)) as [H|H]; [lra|].
        apply Qle_bool_iff in H. congruence. }
      constructor; auto. apply Forall_forall. intros z Hz.
      apply (Permutation_in _ (iinsert_perm x t)) in Hz. destruct Hz as [<-|Hz]; auto.
Qed.

Lemma isort_sorted l : StronglySorted ile (isort l).
Proof. induction l; simpl; [constructor|apply iinsert_sorted; auto]. Qed.

Lemma sorted_app_le (l1 l2 : list nat) :
  StronglySorted ile (l1 ++ l2) -> forall x y, In x l1 -> In y l2 -> ile x y.
Proof.
  induction l1 as [|a t IH]; intros Hs x y Hx Hy; [destruct Hx|].
  simpl in Hs. inversion Hs as [|? ? Hs' Hf]; subst. rewrite Forall_forall in Hf.
  destruct Hx as [<-|Hx]; [apply Hf, in_or_app; auto|apply IH; auto].
Qed.

Lemma NoDup_app_l A (l1 l2 : list A) : NoDup (l1 ++ l2) -> NoDup l1.
Proof.
  induction l1 as [|a t IH]; simpl; intros H; [constructor|].
  inversion H; subst. constructor; auto. intros Hin. apply H2, in_or_app; auto.
Qed.

Theorem knn_exists k : exists sel, is_knn k dists sel.
Proof.
  set (n := length dists). set (srt := isort (seq 0 n)).
  assert (Hp : Permutation srt (seq 0 n)) by apply isort_perm.
  assert (Hlen : length srt = n) by (rewrite (Permutation_length Hp), seq_length; auto).
  assert (Hnd : NoDup srt) by (apply (Permutation_NoDup (Permutation_sym Hp)), seq_NoDup).
  exists (firstn (Nat.min k n) srt).
  assert (Hsplit := firstn_skipn (Nat.min k n) srt).
  rewrite <- Hsplit in Hnd.
  repeat split.
  - apply NoDup_app_l in Hnd. exact Hnd.
  - rewrite firstn_length. fold n. lia.
  - intros i Hi. assert (Hin : In i srt) by (rewrite <- Hsplit; apply in_or_app; auto).
    apply (Permutation_in _ Hp) in Hin. apply in_seq in Hin. fold n. lia.
  - intros i j Hi Hj Hnot.
    assert (Hin : In j srt) by (apply (Permutation_in _ (Permutation_sym Hp)), in_seq; fold n in Hj; lia).
    rewrite <- Hsplit in Hin. apply in_app_or in Hin. destruct Hin as [Hin|Hin]; [tauto|].
    apply (sorted_app_le (firstn (Nat.min k n) srt) (skipn (Nat.min k n) srt)); auto.
    rewrite Hsplit. apply isort_sorted.
Qed.
End ArgSort.

(** * counting on sorted lists *)
Lemma filter_all_false A (f : A -> bool) l : (forall x, In x l -> f x = false) -> filter f l = [].
Proof.
  induction l as [|x t IH]; intros H; simpl; auto.
  rewrite (H x) by (simpl; auto). apply IH. intros; apply H; simpl; auto.
Qed.

Lemma count_lt_sorted s : qsorted s -> forall m, m < length s ->
  length (filter (fun x => Qltb x (nth m s 0%Q)) s) <= m.
Proof.
  induction 1 as [|x t Hs IH Hf]; intros m Hm; simpl in *; [lia|].
  rewrite Forall_forall in Hf. destruct m as [|m'].
  - assert (E : Qltb x x = false) by (apply Qltb_ge; lra). rewrite E.
    rewrite filter_all_false; auto. intros y Hy. apply Qltb_ge. auto.
  - specialize (IH m' ltac:(lia)).
    destruct (Qltb x (nth m' t 0%Q)); simpl; lia.
Qed.

Lemma count_le_sorted s : qsorted s -> forall m, m < length s ->
  S m <= length (filter (fun x => Qle_bool x (nth m s 0%Q)) s).
Proof.
  induction 1 as [|x t Hs IH Hf]; intros m Hm; simpl in *; [lia|].
  rewrite Forall_forall in Hf. destruct m as [|m'].
  - assert (E : Qle_bool x x = true) by (apply Qle_bool_iff; lra). rewrite E. simpl. lia.
  - specialize (IH m' ltac:(lia)).
    assert (E : Qle_bool x (nth m' t 0%Q) = true).
    { apply Qle_bool_iff, Hf, nth_In. lia. }
    rewrite E. simpl. lia.
Qed.

Lemma filter_length_perm A (g : A -> bool) l l' :
  Permutation l l' -> length (filter g l) = length (filter g l').
Proof.
  induction 1; simpl; auto.
  - destruct (g x); simpl; auto.
  - destruct (g x), (g y); simpl; auto.
  - lia.
Qed.

Lemma filter_map_comm A B (h : A -> B) (g : B -> bool) l :
  filter g (map h l) = map h (filter (fun x => g (h x)) l).
Proof. induction l as [|x t IH]; simpl; auto. destruct (g (h x)); simpl; rewrite IH; auto. Qed.

Lemma filter_idx_length (g : Q -> bool) (l : list Q) :
  length (filter (fun i => g (dist_at l i)) (seq 0 (length l))) = length (filter g l).
Proof.
  transitivity (length (filter g (map (dist_at l) (seq 0 (length l))))).
  - rewrite filter_map_comm, map_length. reflexivity.
  - rewrite map_nth_seq. reflexivity.
Qed.

Lemma filter_split_length A (f g : A -> bool) l :
  length (filter f l) = length (filter f (filter g l)) + length (filter f (filter (fun x => negb (g x)) l)).
Proof.
  induction l as [|x t IH]; simpl; auto.
  destruct (g x); simpl; destruct (f x); simpl; lia.
Qed.

Lemma filter_compl_length A (f : A -> bool) l :
  length l = length (filter f l) + length (filter (fun x => negb (f x)) l).
Proof. induction l as [|x t IH]; simpl; auto. destruct (f x); simpl; lia. Qed.

(** * the local-competition interval *)
Section LcRange.
Variable lowerf : nat -> bool.
Variable k : nat.
Variable dists : list Q.
Hypothesis Hk : 1 <= k <= length dists.

Let n := length dists.
Let dk := kth k dists.
Let B := idx_below k dists.
Let T := idx_tie k dists.
Let LE := filter (fun i => Qle_bool (dist_at dists i) dk) (seq 0 n).

Lemma B_In i : In i B <-> i < n /\ (dist_at dists i < dk)%Q.
Proof.
  unfold B, idx_below, idx_below_at. rewrite filter_In, in_seq. fold (dist_at dists i). fold dk. rewrite Qltb_lt.
  fold n. intuition lia.
Qed.

Lemma T_In i : In i T <-> i < n /\ (dist_at dists i == dk)%Q.
Proof.
  unfold T, idx_tie, idx_tie_at. rewrite filter_In, in_seq. fold (dist_at dists i). fold dk. rewrite Qeq_bool_iff.
  fold n. intuition lia.
Qed.

Lemma LE_In i : In i LE <-> i < n /\ (dist_at dists i <= dk)%Q.
Proof. unfold LE. rewrite filter_In, in_seq, Qle_bool_iff. intuition lia. Qed.

Lemma B_NoDup : NoDup B. Proof. apply NoDup_filter, seq_NoDup. Qed.
Lemma T_NoDup : NoDup T. Proof. apply NoDup_filter, seq_NoDup. Qed.
Lemma LE_NoDup : NoDup LE. Proof. apply NoDup_filter, seq_NoDup. Qed.

Lemma B_small : length B <= k - 1.
Proof.
  unfold B, idx_below, idx_below_at.
  pose proof (filter_idx_length (fun x => Qltb x (kth k dists)) dists) as E. unfold dist_at in E. rewrite E. clear E.
  rewrite (filter_length_perm _ (Permutation_sym (qsort_perm dists))).
  unfold kth. apply count_lt_sorted; [apply qsort_sorted|]. rewrite qsort_length. lia.
Qed.

Lemma LE_big : k <= length LE.
Proof.
  unfold LE, n, dk.
  rewrite (filter_idx_length (fun x => Qle_bool x (kth k dists)) dists).
  rewrite (filter_length_perm _ (Permutation_sym (qsort_perm dists))).
  unfold kth. replace k with (S (k - 1)) at 1 by lia.
  apply count_le_sorted; [apply qsort_sorted|]. rewrite qsort_length. lia.
Qed.

Variable sel : list nat.
Hypothesis Hsel : is_knn k dists sel.

Lemma sel_len : length sel = k.
Proof. destruct Hsel as (_ & Hl & _). rewrite Hl. lia. Qed.

(** everything strictly inside the k-th distance is selected *)
Lemma below_selected i : In i B -> In i sel.
Proof.
  intros Hi. destruct (in_dec Nat.eq_dec i sel) as [|Hn]; auto. exfalso.
  pose proof Hsel as (Hnd & _ & Hr & Hord).
  apply B_In in Hi. destruct Hi as [Hin Hlt].
  assert (Hincl : incl (i :: sel) B).
  { intros j [<-|Hj]; apply B_In; [split; auto|].
    split; [apply Hr; auto|]. specialize (Hord j i Hj Hin Hn). lra. }
  assert (Hnd' : NoDup (i :: sel)) by (constructor; auto).
  pose proof (NoDup_incl_length Hnd' Hincl) as Hl. simpl in Hl.
  pose proof B_small. rewrite sel_len in Hl. lia.
Qed.

(** nothing beyond the k-th distance is selected *)
Lemma selected_le j : In j sel -> In j LE.
Proof.
  intros Hj. pose proof Hsel as (Hnd & _ & Hr & Hord).
  apply LE_In. split; [apply Hr; auto|].
  destruct (Qlt_le_dec dk (dist_at dists j)) as [Hgt|]; auto. exfalso.
  assert (Hincl : incl LE sel).
  { intros i Hi. apply LE_In in Hi. destruct Hi as [Hin Hle].
    destruct (in_dec Nat.eq_dec i sel) as [|Hn]; auto. exfalso.
    specialize (Hord j i Hj Hin Hn). lra. }
  assert (HjLE : ~ In j LE) by (rewrite LE_In; intros [_ H]; lra).
  assert (Hincl' : incl (j :: LE) sel) by (intros i [<-|Hi]; auto).
  assert (Hnd' : NoDup (j :: LE)) by (constructor; auto; apply LE_NoDup).
  pose proof (NoDup_incl_length Hnd' Hincl') as Hl. simpl in Hl.
  pose proof LE_big. rewrite sel_len in Hl. lia.
Qed.

Lemma selected_BT j : In j sel -> In j B \/ In j T.
Proof.
  intros Hj. apply selected_le, LE_In in Hj. destruct Hj as [Hn Hle].
  destruct (Qlt_le_dec (dist_at dists j) dk); [left; apply B_In; auto|right; apply T_In; split; auto; lra].
Qed.

Let selB := filter (fun i => memb i B) sel.
Let selT := filter (fun i => negb (memb i B)) sel.

Lemma selB_perm : Permutation selB B.
Proof.
  apply NoDup_Permutation.
  - apply NoDup_filter. apply Hsel.
  - apply B_NoDup.
  - intros i. unfold selB. rewrite filter_In, memb_In. split; [tauto|].
    intros Hi. split; auto. apply below_selected; auto.
Qed.

Lemma selT_len : length selT = k - length B.
Proof.
  pose proof (filter_compl_length (fun i => memb i B) sel) as H. cbv beta in H.
  fold selB selT in H. rewrite (Permutation_length selB_perm), sel_len in H. lia.
Qed.

Lemma selT_incl (f : nat -> bool) : incl (filter f selT) (filter f T).
Proof.
  intros i Hi. apply filter_In in Hi. destruct Hi as [Hi Hf]. apply filter_In. split; auto.
  unfold selT in Hi. apply filter_In in Hi. destruct Hi as [Hi Hb].
  apply negb_true_iff, memb_false in Hb. destruct (selected_BT i Hi); tauto.
Qed.

Lemma selT_NoDup (f : nat -> bool) : NoDup (filter f selT).
Proof. apply NoDup_filter, NoDup_filter, Hsel. Qed.

Theorem lc_range_sound :
  let need := k - length B in
  let bl := countb lowerf B in
  let tl := countb lowerf T in
  let tn := length T - tl in
  bl + (need - tn) <= countb lowerf sel <= bl + Nat.min need tl.
Proof.
  intros need bl tl tn. unfold countb in *.
  rewrite (filter_split_length lowerf (fun i => memb i B) sel). fold selB selT.
  rewrite (filter_length_perm lowerf selB_perm). fold bl.
  pose proof (NoDup_incl_length (selT_NoDup lowerf) (selT_incl lowerf)) as H1. fold tl in H1.
  pose proof (NoDup_incl_length (selT_NoDup (fun i => negb (lowerf i))) (selT_incl (fun i => negb (lowerf i)))) as H2.
  pose proof (filter_compl_length lowerf selT) as H3. rewrite selT_len in H3. fold need in H3.
  pose proof (filter_compl_length lowerf T) as H4. fold tl in H4.
  lia.
Qed.

End LcRange.

(** with exactly [need] entries at the k-th distance (no tie at the boundary) the interval is a point *)
Lemma lc_range_point (bl need tl lenT : nat) :
  tl <= lenT -> lenT = need -> bl + (need - (lenT - tl)) = bl + Nat.min need tl.
Proof. lia. Qed.

(** * completeness of the interval: every count in it is produced by some valid selection *)
Lemma filter_filter_true A (f : A -> bool) l : filter f (filter f l) = filter f l.
Proof.
  induction l as [|x t IH]; simpl; auto. destruct (f x) eqn:E; simpl; [rewrite E, IH|]; auto.
Qed.

Lemma filter_firstn_all A (f : A -> bool) l m : (forall x, In x l -> f x = true) -> filter f (firstn m l) = firstn m l.
Proof.
  revert m; induction l as [|x t IH]; intros [|m] H; simpl; auto.
  rewrite (H x) by (simpl; auto). f_equal. apply IH. intros; apply H; simpl; auto.
Qed.

Lemma In_firstn A (l : list A) m x : In x (firstn m l) -> In x l.
Proof. intros H. rewrite <- (firstn_skipn m l). apply in_or_app; auto. Qed.

Lemma filter_firstn_none A (f : A -> bool) l m : (forall x, In x l -> f x = false) -> filter f (firstn m l) = [].
Proof.
  intros H. apply filter_all_false. intros x Hx. apply H. eapply In_firstn; eauto.
Qed.

Lemma NoDup_firstn A (l : list A) m : NoDup l -> NoDup (firstn m l).
Proof.
  intros H. rewrite <- (firstn_skipn m l) in H. apply NoDup_app_l in H. exact H.
Qed.

Section LcComplete.
Variable lowerf : nat -> bool.
Variable k : nat.
Variable dists : list Q.
Hypothesis Hk : 1 <= k <= length dists.

Let n := length dists.
Let dk := kth k dists.
Let B := idx_below k dists.
Let T := idx_tie k dists.
Let TL := filter lowerf T.
Let TN := filter (fun i => negb (lowerf i)) T.
Let need := k - length B.

Lemma LE_split : length (filter (fun i => Qle_bool (dist_at dists i) dk) (seq 0 n)) = length B + length T.
Proof.
  unfold B, T, idx_below, idx_tie, idx_below_at, idx_tie_at. fold n. fold dk.
  induction (seq 0 n) as [|i t IH]; simpl; auto.
  fold (dist_at dists i).
  destruct (Qle_bool (dist_at dists i) dk) eqn:E1.
  - apply Qle_bool_iff in E1. destruct (Qltb (dist_at dists i) dk) eqn:E2.
    + apply Qltb_lt in E2. assert (E3 : Qeq_bool (dist_at dists i) dk = false).
      { destruct (Qeq_bool (dist_at dists i) dk) eqn:E; auto. apply Qeq_bool_iff in E. lra. }
      rewrite E3. simpl. rewrite IH. lia.
    + apply Qltb_ge in E2. assert (E3 : Qeq_bool (dist_at dists i) dk = true) by (apply Qeq_bool_iff; lra).
      rewrite E3. simpl. rewrite IH. lia.
  - assert (Hgt : (dk < dist_at dists i)%Q).
    { destruct (Qlt_le_dec dk (dist_at dists i)); auto. apply Qle_bool_iff in q. congruence. }
    assert (E2 : Qltb (dist_at dists i) dk = false) by (apply Qltb_ge; lra).
    assert (E3 : Qeq_bool (dist_at dists i) dk = false).
    { destruct (Qeq_bool (dist_at dists i) dk) eqn:E; auto. apply Qeq_bool_iff in E. lra. }
    rewrite E2, E3. exact IH.
Qed.

Lemma need_le_T : need <= length T /\ length B + need = k.
Proof.
  pose proof (@LE_big k dists Hk) as H1. pose proof (@B_small k dists Hk) as H2. pose proof LE_split as H3.
  fold n dk in H1. rewrite H3 in H1. fold B in H2. unfold need. lia.
Qed.

Theorem lc_range_complete t :
  need - (length T - countb lowerf T) <= t <= Nat.min need (countb lowerf T) ->
  exists sel, is_knn k dists sel /\ countb lowerf sel = countb lowerf B + t.
Proof.
  intros Ht. unfold countb in *. fold TL in Ht |- *.
  pose proof (filter_compl_length lowerf T) as HT. fold TL TN in HT.
  destruct need_le_T as [Hn1 Hn2].
  set (sel := B ++ firstn t TL ++ firstn (need - t) TN).
  assert (HinB : forall i, In i B <-> i < n /\ (dist_at dists i < dk)%Q) by (exact (@B_In lowerf k dists Hk)).
  assert (HinT : forall i, In i T <-> i < n /\ (dist_at dists i == dk)%Q) by (exact (@T_In lowerf k dists Hk)).
  assert (HTL : forall i, In i TL -> In i T /\ lowerf i = true) by (intros i Hi; apply filter_In in Hi; auto).
  assert (HTN : forall i, In i TN -> In i T /\ lowerf i = false).
  { intros i Hi. apply filter_In in Hi. destruct Hi as [H1 H2]. apply negb_true_iff in H2. auto. }
  assert (Hsel_in : forall i, In i sel -> i < n /\ (dist_at dists i <= dk)%Q).
  { intros i Hi. unfold sel in Hi. apply in_app_or in Hi. destruct Hi as [Hi|Hi].
    - apply HinB in Hi. destruct Hi; split; auto; lra.
    - apply in_app_or in Hi. destruct Hi as [Hi|Hi]; apply In_firstn in Hi;
        [apply HTL in Hi|apply HTN in Hi]; destruct Hi as [Hi _]; apply HinT in Hi; destruct Hi; split; auto; lra. }
  exists sel. split.
  - split; [|split; [|split]].
    + unfold sel. apply NoDup_app_intro.
      * apply NoDup_filter, seq_NoDup.
      * apply NoDup_app_intro.
        -- apply NoDup_firstn, NoDup_filter, NoDup_filter, seq_NoDup.
        -- apply NoDup_firstn, NoDup_filter, NoDup_filter, seq_NoDup.
        -- intros i H1 H2. apply In_firstn in H1. apply In_firstn in H2.
           apply HTL in H1. apply HTN in H2. destruct H1, H2. congruence.
      * intros i H1 H2. apply HinB in H1. apply in_app_or in H2.
        destruct H2 as [H2|H2]; apply In_firstn in H2; [apply HTL in H2|apply HTN in H2];
          destruct H2 as [H2 _]; apply HinT in H2; destruct H1, H2; lra.
    + unfold sel. rewrite !app_length, !firstn_length. fold n. lia.
    + intros i Hi. apply Hsel_in in Hi. fold n. tauto.
    + intros i j Hi Hj Hnot. apply Hsel_in in Hi. destruct Hi as [_ Hi].
      destruct (Qlt_le_dec (dist_at dists j) dk) as [Hlt|Hge]; [|lra].
      exfalso. apply Hnot. unfold sel. apply in_or_app. left. apply HinB. fold n in Hj. auto.
  - unfold sel. rewrite !filter_app, !app_length.
    rewrite (filter_firstn_all lowerf TL t) by (intros x Hx; apply HTL in Hx; tauto).
    rewrite (filter_firstn_none lowerf TN (need - t)) by (intros x Hx; apply HTN in Hx; tauto).
    rewrite firstn_length. simpl. lia.
Qed.

End LcComplete.

(** * a decision procedure for [is_knn] (used by the examples) *)
Fixpoint nodupb (l : list nat) : bool :=
  match l with [] => true | x :: t => negb (memb x t) && nodupb t end.

Lemma nodupb_iff l : nodupb l = true <-> NoDup l.
Proof.
  induction l as [|x t IH]; simpl.
  - split; [constructor|auto].
  - rewrite andb_true_iff, negb_true_iff, memb_false, IH. split.
    + intros [H1 H2]. constructor; auto.
    + intros H. inversion H; auto.
Qed.

Definition is_knn_b (k : nat) (dists : list Q) (sel : list nat) : bool :=
  nodupb sel && Nat.eqb (length sel) (Nat.min k (length dists)) &&
  forallb (fun i => Nat.ltb i (length dists)) sel &&
  forallb (fun i => forallb (fun j => memb j sel || Qle_bool (dist_at dists i) (dist_at dists j))
                            (seq 0 (length dists))) sel.

Lemma is_knn_b_iff k dists sel : is_knn_b k dists sel = true <-> is_knn k dists sel.
Proof.
  unfold is_knn_b, is_knn. rewrite !andb_true_iff, nodupb_iff, Nat.eqb_eq, !forallb_forall.
  split.
  - intros [[[H1 H2] H3] H4]. repeat split; auto.
    + intros i Hi. apply Nat.ltb_lt, H3, Hi.
    + intros i j Hi Hj Hn. specialize (H4 i Hi). rewrite forallb_forall in H4.
      specialize (H4 j ltac:(apply in_seq; lia)). apply orb_true_iff in H4.
      destruct H4 as [H4|H4]; [apply memb_In in H4; tauto|apply Qle_bool_iff; auto].
  - intros (H1 & H2 & H3 & H4). repeat split; auto.
    + intros i Hi. apply Nat.ltb_lt, H3, Hi.
    + intros i Hi. apply forallb_forall. intros j Hj. apply in_seq in Hj.
      destruct (memb j sel) eqn:E; simpl; auto.
      apply Qle_bool_iff, H4; auto; [lia|]. apply memb_false; auto.
Qed.
