(** C07: retrieve returns the elite of the queried cell or the blank row; every stored elite sits in the
    cell its own measures map to; sample_elites returns only current elites. *)
From Coq Require Import List Arith Bool ZArith QArith Qreduction Lia Lqa Sorted.
From PV Require Import Base.ListUtil Base.QUtil Base.FirstArgmax Model.Store Proofs.StoreProofs
     Model.Archive Proofs.ArchiveProofs Proofs.C01Proofs Proofs.C02Proofs.
Import ListNotations.
Set Implicit Arguments.
Local Open Scope nat_scope.

Section C07.
Variable P : Type.
Notation cand := (cand P).
Notation row := (row P).
Notation archive := (archive P).
Notation aop := (aop P).

(** implementation shape of ArchiveBase.retrieve: store.retrieve(index_of(measures)), then blank out
    every field of the unoccupied rows *)
Definition retrieve_impl (a : archive) (q : list nat) : result (list (bool * option (nat * row))) :=
  match Store.retrieve (a_store a) q with
  | Err e => Err e
  | Ok view =>
      Ok (map (fun iv : nat * (bool * option row) => let '(i, (o, r)) := iv in
                         if o then (true, match r with Some x => Some (i, x) | None => None end)
                         else (false, None))
              (combine q view))
  end.

Lemma retrieve_impl_spec (c : cfg) (a : archive) (q : list nat) :
  AInv c a -> (forall i, In i q -> i < cells c) ->
  retrieve_impl a q = Ok (retrieve_cells a q).
Proof.
  intros HA Hq. unfold retrieve_impl, Store.retrieve.
  assert (Hr : in_range (a_store a) q = true).
  { apply in_range_spec. intros j Hj. rewrite (ainv_cap HA). auto. }
  rewrite Hr. f_equal. unfold retrieve_cells.
  clear Hr. induction q as [|i t IH]; simpl; auto.
  rewrite IH by (intros; apply Hq; simpl; auto). f_equal.
  unfold content.
  destruct (content_cases i HA) as [[Hn Ho]|(r & Hs & Ho & Hrow)].
  - rewrite Ho. reflexivity.
  - rewrite Ho, Hrow. reflexivity.
Qed.

(** per query: occupied=true with the complete elite of the queried cell, or occupied=false + blank *)
Lemma retrieve_cells_nth (a : archive) (q : list nat) k :
  k < length q ->
  nth k (retrieve_cells a q) (false, None) =
  match content a (nth k q 0) with
  | Some r => (true, Some (nth k q 0, r))
  | None => (false, None)
  end.
Proof.
  revert k; induction q as [|i t IH]; intros k Hk; simpl in *; [lia|].
  destruct k as [|k]; [reflexivity|]. apply IH. lia.
Qed.

(** retrieve_single m = first entry of retrieve [m] *)
Lemma retrieve_single_eq (a : archive) (i : nat) :
  hd (false, None) (retrieve_cells a [i]) =
  match content a i with Some r => (true, Some (i, r)) | None => (false, None) end.
Proof. reflexivity. Qed.

(** * every stored elite lies in the cell its own measures map to (fixed geometry) *)
Variable cell_of : P -> nat.   (* index_of applied to the payload's own measures *)

Definition consistent_cand (x : cand) : Prop := c_cell x = cell_of (c_pay x).
Definition consistent_op (o : aop) : Prop :=
  match o with Add cs => Forall consistent_cand cs | AddSingle x => consistent_cand x | Clear => True end.

Definition InOwnCell (a : archive) : Prop := forall i r, content a i = Some r -> cell_of (r_pay r) = i.

Lemma astep_own_cell (c : cfg) (a : archive) o :
  AInv c a -> wf_op c o -> consistent_op o -> InOwnCell a -> InOwnCell (astep c a o).
Proof.
  intros HA Hwf Hco HI. destruct o as [cs|x|]; unfold astep.
  - intros i r Hr. rewrite (add_content_spec i HA Hwf) in Hr.
    destruct (first_argmax c_obj (accepted c a cs i)) as [w|] eqn:E; [|eapply HI; eauto].
    inversion Hr; subst; simpl. apply first_argmax_in in E. unfold accepted in E.
    apply filter_In in E. destruct E as [E _]. apply group_in in E. destruct E as [Hin Hc].
    simpl in Hco. rewrite Forall_forall in Hco. rewrite <- (Hco w Hin). exact Hc.
  - intros i r Hr. rewrite (add_single_content x i HA Hwf) in Hr.
    unfold single_row in Hr.
    destruct (Nat.eqb_spec i (c_cell x)) as [->|Hne]; simpl in Hr.
    + destruct (single_ok c (bump_add (a_store a)) x); [|eapply HI; eauto].
      inversion Hr; subst; simpl. symmetry. exact Hco.
    + eapply HI; eauto.
  - intros i r Hr. rewrite clear_content in Hr. discriminate.
Qed.

Theorem own_cell_invariant (c : cfg) (h : list aop) :
  wf_hist c h -> (forall o, In o h -> consistent_op o) -> InOwnCell (arun c h).
Proof.
  unfold arun.
  assert (H0 : InOwnCell (arch_init P c)) by (intros i r Hr; rewrite init_content in Hr; discriminate).
  revert H0. generalize (init_ainv P c). generalize (arch_init P c).
  induction h as [|o t IH]; intros a HA HI Hwf Hco; simpl; auto.
  apply IH.
  - apply astep_ainv; auto.
  - apply astep_own_cell; auto; [apply Hwf|apply Hco]; simpl; auto.
  - intros o' Ho'. apply Hwf; simpl; auto.
  - intros o' Ho'. apply Hco; simpl; auto.
Qed.

(** hence querying a stored elite's own measures finds it *)
Corollary stored_elite_retrievable (c : cfg) (h : list aop) i r :
  wf_hist c h -> (forall o, In o h -> consistent_op o) ->
  content (arun c h) i = Some r ->
  retrieve_cells (arun c h) [cell_of (r_pay r)] = [(true, Some (i, r))].
Proof.
  intros Hwf Hco Hr. rewrite (own_cell_invariant Hwf Hco i Hr). unfold retrieve_cells; simpl. rewrite Hr. reflexivity.
Qed.

(** * sample_elites *)
Lemma sample_empty (a : archive) ints : len (a_store a) = 0 -> sample a ints = Err IndexError.
Proof. intros H. unfold sample. rewrite H. reflexivity. Qed.

Lemma sample_current (c : cfg) (a : archive) ints :
  AInv c a -> len (a_store a) <> 0 -> (forall k, In k ints -> k < len (a_store a)) ->
  exists l, sample a ints = Ok l /\ length l = length ints /\
            forall i r, In (i, r) l -> exists e, r = Some e /\ content a i = Some e.
Proof.
  intros HA Hne Hk. unfold sample.
  destruct (Nat.eqb_spec (len (a_store a)) 0) as [|_]; [contradiction|].
  eexists; split; [reflexivity|]. split; [apply map_length|].
  intros i r Hin. apply in_map_iff in Hin. destruct Hin as (k & Heq & Hkin).
  inversion Heq; subst; clear Heq.
  set (i := nth k (olist (a_store a)) 0).
  assert (Hi : In i (olist (a_store a))) by (apply nth_In; apply Hk; auto).
  apply (inv_olist_occ (ainv_store HA)) in Hi.
  destruct (content_cases i HA) as [[_ Ho]|(e & Hs & _ & Hrow)]; [congruence|].
  exists e. split; auto.
Qed.

(** every current elite is reachable by some integer below len *)
Lemma sample_reaches (c : cfg) (a : archive) i e :
  AInv c a -> content a i = Some e ->
  exists k, k < len (a_store a) /\ sample a [k] = Ok [(i, Some e)].
Proof.
  intros HA Hc.
  destruct (content_cases i HA) as [[Hn _]|(e' & Hs & Ho & Hrow)]; [congruence|].
  rewrite Hc in Hs. inversion Hs; subst e'. clear Hs.
  apply (inv_olist_occ (ainv_store HA)) in Ho.
  destruct (In_nth _ _ 0 Ho) as (k & Hk & Hnth).
  exists k. split; auto. unfold sample.
  destruct (Nat.eqb_spec (len (a_store a)) 0) as [Hz|_]; [unfold len in Hz; lia|].
  simpl. rewrite Hnth, Hrow. reflexivity.
Qed.

End C07.
