(** Lemmas about the ranker model (Model/Ranker.v) against its specification (Spec/RankerSpec.v). *)
From Coq Require Import List ZArith QArith Bool Arith Lia Lqa Permutation Sorted.
From PV Require Import Model.Store Model.Ranker Spec.RankerSpec.
Import ListNotations.
Open Scope Q_scope.

(** * stable insertion sort on positions *)
Section Sort.
Variable K : Type.
Variable le : K -> K -> bool.
Hypothesis le_total : forall x y, le x y = true \/ le y x = true.
Hypothesis le_trans : forall x y z, le x y = true -> le y z = true -> le x z = true.
Variable key : nat -> K.

Definition le_key (i j : nat) : Prop := le (key i) (key j) = true.

Lemma insert_by_perm i l : Permutation (insert_by le key i l) (i :: l).
Proof.
  induction l as [|j t IH]; simpl; [reflexivity|].
  destruct (le (key i) (key j)); [reflexivity|].
  rewrite IH. apply perm_swap.
Qed.

Lemma stable_sort_perm l : Permutation (stable_sort_by le key l) l.
Proof.
  induction l as [|i t IH]; simpl; [reflexivity|].
  rewrite insert_by_perm. constructor. exact IH.
Qed.

Lemma insert_by_sorted i l :
  StronglySorted le_key l -> StronglySorted le_key (insert_by le key i l).
Proof.
  induction l as [|j t IH]; intros Hs; simpl.
  - repeat constructor.
  - destruct (le (key i) (key j)) eqn:E.
    + constructor; [exact Hs|]. inversion Hs as [|? ? Ht Hj]; subst.
      constructor; [exact E|]. rewrite Forall_forall in *. intros z Hz.
      eapply le_trans; [exact E | apply Hj; exact Hz].
    + inversion Hs as [|? ? Ht Hj]; subst. constructor; [apply IH; exact Ht|].
      rewrite Forall_forall in *. intros z Hz.
      apply (Permutation_in _ (insert_by_perm i t)) in Hz. destruct Hz as [<-|Hz]; [|apply Hj; exact Hz].
      destruct (le_total (key i) (key j)) as [H|H]; [congruence | exact H].
Qed.

Lemma stable_sort_sorted l : StronglySorted le_key (stable_sort_by le key l).
Proof.
  induction l as [|i t IH]; simpl; [constructor | apply insert_by_sorted; exact IH].
Qed.

(** ** sorting stably by [key] a list already sorted by a secondary key gives a lexicographic order *)
Variable K2 : Type.
Variable le2 : K2 -> K2 -> bool.
Variable key2 : nat -> K2.

Definition le_key2 (i j : nat) : Prop := le2 (key2 i) (key2 j) = true.
Definition lex_key (i j : nat) : Prop :=
  le (key i) (key j) = true /\ (le (key j) (key i) = true -> le2 (key2 i) (key2 j) = true).

Lemma insert_by_lex i l :
  StronglySorted lex_key l -> Forall (le_key2 i) l -> StronglySorted lex_key (insert_by le key i l).
Proof.
  induction l as [|j t IH]; intros Hs Hi; simpl.
  - repeat constructor.
  - inversion Hs as [|? ? Ht Hj]; subst. inversion Hi as [|? ? Hij Hit]; subst.
    destruct (le (key i) (key j)) eqn:E.
    + constructor; [exact Hs|]. constructor; [split; [exact E | intros _; exact Hij]|].
      rewrite Forall_forall in *. intros z Hz. split.
      * eapply le_trans; [exact E | apply (Hj z Hz)].
      * intros _. apply Hit; exact Hz.
    + constructor; [apply IH; assumption|].
      rewrite Forall_forall in *. intros z Hz.
      apply (Permutation_in _ (insert_by_perm i t)) in Hz. destruct Hz as [<-|Hz]; [|apply Hj; exact Hz].
      split; [destruct (le_total (key i) (key j)) as [H|H]; [congruence | exact H] | congruence].
Qed.

Lemma stable_sort_lex l :
  StronglySorted le_key2 l -> StronglySorted lex_key (stable_sort_by le key l).
Proof.
  induction l as [|i t IH]; intros Hs; simpl; [constructor|].
  inversion Hs as [|? ? Ht Hi]; subst. apply insert_by_lex; [apply IH; exact Ht|].
  rewrite Forall_forall in *. intros z Hz. apply Hi.
  eapply Permutation_in; [apply stable_sort_perm | exact Hz].
Qed.
End Sort.

(** * positions in sorted lists *)
Lemma StronglySorted_impl A (R R' : A -> A -> Prop) (l : list A) :
  (forall x y, R x y -> R' x y) -> StronglySorted R l -> StronglySorted R' l.
Proof.
  intros HR. induction 1 as [|x t Ht IH Hx]; constructor; [exact IH|].
  eapply Forall_impl; [|exact Hx]. intros y. apply HR.
Qed.

Lemma StronglySorted_nth A (R : A -> A -> Prop) (l : list A) (d : A) :
  StronglySorted R l -> forall p q, (p < q < length l)%nat -> R (nth p l d) (nth q l d).
Proof.
  induction 1 as [|x t Ht IH Hx]; intros p q Hpq; simpl in *; [lia|].
  destruct q as [|q]; [lia|]. destruct p as [|p].
  - rewrite Forall_forall in Hx. apply Hx. apply nth_In. lia.
  - apply IH. lia.
Qed.

Lemma flip_nth A (l : list A) (d : A) p : (p < length l)%nat -> nth p (flip l) d = nth (length l - S p) l d.
Proof. intros H. unfold flip. apply rev_nth. exact H. Qed.

Lemma flipped_sorted A (R : A -> A -> Prop) (l : list A) (d : A) :
  StronglySorted R l -> forall p q, (p < q < length l)%nat -> R (nth q (flip l) d) (nth p (flip l) d).
Proof.
  intros Hs p q Hpq. rewrite !flip_nth by lia. apply StronglySorted_nth; [exact Hs | lia].
Qed.

(** * Q order as booleans *)
Lemma Qle_bool_total x y : Qle_bool x y = true \/ Qle_bool y x = true.
Proof. rewrite !Qle_bool_iff. destruct (Qlt_le_dec x y) as [H|H]; [left; apply Qlt_le_weak; exact H | right; exact H]. Qed.

Lemma Qle_bool_trans x y z : Qle_bool x y = true -> Qle_bool y z = true -> Qle_bool x z = true.
Proof. rewrite !Qle_bool_iff. apply Qle_trans. Qed.

(** * argsort / lexsort *)
Lemma argsort_perm a : Permutation (argsort a) (seq 0 (length a)).
Proof. apply stable_sort_perm. Qed.

Lemma argsort_length a : length (argsort a) = length a.
Proof. rewrite (Permutation_length (argsort_perm a)). apply seq_length. Qed.

Lemma argsort_sorted a : StronglySorted (fun i j => getq a i <= getq a j) (argsort a).
Proof.
  eapply StronglySorted_impl; [|apply (stable_sort_sorted Q Qle_bool Qle_bool_total Qle_bool_trans (getq a))].
  intros i j. unfold le_key. rewrite Qle_bool_iff. tauto.
Qed.

Lemma lexsort2_eq k2 k1 n :
  lexsort [k2; k1] n = stable_sort_by Qle_bool (getq k1) (stable_sort_by Qle_bool (getq k2) (seq 0 n)).
Proof. reflexivity. Qed.

Lemma lexsort2_perm k2 k1 n : Permutation (lexsort [k2; k1] n) (seq 0 n).
Proof. rewrite lexsort2_eq. rewrite stable_sort_perm. apply stable_sort_perm. Qed.

Lemma lexsort2_sorted k2 k1 n :
  StronglySorted (fun i j => getq k1 i <= getq k1 j /\ (getq k1 j <= getq k1 i -> getq k2 i <= getq k2 j))
                 (lexsort [k2; k1] n).
Proof.
  rewrite lexsort2_eq.
  eapply StronglySorted_impl;
    [|apply (stable_sort_lex Q Qle_bool Qle_bool_total Qle_bool_trans (getq k1) Q Qle_bool (getq k2));
      apply (stable_sort_sorted Q Qle_bool Qle_bool_total Qle_bool_trans (getq k2))].
  intros i j. unfold lex_key. rewrite !Qle_bool_iff. tauto.
Qed.

(** * the three ranking schemes *)
Lemma flip_perm A (l : list A) : Permutation (flip l) l.
Proof. unfold flip. symmetry. apply Permutation_rev. Qed.

Lemma single_stage_perm key : Permutation (fst (single_stage key)) (seq 0 (length key)).
Proof. simpl. rewrite flip_perm. apply argsort_perm. Qed.

Lemma single_stage_desc key p q : (p < q < length key)%nat ->
  getq key (nth q (flip (argsort key)) O) <= getq key (nth p (flip (argsort key)) O).
Proof.
  intros H. apply (flipped_sorted nat (fun i j => getq key i <= getq key j) (argsort key) O); [apply argsort_sorted|].
  rewrite argsort_length. exact H.
Qed.

Lemma single_stage_best_first k key : k <> Density -> best_first k (V1 key) (flip (argsort key)).
Proof.
  intros Hk p q Hpq. simpl in Hpq.
  assert (H := single_stage_desc key p q Hpq). unfold getq in H.
  destruct k; try congruence; simpl; right; (split; [reflexivity | exact H]).
Qed.

Lemma density_best_first key : best_first Density (V1 key) (argsort key).
Proof.
  intros p q Hpq. simpl in *.
  apply (StronglySorted_nth nat (fun i j => getq key i <= getq key j) (argsort key) O); [apply argsort_sorted|].
  rewrite argsort_length. exact Hpq.
Qed.

Lemma getq_map_fst (rv : list (Q * Q)) i : getq (map fst rv) i = fst (nth i rv (0, 0)).
Proof. unfold getq. change 0 with (fst (0, 0)) at 1. apply map_nth. Qed.

Lemma getq_map_snd (rv : list (Q * Q)) i : getq (map snd rv) i = snd (nth i rv (0, 0)).
Proof. unfold getq. change 0 with (snd (0, 0)) at 1. apply map_nth. Qed.

Lemma two_stage_inv st key idx v : two_stage st key = Ok (idx, v) ->
  let rv := combine (map inject_Z st) key in
  v = V2 rv /\ idx = flip (lexsort [map snd rv; map fst rv] (length rv)) /\ length st = length key.
Proof.
  unfold two_stage. destruct (Nat.eqb (length st) (length key)) eqn:E; [|discriminate].
  intros H. injection H as <- <-. apply Nat.eqb_eq in E. auto.
Qed.

Lemma two_stage_perm st key idx v : two_stage st key = Ok (idx, v) -> Permutation idx (seq 0 (batch_size v)).
Proof.
  intros H. destruct (two_stage_inv _ _ _ _ H) as (-> & -> & _). simpl.
  rewrite flip_perm. apply lexsort2_perm.
Qed.

Lemma two_stage_best_first k st key idx v : k <> Density -> two_stage st key = Ok (idx, v) -> best_first k v idx.
Proof.
  intros Hk H. destruct (two_stage_inv _ _ _ _ H) as (-> & -> & _).
  set (rv := combine (map inject_Z st) key). intros p q Hpq. simpl in Hpq.
  assert (Hs := flipped_sorted nat _ _ O (lexsort2_sorted (map snd rv) (map fst rv) (length rv)) p q).
  rewrite (Permutation_length (lexsort2_perm _ _ _)), seq_length in Hs. specialize (Hs Hpq).
  rewrite !getq_map_fst, !getq_map_snd in Hs. destruct Hs as [H1 H2].
  unfold key_at.
  set (x := nth (nth p (flip (lexsort [map snd rv; map fst rv] (length rv))) O) rv (0, 0)) in *.
  set (y := nth (nth q (flip (lexsort [map snd rv; map fst rv] (length rv))) O) rv (0, 0)) in *.
  assert (G : fst y < fst x \/ (fst x == fst y /\ snd y <= snd x)).
  { destruct (Qlt_le_dec (fst y) (fst x)) as [L|L]; [left; exact L|].
    right. split; [apply Qle_antisym; assumption | apply H2; exact L]. }
  destruct k; try congruence; exact G.
Qed.

(** * rank *)
Lemma projections_inv ms dir p : projections ms dir = Ok p -> p = map (fun m => dot m dir) ms.
Proof. unfold projections. destruct (forallb _ ms); [|discriminate]. intros H; injection H as <-. reflexivity. Qed.

Lemma rank_perm r a d i idx v : rank r a d i = Ok (idx, v) -> Permutation idx (seq 0 (batch_size v)).
Proof.
  unfold rank. intros H.
  destruct (r_kind r);
    repeat match type of H with
    | match ?x with _ => _ end = _ => let E := fresh "E" in destruct x eqn:E; try discriminate
    end;
    try (injection H as <- <-; simpl; first [apply (single_stage_perm _) | apply argsort_perm]);
    try (eapply two_stage_perm; exact H).
Qed.

Lemma rank_best_first r a d i idx v : rank r a d i = Ok (idx, v) -> best_first (r_kind r) v idx.
Proof.
  unfold rank. intros H.
  destruct (r_kind r);
    repeat match type of H with
    | match ?x with _ => _ end = _ => let E := fresh "E" in destruct x eqn:E; try discriminate
    end;
    try (injection H as <- <-; first [apply single_stage_best_first; discriminate | apply density_best_first]);
    try (eapply two_stage_best_first; [discriminate | exact H]).
Qed.

Lemma rank_values r a d i idx v : rank r a d i = Ok (idx, v) -> v = documented_values r a d i.
Proof.
  unfold rank, documented_values. intros H.
  destruct (r_kind r);
    repeat match type of H with
    | match ?x with _ => _ end = _ => let E := fresh "E" in destruct x eqn:E; try discriminate
    end;
    try (apply projections_inv in E0; subst);
    try (injection H as <- <-; reflexivity);
    try (destruct (two_stage_inv _ _ _ _ H) as (-> & _ & _); reflexivity).
Qed.

Lemma rank_batch_size r a d i idx v : rank r a d i = Ok (idx, v) -> length idx = batch_size v.
Proof. intros H. rewrite (Permutation_length (rank_perm _ _ _ _ _ _ H)). apply seq_length. Qed.

(** * the decidable checker [rank_ok] *)
Lemma existsb_eqb_In i l : existsb (Nat.eqb i) l = true <-> In i l.
Proof.
  rewrite existsb_exists. split.
  - intros (x & Hx & E). apply Nat.eqb_eq in E. subst. exact Hx.
  - intros H. exists i. split; [exact H | apply Nat.eqb_refl].
Qed.

Lemma is_perm_b_iff idx n : is_perm_b idx n = true <-> Permutation idx (seq 0 n).
Proof.
  unfold is_perm_b. rewrite andb_true_iff, Nat.eqb_eq, forallb_forall. split.
  - intros [Hl Hin]. symmetry. apply NoDup_Permutation_bis.
    + apply seq_NoDup.
    + rewrite seq_length. lia.
    + intros i Hi. apply existsb_eqb_In. apply Hin. exact Hi.
  - intros HP. split.
    + rewrite (Permutation_length HP). apply seq_length.
    + intros i Hi. apply existsb_eqb_In. eapply Permutation_in; [symmetry; exact HP | exact Hi].
Qed.

Lemma at_least_as_good_b_iff k x y : at_least_as_good_b k x y = true <-> at_least_as_good k x y.
Proof.
  assert (G : negb (Qle_bool (fst x) (fst y)) || (Qeq_bool (fst x) (fst y) && Qle_bool (snd y) (snd x)) = true
              <-> fst y < fst x \/ (fst x == fst y /\ snd y <= snd x)).
  { rewrite orb_true_iff, andb_true_iff, negb_true_iff, Qeq_bool_iff, Qle_bool_iff.
    destruct (Qle_bool (fst x) (fst y)) eqn:E.
    - apply Qle_bool_iff in E. split; intros [H|H]; auto; [discriminate | lra].
    - assert (~ fst x <= fst y) by (rewrite <- Qle_bool_iff; congruence).
      split; intros _; left; [lra | reflexivity]. }
  destruct k; simpl; try exact G. apply Qle_bool_iff.
Qed.

Lemma at_least_as_good_trans k x y z :
  at_least_as_good k x y -> at_least_as_good k y z -> at_least_as_good k x z.
Proof.
  assert (G : (fst y < fst x \/ (fst x == fst y /\ snd y <= snd x)) ->
              (fst z < fst y \/ (fst y == fst z /\ snd z <= snd y)) ->
              fst z < fst x \/ (fst x == fst z /\ snd z <= snd x)).
  { intros [H1|[H1 H1']] [H2|[H2 H2']]; [left; lra | left; lra | left; lra | right; split; lra]. }
  destruct k; simpl; try exact G. intros; lra.
Qed.

Lemma adjacent_b_sound A (R : A -> A -> bool) (l : list A) :
  (forall x y z, R x y = true -> R y z = true -> R x z = true) ->
  adjacent_b R l = true -> StronglySorted (fun x y => R x y = true) l.
Proof.
  intros HT. induction l as [|x t IH]; intros H; [constructor|].
  destruct t as [|y t']; [repeat constructor|].
  simpl in H. apply andb_true_iff in H. destruct H as [Hxy Ht].
  specialize (IH Ht). constructor; [exact IH|].
  inversion IH as [|? ? _ Hy]; subst. constructor; [exact Hxy|].
  eapply Forall_impl; [|exact Hy]. intros z Hz. eapply HT; eassumption.
Qed.

Lemma adjacent_b_complete A (R : A -> A -> bool) (l : list A) (d : A) :
  (forall p q, (p < q < length l)%nat -> R (nth p l d) (nth q l d) = true) -> adjacent_b R l = true.
Proof.
  induction l as [|x t IH]; intros H; [reflexivity|].
  destruct t as [|y t']; [reflexivity|].
  change (R x y && adjacent_b R (y :: t') = true). apply andb_true_iff. split.
  - apply (H 0%nat 1%nat). simpl. lia.
  - apply IH. intros p q Hpq. apply (H (S p) (S q)). simpl in *. lia.
Qed.

Lemma sorted_b_iff k v idx : length idx = batch_size v -> (sorted_b k v idx = true <-> best_first k v idx).
Proof.
  intros Hl. unfold sorted_b, best_first. split.
  - intros H p q Hpq.
    apply adjacent_b_sound in H.
    2:{ intros x y z. rewrite !at_least_as_good_b_iff. apply at_least_as_good_trans. }
    apply (StronglySorted_nth _ _ _ (key_at v O)) with (p := p) (q := q) in H.
    + rewrite !map_nth in H. apply at_least_as_good_b_iff. exact H.
    + rewrite map_length. lia.
  - intros H. apply (adjacent_b_complete _ _ _ (key_at v O)).
    intros p q Hpq. rewrite map_length in Hpq. rewrite !map_nth.
    apply at_least_as_good_b_iff. apply H. lia.
Qed.

Lemma rank_ok_iff k v idx :
  rank_ok k v idx = true <-> Permutation idx (seq 0 (batch_size v)) /\ best_first k v idx.
Proof.
  unfold rank_ok. rewrite andb_true_iff, is_perm_b_iff. split; intros [HP HS]; split; try exact HP;
    (apply (sorted_b_iff k v idx); [rewrite (Permutation_length HP); apply seq_length | exact HS]).
Qed.

Lemma rank_ok_complete r a d i idx v : rank r a d i = Ok (idx, v) -> rank_ok (r_kind r) v idx = true.
Proof.
  intros H. apply rank_ok_iff. split; [eapply rank_perm | eapply rank_best_first]; exact H.
Qed.

(** * state: rank is pure, reset draws *)
Lemma run_rank_only r ops : forallb is_rank ops = true -> fst (run r ops) = r.
Proof.
  revert r. induction ops as [|o t IH]; intros r H; [reflexivity|].
  simpl in H. apply andb_true_iff in H. destruct H as [Ho Ht].
  destruct o; try discriminate. simpl.
  specialize (IH r Ht). destruct (run r t) as [r'' outs]. exact IH.
Qed.

Lemma step_rank_state r a d i : fst (step r (ORank a d i)) = r.
Proof. reflexivity. Qed.

Lemma zipwith_length A B C (f : A -> B -> C) a b : length (zipwith f a b) = Nat.min (length a) (length b).
Proof. revert b. induction a as [|x a IH]; intros [|y b]; simpl; auto. Qed.

Lemma zipwith_nth A B C (f : A -> B -> C) a b j da db dc :
  (j < length a)%nat -> (j < length b)%nat -> nth j (zipwith f a b) dc = f (nth j a da) (nth j b db).
Proof.
  revert b j. induction a as [|x a IH]; intros [|y b] [|j] Ha Hb; simpl in *; try lia; auto.
  apply IH; lia.
Qed.

Lemma nth_firstn_lt A (l : list A) n j d : (j < n)%nat -> nth j (firstn n l) d = nth j l d.
Proof.
  revert n j. induction l as [|x l IH]; intros [|n] [|j] H; simpl; try lia; auto. apply IH. lia.
Qed.

Lemma nth_skipn_add A (l : list A) n j d : nth j (skipn n l) d = nth (n + j) l d.
Proof.
  revert l. induction n as [|n IH]; intros [|x l]; simpl; auto. destruct j; reflexivity.
Qed.

Lemma reset_rd r a r' :
  reset r a = Ok r' -> is_rd (r_kind r) = true -> length (a_upper a) = length (a_lower a) ->
  let dim := length (a_lower a) in
  exists dir, r_dir r' = Some dir /\ length dir = dim /\
    (forall j, (j < dim)%nat -> nth j dir 0 = nth j (r_rng r) 0 * (nth j (a_upper a) 0 - nth j (a_lower a) 0)) /\
    r_rng r' = skipn dim (r_rng r) /\ r_kind r' = r_kind r.
Proof.
  unfold reset. intros H Hk Hlen. rewrite Hk in H.
  assert (Hr : length (zipwith Qminus (a_upper a) (a_lower a)) = length (a_lower a)).
  { rewrite zipwith_length, Hlen. apply Nat.min_id. }
  rewrite Hr in H.
  destruct (Nat.ltb (length (r_rng r)) (length (a_lower a))) eqn:E; [discriminate|].
  apply Nat.ltb_ge in E. injection H as <-. simpl.
  eexists. split; [reflexivity|]. split; [|split; [|split; reflexivity]].
  - rewrite zipwith_length, firstn_length, Hr. lia.
  - intros j Hj. rewrite (zipwith_nth Q Q Q Qmult _ _ j 0 0 0).
    + rewrite nth_firstn_lt by exact Hj. rewrite (zipwith_nth Q Q Q Qminus _ _ j 0 0 0) by lia. reflexivity.
    + rewrite firstn_length. lia.
    + rewrite Hr. exact Hj.
Qed.

Lemma reset_other r a : is_rd (r_kind r) = false -> reset r a = Ok r.
Proof. unfold reset. intros ->. reflexivity. Qed.

(** two consecutive resets use consecutive, disjoint segments of the stream *)
Lemma reset_twice r a r1 r2 :
  reset r a = Ok r1 -> reset r1 a = Ok r2 -> is_rd (r_kind r) = true -> length (a_upper a) = length (a_lower a) ->
  let dim := length (a_lower a) in
  exists dir, r_dir r2 = Some dir /\
    forall j, (j < dim)%nat -> nth j dir 0 = nth (dim + j) (r_rng r) 0 * (nth j (a_upper a) 0 - nth j (a_lower a) 0).
Proof.
  intros H1 H2 Hk Hlen dim.
  destruct (reset_rd _ _ _ H1 Hk Hlen) as (d1 & _ & _ & _ & Hrng & Hkind).
  rewrite <- Hkind in Hk.
  destruct (reset_rd _ _ _ H2 Hk Hlen) as (d2 & Hd2 & _ & Hn & _ & _).
  exists d2. split; [exact Hd2|]. intros j Hj. rewrite (Hn j Hj), Hrng. rewrite nth_skipn_add. reflexivity.
Qed.

(** add status dominates: along the result the status never increases *)
Lemma rank_status_dominates r a d i idx v : rank r a d i = Ok (idx, v) ->
  forall p q, (p < q < batch_size v)%nat -> fst (key_at v (nth q idx O)) <= fst (key_at v (nth p idx O)).
Proof.
  intros H p q Hpq. assert (B := rank_best_first _ _ _ _ _ _ H p q Hpq).
  assert (V := rank_values _ _ _ _ _ _ H). unfold documented_values in V.
  destruct (r_kind r); simpl in B; try lra.
  subst v. simpl. lra.
Qed.
