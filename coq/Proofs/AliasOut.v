(** C12 -- "everything handed out is a copy or read-only", at full strength for the objects the property enumerates
    (stores and archives: add feedback, retrieve, data, iteration, sample_elites, best_elite, index_of, scores, the
    constructors; the visualisation functions): no writable returned value lives in ANY buffer still reachable from
    self -- not only the store's buffers (Proofs/AliasProofs.v) but also the cached best-elite record, centroids,
    boundaries, the sliding buffer ...  So a write through anything handed out is not observable through self at all.
    (The emitters' ask()/ask_dqd() results are not in the property's list; GradientOperatorEmitter.ask_dqd hands out
    the parents it keeps, the model says so, and EmitterAsk is deliberately not in [out_eps].) *)
From Coq Require Import List Arith Bool ZArith Lia.
From PV Require Import Base.ListUtil Model.Alias Proofs.AliasSound Proofs.AliasEnumA.
Import ListNotations.

Definition no_rw_self (a : astate) : bool :=
  forallb (fun v => negb (vw v && memb (vbuf v) (bufs (a_self a)))) (a_ret a).

Definition check_out (e : ep) : bool :=
  forallb (fun n => forallb (fun v => forallb (fun la => no_rw_self (arun (prog e v n) (a_init la))) (layout_vectors n))
                            (seq 0 (n_variants e)))
          (arities e).

Definition out_eps : list ep := eps_A ++ [ParallelAxes; HeatmapDf].

Lemma enum_out : forallb check_out out_eps = true.
Proof. vm_cast_no_check (eq_refl true). Qed.

Lemma forallb_In' A (p : A -> bool) (l : list A) (x : A) : forallb p l = true -> In x l -> p x = true.
Proof. intros H Hin. rewrite forallb_forall in H. apply H. exact Hin. Qed.

Lemma no_rw_self_all e n v la :
  In e out_eps -> In n (arities e) -> v < n_variants e -> length la = n ->
  no_rw_self (arun (prog e v n) (a_init la)) = true.
Proof.
  intros He Hn Hv Hl.
  pose proof (forallb_In' _ check_out out_eps e enum_out He) as H1.
  assert (Hvs : In v (seq 0 (n_variants e))) by (apply in_seq; lia).
  assert (Hls : In la (layout_vectors n)) by (subst n; apply layout_vectors_complete).
  unfold check_out in H1.
  pose proof (forallb_In' _ _ _ n H1 Hn) as H2. cbv beta in H2.
  pose proof (forallb_In' _ _ _ v H2 Hvs) as H3. cbv beta in H3.
  exact (forallb_In' _ _ _ la H3 Hls).
Qed.

Lemma observe_upd_other' self h b z : ~ In b (bufs self) -> observe self (upd h b z) = observe self h.
Proof.
  intros Hn. unfold observe. apply map_ext_in. intros [x v] Hin. simpl. f_equal.
  unfold content. apply nth_upd_other. intros E. apply Hn. unfold bufs.
  apply in_map_iff. exists (x, v). split; [simpl; auto | exact Hin].
Qed.

(** for every content interpretation, heap, layout vector: a write through any returned value, on any later heap,
    changes nothing observable through self *)
Lemma ep_outputs_detached (f : nat -> list Z -> Z) (e : ep) (n v : nat) (la : list layout) (h : list Z) :
  In e out_eps -> In n (arities e) -> v < n_variants e -> length la = n -> length h = n_internal + n ->
  forall r, In r (c_ret (crun f (prog e v n) (c_init la h))) ->
    (vw r = false \/ ~ In (vbuf r) (bufs (c_self (crun f (prog e v n) (c_init la h))))) /\
    forall h' z, observe (c_self (crun f (prog e v n) (c_init la h))) (write_through r z h')
                 = observe (c_self (crun f (prog e v n) (c_init la h))) h'.
Proof.
  intros He Hn Hv Hla Hh r Hr.
  pose proof (alias_sound f (prog e v n) (c_init la h) []) as H. cbv zeta in H.
  rewrite init_erase in H by (rewrite Hla; exact Hh).
  destruct H as (E & _).
  pose proof (no_rw_self_all e n v la He Hn Hv Hla) as Hc.
  set (a := arun (prog e v n) (a_init la)) in *.
  set (s' := crun f (prog e v n) (c_init la h)) in *.
  assert (Hr' : In r (a_ret a)) by (rewrite <- E; exact Hr).
  assert (Hs : c_self s' = a_self a) by (rewrite <- E; reflexivity).
  unfold no_rw_self in Hc. rewrite forallb_forall in Hc. specialize (Hc r Hr').
  apply negb_true_iff in Hc.
  assert (Hd : vw r = false \/ ~ In (vbuf r) (bufs (c_self s'))).
  { destruct (vw r); [right|left; reflexivity]. simpl in Hc. apply memb_false in Hc. rewrite Hs. exact Hc. }
  split; [exact Hd|].
  intros h' z. unfold write_through. destruct Hd as [Hw | Hnb].
  - rewrite Hw. reflexivity.
  - destruct (vw r); [|reflexivity]. apply observe_upd_other'. exact Hnb.
Qed.
