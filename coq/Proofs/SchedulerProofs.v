(** Lemmas about Model/Scheduler.v: the routing of ask/tell over an arbitrary list of emitter
    indices (shared with the bandit scheduler), insertion into the archives, the protocol. *)
From Coq Require Import List Arith Bool Lia.
From PV Require Import Base.ListUtil Base.SliceUtil Model.Store Model.Scheduler.
Import ListNotations.
Set Implicit Arguments.

(** * generic list facts *)

Lemma map_nth_seq A (l : list A) d : map (fun i => nth i l d) (seq 0 (length l)) = l.
Proof.
  induction l as [|x t IH]; simpl; auto. f_equal.
  rewrite <- seq_shift, map_map. exact IH.
Qed.

Lemma nth_error_seq a n k : k < n -> nth_error (seq a n) k = Some (a + k).
Proof.
  revert a k; induction n as [|n IH]; intros a k H; [lia|].
  destruct k as [|k]; simpl; [f_equal; lia|]. rewrite IH by lia. f_equal; lia.
Qed.

Lemma sum_nat_firstn_map_seq (f : nat -> nat) n i :
  i <= n -> sum_nat (firstn i (map f (seq 0 n))) = sum_nat (map f (seq 0 i)).
Proof.
  intros H. rewrite firstn_map, firstn_seq. now rewrite Nat.min_l.
Qed.

Lemma nth_map_default A B (f : A -> B) l c d d' : f d' = d -> nth c (map f l) d = f (nth c l d').
Proof. intros <-. apply map_nth. Qed.

Lemma nth_map_seq A (f : nat -> A) n i d : i < n -> nth i (map f (seq 0 n)) d = f i.
Proof.
  intros H. rewrite nth_indep with (d' := f 0) by (now rewrite map_length, seq_length).
  rewrite map_nth. rewrite seq_nth by auto. reflexivity.
Qed.

Section Routing.
Variable V : Type.
Variable F : Type.
Notation eevent := (eevent V F).
Notation told := (told V F).

(** ** push_all / set_all *)

Lemma push_length (el : list (list eevent)) i e : length (push el i e) = length el.
Proof. unfold push. apply upd_length. Qed.

Lemma push_all_length evs (el : list (list eevent)) : length (push_all el evs) = length el.
Proof.
  unfold push_all. revert el; induction evs as [|x t IH]; intros el; simpl; auto.
  rewrite IH. apply push_length.
Qed.

Lemma push_nth (el : list (list eevent)) k e i :
  i < length el ->
  nth i (push el k e) [] = nth i el [] ++ (if Nat.eqb k i then [e] else []).
Proof.
  intros H. unfold push. rewrite nth_upd.
  destruct (Nat.eqb_spec k i) as [->|Hne]; simpl.
  - apply Nat.ltb_lt in H. now rewrite H.
  - now rewrite app_nil_r.
Qed.

Lemma push_all_nth evs (el : list (list eevent)) i :
  i < length el ->
  nth i (push_all el evs) [] =
  nth i el [] ++ map snd (filter (fun kv => Nat.eqb (fst kv) i) evs).
Proof.
  unfold push_all. revert el; induction evs as [|[k e] t IH]; intros el H; simpl.
  - now rewrite app_nil_r.
  - rewrite IH by (now rewrite push_length). rewrite push_nth by auto.
    destruct (Nat.eqb k i); simpl; now rewrite <- app_assoc.
Qed.

Lemma filter_key_none A (kvs : list (nat * A)) i :
  ~ In i (map fst kvs) -> filter (fun kv => Nat.eqb (fst kv) i) kvs = [].
Proof.
  induction kvs as [|[k v] t IH]; simpl; auto. intros H.
  destruct (Nat.eqb_spec k i) as [->|Hne]; [tauto|]. apply IH. tauto.
Qed.

Lemma filter_key_unique A (kvs : list (nat * A)) p i v :
  NoDup (map fst kvs) -> nth_error kvs p = Some (i, v) ->
  filter (fun kv => Nat.eqb (fst kv) i) kvs = [(i, v)].
Proof.
  revert p; induction kvs as [|[k w] t IH]; intros p Hnd Hp; [destruct p; discriminate|].
  simpl in Hnd. inversion Hnd as [|? ? Hnotin Hnd']; subst.
  destruct p as [|p]; simpl in *.
  - inversion Hp; subst. rewrite Nat.eqb_refl. f_equal. now apply filter_key_none.
  - destruct (Nat.eqb_spec k i) as [->|Hne].
    + exfalso. apply Hnotin. apply nth_error_In in Hp. apply (in_map fst) in Hp. exact Hp.
    + eapply IH; eauto.
Qed.

(** emitter [i] observes exactly its own event, once *)
Lemma push_all_hit evs (el : list (list eevent)) p i e :
  i < length el -> NoDup (map fst evs) -> nth_error evs p = Some (i, e) ->
  nth i (push_all el evs) [] = nth i el [] ++ [e].
Proof.
  intros Hi Hnd Hp. rewrite push_all_nth by auto. now rewrite (filter_key_unique _ _ Hnd Hp).
Qed.

Lemma push_all_miss evs (el : list (list eevent)) i :
  ~ In i (map fst evs) -> nth i (push_all el evs) [] = nth i el [].
Proof.
  intros H. destruct (Nat.lt_ge_cases i (length el)) as [Hi|Hi].
  - rewrite push_all_nth by auto. rewrite filter_key_none by auto. apply app_nil_r.
  - rewrite !nth_overflow; auto. now rewrite push_all_length.
Qed.

Lemma set_all_length kvs (nums : list nat) : length (set_all nums kvs) = length nums.
Proof.
  unfold set_all. revert nums; induction kvs as [|x t IH]; intros nums; simpl; auto.
  rewrite IH. apply upd_length.
Qed.

Lemma set_all_miss kvs (nums : list nat) i :
  ~ In i (map fst kvs) -> nth i (set_all nums kvs) 0 = nth i nums 0.
Proof.
  unfold set_all. revert nums; induction kvs as [|[k v] t IH]; intros nums H; simpl in *; auto.
  rewrite IH by tauto. apply nth_upd_other. tauto.
Qed.

Lemma set_all_hit kvs (nums : list nat) i v :
  i < length nums -> NoDup (map fst kvs) -> In (i, v) kvs -> nth i (set_all nums kvs) 0 = v.
Proof.
  unfold set_all. revert nums; induction kvs as [|[k w] t IH]; intros nums Hi Hnd Hin; simpl in *; [tauto|].
  inversion Hnd as [|? ? Hnotin Hnd']; subst.
  destruct Hin as [Heq|Hin].
  - inversion Heq; subst.
    change (nth i (set_all (upd nums i v) t) 0 = v).
    rewrite set_all_miss by auto. now apply nth_upd_same.
  - apply IH; auto. now rewrite upd_length.
Qed.

(** ** ask_route *)

Lemma ask_route_cur dqd idxs (resp : nat -> list V) nums (el : list (list eevent)) :
  fst (fst (ask_route dqd idxs resp nums el)) = concat (map resp idxs).
Proof. unfold ask_route. simpl. now rewrite map_map. Qed.

Lemma ask_route_nums_len dqd idxs (resp : nat -> list V) nums (el : list (list eevent)) :
  length (snd (fst (ask_route dqd idxs resp nums el))) = length nums.
Proof. unfold ask_route. simpl. apply set_all_length. Qed.

Lemma ask_route_elog_len dqd idxs (resp : nat -> list V) nums (el : list (list eevent)) :
  length (snd (ask_route dqd idxs resp nums el)) = length el.
Proof. unfold ask_route. simpl. apply push_all_length. Qed.

Lemma ask_route_nums_hit dqd idxs (resp : nat -> list V) nums (el : list (list eevent)) i :
  NoDup idxs -> In i idxs -> i < length nums ->
  nth i (snd (fst (ask_route dqd idxs resp nums el))) 0 = length (resp i).
Proof.
  intros Hnd Hin Hi. unfold ask_route. simpl. apply set_all_hit; auto.
  - rewrite !map_map. simpl. now rewrite map_id.
  - rewrite map_map. simpl. apply in_map_iff. exists i. auto.
Qed.

Lemma ask_route_nums_miss dqd idxs (resp : nat -> list V) nums (el : list (list eevent)) i :
  ~ In i idxs -> nth i (snd (fst (ask_route dqd idxs resp nums el))) 0 = nth i nums 0.
Proof.
  intros H. unfold ask_route. simpl. apply set_all_miss.
  rewrite !map_map. simpl. now rewrite map_id.
Qed.

Lemma ask_route_elog_hit dqd idxs (resp : nat -> list V) nums (el : list (list eevent)) i :
  NoDup idxs -> In i idxs -> i < length el ->
  nth i (snd (ask_route dqd idxs resp nums el)) [] = nth i el [] ++ [Asked dqd (resp i)].
Proof.
  intros Hnd Hin Hi. unfold ask_route. simpl.
  destruct (In_nth_error _ _ Hin) as [p Hp].
  eapply push_all_hit with (p := p); auto.
  - rewrite !map_map. simpl. now rewrite map_id.
  - rewrite map_map. simpl. rewrite nth_error_map, Hp. reflexivity.
Qed.

Lemma ask_route_elog_miss dqd idxs (resp : nat -> list V) nums (el : list (list eevent)) i :
  ~ In i idxs -> nth i (snd (ask_route dqd idxs resp nums el)) [] = nth i el [].
Proof.
  intros H. unfold ask_route. simpl. apply push_all_miss.
  rewrite !map_map. simpl. now rewrite map_id.
Qed.

(** ** deliveries *)

Lemma deliveries_fst idxs nums pos (data : list (column V)) jac (info : list F) :
  map fst (deliveries idxs nums pos data jac info) = idxs.
Proof. revert pos; induction idxs as [|i t IH]; intros pos; simpl; auto. now rewrite IH. Qed.

Lemma deliveries_nth_error idxs nums pos (data : list (column V)) jac (info : list F) p i :
  nth_error idxs p = Some i ->
  let lens := map (fun j => nth j nums 0) idxs in
  let start := pos + sum_nat (firstn p lens) in
  nth_error (deliveries idxs nums pos data jac info) p =
  Some (i, mk_told start (start + nth i nums 0) data jac info).
Proof.
  revert pos p; induction idxs as [|j t IH]; intros pos p Hp; [destruct p; discriminate|].
  destruct p as [|p]; simpl in *.
  - inversion Hp; subst. now rewrite Nat.add_0_r.
  - rewrite (IH _ _ Hp). simpl. do 3 f_equal; lia.
Qed.

End Routing.

(** * The Scheduler proper *)
Section SchedulerProofs.
Variable V : Type.
Variable F : Type.
Notation sched := (sched V F).
Notation eevent := (eevent V F).
Notation told := (told V F).
Notation tell_args := (tell_args V F).

(** ** specification-side vocabulary (short, independent of the loops of the model) *)

(** what an emitter whose rows occupy positions [start, start+n) of the batch must be handed *)
Definition expected_told (start n : nat) (data : list (column V)) (jac : option (list V))
           (info : list F) : told :=
  mkTold (map (option_map (fun l => firstn n (skipn start l))) data)
         (option_map (fun l => firstn n (skipn start l)) jac)
         (firstn n (skipn start info)).

(** the insertion calls one tell makes on an archive: every row exactly once, in order *)
Definition ins_events (m : add_mode) (n : nat) (data : list (column V)) : list (aevent V) :=
  match m with
  | Batch => [AddBatch data]
  | Single => map (fun i => AddSingle (row_at i data)) (seq 0 n)
  end.

(** the call protocol *)
Definition legal (l : option call) (c : call) : bool :=
  match c with
  | CAsk | CAskDqd => negb (last_is l CAsk || last_is l CAskDqd)
  | CTell => last_is l CAsk
  | CTellDqd => last_is l CAskDqd
  end.

Definition idle (l : option call) : bool := negb (last_is l CAsk || last_is l CAskDqd).

(** prefixes of (ask tell | ask_dqd tell_dqd)* *)
Inductive plang : list call -> Prop :=
| P_nil : plang []
| P_ask : plang [CAsk]
| P_ask_dqd : plang [CAskDqd]
| P_iter : forall l, plang l -> plang (CAsk :: CTell :: l)
| P_iter_dqd : forall l, plang l -> plang (CAskDqd :: CTellDqd :: l).

(** reachable states keep one counter per emitter *)
Definition WF (s : sched) : Prop := length (num_emitted s) = length (elog s).

Lemma mk_told_expected start n (data : list (column V)) jac (info : list F) :
  mk_told start (start + n) data jac info = expected_told start n data jac info.
Proof.
  unfold mk_told, expected_told. f_equal.
  - apply map_ext. intros [l|]; simpl; auto. now rewrite slice_firstn_skipn.
  - destruct jac as [j|]; simpl; auto. now rewrite slice_firstn_skipn.
  - apply slice_firstn_skipn.
Qed.

(** ** archives *)

Lemma single_loop_ok (data : list (column V)) (fb : nat -> F) fail is a r info :
  (forall k, fail = Some k -> ~ In k is) ->
  single_loop data fb fail is a r info =
  (a ++ map (fun i => AddSingle (row_at i data)) is,
   option_map (fun l => l ++ map (fun i => AddSingle (row_at i data)) is) r,
   Ok (info ++ map fb is)).
Proof.
  revert a r info; induction is as [|i t IH]; intros a r info H; simpl.
  - rewrite !app_nil_r. destruct r; simpl; now rewrite ?app_nil_r.
  - assert (Ht : forall k, fail = Some k -> ~ In k t) by (intros k Hk Hin; apply (H k Hk); now right).
    assert (Hgo : single_loop data fb fail t (a ++ [AddSingle (row_at i data)])
                    (option_map (fun l => l ++ [AddSingle (row_at i data)]) r) (info ++ [fb i]) =
                  (a ++ AddSingle (row_at i data) :: map (fun i => AddSingle (row_at i data)) t,
                   option_map (fun l => l ++ AddSingle (row_at i data) :: map (fun i => AddSingle (row_at i data)) t) r,
                   Ok (info ++ fb i :: map fb t))).
    { rewrite IH by auto. rewrite <- !app_assoc. simpl. destruct r; simpl; now rewrite <- ?app_assoc. }
    destruct fail as [k|]; auto.
    destruct (Nat.eqb_spec i k) as [->|Hne]; auto. exfalso. apply (H k eq_refl). now left.
Qed.

Lemma single_loop_fail (data : list (column V)) (fb : nat -> F) k m a0 a r info :
  a0 <= k < a0 + m ->
  single_loop data fb (Some k) (seq a0 m) a r info =
  (a ++ map (fun i => AddSingle (row_at i data)) (seq a0 (k - a0)),
   option_map (fun l => l ++ map (fun i => AddSingle (row_at i data)) (seq a0 (k - a0))) r,
   Err ValueError).
Proof.
  revert a0 a r info; induction m as [|m IH]; intros a0 a r info H; [lia|]. simpl.
  destruct (Nat.eqb_spec a0 k) as [->|Hne].
  - rewrite Nat.sub_diag. simpl. rewrite app_nil_r. destruct r; simpl; now rewrite ?app_nil_r.
  - rewrite IH by lia. replace (k - a0) with (S (k - S a0)) by lia. simpl.
    rewrite <- !app_assoc. simpl. destruct r; simpl; now rewrite <- ?app_assoc.
Qed.

Lemma add_to_archives_ok m n (data : list (column V)) (fb : nat -> F) a r :
  add_to_archives m n data fb None a r =
  (a ++ ins_events m n data, option_map (fun l => l ++ ins_events m n data) r, Ok (map fb (seq 0 n))).
Proof.
  destruct m; simpl.
  - reflexivity.
  - rewrite single_loop_ok by discriminate. reflexivity.
Qed.

Lemma add_to_archives_fail m n (data : list (column V)) (fb : nat -> F) k a r :
  k < n ->
  add_to_archives m n data fb (Some k) a r =
  (a ++ match m with Batch => [] | Single => ins_events Single k data end,
   option_map (fun l => l ++ match m with Batch => [] | Single => ins_events Single k data end) r,
   Err ValueError).
Proof.
  intros H. destruct m; simpl.
  - rewrite app_nil_r. destruct r; simpl; now rewrite ?app_nil_r.
  - rewrite single_loop_fail by lia. now rewrite Nat.sub_0_r.
Qed.

Lemma single_loop_res (data : list (column V)) (fb : nat -> F) fail is a r info :
  (exists i, snd (single_loop data fb fail is a r info) = Ok i) \/
  snd (single_loop data fb fail is a r info) = Err ValueError.
Proof.
  revert a r info; induction is as [|i t IH]; intros a r info; simpl; [left; eexists; reflexivity|].
  destruct fail as [k|].
  - destruct (Nat.eqb i k); [right; reflexivity|]. apply IH.
  - apply IH.
Qed.

Lemma add_to_archives_res m n (data : list (column V)) (fb : nat -> F) fail a r :
  (exists i, snd (add_to_archives m n data fb fail a r) = Ok i) \/
  snd (add_to_archives m n data fb fail a r) = Err ValueError.
Proof.
  destruct m; simpl.
  - destruct fail; [right; reflexivity|left; eexists; reflexivity].
  - apply single_loop_res.
Qed.

(** transposition is faithful: the i-th add_single call carries row i of every column *)
Lemma row_at_column (data : list (column V)) c l n :
  nth_error data c = Some (Some l) -> length l = n ->
  map (fun i => nth c (row_at i data) None) (seq 0 n) = map Some l.
Proof.
  intros Hc Hl. subst n.
  assert (Hrow : forall i, nth c (row_at i data) None = nth_error l i).
  { intros i. unfold row_at.
    rewrite nth_map_default with (d' := None) by reflexivity.
    now rewrite (nth_error_nth _ _ _ Hc). }
  rewrite (map_ext _ _ Hrow).
  clear. induction l as [|x t IH]; simpl; auto. f_equal. rewrite <- seq_shift, map_map. exact IH.
Qed.

(** ** ask *)

Lemma ask_gen_illegal dqd (s : sched) resp :
  idle (last_called s) = false -> ask_gen dqd s resp = (s, Err RuntimeError).
Proof. unfold idle, ask_gen. intros H. apply negb_false_iff in H. now rewrite H. Qed.

Lemma ask_gen_legal dqd (s : sched) resp :
  idle (last_called s) = true ->
  ask_gen dqd s resp =
  (let '(sols, nums, el) := ask_route dqd (seq 0 (n_emitters s)) resp (num_emitted s) (elog s) in
   (mkSched (Some (ask_call dqd)) sols nums (arch s) (rarch s) (mode s) el, Ok (ORows sols))).
Proof. unfold idle, ask_gen. intros H. apply negb_true_iff in H. now rewrite H. Qed.

Lemma nums_after_ask dqd n (resp : nat -> list V) nums (el : list (list eevent)) :
  length nums = n ->
  snd (fst (ask_route dqd (seq 0 n) resp nums el)) = map (fun i => length (resp i)) (seq 0 n).
Proof.
  intros Hn. apply nth_ext with (d := 0) (d' := 0).
  - rewrite ask_route_nums_len, map_length, seq_length. exact Hn.
  - intros i Hi. rewrite ask_route_nums_len in Hi.
    rewrite ask_route_nums_hit; [|apply seq_NoDup|apply in_seq; lia|lia].
    rewrite nth_indep with (d' := length (resp 0)) by (rewrite map_length, seq_length; lia).
    rewrite map_nth with (f := fun i => length (resp i)). rewrite seq_nth by lia. reflexivity.
Qed.

Theorem ask_spec dqd (s : sched) resp :
  WF s -> idle (last_called s) = true ->
  let n := n_emitters s in
  let sols := concat (map resp (seq 0 n)) in
  exists el,
    ask_gen dqd s resp =
      (mkSched (Some (ask_call dqd)) sols (map (fun i => length (resp i)) (seq 0 n))
               (arch s) (rarch s) (mode s) el,
       Ok (ORows sols)) /\
    length el = n /\
    forall i, i < n -> nth i el [] = nth i (elog s) [] ++ [Asked dqd (resp i)].
Proof.
  intros Hwf Hidle n sols. rewrite ask_gen_legal by auto.
  destruct (ask_route dqd (seq 0 (n_emitters s)) resp (num_emitted s) (elog s)) as [[sols' nums] el] eqn:E.
  exists el.
  assert (E1 := ask_route_cur dqd (seq 0 (n_emitters s)) resp (num_emitted s) (elog s)).
  assert (E2 := @nums_after_ask dqd (n_emitters s) resp (num_emitted s) (elog s) Hwf).
  assert (E3 := ask_route_elog_len dqd (seq 0 (n_emitters s)) resp (num_emitted s) (elog s)).
  rewrite E in E1, E2, E3. simpl in E1, E2, E3. subst sols' nums.
  split; [reflexivity|]. split; [exact E3|].
  intros i Hi.
  assert (E4 := @ask_route_elog_hit V F dqd (seq 0 (n_emitters s)) resp (num_emitted s) (elog s) i
                  (seq_NoDup _ _)).
  rewrite E in E4. simpl in E4. apply E4; [apply in_seq; fold n; lia|exact Hi].
Qed.

(** ** tell *)

Lemma tell_gen_illegal dqd (s : sched) a :
  last_is (last_called s) (ask_call dqd) = false -> tell_gen dqd s a = (s, Err RuntimeError).
Proof. unfold tell_gen. intros H. now rewrite H. Qed.

Definition jac_ok (dqd : bool) (n : nat) (a : tell_args) : bool :=
  negb dqd || Nat.eqb (length (ta_jac a)) n.

(** a wrong-length argument: ValueError after [_last_called] was set, nothing else touched *)
Lemma tell_gen_badlen dqd (s : sched) a :
  last_is (last_called s) (ask_call dqd) = true ->
  lens_ok (length (cur s)) (ta_data a) && jac_ok dqd (length (cur s)) a = false ->
  tell_gen dqd s a =
  (mkSched (Some (tell_call dqd)) (cur s) (num_emitted s) (arch s) (rarch s) (mode s) (elog s),
   Err ValueError).
Proof.
  unfold tell_gen, jac_ok. intros H1 H2. rewrite H1. simpl.
  destruct (lens_ok (length (cur s)) (ta_data a)); simpl in *; auto.
  destruct dqd; simpl in *; [|discriminate]. now rewrite H2.
Qed.

Lemma tell_gen_go dqd (s : sched) a :
  last_is (last_called s) (ask_call dqd) = true ->
  lens_ok (length (cur s)) (ta_data a) && jac_ok dqd (length (cur s)) a = true ->
  tell_gen dqd s a =
  (let lc := Some (tell_call dqd) in
   let n := length (cur s) in
   let data := ta_data a ++ [Some (cur s)] in
   match add_to_archives (mode s) n data (ta_fb a) (ta_fail a) (arch s) (rarch s) with
   | (ar, rr, Err e) => (mkSched lc (cur s) (num_emitted s) ar rr (mode s) (elog s), Err e)
   | (ar, rr, Ok info) =>
       let ds := deliveries (seq 0 (n_emitters s)) (num_emitted s) 0 data
                            (if dqd then Some (ta_jac a) else None) info in
       (mkSched lc (cur s) (num_emitted s) ar rr (mode s)
                (push_all (elog s) (map (fun d => (fst d, Told dqd (snd d))) ds)), Ok ONone)
   end).
Proof.
  unfold tell_gen, jac_ok. intros H1 H2. rewrite H1. simpl.
  apply andb_true_iff in H2. destruct H2 as [H2 H3]. rewrite H2. simpl.
  destruct dqd; simpl in *; [rewrite H3|]; reflexivity.
Qed.

(** the archive rejects the batch / row k *)
Theorem tell_rejected_spec dqd (s : sched) a k :
  last_is (last_called s) (ask_call dqd) = true ->
  lens_ok (length (cur s)) (ta_data a) && jac_ok dqd (length (cur s)) a = true ->
  ta_fail a = Some k -> k < length (cur s) ->
  let data := ta_data a ++ [Some (cur s)] in
  let ins := match mode s with Batch => [] | Single => ins_events Single k data end in
  tell_gen dqd s a =
  (mkSched (Some (tell_call dqd)) (cur s) (num_emitted s) (arch s ++ ins)
           (option_map (fun l => l ++ ins) (rarch s)) (mode s) (elog s),
   Err ValueError).
Proof.
  intros H1 H2 Hf Hk. rewrite tell_gen_go by auto. simpl. rewrite Hf.
  rewrite add_to_archives_fail by auto. reflexivity.
Qed.

Theorem tell_ok_spec dqd (s : sched) a :
  WF s ->
  last_is (last_called s) (ask_call dqd) = true ->
  lens_ok (length (cur s)) (ta_data a) && jac_ok dqd (length (cur s)) a = true ->
  ta_fail a = None ->
  let n := length (cur s) in
  let data := ta_data a ++ [Some (cur s)] in
  let jac := if dqd then Some (ta_jac a) else None in
  let info := map (ta_fb a) (seq 0 n) in
  exists el,
    tell_gen dqd s a =
      (mkSched (Some (tell_call dqd)) (cur s) (num_emitted s)
               (arch s ++ ins_events (mode s) n data)
               (option_map (fun l => l ++ ins_events (mode s) n data) (rarch s)) (mode s) el,
       Ok ONone) /\
    length el = n_emitters s /\
    forall i, i < n_emitters s ->
      nth i el [] = nth i (elog s) [] ++
        [Told dqd (expected_told (sum_nat (firstn i (num_emitted s))) (nth i (num_emitted s) 0)
                                 data jac info)].
Proof.
  intros Hwf H1 H2 Hf n data jac info. rewrite tell_gen_go by auto. simpl. rewrite Hf.
  rewrite add_to_archives_ok. fold n data jac info.
  eexists. split; [reflexivity|]. split.
  - rewrite push_all_length. reflexivity.
  - intros i Hi.
    assert (Hp : nth_error (seq 0 (n_emitters s)) i = Some i) by (rewrite nth_error_seq; auto).
    pose proof (@deliveries_nth_error V F (seq 0 (n_emitters s)) (num_emitted s) 0 data jac info i i Hp) as Hd.
    simpl in Hd.
    erewrite push_all_hit with (p := i) (e := Told dqd _); [reflexivity|exact Hi| |].
    + rewrite map_map. simpl. rewrite deliveries_fst. apply seq_NoDup.
    + rewrite nth_error_map, Hd. simpl. do 3 f_equal.
      rewrite mk_told_expected. f_equal.
      unfold n_emitters. rewrite <- Hwf. now rewrite map_nth_seq.
Qed.

(** cutting a concatenation at the cumulative lengths returns the parts *)
Lemma concat_part (ls : list (list V)) i :
  i < length ls ->
  firstn (length (nth i ls [])) (skipn (sum_nat (firstn i (map (@length V) ls))) (concat ls)) = nth i ls [].
Proof.
  intros Hi.
  pose proof (slices_nth (map (@length V) ls) 0 (concat ls) (i := i)) as H.
  rewrite map_length in H. specialize (H Hi). rewrite slices_concat_inv0 in H. simpl in H.
  rewrite nth_map_default with (d' := []) in H by reflexivity. now symmetry.
Qed.

(** Headline: one ask followed by its tell hands every emitter exactly the rows it generated, in
    every field, the Jacobian and the add feedback. *)
Theorem ask_tell_roundtrip dqd (s : sched) resp a :
  WF s -> idle (last_called s) = true ->
  let n := n_emitters s in
  let total := length (concat (map resp (seq 0 n))) in
  lens_ok total (ta_data a) && jac_ok dqd total a = true -> ta_fail a = None ->
  let s1 := fst (ask_gen dqd s resp) in
  let s2 := fst (tell_gen dqd s1 a) in
  snd (tell_gen dqd s1 a) = Ok ONone /\
  forall i, i < n ->
    let off := sum_nat (map (fun j => length (resp j)) (seq 0 i)) in
    let m := length (resp i) in
    exists t,
      nth i (elog s2) [] = nth i (elog s) [] ++ [Asked dqd (resp i); Told dqd t] /\
      last (t_data t) None = Some (resp i) /\
      (forall c col, nth_error (ta_data a) c = Some (Some col) ->
                     nth_error (t_data t) c = Some (Some (firstn m (skipn off col)))) /\
      (forall c, nth_error (ta_data a) c = Some None -> nth_error (t_data t) c = Some None) /\
      t_jac t = (if dqd then Some (firstn m (skipn off (ta_jac a))) else None) /\
      t_info t = map (ta_fb a) (seq off m).
Proof.
  intros Hwf Hidle n total Hlens Hfail s1 s2.
  destruct (@ask_spec dqd s resp Hwf Hidle) as [el1 [Eask [Hlen1 Hel1]]].
  fold n in Eask, Hlen1, Hel1.
  assert (Es1 : s1 = mkSched (Some (ask_call dqd)) (concat (map resp (seq 0 n)))
                             (map (fun i => length (resp i)) (seq 0 n)) (arch s) (rarch s) (mode s) el1).
  { unfold s1. now rewrite Eask. }
  assert (Hwf1 : WF s1).
  { rewrite Es1. unfold WF. simpl. now rewrite map_length, seq_length. }
  assert (Hlast1 : last_is (last_called s1) (ask_call dqd) = true).
  { rewrite Es1. simpl. now destruct dqd. }
  assert (Hcur1 : cur s1 = concat (map resp (seq 0 n))) by (now rewrite Es1).
  assert (Hlens1 : lens_ok (length (cur s1)) (ta_data a) && jac_ok dqd (length (cur s1)) a = true)
    by (now rewrite Hcur1).
  destruct (@tell_ok_spec dqd s1 a Hwf1 Hlast1 Hlens1 Hfail) as [el2 [Etell [Hlen2 Hel2]]].
  assert (Hn1 : n_emitters s1 = n) by (rewrite Es1; exact Hlen1).
  split; [now rewrite Etell|].
  intros i Hi off m.
  assert (Hm : nth i (num_emitted s1) 0 = m).
  { rewrite Es1. simpl. now rewrite nth_map_seq. }
  assert (Hoff : sum_nat (firstn i (num_emitted s1)) = off).
  { rewrite Es1. simpl. apply sum_nat_firstn_map_seq. lia. }
  assert (Hnth : nth i (map resp (seq 0 n)) [] = resp i).
  { now rewrite nth_map_seq. }
  eexists. split; [|split; [|split; [|split; [|split]]]].
  - unfold s2. rewrite Etell. simpl. rewrite Hel2 by (now rewrite Hn1).
    rewrite Es1 at 1. simpl. rewrite Hel1 by auto. rewrite <- app_assoc. reflexivity.
  - simpl. rewrite map_app. simpl. rewrite last_last. rewrite Hm, Hoff. f_equal.
    pose proof (@concat_part (map resp (seq 0 n)) i) as Hc.
    rewrite map_length, seq_length in Hc. specialize (Hc Hi).
    rewrite Hnth in Hc. rewrite Hcur1. etransitivity; [|exact Hc]. fold m. do 2 f_equal.
    rewrite map_map. symmetry. apply sum_nat_firstn_map_seq. lia.
  - intros c col Hc. simpl. rewrite map_app. rewrite nth_error_app1.
    2:{ rewrite map_length. apply nth_error_Some. congruence. }
    rewrite nth_error_map, Hc. simpl. now rewrite Hm, Hoff.
  - intros c Hc. simpl. rewrite map_app. rewrite nth_error_app1.
    2:{ rewrite map_length. apply nth_error_Some. congruence. }
    now rewrite nth_error_map, Hc.
  - simpl. rewrite Hm, Hoff. destruct dqd; reflexivity.
  - simpl. rewrite Hm, Hoff. rewrite <- slice_firstn_skipn. apply slice_map_seq.
    (* off + m <= total *)
    rewrite Hcur1. rewrite length_concat, map_map.
    replace n with (i + (n - i)) by lia. rewrite seq_app, map_app, sum_nat_app. fold off.
    replace (n - i) with (S (n - i - 1)) by lia. simpl. fold m. lia.
Qed.

(** ** protocol *)

Lemma step_illegal (s : sched) (o : sop V F) :
  legal (last_called s) (kind_of o) = false -> sched_step s o = (s, Err RuntimeError).
Proof.
  destruct o; simpl; intros H.
  - apply ask_gen_illegal. exact H.
  - apply ask_gen_illegal. exact H.
  - now apply tell_gen_illegal.
  - now apply tell_gen_illegal.
Qed.

Lemma tell_gen_legal_res dqd (s : sched) a :
  last_is (last_called s) (ask_call dqd) = true ->
  last_called (fst (tell_gen dqd s a)) = Some (tell_call dqd) /\
  snd (tell_gen dqd s a) <> Err RuntimeError.
Proof.
  intros H1.
  destruct (lens_ok (length (cur s)) (ta_data a) && jac_ok dqd (length (cur s)) a) eqn:H2.
  - rewrite tell_gen_go by auto. simpl.
    pose proof (add_to_archives_res (mode s) (length (cur s)) (ta_data a ++ [Some (cur s)]) (ta_fb a)
                                    (ta_fail a) (arch s) (rarch s)) as Hres.
    destruct (add_to_archives (mode s) (length (cur s)) (ta_data a ++ [Some (cur s)]) (ta_fb a)
                              (ta_fail a) (arch s) (rarch s)) as [[ar rr] [info|e]]; simpl in *.
    + split; [reflexivity|discriminate].
    + split; [reflexivity|]. destruct Hres as [[i Hi]|He]; [discriminate|]. congruence.
  - rewrite tell_gen_badlen by auto. simpl. split; [reflexivity|discriminate].
Qed.

Lemma step_legal (s : sched) (o : sop V F) :
  legal (last_called s) (kind_of o) = true ->
  last_called (fst (sched_step s o)) = Some (kind_of o) /\ snd (sched_step s o) <> Err RuntimeError.
Proof.
  destruct o; simpl; intros H.
  - rewrite ask_gen_legal by exact H.
    destruct (ask_route false (seq 0 (n_emitters s)) resp (num_emitted s) (elog s)) as [[x y] z].
    simpl. split; [reflexivity|discriminate].
  - rewrite ask_gen_legal by exact H.
    destruct (ask_route true (seq 0 (n_emitters s)) resp (num_emitted s) (elog s)) as [[x y] z].
    simpl. split; [reflexivity|discriminate].
  - now apply (@tell_gen_legal_res false).
  - now apply (@tell_gen_legal_res true).
Qed.

Theorem runtime_error_iff_illegal (s : sched) (o : sop V F) :
  snd (sched_step s o) = Err RuntimeError <-> legal (last_called s) (kind_of o) = false.
Proof.
  split.
  - intros H. destruct (legal (last_called s) (kind_of o)) eqn:E; auto.
    exfalso. now apply (proj2 (step_legal s o E)).
  - intros H. now rewrite step_illegal.
Qed.

Theorem runtime_error_unchanged (s : sched) (o : sop V F) :
  snd (sched_step s o) = Err RuntimeError -> sched_step s o = (s, Err RuntimeError).
Proof. intros H. apply step_illegal. now apply runtime_error_iff_illegal. Qed.

Fixpoint accepts (st : option call) (l : list call) : bool :=
  match l with
  | [] => true
  | c :: t => legal st c && accepts (Some c) t
  end.

Lemma run_accepts (ops : list (sop V F)) (s : sched) :
  Forall (fun r => r <> Err RuntimeError) (snd (sched_run s ops)) <->
  accepts (last_called s) (map (@kind_of V F) ops) = true.
Proof.
  revert s; induction ops as [|o t IH]; intros s; simpl.
  - split; auto.
  - destruct (sched_step s o) as [s1 r] eqn:E1. destruct (sched_run s1 t) as [s2 rs] eqn:E2. simpl.
    specialize (IH s1). rewrite E2 in IH. simpl in IH.
    destruct (legal (last_called s) (kind_of o)) eqn:El; simpl.
    + pose proof (step_legal s o El) as [Hl Hr]. rewrite E1 in Hl, Hr. simpl in Hl, Hr.
      rewrite <- Hl, <- IH. split.
      * intros H. now inversion H.
      * intros H. now constructor.
    + rewrite (step_illegal s o El) in E1. inversion E1; subst.
      split; [|discriminate]. intros H. inversion H; subst. congruence.
Qed.

Lemma accepts_idle_ext st st' l : idle st = true -> idle st' = true -> accepts st l = accepts st' l.
Proof.
  intros H H'. destruct l as [|c t]; simpl; auto. f_equal.
  unfold idle in *. apply negb_true_iff in H, H'.
  destruct c; simpl; rewrite ?H, ?H'; auto.
  - apply orb_false_iff in H, H'. destruct H as [-> _], H' as [-> _]. reflexivity.
  - apply orb_false_iff in H, H'. destruct H as [_ ->], H' as [_ ->]. reflexivity.
Qed.

Lemma accepts_plang_aux n : forall l st, length l <= n -> idle st = true ->
  (accepts st l = true <-> plang l).
Proof.
  induction n as [|n IH]; intros l st Hlen Hidle.
  - destruct l; [|simpl in Hlen; lia]. simpl. split; auto using P_nil.
  - destruct l as [|c1 [|c2 t]].
    + simpl. split; auto using P_nil.
    + assert (Hl : legal st c1 = match c1 with CAsk | CAskDqd => true | _ => false end).
      { unfold idle in Hidle. apply negb_true_iff in Hidle.
        destruct c1; simpl; rewrite ?Hidle; auto;
          apply orb_false_iff in Hidle; destruct Hidle as [Ha Hb]; auto. }
      simpl. rewrite Hl, andb_true_r.
      destruct c1; split; intros H; try discriminate; try constructor; inversion H.
    + assert (Hl : legal st c1 = match c1 with CAsk | CAskDqd => true | _ => false end).
      { unfold idle in Hidle. apply negb_true_iff in Hidle.
        destruct c1; simpl; rewrite ?Hidle; auto;
          apply orb_false_iff in Hidle; destruct Hidle as [Ha Hb]; auto. }
      change (accepts st (c1 :: c2 :: t)) with (legal st c1 && (legal (Some c1) c2 && accepts (Some c2) t)).
      rewrite Hl.
      assert (IHt : forall st', idle st' = true -> (accepts st' t = true <-> plang t)).
      { intros st' Hst'. apply IH; auto. simpl in Hlen. lia. }
      destruct c1, c2; simpl; split; intros H; try discriminate; try (inversion H; fail).
      * apply P_iter. now apply (IHt (Some CTell)).
      * inversion H; subst. now apply (IHt (Some CTell)).
      * apply P_iter_dqd. now apply (IHt (Some CTellDqd)).
      * inversion H; subst. now apply (IHt (Some CTellDqd)).
Qed.

Theorem protocol_language (s : sched) (ops : list (sop V F)) :
  idle (last_called s) = true ->
  (Forall (fun r => r <> Err RuntimeError) (snd (sched_run s ops)) <-> plang (map (@kind_of V F) ops)).
Proof.
  intros H. rewrite run_accepts. apply accepts_plang_aux with (n := length (map (@kind_of V F) ops)); auto.
Qed.

(** ** well-formedness of reachable states *)

Lemma step_WF (s : sched) (o : sop V F) : WF s -> WF (fst (sched_step s o)).
Proof.
  intros Hwf.
  destruct (legal (last_called s) (kind_of o)) eqn:El; [|now rewrite step_illegal].
  destruct o as [resp|resp|a|a]; simpl in *.
  - destruct (@ask_spec false s resp Hwf El) as [el [E [Hl _]]]. rewrite E. unfold WF. simpl.
    now rewrite map_length, seq_length.
  - destruct (@ask_spec true s resp Hwf El) as [el [E [Hl _]]]. rewrite E. unfold WF. simpl.
    now rewrite map_length, seq_length.
  - destruct (lens_ok (length (cur s)) (ta_data a) && jac_ok false (length (cur s)) a) eqn:H2.
    + rewrite tell_gen_go by auto. simpl.
      destruct (add_to_archives (mode s) (length (cur s)) (ta_data a ++ [Some (cur s)]) (ta_fb a)
                                (ta_fail a) (arch s) (rarch s)) as [[ar rr] [info|e]]; unfold WF; simpl; auto.
      rewrite push_all_length. exact Hwf.
    + rewrite tell_gen_badlen by auto. exact Hwf.
  - destruct (lens_ok (length (cur s)) (ta_data a) && jac_ok true (length (cur s)) a) eqn:H2.
    + rewrite tell_gen_go by auto. simpl.
      destruct (add_to_archives (mode s) (length (cur s)) (ta_data a ++ [Some (cur s)]) (ta_fb a)
                                (ta_fail a) (arch s) (rarch s)) as [[ar rr] [info|e]]; unfold WF; simpl; auto.
      rewrite push_all_length. exact Hwf.
    + rewrite tell_gen_badlen by auto. exact Hwf.
Qed.

Lemma run_WF (ops : list (sop V F)) (s : sched) : WF s -> WF (fst (sched_run s ops)).
Proof.
  revert s; induction ops as [|o t IH]; intros s H; simpl; auto.
  destruct (sched_step s o) as [s1 r] eqn:E1. destruct (sched_run s1 t) as [s2 rs] eqn:E2. simpl.
  specialize (IH s1). rewrite E2 in IH. apply IH.
  pose proof (step_WF o H) as H1. now rewrite E1 in H1.
Qed.

Lemma init_WF n m wr : WF (sched_init n m wr).
Proof. unfold WF, sched_init. simpl. now rewrite !repeat_length. Qed.

End SchedulerProofs.
