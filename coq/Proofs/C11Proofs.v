(** C11: a rejected call leaves every observable of the archive unchanged, and the rest of the history
    behaves as if the rejected call had never happened. *)
From Coq Require Import List Arith Bool ZArith QArith Lia.
From PV Require Import Base.ListUtil Base.QUtil Base.FirstArgmax Model.Store Proofs.StoreProofs
     Model.Archive Proofs.ArchiveProofs Model.Validate.
Import ListNotations.
Set Implicit Arguments.
Local Open Scope nat_scope.

Section C11.
Variable P : Type.
Notation archive := (archive P).
Notation vop := (vop P).

Theorem rejected_unchanged (c : cfg) (a : archive) (o : vop) a' e :
  vstep c a o = (a', OErr e) -> obs a' = obs a.
Proof.
  destruct o as [[[|]|] cs|[[|]|] x|[|] q|]; simpl; intros H; try (inversion H; subst; reflexivity).
  all: try (destruct (add c a cs) as [a1 [st vl]]; discriminate).
  all: try (destruct (add_single c a x) as [a1 [st vl]]; discriminate).
Qed.

(** the update counters never influence anything observable *)
Lemma add_raw_nstore (s : store (row P)) idxs xs k :
  nstore (fst (add_raw s idxs xs k)) = nstore (fst (add_raw (nstore s) idxs xs k)) /\
  snd (add_raw s idxs xs k) = snd (add_raw (nstore s) idxs xs k).
Proof.
  unfold add_raw.
  destruct (Nat.eqb (length idxs) 0); [split; reflexivity|].
  destruct (negb (Nat.eqb (length idxs) (length xs))); [split; reflexivity|].
  destruct (negb k); [split; reflexivity|].
  change (in_range (nstore s) idxs) with (in_range s idxs).
  destruct (negb (in_range s idxs)); split; reflexivity.
Qed.

Lemma nstore_parts (s1 s2 : store (row P)) :
  nstore s1 = nstore s2 -> cap s1 = cap s2 /\ occ s1 = occ s2 /\ olist s1 = olist s2 /\ rows s1 = rows s2.
Proof. unfold nstore. intros H. inversion H. auto. Qed.

Lemma stats_update_obs (c : cfg) (a a' : archive) (s1 s2 : store (row P)) sm bi :
  nstore s1 = nstore s2 -> a_stats a = a_stats a' -> a_best a = a_best a' ->
  obs (stats_update c a s1 sm bi) = obs (stats_update c a' s2 sm bi).
Proof.
  intros Hn Hs Hb. destruct (nstore_parts Hn) as (Hc & Ho & Hl & Hr).
  unfold stats_update, get_row, len. rewrite Hr, Hl, Hs, Hb.
  destruct (nth bi (rows s2) None) as [r|].
  - destruct (st_max (a_stats a')) as [m|].
    + destruct (Qltb m (r_obj r)); unfold obs, nstore; simpl; rewrite Hc, Ho, Hl, Hr; reflexivity.
    + unfold obs, nstore; simpl; rewrite Hc, Ho, Hl, Hr; reflexivity.
  - unfold obs, nstore; simpl; rewrite Hc, Ho, Hl, Hr; reflexivity.
Qed.

Lemma commit_obs (c : cfg) (a : archive) w :
  obs (commit c a (bump_add (a_store a)) w) = obs (commit c (obs a) (bump_add (a_store (obs a))) w).
Proof.
  unfold commit.
  change (sum_delta (bump_add (a_store (obs a))) w) with (sum_delta (bump_add (a_store a)) w).
  change (a_sum (obs a)) with (a_sum a).
  destruct (add_raw_nstore (bump_add (a_store a)) (map fst w) (map snd w) true) as [H1 _].
  destruct (add_raw_nstore (bump_add (a_store (obs a))) (map fst w) (map snd w) true) as [H3 _].
  assert (H2 : nstore (fst (add_raw (bump_add (a_store a)) (map fst w) (map snd w) true)) =
               nstore (fst (add_raw (bump_add (a_store (obs a))) (map fst w) (map snd w) true))).
  { rewrite H1, H3. reflexivity. }
  destruct (best_index w) as [bi|].
  - apply stats_update_obs; auto.
  - unfold obs; simpl. rewrite H2. reflexivity.
Qed.

Lemma vstep_obs (c : cfg) (a : archive) (o : vop) :
  obs (fst (vstep c a o)) = obs (fst (vstep c (obs a) o)) /\ snd (vstep c a o) = snd (vstep c (obs a) o).
Proof.
  destruct o as [[[|]|] cs|[[|]|] x|[|] q|]; simpl; try (split; reflexivity).
  - unfold add. simpl.
    change (batch_winners c (bump_add (a_store (obs a))) cs) with (batch_winners c (bump_add (a_store a)) cs).
    split; [apply commit_obs|reflexivity].
  - unfold add_single. simpl.
    change (single_winners c (bump_add (a_store (obs a))) x) with (single_winners c (bump_add (a_store a)) x).
    split; [apply commit_obs|reflexivity].
Qed.

Lemma vrun_obs (c : cfg) (h : list vop) : forall (a : archive),
  obs (fst (vrun c a h)) = obs (fst (vrun c (obs a) h)) /\ snd (vrun c a h) = snd (vrun c (obs a) h).
Proof.
  induction h as [|o t IH]; intros a; simpl; [split; reflexivity|].
  destruct (vstep_obs c a o) as [H1 H2].
  destruct (vstep c a o) as [a1 out1] eqn:E1. destruct (vstep c (obs a) o) as [a2 out2] eqn:E2.
  simpl in H1, H2. subst out2.
  destruct (IH a1) as [Ha1 Hb1]. destruct (IH a2) as [Ha2 Hb2].
  destruct (vrun c a1 t) as [a1' o1'] eqn:R1. destruct (vrun c a2 t) as [a2' o2'] eqn:R2.
  simpl in *.
  assert (Hobs_idem : forall x : archive, obs (obs x) = obs x) by (intros [[? ? ? ? ? ?] ? ? ?]; reflexivity).
  rewrite H1 in Ha1, Hb1. rewrite Ha1, Hb1, Ha2, Hb2. split; reflexivity.
Qed.

(** as if the rejected call had never happened: same final observables and the same outputs of every
    later call, for every continuation *)
Theorem as_if_never (c : cfg) (a : archive) (bad : vop) (h' : list vop) a' e :
  vstep c a bad = (a', OErr e) ->
  obs (fst (vrun c a' h')) = obs (fst (vrun c a h')) /\ snd (vrun c a' h') = snd (vrun c a h').
Proof.
  intros Hbad. pose proof (rejected_unchanged _ _ _ Hbad) as Ho.
  destruct (vrun_obs c h' a') as [H1 H2]. destruct (vrun_obs c h' a) as [H3 H4].
  rewrite H1, H2, H3, H4, Ho. split; reflexivity.
Qed.

(** a valid call never reports an error (so "rejected" is exactly "malformed") *)
Theorem valid_never_rejected (c : cfg) (a : archive) (o : vop) :
  match o with VAdd None _ | VAddSingle None _ | VRetrieve false _ | VClear => True | _ => False end ->
  is_err (snd (vstep c a o)) = false.
Proof.
  destruct o as [[[|]|] cs|[[|]|] x|[|] q|]; simpl; try tauto; intros _; try reflexivity.
  all: try (destruct (add c a cs) as [a1 [st vl]]; reflexivity).
  all: try (destruct (add_single c a x) as [a1 [st vl]]; reflexivity).
Qed.

End C11.
