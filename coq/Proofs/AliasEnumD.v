(** C12 -- part D of the finite enumeration (entry point x arity x path variant x layout vector), evaluated by the
    kernel's virtual machine.  Split over four files only so that the build runs them in parallel. *)
From Coq Require Import List Bool.
From PV Require Import Model.Alias Proofs.AliasSound.
Import ListNotations.

Definition eps_D : list ep :=
  [SchedTell; SchedTellDqd; BanditTell;
   AdamCtor; AdamReset; AdamStep; GAscCtor; GAscReset; GAscStep; ParallelAxes; HeatmapDf; EmitterAsk].

Lemma enum_D : forallb check_ep2 eps_D = true.
Proof. vm_cast_no_check (eq_refl true). Qed.
