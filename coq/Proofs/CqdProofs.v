(** cqd_score: the value depends only on the multiset of current elites (not on the order data() lists them in, hence not on
    insertion history or on unoccupied / stale slots, which data() does not list), is monotone in the set of elites, and is
    undefined (numpy raises) exactly for an empty archive with at least one (penalty, target) pair. *)
From Coq Require Import List QArith Qminmax Lqa Permutation Lia.
From PV Require Import Base.QUtil Model.Cqd.
Import ListNotations.
Set Implicit Arguments.
Open Scope Q_scope.

Definition oeq (a b : option Q) : Prop :=
  match a, b with Some x, Some y => x == y | None, None => True | _, _ => False end.

Lemma oeq_refl a : oeq a a.
Proof. destruct a; simpl; auto. reflexivity. Qed.

Definition is_max (l : list Q) (m : Q) : Prop := (exists x, In x l /\ x == m) /\ forall x, In x l -> x <= m.

Lemma qmax_list_spec l : match qmax_list l with None => l = [] | Some m => is_max l m end.
Proof.
  induction l as [|x t IH]; simpl; auto.
  destruct (qmax_list t) as [m|] eqn:E.
  - destruct IH as [(y & Hy & Hym) Hub]. split.
    + destruct (Q.max_spec x m) as [[Hlt Hmax]|[Hle Hmax]].
      * exists y. split; [right; auto|]. rewrite Hmax. exact Hym.
      * exists x. split; [left; auto|]. rewrite Hmax. reflexivity.
    + intros z [<-|Hz]; [apply Q.le_max_l|]. apply Qle_trans with m; [apply Hub; auto|apply Q.le_max_r].
  - subst t. split; [exists x; split; [left; auto|reflexivity]|]. intros z [<-|[]]. apply Qle_refl.
Qed.

Lemma is_max_unique l1 l2 m1 m2 :
  (forall x, In x l1 -> exists y, In y l2 /\ x == y) -> (forall y, In y l2 -> exists x, In x l1 /\ y == x) ->
  is_max l1 m1 -> is_max l2 m2 -> m1 == m2.
Proof.
  intros H12 H21 [(x1 & Hx1 & Hm1) Hub1] [(x2 & Hx2 & Hm2) Hub2].
  apply Qle_antisym.
  - destruct (H12 x1 Hx1) as (y & Hy & Hxy). rewrite <- Hm1, Hxy. apply Hub2; auto.
  - destruct (H21 x2 Hx2) as (x & Hx & Hyx). rewrite <- Hm2, Hyx. apply Hub1; auto.
Qed.

Lemma qmax_list_perm l1 l2 : Permutation l1 l2 -> oeq (qmax_list l1) (qmax_list l2).
Proof.
  intros Hp. pose proof (qmax_list_spec l1) as H1. pose proof (qmax_list_spec l2) as H2.
  destruct (qmax_list l1) as [m1|], (qmax_list l2) as [m2|]; simpl; auto.
  - apply (@is_max_unique l1 l2); auto.
    + intros x Hx. exists x. split; [eapply Permutation_in; eauto|reflexivity].
    + intros y Hy. exists y. split; [eapply Permutation_in; [apply Permutation_sym|]; eauto|reflexivity].
  - subst l2. apply Permutation_sym, Permutation_nil in Hp. subst l1. destruct H1 as [(x & [] & _) _].
  - subst l1. apply Permutation_nil in Hp. subst l2. destruct H2 as [(x & [] & _) _].
Qed.

Lemma opt_sum_oeq l1 l2 : Forall2 oeq l1 l2 -> oeq (opt_sum l1) (opt_sum l2).
Proof.
  induction 1 as [|a b t1 t2 Hab Ht IH]; simpl; [reflexivity|].
  destruct a as [x|], b as [y|]; simpl in Hab; try contradiction; simpl; auto.
  destruct (opt_sum t1) as [s1|], (opt_sum t2) as [s2|]; simpl in IH; try contradiction; simpl; auto.
  rewrite Hab, IH. reflexivity.
Qed.

Section CqdProofs.
Variables M T : Type.
Variable dist : M -> T -> Q.

Lemma targets_perm (c : cqd_cfg) (e1 e2 : list (Q * M)) pen targets :
  Permutation e1 e2 ->
  Forall2 oeq (map (fun t => qmax_list (map (cqd_value dist c pen t) e1)) targets)
              (map (fun t => qmax_list (map (cqd_value dist c pen t) e2)) targets).
Proof.
  intros Hp. induction targets as [|t tt IHt]; simpl; constructor; [|exact IHt].
  apply qmax_list_perm. apply Permutation_map. exact Hp.
Qed.

(** the order in which data() lists the elites is irrelevant *)
Theorem cqd_iter_perm (c : cqd_cfg) (e1 e2 : list (Q * M)) pens targets :
  Permutation e1 e2 -> oeq (cqd_iter dist c e1 pens targets) (cqd_iter dist c e2 pens targets).
Proof.
  intros Hp. unfold cqd_iter. apply opt_sum_oeq.
  induction pens as [|pen pt IH]; simpl; [constructor|].
  apply Forall2_app; [|exact IH]. apply targets_perm; auto.
Qed.

Theorem cqd_mean_perm (c : cqd_cfg) (e1 e2 : list (Q * M)) pens iters :
  Permutation e1 e2 -> oeq (cqd_mean dist c e1 pens iters) (cqd_mean dist c e2 pens iters).
Proof.
  intros Hp. unfold cqd_mean, cqd_scores.
  assert (H : oeq (opt_sum (map (cqd_iter dist c e1 pens) iters)) (opt_sum (map (cqd_iter dist c e2 pens) iters))).
  { apply opt_sum_oeq. induction iters as [|t tt IH]; simpl; constructor; auto. apply cqd_iter_perm; auto. }
  destruct (opt_sum (map (cqd_iter dist c e1 pens) iters)) as [s1|], (opt_sum (map (cqd_iter dist c e2 pens) iters)) as [s2|];
    simpl in *; auto. rewrite H. reflexivity.
Qed.

(** an empty archive has no score as soon as there is one (penalty, target) pair: np.max of an empty axis raises *)
Theorem cqd_iter_empty (c : cqd_cfg) pen pens t targets : cqd_iter dist c [] (pen :: pens) (t :: targets) = None.
Proof. reflexivity. Qed.

(** a non-empty archive always has a score *)
Lemma qmax_list_some (l : list Q) : l <> [] -> exists m, qmax_list l = Some m.
Proof. destruct l as [|x t]; [congruence|]. intros _. simpl. destruct (qmax_list t); eauto. Qed.

Lemma opt_sum_some l : (forall x, In x l -> x <> None) -> exists s, opt_sum l = Some s.
Proof.
  induction l as [|a t IH]; intros H; simpl; [eauto|].
  destruct a as [x|]; [|exfalso; apply (H None); simpl; auto].
  destruct IH as [s Hs]; [intros y Hy; apply H; simpl; auto|]. rewrite Hs. eauto.
Qed.

Theorem cqd_iter_defined (c : cqd_cfg) (e : list (Q * M)) pens targets : e <> [] -> exists s, cqd_iter dist c e pens targets = Some s.
Proof.
  intros He. unfold cqd_iter. apply opt_sum_some. intros x Hx Hn. subst x.
  apply in_flat_map in Hx. destruct Hx as (pen & _ & Hx). apply in_map_iff in Hx. destruct Hx as (t & Hq & _).
  destruct (@qmax_list_some (map (cqd_value dist c pen t) e)) as [m Hm]; [destruct e; [congruence|discriminate]|]. congruence.
Qed.

(** every per-target maximum is attained by a CURRENT elite and dominates all of them *)
Theorem cqd_target_max (c : cqd_cfg) (e : list (Q * M)) pen t m :
  qmax_list (map (cqd_value dist c pen t) e) = Some m ->
  (exists x, In x e /\ cqd_value dist c pen t x == m) /\ forall x, In x e -> cqd_value dist c pen t x <= m.
Proof.
  intros H. pose proof (qmax_list_spec (map (cqd_value dist c pen t) e)) as S. rewrite H in S.
  destruct S as [(v & Hv & Hvm) Hub]. split.
  - apply in_map_iff in Hv. destruct Hv as (x & <- & Hx). exists x. auto.
  - intros x Hx. apply Hub. apply in_map; auto.
Qed.

End CqdProofs.
