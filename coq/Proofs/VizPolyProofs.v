(** C20, 2-D CVT heat map: the polygons and the face colours handed to PolyCollection stay aligned, for every list of regions,
    every way the clip polygon splits them, and every assignment of objectives. *)
From Coq Require Import List Arith Bool QArith Lia.
From PV Require Import Model.VizPoly.
Import ListNotations.
Local Open Scope nat_scope.

Definition pre_face (o : option Q) : face := if is_none o then FBlank else FEmpty.
Definition obj_part (o : option Q) (n : nat) : list (option Q) := if is_none o then [] else repeat o n.

(** what one drawn region appends *)
Definition grown (rid : nat) (r : region) (n : nat) (s : st) : st :=
  mkSt (verts s ++ repeat rid n) (faces s ++ repeat (pre_face (r_obj r)) n) (mask s ++ repeat (negb (is_none (r_obj r))) n)
       (objs s ++ obj_part (r_obj r) n) n.

Lemma repeat_snoc {A} (x : A) n : repeat x n ++ [x] = repeat x (S n).
Proof. induction n as [|n IH]; simpl; [reflexivity|]. rewrite IH. reflexivity. Qed.

Lemma iter_succ {A} (f : A -> A) n x : Nat.iter (S n) f x = f (Nat.iter n f x).
Proof. reflexivity. Qed.

Lemma iter_verts clip rid r n s :
  Nat.iter n (exec clip rid r (SAct AVert)) s = mkSt (verts s ++ repeat rid n) (faces s) (mask s) (objs s) (nsplits s).
Proof.
  induction n as [|n IH].
  - simpl. rewrite app_nil_r. destruct s; reflexivity.
  - rewrite iter_succ, IH. cbn [exec do_act verts faces mask objs nsplits]. rewrite <- app_assoc, repeat_snoc. reflexivity.
Qed.

Definition colour_stmt : stmt :=
  SIfNone (SSeq (SAct AFaceBlank) (SAct (AMask false))) (SSeq (SAct AFaceEmpty) (SSeq (SAct (AMask true)) (SAct AObj))).

Lemma iter_colours clip rid r n s :
  Nat.iter n (exec clip rid r colour_stmt) s =
  mkSt (verts s) (faces s ++ repeat (pre_face (r_obj r)) n) (mask s ++ repeat (negb (is_none (r_obj r))) n)
       (objs s ++ obj_part (r_obj r) n) (nsplits s).
Proof.
  induction n as [|n IH].
  - simpl. unfold obj_part. destruct (is_none (r_obj r)); simpl; rewrite !app_nil_r; destruct s; reflexivity.
  - rewrite iter_succ, IH. unfold colour_stmt, pre_face, obj_part. cbn [exec].
    destruct (is_none (r_obj r)) eqn:E; cbn [exec do_act verts faces mask objs nsplits];
      rewrite <- ?app_assoc, ?repeat_snoc, ?app_nil_r; reflexivity.
Qed.

Lemma e_seq c i r a b s : exec c i r (SSeq a b) s = exec c i r b (exec c i r a s). Proof. reflexivity. Qed.
Lemma e_act c i r a s : exec c i r (SAct a) s = do_act i r a s. Proof. reflexivity. Qed.
Lemma e_ifclip c i r t e s : exec c i r (SIfClip t e) s = if c then exec c i r t s else exec c i r e s. Proof. reflexivity. Qed.
Lemma e_ifmulti c i r t e s : exec c i r (SIfMulti t e) s = if r_multi r then exec c i r t s else exec c i r e s. Proof. reflexivity. Qed.
Lemma e_forgeoms c i r b s : exec c i r (SForGeoms b) s = Nat.iter (r_k r) (exec c i r b) s. Proof. reflexivity. Qed.
Lemma e_set c i r k s : exec c i r (SSetSplits k) s = mkSt (verts s) (faces s) (mask s) (objs s) (count_val r k). Proof. reflexivity. Qed.
Lemma e_forsplits c i r b s : exec c i r (SForSplits b) s = Nat.iter (nsplits s) (exec c i r b) s. Proof. reflexivity. Qed.

Lemma exec_model_body clip rid r s :
  exec clip rid r model_body s = grown rid r (pieces clip r) s.
Proof.
  unfold model_body, pieces, grown.
  fold colour_stmt.
  rewrite e_seq, e_ifclip.
  destruct clip.
  - rewrite e_ifmulti. destruct (r_multi r).
    + rewrite e_seq, e_forgeoms, iter_verts, e_set, e_forsplits.
      cbn [nsplits count_val verts faces mask objs].
      rewrite iter_colours. reflexivity.
    + rewrite e_seq, e_act, e_set, e_forsplits.
      cbn [do_act nsplits count_val verts faces mask objs].
      rewrite iter_colours. reflexivity.
  - rewrite e_seq, e_act, e_set, e_forsplits.
    cbn [do_act nsplits count_val verts faces mask objs].
    rewrite iter_colours. reflexivity.
Qed.

(** * the invariant: all four lists are images of the list of region ids drawn so far *)
Section Aligned.
Variable objof : nat -> option Q.

Definition spec_faces (L : list nat) := map (fun rid => pre_face (objof rid)) L.
Definition spec_mask (L : list nat) := map (fun rid => negb (is_none (objof rid))) L.
Definition spec_objs (L : list nat) := flat_map (fun rid => obj_part (objof rid) 1) L.

Definition Aligned (s : st) : Prop :=
  faces s = spec_faces (verts s) /\ mask s = spec_mask (verts s) /\ objs s = spec_objs (verts s).

Lemma map_repeat {A B} (f : A -> B) x n : map f (repeat x n) = repeat (f x) n.
Proof. induction n as [|n IH]; simpl; congruence. Qed.

Lemma flat_map_repeat rid n : flat_map (fun rid => obj_part (objof rid) 1) (repeat rid n) = obj_part (objof rid) n.
Proof.
  induction n as [|n IH]; [unfold obj_part; destruct (is_none (objof rid)); reflexivity|].
  cbn [repeat flat_map]. rewrite IH. unfold obj_part. destruct (is_none (objof rid)); reflexivity.
Qed.

Lemma grown_aligned rid r n s : objof rid = r_obj r -> Aligned s -> Aligned (grown rid r n s).
Proof.
  intros Ho (Hf & Hm & Hob). unfold Aligned, grown, spec_faces, spec_mask, spec_objs in *. simpl.
  rewrite !map_app, flat_map_app, !map_repeat, flat_map_repeat, Hf, Hm, Hob, Ho. auto.
Qed.

Lemma run_aligned clip irs : forall s,
  (forall rid r, In (rid, r) irs -> objof rid = r_obj r) ->
  Aligned s -> Aligned (run clip model_body irs s).
Proof.
  induction irs as [|[rid r] t IH]; intros s Hobj Hs; cbn [run]; [exact Hs|].
  apply IH.
  - intros rid' r' Hin. apply Hobj. right. exact Hin.
  - destruct (r_skip r); [exact Hs|]. rewrite exec_model_body. apply grown_aligned; [|exact Hs].
    apply Hobj. left. reflexivity.
Qed.

(** the mask assignment succeeds on aligned lists and yields, position by position, the colour of the polygon's region *)
Lemma fill_aligned (L : list nat) :
  fill (spec_faces L) (spec_mask L) (spec_objs L) = Some (map (fun rid => colour_of (objof rid)) L).
Proof.
  induction L as [|rid t IH]; [reflexivity|].
  unfold spec_faces, spec_mask, spec_objs in *. cbn [map flat_map].
  unfold obj_part at 1, pre_face at 1, colour_of at 1.
  destruct (objof rid) as [v|] eqn:E; cbn [is_none negb repeat app fill]; rewrite IH; reflexivity.
Qed.
End Aligned.

(** * the loop over all regions of a diagram *)
Definition objof_regions (regions : list region) (rid : nat) : option Q :=
  match nth_error regions rid with Some r => r_obj r | None => None end.

Lemma in_combine_seq {A} (l : list A) : forall start i x, In (i, x) (combine (seq start (length l)) l) -> nth_error l (i - start) = Some x /\ start <= i.
Proof.
  induction l as [|a t IH]; intros start i x Hin; simpl in *; [contradiction|].
  destruct Hin as [Heq|Hin].
  - inversion Heq; subst. rewrite Nat.sub_diag. split; [reflexivity|lia].
  - destruct (IH (S start) i x Hin) as [Hn Hle].
    replace (i - start) with (S (i - S start)) by lia. split; [exact Hn|lia].
Qed.

Lemma st0_aligned objof : Aligned objof st0.
Proof. repeat split. Qed.

Theorem picture_aligned clip (regions : list region) :
  exists vs, picture clip model_body regions = Some (vs, map (fun rid => colour_of (objof_regions regions rid)) vs).
Proof.
  unfold picture.
  set (irs := combine (seq 0 (length regions)) regions).
  assert (Ha : Aligned (objof_regions regions) (run clip model_body irs st0)).
  { apply run_aligned; [|apply st0_aligned].
    intros rid r Hin. destruct (in_combine_seq regions 0 rid r Hin) as [Hn _].
    unfold objof_regions. rewrite Nat.sub_0_r in Hn. rewrite Hn. reflexivity. }
  destruct Ha as (Hf & Hm & Hob).
  exists (verts (run clip model_body irs st0)).
  rewrite Hf, Hm, Hob, fill_aligned. reflexivity.
Qed.

(** ... spelled out: as many colours as polygons, and the j-th colour is the colour of the region the j-th polygon is a piece of *)
Theorem picture_colours clip (regions : list region) :
  exists vs fs, picture clip model_body regions = Some (vs, fs) /\ length fs = length vs /\
    forall j rid, nth_error vs j = Some rid ->
      exists r, nth_error regions rid = Some r /\ r_skip r = false /\ nth_error fs j = Some (colour_of (r_obj r)).
Proof.
  (* the region ids in [verts] come from the enumeration: strengthen the invariant with "every id is a drawn region" *)
  unfold picture.
  set (irs := combine (seq 0 (length regions)) regions).
  assert (Hids : forall irs' s, (forall rid r, In (rid, r) irs' -> nth_error regions rid = Some r) ->
             (forall rid, In rid (verts s) -> exists r, nth_error regions rid = Some r /\ r_skip r = false) ->
             forall rid, In rid (verts (run clip model_body irs' s)) -> exists r, nth_error regions rid = Some r /\ r_skip r = false).
  { induction irs' as [|[rid0 r0] t IH]; intros s Hin Hs rid Hv; cbn [run] in Hv; [apply Hs; exact Hv|].
    apply (IH (if r_skip r0 then s else exec clip rid0 r0 model_body s)); auto.
    - intros rid' r' H. apply Hin. right. exact H.
    - intros rid' Hv'. destruct (r_skip r0) eqn:Esk; [apply Hs; exact Hv'|].
      rewrite exec_model_body in Hv'. unfold grown in Hv'. simpl in Hv'. apply in_app_or in Hv'.
      destruct Hv' as [H|H]; [apply Hs; exact H|].
      apply repeat_spec in H. subst rid'. exists r0. split; [apply Hin; left; reflexivity|exact Esk]. }
  destruct (picture_aligned clip regions) as [vs Hp].
  assert (Hv : vs = verts (run clip model_body irs st0)).
  { unfold picture in Hp. fold irs in Hp. destruct (fill _ _ _) as [fs0|]; simpl in Hp; [|discriminate].
    inversion Hp. reflexivity. }
  exists vs, (map (fun rid => colour_of (objof_regions regions rid)) vs).
  split; [exact Hp|]. split; [apply map_length|].
  intros j rid Hj.
  assert (Hin : In rid vs) by (eapply nth_error_In; exact Hj).
  destruct (Hids irs st0) with (rid := rid) as (r & Hr & Hsk).
  - intros rid' r' H. destruct (in_combine_seq regions 0 rid' r' H) as [Hn _]. rewrite Nat.sub_0_r in Hn. exact Hn.
  - simpl. contradiction.
  - rewrite <- Hv. exact Hin.
  - exists r. split; [exact Hr|]. split; [exact Hsk|].
    rewrite nth_error_map, Hj. simpl. unfold objof_regions. rewrite Hr. reflexivity.
Qed.

(** every drawn region contributes exactly [pieces] polygons (nothing is dropped, nothing is doubled) *)
Lemma count_occ_repeat_eq (x : nat) n : count_occ Nat.eq_dec (repeat x n) x = n.
Proof. induction n as [|n IH]; simpl; [reflexivity|]. destruct (Nat.eq_dec x x); [lia|contradiction]. Qed.

Lemma count_occ_repeat_neq (x y : nat) n : x <> y -> count_occ Nat.eq_dec (repeat x n) y = 0.
Proof. intros H. induction n as [|n IH]; simpl; [reflexivity|]. destruct (Nat.eq_dec x y); [contradiction|exact IH]. Qed.

Lemma run_count clip : forall irs s rid,
  NoDup (map fst irs) ->
  count_occ Nat.eq_dec (verts (run clip model_body irs s)) rid =
  count_occ Nat.eq_dec (verts s) rid +
  match find (fun ir => Nat.eqb (fst ir) rid) irs with
  | Some (_, r) => if r_skip r then 0 else pieces clip r
  | None => 0
  end.
Proof.
  induction irs as [|[rid0 r0] t IH]; intros s rid Hnd; cbn [run find map fst]; [lia|].
  inversion Hnd as [|? ? Hnotin Hnd']; subst.
  rewrite IH by exact Hnd'.
  destruct (Nat.eqb_spec rid0 rid) as [Heq|Hne].
  - subst rid0.
    assert (Hf : find (fun ir => Nat.eqb (fst ir) rid) t = None).
    { destruct (find _ t) as [[i r]|] eqn:Ef; [|reflexivity].
      apply find_some in Ef. destruct Ef as [Hin Hi]. simpl in Hi. apply Nat.eqb_eq in Hi. subst i.
      exfalso. apply Hnotin. change rid with (fst (rid, r)). apply in_map. exact Hin. }
    rewrite Hf. destruct (r_skip r0); [lia|].
    rewrite exec_model_body. unfold grown. simpl. rewrite count_occ_app, count_occ_repeat_eq. lia.
  - destruct (r_skip r0); [reflexivity|].
    rewrite exec_model_body. unfold grown. simpl. rewrite count_occ_app, count_occ_repeat_neq by exact Hne. lia.
Qed.

Lemma find_combine_seq {A} (l : list A) : forall start rid,
  find (fun ir => Nat.eqb (fst ir) rid) (combine (seq start (length l)) l) =
  if Nat.leb start rid then match nth_error l (rid - start) with Some x => Some (rid, x) | None => None end else None.
Proof.
  induction l as [|a t IH]; intros start rid; simpl.
  - destruct (Nat.leb start rid); [|reflexivity]. destruct (rid - start); reflexivity.
  - destruct (Nat.eqb_spec start rid) as [Heq|Hne].
    + subst. rewrite Nat.leb_refl, Nat.sub_diag. reflexivity.
    + rewrite IH. destruct (Nat.leb_spec start rid) as [Hle|Hgt].
      * destruct (Nat.leb_spec (S start) rid) as [Hle'|Hgt']; [|lia].
        replace (rid - start) with (S (rid - S start)) by lia. reflexivity.
      * destruct (Nat.leb_spec (S start) rid) as [Hle'|Hgt']; [lia|reflexivity].
Qed.

Lemma map_fst_combine_seq {A} (l : list A) start : map fst (combine (seq start (length l)) l) = seq start (length l).
Proof. revert start. induction l as [|a t IH]; intros start; simpl; [reflexivity|]. rewrite IH. reflexivity. Qed.

Theorem picture_piece_count clip (regions : list region) :
  exists vs fs, picture clip model_body regions = Some (vs, fs) /\
    forall rid r, nth_error regions rid = Some r ->
      count_occ Nat.eq_dec vs rid = if r_skip r then 0 else pieces clip r.
Proof.
  destruct (picture_aligned clip regions) as [vs Hp]. exists vs, (map (fun rid => colour_of (objof_regions regions rid)) vs).
  split; [exact Hp|].
  intros rid r Hr.
  assert (Hv : vs = verts (run clip model_body (combine (seq 0 (length regions)) regions) st0)).
  { unfold picture in Hp. destruct (fill _ _ _) as [fs0|]; simpl in Hp; [|discriminate]. inversion Hp. reflexivity. }
  rewrite Hv.
  rewrite run_count by (rewrite map_fst_combine_seq; apply seq_NoDup).
  rewrite find_combine_seq. simpl. rewrite Nat.sub_0_r, Hr. reflexivity.
Qed.

(** * a loop body that forgets to repeat the colour for every piece is NOT aligned (the seeded change C20-L) *)
Definition once_body : stmt :=
  SSeq
    (SIfClip
       (SIfMulti (SForGeoms (SAct AVert)) (SAct AVert))
       (SAct AVert))
    (SIfNone
       (SSeq (SAct AFaceBlank) (SAct (AMask false)))
       (SSeq (SAct AFaceEmpty) (SSeq (SAct (AMask true)) (SAct AObj)))).

Example once_body_misaligned :
  picture true once_body [mkRegion false true 2 (Some (1#1)); mkRegion false false 0 None]
  = Some ([0; 0; 1], [FMap (Some (1#1)); FBlank]).
Proof. reflexivity. Qed.
