(** Proofs about the discrete optimizer model (Model/Opt.v): the resample-until-in-bounds loop over ARBITRARY
    draw streams (bookkeeping of the recorded noise, in-bounds rows, one draw per row, termination within the
    fuel [ask] supplies), mirror sampling, the refutation of the unpatched OpenAI-ES bookkeeping, and the
    rational recombination step (zero parents, parent selection). *)
From Coq Require Import List Arith Bool Lia ZArith QArith.
From PV Require Import Base.ListUtil Model.Opt.
Import ListNotations.
Local Open Scope nat_scope.

(** * list facts *)
Lemma nth_error_firstn_lt A (l : list A) k j : j < k -> nth_error (firstn k l) j = nth_error l j.
Proof.
  revert k j. induction l as [|a t IH]; intros [|k] [|j] H; simpl; try lia; try reflexivity.
  apply IH. lia.
Qed.

Lemma nth_error_skipn_add A (l : list A) c j : nth_error (skipn c l) j = nth_error l (c + j).
Proof.
  revert c. induction l as [|a t IH]; intros [|c]; simpl; try reflexivity.
  - destruct j; reflexivity.
  - apply IH.
Qed.

Lemma nth_error_map_opt A B (g : A -> B) l j : nth_error (map g l) j = option_map g (nth_error l j).
Proof. revert j. induction l as [|a t IH]; intros [|j]; simpl; try reflexivity. apply IH. Qed.

Lemma skipn_skipn_add A (l : list A) a b : skipn b (skipn a l) = skipn (a + b) l.
Proof.
  revert a. induction l as [|x t IH]; intros [|a]; simpl; try reflexivity.
  - destruct b; reflexivity.
  - apply IH.
Qed.

Lemma nth_error_nth_lt A (l : list A) j : j < length l -> exists x, nth_error l j = Some x.
Proof.
  intros H. destruct (nth_error l j) eqn:E; [eexists; reflexivity|].
  apply nth_error_None in E. lia.
Qed.

(** * scatter / select *)
Lemma scatter_length X (arr : list (option X)) idxs vals : length (scatter arr idxs vals) = length arr.
Proof.
  revert arr vals. induction idxs as [|i it IH]; intros arr [|v vt]; simpl; try reflexivity.
  rewrite IH, upd_length. reflexivity.
Qed.

Lemma scatter_notin X (arr : list (option X)) idxs vals i d :
  ~ In i idxs -> nth i (scatter arr idxs vals) d = nth i arr d.
Proof.
  revert arr vals. induction idxs as [|k it IH]; intros arr [|v vt] H; simpl; try reflexivity.
  rewrite IH by (intros C; apply H; right; exact C).
  apply nth_upd_other. intros E. apply H. left. exact E.
Qed.

Lemma scatter_in X (arr : list (option X)) idxs vals j v :
  NoDup idxs -> nth_error vals j = Some v -> j < length idxs -> nth j idxs 0 < length arr ->
  nth (nth j idxs 0) (scatter arr idxs vals) None = Some v.
Proof.
  revert arr vals j. induction idxs as [|i it IH]; intros arr vals j ND Hv Hj Hlt; simpl in Hj; [lia|].
  inversion ND as [|? ? Hni ND']; subst.
  destruct vals as [|v0 vt]; [destruct j; discriminate|].
  simpl scatter. destruct j as [|j]; simpl in *.
  - inversion Hv; subst. rewrite scatter_notin by exact Hni. apply nth_upd_same. exact Hlt.
  - apply IH; [exact ND' | exact Hv | lia | rewrite upd_length; exact Hlt].
Qed.

Lemma select_In idxs mask i :
  In i (select idxs mask) -> exists j, j < length idxs /\ nth j idxs 0 = i /\ nth j mask false = true.
Proof.
  revert mask. induction idxs as [|k it IH]; intros [|b bt] H; simpl in *; try contradiction.
  destruct b.
  - destruct H as [E|H]; [exists 0; repeat split; [lia | exact E]|].
    destruct (IH bt H) as [j [Hj [E M]]]. exists (S j). repeat split; [lia | exact E | exact M].
  - destruct (IH bt H) as [j [Hj [E M]]]. exists (S j). repeat split; [lia | exact E | exact M].
Qed.

Lemma select_complete idxs mask j :
  j < length idxs -> nth j mask false = true -> In (nth j idxs 0) (select idxs mask).
Proof.
  revert mask j. induction idxs as [|k it IH]; intros mask j Hj M; simpl in Hj; [lia|].
  destruct mask as [|b bt]; [destruct j; discriminate|].
  destruct j as [|j]; simpl in *.
  - subst b. left; reflexivity.
  - destruct b; [right|]; apply IH; try lia; exact M.
Qed.

Lemma select_incl idxs mask i : In i (select idxs mask) -> In i idxs.
Proof.
  intros H. destruct (select_In _ _ _ H) as [j [Hj [E _]]]. subst. apply nth_In. exact Hj.
Qed.

Lemma select_NoDup idxs mask : NoDup idxs -> NoDup (select idxs mask).
Proof.
  revert mask. induction idxs as [|k it IH]; intros [|b bt] ND; simpl; try constructor.
  inversion ND as [|? ? Hni ND']; subst. destruct b; [|apply IH; exact ND'].
  constructor; [|apply IH; exact ND']. intros C. apply Hni. eapply select_incl. exact C.
Qed.

(** position of the first occurrence *)
Fixpoint idx (i : nat) (l : list nat) : nat :=
  match l with [] => 0 | x :: t => if Nat.eqb i x then 0 else S (idx i t) end.

Lemma idx_spec i l : In i l -> idx i l < length l /\ nth (idx i l) l 0 = i.
Proof.
  induction l as [|x t IH]; simpl; [tauto|]. intros H.
  destruct (Nat.eqb_spec i x) as [E|NE]; [subst; split; [lia | reflexivity]|].
  destruct H as [E|H]; [congruence|]. destruct (IH H) as [L N]. split; [lia | exact N].
Qed.

Section AskProofs.
Variables D Sol : Type.
Variable f : D -> Sol.
Variable oob : Sol -> bool.

(** what is known about the rows that are no longer waiting for a resample, relative to the WHOLE stream [S]:
    row [i] records the draw at stream position [pos i], its solution is the transform of that draw, the
    transform is in bounds, and no two such rows share a stream position *)
Definition settled (S : list D) (batch : nat) (remaining : list nat)
           (sols : list (option Sol)) (noise : list (option D)) (consumed : nat) (pos : nat -> nat) : Prop :=
  (forall i, i < batch -> ~ In i remaining ->
     pos i < consumed /\
     exists d, nth_error S (pos i) = Some d /\ nth i noise None = Some d /\ nth i sols None = Some (f d) /\
               oob (f d) = false) /\
  (forall i j, i < batch -> j < batch -> ~ In i remaining -> ~ In j remaining -> pos i = pos j -> i = j).

Lemma ask_loop_settled (S : list D) (batch : nat) :
  forall fuel remaining stream sols noise rounds consumed pos sols' noise' r c,
    stream = skipn consumed S -> consumed <= length S ->
    length sols = batch -> length noise = batch ->
    NoDup remaining -> (forall i, In i remaining -> i < batch) ->
    settled S batch remaining sols noise consumed pos ->
    ask_loop f oob fuel remaining stream sols noise rounds consumed = Done sols' noise' r c ->
    length sols' = batch /\ length noise' = batch /\ c <= length S /\
    exists pos', settled S batch [] sols' noise' c pos'.
Proof.
  induction fuel as [|fuel IH]; intros remaining stream sols noise rounds consumed pos sols' noise' r c
    Hst Hc Ls Ln ND Hlt [Hset Hinj] Hrun.
  - destruct remaining as [|r0 rt]; simpl in Hrun; [|discriminate].
    inversion Hrun; subst. repeat split; try assumption. exists pos. split; assumption.
  - destruct remaining as [|r0 rt]; [simpl in Hrun; inversion Hrun; subst; repeat split; try assumption;
                                      exists pos; split; assumption|].
    set (remaining := r0 :: rt) in *.
    cbn [ask_loop] in Hrun. fold remaining in Hrun.
    set (k := length remaining) in *.
    destruct (Nat.ltb_spec (length stream) k) as [Hshort|Hlong]; [discriminate|].
    assert (Lstream : length stream = length S - consumed) by (rewrite Hst; apply skipn_length).
    set (z := firstn k stream) in *.
    assert (Lz : length z = k) by (unfold z; rewrite firstn_length; lia).
    set (pos' := fun i => if memb i remaining then consumed + idx i remaining else pos i).
    refine (IH _ _ _ _ _ _ pos' _ _ _ _ _ _ _ _ _ _ _ Hrun).
    + rewrite Hst. apply skipn_skipn_add.
    + lia.
    + rewrite scatter_length. exact Ls.
    + rewrite scatter_length. exact Ln.
    + apply select_NoDup. exact ND.
    + intros i Hi. apply Hlt. eapply select_incl. exact Hi.
    + assert (Hdraw : forall j, j < k -> exists d, nth_error z j = Some d /\ nth_error S (consumed + j) = Some d).
      { intros j Hj. destruct (nth_error_nth_lt _ z j) as [d Hd]; [lia|]. exists d. split; [exact Hd|].
        unfold z in Hd. rewrite nth_error_firstn_lt in Hd by exact Hj.
        rewrite Hst, nth_error_skipn_add in Hd. exact Hd. }
      split.
      * intros i Hi Hnot. unfold pos'. destruct (memb i remaining) eqn:M.
        -- apply memb_In in M. destruct (idx_spec i remaining M) as [Hj Hn]. fold k in Hj.
           set (j := idx i remaining) in *.
           destruct (Hdraw j Hj) as [d [Hz HS]].
           split; [lia|]. exists d. split; [exact HS|].
           split; [|split].
           ++ rewrite <- Hn. apply scatter_in; [exact ND | exact Hz | exact Hj | rewrite Hn, Ln; exact Hi].
           ++ rewrite <- Hn. apply scatter_in; [exact ND | | exact Hj | rewrite Hn, Ls; exact Hi].
              rewrite nth_error_map_opt, Hz. reflexivity.
           ++ destruct (oob (f d)) eqn:O; [|reflexivity]. exfalso. apply Hnot.
              rewrite <- Hn. apply select_complete; [exact Hj|].
              assert (E : nth_error (map oob (map f z)) j = Some true)
                by (rewrite !nth_error_map_opt, Hz; simpl; rewrite O; reflexivity).
              apply nth_error_nth with (d := false) in E. exact E.
        -- apply memb_false in M. destruct (Hset i Hi M) as [Hp [d [HS [Hno [Hso Ho]]]]].
           split; [lia|]. exists d. rewrite !scatter_notin by exact M. repeat split; assumption.
      * intros i j Hi Hj Hni Hnj. unfold pos'.
        destruct (memb i remaining) eqn:Mi; destruct (memb j remaining) eqn:Mj.
        -- apply memb_In in Mi, Mj. destruct (idx_spec i _ Mi) as [_ Ei]. destruct (idx_spec j _ Mj) as [_ Ej].
           intros E. assert (E' : idx i remaining = idx j remaining) by lia. rewrite <- Ei, <- Ej, E'. reflexivity.
        -- apply memb_false in Mj. destruct (Hset j Hj Mj) as [Hp _]. intros E. lia.
        -- apply memb_false in Mi. destruct (Hset i Hi Mi) as [Hp _]. intros E. lia.
        -- apply memb_false in Mi, Mj. apply Hinj; assumption.
Qed.

(** C18_bookkeeping / resample_all_in_bounds, for every stream and every fuel *)
Theorem ask_loop_bookkeeping : forall fuel batch (stream : list D) sols noise r c,
  ask_loop f oob fuel (seq 0 batch) stream (repeat None batch) (repeat None batch) 0 0 = Done sols noise r c ->
  length sols = batch /\ length noise = batch /\ c <= length stream /\
  exists pos : nat -> nat,
    (forall i, i < batch ->
       pos i < c /\
       exists d, nth_error stream (pos i) = Some d /\ nth i noise None = Some d /\
                 nth i sols None = Some (f d) /\ oob (f d) = false) /\
    (forall i j, i < batch -> j < batch -> pos i = pos j -> i = j).
Proof.
  intros fuel batch stream sols noise r c H.
  destruct (ask_loop_settled stream batch fuel (seq 0 batch) stream (repeat None batch) (repeat None batch) 0 0
                             (fun _ => 0) sols noise r c) as [L1 [L2 [L3 [pos [P1 P2]]]]].
  - reflexivity.
  - lia.
  - apply repeat_length.
  - apply repeat_length.
  - apply seq_NoDup.
  - intros i Hi. apply in_seq in Hi. lia.
  - split.
    + intros i Hi Hn. exfalso. apply Hn. apply in_seq. lia.
    + intros i j Hi _ Hn. exfalso. apply Hn. apply in_seq. lia.
  - exact H.
  - repeat split; try assumption. exists pos. split.
    + intros i Hi. apply P1; [exact Hi | intros []].
    + intros i j Hi Hj. apply P2; try assumption; intros [].
Qed.

Corollary ask_bookkeeping : forall batch (stream : list D) sols noise r c,
  ask f oob batch stream = Done sols noise r c ->
  length sols = batch /\ length noise = batch /\ c <= length stream /\
  exists pos : nat -> nat,
    (forall i, i < batch ->
       pos i < c /\
       exists d, nth_error stream (pos i) = Some d /\ nth i noise None = Some d /\
                 nth i sols None = Some (f d) /\ oob (f d) = false) /\
    (forall i j, i < batch -> j < batch -> pos i = pos j -> i = j).
Proof. intros batch stream sols noise r c H. exact (ask_loop_bookkeeping _ _ _ _ _ _ _ H). Qed.

(** every round consumes at least one draw: the fuel [ask] supplies is never exhausted *)
Lemma ask_loop_fuel_enough : forall fuel remaining (stream : list D) sols noise rounds consumed,
  length stream < fuel ->
  ask_loop f oob fuel remaining stream sols noise rounds consumed <> OutOfFuel D Sol.
Proof.
  induction fuel as [|fuel IH]; intros remaining stream sols noise rounds consumed Hf; [lia|].
  destruct remaining as [|r0 rt]; [simpl; discriminate|].
  cbn [ask_loop]. set (k := length (r0 :: rt)).
  destruct (Nat.ltb_spec (length stream) k) as [Hshort|Hlong]; [discriminate|].
  apply IH. rewrite skipn_length. assert (1 <= k) by (unfold k; simpl; lia). lia.
Qed.

Theorem ask_never_out_of_fuel : forall batch (stream : list D), ask f oob batch stream <> OutOfFuel D Sol.
Proof. intros batch stream. unfold ask. apply ask_loop_fuel_enough. lia. Qed.

(** mirror sampling: one round; row i < h records draw i, row h + i records its negation; every returned row is the
    transform of the recorded noise row *)
Variable neg : D -> D.

Theorem ask_mirror_bookkeeping : forall batch (stream : list D) sols noise r c,
  ask_mirror f neg batch stream = Done sols noise r c ->
  let h := Nat.div batch 2 in
  r = 1 /\ c = h /\ length sols = 2 * h /\ length noise = 2 * h /\
  (forall i, i < 2 * h -> exists d, nth i noise None = Some d /\ nth i sols None = Some (f d)) /\
  (forall i, i < h -> exists d, nth_error stream i = Some d /\
                                 nth i noise None = Some d /\ nth (h + i) noise None = Some (neg d)).
Proof.
  intros batch stream sols noise r c H h. unfold ask_mirror in H. fold h in H.
  destruct (Nat.ltb_spec (length stream) h) as [Hs|Hl]; [discriminate|].
  inversion H; subst; clear H.
  set (half := firstn h stream). assert (Lh : length half = h) by (unfold half; rewrite firstn_length; lia).
  set (nl := half ++ map neg half). assert (Ln : length nl = 2 * h) by (unfold nl; rewrite app_length, map_length; lia).
  repeat split; try reflexivity.
  - rewrite map_length. exact Ln.
  - rewrite map_length. exact Ln.
  - intros i Hi. destruct (nth_error_nth_lt _ nl i) as [d Hd]; [lia|]. exists d. split.
    + assert (E : nth_error (map (@Some D) nl) i = Some (Some d)) by (rewrite nth_error_map_opt, Hd; reflexivity).
      apply nth_error_nth with (d := None) in E. exact E.
    + assert (E : nth_error (map (fun d => Some (f d)) nl) i = Some (Some (f d)))
        by (rewrite nth_error_map_opt, Hd; reflexivity).
      apply nth_error_nth with (d := None) in E. exact E.
  - intros i Hi. destruct (nth_error_nth_lt _ half i) as [d Hd]; [lia|]. exists d. split; [|split].
    + unfold half in Hd. rewrite nth_error_firstn_lt in Hd by exact Hi. exact Hd.
    + assert (E : nth_error (map (@Some D) nl) i = Some (Some d)).
      { rewrite nth_error_map_opt. unfold nl. rewrite nth_error_app1 by lia. rewrite Hd. reflexivity. }
      apply nth_error_nth with (d := None) in E. exact E.
    + assert (E : nth_error (map (@Some D) nl) (h + i) = Some (Some (neg d))).
      { rewrite nth_error_map_opt. unfold nl. rewrite nth_error_app2 by lia.
        replace (h + i - length half) with i by lia. rewrite nth_error_map_opt, Hd. reflexivity. }
      apply nth_error_nth with (d := None) in E. exact E.
Qed.
End AskProofs.

(** the unchanged OpenAI-ES (no mirror sampling) does NOT keep the bookkeeping: with batch 2, the first draw out of
    bounds, the recorded noise after ask has ONE row (the last round's) for TWO returned solutions -- finding F10 *)
Theorem openai_unpatched_refuted :
  exists (batch : nat) (stream : list nat) sols noise,
    ask_openai_unpatched (fun d : nat => d) (fun s => Nat.eqb s 0) (S (length stream)) (seq 0 batch) stream
                         (repeat None batch) [] = Some (sols, noise) /\
    length sols = batch /\ length noise <> batch /\
    nth 1 sols None = Some 5 /\ nth 1 noise 0 <> 5.
Proof.
  exists 2, [0; 5; 7]. eexists. eexists. split; [vm_compute; reflexivity|].
  repeat split; simpl; try reflexivity; try discriminate; lia.
Qed.

(** * the rational recombination step *)
Lemma select_parents_first X (d : X) sols ranking mu :
  select_parents d sols ranking mu = gather d sols (firstn mu ranking).
Proof. unfold select_parents, gather. apply firstn_map. Qed.

(** zero parents: the mean is untouched, only the counter moves (by the batch for CMA-ES / sep-CMA-ES, by one
    generation for LM-MA-ES) *)
Theorem tell_mean_zero_parents : forall kind weights s sols ranking,
  d_mean (tell_mean kind weights s sols ranking 0) = d_mean s /\
  d_count (tell_mean kind weights s sols ranking 0) =
    match kind with Evals => d_count s + length ranking | Gens => d_count s + 1 end.
Proof. intros. split; reflexivity. Qed.

(** the new mean depends on the samples at the first [num_parents] ranking positions only *)
Theorem tell_mean_parents_only : forall kind weights s sols ranking ranking' mu,
  firstn mu ranking = firstn mu ranking' -> length ranking = length ranking' ->
  tell_mean kind weights s sols ranking mu = tell_mean kind weights s sols ranking' mu.
Proof.
  intros kind weights s sols ranking ranking' mu E L. unfold tell_mean.
  rewrite !select_parents_first, E, L. reflexivity.
Qed.
