(** C12 -- proofs about the alias calculus of Model/Alias.v.

    1. [alias_sound]: for EVERY program of the calculus, every concrete state (heap contents arbitrary) and every
       interpretation [f] of the content operations, the concrete run is simulated by the abstract run: environment,
       fields of self, returned and exposed values and the halt flag coincide, and every buffer of the initial heap
       that is not in the abstract [a_mut] set has bitwise the same contents after the run.  By induction over the
       program; one simulation lemma per instruction.
    2. [check_all_true]: the finite enumeration (entry point x arity x path variant x layout vector) by [vm_compute],
       lifted by [forallb_forall] to [clean_all]; combined with 1. this gives, for all heaps / contents / content
       operations: caller buffers unchanged, no caller buffer reachable from self (later caller-side writes are not
       observable through self), no writable handle on a store or caller buffer handed out (writes through returned
       values leave store and caller buffers unchanged), the store's fields still are the store's buffers.
    3. read paths over Model/Store.v: dict, tuple, single field, iteration, pandas + get_field + iterelites all present
       [map (elite_of s) (olist s)]. *)
From Coq Require Import List Arith Bool ZArith Lia.
From PV Require Import Base.ListUtil Model.Store Proofs.StoreProofs Model.Alias Proofs.AliasSound.
From PV Require Import Proofs.AliasEnumA Proofs.AliasEnumB Proofs.AliasEnumC Proofs.AliasEnumD.
Import ListNotations.

(* ============================================================================================== *)
(** * 1. Soundness of the abstract effect semantics: Proofs/AliasSound.v *)

(** * 2. The entry points *)
(** the finite enumeration: 48 entry points x arities x path variants x 5^(number of arguments) layout vectors
    (Proofs/AliasEnumA..D.v, by vm_compute) *)
Lemma all_eps_split : all_eps = eps_A ++ eps_B ++ eps_C ++ eps_D.
Proof. reflexivity. Qed.

Lemma forallb_app_true A (p : A -> bool) l1 l2 : forallb p l1 = true -> forallb p l2 = true -> forallb p (l1 ++ l2) = true.
Proof. intros H1 H2. rewrite forallb_app, H1, H2. reflexivity. Qed.

Lemma check_all_true : forallb check_ep2 all_eps = true.
Proof.
  rewrite all_eps_split.
  apply forallb_app_true; [exact enum_A|]. apply forallb_app_true; [exact enum_B|].
  apply forallb_app_true; [exact enum_C | exact enum_D].
Qed.

Lemma forallb_In A (p : A -> bool) (l : list A) (x : A) : forallb p l = true -> In x l -> p x = true.
Proof. intros H Hin. rewrite forallb_forall in H. apply H. exact Hin. Qed.

Lemma clean_all e n v la :
  In n (arities e) -> v < n_variants e -> length la = n ->
  clean n (arun (prog e v n) (a_init la)) = true /\ store_stable (arun (prog e v n) (a_init la)) = true.
Proof.
  intros Hn Hv Hl.
  assert (H1 : check_ep2 e = true) by exact (forallb_In _ check_ep2 all_eps e check_all_true (all_eps_complete e)).
  assert (Hvs : In v (seq 0 (n_variants e))) by (apply in_seq; lia).
  assert (Hls : In la (layout_vectors n)) by (subst n; apply layout_vectors_complete).
  unfold check_ep2 in H1.
  pose proof (forallb_In _ _ _ n H1 Hn) as H2. cbv beta in H2.
  pose proof (forallb_In _ _ _ v H2 Hvs) as H3. cbv beta in H3.
  pose proof (forallb_In _ _ _ la H3 Hls) as H4. cbv beta zeta in H4.
  apply andb_true_iff in H4. exact H4.
Qed.

Lemma clean_parts n a : clean n a = true ->
  a_halt a = false /\
  (forall b, In b (a_mut a) -> is_caller_buf n b = false) /\
  (forall b, In b (bufs (a_self a)) -> is_caller_buf n b = false) /\
  (forall v, In v (a_ret a) -> vw v && (is_store_buf (vbuf v) || is_caller_buf n (vbuf v)) = false).
Proof.
  unfold clean. intros H.
  apply andb_true_iff in H. destruct H as [H H4].
  apply andb_true_iff in H. destruct H as [H H3].
  apply andb_true_iff in H. destruct H as [H1 H2].
  rewrite forallb_forall in H2, H3, H4.
  split; [apply negb_true_iff; exact H1|].
  split; [intros b Hb; apply negb_true_iff; auto|].
  split; [intros b Hb; apply negb_true_iff; auto|].
  intros v Hv; apply negb_true_iff; auto.
Qed.

Lemma is_caller_buf_caller n i : i < n -> is_caller_buf n (caller_buf i) = true.
Proof.
  intros H. unfold is_caller_buf, caller_buf. apply andb_true_iff. split.
  - apply Nat.leb_le. lia.
  - apply Nat.ltb_lt. lia.
Qed.

(** a write to a buffer that no field of self lives in is not observable through self *)
Lemma observe_upd_other self h b z : ~ In b (bufs self) -> observe self (upd h b z) = observe self h.
Proof.
  intros Hn. unfold observe. apply map_ext_in. intros [x v] Hin. simpl. f_equal.
  unfold content. apply nth_upd_other. intros E. apply Hn. unfold bufs.
  apply in_map_iff. exists (x, v). split; [simpl; auto | exact Hin].
Qed.

Lemma write_through_other v z h b : (vw v = false \/ vbuf v <> b) -> nth b (write_through v z h) 0%Z = nth b h 0%Z.
Proof.
  unfold write_through. intros [Hw | Hb].
  - rewrite Hw. reflexivity.
  - destruct (vw v); [|reflexivity]. apply nth_upd_other. exact Hb.
Qed.

Section EntryPoints.
Variable f : nat -> list Z -> Z.          (* the meaning of the content operations: arbitrary *)
Variable e : ep.
Variables (n v : nat) (la : list layout) (h : list Z).
Hypothesis Hn : In n (arities e).
Hypothesis Hv : v < n_variants e.
Hypothesis Hla : length la = n.
Hypothesis Hh : length h = n_internal + n.   (* the heap holds the object's buffers and one buffer per argument; contents arbitrary *)

Let s' := crun f (prog e v n) (c_init la h).
Let a := arun (prog e v n) (a_init la).

Lemma ep_sim :
  erase (a_mut a) s' = a /\
  (forall b, b < length h -> ~ In b (a_mut a) -> nth b (c_heap s') 0%Z = nth b h 0%Z).
Proof.
  pose proof (alias_sound f (prog e v n) (c_init la h) []) as H. cbv zeta in H.
  rewrite init_erase in H by (rewrite Hla; exact Hh).
  destruct H as (E & _ & _ & Hp). split; [exact E | exact Hp].
Qed.

(** the call runs to completion and the caller's buffers are bitwise what they were *)
Lemma ep_not_mutated :
  c_halt s' = false /\ forall i, i < n -> nth (caller_buf i) (c_heap s') 0%Z = nth (caller_buf i) h 0%Z.
Proof.
  destruct ep_sim as (E & Hp).
  destruct (clean_all e n v la Hn Hv Hla) as (Hc & _). fold a in Hc.
  destruct (clean_parts n a Hc) as (H1 & H2 & _).
  split.
  - rewrite <- E in H1. exact H1.
  - intros i Hi. apply Hp.
    + unfold caller_buf. lia.
    + intros Hin. apply H2 in Hin. rewrite is_caller_buf_caller in Hin by exact Hi. discriminate.
Qed.

(** nothing reachable from self lives in a caller buffer: whatever the caller writes into its arrays later (on any
    later heap h'), everything observable through self is unchanged *)
Lemma ep_not_retained :
  forall i, i < n ->
    ~ In (caller_buf i) (bufs (c_self s')) /\
    forall h' z, observe (c_self s') (upd h' (caller_buf i) z) = observe (c_self s') h'.
Proof.
  destruct ep_sim as (E & _).
  destruct (clean_all e n v la Hn Hv Hla) as (Hc & _). fold a in Hc.
  destruct (clean_parts n a Hc) as (_ & _ & H3 & _).
  intros i Hi.
  assert (Hni : ~ In (caller_buf i) (bufs (c_self s'))).
  { rewrite <- E in H3. simpl in H3. intros Hin. apply H3 in Hin.
    rewrite is_caller_buf_caller in Hin by exact Hi. discriminate. }
  split; [exact Hni|]. intros h' z. apply observe_upd_other. exact Hni.
Qed.

(** everything handed out is a copy or read-only: a write through any returned value (on any later heap h') changes
    no store buffer and no caller buffer, and the store's fields still are those buffers, so what the store shows
    (its fields 0..6) is unchanged *)
Lemma ep_outputs_copies :
  forall r, In r (c_ret s') ->
    (forall h' z b, is_store_buf b || is_caller_buf n b = true -> nth b (write_through r z h') 0%Z = nth b h' 0%Z) /\
    (forall h' z fl, fl < n_store ->
        exists x, lookup (c_self s') fl = Some x /\ content (write_through r z h') x = content h' x).
Proof.
  destruct ep_sim as (E & _).
  destruct (clean_all e n v la Hn Hv Hla) as (Hc & Hst). fold a in Hc, Hst.
  destruct (clean_parts n a Hc) as (_ & _ & _ & H4).
  intros r Hr.
  assert (Hr' : In r (a_ret a)) by (rewrite <- E; exact Hr).
  specialize (H4 r Hr').
  assert (Hall : forall h' z b, is_store_buf b || is_caller_buf n b = true -> nth b (write_through r z h') 0%Z = nth b h' 0%Z).
  { intros h' z b Hb. apply write_through_other.
    destruct (vw r); [right|left; reflexivity].
    intros Eb. subst b. simpl in H4. rewrite Hb in H4. discriminate. }
  split; [exact Hall|].
  intros h' z fl Hfl.
  unfold store_stable in Hst. rewrite forallb_forall in Hst.
  specialize (Hst fl). rewrite in_seq in Hst. specialize (Hst ltac:(lia)).
  assert (Hs : c_self s' = a_self a) by (rewrite <- E; reflexivity).
  rewrite Hs. destruct (lookup (a_self a) fl) as [x|]; [|discriminate].
  exists x. split; [reflexivity|]. unfold content. apply Nat.eqb_eq in Hst. rewrite Hst.
  apply Hall. unfold is_store_buf. apply orb_true_iff. left. apply Nat.ltb_lt. exact Hfl.
Qed.
End EntryPoints.

(** the unchanged code at the marked places IS caught by the same abstract interpretation (these are the findings
    F3 / F4 / F5 / F15 / F16 the harness reports on the real code) *)
Definition asis_effects (e : ep) (v n : nat) (la : list layout) : astate := arun (prog_asis e v n) (a_init la).

(* ============================================================================================== *)
(** * 3. Read paths present the same elites in the same order *)
Section ReadPathProofs.
Variable R : Type.
Variable V : Type.
Variable dflt : V.
Variable fields : list nat.
Variable dim : nat -> nat.
Variable proj : nat -> R -> list V.
Variable rdflt : R.

Notation column := (column proj rdflt).
Notation elites_spec := (elites_spec fields proj rdflt).
Notation elite_of := (elite_of fields proj rdflt).

Lemma map_nth_seq A (l : list A) d : map (fun j => nth j l d) (seq 0 (length l)) = l.
Proof.
  induction l as [|x l IH]; simpl; [reflexivity|].
  f_equal. rewrite <- seq_shift, map_map. exact IH.
Qed.

Lemma map_seq_nth A B (g : A -> B) (l : list A) d : map (fun k => g (nth k l d)) (seq 0 (length l)) = map g l.
Proof.
  rewrite <- (map_map (fun k => nth k l d) g). rewrite map_nth_seq. reflexivity.
Qed.

Lemma column_length s fl : length (column s fl) = length (olist s).
Proof. unfold Alias.column. apply map_length. Qed.

Lemma column_nth s fl k : k < length (olist s) -> nth k (column s fl) [] = proj fl (row_at rdflt s (nth k (olist s) 0)).
Proof.
  intros Hk. unfold Alias.column.
  rewrite (nth_indep _ [] (proj fl (row_at rdflt s 0))) by (rewrite map_length; exact Hk).
  apply (map_nth (fun i => proj fl (row_at rdflt s i))).
Qed.

Lemma transpose_columns s :
  transpose_rows (olist s) (map (fun fl => (fl, column s fl)) fields) = elites_spec s.
Proof.
  unfold transpose_rows, Alias.elites_spec.
  rewrite <- (map_seq_nth _ _ (elite_of s) (olist s) 0).
  apply map_ext_in. intros k Hk. apply in_seq in Hk. unfold Alias.elite_of. f_equal.
  rewrite map_map. apply map_ext. intros fl. simpl. f_equal. apply column_nth. lia.
Qed.

Lemma combine_map_self A B (g : A -> B) (l : list A) : combine l (map g l) = map (fun x => (x, g x)) l.
Proof. induction l; simpl; congruence. Qed.

Theorem read_dict_agrees s : elites_of_dict (read_dict fields proj rdflt s) = elites_spec s.
Proof. unfold elites_of_dict, read_dict; simpl. apply transpose_columns. Qed.

Theorem read_tuple_agrees s : elites_of_tuple fields (read_tuple fields proj rdflt s) = elites_spec s.
Proof. unfold elites_of_tuple, read_tuple; simpl. rewrite combine_map_self. apply transpose_columns. Qed.

Theorem read_single_agrees s :
  transpose_rows (olist s) (map (fun fl => (fl, read_single proj rdflt s fl)) fields) = elites_spec s.
Proof. unfold read_single. apply transpose_columns. Qed.

(** iteration *)
Lemma iter_collect_from s k fuel :
  k + fuel = S (len s) ->
  iter_collect fields proj rdflt s (mkIter k (nadd s) (nclear s)) fuel = map (elite_of s) (skipn k (olist s)).
Proof.
  revert k. induction fuel as [|fuel IH]; intros k Hk.
  - simpl. rewrite skipn_all2 by (unfold len in Hk; lia). reflexivity.
  - simpl. unfold iter_next. simpl. rewrite !Nat.eqb_refl. simpl.
    destruct (Nat.leb_spec (len s) k) as [Hle|Hlt].
    + rewrite skipn_all2 by (unfold len in Hle; lia). reflexivity.
    + unfold len in *.
      rewrite IH by lia.
      assert (Hs : skipn k (olist s) = nth k (olist s) 0 :: skipn (S k) (olist s)).
      { clear IH Hk. revert k Hlt. generalize (olist s) as l.
        induction l as [|x l IHl]; intros k Hlt; simpl in Hlt; [lia|].
        destruct k; [reflexivity|]. simpl. apply IHl. lia. }
      rewrite Hs. simpl. f_equal.
Qed.

Theorem read_iter_agrees s : read_iter fields proj rdflt s = elites_spec s.
Proof.
  unfold read_iter, iter_new. rewrite iter_collect_from by lia. reflexivity.
Qed.

(** pandas: needs what the declared shapes say (every value of field fl has dim fl entries) and distinct field names *)
Hypothesis fields_nodup : NoDup fields.
Hypothesis proj_dim : forall fl r, length (proj fl r) = dim fl.

Notation pcols s := (pandas_columns dflt fields dim proj rdflt s).
Notation pdf s := (read_pandas dflt fields dim proj rdflt s).

Definition field_cols s fl : list ((nat * nat) * list V) :=
  map (fun j => ((fl, j), map (fun v => nth j v dflt) (column s fl))) (seq 0 (dim fl)).

Lemma filter_field_cols_same s fl : filter (fun c => Nat.eqb (fst (fst c)) fl) (field_cols s fl) = field_cols s fl.
Proof.
  unfold field_cols. induction (seq 0 (dim fl)) as [|j l IH]; simpl; [reflexivity|].
  rewrite Nat.eqb_refl. f_equal. exact IH.
Qed.

Lemma filter_field_cols_other s fl fl' : fl' <> fl -> filter (fun c => Nat.eqb (fst (fst c)) fl) (field_cols s fl') = [].
Proof.
  intros Hne. unfold field_cols. induction (seq 0 (dim fl')) as [|j l IH]; simpl; [reflexivity|].
  destruct (Nat.eqb_spec fl' fl); [contradiction|]. exact IH.
Qed.

Lemma filter_cols_notin s fl (fs : list nat) :
  ~ In fl fs -> filter (fun c => Nat.eqb (fst (fst c)) fl) (flat_map (field_cols s) fs) = [].
Proof.
  induction fs as [|x fs IH]; simpl; intros Hn; [reflexivity|].
  rewrite filter_app, filter_field_cols_other by (intros E; apply Hn; left; exact E).
  simpl. apply IH. intros Hin. apply Hn. right. exact Hin.
Qed.

Lemma filter_cols_in s fl (fs : list nat) :
  NoDup fs -> In fl fs -> filter (fun c => Nat.eqb (fst (fst c)) fl) (flat_map (field_cols s) fs) = field_cols s fl.
Proof.
  induction fs as [|x fs IH]; simpl; intros Hnd Hin; [contradiction|].
  inversion Hnd as [|? ? Hx Hnd']; subst.
  rewrite filter_app. destruct Hin as [E | Hin].
  - subst x. rewrite filter_field_cols_same, filter_cols_notin by exact Hx. apply app_nil_r.
  - rewrite filter_field_cols_other by (intros E; subst x; contradiction). simpl. apply IH; assumption.
Qed.

Lemma nth_nil_dflt j : nth j (@nil V) dflt = dflt.
Proof. destruct j; reflexivity. Qed.

(** ArchiveDataFrame.get_field gives back exactly the column data() gives *)
Theorem get_field_agrees s fl : In fl fields -> df_get_field dflt (pdf s) fl = column s fl.
Proof.
  intros Hin. unfold df_get_field, read_pandas. simpl.
  change (pcols s) with (flat_map (field_cols s) fields).
  rewrite filter_cols_in by assumption.
  transitivity (map (fun k => nth k (column s fl) []) (seq 0 (length (olist s)))).
  2: { rewrite <- (column_length s fl). apply map_nth_seq. }
  apply map_ext_in. intros k Hk. apply in_seq in Hk.
  unfold field_cols. rewrite map_map. cbv beta. simpl snd.
  assert (Hlen : length (nth k (column s fl) []) = dim fl).
  { rewrite column_nth by lia. apply proj_dim. }
  transitivity (map (fun j => nth j (nth k (column s fl) []) dflt) (seq 0 (dim fl))).
  2: { rewrite <- Hlen. apply map_nth_seq. }
  apply map_ext. intros j.
  pose proof (map_nth (fun v => nth j v dflt) (column s fl) [] k) as Hm. cbv beta in Hm.
  rewrite (nth_nil_dflt j) in Hm. exact Hm.
Qed.

Theorem pandas_index_agrees s : snd (pdf s) = olist s.
Proof. reflexivity. Qed.

(** the scalar column name_j of the frame is component j of that field of every elite, in olist order *)
Theorem pandas_column_agrees s fl j : In fl fields -> j < dim fl ->
  In ((fl, j), map (fun i => nth j (proj fl (row_at rdflt s i)) dflt) (olist s)) (fst (pdf s)).
Proof.
  intros Hin Hj. unfold read_pandas, pandas_columns. simpl.
  apply in_flat_map. exists fl. split; [exact Hin|].
  apply in_map_iff. exists j. split; [|apply in_seq; lia].
  f_equal. unfold Alias.column. rewrite map_map. reflexivity.
Qed.

Theorem iterelites_agrees s : df_iterelites dflt fields (pdf s) = elites_spec s.
Proof.
  unfold df_iterelites. rewrite pandas_index_agrees.
  rewrite <- transpose_columns. f_equal.
  apply map_ext_in. intros fl Hin. f_equal. apply get_field_agrees. exact Hin.
Qed.

(** get_field for every field, transposed, is the same list of elites *)
Theorem get_field_rows_agree s :
  transpose_rows (snd (pdf s)) (map (fun fl => (fl, df_get_field dflt (pdf s) fl)) fields) = elites_spec s.
Proof. exact (iterelites_agrees s). Qed.

(** all read paths at once *)
Theorem read_paths_agree (s : store R) :
  let spec := elites_spec s in
  let df := pdf s in
  elites_of_dict (read_dict fields proj rdflt s) = spec /\
  elites_of_tuple fields (read_tuple fields proj rdflt s) = spec /\
  transpose_rows (olist s) (map (fun fl => (fl, read_single proj rdflt s fl)) fields) = spec /\
  read_iter fields proj rdflt s = spec /\
  snd df = olist s /\
  (forall fl, In fl fields -> df_get_field dflt df fl = column s fl) /\
  transpose_rows (snd df) (map (fun fl => (fl, df_get_field dflt df fl)) fields) = spec /\
  df_iterelites dflt fields df = spec.
Proof.
  cbv zeta.
  repeat split;
    eauto using read_dict_agrees, read_tuple_agrees, read_single_agrees, read_iter_agrees, get_field_agrees,
                get_field_rows_agree, iterelites_agrees.
Qed.

(** the elites ARE the store's contents: data() of Model/Store.v, field by field *)
Theorem elites_spec_is_data s :
  elites_spec s =
  map (fun p => (fst p, map (fun fl => (fl, proj fl (match snd p with Some r => r | None => rdflt end))) fields)) (data s).
Proof. unfold Alias.elites_spec, Alias.elite_of, data, row_at. rewrite map_map. reflexivity. Qed.

(** on every reachable store the rows shown are rows that were written (never the default) *)
Theorem elites_are_written_rows c ops i :
  let s := run (R := R) c ops in
  In i (olist s) -> exists r, get_row s i = Some r /\ elite_of s i = (i, map (fun fl => (fl, proj fl r)) fields).
Proof.
  intros s Hin. pose proof (run_inv (R := R) c ops) as HI. fold s in HI.
  pose proof (inv_written HI i (proj1 (inv_olist_occ HI i) Hin)) as Hw.
  destruct (get_row s i) as [r|] eqn:Hr; [|congruence].
  exists r. split; [reflexivity|]. unfold Alias.elite_of, row_at. rewrite Hr. reflexivity.
Qed.
End ReadPathProofs.
