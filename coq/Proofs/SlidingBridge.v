(** The index map used by the SlidingBoundariesArchive model of C15 (Model/Sliding.v) is the index map C03 verifies
    (Model/SlidingIndex.v): the per-dimension cell and the flattened index coincide, so the C03 theorems about
    sb_idx1 / sb_index_of_one (range, monotonicity, the cell delimited by the current boundaries) apply verbatim to
    every cell the C15 model computes. *)
From Coq Require Import List Arith ZArith QArith Qminmax Lia.
From PV Require Import Base.MixedRadix Model.Grid Model.SlidingIndex Model.Sliding.
Import ListNotations.
Set Implicit Arguments.

Lemma ssearch_eq a x : ssearch a x = searchsorted_left a x.
Proof. induction a as [|y t IH]; simpl; [reflexivity|]. rewrite IH. reflexivity. Qed.

Lemma sidx1_eq eps d b lo hi m : sidx1 eps d b lo hi m = sb_idx1 d b lo hi eps m.
Proof. unfold sidx1, sb_idx1, sb_idx1_x, sclip, clipQ. rewrite ssearch_eq. reflexivity. Qed.

Fixpoint sdims (eps : Q) (dims : list nat) (bnd : list (list Q)) (lo hi : list Q) : list sdim :=
  match dims, bnd, lo, hi with
  | d :: dt, b :: bt, l :: lt, h :: ht => mkSdim d b l (h - eps)%Q :: sdims eps dt bt lt ht
  | _, _, _, _ => []
  end.

Lemma sgrid_eq eps dims : forall bnd lo hi m,
  sgrid eps dims bnd lo hi m = sb_cells (sdims eps dims bnd lo hi) (map (fun x => (x + eps)%Q) m).
Proof.
  induction dims as [|d dt IH]; intros bnd lo hi m; [reflexivity|].
  destruct bnd as [|b bt]; [reflexivity|]. destruct lo as [|l lt]; [reflexivity|].
  destruct hi as [|h ht]; [reflexivity|]. destruct m as [|x xt]; [reflexivity|].
  cbn [sgrid sdims map sb_cells sd sbnd slo shi_e]. rewrite IH. reflexivity.
Qed.

Lemma sb_dims_sdims eps dims : forall bnd lo hi,
  length bnd = length dims -> length lo = length dims -> length hi = length dims ->
  sb_dims (sdims eps dims bnd lo hi) = map Z.of_nat dims.
Proof.
  induction dims as [|d dt IH]; intros [|b bt] [|l lt] [|h ht] Hb Hl Hh; simpl in *; try discriminate; try reflexivity.
  unfold sb_dims in *. simpl. f_equal. apply IH; lia.
Qed.

Theorem sindex_eq eps dims (g : geom) m :
  length (g_bnd g) = length dims -> length (g_lo g) = length dims -> length (g_hi g) = length dims ->
  Z.of_nat (sindex eps dims g m) =
  sb_index_of_one (sdims eps dims (g_bnd g) (g_lo g) (g_hi g)) (map (fun x => (x + eps)%Q) m).
Proof.
  intros Hb Hl Hh. unfold sindex, sb_index_of_one.
  rewrite sb_dims_sdims by assumption. rewrite <- sgrid_eq. symmetry. apply ravelZ_of_nat.
Qed.
