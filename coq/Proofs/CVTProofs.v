(** Lemmas about Model/CVT.v. *)
From Coq Require Import List Arith QArith Bool Lia Lqa.
From PV Require Import Model.CVT.
Import ListNotations.

(** * argmin *)
Lemma argmin_pair_spec (l : list Q) : forall r v, argmin_pair l = Some (r, v) ->
  (r < length l)%nat /\ nth r l 0 = v /\
  (forall j, (j < length l)%nat -> v <= nth j l 0) /\
  (forall j, (j < r)%nat -> v < nth j l 0).
Proof.
  induction l as [|x t IH]; intros r v H; simpl in H; [discriminate|].
  destruct (argmin_pair t) as [[r' v']|] eqn:E.
  - specialize (IH r' v' eq_refl). destruct IH as [I1 [I2 [I3 I4]]].
    destruct (Qle_bool x v') eqn:C; injection H as Hr Hv; subst r v; simpl.
    + apply Qle_bool_iff in C.
      split; [lia|]. split; [reflexivity|]. split; [|intros j Hj; lia].
      intros [|j] Hj; [lra|]. specialize (I3 j ltac:(lia)). lra.
    + assert (C' : v' < x).
      { apply Qnot_le_lt. intros A. apply Qle_bool_iff in A. congruence. }
      split; [lia|]. split; [exact I2|]. split.
      * intros [|j] Hj; [lra|]. apply I3. lia.
      * intros [|j] Hj; [exact C'|]. apply I4. lia.
  - destruct t as [|y t']; [|simpl in E; destruct (argmin_pair t') as [[? ?]|]; [destruct (Qle_bool y q)|]; discriminate].
    injection H as Hr Hv; subst r v; simpl.
    split; [lia|]. split; [reflexivity|]. split; [|intros j Hj; lia].
    intros [|j] Hj; [lra|lia].
Qed.

Lemma argmin_pair_some (l : list Q) : l <> [] -> exists r v, argmin_pair l = Some (r, v).
Proof.
  destruct l as [|x t]; [congruence|]. intros _. simpl.
  destruct (argmin_pair t) as [[r v]|]; [destruct (Qle_bool x v)|]; eauto.
Qed.

Lemma argmin_first_spec (l : list Q) : l <> [] ->
  (argmin_first l < length l)%nat /\
  (forall j, (j < length l)%nat -> nth (argmin_first l) l 0 <= nth j l 0) /\
  (forall j, (j < argmin_first l)%nat -> nth (argmin_first l) l 0 < nth j l 0).
Proof.
  intros H. destruct (argmin_pair_some l H) as [r [v E]]. unfold argmin_first. rewrite E.
  destruct (argmin_pair_spec l r v E) as [I1 [I2 [I3 I4]]]. rewrite I2. auto.
Qed.

(** * CVT *)
Lemma nth_map_dist2 (cs : list (list Q)) (m : list Q) (j : nat) : (j < length cs)%nat ->
  nth j (map (dist2 m) cs) 0 = dist2 m (nth j cs []).
Proof.
  intros Hj. rewrite (nth_indep _ 0 (dist2 m [])) by (rewrite map_length; exact Hj). apply map_nth.
Qed.

Lemma cvt_index_one_nearest (cs : list (list Q)) (m : list Q) : cs <> [] -> is_nearest cs m (cvt_index_one cs m).
Proof.
  intros H. unfold is_nearest, cvt_index_one.
  assert (Hm : map (dist2 m) cs <> []) by (destruct cs; [congruence|discriminate]).
  destruct (argmin_first_spec _ Hm) as [I1 [I2 _]]. rewrite map_length in *.
  split; [exact I1|]. intros j Hj.
  rewrite <- !nth_map_dist2 by assumption. apply I2. exact Hj.
Qed.

(** first-wins (what np.argmin does; the property itself allows any nearest centroid) *)
Lemma cvt_index_one_first (cs : list (list Q)) (m : list Q) (j : nat) : cs <> [] -> (j < cvt_index_one cs m)%nat ->
  dist2 m (nth (cvt_index_one cs m) cs []) < dist2 m (nth j cs []).
Proof.
  intros H Hj. unfold cvt_index_one in *.
  assert (Hm : map (dist2 m) cs <> []) by (destruct cs; [congruence|discriminate]).
  destruct (argmin_first_spec _ Hm) as [I1 [_ I3]]. rewrite map_length in *.
  rewrite <- !nth_map_dist2 by lia. apply I3. exact Hj.
Qed.

Lemma cvt_index_of_all_nearest (cs : list (list Q)) (ms : list (list Q)) (k : nat) : cs <> [] -> (k < length ms)%nat ->
  is_nearest cs (nth k ms []) (nth k (cvt_index_of cs ms) O).
Proof.
  intros H Hk. unfold cvt_index_of.
  rewrite (nth_indep _ O (cvt_index_one cs [])) by (rewrite map_length; exact Hk).
  rewrite map_nth. apply cvt_index_one_nearest. exact H.
Qed.

(** any two correct answers are equidistant: ties are the only freedom *)
Lemma nearest_equidistant (cs : list (list Q)) (m : list Q) (i j : nat) :
  is_nearest cs m i -> is_nearest cs m j -> dist2 m (nth i cs []) == dist2 m (nth j cs []).
Proof.
  intros [Hi Mi] [Hj Mj]. apply Qle_antisym; [apply Mi|apply Mj]; assumption.
Qed.

(** * chunking *)
Lemma cvt_index_of_concat (cs : list (list Q)) (chunks : list (list (list Q))) :
  concat (map (cvt_index_of cs) chunks) = cvt_index_of cs (concat chunks).
Proof. unfold cvt_index_of. symmetry. apply concat_map. Qed.

Fixpoint sum_list (l : list nat) : nat := match l with [] => O | x :: t => (x + sum_list t)%nat end.

Lemma split_sizes_concat {A} (sizes : list nat) : forall (l : list A), sum_list sizes = length l ->
  concat (split_sizes l sizes) = l.
Proof.
  induction sizes as [|s t IH]; intros l H; simpl in *.
  - destruct l; [reflexivity|discriminate].
  - rewrite IH; [apply firstn_skipn|]. rewrite skipn_length. lia.
Qed.

Lemma sum_list_app (a b : list nat) : sum_list (a ++ b) = (sum_list a + sum_list b)%nat.
Proof. induction a as [|x t IH]; simpl; [reflexivity|]. rewrite IH. lia. Qed.

Lemma sum_list_repeat (x n : nat) : sum_list (repeat x n) = (n * x)%nat.
Proof. induction n as [|n IH]; simpl; [reflexivity|]. rewrite IH. lia. Qed.

Lemma array_split_concat {A} (l : list A) (n : nat) : (0 < n)%nat -> concat (array_split l n) = l.
Proof.
  intros Hn. unfold array_split. apply split_sizes_concat.
  rewrite sum_list_app, !sum_list_repeat.
  pose proof (Nat.div_mod (length l) n ltac:(lia)) as E.
  pose proof (Nat.mod_upper_bound (length l) n ltac:(lia)) as B.
  set (q := (length l / n)%nat) in *. set (r := (length l mod n)%nat) in *. nia.
Qed.

Lemma ceil_div_pos (a b : nat) : (0 < b)%nat -> (b < a)%nat -> (0 < ceil_div a b)%nat.
Proof.
  intros Hb Hab. unfold ceil_div. apply Nat.div_str_pos. lia.
Qed.

(** chunked search returns exactly what unchunked search returns, for every chunk size *)
Lemma cvt_chunked_eq (cs : list (list Q)) (chunk : option nat) (ms : list (list Q)) :
  (forall k, chunk = Some k -> (0 < k)%nat) ->
  cvt_index_of_chunked cs chunk ms = cvt_index_of cs ms.
Proof.
  intros Hk. unfold cvt_index_of_chunked. destruct chunk as [k|]; [|reflexivity].
  destruct (k <? length ms)%nat eqn:E; [|reflexivity].
  apply Nat.ltb_lt in E. rewrite cvt_index_of_concat. f_equal.
  apply array_split_concat. apply ceil_div_pos; [apply Hk; reflexivity|exact E].
Qed.
