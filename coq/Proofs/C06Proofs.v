(** C06: the incrementally maintained statistics and best_elite agree with the contents. *)
From Coq Require Import List Arith Bool ZArith QArith Qreduction Lia Lqa Sorted.
From PV Require Import Base.ListUtil Base.QUtil Base.FirstArgmax Model.Store Proofs.StoreProofs
     Model.Archive Proofs.ArchiveProofs Proofs.C01Proofs Proofs.C02Proofs.
Import ListNotations.
Set Implicit Arguments.
Local Open Scope nat_scope.
Local Arguments Qred : simpl never.
Local Arguments Qplus : simpl never.
Local Arguments Qmult : simpl never.
Local Arguments Qminus : simpl never.
Local Arguments Qopp : simpl never.
Local Arguments Qdiv : simpl never.
Local Arguments Qltb : simpl never.
Local Arguments Qle_bool : simpl never.

Section C06.
Variable P : Type.
Notation cand := (cand P).
Notation row := (row P).
Notation archive := (archive P).
Notation aop := (aop P).

(** objective of the elite in cell [i], 0 for an empty cell *)
Definition cobj (a : archive) (i : nat) : Q := match content a i with Some r => r_obj r | None => 0%Q end.

(** sum of the objectives of the current elites, recomputed from scratch *)
Definition total (c : cfg) (a : archive) : Q := Qsum (map (cobj a) (seq 0 (cells c))).

(** * sums under pointwise update at distinct keys *)
Lemma Qsum_app l1 l2 : (Qsum (l1 ++ l2) == Qsum l1 + Qsum l2)%Q.
Proof. induction l1 as [|x t IH]; simpl; [ring|rewrite IH; ring]. Qed.

Lemma Qsum_ext_in A (f g : A -> Q) l : (forall x, In x l -> (f x == g x)%Q) -> (Qsum (map f l) == Qsum (map g l))%Q.
Proof.
  induction l as [|x t IH]; intros H; simpl; [reflexivity|].
  rewrite (H x) by (simpl; auto). rewrite IH; [reflexivity|]. intros; apply H; simpl; auto.
Qed.

(** updating a function at the keys [keys] (duplicate-free, all inside the duplicate-free [l]) *)
Lemma sum_update (f g : nat -> Q) (l : list nat) : forall (keys : list nat),
  NoDup l -> NoDup keys -> (forall k, In k keys -> In k l) ->
  (forall i, In i l -> ~ In i keys -> (g i == f i)%Q) ->
  (Qsum (map g l) == Qsum (map f l) + Qsum (map (fun k => g k - f k) keys))%Q.
Proof.
  induction l as [|x t IH]; intros keys Hl Hk Hsub Hout.
  - destruct keys as [|k ks]; [simpl; ring|]. exfalso. apply (Hsub k); simpl; auto.
  - inversion Hl as [|? ? Hx Hl']; subst.
    destruct (in_dec Nat.eq_dec x keys) as [Hin|Hnin].
    + apply in_split in Hin. destruct Hin as (k1 & k2 & ->).
      assert (Hk' : NoDup (k1 ++ k2)) by (eapply NoDup_remove_1; eauto).
      assert (Hxn : ~ In x (k1 ++ k2)) by (eapply NoDup_remove_2; eauto).
      cbn [map Qsum]. rewrite (IH (k1 ++ k2) Hl' Hk').
      * rewrite !map_app, !Qsum_app. cbn [map Qsum]. ring.
      * intros k Hkin.
        assert (Hk2 : In k (k1 ++ x :: k2)) by (apply in_app_iff in Hkin; apply in_app_iff; simpl; tauto).
        destruct (Hsub k Hk2) as [<-|Ht]; [contradiction|auto].
      * intros i Hit Hi. apply Hout; [simpl; auto|].
        intros Hc. apply in_app_iff in Hc. simpl in Hc.
        destruct Hc as [Hc|[->|Hc]]; [apply Hi, in_app_iff; auto|contradiction|apply Hi, in_app_iff; auto].
    + cbn [map Qsum]. rewrite (Hout x) by (simpl; auto).
      rewrite (IH keys Hl' Hk); [ring| |].
      * intros k Hkin. destruct (Hsub k Hkin) as [<-|Ht]; [contradiction|auto].
      * intros i Hit Hi. apply Hout; simpl; auto.
Qed.


(** * collect: membership *)
Lemma collect_in (f : nat -> option row) l i r :
  In (i, r) (collect f l) <-> In i l /\ f i = Some r.
Proof.
  unfold collect. induction l as [|j t IH]; simpl; [intuition|].
  rewrite in_app_iff, IH. destruct (f j) eqn:E; simpl.
  - split.
    + intros [[H|[]]|[H1 H2]]; [inversion H; subst; auto|auto].
    + intros [[->|H1] H2]; [left; left; congruence|right; auto].
  - split.
    + intros [[]|[H1 H2]]; auto.
    + intros [[->|H1] H2]; [congruence|right; auto].
Qed.

Lemma collect_keys_NoDup (f : nat -> option row) l : NoDup l -> NoDup (map fst (collect f l)).
Proof.
  unfold collect. induction l as [|j t IH]; intros H; simpl; [constructor|].
  inversion H as [|? ? Hj Ht]; subst. rewrite map_app.
  destruct (f j); simpl; [|apply IH; auto].
  constructor; [|apply IH; auto].
  intros Hin. apply (collect_keys_in f t j) in Hin. tauto.
Qed.

(** * a "good write": what ArchiveBase.add / add_single hand to the store *)
Record good_write (c : cfg) (f : nat -> option row) (l : list nat) : Prop := {
  gw_nodup : NoDup l;
  gw_range : forall j, In j l -> j < cells c;
  gw_some : forall j, f j <> None -> In j l
}.

Lemma cobj_old (c : cfg) (a : archive) i : AInv c a -> old_obj (bump_add (a_store a)) i = cobj a i.
Proof.
  intros HA. unfold old_obj, cobj.
  destruct (content_cases i HA) as [[Hn Ho]|(r & Hs & Ho & Hr)].
  - rewrite Hn. change (get_occ (bump_add (a_store a)) i) with (get_occ (a_store a) i). rewrite Ho. reflexivity.
  - rewrite Hs. change (get_occ (bump_add (a_store a)) i) with (get_occ (a_store a) i).
    change (get_row (bump_add (a_store a)) i) with (get_row (a_store a) i). rewrite Ho, Hr. reflexivity.
Qed.

(** the incremental sum equals the recomputed sum *)
Lemma commit_total (c : cfg) (a : archive) f l :
  AInv c a -> good_write c f l ->
  let a' := commit c a (bump_add (a_store a)) (collect f l) in
  (total c a' == total c a + sum_delta (bump_add (a_store a)) (collect f l))%Q.
Proof.
  intros HA [Hnd Hr Hs] a'. unfold total.
  assert (Hc : forall i, content a' i = match f i with Some r => Some r | None => content a i end)
    by (intros i; apply commit_content; auto).
  rewrite (@sum_update (cobj a) (cobj a') (seq 0 (cells c)) (map fst (collect f l))).
  - apply Qplus_comp; [reflexivity|]. unfold sum_delta. rewrite map_map.
    apply Qsum_ext_in. intros [k r] Hin. simpl.
    apply collect_in in Hin. destruct Hin as [_ Hf].
    unfold cobj at 1. rewrite Hc, Hf. rewrite (cobj_old k HA). reflexivity.
  - apply seq_NoDup.
  - apply collect_keys_NoDup; auto.
  - intros k Hk. apply collect_keys_in in Hk. destruct Hk as [Hk _]. apply in_seq. specialize (Hr k Hk). lia.
  - intros i _ Hi. unfold cobj. rewrite Hc.
    destruct (f i) eqn:E; [|reflexivity].
    exfalso. apply Hi. apply collect_keys_in. split; [apply Hs; congruence|congruence].
Qed.

(** * the statistics invariant *)
Record StatsOK (c : cfg) (a : archive) : Prop := {
  so_sum : (a_sum a == total c a)%Q;
  so_num : st_num (a_stats a) = len (a_store a);
  so_cov : (st_cov (a_stats a) == qnat (len (a_store a)) / qnat (cells c))%Q;
  so_qd : (st_qd (a_stats a) == a_sum a - qnat (len (a_store a)) * offset c)%Q;
  so_norm : (st_norm (a_stats a) == st_qd (a_stats a) / qnat (cells c))%Q;
  so_mean : match st_mean (a_stats a) with
            | None => len (a_store a) = 0
            | Some m => len (a_store a) <> 0 /\ (m == a_sum a / qnat (len (a_store a)))%Q
            end
}.

Lemma total_empty (c : cfg) (a : archive) : (forall i, content a i = None) -> (total c a == 0)%Q.
Proof.
  intros H. unfold total. induction (seq 0 (cells c)) as [|x t IH]; simpl; [reflexivity|].
  unfold cobj at 1. rewrite H, IH. ring.
Qed.

Lemma stats_empty (c : cfg) (s : Store.store row) :
  len s = 0 -> (forall i, content (mkArch s 0 stats0 None) i = None) -> StatsOK c (mkArch s 0 stats0 None).
Proof.
  intros Hl Hc. constructor; simpl; rewrite ?Hl; auto.
  - rewrite total_empty; auto. reflexivity.
  - change (qnat 0) with 0%Q. unfold Qdiv. ring.
  - change (qnat 0) with 0%Q. ring.
  - unfold Qdiv. ring.
Qed.

Lemma stats_update_fields (c : cfg) (a : archive) (s' : Store.store row) sum' bi :
  let a' := stats_update c a s' sum' bi in
  a_sum a' = sum' /\ st_num (a_stats a') = len s' /\
  st_cov (a_stats a') = (qnat (len s') / qnat (cells c))%Q /\
  st_qd (a_stats a') = (sum' - qnat (len s') * offset c)%Q /\
  st_norm (a_stats a') = ((sum' - qnat (len s') * offset c) / qnat (cells c))%Q /\
  st_mean (a_stats a') = Some (sum' / qnat (len s'))%Q.
Proof.
  unfold stats_update. destruct (get_row s' bi) as [r|]; [destruct (st_max (a_stats a)) as [m|]; [destruct (Qltb m (r_obj r))|]|];
    simpl; repeat split; reflexivity.
Qed.

Lemma best_index_none (w : list (nat * row)) : best_index w = None <-> w = [].
Proof.
  unfold best_index. destruct (first_argmax (fun p => r_obj (snd p)) w) eqn:E; simpl.
  - split; [discriminate|]. intros ->. discriminate.
  - split; auto. intros _. apply (fam_none_iff (fun p : nat * row => r_obj (snd p))); auto.
Qed.

Lemma commit_len_pos (c : cfg) (a : archive) f l :
  AInv c a -> good_write c f l -> collect f l <> [] ->
  len (a_store (commit c a (bump_add (a_store a)) (collect f l))) <> 0.
Proof.
  intros HA Hg Hne.
  destruct (collect f l) as [|[k r] t] eqn:E; [congruence|].
  assert (Hin : In (k, r) (collect f l)) by (rewrite E; simpl; auto).
  apply collect_in in Hin. destruct Hin as [Hk Hf].
  pose proof (commit_inv (collect f l) HA) as HA'. rewrite E in HA'.
  pose proof (@commit_content P c a f l k HA (gw_nodup Hg) (gw_range Hg) (gw_some Hg)) as Hc.
  rewrite E, Hf in Hc.
  intros Hz. unfold content in Hc.
  destruct (get_occ (a_store (commit c a (bump_add (a_store a)) ((k, r) :: t))) k) eqn:Eo; [|discriminate].
  apply (inv_olist_occ (ainv_store HA')) in Eo. unfold len in Hz.
  destruct (olist (a_store (commit c a (bump_add (a_store a)) ((k, r) :: t)))); [destruct Eo|discriminate].
Qed.

Lemma commit_stats (c : cfg) (a : archive) f l :
  AInv c a -> StatsOK c a -> good_write c f l ->
  StatsOK c (commit c a (bump_add (a_store a)) (collect f l)).
Proof.
  intros HA HS Hg.
  pose proof (commit_total HA Hg) as Htot. cbv zeta in Htot.
  pose proof (commit_len_pos HA Hg) as Hpos.
  unfold commit in *.
  destruct (best_index (collect f l)) as [bi|] eqn:Eb.
  - set (s' := fst (add_raw (bump_add (a_store a)) (map fst (collect f l)) (map snd (collect f l)) true)) in *.
    destruct (stats_update_fields c a s' (a_sum a + sum_delta (bump_add (a_store a)) (collect f l))%Q bi)
      as (H1 & H2 & H3 & H4 & H5 & H6).
    assert (Hst : a_store (stats_update c a s' (a_sum a + sum_delta (bump_add (a_store a)) (collect f l))%Q bi) = s')
      by apply stats_update_store.
    assert (Hne : collect f l <> []) by (intros Hn; apply best_index_none in Hn; congruence).
    specialize (Hpos Hne). rewrite Hst in Hpos.
    constructor; rewrite ?Hst, ?H1, ?H2, ?H3, ?H4, ?H5, ?H6; try reflexivity.
    + rewrite Htot, (so_sum HS). reflexivity.
    + split; [exact Hpos|reflexivity].
  - apply best_index_none in Eb. rewrite Eb in *. simpl in *.
    destruct HS as [Hs1 Hs2 Hs3 Hs4 Hs5 Hs6]. 
    constructor; simpl; auto.
    all: try (rewrite Hs1, Htot; unfold sum_delta; simpl; ring).
Qed.


(** * the writes of each operation are good writes *)
Definition add_keys (c : cfg) (a : archive) (cs : list cand) : list nat :=
  sort_uniq (map c_cell (filter (can_insert c (bump_add (a_store a))) cs)).

Lemma add_good_write (c : cfg) (a : archive) cs :
  wf_cells c cs -> good_write c (cell_winner c a cs) (add_keys c a cs).
Proof.
  intros Hwf. constructor.
  - apply sort_uniq_NoDup.
  - intros j Hj. unfold add_keys in Hj. rewrite sort_uniq_In in Hj. apply in_map_iff in Hj.
    destruct Hj as (x & <- & Hx). apply filter_In in Hx. apply Hwf; tauto.
  - intros j Hj. eapply winner_row_some_in; eauto.
Qed.

Lemma add_is_commit (c : cfg) (a : archive) cs :
  fst (add c a cs) = commit c a (bump_add (a_store a)) (collect (cell_winner c a cs) (add_keys c a cs)).
Proof. reflexivity. Qed.

Lemma single_good_write (c : cfg) (a : archive) x :
  c_cell x < cells c -> good_write c (single_row c a x) [c_cell x].
Proof.
  intros Hwf. constructor.
  - constructor; [intros []|constructor].
  - intros j [<-|[]]; auto.
  - intros j Hj. unfold single_row in Hj.
    destruct (Nat.eqb_spec j (c_cell x)); [left; auto|simpl in Hj; congruence].
Qed.

Lemma add_single_is_commit (c : cfg) (a : archive) x :
  fst (add_single c a x) = commit c a (bump_add (a_store a)) (collect (single_row c a x) [c_cell x]).
Proof. unfold add_single; simpl. rewrite single_winners_collect. reflexivity. Qed.

Lemma astep_stats (c : cfg) (a : archive) o :
  AInv c a -> StatsOK c a -> wf_op c o -> StatsOK c (astep c a o).
Proof.
  intros HA HS Hwf. destruct o as [cs|x|]; unfold astep.
  - rewrite add_is_commit. apply commit_stats; auto. apply add_good_write; auto.
  - rewrite add_single_is_commit. apply commit_stats; auto. apply single_good_write; auto.
  - unfold clear. apply stats_empty; [reflexivity|].
    intros i. apply (clear_content c a i).
Qed.

Theorem stats_invariant (c : cfg) (h : list aop) : wf_hist c h -> StatsOK c (arun c h).
Proof.
  unfold arun.
  assert (H0 : StatsOK c (arch_init P c)).
  { apply stats_empty; [reflexivity|]. intros i. apply init_content. }
  generalize (init_ainv P c) H0. generalize (arch_init P c).
  induction h as [|o t IH]; intros a HA HS Hwf; simpl; auto.
  apply IH.
  - apply astep_ainv; auto.
  - apply astep_stats; auto. apply Hwf; simpl; auto.
  - intros o' Ho'. apply Hwf; simpl; auto.
Qed.

(** the sum over all cells is the sum over the current elites (occupied list) *)
Lemma total_over_elites (c : cfg) (a : archive) :
  AInv c a -> (total c a == Qsum (map (cobj a) (olist (a_store a))))%Q.
Proof.
  intros HA. unfold total.
  rewrite (@sum_update (fun _ => 0%Q) (cobj a) (seq 0 (cells c)) (olist (a_store a))).
  - assert (Hz : (Qsum (map (fun _ : nat => 0%Q) (seq 0 (cells c))) == 0)%Q).
    { induction (seq 0 (cells c)) as [|x t IH]; simpl; [reflexivity|rewrite IH; ring]. }
    rewrite Hz. rewrite Qplus_0_l. apply Qsum_ext_in. intros; ring.
  - apply seq_NoDup.
  - apply (inv_nodup (ainv_store HA)).
  - intros k Hk. apply in_seq. pose proof (olist_lt_cap _ (ainv_store HA) Hk) as Hlt.
    rewrite (ainv_cap HA) in Hlt. lia.
  - intros i _ Hi. unfold cobj, content.
    destruct (get_occ (a_store a) i) eqn:Eo; [|reflexivity].
    exfalso. apply Hi. apply (inv_olist_occ (ainv_store HA)); auto.
Qed.

(** qd_score = sum over current elites of (objective - offset) *)
Theorem qd_score_spec (c : cfg) (h : list aop) :
  wf_hist c h ->
  let a := arun c h in
  (st_qd (a_stats a) == Qsum (map (fun i => cobj a i - offset c) (olist (a_store a))))%Q.
Proof.
  intros Hwf a. pose proof (stats_invariant Hwf) as HS. pose proof (arun_ainv c h) as HA. fold a in HS, HA.
  rewrite (so_qd HS), (so_sum HS), (total_over_elites HA). unfold len.
  induction (olist (a_store a)) as [|x t IH]; simpl.
  - change (qnat 0) with 0%Q. ring.
  - rewrite <- IH. change (qnat (S (length t))) with (qnat (S (length t))). rewrite qnat_S. ring.
Qed.

(** * obj_max / best_elite: a ghost list of every row written since the last clear *)
Definition writes (c : cfg) (a : archive) (o : aop) : list (nat * row) :=
  match o with
  | Add cs => batch_winners c (bump_add (a_store a)) cs
  | AddSingle x => single_winners c (bump_add (a_store a)) x
  | Clear => []
  end.

Fixpoint ghost (c : cfg) (a : archive) (h : list aop) (acc : list (nat * row)) : list (nat * row) :=
  match h with
  | [] => acc
  | o :: t => ghost c (astep c a o) t (match o with Clear => [] | _ => acc ++ writes c a o end)
  end.

Definition inserted (c : cfg) (h : list aop) : list (nat * row) := ghost c (arch_init P c) h [].

Definition BestOK (a : archive) (ins : list (nat * row)) : Prop :=
  match st_max (a_stats a), a_best a with
  | None, None => ins = []
  | Some m, Some (bi, r) => m = r_obj r /\ In (bi, r) ins /\ forall p, In p ins -> (r_obj (snd p) <= m)%Q
  | _, _ => False
  end.

Lemma commit_row_written (c : cfg) (a : archive) f l k r :
  AInv c a -> good_write c f l -> In (k, r) (collect f l) ->
  get_row (fst (add_raw (bump_add (a_store a)) (map fst (collect f l)) (map snd (collect f l)) true)) k = Some r.
Proof.
  intros HA Hg Hin.
  pose proof (@commit_content P c a f l k HA (gw_nodup Hg) (gw_range Hg) (gw_some Hg)) as Hc.
  apply collect_in in Hin. destruct Hin as [_ Hf]. rewrite Hf in Hc.
  unfold content in Hc. rewrite commit_store in Hc.
  destruct (get_occ _ k); [exact Hc|discriminate].
Qed.

Lemma commit_best (c : cfg) (a : archive) f l ins :
  AInv c a -> good_write c f l -> BestOK a ins ->
  BestOK (commit c a (bump_add (a_store a)) (collect f l)) (ins ++ collect f l).
Proof.
  intros HA Hg HB. unfold commit.
  destruct (best_index (collect f l)) as [bi|] eqn:Eb.
  - unfold best_index in Eb.
    destruct (first_argmax (fun p : nat * row => r_obj (snd p)) (collect f l)) as [[bk rb]|] eqn:Ef; [|discriminate].
    simpl in Eb. inversion Eb; subst bk; clear Eb.
    pose proof (first_argmax_in _ _ Ef) as Hin.
    pose proof (first_argmax_ge _ _ Ef) as Hge. simpl in Hge.
    pose proof (@commit_row_written c a f l bi rb HA Hg Hin) as Hrow.
    unfold BestOK, stats_update. rewrite Hrow.
    unfold BestOK in HB.
    destruct (st_max (a_stats a)) as [m|] eqn:Em.
    + destruct (a_best a) as [[b0 r0]|] eqn:Eb0; [|contradiction].
      destruct HB as (Hm & Hin0 & Hmax).
      destruct (Qltb m (r_obj rb)) eqn:El; simpl.
      * apply Qltb_lt in El. repeat split; auto.
        -- apply in_or_app; auto.
        -- intros p Hp. apply in_app_iff in Hp. destruct Hp as [Hp|Hp]; [specialize (Hmax p Hp); lra|apply (Hge p Hp)].
      * apply Qltb_ge in El. repeat split; auto.
        -- apply in_or_app; auto.
        -- intros p Hp. apply in_app_iff in Hp. destruct Hp as [Hp|Hp]; [auto|specialize (Hge p Hp); lra].
    + destruct (a_best a); [contradiction|]. subst ins. simpl.
      repeat split; auto; intros p Hp; apply (Hge p Hp).
  - apply best_index_none in Eb. rewrite Eb, app_nil_r. exact HB.
Qed.

Lemma ghost_best (c : cfg) (h : list aop) : forall a acc,
  AInv c a -> BestOK a acc -> wf_hist c h ->
  BestOK (fold_left (astep c) h a) (ghost c a h acc).
Proof.
  induction h as [|o t IH]; intros a acc HA HB Hwf; simpl; auto.
  assert (Hwo : wf_op c o) by (apply Hwf; simpl; auto).
  apply IH; [apply astep_ainv; auto| |intros o' Ho'; apply Hwf; simpl; auto].
  destruct o as [cs|x|]; unfold astep, writes.
  - rewrite add_is_commit. apply commit_best; auto. apply add_good_write; auto.
  - rewrite add_single_is_commit, single_winners_collect. apply commit_best; auto. apply single_good_write; auto.
  - unfold BestOK, clear; simpl. reflexivity.
Qed.

(** obj_max is the highest objective written since the last clear and best_elite is a complete
    written row (index, objective, post-insertion threshold, payload) with that objective *)
Theorem best_invariant (c : cfg) (h : list aop) :
  wf_hist c h -> BestOK (arun c h) (inserted c h).
Proof.
  intros Hwf. unfold arun, inserted. apply ghost_best; auto.
  - apply init_ainv.
  - unfold BestOK; simpl. reflexivity.
Qed.

(** every written row was, right after its call, the content of its cell *)
Lemma written_is_content (c : cfg) (a : archive) o k r :
  AInv c a -> wf_op c o -> In (k, r) (writes c a o) -> content (astep c a o) k = Some r.
Proof.
  intros HA Hwf Hin. destruct o as [cs|x|]; unfold astep, writes in *.
  - pose proof (@add_good_write c a cs Hwf) as Hg. rewrite add_is_commit.
    rewrite (@commit_content P c a _ _ k HA (gw_nodup Hg) (gw_range Hg) (gw_some Hg)).
    change (batch_winners c (bump_add (a_store a)) cs) with (collect (cell_winner c a cs) (add_keys c a cs)) in Hin.
    apply collect_in in Hin. destruct Hin as [_ ->]. reflexivity.
  - pose proof (@single_good_write c a x Hwf) as Hg. rewrite add_single_is_commit.
    rewrite (@commit_content P c a _ _ k HA (gw_nodup Hg) (gw_range Hg) (gw_some Hg)).
    rewrite single_winners_collect in Hin.
    apply collect_in in Hin. destruct Hin as [_ ->]. reflexivity.
  - destruct Hin.
Qed.

(** a call that stores nothing changes no statistic *)
Theorem noop_call_keeps_stats (c : cfg) (a : archive) o :
  writes c a o = [] -> o <> Clear ->
  a_stats (astep c a o) = a_stats a /\ a_best (astep c a o) = a_best a /\ a_sum (astep c a o) = a_sum a.
Proof.
  intros Hw Hnc. destruct o as [cs|x|]; [| |congruence]; unfold astep, writes in *.
  - unfold add; simpl. rewrite Hw. unfold commit; simpl. auto.
  - unfold add_single; simpl. rewrite Hw. unfold commit; simpl. auto.
Qed.


(** * elitist archives: obj_max is the CURRENT maximum and best_elite is a CURRENT elite *)
Definition ThrEqObj (a : archive) : Prop := forall i r, content a i = Some r -> (r_thr r == r_obj r)%Q.

Definition EBest (a : archive) : Prop :=
  match st_max (a_stats a), a_best a with
  | None, None => forall i, content a i = None
  | Some m, Some (bi, r) =>
      m = r_obj r /\ content a bi = Some r /\ forall i r', content a i = Some r' -> (r_obj r' <= m)%Q
  | _, _ => False
  end.

Lemma commit_ebest (c : cfg) (a : archive) f l :
  AInv c a -> good_write c f l ->
  (forall k r, f k = Some r -> (r_thr r == r_obj r)%Q) ->
  (forall k r r0, f k = Some r -> content a k = Some r0 -> (r_thr r0 < r_obj r)%Q) ->
  ThrEqObj a -> EBest a ->
  let a' := commit c a (bump_add (a_store a)) (collect f l) in ThrEqObj a' /\ EBest a'.
Proof.
  intros HA Hg H1 H2 HT HE a'.
  assert (Hc : forall i, content a' i = match f i with Some r => Some r | None => content a i end)
    by (intros i; apply commit_content; auto; apply Hg).
  split.
  { intros i r Hr. rewrite Hc in Hr. destruct (f i) eqn:Ef; [inversion Hr; subst; eapply H1; eauto|eapply HT; eauto]. }
  unfold EBest. subst a'. unfold commit in *.
  destruct (best_index (collect f l)) as [bi|] eqn:Eb.
  - unfold best_index in Eb.
    destruct (first_argmax (fun p : nat * row => r_obj (snd p)) (collect f l)) as [[bk rb]|] eqn:Ef; [|discriminate].
    simpl in Eb. inversion Eb; subst bk; clear Eb.
    pose proof (first_argmax_in _ _ Ef) as Hin.
    pose proof (first_argmax_ge _ _ Ef) as Hge. simpl in Hge.
    pose proof (@commit_row_written c a f l bi rb HA Hg Hin) as Hrow.
    assert (Hfb : f bi = Some rb) by (apply collect_in in Hin; tauto).
    assert (Hw : forall i r', f i = Some r' -> (r_obj r' <= r_obj rb)%Q).
    { intros i r' Hf. apply (Hge (i, r')). apply collect_in. split; auto. apply (gw_some Hg). congruence. }
    unfold stats_update in *. rewrite Hrow in *.
    unfold EBest in HE.
    destruct (st_max (a_stats a)) as [m|] eqn:Em.
    + destruct (a_best a) as [[b0 r0]|] eqn:Eb0; [|contradiction].
      destruct HE as (Hm & Hc0 & Hmax).
      destruct (Qltb m (r_obj rb)) eqn:El; simpl in *.
      * apply Qltb_lt in El. repeat split; auto.
        -- rewrite Hc, Hfb. reflexivity.
        -- intros i r' Hr. rewrite Hc in Hr. destruct (f i) eqn:Efi.
           ++ inversion Hr; subst. eapply Hw; eauto.
           ++ specialize (Hmax i r' Hr). lra.
      * apply Qltb_ge in El. repeat split; auto.
        -- rewrite Hc. destruct (f b0) as [rw|] eqn:Efb; [|exact Hc0].
           exfalso. pose proof (H2 b0 rw r0 Efb Hc0) as Hlt.
           pose proof (HT b0 r0 Hc0) as Heq. pose proof (Hw b0 rw Efb) as Hle. subst m. lra.
        -- intros i r' Hr. rewrite Hc in Hr. destruct (f i) eqn:Efi.
           ++ inversion Hr; subst. specialize (Hw i r' Efi). lra.
           ++ apply (Hmax i r' Hr).
    + destruct (a_best a); [contradiction|]. simpl in *.
      repeat split; auto.
      * rewrite Hc, Hfb. reflexivity.
      * intros i r' Hr. rewrite Hc in Hr. destruct (f i) eqn:Efi.
        -- inversion Hr; subst. eapply Hw; eauto.
        -- rewrite HE in Hr. discriminate.
  - apply best_index_none in Eb. simpl.
    assert (Hfn : forall i, f i = None).
    { intros i. destruct (f i) eqn:Efi; auto. exfalso.
      assert (In (i, r) (collect f l)) by (apply collect_in; split; auto; apply (gw_some Hg); congruence).
      rewrite Eb in H. destruct H. }
    unfold EBest in HE.
    destruct (st_max (a_stats a)) as [m|]; destruct (a_best a) as [[b0 r0]|]; auto.
    + destruct HE as (Hm & Hc0 & Hmax). repeat split; auto.
      * rewrite Hc, Hfn. auto.
      * intros i r' Hr. rewrite Hc, Hfn in Hr. eauto.
    + intros i. rewrite Hc, Hfn. auto.
Qed.

Lemma astep_ebest (c : cfg) (a : archive) o :
  elitist c -> AInv c a -> wf_op c o -> ThrEqObj a -> EBest a ->
  ThrEqObj (astep c a o) /\ EBest (astep c a o).
Proof.
  intros [Htm Hlr] HA Hwf HT HE. destruct o as [cs|x|]; unfold astep.
  - rewrite add_is_commit. apply commit_ebest; auto.
    + apply add_good_write; auto.
    + intros k r Hf. rewrite (cell_winner_spec cs k HA) in Hf.
      destruct (first_argmax c_obj (accepted c a cs k)) as [w|]; [|discriminate].
      inversion Hf; subst; simpl. unfold new_thr_spec. rewrite Htm. apply Qred_correct.
    + intros k r r0 Hf Hc0. rewrite (cell_winner_spec cs k HA) in Hf.
      destruct (first_argmax c_obj (accepted c a cs k)) as [w|] eqn:E; [|discriminate].
      inversion Hf; subst; simpl. apply first_argmax_in in E. unfold accepted in E.
      apply filter_In in E. destruct E as [Hg Hacc]. apply group_in in Hg. destruct Hg as [_ Hk].
      unfold accepts in Hacc. rewrite Hk, Hc0 in Hacc. apply Qltb_lt in Hacc. exact Hacc.
  - rewrite add_single_is_commit. apply commit_ebest; auto.
    + apply single_good_write; auto.
    + intros k r Hf. unfold single_row in Hf.
      destruct (Nat.eqb k (c_cell x) && single_ok c (bump_add (a_store a)) x)%bool; [|discriminate].
      inversion Hf; subst; simpl. rewrite (single_thr_formula x HA), Hlr. ring.
    + intros k r r0 Hf Hc0. unfold single_row in Hf.
      destruct (Nat.eqb_spec k (c_cell x)) as [->|]; [|simpl in Hf; discriminate].
      simpl in Hf. rewrite (single_ok_accepts x HA) in Hf.
      destruct (accepts c a x) eqn:Ea; [|discriminate]. inversion Hf; subst; simpl.
      unfold accepts in Ea. rewrite Hc0 in Ea. apply Qltb_lt in Ea. exact Ea.
  - split.
    + intros i r Hr. rewrite clear_content in Hr. discriminate.
    + unfold EBest, clear; simpl. intros i. apply (clear_content c a i).
Qed.

Theorem elitist_best_is_current (c : cfg) (h : list aop) :
  elitist c -> wf_hist c h -> EBest (arun c h).
Proof.
  intros He Hwf. unfold arun.
  assert (H0 : ThrEqObj (arch_init P c) /\ EBest (arch_init P c)).
  { split; [intros i r Hr; rewrite init_content in Hr; discriminate|].
    unfold EBest; simpl. intros i. apply init_content. }
  revert H0. generalize (init_ainv P c). generalize (arch_init P c).
  induction h as [|o t IH]; intros a HA [HT HE]; simpl; auto.
  apply IH.
  - intros o' Ho'. apply Hwf; simpl; auto.
  - apply astep_ainv; auto.
  - apply astep_ebest; auto. apply Hwf; simpl; auto.
Qed.

End C06.
