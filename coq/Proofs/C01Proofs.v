(** C01: in elitist mode every cell holds the first arg-max of what was routed to it since the last clear. *)
From Coq Require Import List Arith Bool ZArith QArith Qreduction Lia Lqa Sorted Permutation.
From PV Require Import Base.ListUtil Base.QUtil Base.FirstArgmax Model.Store Proofs.StoreProofs
     Model.Archive Proofs.ArchiveProofs.
Import ListNotations.
Set Implicit Arguments.
Local Open Scope nat_scope.
Local Arguments Qred : simpl never.
Local Arguments Qplus : simpl never.
Local Arguments Qmult : simpl never.
Local Arguments Qminus : simpl never.
Local Arguments Qopp : simpl never.
Local Arguments Qltb : simpl never.
Local Arguments Qle_bool : simpl never.

Section C01.
Variable P : Type.
Notation cand := (cand P).
Notation row := (row P).
Notation archive := (archive P).
Notation aop := (aop P).

(** default settings: threshold_min = -inf, learning_rate = 1 *)
Definition elitist (c : cfg) : Prop := tmin c = None /\ (lr c == 1)%Q.

(** the elite stored for a winning candidate: its own objective and payload, threshold = objective *)
Definition elite_of (x : cand) : row := mkRow (c_obj x) (Qred (c_obj x)) (c_pay x).

(** Spec side: everything submitted since the last clear, in submission order *)
Fixpoint submitted_acc (h : list aop) (acc : list cand) : list cand :=
  match h with
  | [] => acc
  | Add cs :: t => submitted_acc t (acc ++ cs)
  | AddSingle x :: t => submitted_acc t (acc ++ [x])
  | Clear :: t => submitted_acc t []
  end.
Definition submitted (h : list aop) : list cand := submitted_acc h [].
Definition routed (h : list aop) (i : nat) : list cand := group i (submitted h).

Definition wf_op (c : cfg) (o : aop) : Prop :=
  match o with Add cs => wf_cells c cs | AddSingle x => c_cell x < cells c | Clear => True end.
Definition wf_hist (c : cfg) (h : list aop) : Prop := forall o, In o h -> wf_op c o.

Definition J (c : cfg) (a : archive) (acc : list cand) : Prop :=
  AInv c a /\ forall i, content a i = option_map elite_of (first_argmax c_obj (group i acc)).

Lemma content_cases (c : cfg) (a : archive) i :
  AInv c a ->
  (content a i = None /\ get_occ (a_store a) i = false) \/
  (exists r, content a i = Some r /\ get_occ (a_store a) i = true /\ get_row (a_store a) i = Some r).
Proof.
  intros [HI _]. unfold content. destruct (get_occ (a_store a) i) eqn:E; [right|left; auto].
  destruct (get_row (a_store a) i) as [r|] eqn:Er; [exists r; auto|].
  exfalso. apply (inv_written HI i E Er).
Qed.

Lemma filter_true A (f : A -> bool) l : (forall x, In x l -> f x = true) -> filter f l = l.
Proof.
  induction l as [|x t IH]; intros H; simpl; auto.
  rewrite (H x) by (simpl; auto). f_equal. apply IH. intros; apply H; simpl; auto.
Qed.

(** one batch, one cell *)
Lemma elitist_cell_winner (c : cfg) (a : archive) (cs : list cand) i inc :
  elitist c -> AInv c a ->
  content a i = option_map elite_of inc ->
  match cell_winner c a cs i with Some r => Some r | None => content a i end =
  option_map elite_of (fam c_obj inc (group i cs)).
Proof.
  intros [Htm Hlr] HA Hc.
  unfold cell_winner, winner_row. rewrite group_filter.
  set (s1 := bump_add (a_store a)).
  destruct (content_cases i HA) as [[Hnone Hocc]|(r & Hsome & Hocc & Hrow)].
  - (* empty cell: everything is insertable *)
    rewrite Hnone in *. destruct inc; [discriminate|]. simpl.
    rewrite filter_true.
    + unfold new_thr. rewrite Htm. fold (first_argmax c_obj (group i cs)).
      destruct (first_argmax c_obj (group i cs)); reflexivity.
    + intros x Hx. apply group_in in Hx. destruct Hx as [_ Hx].
      unfold can_insert, look, thr_ext. simpl. rewrite Hx.
      change (get_occ s1 i) with (get_occ (a_store a) i). rewrite Hocc, Htm. reflexivity.
  - rewrite Hsome in *. destruct inc as [w0|]; [|discriminate]. simpl in Hc. inversion Hc; subst r. clear Hc.
    rewrite (fam_filter c_obj w0 (group i cs)).
    assert (Hf : filter (can_insert c s1) (group i cs) =
                 filter (fun x => Qltb (c_obj w0) (c_obj x)) (group i cs)).
    { apply filter_ext_in. intros x Hx. apply group_in in Hx. destruct Hx as [_ Hx].
      unfold can_insert, look, thr_ext. simpl. rewrite Hx.
      change (get_occ s1 i) with (get_occ (a_store a) i).
      change (get_row s1 i) with (get_row (a_store a) i).
      rewrite Hocc, Hrow. simpl. apply Qltb_compat; [apply Qred_correct|reflexivity]. }
    rewrite Hf. unfold new_thr. rewrite Htm.
    destruct (first_argmax c_obj (filter (fun x => Qltb (c_obj w0) (c_obj x)) (group i cs))); reflexivity.
Qed.

Lemma group_single i (x : cand) : group i [x] = if Nat.eqb (c_cell x) i then [x] else [].
Proof. unfold group; simpl. destruct (Nat.eqb (c_cell x) i); reflexivity. Qed.

Lemma elitist_single (c : cfg) (a : archive) (x : cand) i inc :
  elitist c -> AInv c a ->
  content a i = option_map elite_of inc ->
  match single_row c a x i with Some r => Some r | None => content a i end =
  option_map elite_of (fam c_obj inc (group i [x])).
Proof.
  intros [Htm Hlr] HA Hc. unfold single_row. rewrite group_single.
  rewrite (Nat.eqb_sym (c_cell x) i).
  destruct (Nat.eqb_spec i (c_cell x)) as [->|Hne]; simpl; [|auto].
  set (s1 := bump_add (a_store a)).
  destruct (content_cases (c_cell x) HA) as [[Hnone Hocc]|(r & Hsome & Hocc & Hrow)].
  - rewrite Hnone in *. destruct inc; [discriminate|]. simpl.
    unfold single_ok, look. simpl.
    change (get_occ s1 (c_cell x)) with (get_occ (a_store a) (c_cell x)). rewrite Hocc, Htm. simpl.
    unfold elite_of. f_equal. f_equal.
    unfold single_thr, thr_base, look. simpl.
    change (get_occ s1 (c_cell x)) with (get_occ (a_store a) (c_cell x)). rewrite Hocc, Htm.
    apply Qred_complete. rewrite Hlr. ring.
  - rewrite Hsome in *. destruct inc as [w0|]; [|discriminate]. simpl in Hc. inversion Hc; subst r. clear Hc.
    simpl. unfold single_ok, look, thr_base. simpl.
    change (get_occ s1 (c_cell x)) with (get_occ (a_store a) (c_cell x)).
    change (get_row s1 (c_cell x)) with (get_row (a_store a) (c_cell x)).
    rewrite Hocc, Hrow. simpl.
    unfold better.
    rewrite (Qltb_compat (Qred (c_obj w0)) (c_obj w0) (c_obj x) (c_obj x) (Qred_correct _) (Qeq_refl _)).
    destruct (Qltb (c_obj w0) (c_obj x)); [|reflexivity].
    unfold elite_of. f_equal. f_equal.
    unfold single_thr, thr_base, look. simpl.
    change (get_occ s1 (c_cell x)) with (get_occ (a_store a) (c_cell x)).
    change (get_row s1 (c_cell x)) with (get_row (a_store a) (c_cell x)).
    rewrite Hocc, Hrow. simpl.
    apply Qred_complete. rewrite Hlr. ring.
Qed.

Lemma J_step (c : cfg) (a : archive) acc o :
  elitist c -> J c a acc -> wf_op c o ->
  J c (astep c a o) (submitted_acc [o] acc).
Proof.
  intros He [HA Hc] Hwf. destruct o as [cs|x|]; unfold astep; cbn [submitted_acc]; simpl in Hwf.
  - split; [apply add_inv; auto|]. intros i.
    rewrite (add_content i HA Hwf), group_app, first_argmax_app.
    apply elitist_cell_winner; auto.
  - split; [apply add_single_inv; auto|]. intros i.
    rewrite (add_single_content x i HA Hwf), group_app, first_argmax_app.
    apply elitist_single; auto.
  - split; [apply clear_ainv; auto|]. intros i. rewrite clear_content. reflexivity.
Qed.

Lemma J_run (c : cfg) h : forall a acc,
  elitist c -> J c a acc -> wf_hist c h ->
  J c (fold_left (astep c) h a) (submitted_acc h acc).
Proof.
  induction h as [|o t IH]; intros a acc He HJ Hwf; simpl; auto.
  assert (Hstep : J c (astep c a o) (submitted_acc [o] acc)).
  { apply J_step; auto. apply Hwf; simpl; auto. }
  assert (Hwf' : wf_hist c t) by (intros o' Ho'; apply Hwf; simpl; auto).
  specialize (IH _ _ He Hstep Hwf').
  destruct o; simpl in *; exact IH.
Qed.

Lemma J_init (c : cfg) : J c (arch_init P c) [].
Proof. split; [apply init_ainv|]. intros i. rewrite init_content. reflexivity. Qed.

(** * The theorems *)
Theorem contents_spec (c : cfg) (h : list aop) (i : nat) :
  elitist c -> wf_hist c h ->
  content (arun c h) i = option_map elite_of (first_argmax c_obj (routed h i)).
Proof.
  intros He Hwf. unfold arun, routed, submitted.
  destruct (J_run He (J_init c) Hwf) as [_ H]; auto.
Qed.

Theorem occupied_iff_routed (c : cfg) (h : list aop) (i : nat) :
  elitist c -> wf_hist c h ->
  (content (arun c h) i <> None <-> routed h i <> []).
Proof.
  intros He Hwf. rewrite contents_spec by auto. rewrite <- (fam_none_iff c_obj).
  destruct (first_argmax c_obj (routed h i)); simpl; split; congruence.
Qed.

Lemma submitted_acc_app h1 h2 acc : submitted_acc (h1 ++ h2) acc = submitted_acc h2 (submitted_acc h1 acc).
Proof.
  revert acc; induction h1 as [|o t IH]; intros acc; simpl; auto.
  destruct o; apply IH.
Qed.

(** one more (non-clear) call never lowers a cell's objective and never empties a cell *)
Theorem objective_monotone (c : cfg) (h : list aop) (o : aop) (i : nat) r :
  elitist c -> wf_hist c (h ++ [o]) -> o <> Clear ->
  content (arun c h) i = Some r ->
  exists r', content (arun c (h ++ [o])) i = Some r' /\ (r_obj r <= r_obj r')%Q.
Proof.
  intros He Hwf Hnc Hr.
  assert (Hwf1 : wf_hist c h) by (intros o' Ho'; apply Hwf, in_or_app; auto).
  rewrite contents_spec in Hr by auto.
  rewrite contents_spec by auto.
  unfold routed, submitted in *. rewrite submitted_acc_app.
  destruct (first_argmax c_obj (group i (submitted_acc h []))) as [w0|] eqn:E; [|discriminate].
  simpl in Hr. inversion Hr; subst r. clear Hr.
  set (acc := submitted_acc h []) in *.
  assert (Hnew : exists l, submitted_acc [o] acc = acc ++ l).
  { destruct o; simpl; eauto. congruence. }
  destruct Hnew as [l ->]. rewrite group_app, first_argmax_app, E.
  destruct (fam_some c_obj w0 (group i l)) as [w Hw]. rewrite Hw. simpl.
  eexists; split; [reflexivity|]. simpl. destruct (fam_ge c_obj _ _ Hw) as [Hge _]. exact Hge.
Qed.

(** contents depend only on the sequence of candidates submitted since the last clear, not on how it
    was cut into calls: splitting, merging or single-stepping batches (batch sizes 0 and 1 included) *)
Theorem batching_invariance (c : cfg) (h1 h2 : list aop) (i : nat) :
  elitist c -> wf_hist c h1 -> wf_hist c h2 ->
  submitted h1 = submitted h2 ->
  content (arun c h1) i = content (arun c h2) i.
Proof.
  intros He H1 H2 Hs. rewrite !contents_spec by auto. unfold routed. rewrite Hs. reflexivity.
Qed.

(** len = number of distinct cells routed to *)
Theorem len_spec (c : cfg) (h : list aop) :
  elitist c -> wf_hist c h ->
  len (a_store (arun c h)) = length (sort_uniq (map c_cell (submitted h))).
Proof.
  intros He Hwf.
  destruct (J_run He (J_init c) Hwf) as [HA _]. fold (arun c h) in HA.
  unfold len. apply Permutation_length, NoDup_Permutation.
  - apply (inv_nodup (ainv_store HA)).
  - apply sort_uniq_NoDup.
  - intros i. rewrite (inv_olist_occ (ainv_store HA)), sort_uniq_In.
    pose proof (occupied_iff_routed i He Hwf) as Hoc.
    destruct (content_cases i HA) as [[Hn Ho]|(r & Hs & Ho & _)].
    + rewrite Ho. split; [discriminate|]. intros Hin. exfalso.
      apply in_map_iff in Hin. destruct Hin as (x & Hx & Hin).
      assert (routed h i <> []).
      { intros Hnil. assert (In x (routed h i)) by (apply group_in; auto). rewrite Hnil in H. destruct H. }
      apply Hoc in H. congruence.
    + rewrite Ho. split; auto. intros _.
      assert (Hne : routed h i <> []) by (apply Hoc; congruence).
      destruct (routed h i) as [|x t] eqn:E; [congruence|].
      assert (Hx : In x (routed h i)) by (rewrite E; simpl; auto).
      apply group_in in Hx. destruct Hx as [Hx <-]. apply in_map; auto.
Qed.

End C01.
